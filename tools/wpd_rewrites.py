"""wpd_rewrites.py -- source-level, fail-closed pre-processing for the C12/C13 translator sites.

The shared translator (py2gallina.py) is used unchanged.  A `custom` site built by `kernel_site`
first rewrites a *copy* of the function's ast with a few exact, meaning-preserving steps that are
declared in the site (each step raises `Unsupported` when the source no longer has the shape it
was written for -- the tie is then broken, never approximated) and then calls
`translate_kernel` / `translate_guards`:

  align_identity   : drop `a, b = xr.align(a, b)`        (label alignment is done by the harness:
                     every input is handed to the model on the same sorted label set)
  truthy_scalars   : `if <name>:` for a scalar float parameter  ->  `if <name> != 0:`
                     (Python truthiness of a float: only 0.0 is falsy, NaN is truthy = numpy `!=`)
  params_from      : drop `<name> = <exact source text>` and treat <name> as a parameter
                     (e.g. `da_thresholds = decision_weights[prob_threshold_dim]`: the coordinate
                     is passed to the kernel by the model)
  assume_default   : `if <name>: A else: B` -> B (or A) when the keyword parameter <name> has the
                     stated constant default in the *current* signature (callers under study never
                     pass it)
  body_from        : drop every statement before the first one whose source starts with the given
                     text; names defined by the dropped part become parameters (they are hand-modelled
                     and tied by the correspondence check, e.g. the member counts of the ensemble Brier score)
  not_none         : `<name> is not None` -> True (where present), for an optional scalar parameter whose None case the model
                     handles itself (e.g. `discount_distance is not None and discount_distance < 0`)
  reductions       : `<text>` -> Name, for scalar reductions such as `fcst.max()` that the model
                     computes itself and passes in as a parameter
and `Kernel2` accepts branch-local temporaries in an `if` statement (names assigned in one branch
only that did not exist before, or whose type differs between the paths): they are not exported
from the `if`, and are removed from the environment so that any later use is an error.
"""
import ast
import copy

import py2gallina as T


def _fn(tree, qualname):
    return T.find_function(tree, qualname)


def rewrite(tree, site):
    tree = copy.deepcopy(tree)
    fn = _fn(tree, site["func"])
    steps = site.get("rewrites", {})

    # ---- body_from ----
    if "body_from" in steps:
        idx = [i for i, st in enumerate(fn.body) if T.src(st).startswith(steps["body_from"])]
        if len(idx) != 1:
            raise T.Unsupported(f"expected exactly one statement starting with `{steps['body_from']}`, found {len(idx)}")
        fn.body = fn.body[idx[0]:]

    # ---- align_identity ----
    if steps.get("align_identity"):
        hit = 0
        for s in list(fn.body):
            if isinstance(s, ast.Assign) and isinstance(s.value, ast.Call) and T.src(s.value.func) == "xr.align":
                tgt = s.targets[0]
                if not (len(s.targets) == 1 and isinstance(tgt, ast.Tuple) and not s.value.keywords
                        and [T.src(x) for x in tgt.elts] == [T.src(x) for x in s.value.args]
                        and all(isinstance(x, ast.Name) for x in tgt.elts)):
                    raise T.Unsupported("xr.align is not the identity pattern: " + T.src(s))
                fn.body.remove(s)
                hit += 1
        if hit != 1:
            raise T.Unsupported(f"expected exactly one `a, b = xr.align(a, b)`, found {hit}")

    # ---- params_from ----
    for name, text in steps.get("params_from", {}).items():
        hit = 0
        for s in list(fn.body):
            if isinstance(s, ast.Assign) and len(s.targets) == 1 and isinstance(s.targets[0], ast.Name) \
                    and s.targets[0].id == name:
                if T.src(s.value) != text:
                    raise T.Unsupported(f"{name} is no longer `{text}` but `{T.src(s.value)}`")
                fn.body.remove(s)
                hit += 1
        if hit != 1:
            raise T.Unsupported(f"expected exactly one assignment `{name} = {text}`, found {hit}")

    # ---- assume_default ----
    for name, (default, keep) in steps.get("assume_default", {}).items():
        args = fn.args
        found = None
        pos = args.args[len(args.args) - len(args.defaults):]
        for a, d in list(zip(pos, args.defaults)) + list(zip(args.kwonlyargs, args.kw_defaults)):
            if a.arg == name:
                found = d
        if not (isinstance(found, ast.Constant) and found.value is default):
            raise T.Unsupported(f"default of {name} is no longer {default!r}")
        hit = 0
        for i, s in enumerate(list(fn.body)):
            if isinstance(s, ast.If) and isinstance(s.test, ast.Name) and s.test.id == name:
                idx = fn.body.index(s)
                fn.body[idx:idx + 1] = s.orelse if keep == "else" else s.body
                hit += 1
        if hit != 1:
            raise T.Unsupported(f"expected exactly one `if {name}:`, found {hit}")

    # ---- truthy_scalars ----
    names = set(steps.get("truthy_scalars", []))
    if names:
        hit = 0
        for node in ast.walk(fn):
            if isinstance(node, ast.If) and isinstance(node.test, ast.Name) and node.test.id in names:
                node.test = ast.Compare(left=ast.Name(id=node.test.id, ctx=ast.Load()), ops=[ast.NotEq()],
                                        comparators=[ast.Constant(value=0)])
                hit += 1
        if hit != len(names):
            raise T.Unsupported(f"expected one `if <scalar>:` for each of {sorted(names)}, found {hit}")

    # ---- not_none ----
    nn = set(steps.get("not_none", []))
    if nn:
        hit = set()

        class NN(ast.NodeTransformer):
            def visit_Compare(self, node):
                self.generic_visit(node)
                if (len(node.ops) == 1 and isinstance(node.ops[0], ast.IsNot) and isinstance(node.left, ast.Name) and node.left.id in nn
                        and isinstance(node.comparators[0], ast.Constant) and node.comparators[0].value is None):
                    hit.add(node.left.id)
                    return ast.copy_location(ast.Constant(value=True), node)
                return node
        NN().visit(fn)   # absent test: nothing to rewrite (the parameter is then compared as a plain number)

    # ---- reductions ----
    red = steps.get("reductions", {})
    if red:
        seen = set()

        class R(ast.NodeTransformer):
            def visit(self, node):
                if isinstance(node, ast.expr):
                    t = T.src(node)
                    if t in red:
                        seen.add(t)
                        return ast.copy_location(ast.Name(id=red[t], ctx=ast.Load()), node)
                return self.generic_visit(node)
        R().visit(fn)
        if seen != set(red):
            raise T.Unsupported(f"reduction expressions not found: {sorted(set(red) - seen)}")
    ast.fix_missing_locations(tree)
    return tree


class Kernel2(T.Kernel):
    """T.Kernel + branch-local temporaries inside `if` statements"""

    def ifstmt(self, s, indent):
        c = self.cond(s.test)
        assigned = sorted(T.assigned_names(s))
        if not assigned:
            raise T.Unsupported("if without assignments")
        saved = dict(self.X.ty)

        def branch(stmts):
            self.X.ty = dict(saved)
            lets = self.block(stmts, indent + 1)
            return lets, dict(self.X.ty)
        l1, e1 = branch(s.body)
        l2, e2 = branch(s.orelse)
        names = [n for n in assigned if n in e1 and n in e2 and e1[n] == e2[n]]
        local = [n for n in assigned if n not in names]
        if not names:
            raise T.Unsupported("if exports no name")
        self.X.ty = dict(saved)
        for n in names:
            self.X.ty[n] = e1[n]
        for n in local:           # poisoned: a later use is a free-variable error
            self.X.ty.pop(n, None)
        pad = "  " * (indent + 1)
        tup = "(" + ", ".join(T.cname(n) for n in names) + ")"

        def emit(lets):
            return "".join(f"{pad}  let {a} := {b} in\n" for a, b in lets) + f"{pad}  {tup}"
        rhs = f"\n{pad}if {c} then\n{emit(l1)}\n{pad}else\n{emit(l2)}"
        lhs = T.cname(names[0]) if len(names) == 1 else "'" + tup
        return lhs, rhs


def kernel_site(tree, site, TT):
    tree2 = rewrite(tree, site)
    old = T.Kernel
    T.Kernel = Kernel2
    try:
        return T.translate_kernel(tree2, site)
    finally:
        T.Kernel = old


def guards_site(tree, site, TT):
    tree2 = rewrite(tree, site)
    return T.translate_guards(tree2, site)
