#!/usr/bin/env python3
"""selftest_fallback.py [CXX ...] -- run every module's run_without_model (the model-free predicates used when a property's
model no longer builds) on the CURRENT tree: they must be silent on the unchanged /repo and must not raise.
Development aid, not a registered check."""
import importlib, os, sys, time, traceback
ROOT = os.path.dirname(os.path.dirname(os.path.abspath(__file__)))
sys.path.insert(0, os.path.join(ROOT, "harness"))
import core
props = [a.upper() for a in sys.argv[1:]] or [f"C{i:02d}" for i in range(1, 21)]
bad = 0
for P in props:
    mod = importlib.import_module("props." + P.lower())
    if not hasattr(mod, "run_without_model"):
        print(P, "no run_without_model")
        continue
    ctx = core.Ctx(P, os.environ.get("VERIF_TIER", "quick"), int(os.environ.get("VERIF_SEED", "20260930")))
    ctx.deadline = time.time() + 600
    ctx.build = {"driver_ok": False, "files": {}, "sites": {}}
    t0 = time.time()
    try:
        mod.run_without_model(ctx)
        err = None
    except Exception:
        err = traceback.format_exc()
    print(P, f"evaluations={ctx.evaluations} violations={len(ctx.violations)} tie_failures={len(ctx.tie_failures)} wall={time.time() - t0:.1f}s", "EXCEPTION" if err else "")
    if err:
        print(err)
    for v in ctx.violations[:3]:
        print("   ", v["what"][:300])
    bad += bool(err) or bool(ctx.violations)
sys.exit(1 if bad else 0)
