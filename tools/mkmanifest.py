#!/usr/bin/env python3
"""mkmanifest.py -- write MANIFEST.json from the property modules under harness/props (each module carries its own
level text, technique and notes) plus the not_applicable list for properties without a module."""
import importlib, json, os, sys
ROOT = os.path.dirname(os.path.dirname(os.path.abspath(__file__)))
sys.path.insert(0, os.path.join(ROOT, "harness"))
os.environ.setdefault("VERIF_NO_IMPORT_SCORES", "1")
props = [json.loads(l) for l in open(os.path.join(ROOT, "properties.jsonl"))]
checks, na = [], []
for p in props:
    pid = p["id"]
    path = os.path.join(ROOT, "harness", "props", pid.lower() + ".py")
    if not os.path.exists(path):
        na.append({"property_id": pid, "reason": "check not built yet (planned in DESIGN.md section 6); nothing is claimed for this property"})
        continue
    src = open(path).read()
    ns = {}
    # read only the metadata constants, without importing numpy/xarray
    import ast
    tree = ast.parse(src)
    for node in tree.body:
        if isinstance(node, ast.Assign) and len(node.targets) == 1 and isinstance(node.targets[0], ast.Name) \
                and node.targets[0].id in ("LEVEL", "LEVEL_TEXT", "LEVEL_NOTE", "TECHNIQUE", "DESIGN_REF", "CLAIMED", "NA_REASON"):
            ns[node.targets[0].id] = ast.literal_eval(node.value)
    if ns.get("CLAIMED") is False:
        na.append({"property_id": pid, "reason": ns.get("NA_REASON", "not claimed")})
        continue
    checks.append({
        "property_id": pid,
        "quick_cmd": f"./check {pid} --tier quick",
        "thorough_cmd": f"./check {pid} --tier thorough",
        "evidence_file": f"/verif/evidence/{pid}.json",
        "replay_cmd_template": f"./check {pid} --replay {{path}}",
        "engine": "coq-proof+correspondence",
        "level_claimed": {"category": ns.get("LEVEL", "proof"), "text": ns.get("LEVEL_TEXT", ""), "design_ref": ns.get("DESIGN_REF", "DESIGN.md section 6, " + pid)},
        "level_note": ns.get("LEVEL_NOTE", ""),
        "technique": ns.get("TECHNIQUE", "machine-checked proof in Coq 8.16 about a model tied to the source by regeneration (translator) and a correspondence check"),
    })
man = {
    "version": 1,
    "setup_cmd": "./setup.sh",
    "hooks": {"guard": "NCI_SCORES_VERIF", "enable": "no hooks are needed: every observation point is a public return value or exception; the checks import /repo/src directly (PYTHONPATH=/repo/src)",
              "baseline_off_cmd": "cd /repo && /venv/bin/python -m pytest -ra -q -p no:cacheprovider --timeout=900 --continue-on-collection-errors",
              "source_commits": [], "add_only": True},
    "engines": [{"name": "coq-proof+correspondence", "path": "/verif/check", "serves_properties": [c["property_id"] for c in checks],
                 "kind_free_text": "Coq 8.16 theorems (coq/props) about executable Gallina models; models regenerated from /repo source by tools/py2gallina.py or hand-written and tied by a correspondence check (extracted OCaml driver vs the real implementation)"}],
    "checks": checks,
    "not_applicable": na,
    "notes": "See DESIGN.md. known_findings.json lists genuine defects recorded rather than repaired; fix: commits in /repo are recorded there as fixed entries.",
}
json.dump(man, open(os.path.join(ROOT, "MANIFEST.json"), "w"), indent=1)
print(f"manifest: {len(checks)} checks, {len(na)} not claimed")
