#!/bin/bash
# runall.sh [tier] -- run every claimed check once, print one summary line each
cd "$(dirname "$0")/.."
TIER=${1:-quick}
for P in $(python3 -c "import json; print(' '.join(c['property_id'] for c in json.load(open('MANIFEST.json'))['checks']))"); do
  START=$(date +%s)
  OUT=$(./check $P --tier $TIER 2>&1)
  RC=$?
  echo "$P rc=$RC $(( $(date +%s) - START ))s known=$(echo "$OUT" | grep -c '^KNOWN-FINDING') $(echo "$OUT" | grep '^VIOLATION' | head -1 | cut -c1-120) | $(echo "$OUT" | tail -1 | cut -c1-200)"
done
