#!/bin/bash
# try_seed.sh <patch.diff> <PROP> [<PROP>...]
# Runs the named checks against a scratch copy of /repo's source tree with the patch applied (the same thing as
# `git -C /repo apply <patch>; ./check ...; git -C /repo checkout -- .` but without touching /repo while other
# checks are running), then removes the copy.  Prints one line per check: CAUGHT (with/without failing input) / MISSED.
set -u
PATCH=$(readlink -f "$1"); shift
ROOT=$(cd "$(dirname "$0")/.." && pwd)
TMP=$(mktemp -d /tmp/tryseed.XXXXXX)
mkdir -p "$TMP/repo" && cp -r /repo/src "$TMP/repo/src"
( cd "$TMP/repo" && patch -s -p1 < "$PATCH" ) || { echo "PATCH-DOES-NOT-APPLY $PATCH"; rm -rf "$TMP"; exit 2; }
for P in "$@"; do
  OUT=$(cd "$ROOT" && VERIF_REPO="$TMP/repo" ./check "$P" 2>/dev/null | grep -v '^KNOWN-FINDING')
  RC=$?
  V=$(echo "$OUT" | grep '^VIOLATION' | head -1)
  if [ -n "$V" ]; then
    if echo "$V" | grep -q 'no-failing-input-found'; then echo "$P CAUGHT(no-failing-input-found) $(echo "$OUT" | tail -1)"; else echo "$P CAUGHT(failing-input) $(echo "$OUT" | tail -1)"; fi
  else echo "$P MISSED $(echo "$OUT" | tail -1)"; fi
done
rm -rf "$TMP"
# restore the build for the real tree
( cd "$ROOT" && python3 tools/build.py --quiet >/dev/null 2>&1 )
