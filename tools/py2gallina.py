#!/usr/bin/env python3
"""py2gallina -- fail-closed translator from nci/scores Python source to Gallina (route A).

It reads the *current* source text under <repo>/src/scores, and for every registered site
emits a Coq definition over the extended-value type `xv` of coq/lib/Xval.v.  Only a small,
explicitly whitelisted vocabulary of Python is accepted; anything else raises `Unsupported`
and the site is reported as untranslatable (the tie is then broken -- never approximated).

Three kinds of site:
  kernel : the backward slice of the named output variables (or of the return expression)
           of a function body, as a chain of `let`s over elementwise operations;
  guards : the `if <cond>: raise <Exc>` statements of a function, in order, as a function
           from the parameters to `option err` (first guard that fires), with named checker
           helpers inlined;
  metric : a method of a class whose body is an expression over a counts dictionary.
The sites themselves are declared in tools/sites.py.
"""
import ast
import sys
from fractions import Fraction


class Unsupported(Exception):
    pass


COQ_RESERVED = {
    "fix", "in", "at", "as", "if", "then", "else", "end", "fun", "let", "match", "with", "return",
    "forall", "exists", "Type", "Set", "Prop", "IF", "mod", "where", "for", "using", "cofix", "struct",
    "xadd", "xsub", "xmul", "xdiv", "xneg", "xabs", "xmin", "xmax", "xle", "xlt", "xge", "xgt", "sum",
    "fst", "snd", "pair", "list", "nat", "bool", "true", "false", "None", "Some", "option", "id", "pred",
    "S", "O", "Z", "Q", "N", "length", "map", "filter", "app", "rev", "nth", "negb", "andb", "orb", "not", "eq",
    "lt", "le", "gt", "ge", "max", "min", "abs", "plus", "mult", "minus", "opp", "inv", "proj1", "proj2",
}


def cname(n):
    return n + "_" if n in COQ_RESERVED else n


def qlit(v):
    if isinstance(v, bool):
        raise Unsupported("bool literal as number")
    q = Fraction(str(v)) if isinstance(v, float) else Fraction(v)
    return f"(XFin ({q.numerator} # {q.denominator}))"


BIN = {ast.Add: "xadd", ast.Sub: "xsub", ast.Mult: "xmul", ast.Div: "xdiv"}
CMP = {ast.Lt: "xlt", ast.LtE: "xle", ast.Gt: "xgt", ast.GtE: "xge", ast.Eq: "xeqv", ast.NotEq: "xnev"}
COQTY = {"num": "xv", "bool": "bool", "str": "string", "optnum": "option xv", "optstr": "option string",
         "numlist": "list xv", "optbool": "option bool"}


def is_attr(e, base, attr=None):
    return (isinstance(e, ast.Attribute) and isinstance(e.value, ast.Name) and e.value.id == base
            and (attr is None or e.attr == attr))


def src(e):
    try:
        return ast.unparse(e)
    except Exception:  # pragma: no cover
        return ast.dump(e)[:80]


class Expr:
    """expression translator with a tiny type inference: returns (coq_text, type)"""

    def __init__(self, types, funcs=None):
        self.ty = dict(types)          # python name -> type
        self.funcs = funcs or {}       # python callable name -> (coq name, result type) for Section variables

    def num(self, e):
        s, t = self.expr(e)
        if t == "bool":
            return f"(b2x {s})"
        if t != "num":
            raise Unsupported(f"expected number, got {t}: {src(e)}")
        return s

    def boolean(self, e):
        s, t = self.expr(e)
        if t != "bool":
            raise Unsupported(f"expected boolean, got {t}: {src(e)} (NaN is truthy in numpy)")
        return s

    def expr(self, e):
        if isinstance(e, ast.Constant):
            if isinstance(e.value, bool):
                return ("true" if e.value else "false"), "bool"
            if isinstance(e.value, (int, float)):
                return qlit(e.value), "num"
            if isinstance(e.value, str):
                return '"' + e.value.replace('"', '""') + '"', "str"
            if e.value is None:
                return "None", "none"
            raise Unsupported("constant " + repr(e.value))
        if isinstance(e, ast.Name):
            if e.id in self.ty:
                return cname(e.id), self.ty[e.id]
            raise Unsupported(f"free variable {e.id}")
        if is_attr(e, "np", "nan") or is_attr(e, "np", "NaN"):
            return "XNaN", "num"
        if is_attr(e, "np", "inf") or is_attr(e, "math", "inf"):
            return "(XInf true)", "num"
        if isinstance(e, ast.UnaryOp):
            if isinstance(e.op, ast.USub):
                return f"(xneg {self.num(e.operand)})", "num"
            if isinstance(e.op, ast.UAdd):
                return self.num(e.operand), "num"
            if isinstance(e.op, (ast.Invert, ast.Not)):
                s, t = self.expr(e.operand)
                if t == "bool":
                    return f"(negb {s})", "bool"
                if t in ("optnum",) and isinstance(e.op, ast.Not):
                    return f"(negb (py_truthy {s}))", "bool"
                raise Unsupported(f"negation of {t}: {src(e)}")
        if isinstance(e, ast.BinOp):
            if type(e.op) in BIN:
                return f"({BIN[type(e.op)]} {self.num(e.left)} {self.num(e.right)})", "num"
            if isinstance(e.op, ast.Pow) and isinstance(e.right, ast.Constant) and e.right.value in (2, 3):
                return f"(xpow{e.right.value} {self.num(e.left)})", "num"
            if isinstance(e.op, ast.Mod) and isinstance(e.right, ast.Constant) and isinstance(e.right.value, (int, float)) \
                    and e.right.value > 0:
                q = Fraction(str(e.right.value))
                return f"(xmodc ({q.numerator} # {q.denominator}) {self.num(e.left)})", "num"
            if isinstance(e.op, (ast.BitAnd, ast.BitOr)):
                op = "andb" if isinstance(e.op, ast.BitAnd) else "orb"
                return f"({op} {self.boolean(e.left)} {self.boolean(e.right)})", "bool"
            raise Unsupported("binop " + src(e))
        if isinstance(e, ast.BoolOp):
            op = "andb" if isinstance(e.op, ast.And) else "orb"
            parts = [self.boolean(v) for v in e.values]
            s = parts[0]
            for p in parts[1:]:
                s = f"({op} {s} {p})"
            return s, "bool"
        if isinstance(e, ast.Compare):
            terms = [e.left] + list(e.comparators)
            parts = []
            for a, op, b in zip(terms, e.ops, terms[1:]):
                parts.append(self.compare(a, op, b))
            s = parts[0]
            for p in parts[1:]:
                s = f"(andb {s} {p})"
            return s, "bool"
        if isinstance(e, ast.IfExp):
            c = self.boolean(e.test)
            a, ta = self.expr(e.body)
            b, tb = self.expr(e.orelse)
            if ta != tb:
                if {ta, tb} == {"num", "bool"}:
                    a, b = self.num(e.body), self.num(e.orelse)
                    ta = "num"
                else:
                    raise Unsupported("ifexp branch types " + src(e))
            return f"(if {c} then {a} else {b})", ta
        if isinstance(e, ast.Call):
            return self.call(e)
        raise Unsupported("expression " + src(e))

    def compare(self, a, op, b):
        if isinstance(op, (ast.Is, ast.IsNot)):
            if not (isinstance(b, ast.Constant) and b.value is None):
                raise Unsupported("is-comparison " + src(b))
            s, t = self.expr(a)
            if t not in ("optnum", "optstr", "optbool"):
                raise Unsupported(f"`is None` on {t}")
            r = f"(match {s} with None => true | Some _ => false end)"
            return r if isinstance(op, ast.Is) else f"(negb {r})"
        if isinstance(op, (ast.In, ast.NotIn)):
            s, t = self.expr(a)
            if t != "str" or not isinstance(b, (ast.List, ast.Tuple)) or not all(
                    isinstance(x, ast.Constant) and isinstance(x.value, str) for x in b.elts):
                raise Unsupported("membership " + src(b))
            r = "(" + " || ".join(f'String.eqb {s} "{x.value}"' for x in b.elts) + ")%bool"
            return r if isinstance(op, ast.In) else f"(negb {r})"
        sa, ta = self.expr(a)
        sb, tb = self.expr(b)
        if ta == "str" and tb == "str" and isinstance(op, (ast.Eq, ast.NotEq)):
            r = f"(String.eqb {sa} {sb})"
            return r if isinstance(op, ast.Eq) else f"(negb {r})"
        if type(op) not in CMP:
            raise Unsupported("comparison operator")
        return f"({CMP[type(op)]} {self.num(a)} {self.num(b)})"

    def kw(self, call, name):
        for k in call.keywords:
            if k.arg == name:
                return k.value
        return None

    def call(self, e):
        f = e.func
        args = e.args
        if isinstance(f, ast.Name):
            if f.id == "abs" and len(args) == 1:
                return f"(xabs {self.num(args[0])})", "num"
            if f.id == "float" and len(args) == 1:
                if isinstance(args[0], ast.Constant) and args[0].value in ("inf", "-inf", "nan"):
                    return {"inf": "(XInf true)", "-inf": "(XInf false)", "nan": "XNaN"}[args[0].value], "num"
                return self.num(args[0]), "num"
            if f.id in ("min", "max") and len(args) == 2 and not e.keywords:
                # Python builtin on scalars: min(a,b) = b if b < a else a (NaN-order dependent); only for finite scalars
                raise Unsupported("builtin min/max")
            if f.id in self.funcs:
                cn, rt = self.funcs[f.id]
                return "(" + " ".join([cn] + [self.num(a) for a in args]) + ")", rt
        if isinstance(f, ast.Attribute) and isinstance(f.value, ast.Name) and f.value.id in ("np", "xr", "numpy"):
            n = f.attr
            if n in ("abs", "absolute", "fabs") and len(args) == 1:
                return f"(xabs {self.num(args[0])})", "num"
            if n in ("minimum", "maximum", "fmax", "fmin") and len(args) == 2:
                op = {"minimum": "xmin", "maximum": "xmax", "fmax": "xfmax", "fmin": "xfmin"}[n]
                return f"({op} {self.num(args[0])} {self.num(args[1])})", "num"
            if n == "where" and len(args) == 3:
                c = self.boolean(args[0])
                a, ta = self.expr(args[1])
                b, tb = self.expr(args[2])
                if ta == "bool" and tb == "bool":
                    return f"(if {c} then {a} else {b})", "bool"
                return f"(xwhere3 {c} {self.num(args[1])} {self.num(args[2])})", "num"
            if n == "isnan" and len(args) == 1:
                return f"(xisnan {self.num(args[0])})", "bool"
            if n == "logical_and" and len(args) == 2:
                return f"(andb {self.boolean(args[0])} {self.boolean(args[1])})", "bool"
            if n == "logical_or" and len(args) == 2:
                return f"(orb {self.boolean(args[0])} {self.boolean(args[1])})", "bool"
            if n == "logical_not" and len(args) == 1:
                return f"(negb {self.boolean(args[0])})", "bool"
            if n in ("square",) and len(args) == 1:
                return f"(xpow2 {self.num(args[0])})", "num"
            raise Unsupported("call " + src(e))
        if isinstance(f, ast.Attribute):
            recv = f.value
            n = f.attr
            if n == "where" and 1 <= len(args) <= 2 and not e.keywords:
                c = self.boolean(args[0])
                if len(args) == 1:
                    return f"(xwhere {c} {self.num(recv)})", "num"
                return f"(xwhere3 {c} {self.num(recv)} {self.num(args[1])})", "num"
            if n == "where" and len(args) == 1 and self.kw(e, "other") is not None:
                return f"(xwhere3 {self.boolean(args[0])} {self.num(recv)} {self.num(self.kw(e, 'other'))})", "num"
            if n == "clip":
                lo = self.kw(e, "min") or (args[0] if len(args) > 0 else None)
                hi = self.kw(e, "max") or (args[1] if len(args) > 1 else None)
                s = self.num(recv)
                if lo is not None and not (isinstance(lo, ast.Constant) and lo.value is None):
                    s = f"(xclip_min {s} {self.num(lo)})"
                if hi is not None and not (isinstance(hi, ast.Constant) and hi.value is None):
                    s = f"(xclip_max {s} {self.num(hi)})"
                return s, "num"
            if n in ("notnull", "isnull") and not args:
                s = f"(xisnan {self.num(recv)})"
                return (f"(negb {s})" if n == "notnull" else s), "bool"
            if n == "fillna" and len(args) == 1:
                return f"(xfillna {self.num(recv)} {self.num(args[0])})", "num"
            if n == "astype" and len(args) == 1:
                return self.num(recv), "num"
            if n == "copy" and not args:
                return self.expr(recv)
        raise Unsupported("call " + src(e))


# ----------------------------------------------------------------------------------------------
# statements -> let-chains (kernel sites)
# ----------------------------------------------------------------------------------------------
def assigned_names(stmt):
    out = set()
    if isinstance(stmt, ast.Assign):
        for t in stmt.targets:
            if isinstance(t, ast.Name):
                out.add(t.id)
            elif isinstance(t, ast.Tuple):
                out |= {x.id for x in t.elts if isinstance(x, ast.Name)}
    elif isinstance(stmt, (ast.AugAssign, ast.AnnAssign)):
        if isinstance(stmt.target, ast.Name):
            out.add(stmt.target.id)
    elif isinstance(stmt, ast.If):
        for s in stmt.body + stmt.orelse:
            out |= assigned_names(s)
    return out


def used_names(node):
    return {n.id for n in ast.walk(node) if isinstance(n, ast.Name) and isinstance(n.ctx, ast.Load)}


def is_docstring(s):
    return isinstance(s, ast.Expr) and isinstance(s.value, ast.Constant) and isinstance(s.value.value, str)


def is_raise_if(s):
    return isinstance(s, ast.If) and all(isinstance(b, ast.Raise) for b in s.body) and not s.orelse


def backward_slice(body, outputs, stop_at=None, cut=()):
    """statements (in order) that the output names depend on.  Names in `cut` are inputs of the kernel
    (declared in the site's params): the statement assigning such a name is where the slice stops."""
    need = set(outputs)
    keep = []
    stmts = list(body)
    cut = set(cut)
    if stop_at is not None:
        stmts = stmts[:stop_at]
    for s in reversed(stmts):
        a = assigned_names(s)
        if a & need & cut:
            if not (isinstance(s, ast.Assign) and (a - {"_"}) <= cut):
                raise Unsupported("cut name assigned together with other names / by a compound statement")
            need -= a
            continue
        if a & need:
            keep.append(s)
            if isinstance(s, ast.If):
                # values may flow through from before the `if` when a branch does not assign
                need |= used_names(s)
            else:
                if isinstance(s, ast.AugAssign):
                    need |= {s.target.id}
                else:
                    need -= a
                need |= used_names(s.value) if hasattr(s, "value") and s.value is not None else set()
    keep.reverse()
    return keep


class Kernel:
    def __init__(self, types, funcs=None):
        self.X = Expr(types, funcs)

    def block(self, stmts, indent):
        """returns list of (lhs_text, rhs_text) lets; updates types"""
        lets = []
        pad = "  " * indent
        for s in stmts:
            if is_docstring(s):
                continue
            if isinstance(s, ast.Assign):
                if len(s.targets) != 1:
                    raise Unsupported("multiple assignment targets")
                t = s.targets[0]
                if isinstance(t, ast.Name):
                    v, ty = self.X.expr(s.value)
                    if ty == "none":
                        raise Unsupported("assignment of None")
                    self.X.ty[t.id] = ty
                    lets.append((cname(t.id), v))
                elif isinstance(t, ast.Tuple) and isinstance(s.value, ast.Tuple) and len(t.elts) == len(s.value.elts):
                    vals = [self.X.expr(v) for v in s.value.elts]
                    for x, (v, ty) in zip(t.elts, vals):
                        if not isinstance(x, ast.Name):
                            raise Unsupported("tuple target")
                    for x, (v, ty) in zip(t.elts, vals):
                        self.X.ty[x.id] = ty
                    lets.append(("'(" + ", ".join(cname(x.id) for x in t.elts) + ")",
                                 "(" + ", ".join(v for v, _ in vals) + ")"))
                else:
                    raise Unsupported("assignment target " + src(t))
            elif isinstance(s, ast.AnnAssign) and isinstance(s.target, ast.Name) and s.value is not None:
                v, ty = self.X.expr(s.value)
                self.X.ty[s.target.id] = ty
                lets.append((cname(s.target.id), v))
            elif isinstance(s, ast.AugAssign) and isinstance(s.target, ast.Name) and type(s.op) in BIN:
                v = f"({BIN[type(s.op)]} {self.X.num(s.target)} {self.X.num(s.value)})"
                self.X.ty[s.target.id] = "num"
                lets.append((cname(s.target.id), v))
            elif isinstance(s, ast.If):
                lets.append(self.ifstmt(s, indent))
            else:
                raise Unsupported("statement " + src(s)[:80])
        return lets

    def cond(self, test):
        s, t = self.X.expr(test)
        if t == "bool":
            return s
        if t == "optnum":   # Python truthiness of an optional number: None and 0 are falsy
            return f"(py_truthy {s})"
        raise Unsupported(f"if-test of type {t}: {src(test)}")

    def ifstmt(self, s, indent):
        c = self.cond(s.test)
        names = sorted(assigned_names(s))
        if not names:
            raise Unsupported("if without assignments")
        saved = dict(self.X.ty)
        # a branch that does not assign a name keeps its previous value (must exist)
        def branch(stmts):
            self.X.ty = dict(saved)
            lets = self.block(stmts, indent + 1)
            tys = {}
            for n in names:
                if n not in self.X.ty:
                    raise Unsupported(f"name {n} not defined on every path")
                tys[n] = self.X.ty[n]
            return lets, tys
        l1, t1 = branch(s.body)
        l2, t2 = branch(s.orelse)
        if t1 != t2:
            raise Unsupported("branches assign different types")
        self.X.ty = dict(saved)
        self.X.ty.update(t1)
        pad = "  " * (indent + 1)
        tup = "(" + ", ".join(cname(n) for n in names) + ")"
        def emit(lets):
            return "".join(f"{pad}  let {a} := {b} in\n" for a, b in lets) + f"{pad}  {tup}"
        rhs = f"\n{pad}if {c} then\n{emit(l1)}\n{pad}else\n{emit(l2)}"
        lhs = cname(names[0]) if len(names) == 1 else "'" + tup
        return lhs, rhs


def find_function(tree, qualname):
    parts = qualname.split(".")
    scope = tree.body
    node = None
    for p in parts:
        node = None
        for n in scope:
            if isinstance(n, (ast.FunctionDef, ast.ClassDef)) and n.name == p:
                node = n
        if node is None:
            raise Unsupported(f"function {qualname} not found")
        scope = node.body
    return node


def translate_kernel(tree, site):
    """site: dict(func, params{name:type}, outputs[names] | 'return', name, optional funcs, stop_before)"""
    fn = find_function(tree, site["func"])
    body = fn.body
    K = Kernel(site["params"], site.get("funcs"))
    outputs = site["outputs"]
    ret_expr = None
    if outputs == "return":
        rets = [s for s in body if isinstance(s, ast.Return)]
        if len(rets) != 1 or rets[0] is not body[-1]:
            raise Unsupported("expected exactly one trailing return")
        ret_expr = rets[0].value
        need = used_names(ret_expr)
        stmts = backward_slice(body[:-1], need)
    else:
        stop = None
        if "stop_before" in site:     # first statement whose source contains the marker
            for i, s in enumerate(body):
                if site["stop_before"] in src(s):
                    stop = i
                    break
            if stop is None:
                raise Unsupported("stop marker not found: " + site["stop_before"])
        cut = site.get("cut", ())
        for c in cut:
            if c not in site["params"]:
                raise Unsupported(f"cut name {c} is not a declared parameter")
        stmts = backward_slice(body, outputs, stop, cut)
    # parameters not declared but used -> free variable error arises naturally
    stmts = [s for s in stmts if not is_raise_if(s)]
    lets = K.block(stmts, 1)
    if ret_expr is not None:
        if isinstance(ret_expr, ast.Tuple):
            res = "(" + ", ".join(K.X.expr(x)[0] for x in ret_expr.elts) + ")"
        else:
            res = K.X.expr(ret_expr)[0]
    else:
        for o in outputs:
            if o not in K.X.ty:
                raise Unsupported(f"output {o} is never assigned")
        res = "(" + ", ".join(cname(o) for o in outputs) + ")" if len(outputs) > 1 else cname(outputs[0])
    args = " ".join(f"({cname(p)} : {COQTY[t]})" for p, t in site["params"].items())
    extra = "".join(f" ({cn} : {'xv -> ' * ar}xv)" for (cn, ar) in site.get("fun_params", []))
    text = f"Definition {site['name']}{extra} {args} :=\n"
    text += "".join(f"  let {a} := {b} in\n" for a, b in lets)
    text += f"  {res}.\n"
    return text


# ----------------------------------------------------------------------------------------------
# guards
# ----------------------------------------------------------------------------------------------
EXC = {"ValueError": "ValueError", "TypeError": "TypeError", "KeyError": "KeyError", "DimensionError": "ValueError"}


def exc_class(raise_stmt):
    e = raise_stmt.exc
    n = e.func if isinstance(e, ast.Call) else e
    name = n.id if isinstance(n, ast.Name) else getattr(n, "attr", None)
    if name not in EXC:
        raise Unsupported(f"exception class {name}")
    return EXC[name]


class Guards:
    """collect `if cond: raise` statements of a function as a first-match chain"""

    def __init__(self, tree, site):
        self.tree = tree
        self.site = site
        self.helpers = site.get("helpers", {})   # helper function name -> list of its parameter names (positional)

    def collect(self, body, X, out, pre=None):
        for s in body:
            if is_docstring(s):
                continue
            if is_raise_if(s):
                try:
                    c = self.guard_cond(s.test, X)
                except Unsupported as ex:
                    if self.site.get("skip_unsupported_guards"):
                        continue
                    raise
                if pre:
                    c = f"(andb {pre} {c})"
                out.append((c, exc_class(s.body[0]), s.lineno))
            elif isinstance(s, ast.If) and not s.orelse and self.only_param_test(s.test, X):
                # `if p is not None:` / `if flag:` around further guards
                c = self.guard_cond(s.test, X)
                self.collect(s.body, X, out, f"(andb {pre} {c})" if pre else c)
            elif isinstance(s, ast.Expr) and isinstance(s.value, ast.Call) and isinstance(s.value.func, ast.Name) \
                    and s.value.func.id in self.helpers:
                self.inline(s.value, X, out, pre)
            else:
                continue   # non-guard statements are not part of a guards site

    def only_param_test(self, test, X):
        try:
            self.guard_cond(test, X)
            return any(isinstance(b, ast.If) or (isinstance(b, ast.Expr) and isinstance(b.value, ast.Call))
                       for b in ast.walk(test)) or True
        except Unsupported:
            return False

    def guard_cond(self, test, X):
        s, t = X.expr(test)
        if t == "bool":
            return s
        if t == "optnum":
            return f"(py_truthy {s})"
        raise Unsupported("guard condition type " + t)

    def inline(self, call, X, out, pre):
        hname = call.func.id
        hfn = find_function(self.tree_for(hname), hname)
        formal = [a.arg for a in hfn.args.args] + [a.arg for a in hfn.args.kwonlyargs]
        actual = {}
        for f, a in zip(formal, call.args):
            actual[f] = a
        for k in call.keywords:
            actual[k.arg] = k.value
        types = {}
        subst = {}
        for f, a in actual.items():
            s, t = X.expr(a)
            types[f] = t
            subst[f] = s
        X2 = SubstExpr(types, subst)
        self.collect(hfn.body, X2, out, pre)

    def tree_for(self, hname):
        mod = self.helpers[hname]
        return mod if isinstance(mod, ast.AST) else self.tree


class SubstExpr(Expr):
    def __init__(self, types, subst):
        super().__init__(types)
        self.subst = subst

    def expr(self, e):
        if isinstance(e, ast.Name) and e.id in self.subst:
            return self.subst[e.id], self.ty[e.id]
        return super().expr(e)


def translate_guards(tree, site, helper_trees=None):
    fn = find_function(tree, site["func"])
    X = Expr(site["params"])
    G = Guards(tree, site)
    if helper_trees:
        G.helpers = {k: helper_trees.get(k, tree) for k in site.get("helpers", [])}
    else:
        G.helpers = {k: tree for k in site.get("helpers", [])}
    out = []
    G.collect(fn.body, X, out)
    if not out and not site.get("allow_empty"):
        raise Unsupported("no guard found in " + site["func"])
    args = " ".join(f"({cname(p)} : {COQTY[t]})" for p, t in site["params"].items())
    text = f"Definition {site['name']} {args} : option err :=\n"
    for c, exc, line in out:
        text += f"  if {c} then Some {exc} else\n"
    text += "  None.\n"
    text += f"Definition {site['name']}_count : nat := {len(out)}.\n"
    return text


# ----------------------------------------------------------------------------------------------
# contingency metrics: methods over self.counts[...]
# ----------------------------------------------------------------------------------------------
COUNT_KEYS = {"tp_count": "tp", "tn_count": "tn", "fp_count": "fp", "fn_count": "fn",
              "total_count": "(xadd (xadd (xadd tp tn) fp) fn)"}


def translate_metric(tree, clsname, name, prefix="gen_metric_", logname="xlog"):
    cls = find_function(tree, clsname)
    fn = [n for n in cls.body if isinstance(n, ast.FunctionDef) and n.name == name]
    if not fn:
        raise Unsupported("method not found " + name)
    fn = fn[0]
    env = {}
    uses_log = [False]

    def ex(e):
        if isinstance(e, ast.Subscript) and isinstance(e.value, ast.Name) and env.get(e.value.id) == "COUNTS":
            key = e.slice.value if isinstance(e.slice, ast.Constant) else None
            if key not in COUNT_KEYS:
                raise Unsupported("count key " + src(e))
            return COUNT_KEYS[key]
        if isinstance(e, ast.Subscript) and is_attr(e.value, "self", "counts"):
            key = e.slice.value if isinstance(e.slice, ast.Constant) else None
            if key not in COUNT_KEYS:
                raise Unsupported("count key " + src(e))
            return COUNT_KEYS[key]
        if isinstance(e, ast.Name) and e.id in env and env[e.id] != "COUNTS":
            return env[e.id]
        if isinstance(e, ast.Constant) and isinstance(e.value, (int, float)) and not isinstance(e.value, bool):
            return qlit(e.value)
        if isinstance(e, ast.BinOp) and type(e.op) in BIN:
            return f"({BIN[type(e.op)]} {ex(e.left)} {ex(e.right)})"
        if isinstance(e, ast.BinOp) and isinstance(e.op, ast.Pow) and isinstance(e.right, ast.Constant) and e.right.value == 2:
            return f"(xpow2 {ex(e.left)})"
        if isinstance(e, ast.UnaryOp) and isinstance(e.op, ast.USub):
            return f"(xneg {ex(e.operand)})"
        if isinstance(e, ast.Call) and isinstance(e.func, ast.Attribute) and isinstance(e.func.value, ast.Name) \
                and e.func.value.id == "self" and not e.args and not e.keywords:
            return f"({prefix}{e.func.attr} {logname} tp fp fn tn)"
        if isinstance(e, ast.Call) and is_attr(e.func, "np", "log") and len(e.args) == 1:
            uses_log[0] = True
            return f"({logname} {ex(e.args[0])})"
        raise Unsupported("metric expression " + src(e))

    for st in fn.body:
        if is_docstring(st):
            continue
        if isinstance(st, ast.Assign) and len(st.targets) == 1 and isinstance(st.targets[0], ast.Name):
            if is_attr(st.value, "self", "counts"):
                env[st.targets[0].id] = "COUNTS"
            else:
                env[st.targets[0].id] = ex(st.value)
            continue
        if isinstance(st, ast.Return):
            return f"Definition {prefix}{name} ({logname} : xv -> xv) (tp fp fn tn : xv) : xv :=\n  {ex(st.value)}.\n"
        raise Unsupported("metric statement " + src(st)[:80])
    raise Unsupported("no return in " + name)


def load(path):
    return ast.parse(open(path).read())


