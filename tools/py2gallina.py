#!/usr/bin/env python3
"""py2gallina -- fail-closed translator from nci/scores Python source to Gallina (route A).

It reads the *current* source text under <repo>/src/scores, and for every registered site
emits a Coq definition over the extended-value type `xv` of coq/lib/Xval.v.  Only a small,
explicitly whitelisted vocabulary of Python is accepted; anything else raises `Unsupported`
and the site is reported as untranslatable (the tie is then broken -- never approximated).

Three kinds of site:
  kernel : the backward slice of the named output variables (or of the return expression)
           of a function body, as a chain of `let`s over elementwise operations;
  guards : the `if <cond>: raise <Exc>` statements of a function, in order, as a function
           from the parameters to `option err` (first guard that fires), with named checker
           helpers inlined;
  metric : a method of a class whose body is an expression over a counts dictionary.
The sites themselves are declared in tools/sites.py.
"""
import ast
import sys
from fractions import Fraction


class Unsupported(Exception):
    pass


COQ_RESERVED = {
    "fix", "in", "at", "as", "if", "then", "else", "end", "fun", "let", "match", "with", "return",
    "forall", "exists", "Type", "Set", "Prop", "IF", "mod", "where", "for", "using", "cofix", "struct",
    "pymin", "pymax", "xadd", "xsub", "xmul", "xdiv", "xneg", "xabs", "xmin", "xmax", "xle", "xlt", "xge", "xgt", "sum",
    "fst", "snd", "pair", "list", "nat", "bool", "true", "false", "None", "Some", "option", "id", "pred",
    "S", "O", "Z", "Q", "N", "length", "map", "filter", "app", "rev", "nth", "negb", "andb", "orb", "not", "eq",
    "lt", "le", "gt", "ge", "max", "min", "abs", "plus", "mult", "minus", "opp", "inv", "proj1", "proj2",
}


def cname(n):
    return n + "_" if n in COQ_RESERVED else n


def qlit(v):
    if isinstance(v, bool):
        raise Unsupported("bool literal as number")
    q = Fraction(str(v)) if isinstance(v, float) else Fraction(v)
    return f"(XFin ({q.numerator} # {q.denominator}))"


BIN = {ast.Add: "xadd", ast.Sub: "xsub", ast.Mult: "xmul", ast.Div: "xdiv"}
CMP = {ast.Lt: "xlt", ast.LtE: "xle", ast.Gt: "xgt", ast.GtE: "xge", ast.Eq: "xeqv", ast.NotEq: "xnev"}
COQTY = {"num": "xv", "bool": "bool", "str": "string", "optnum": "option xv", "optstr": "option string",
         "numlist": "list xv", "optbool": "option bool"}


def is_attr(e, base, attr=None):
    return (isinstance(e, ast.Attribute) and isinstance(e.value, ast.Name) and e.value.id == base
            and (attr is None or e.attr == attr))


def src(e):
    try:
        return ast.unparse(e)
    except Exception:  # pragma: no cover
        return ast.dump(e)[:80]


class Expr:
    """expression translator with a tiny type inference: returns (coq_text, type)"""

    def __init__(self, types, funcs=None):
        self.ty = dict(types)          # python name -> type
        self.funcs = funcs or {}       # python callable name -> (coq name, result type) for Section variables

    def num(self, e):
        s, t = self.expr(e)
        if t == "bool":
            return f"(b2x {s})"
        if t == "optnum" and getattr(self, "optnum_as_value", False):
            return f"(opt_get {s})"     # only sound under an `is not None` test: callers guarantee it (guards sites)
        if t != "num":
            raise Unsupported(f"expected number, got {t}: {src(e)}")
        return s

    def boolean(self, e):
        s, t = self.expr(e)
        if t != "bool":
            raise Unsupported(f"expected boolean, got {t}: {src(e)} (NaN is truthy in numpy)")
        return s

    def expr(self, e):
        if isinstance(e, ast.Constant):
            if isinstance(e.value, bool):
                return ("true" if e.value else "false"), "bool"
            if isinstance(e.value, (int, float)):
                return qlit(e.value), "num"
            if isinstance(e.value, str):
                return '"' + e.value.replace('"', '""') + '"', "str"
            if e.value is None:
                return "None", "none"
            raise Unsupported("constant " + repr(e.value))
        if isinstance(e, ast.Name):
            if e.id in self.ty:
                return cname(e.id), self.ty[e.id]
            if e.id in getattr(self, "consts", {}):
                return self.expr(self.consts[e.id])
            raise Unsupported(f"free variable {e.id}")
        if is_attr(e, "np", "nan") or is_attr(e, "np", "NaN"):
            return "XNaN", "num"
        if is_attr(e, "np", "inf") or is_attr(e, "math", "inf"):
            return "(XInf true)", "num"
        if isinstance(e, ast.UnaryOp):
            if isinstance(e.op, ast.USub):
                return f"(xneg {self.num(e.operand)})", "num"
            if isinstance(e.op, ast.UAdd):
                return self.num(e.operand), "num"
            if isinstance(e.op, (ast.Invert, ast.Not)):
                s, t = self.expr(e.operand)
                if t == "bool":
                    return f"(negb {s})", "bool"
                if t in ("optnum",) and isinstance(e.op, ast.Not):
                    return f"(negb (py_truthy {s}))", "bool"
                raise Unsupported(f"negation of {t}: {src(e)}")
        if isinstance(e, ast.BinOp):
            if type(e.op) in BIN:
                return f"({BIN[type(e.op)]} {self.num(e.left)} {self.num(e.right)})", "num"
            if isinstance(e.op, ast.Pow) and isinstance(e.right, ast.Constant) and e.right.value in (2, 3):
                return f"(xpow{e.right.value} {self.num(e.left)})", "num"
            if isinstance(e.op, ast.Mod) and isinstance(e.right, ast.Constant) and isinstance(e.right.value, (int, float)) \
                    and e.right.value > 0:
                q = Fraction(str(e.right.value))
                return f"(xmodc ({q.numerator} # {q.denominator}) {self.num(e.left)})", "num"
            if isinstance(e.op, (ast.BitAnd, ast.BitOr)):
                op = "andb" if isinstance(e.op, ast.BitAnd) else "orb"
                return f"({op} {self.boolean(e.left)} {self.boolean(e.right)})", "bool"
            raise Unsupported("binop " + src(e))
        if isinstance(e, ast.BoolOp):
            op = "andb" if isinstance(e.op, ast.And) else "orb"
            parts = [self.boolean(v) for v in e.values]
            s = parts[0]
            for p in parts[1:]:
                s = f"({op} {s} {p})"
            return s, "bool"
        if isinstance(e, ast.Compare):
            terms = [e.left] + list(e.comparators)
            parts = []
            for a, op, b in zip(terms, e.ops, terms[1:]):
                parts.append(self.compare(a, op, b))
            s = parts[0]
            for p in parts[1:]:
                s = f"(andb {s} {p})"
            return s, "bool"
        if isinstance(e, ast.IfExp):
            c = self.boolean(e.test)
            a, ta = self.expr(e.body)
            b, tb = self.expr(e.orelse)
            if ta != tb:
                if {ta, tb} == {"num", "bool"}:
                    a, b = self.num(e.body), self.num(e.orelse)
                    ta = "num"
                else:
                    raise Unsupported("ifexp branch types " + src(e))
            return f"(if {c} then {a} else {b})", ta
        if isinstance(e, ast.Call):
            return self.call(e)
        raise Unsupported("expression " + src(e))

    def compare(self, a, op, b):
        if isinstance(op, (ast.Is, ast.IsNot)):
            if not (isinstance(b, ast.Constant) and b.value is None):
                raise Unsupported("is-comparison " + src(b))
            s, t = self.expr(a)
            if t in ("num", "str", "bool", "numlist"):      # a value that is known not to be None
                return "false" if isinstance(op, ast.Is) else "true"
            if t not in ("optnum", "optstr", "optbool"):
                raise Unsupported(f"`is None` on {t}")
            r = f"(match {s} with None => true | Some _ => false end)"
            return r if isinstance(op, ast.Is) else f"(negb {r})"
        if isinstance(op, (ast.In, ast.NotIn)):
            s, t = self.expr(a)
            if isinstance(b, ast.Name) and b.id in getattr(self, "consts", {}):
                b = self.consts[b.id]
            if t == "optstr" and isinstance(b, (ast.List, ast.Tuple)):
                # membership of an optional string in a list that may contain None
                has_none = any(isinstance(x, ast.Constant) and x.value is None for x in b.elts)
                strs = [x for x in b.elts if isinstance(x, ast.Constant) and isinstance(x.value, str)]
                if len(strs) + (1 if has_none else 0) != len(b.elts):
                    raise Unsupported("membership " + src(b))
                inner = "(" + " || ".join([f'String.eqb s_ "{x.value}"' for x in strs] + ["false"]) + ")%bool"
                r = f"(match {s} with None => {'true' if has_none else 'false'} | Some s_ => {inner} end)"
                return r if isinstance(op, ast.In) else f"(negb {r})"
            if t != "str" or not isinstance(b, (ast.List, ast.Tuple)) or not all(
                    isinstance(x, ast.Constant) and isinstance(x.value, str) for x in b.elts):
                raise Unsupported("membership " + src(b))
            r = "(" + " || ".join(f'String.eqb {s} "{x.value}"' for x in b.elts) + ")%bool"
            return r if isinstance(op, ast.In) else f"(negb {r})"
        sa, ta = self.expr(a)
        sb, tb = self.expr(b)
        if ta == "optstr" and tb == "str" and isinstance(op, (ast.Eq, ast.NotEq)):
            r = f"(match {sa} with None => false | Some s_ => String.eqb s_ {sb} end)"
            return r if isinstance(op, ast.Eq) else f"(negb {r})"
        if ta == "str" and tb == "str" and isinstance(op, (ast.Eq, ast.NotEq)):
            r = f"(String.eqb {sa} {sb})"
            return r if isinstance(op, ast.Eq) else f"(negb {r})"
        if type(op) not in CMP:
            raise Unsupported("comparison operator")
        return f"({CMP[type(op)]} {self.num(a)} {self.num(b)})"

    def kw(self, call, name):
        for k in call.keywords:
            if k.arg == name:
                return k.value
        return None

    def call(self, e):
        f = e.func
        args = e.args
        dotted = src(f)
        if dotted in self.funcs and not isinstance(f, ast.Name):
            cn, rt = self.funcs[dotted]
            return "(" + " ".join([cn] + [self.num(a) for a in args]) + ")", rt
        if isinstance(f, ast.Name):
            if f.id == "abs" and len(args) == 1:
                return f"(xabs {self.num(args[0])})", "num"
            if f.id == "float" and len(args) == 1:
                if isinstance(args[0], ast.Constant) and args[0].value in ("inf", "-inf", "nan"):
                    return {"inf": "(XInf true)", "-inf": "(XInf false)", "nan": "XNaN"}[args[0].value], "num"
                return self.num(args[0]), "num"
            if f.id in ("min", "max") and len(args) == 2 and not e.keywords:
                # Python builtin on scalars, with its argument-order dependence kept: min(a, b) = b if b < a else a,
                # max(a, b) = b if b > a else a (a comparison with NaN is False, so a NaN first argument is returned)
                return f"({'pymin' if f.id == 'min' else 'pymax'} {self.num(args[0])} {self.num(args[1])})", "num"
            if f.id in self.funcs:
                cn, rt = self.funcs[f.id]
                return "(" + " ".join([cn] + [self.num(a) for a in args]) + ")", rt
        if (isinstance(f, ast.Attribute) and f.attr in ("any", "all") and not args) or \
                (isinstance(f, ast.Attribute) and isinstance(f.value, ast.Name) and f.value.id == "np" and f.attr in ("any", "all") and len(args) == 1):
            inner = f.value if not args else args[0]
            kind = f.attr
            lists = sorted({n.id for n in ast.walk(inner) if isinstance(n, ast.Name) and self.ty.get(n.id) == "numlist"})
            if len(lists) != 1:
                raise Unsupported("any()/all() needs exactly one list-valued parameter: " + src(e))
            saved = self.ty[lists[0]]
            self.ty[lists[0]] = "num"
            try:
                body = self.boolean(inner)
            finally:
                self.ty[lists[0]] = saved
            q = "existsb" if kind == "any" else "forallb"
            v = cname(lists[0])
            return f"({q} (fun {v} => {body}) {v})", "bool"
        if isinstance(f, ast.Attribute) and isinstance(f.value, ast.Name) and f.value.id in ("np", "xr", "numpy"):
            n = f.attr
            if n in ("abs", "absolute", "fabs") and len(args) == 1:
                return f"(xabs {self.num(args[0])})", "num"
            if n in ("minimum", "maximum", "fmax", "fmin") and len(args) == 2:
                op = {"minimum": "xmin", "maximum": "xmax", "fmax": "xfmax", "fmin": "xfmin"}[n]
                return f"({op} {self.num(args[0])} {self.num(args[1])})", "num"
            if n == "where" and len(args) == 3:
                c = self.boolean(args[0])
                a, ta = self.expr(args[1])
                b, tb = self.expr(args[2])
                if ta == "bool" and tb == "bool":
                    return f"(if {c} then {a} else {b})", "bool"
                return f"(xwhere3 {c} {self.num(args[1])} {self.num(args[2])})", "num"
            if n == "isnan" and len(args) == 1:
                return f"(xisnan {self.num(args[0])})", "bool"
            if n == "logical_and" and len(args) == 2:
                return f"(andb {self.boolean(args[0])} {self.boolean(args[1])})", "bool"
            if n == "logical_or" and len(args) == 2:
                return f"(orb {self.boolean(args[0])} {self.boolean(args[1])})", "bool"
            if n == "logical_not" and len(args) == 1:
                return f"(negb {self.boolean(args[0])})", "bool"
            if n in ("square",) and len(args) == 1:
                return f"(xpow2 {self.num(args[0])})", "num"
            if n in ("zeros_like", "ones_like") and len(args) == 1 and [k.arg for k in e.keywords] == ["dtype"] \
                    and src(e.keywords[0].value) in ("float", "np.float64", "numpy.float64"):
                # a float constant in the shape of the argument: 0 / 1 in every cell, also where the argument is NaN or infinite
                # (only with an explicit float dtype: in an integer storage dtype later arithmetic could truncate or wrap)
                self.num(args[0])       # the argument itself must be a translatable numeric expression (fail closed)
                return qlit(0 if n == "zeros_like" else 1), "num"
            raise Unsupported("call " + src(e))
        if isinstance(f, ast.Attribute):
            recv = f.value
            n = f.attr
            if n == "where" and 1 <= len(args) <= 2 and not e.keywords:
                c = self.boolean(args[0])
                if len(args) == 1:
                    return f"(xwhere {c} {self.num(recv)})", "num"
                return f"(xwhere3 {c} {self.num(recv)} {self.num(args[1])})", "num"
            if n == "where" and len(args) == 1 and self.kw(e, "other") is not None:
                return f"(xwhere3 {self.boolean(args[0])} {self.num(recv)} {self.num(self.kw(e, 'other'))})", "num"
            if n == "clip":
                lo = self.kw(e, "min") or (args[0] if len(args) > 0 else None)
                hi = self.kw(e, "max") or (args[1] if len(args) > 1 else None)
                s = self.num(recv)
                if lo is not None and not (isinstance(lo, ast.Constant) and lo.value is None):
                    s = f"(xclip_min {s} {self.num(lo)})"
                if hi is not None and not (isinstance(hi, ast.Constant) and hi.value is None):
                    s = f"(xclip_max {s} {self.num(hi)})"
                return s, "num"
            if n in ("notnull", "isnull") and not args:
                s = f"(xisnan {self.num(recv)})"
                return (f"(negb {s})" if n == "notnull" else s), "bool"
            if n == "fillna" and len(args) == 1:
                return f"(xfillna {self.num(recv)} {self.num(args[0])})", "num"
            if n == "combine_first" and len(args) == 1 and not e.keywords:
                # a.combine_first(b) on aligned arrays: a where a is not null, else b
                return f"(xfillna {self.num(recv)} {self.num(args[0])})", "num"
            if n == "astype" and len(args) == 1:
                return self.num(recv), "num"
            if n == "copy" and not args:
                return self.expr(recv)
        raise Unsupported("call " + src(e))


# ----------------------------------------------------------------------------------------------
# statements -> let-chains (kernel sites)
# ----------------------------------------------------------------------------------------------
def assigned_names(stmt):
    out = set()
    if isinstance(stmt, ast.Assign):
        for t in stmt.targets:
            if isinstance(t, ast.Name):
                out.add(t.id)
            elif isinstance(t, ast.Tuple):
                out |= {x.id for x in t.elts if isinstance(x, ast.Name)}
    elif isinstance(stmt, (ast.AugAssign, ast.AnnAssign)):
        if isinstance(stmt.target, ast.Name):
            out.add(stmt.target.id)
    elif isinstance(stmt, ast.If):
        for s in stmt.body + stmt.orelse:
            out |= assigned_names(s)
    return out


def used_names(node):
    return {n.id for n in ast.walk(node) if isinstance(n, ast.Name) and isinstance(n.ctx, ast.Load)}


def is_docstring(s):
    return isinstance(s, ast.Expr) and isinstance(s.value, ast.Constant) and isinstance(s.value.value, str)


def is_raise_if(s):
    """`if c: [message assignments...] raise E(...)` with no else"""
    if not (isinstance(s, ast.If) and s.body and isinstance(s.body[-1], ast.Raise) and not s.orelse):
        return False
    return all(isinstance(b, (ast.Assign, ast.AugAssign)) or is_docstring(b) for b in s.body[:-1])


def has_raise(stmts):
    return any(isinstance(n, ast.Raise) for st in stmts for n in ast.walk(st))


def backward_slice(body, outputs, stop_at=None, cut=()):
    """statements (in order) that the output names depend on.  Names in `cut` are inputs of the kernel
    (declared in the site's params): the statement assigning such a name is where the slice stops."""
    need = set(outputs)
    keep = []
    stmts = list(body)
    cut = set(cut)
    if stop_at is not None:
        stmts = stmts[:stop_at]
    for s in reversed(stmts):
        a = assigned_names(s)
        if a & need & cut:
            if not (isinstance(s, ast.Assign) and (a - {"_"}) <= cut):
                raise Unsupported("cut name assigned together with other names / by a compound statement")
            need -= a
            continue
        if a & need:
            keep.append(s)
            if isinstance(s, ast.If):
                # values may flow through from before the `if` when a branch does not assign
                need |= used_names(s)
            else:
                if isinstance(s, ast.AugAssign):
                    need |= {s.target.id}
                else:
                    need -= a
                need |= used_names(s.value) if hasattr(s, "value") and s.value is not None else set()
    keep.reverse()
    return keep


class Kernel:
    def __init__(self, types, funcs=None, identity_calls=()):
        self.X = Expr(types, funcs)
        # site option `identity_calls`: names of helpers that only re-order / align labelled arrays.  Exactly the statement
        # `x, a, b = helper(x, a, b)` (same plain names, same order, no keywords) is then the identity for the elementwise meaning
        self.identity_calls = set(identity_calls)

    def is_identity_call(self, s):
        t, v = s.targets[0], s.value
        if not (isinstance(t, ast.Tuple) and isinstance(v, ast.Call) and isinstance(v.func, ast.Name) and v.func.id in self.identity_calls):
            return False
        if v.keywords or len(v.args) != len(t.elts) or not all(isinstance(x, ast.Name) for x in list(t.elts) + list(v.args)):
            return False
        names = [x.id for x in t.elts]
        return names == [x.id for x in v.args] and len(set(names)) == len(names) and all(self.X.ty.get(n) == "num" for n in names)

    def block(self, stmts, indent):
        """returns list of (lhs_text, rhs_text) lets; updates types"""
        lets = []
        pad = "  " * indent
        for s in stmts:
            if is_docstring(s):
                continue
            if isinstance(s, ast.Assign):
                if len(s.targets) != 1:
                    raise Unsupported("multiple assignment targets")
                if self.is_identity_call(s):
                    continue
                t = s.targets[0]
                if isinstance(t, ast.Name):
                    v, ty = self.X.expr(s.value)
                    if ty == "none":
                        raise Unsupported("assignment of None")
                    self.X.ty[t.id] = ty
                    lets.append((cname(t.id), v))
                elif isinstance(t, ast.Tuple) and isinstance(s.value, ast.Tuple) and len(t.elts) == len(s.value.elts):
                    vals = [self.X.expr(v) for v in s.value.elts]
                    for x, (v, ty) in zip(t.elts, vals):
                        if not isinstance(x, ast.Name):
                            raise Unsupported("tuple target")
                    for x, (v, ty) in zip(t.elts, vals):
                        self.X.ty[x.id] = ty
                    lets.append(("'(" + ", ".join(cname(x.id) for x in t.elts) + ")",
                                 "(" + ", ".join(v for v, _ in vals) + ")"))
                else:
                    raise Unsupported("assignment target " + src(t))
            elif isinstance(s, ast.AnnAssign) and isinstance(s.target, ast.Name) and s.value is not None:
                v, ty = self.X.expr(s.value)
                self.X.ty[s.target.id] = ty
                lets.append((cname(s.target.id), v))
            elif isinstance(s, ast.AugAssign) and isinstance(s.target, ast.Name) and type(s.op) in BIN:
                v = f"({BIN[type(s.op)]} {self.X.num(s.target)} {self.X.num(s.value)})"
                self.X.ty[s.target.id] = "num"
                lets.append((cname(s.target.id), v))
            elif isinstance(s, ast.If):
                lets.append(self.ifstmt(s, indent))
            else:
                raise Unsupported("statement " + src(s)[:80])
        return lets

    def cond(self, test):
        s, t = self.X.expr(test)
        if t == "bool":
            return s
        if t == "optnum":   # Python truthiness of an optional number: None and 0 are falsy
            return f"(py_truthy {s})"
        raise Unsupported(f"if-test of type {t}: {src(test)}")

    def ifstmt(self, s, indent):
        c = self.cond(s.test)
        names = sorted(assigned_names(s))
        if not names:
            raise Unsupported("if without assignments")
        saved = dict(self.X.ty)
        # a branch that does not assign a name keeps its previous value (must exist)
        def branch(stmts):
            self.X.ty = dict(saved)
            lets = self.block(stmts, indent + 1)
            tys = {}
            for n in names:
                if n not in self.X.ty:
                    raise Unsupported(f"name {n} not defined on every path")
                tys[n] = self.X.ty[n]
            return lets, tys
        l1, t1 = branch(s.body)
        l2, t2 = branch(s.orelse)
        if t1 != t2:
            raise Unsupported("branches assign different types")
        self.X.ty = dict(saved)
        self.X.ty.update(t1)
        pad = "  " * (indent + 1)
        tup = "(" + ", ".join(cname(n) for n in names) + ")"
        def emit(lets):
            return "".join(f"{pad}  let {a} := {b} in\n" for a, b in lets) + f"{pad}  {tup}"
        rhs = f"\n{pad}if {c} then\n{emit(l1)}\n{pad}else\n{emit(l2)}"
        lhs = cname(names[0]) if len(names) == 1 else "'" + tup
        return lhs, rhs


def find_function(tree, qualname):
    parts = qualname.split(".")
    scope = tree.body
    node = None
    for p in parts:
        node = None
        for n in scope:
            if isinstance(n, (ast.FunctionDef, ast.ClassDef)) and n.name == p:
                node = n
        if node is None:
            raise Unsupported(f"function {qualname} not found")
        scope = node.body
    return node


def preprocess_body(body, site):
    """site options that expose values which are not plain local names:
       body_from=marker                 the kernel is the tail of the function starting at the first top-level statement whose
                                        source begins with the marker (the declared parameters are the values computed before it)
       dict_outputs=(var, {key: out})   `var = {key: expr, ...}`        -> `out = expr` for every listed key
       call_kwargs=(func, {kw: out})    `... func(..., kw=expr, ...)`   -> `out = expr` placed before the statement"""
    if "body_from" in site:
        idx = [i for i, st in enumerate(body) if src(st).startswith(site["body_from"])]
        if not idx:
            raise Unsupported("body_from marker not found: " + site["body_from"])
        body = body[idx[0]:]
    if "dict_outputs" in site:
        var, keys = site["dict_outputs"]
        hit = False
        out = []
        for st in body:
            if isinstance(st, ast.Assign) and len(st.targets) == 1 and isinstance(st.targets[0], ast.Name) \
                    and st.targets[0].id == var and isinstance(st.value, ast.Dict):
                found = {}
                for k, v in zip(st.value.keys, st.value.values):
                    if isinstance(k, ast.Constant) and k.value in keys:
                        found[k.value] = v
                if set(found) != set(keys) or len(st.value.keys) != len(keys):
                    raise Unsupported(f"dict {var} does not have exactly the keys {sorted(keys)}")
                for k, o in keys.items():
                    out.append(ast.copy_location(ast.Assign(targets=[ast.Name(id=o, ctx=ast.Store())], value=found[k]), st))
                hit = True
            else:
                out.append(st)
        if not hit:
            raise Unsupported(f"dict literal assigned to {var} not found")
        body = out
    if "call_kwargs" in site:
        fname, kws = site["call_kwargs"]
        out, hit = [], False
        for st in body:
            calls = [c for c in ast.walk(st) if isinstance(c, ast.Call) and src(c.func).split(".")[-1] == fname]
            if calls and not hit:
                c = calls[0]
                got = {k.arg: k.value for k in c.keywords}
                for kw, o in kws.items():
                    if kw not in got:
                        raise Unsupported(f"call to {fname} has no keyword {kw}")
                    out.append(ast.copy_location(ast.Assign(targets=[ast.Name(id=o, ctx=ast.Store())], value=got[kw]), st))
                hit = True
            out.append(st)
        if not hit:
            raise Unsupported(f"call to {fname} not found")
        body = out
    return body


def translate_kernel(tree, site):
    """site: dict(func, params{name:type}, outputs[names] | 'return', name, optional funcs, stop_before)"""
    fn = find_function(tree, site["func"])
    body = preprocess_body(list(fn.body), site)
    K = Kernel(site["params"], site.get("funcs"), site.get("identity_calls", ()))
    outputs = site["outputs"]
    ret_expr = None
    if outputs == "return":
        rets = [s for s in body if isinstance(s, ast.Return)]
        if len(rets) != 1 or rets[0] is not body[-1]:
            raise Unsupported("expected exactly one trailing return")
        ret_expr = rets[0].value
        need = used_names(ret_expr)
        stmts = backward_slice(body[:-1], need)
    else:
        stop = None
        if "stop_before" in site:     # first statement whose source contains the marker
            for i, s in enumerate(body):
                if site["stop_before"] in src(s):
                    stop = i
                    break
            if stop is None:
                raise Unsupported("stop marker not found: " + site["stop_before"])
        cut = site.get("cut", ())
        for c in cut:
            if c not in site["params"]:
                raise Unsupported(f"cut name {c} is not a declared parameter")
        stmts = backward_slice(body, outputs, stop, cut)
    # parameters not declared but used -> free variable error arises naturally
    stmts = [s for s in stmts if not is_raise_if(s)]
    lets = K.block(stmts, 1)
    if ret_expr is not None:
        if isinstance(ret_expr, ast.Tuple):
            res = "(" + ", ".join(K.X.expr(x)[0] for x in ret_expr.elts) + ")"
        else:
            res = K.X.expr(ret_expr)[0]
    else:
        for o in outputs:
            if o not in K.X.ty:
                raise Unsupported(f"output {o} is never assigned")
        res = "(" + ", ".join(cname(o) for o in outputs) + ")" if len(outputs) > 1 else cname(outputs[0])
    args = " ".join(f"({cname(p)} : {COQTY[t]})" for p, t in site["params"].items())
    extra = "".join(f" ({cn} : {'xv -> ' * ar}xv)" for (cn, ar) in site.get("fun_params", []))
    text = f"Definition {site['name']}{extra} {args} :=\n"
    text += "".join(f"  let {a} := {b} in\n" for a, b in lets)
    text += f"  {res}.\n"
    return text


def translate_retfun(tree, site):
    """whole-function translation in *return style* (site kind `retfun`): the body is a sequence of assignments and
    `if` statements whose branches may end in `return e`; the function value is the first `return` reached.
        [return e; ...]          -> e                      (what follows a return is dead code)
        [x = e; rest]            -> let x := e in [rest]
        [if c: A else: B; rest]  -> if c then [A; rest] else [B; rest]
    `if p is [not] None` on an optional parameter becomes a `match` that rebinds p as a plain value in the Some branch, so no
    totalised `opt_get` appears.  The formal parameters must be exactly the declared ones (a new parameter is a new input
    of the function and fails closed); a path without a return, a bare `return`, loops, `raise` and anything else are Unsupported."""
    fn = find_function(tree, site["func"])
    a = fn.args
    formals = [x.arg for x in a.posonlyargs + a.args + a.kwonlyargs]
    if a.vararg or a.kwarg or formals != list(site["params"]):
        raise Unsupported(f"formal parameters {formals} differ from the declared {list(site['params'])}")
    K = Kernel(dict(site["params"]), site.get("funcs"))
    want = site.get("result", "num")

    def seq(stmts, depth):
        stmts = [x for x in stmts if not is_docstring(x)]
        if not stmts:
            raise Unsupported("a path reaches the end of the function without `return`")
        st, rest = stmts[0], stmts[1:]
        pad = "  " * depth
        if isinstance(st, ast.Return):
            if st.value is None:
                raise Unsupported("bare return")
            v, ty = K.X.expr(st.value)
            if ty != want:
                raise Unsupported(f"return of type {ty}, expected {want}: {src(st.value)}")
            return pad + v
        if isinstance(st, ast.If):
            saved = dict(K.X.ty)
            t = st.test
            opt = None
            if (isinstance(t, ast.Compare) and len(t.ops) == 1 and isinstance(t.ops[0], (ast.Is, ast.IsNot))
                    and isinstance(t.left, ast.Name) and isinstance(t.comparators[0], ast.Constant)
                    and t.comparators[0].value is None and saved.get(t.left.id) == "optnum"):
                opt = t.left.id
            if opt is not None:
                some_body, none_body = (st.orelse, st.body) if isinstance(t.ops[0], ast.Is) else (st.body, st.orelse)
                K.X.ty = dict(saved); K.X.ty[opt] = "num"
                s_txt = seq(list(some_body) + rest, depth + 1)
                K.X.ty = dict(saved)
                n_txt = seq(list(none_body) + rest, depth + 1)
                K.X.ty = saved
                return (f"{pad}match {cname(opt)} with\n{pad}| Some {cname(opt)} =>\n{s_txt}\n{pad}| None =>\n{n_txt}\n{pad}end")
            c = K.cond(t)
            K.X.ty = dict(saved)
            a_txt = seq(list(st.body) + rest, depth + 1)
            K.X.ty = dict(saved)
            b_txt = seq(list(st.orelse) + rest, depth + 1)
            K.X.ty = saved
            return f"{pad}if {c} then\n{a_txt}\n{pad}else\n{b_txt}"
        if isinstance(st, (ast.Assign, ast.AnnAssign, ast.AugAssign)):
            lets = K.block([st], depth)
            return "".join(f"{pad}let {x} := {y} in\n" for x, y in lets) + seq(rest, depth)
        raise Unsupported("statement " + src(st)[:80])

    body = seq(list(fn.body), 1)
    args = " ".join(f"({cname(p_)} : {COQTY[t_]})" for p_, t_ in site["params"].items())
    return f"Definition {site['name']} {args} : {COQTY[want]} :=\n{body}.\n"


# ----------------------------------------------------------------------------------------------
# guards
# ----------------------------------------------------------------------------------------------
EXC = {"ValueError": "ValueError", "TypeError": "TypeError", "KeyError": "KeyError", "DimensionError": "ValueError"}


def exc_class(raise_stmt):
    e = raise_stmt.exc
    n = e.func if isinstance(e, ast.Call) else e
    name = n.id if isinstance(n, ast.Name) else getattr(n, "attr", None)
    if name not in EXC:
        raise Unsupported(f"exception class {name}")
    return EXC[name]


class Guards:
    """collect `if cond: raise` statements of a function as a first-match chain"""

    def __init__(self, tree, site):
        self.tree = tree
        self.site = site
        self.helpers = site.get("helpers", {})   # helper function name -> list of its parameter names (positional)

    def collect(self, body, X, out, pre=None):
        for s in body:
            if is_docstring(s):
                continue
            if is_raise_if(s):
                try:
                    c = self.guard_cond(s.test, X)
                except Unsupported as ex:
                    if self.site.get("skip_unsupported_guards"):
                        continue
                    raise
                if pre:
                    c = f"(andb {pre} {c})"
                out.append((c, exc_class(s.body[-1]), s.lineno))
            elif isinstance(s, ast.If) and s.orelse and not has_raise(s.body) and has_raise(s.orelse) and self.only_param_test(s.test, X):
                # `if c1: <no raise> elif c2: raise ...`  ->  guards of the else-part under (not c1)
                c = f"(negb {self.guard_cond(s.test, X)})"
                self.collect(s.orelse, X, out, f"(andb {pre} {c})" if pre else c)
            elif isinstance(s, ast.If) and not s.orelse and self.only_param_test(s.test, X):
                # `if p is not None:` / `if flag:` around further guards
                c = self.guard_cond(s.test, X)
                self.collect(s.body, X, out, f"(andb {pre} {c})" if pre else c)
            else:
                # calls to named checker helpers anywhere in the statement (bare call, return f(...), x = f(...))
                for c in ast.walk(s):
                    if isinstance(c, ast.Call) and isinstance(c.func, ast.Name) and c.func.id in self.helpers:
                        self.inline(c, X, out, pre)
                continue   # other statements are not part of a guards site

    def only_param_test(self, test, X):
        try:
            self.guard_cond(test, X)
            return any(isinstance(b, ast.If) or (isinstance(b, ast.Expr) and isinstance(b.value, ast.Call))
                       for b in ast.walk(test)) or True
        except Unsupported:
            return False

    def guard_cond(self, test, X):
        s, t = X.expr(test)
        if t == "bool":
            return s
        if t == "optnum":
            return f"(py_truthy {s})"
        raise Unsupported("guard condition type " + t)

    def inline(self, call, X, out, pre):
        hname = call.func.id
        hfn = find_function(self.tree_for(hname), hname)
        formal = [a.arg for a in hfn.args.args] + [a.arg for a in hfn.args.kwonlyargs]
        actual = {}
        for f, a in zip(formal, call.args):
            actual[f] = a
        for k in call.keywords:
            actual[k.arg] = k.value
        types = {}
        subst = {}
        for f, a in actual.items():
            try:
                s, t = X.expr(a)
            except Unsupported:
                continue            # an actual we cannot type: guards that mention it are untranslatable
            if t == "none":
                continue
            types[f] = t
            subst[f] = s
        # defaults of formals that were not passed (None defaults make `p is not None` guards vanish)
        defaults = {}
        pos = hfn.args.args
        for a_, d_ in zip(pos[len(pos) - len(hfn.args.defaults):], hfn.args.defaults):
            defaults[a_.arg] = d_
        for a_, d_ in zip(hfn.args.kwonlyargs, hfn.args.kw_defaults):
            if d_ is not None:
                defaults[a_.arg] = d_
        for f_, d_ in defaults.items():
            if f_ not in actual and isinstance(d_, ast.Constant) and d_.value is None:
                types[f_] = "optnum"
                subst[f_] = "(@None xv)"
        X2 = SubstExpr(types, subst)
        X2.consts = module_consts(self.tree_for(hname))
        X2.optnum_as_value = True
        self.collect(hfn.body, X2, out, pre)

    def tree_for(self, hname):
        mod = self.helpers[hname]
        return mod if isinstance(mod, ast.AST) else self.tree


class SubstExpr(Expr):
    def __init__(self, types, subst):
        super().__init__(types)
        self.subst = subst

    def expr(self, e):
        if isinstance(e, ast.Name) and e.id in self.subst:
            return self.subst[e.id], self.ty[e.id]
        return super().expr(e)


def module_consts(tree):
    """module-level NAME = "string" / [list of strings] assignments"""
    out = {}
    for st in tree.body:
        if isinstance(st, ast.Assign) and len(st.targets) == 1 and isinstance(st.targets[0], ast.Name):
            v = st.value
            if isinstance(v, ast.Constant) and isinstance(v.value, (str, int, float)) and not isinstance(v.value, bool):
                out[st.targets[0].id] = v
            elif isinstance(v, (ast.List, ast.Tuple)) and all(isinstance(x, (ast.Constant, ast.Name)) for x in v.elts):
                elts = [out.get(x.id, x) if isinstance(x, ast.Name) else x for x in v.elts]
                if all(isinstance(x, ast.Constant) for x in elts):
                    out[st.targets[0].id] = ast.List(elts=elts, ctx=ast.Load())
    return out


def translate_guards(tree, site, helper_trees=None):
    fn = find_function(tree, site["func"])
    X = Expr(site["params"])
    X.consts = module_consts(tree)
    X.optnum_as_value = True
    G = Guards(tree, site)
    if helper_trees:
        G.helpers = {k: helper_trees.get(k, tree) for k in site.get("helpers", [])}
    else:
        G.helpers = {k: tree for k in site.get("helpers", [])}
    out = []
    G.collect(fn.body, X, out)
    if not out and not site.get("allow_empty"):
        raise Unsupported("no guard found in " + site["func"])
    args = " ".join(f"({cname(p)} : {COQTY[t]})" for p, t in site["params"].items())
    text = f"Definition {site['name']} {args} : option err :=\n"
    for c, exc, line in out:
        text += f"  if {c} then Some {exc} else\n"
    text += "  None.\n"
    text += f"Definition {site['name']}_count : nat := {len(out)}.\n"
    return text


# ----------------------------------------------------------------------------------------------
# contingency metrics: methods over self.counts[...]
# ----------------------------------------------------------------------------------------------
COUNT_KEYS = {"tp_count": "tp", "tn_count": "tn", "fp_count": "fp", "fn_count": "fn",
              "total_count": "(xadd (xadd (xadd tp tn) fp) fn)"}


def translate_metric(tree, clsname, name, prefix="gen_metric_", logname="xlog"):
    cls = find_function(tree, clsname)
    fn = [n for n in cls.body if isinstance(n, ast.FunctionDef) and n.name == name]
    if not fn:
        raise Unsupported("method not found " + name)
    fn = fn[0]
    env = {}
    uses_log = [False]

    def ex(e):
        if isinstance(e, ast.Subscript) and isinstance(e.value, ast.Name) and env.get(e.value.id) == "COUNTS":
            key = e.slice.value if isinstance(e.slice, ast.Constant) else None
            if key not in COUNT_KEYS:
                raise Unsupported("count key " + src(e))
            return COUNT_KEYS[key]
        if isinstance(e, ast.Subscript) and is_attr(e.value, "self", "counts"):
            key = e.slice.value if isinstance(e.slice, ast.Constant) else None
            if key not in COUNT_KEYS:
                raise Unsupported("count key " + src(e))
            return COUNT_KEYS[key]
        if isinstance(e, ast.Name) and e.id in env and env[e.id] != "COUNTS":
            return env[e.id]
        if isinstance(e, ast.Constant) and isinstance(e.value, (int, float)) and not isinstance(e.value, bool):
            return qlit(e.value)
        if isinstance(e, ast.BinOp) and type(e.op) in BIN:
            return f"({BIN[type(e.op)]} {ex(e.left)} {ex(e.right)})"
        if isinstance(e, ast.BinOp) and isinstance(e.op, ast.Pow) and isinstance(e.right, ast.Constant) and e.right.value == 2:
            return f"(xpow2 {ex(e.left)})"
        if isinstance(e, ast.UnaryOp) and isinstance(e.op, ast.USub):
            return f"(xneg {ex(e.operand)})"
        if isinstance(e, ast.Call) and isinstance(e.func, ast.Attribute) and isinstance(e.func.value, ast.Name) \
                and e.func.value.id == "self" and not e.args and not e.keywords:
            return f"({prefix}{e.func.attr} {logname} tp fp fn tn)"
        if isinstance(e, ast.Call) and is_attr(e.func, "np", "log") and len(e.args) == 1:
            uses_log[0] = True
            return f"({logname} {ex(e.args[0])})"
        raise Unsupported("metric expression " + src(e))

    for st in fn.body:
        if is_docstring(st):
            continue
        if isinstance(st, ast.Assign) and len(st.targets) == 1 and isinstance(st.targets[0], ast.Name):
            if is_attr(st.value, "self", "counts"):
                env[st.targets[0].id] = "COUNTS"
            else:
                env[st.targets[0].id] = ex(st.value)
            continue
        if isinstance(st, ast.Return):
            return f"Definition {prefix}{name} ({logname} : xv -> xv) (tp fp fn tn : xv) : xv :=\n  {ex(st.value)}.\n"
        raise Unsupported("metric statement " + src(st)[:80])
    raise Unsupported("no return in " + name)


def load(path):
    return ast.parse(open(path).read())




# ----------------------------------------------------------------------------------------------
# plumbing fingerprint of a public score function
# ----------------------------------------------------------------------------------------------
def translate_plumbing(tree, site):
    """site: dict(func, name).  Reads: the gather_dimensions call (positional args as text, weights_dims / specific
    keywords), the apply_weights calls, and the reductions `<x>.<method>(dim=<var assigned from gather>)`."""
    fn = find_function(tree, site["func"])
    gathers = [c for c in ast.walk(fn) if isinstance(c, ast.Call) and src(c.func).split(".")[-1] == "gather_dimensions"]
    if len(gathers) != 1:
        raise Unsupported(f"expected exactly one gather_dimensions call, found {len(gathers)}")
    g = gathers[0]
    args = [src(a) for a in g.args]
    kws = {k.arg for k in g.keywords}
    if None in kws or not kws <= {"reduce_dims", "preserve_dims", "weights_dims", "score_specific_fcst_dims"}:
        raise Unsupported("unexpected gather_dimensions keywords " + str(kws))
    for k in g.keywords:
        if k.arg in ("reduce_dims", "preserve_dims") and src(k.value) != k.arg:
            raise Unsupported(f"gather_dimensions({k.arg}={src(k.value)})")
    # the variable(s) the gathered dims are assigned to
    gvars = set()
    for st in ast.walk(fn):
        if isinstance(st, ast.Assign) and any(c is g for c in ast.walk(st.value)):
            for t in st.targets:
                if isinstance(t, ast.Name):
                    gvars.add(t.id)
    if not gvars:
        raise Unsupported("result of gather_dimensions is not assigned to a name")
    events = []   # (lineno, col, kind, detail)
    for c in ast.walk(fn):
        if not isinstance(c, ast.Call):
            continue
        fname = src(c.func).split(".")[-1]
        if fname == "apply_weights":
            events.append((c.lineno, c.col_offset, "w", ""))
        elif isinstance(c.func, ast.Attribute) and fname in ("mean", "sum", "nanmean", "nansum", "median", "max", "min", "count", "std", "var"):
            dim = None
            for k in c.keywords:
                if k.arg == "dim":
                    dim = k.value
            if dim is None and c.args:
                dim = c.args[0]
            if dim is not None and isinstance(dim, ast.Name) and dim.id in gvars:
                events.append((c.lineno, c.col_offset, "r", fname))
        elif fname in ("corr", "cov") and any(isinstance(a, ast.Name) and a.id in gvars for a in list(c.args) + [k.value for k in c.keywords]):
            events.append((c.lineno, c.col_offset, "r", fname))      # xr.corr(a, b, <gathered dims>)
    events.sort()
    nw = sum(1 for e in events if e[2] == "w")
    reds = [e[3] for e in events if e[2] == "r"]
    if not reds:
        raise Unsupported("no reduction over the gathered dims found")
    first_red = min(i for i, e in enumerate(events) if e[2] == "r")
    # a weights call nested in the same expression as the reduction (x.apply(...).mean(dim=...)) has a larger column but is evaluated first
    before = all((e[0], e[1]) < (events[first_red][0], events[first_red][1]) or e[0] == events[first_red][0] for e in events if e[2] == "w")
    cs = lambda l: "[" + "; ".join('"' + x.replace('"', "'") + '"' for x in l) + "]"  # noqa: E731
    b = lambda v: "true" if v else "false"  # noqa: E731
    return (f"Definition {site['name']} : plumbing :=\n  {{| pl_gather_args := {cs(args)}; pl_weights_dims := {b('weights_dims' in kws)}; "
            f"pl_specific := {b('score_specific_fcst_dims' in kws)}; pl_apply_weights := {nw};\n     pl_weights_before_reduce := {b(before)}; "
            f"pl_reductions := {cs(reds)} |}}.\n")
