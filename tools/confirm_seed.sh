#!/bin/bash
# confirm_seed.sh <PROP> <seed-dir>   -- independently confirm a seeded defect in a scratch worktree of /repo:
#   patch applies; the full pinned test suite passes with it; demo.py fails with it and passes without it.
# On success the seed is stored as /verif/seeded/<PROP>-<name>/ {patch.diff, demo.py, meta.json(+confirmation)}.
set -u
PROP=$1; SRC=$(readlink -f "$2"); NAME=${3:-}$(basename "$SRC")
ROOT=$(cd "$(dirname "$0")/.." && pwd)
WT=/tmp/confirm/$PROP-$NAME
rm -rf "$WT"; git -C /repo worktree prune; mkdir -p /tmp/confirm
git -C /repo worktree add -q --detach "$WT" HEAD || exit 2
cleanup() { git -C /repo worktree remove --force "$WT" 2>/dev/null; }
trap cleanup EXIT
cd "$WT"
git apply "$SRC/patch.diff" || { echo "$PROP/$NAME: PATCH-DOES-NOT-APPLY"; exit 3; }
FILES=$(git diff --name-only | tr '\n' ' ')
case " $FILES" in *" tests/"*) echo "$PROP/$NAME: touches tests"; exit 4;; esac
SUITE=$(PYTHONPATH=$WT/src /venv/bin/python -m pytest -q -p no:cacheprovider -n 8 --timeout=900 2>&1 | tail -1)
echo "$SUITE" | grep -q "1078 passed" || { echo "$PROP/$NAME: SUITE-FAILS: $SUITE"; exit 5; }
PYTHONPATH=$WT/src /venv/bin/python "$SRC/demo.py" >/dev/null 2>&1; RC_WITH=$?
git checkout -q -- src
PYTHONPATH=$WT/src /venv/bin/python "$SRC/demo.py" >/dev/null 2>&1; RC_WITHOUT=$?
if [ $RC_WITH -eq 0 ] || [ $RC_WITHOUT -ne 0 ]; then echo "$PROP/$NAME: DEMO-NOT-DISCRIMINATING with=$RC_WITH without=$RC_WITHOUT"; exit 6; fi
DST=$ROOT/seeded/$PROP-$NAME
mkdir -p "$DST"; cp "$SRC/patch.diff" "$SRC/demo.py" "$DST/"
python3 - "$SRC/meta.json" "$DST/meta.json" "$PROP" "$SUITE" "$FILES" "$(git -C /repo log --format=%h -1)" <<'PY'
import json, sys
src, dst, prop, suite, files, head = sys.argv[1:7]
try: m = json.load(open(src))
except Exception: m = {}
m["property"] = prop
m["confirmed"] = {"repo_head": head, "files_touched": files.split(), "test_suite_with_patch": suite.strip(),
                  "demo_exit_with_patch": "non-zero", "demo_exit_without_patch": 0,
                  "how": "tools/confirm_seed.sh: scratch git worktree of /repo, git apply, full pinned suite (pytest -n 8), demo with and without the patch"}
json.dump(m, open(dst, "w"), indent=1)
PY
echo "$PROP/$NAME: CONFIRMED ($SUITE)"
