#!/usr/bin/env python3
"""seed_table.py <results-log> -- markdown table of the independently seeded defects (seeded/*/meta.json) and what the
checks reported for each (one line per seed in the log, as printed by tools/seed_matrix.sh)."""
import json, os, re, sys
ROOT = os.path.dirname(os.path.dirname(os.path.abspath(__file__)))
res = {}
for l in open(sys.argv[1]):
    if "|" not in l:
        continue
    name, r = l.split("|", 1)
    name = name.strip()
    m = re.search(r"(CAUGHT\(failing-input\)|CAUGHT\(no-failing-input-found\)|MISSED|PATCH-DOES-NOT-APPLY)", r)
    res[name] = {"CAUGHT(failing-input)": "caught, failing input", "CAUGHT(no-failing-input-found)": "caught, no-failing-input-found",
                 "MISSED": "MISSED", "PATCH-DOES-NOT-APPLY": "n/a"}.get(m.group(1), "?") if m else "?"
rows = []
for d in sorted(os.listdir(os.path.join(ROOT, "seeded"))):
    mp = os.path.join(ROOT, "seeded", d, "meta.json")
    if not os.path.exists(mp):
        continue
    m = json.load(open(mp))
    what = (m.get("what_changed") or m.get("name") or "")
    needs = m.get("needs_to_manifest") or ""
    files = " ".join(os.path.basename(f) for f in m.get("confirmed", {}).get("files_touched", []))
    clean = lambda t: " ".join(str(t).split()).replace("|", "/")[:170]
    rows.append(f"| `{d}` | {files} | {clean(what)} | {clean(needs)} | {res.get(d, 'not run')} |")
print("| seed | file(s) | change | needs to manifest | reported by `./check` of that property |")
print("|---|---|---|---|---|")
print("\n".join(rows))
tot = len(rows)
c = sum(1 for r in rows if "caught, failing input" in r)
n = sum(1 for r in rows if "no-failing-input-found" in r)
mi = sum(1 for r in rows if "MISSED" in r)
print(f"\n{tot} seeds: {c} caught with a concrete failing input, {n} caught without one, {mi} missed.")
