"""Translator sites for C01: the plumbing fingerprint of the public score functions whose hand models assume it."""
def P(func, file, name=None):
    return dict(id="C01.plumb." + (name or func), group="C01_plumbing", kind="plumbing", file=file, func=func, name="plumb_" + (name or func))


SITES = [
    P("mse", "continuous/standard_impl.py"), P("mae", "continuous/standard_impl.py"), P("additive_bias", "continuous/standard_impl.py"),
    P("multiplicative_bias", "continuous/standard_impl.py"), P("pbias", "continuous/standard_impl.py"),
    P("quantile_score", "continuous/quantile_loss_impl.py"), P("quantile_interval_score", "continuous/interval_impl.py"),
    P("consistent_expectile_score", "continuous/consistent_impl.py"), P("consistent_huber_score", "continuous/consistent_impl.py"),
    P("consistent_quantile_score", "continuous/consistent_impl.py"),
    P("crps_for_ensemble", "probability/crps_impl.py"), P("brier_score_for_ensemble", "probability/brier_impl.py"),
    P("murphy_score", "continuous/murphy_impl.py"), P("firm", "categorical/multicategorical_impl.py"),
    P("probability_of_detection", "categorical/binary_impl.py"), P("probability_of_false_detection", "categorical/binary_impl.py"),
    P("crps_cdf", "probability/crps_impl.py"),
    P("crps_cdf_brier_decomposition", "probability/crps_impl.py"),
    P("risk_matrix_score", "emerging/risk_matrix.py"),
    P("BinaryContingencyManager._get_counts", "categorical/contingency_impl.py", "contingency_counts"),
    P("pearsonr", "continuous/correlation/correlation_impl.py"),
    P("kge", "continuous/standard_impl.py"),
]
