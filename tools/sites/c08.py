"""Translator sites for C08 (shared with C14): the discretisation mode tables and kernel of
processing/discretise.py (S9) and the event tables / contingency maps of
categorical/contingency_impl.py (S10).

All sites are `custom`: they walk the statements of the function with a small, explicit list of
accepted statement shapes and raise Unsupported for anything else (fail closed).  Expressions go
through the shared expression translator (py2gallina.Expr) extended by three call forms:
`<op variable>(a, b)`, `operator.<name>(a, b)` and `mode(a, b)` -> `apply_op ...` (coq/lib/C08_aux.v)."""
import ast
import copy

OPS = {"ge": "OpGe", "gt": "OpGt", "le": "OpLe", "lt": "OpLt", "eq": "OpEq", "ne": "OpNe"}
PRELUDE = "From V Require Import lib.C08_aux.\n"


def op_const(e, T):
    """operator.ge -> OpGe"""
    if T.is_attr(e, "operator") and e.attr in OPS:
        return OPS[e.attr]
    raise T.Unsupported("expected operator.<ge|gt|le|lt|eq|ne>, got " + T.src(e))


def make_expr(T, types):
    class DExpr(T.Expr):
        def expr(self, e):
            # numpy: bool * bool is the logical and
            if isinstance(e, ast.BinOp) and isinstance(e.op, ast.Mult):
                (a, ta), (b, tb) = self.expr(e.left), self.expr(e.right)
                if ta == "bool" and tb == "bool":
                    return f"(andb {a} {b})", "bool"
            return super().expr(e)

        def call(self, e):
            f = e.func
            if len(e.args) == 2 and not e.keywords:
                if isinstance(f, ast.Name) and self.ty.get(f.id) == "op":
                    return f"(apply_op {T.cname(f.id)} {self.num(e.args[0])} {self.num(e.args[1])})", "bool"
                if isinstance(f, ast.Name) and self.ty.get(f.id) == "mode":
                    return f"(apply_op (op_of_mode {T.cname(f.id)}) {self.num(e.args[0])} {self.num(e.args[1])})", "bool"
                if T.is_attr(f, "operator") and f.attr in OPS:
                    return f"(apply_op {OPS[f.attr]} {self.num(e.args[0])} {self.num(e.args[1])})", "bool"
            return super().call(e)
    return DExpr(types)


# ----------------------------------------------------------------------------------------------
# S9: mode tables
# ----------------------------------------------------------------------------------------------
def module_dict(tree, name, T):
    for st in tree.body:
        if isinstance(st, ast.Assign) and len(st.targets) == 1 and isinstance(st.targets[0], ast.Name) and st.targets[0].id == name:
            if not isinstance(st.value, ast.Dict):
                raise T.Unsupported(name + " is not a dict literal")
            return st.value
    raise T.Unsupported(name + " not found")


def int_const(e, T):
    if isinstance(e, ast.UnaryOp) and isinstance(e.op, ast.USub):
        return -int_const(e.operand, T)
    if isinstance(e, ast.Constant) and isinstance(e.value, int) and not isinstance(e.value, bool):
        return e.value
    raise T.Unsupported("integer constant expected: " + T.src(e))


def mode_tables(tree, site, T):
    ineq = module_dict(tree, "INEQUALITY_MODES", T)
    eq = module_dict(tree, "EQUALITY_MODES", T)
    rows = []
    for k, v in zip(ineq.keys, ineq.values):
        if not (isinstance(k, ast.Constant) and isinstance(k.value, str) and isinstance(v, ast.Tuple) and len(v.elts) == 2):
            raise T.Unsupported("INEQUALITY_MODES entry " + T.src(v))
        rows.append(f'("{k.value}", ({op_const(v.elts[0], T)}, XFin ({int_const(v.elts[1], T)} # 1)))')
    text = PRELUDE + "Definition gen_inequality_modes : list (string * (cmpop * xv)) :=\n  [" + "; ".join(rows) + "].\n"
    rows = []
    for k, v in zip(eq.keys, eq.values):
        if not (isinstance(k, ast.Constant) and isinstance(k.value, str)):
            raise T.Unsupported("EQUALITY_MODES key")
        rows.append(f'("{k.value}", {op_const(v, T)})')
    text += "Definition gen_equality_modes : list (string * cmpop) :=\n  [" + "; ".join(rows) + "].\n"
    return text


# ----------------------------------------------------------------------------------------------
# S9: comparative_discretise
# ----------------------------------------------------------------------------------------------
def is_raise(st, exc):
    return isinstance(st, ast.Raise) and st.exc is not None and \
        (getattr(st.exc.func if isinstance(st.exc, ast.Call) else st.exc, "id", None) == exc)


def tolerance_guard(st, T):
    """if abs_tolerance is None: abs_tolerance = <c>  elif <cond>: raise ValueError"""
    ok = (isinstance(st.test, ast.Compare) and len(st.test.ops) == 1 and isinstance(st.test.ops[0], ast.Is)
          and isinstance(st.test.left, ast.Name) and st.test.left.id == "abs_tolerance"
          and len(st.body) == 1 and isinstance(st.body[0], ast.Assign) and T.src(st.body[0].targets[0]) == "abs_tolerance"
          and len(st.orelse) == 1 and isinstance(st.orelse[0], ast.If) and not st.orelse[0].orelse
          and len(st.orelse[0].body) == 1 and is_raise(st.orelse[0].body[0], "ValueError"))
    if not ok:
        raise T.Unsupported("abs_tolerance sanitising has an unexpected shape")
    X = T.Expr({"abs_tolerance": "num"})
    default = T.Expr({}).num(st.body[0].value)
    cond = X.boolean(st.orelse[0].test)
    return ("Definition gen_discretise_tolerance (abs_tolerance : option xv) : result xv :=\n"
            f"  match abs_tolerance with\n  | None => Ok {default}\n"
            f"  | Some abs_tolerance => if {cond} then Err ValueError else Ok abs_tolerance\n  end.\n")


def is_type_plumbing(st, T):
    """if isinstance(comparison, (float, int)): comparison = xr.DataArray(comparison) elif not isinstance(...): raise TypeError"""
    try:
        return (isinstance(st.test, ast.Call) and st.test.func.id == "isinstance" and T.src(st.test.args[0]) == "comparison"
                and len(st.body) == 1 and T.src(st.body[0]) == "comparison = xr.DataArray(comparison)"
                and len(st.orelse) == 1 and isinstance(st.orelse[0], ast.If) and not st.orelse[0].orelse
                and len(st.orelse[0].body) == 1 and is_raise(st.orelse[0].body[0], "TypeError")
                and T.src(st.orelse[0].test).startswith("not isinstance(comparison"))
    except AttributeError:
        return False


def mode_test(test, tables, T):
    """-> ('table', NAME) | ('is', Op) | ('in', [Ops])"""
    if isinstance(test, ast.Compare) and len(test.ops) == 1 and isinstance(test.left, ast.Name) and test.left.id == "mode":
        op, rhs = test.ops[0], test.comparators[0]
        if isinstance(op, ast.In) and isinstance(rhs, ast.Name) and rhs.id in tables:
            return "table", rhs.id
        if isinstance(op, ast.Is):
            return "is", op_const(rhs, T)
        if isinstance(op, ast.In) and isinstance(rhs, (ast.List, ast.Tuple)):
            return "in", [op_const(x, T) for x in rhs.elts]
    raise T.Unsupported("mode test " + T.src(test))


def branch_body(stmts, X, tables, table, T, pad):
    """statements of one mode branch -> (pattern bound from the table lookup | None, coq text of type option xv)"""
    pattern = None
    lets = []
    stmts = list(stmts)
    if table is not None:
        st = stmts.pop(0)
        if not (isinstance(st, ast.Assign) and len(st.targets) == 1 and T.src(st.value) == f"{table}[mode]"):
            raise T.Unsupported("expected a lookup of the mode in " + table)
        tgt = st.targets[0]
        if tables[table] == "pair" and isinstance(tgt, ast.Tuple) and len(tgt.elts) == 2 and all(isinstance(x, ast.Name) for x in tgt.elts):
            X.ty[tgt.elts[0].id], X.ty[tgt.elts[1].id] = "op", "num"
            pattern = f"({T.cname(tgt.elts[0].id)}, {T.cname(tgt.elts[1].id)})"
        elif tables[table] == "op" and isinstance(tgt, ast.Name):
            X.ty[tgt.id] = "op"
            pattern = T.cname(tgt.id)
        else:
            raise T.Unsupported("lookup target " + T.src(tgt))
    result = None
    for st in stmts:
        if result is not None:
            raise T.Unsupported("statement after the assignment of discrete_data")
        if isinstance(st, ast.If):
            # if mode in [..]: name = c1  else: name = c2
            kind, ops = mode_test(st.test, tables, T)
            if kind != "in" or len(st.body) != 1 or len(st.orelse) != 1:
                raise T.Unsupported("nested if " + T.src(st.test))
            a, b = st.body[0], st.orelse[0]
            if not (isinstance(a, ast.Assign) and isinstance(b, ast.Assign) and T.src(a.targets[0]) == T.src(b.targets[0])
                    and isinstance(a.targets[0], ast.Name)):
                raise T.Unsupported("nested if must assign one name in both branches")
            n = a.targets[0].id
            va, vb = X.num(a.value), X.num(b.value)
            X.ty[n] = "num"
            lets.append(f"{pad}let {T.cname(n)} := if mode_in mode [{'; '.join(ops)}] then {va} else {vb} in\n")
        elif isinstance(st, ast.Assign) and len(st.targets) == 1 and isinstance(st.targets[0], ast.Name):
            n = st.targets[0].id
            if n == "discrete_data":
                result = X.num(st.value)
            else:
                v, ty = X.expr(st.value)
                X.ty[n] = ty
                lets.append(f"{pad}let {T.cname(n)} := {v} in\n")
        else:
            raise T.Unsupported("statement in mode branch: " + T.src(st)[:60])
    if result is None:
        raise T.Unsupported("mode branch does not assign discrete_data")
    return pattern, "".join(lets) + f"{pad}Some {result}"


def mode_chain(node, X, tables, T, depth):
    pad = "  " * (depth + 1)
    kind, arg = mode_test(node.test, tables, T)
    saved = dict(X.ty)
    pattern, body = branch_body(node.body, X, tables, arg if kind == "table" else None, T, pad + "  ")
    X.ty = saved
    if len(node.orelse) == 1 and isinstance(node.orelse[0], ast.If):
        rest = mode_chain(node.orelse[0], X, tables, T, depth + 1)
    elif len(node.orelse) == 1 and is_raise(node.orelse[0], "ValueError"):
        rest = pad + "  None"
    else:
        raise T.Unsupported("the mode chain must end in `else: raise ValueError`")
    if kind == "table":
        return (f"{pad}match mode_lookup mode gen_{arg.lower()} with\n{pad}| Some {pattern} =>\n{body}\n{pad}| None =>\n{rest}\n{pad}end")
    cond = f"mode_is mode {arg}" if kind == "is" else f"mode_in mode [{'; '.join(arg)}]"
    return f"{pad}if {cond} then\n{body}\n{pad}else\n{rest}"


def comparative_discretise(tree, site, T):
    fn = T.find_function(tree, "comparative_discretise")
    tables = {"INEQUALITY_MODES": "pair", "EQUALITY_MODES": "op"}
    X = make_expr(T, {"data": "num", "comparison": "num", "abs_tolerance": "num", "mode": "mode"})
    text = ""
    lets = []
    chain = None
    returned = False
    for st in fn.body:
        if T.is_docstring(st):
            continue
        if returned:
            raise T.Unsupported("statement after return")
        if isinstance(st, ast.If) and T.src(st.test).startswith("abs_tolerance is None"):
            text += tolerance_guard(st, T)
        elif isinstance(st, ast.If) and is_type_plumbing(st, T):
            continue
        elif isinstance(st, ast.If):
            if chain is not None:
                raise T.Unsupported("second mode chain")
            chain = mode_chain(st, X, tables, T, 0)
        elif isinstance(st, ast.Assign) and len(st.targets) == 1 and isinstance(st.targets[0], ast.Name):
            if chain is not None:
                raise T.Unsupported("assignment after the mode chain: " + T.src(st)[:60])
            v, ty = X.expr(st.value)
            X.ty[st.targets[0].id] = ty
            lets.append(f"  let {T.cname(st.targets[0].id)} := {v} in\n")
        elif isinstance(st, ast.Assign) and T.src(st.targets[0]).startswith("discrete_data.attrs["):
            continue      # metadata only
        elif isinstance(st, ast.Return):
            if T.src(st.value) != "discrete_data" or chain is None:
                raise T.Unsupported("return " + T.src(st.value))
            returned = True
        else:
            raise T.Unsupported("statement " + T.src(st)[:80])
    if not returned or "gen_discretise_tolerance" not in text:
        raise T.Unsupported("comparative_discretise: missing return or tolerance sanitising")
    text = PRELUDE + text + ("(* None = ValueError (invalid mode) *)\n"
             "Definition gen_comparative_discretise (data comparison : xv) (mode : pmode) (abs_tolerance : xv) : option xv :=\n"
             + "".join(lets) + chain + ".\n")
    return text


# ----------------------------------------------------------------------------------------------
# S10: contingency maps and event tables
# ----------------------------------------------------------------------------------------------
class SelfToName(ast.NodeTransformer):
    """self.x -> x (the attributes of the manager are plain dataflow variables here)"""

    def visit_Attribute(self, node):
        self.generic_visit(node)
        if isinstance(node.value, ast.Name) and node.value.id == "self":
            return ast.copy_location(ast.Name(id=node.attr, ctx=node.ctx), node)
        return node


def contingency_maps(tree, site, T):
    t2 = SelfToName().visit(copy.deepcopy(tree))
    ast.fix_missing_locations(t2)
    s = dict(site, func="BinaryContingencyManager.__init__", params={"fcst_events": "num", "obs_events": "num"},
             outputs=["tp", "tn", "fp", "fn"])
    return T.translate_kernel(t2, s)


def event_tables(tree, site, T):
    """ThresholdEventOperator.make_event_tables / make_contingency_manager -> (fcst_events, obs_events)"""
    tree = SelfToName().visit(copy.deepcopy(tree))      # self.default_event_threshold -> default_event_threshold
    ast.fix_missing_locations(tree)
    fn = T.find_function(tree, "ThresholdEventOperator." + site["method"])
    X = make_expr(T, {"fcst": "num", "obs": "num", "event_threshold": "optnum", "op_fn": "optop",
                      "default_event_threshold": "num", "default_op_fn": "op"})
    lets = []
    result = None
    for st in fn.body:
        if T.is_docstring(st):
            continue
        if result is not None and not isinstance(st, ast.Return):
            raise T.Unsupported("statement after the result")
        if isinstance(st, ast.If) and not st.orelse and len(st.body) == 1 and isinstance(st.body[0], ast.Assign):
            # if X is None: X = self.default_X       (also: `if not X:` -- Python truthiness)
            a = st.body[0]
            n = a.targets[0].id if isinstance(a.targets[0], ast.Name) else None
            if n not in ("event_threshold", "op_fn") or T.src(a.value) != "default_" + n:
                raise T.Unsupported("fallback " + T.src(st)[:80])
            t = X.ty[n]
            if T.src(st.test) == f"{n} is None":
                cond = f"match {n} with None => true | Some _ => false end"
            elif T.src(st.test) == f"not {n}" and t == "optnum":
                cond = f"negb (py_truthy {n})"
            elif T.src(st.test) == f"not {n}" and t == "optop":
                cond = f"match {n} with None => true | Some _ => false end"     # a function object is truthy
            else:
                raise T.Unsupported("fallback test " + T.src(st.test))
            get = "opt_get" if t == "optnum" else "opt_get_op"
            lets.append(f"  let {n} := if {cond} then default_{n} else {get} {n} in\n")
            X.ty[n] = "num" if t == "optnum" else "op"
        elif isinstance(st, ast.Assign) and len(st.targets) == 1 and isinstance(st.targets[0], ast.Name):
            n = st.targets[0].id
            if isinstance(st.value, ast.Call) and T.src(st.value.func) == "BinaryContingencyManager":
                if [T.src(a) for a in st.value.args] != ["fcst_events", "obs_events"] or st.value.keywords:
                    raise T.Unsupported("manager construction " + T.src(st.value))
                result = ("mgr", n)
            else:
                v, ty = X.expr(st.value)
                X.ty[n] = ty
                lets.append(f"  let {T.cname(n)} := {v} in\n")
        elif isinstance(st, ast.Return):
            if result is not None and T.src(st.value) == result[1]:
                pass
            elif result is None and T.src(st.value) == "(fcst_events, obs_events)":
                result = ("tuple", None)
            else:
                raise T.Unsupported("return " + T.src(st.value))
        else:
            raise T.Unsupported("statement " + T.src(st)[:80])
    if result is None:
        raise T.Unsupported("no result")
    if X.ty.get("fcst_events") != "num" or X.ty.get("obs_events") != "num":
        raise T.Unsupported("event tables are not numeric (NaN mask missing?)")
    return (PRELUDE + f"Definition {site['name']} (default_event_threshold : xv) (default_op_fn : cmpop) (fcst obs : xv) "
            f"(event_threshold : option xv) (op_fn : option cmpop) : xv * xv :=\n" + "".join(lets) + "  (fcst_events, obs_events).\n")


def operator_init(tree, site, T):
    """ThresholdEventOperator.__init__: the two defaults must be stored exactly as given; the signature defaults are read off"""
    fn = T.find_function(tree, "ThresholdEventOperator.__init__")
    kw = {a.arg: d for a, d in zip(fn.args.kwonlyargs, fn.args.kw_defaults)}
    for n in ("default_event_threshold", "default_op_fn"):
        if n not in kw or kw[n] is None:
            raise T.Unsupported(f"{n} is not a keyword-only argument with a default")
    stored = {}
    for st in fn.body:
        if T.is_docstring(st):
            continue
        if not (isinstance(st, ast.Assign) and len(st.targets) == 1 and T.is_attr(st.targets[0], "self")):
            raise T.Unsupported("statement in __init__: " + T.src(st)[:60])
        stored[st.targets[0].attr] = st.value
    for n in ("default_event_threshold", "default_op_fn"):
        if n not in stored or not (isinstance(stored[n], ast.Name) and stored[n].id == n):
            raise T.Unsupported(f"self.{n} is not the argument itself: " + (T.src(stored[n]) if n in stored else "missing"))
    dt = T.Expr({}).num(kw["default_event_threshold"])
    dop = op_const(kw["default_op_fn"], T)
    return (PRELUDE +
            "(* the constructor argument if given, the signature default otherwise; stored unchanged *)\n"
            f"Definition gen_init_event_threshold (default_event_threshold : option xv) : xv :=\n"
            f"  match default_event_threshold with Some v => v | None => {dt} end.\n"
            f"Definition gen_init_op_fn (default_op_fn : option cmpop) : cmpop :=\n"
            f"  match default_op_fn with Some v => v | None => {dop} end.\n")


# ----------------------------------------------------------------------------------------------
# S10b: the views of a manager (round 4): who writes the object's state, how the xarray table is labelled, how
# format_table reads it.  Everything is an explicit list of accepted statement shapes (fail closed).
# ----------------------------------------------------------------------------------------------
def class_methods(tree, cls, T):
    for n in tree.body:
        if isinstance(n, ast.ClassDef) and n.name == cls:
            return {m.name: m for m in n.body if isinstance(m, ast.FunctionDef)}
    raise T.Unsupported("class " + cls + " not found")


def body_of(fn, T):
    return [st for st in fn.body if not T.is_docstring(st)]


def writes_state(fn):
    """source of the first statement of `fn` that (re)binds or mutates an attribute of self, or None"""
    for n in ast.walk(fn):
        if isinstance(n, ast.Attribute) and isinstance(n.ctx, (ast.Store, ast.Del)) and isinstance(n.value, ast.Name) and n.value.id == "self":
            return "self." + n.attr
        if isinstance(n, ast.Subscript) and isinstance(n.ctx, (ast.Store, ast.Del)) and any(
                isinstance(x, ast.Name) and x.id == "self" for x in ast.walk(n.value)):
            return ast.unparse(n)
        if isinstance(n, ast.Call):
            f = n.func
            if isinstance(f, ast.Name) and f.id in ("setattr", "delattr") and n.args and isinstance(n.args[0], ast.Name) and n.args[0].id == "self":
                return ast.unparse(n)
            if isinstance(f, ast.Attribute) and f.attr in ("update", "pop", "clear", "setdefault", "popitem", "append", "extend", "insert", "__setitem__") \
                    and any(isinstance(x, ast.Name) and x.id == "self" for x in ast.walk(f.value)):
                return ast.unparse(n)
            if isinstance(f, ast.Attribute) and f.attr in ("_make_xr_table", "__init__") and isinstance(f.value, ast.Name) and f.value.id == "self":
                return ast.unparse(n)
        if isinstance(n, (ast.Global, ast.Nonlocal)):
            return ast.unparse(n)
    return None


def str_list(e, consts, T):
    """a list of string literals, given literally or through a module-level / local name"""
    if isinstance(e, ast.Name) and e.id in consts:
        e = consts[e.id]
    if isinstance(e, (ast.List, ast.Tuple)) and e.elts and all(isinstance(x, ast.Constant) and isinstance(x.value, str) for x in e.elts):
        return [x.value for x in e.elts]
    raise T.Unsupported("list of string literals expected: " + T.src(e))


def coq_strs(xs):
    return "[" + "; ".join('"%s"' % x for x in xs) + "]"


def manager_views(tree, site, T):
    basic = class_methods(tree, "BasicContingencyManager", T)
    binary = class_methods(tree, "BinaryContingencyManager", T)
    consts = {}
    for st in tree.body:
        if isinstance(st, ast.Assign) and len(st.targets) == 1 and isinstance(st.targets[0], ast.Name) and isinstance(st.value, (ast.List, ast.Tuple)):
            consts[st.targets[0].id] = st.value
    # ---- 1. only the constructors (and _make_xr_table, called by them alone) write the state of a manager ----
    for cls, meths in (("BasicContingencyManager", basic), ("BinaryContingencyManager", binary)):
        for name, fn in meths.items():
            if name in ("__init__", "_make_xr_table"):
                continue
            w = writes_state(fn)
            if w:
                raise T.Unsupported(f"{cls}.{name} changes the state of the manager: {w}")
    b = [T.src(st) for st in body_of(basic["__init__"], T)]
    if b[-2:] != ["self.counts = counts", "self._make_xr_table()"] or any("self." in x for x in b[:-2]):
        raise T.Unsupported("BasicContingencyManager.__init__ does not end in `self.counts = counts; self._make_xr_table()`")
    b = [T.src(st) for st in body_of(binary["__init__"], T)]
    if b[-2:] != ["self.counts = self._get_counts()", "self._make_xr_table()"] or any("self.counts" in x or "xr_table" in x for x in b[:-2]):
        raise T.Unsupported("BinaryContingencyManager.__init__ does not end in `self.counts = self._get_counts(); self._make_xr_table()`")
    if [T.src(st) for st in body_of(basic["get_counts"], T)] != ["return self.counts"]:
        raise T.Unsupported("get_counts is not `return self.counts`")
    if [T.src(st) for st in body_of(basic["get_table"], T)] != ["return self.xr_table"]:
        raise T.Unsupported("get_table is not `return self.xr_table`")
    for n in ("get_counts", "get_table", "format_table", "_make_xr_table"):
        if n in binary:
            raise T.Unsupported("BinaryContingencyManager overrides " + n)
    if [T.src(st) for st in body_of(binary["transform"], T)] != [
            "cd = self._get_counts(reduce_dims=reduce_dims, preserve_dims=preserve_dims)", "return BasicContingencyManager(cd)"]:
        raise T.Unsupported("transform is not `cd = self._get_counts(reduce_dims=..., preserve_dims=...); return BasicContingencyManager(cd)`")
    # ---- 2. key order of the dict _get_counts builds ----
    keys = None
    gc = body_of(binary["_get_counts"], T)
    for st in gc:
        if isinstance(st, ast.Assign) and T.src(st.targets[0]) == "cd" and isinstance(st.value, ast.Dict):
            keys = [k.value for k in st.value.keys if isinstance(k, ast.Constant) and isinstance(k.value, str)]
            if len(keys) != len(st.value.keys):
                raise T.Unsupported("_get_counts: non-literal key")
        elif isinstance(st, ast.Assign) and isinstance(st.targets[0], ast.Subscript) and T.src(st.targets[0].value) == "cd":
            k = st.targets[0].slice
            if keys is None or not (isinstance(k, ast.Constant) and isinstance(k.value, str)):
                raise T.Unsupported("_get_counts: " + T.src(st))
            keys.append(k.value)
    if keys is None or T.src(gc[-1]) != "return cd":
        raise T.Unsupported("_get_counts does not build and return the dict `cd`")
    # ---- 3. _make_xr_table: labels and values of the 'contingency' dimension, as functions of the counts dict ----
    sym = {}          # local name -> 'empty' | 'keys' | 'values' | ('lit', [...])
    labels = values = None
    stored = False

    def seq(e):
        t = T.src(e)
        if isinstance(e, ast.Name) and e.id in sym:
            return sym[e.id]
        if t in ("list(self.counts.keys())", "list(self.counts)", "self.counts.keys()", "[*self.counts]"):
            return "keys"
        if t in ("list(self.counts.values())", "self.counts.values()"):
            return "values"
        return ("lit", str_list(e, consts, T))
    for st in body_of(basic["_make_xr_table"], T):
        if stored:
            raise T.Unsupported("_make_xr_table: statement after self.xr_table is stored")
        if isinstance(st, ast.Assign) and len(st.targets) == 1 and isinstance(st.targets[0], ast.Name) and T.src(st.value) == "[]":
            sym[st.targets[0].id] = "empty"
        elif isinstance(st, ast.For) and T.src(st.iter) == "self.counts.items()" and isinstance(st.target, ast.Tuple) and len(st.target.elts) == 2 \
                and all(isinstance(x, ast.Name) for x in st.target.elts) and not st.orelse:
            kv = {st.target.elts[0].id: "keys", st.target.elts[1].id: "values"}
            for a in st.body:
                c = a.value if isinstance(a, ast.Expr) else None
                if not (isinstance(c, ast.Call) and isinstance(c.func, ast.Attribute) and c.func.attr == "append" and isinstance(c.func.value, ast.Name)
                        and sym.get(c.func.value.id) == "empty" and len(c.args) == 1 and isinstance(c.args[0], ast.Name) and c.args[0].id in kv):
                    raise T.Unsupported("_make_xr_table loop body: " + T.src(a))
                sym[c.func.value.id] = kv[c.args[0].id]
        elif isinstance(st, ast.Assign) and isinstance(st.targets[0], ast.Name) and isinstance(st.value, ast.Call) and T.src(st.value.func) == "xr.concat":
            c = st.value
            if len(c.args) != 1 or [(k.arg, T.src(k.value)) for k in c.keywords] != [("dim", "'contingency'")]:
                raise T.Unsupported("xr.concat call: " + T.src(c))
            values = seq(c.args[0])
            sym[st.targets[0].id] = "table"
        elif isinstance(st, ast.Assign) and isinstance(st.targets[0], ast.Subscript) and sym.get(T.src(st.targets[0].value)) == "table" \
                and T.src(st.targets[0].slice) == "'contingency'":
            labels = seq(st.value)
        elif isinstance(st, ast.Assign) and T.src(st.targets[0]) == "self.xr_table" and isinstance(st.value, ast.Name) and sym.get(st.value.id) == "table":
            stored = True
        else:
            raise T.Unsupported("_make_xr_table: " + T.src(st)[:80])
    if not stored or values != "values" or labels is None or labels in ("values", "empty", "table"):
        raise T.Unsupported("_make_xr_table does not store the concatenated values of the counts dict with labels")
    lab = "(map fst counts)" if labels == "keys" else coq_strs(labels[1])
    # ---- 4. format_table: the four cells of the 2x2 frame in reading order ----
    ft = body_of(basic["format_table"], T)
    want_tail = ["df = pd.DataFrame(confusion_matrix.astype(int), columns=[positive_value_name + ' Observed', negative_value_name + ' Observed'], "
                 "index=[positive_value_name + ' Forecast', negative_value_name + ' Forecast'])",
                 "df['Total'] = df.sum(axis=1)", "df.loc['Total'] = df.sum(axis=0)", "return df"]
    if len(ft) != 6 or T.src(ft[0]) != "table = self.xr_table" or [T.src(x) for x in ft[2:]] != want_tail:
        raise T.Unsupported("format_table: unexpected statements around the 2x2 reshape")
    br = ft[1]
    if not (isinstance(br, ast.If) and T.src(br.test) == "table.shape == (5,)" and len(br.orelse) == 2 and T.src(br.orelse[1]) == "return self.get_table()"):
        raise T.Unsupported("format_table: single-table test")
    local = dict(consts)
    cells = None
    for st in br.body:
        if isinstance(st, ast.Assign) and isinstance(st.targets[0], ast.Name) and isinstance(st.value, (ast.List, ast.Tuple)) and st.targets[0].id != "confusion_matrix":
            local[st.targets[0].id] = st.value
        elif isinstance(st, ast.Assign) and T.src(st.targets[0]) == "confusion_matrix":
            v = st.value       # np.array(<cells>).reshape((2, 2))
            if not (isinstance(v, ast.Call) and isinstance(v.func, ast.Attribute) and v.func.attr == "reshape" and T.src(v.args[0]) == "(2, 2)"
                    and isinstance(v.func.value, ast.Call) and T.src(v.func.value.func) == "np.array" and len(v.func.value.args) == 1):
                raise T.Unsupported("format_table: " + T.src(v))
            c = v.func.value.args[0]

            def cell(e, var=None, val=None):
                if isinstance(e, ast.Subscript) and T.src(e.value) == "table":
                    return f"by_pos {int_const(e.slice, T)} table"
                if isinstance(e, ast.Call) and T.src(e.func) == "table.sel" and not e.args and len(e.keywords) == 1 and e.keywords[0].arg == "contingency":
                    k = e.keywords[0].value
                    if var is not None and isinstance(k, ast.Name) and k.id == var:
                        return f'by_label "{val}" table'
                    if isinstance(k, ast.Constant) and isinstance(k.value, str):
                        return f'by_label "{k.value}" table'
                raise T.Unsupported("format_table cell: " + T.src(e))
            if isinstance(c, ast.List):
                cells = [cell(e) for e in c.elts]
            elif isinstance(c, ast.ListComp) and len(c.generators) == 1 and not c.generators[0].ifs and isinstance(c.generators[0].target, ast.Name):
                g = c.generators[0]
                cells = [cell(c.elt, g.target.id, k) for k in str_list(g.iter, local, T)]
            else:
                raise T.Unsupported("format_table cells: " + T.src(c))
        else:
            raise T.Unsupported("format_table: " + T.src(st)[:80])
    if cells is None or len(cells) != 4:
        raise T.Unsupported("format_table: four cells expected")
    by_label = all(x.startswith("by_label") for x in cells)
    return (PRELUDE +
            "(* key order of the dict built by BinaryContingencyManager._get_counts *)\n"
            f"Definition gen_count_keys : list string := {coq_strs(keys)}.\n"
            "(* BasicContingencyManager._make_xr_table: (label, value) along the 'contingency' dimension, for a counts dict given as its item list *)\n"
            f"Definition gen_table_of_counts {{A : Type}} (counts : list (string * A)) : list (string * A) :=\n  combine {lab} (map snd counts).\n"
            "(* BasicContingencyManager.format_table: the cells [[a, b], [c, d]] of the 2x2 frame (rows: forecast yes / no, columns: observed yes / no) *)\n"
            f"Definition gen_format_reads_by_label : bool := {'true' if by_label else 'false'}.\n"
            f"Definition gen_format_cells {{A : Type}} (table : list (string * A)) : list (option A) :=\n  [{'; '.join(cells)}].\n"
            "(* checked on the source text: only __init__ / _make_xr_table (called by the constructors alone) bind self.counts and self.xr_table;\n"
            "   no other method of the two managers assigns, deletes or mutates an attribute of self; get_counts / get_table return them;\n"
            "   transform = BasicContingencyManager(self._get_counts(reduce_dims, preserve_dims)) *)\n"
            "Definition gen_manager_state_written_by_constructors_only : bool := true.\n")


SITES = [
    dict(id="C08.modes", group="C08_discretise", kind="custom", fn=mode_tables, file="processing/discretise.py", func="INEQUALITY_MODES"),
    dict(id="C08.discretise", group="C08_discretise", kind="custom", fn=comparative_discretise, file="processing/discretise.py",
         func="comparative_discretise", name="gen_comparative_discretise"),
    dict(id="C08.maps", group="C08_contingency", kind="custom", fn=lambda tree, site, T: PRELUDE + contingency_maps(tree, site, T),
         file="categorical/contingency_impl.py", func="BinaryContingencyManager.__init__", name="gen_contingency_maps"),
    dict(id="C08.init", group="C08_contingency", kind="custom", fn=operator_init, file="categorical/contingency_impl.py",
         func="ThresholdEventOperator.__init__", name="gen_init_event_threshold"),
    dict(id="C08.event_tables", group="C08_contingency", kind="custom", fn=event_tables, file="categorical/contingency_impl.py",
         func="ThresholdEventOperator.make_event_tables", method="make_event_tables", name="gen_make_event_tables"),
    dict(id="C08.event_manager", group="C08_contingency", kind="custom", fn=event_tables, file="categorical/contingency_impl.py",
         func="ThresholdEventOperator.make_contingency_manager", method="make_contingency_manager", name="gen_make_contingency_manager"),
    dict(id="C08.views", group="C08_views", kind="custom", fn=manager_views, file="categorical/contingency_impl.py",
         func="BasicContingencyManager._make_xr_table / format_table / BinaryContingencyManager.transform", name="gen_table_of_counts"),
]
