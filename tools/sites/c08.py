"""Translator sites for C08 (shared with C14): the discretisation mode tables and kernel of
processing/discretise.py (S9) and the event tables / contingency maps of
categorical/contingency_impl.py (S10).

All sites are `custom`: they walk the statements of the function with a small, explicit list of
accepted statement shapes and raise Unsupported for anything else (fail closed).  Expressions go
through the shared expression translator (py2gallina.Expr) extended by three call forms:
`<op variable>(a, b)`, `operator.<name>(a, b)` and `mode(a, b)` -> `apply_op ...` (coq/lib/C08_aux.v)."""
import ast
import copy

OPS = {"ge": "OpGe", "gt": "OpGt", "le": "OpLe", "lt": "OpLt", "eq": "OpEq", "ne": "OpNe"}
PRELUDE = "From V Require Import lib.C08_aux.\n"


def op_const(e, T):
    """operator.ge -> OpGe"""
    if T.is_attr(e, "operator") and e.attr in OPS:
        return OPS[e.attr]
    raise T.Unsupported("expected operator.<ge|gt|le|lt|eq|ne>, got " + T.src(e))


def make_expr(T, types):
    class DExpr(T.Expr):
        def expr(self, e):
            # numpy: bool * bool is the logical and
            if isinstance(e, ast.BinOp) and isinstance(e.op, ast.Mult):
                (a, ta), (b, tb) = self.expr(e.left), self.expr(e.right)
                if ta == "bool" and tb == "bool":
                    return f"(andb {a} {b})", "bool"
            return super().expr(e)

        def call(self, e):
            f = e.func
            if len(e.args) == 2 and not e.keywords:
                if isinstance(f, ast.Name) and self.ty.get(f.id) == "op":
                    return f"(apply_op {T.cname(f.id)} {self.num(e.args[0])} {self.num(e.args[1])})", "bool"
                if isinstance(f, ast.Name) and self.ty.get(f.id) == "mode":
                    return f"(apply_op (op_of_mode {T.cname(f.id)}) {self.num(e.args[0])} {self.num(e.args[1])})", "bool"
                if T.is_attr(f, "operator") and f.attr in OPS:
                    return f"(apply_op {OPS[f.attr]} {self.num(e.args[0])} {self.num(e.args[1])})", "bool"
            return super().call(e)
    return DExpr(types)


# ----------------------------------------------------------------------------------------------
# S9: mode tables
# ----------------------------------------------------------------------------------------------
def module_dict(tree, name, T):
    for st in tree.body:
        if isinstance(st, ast.Assign) and len(st.targets) == 1 and isinstance(st.targets[0], ast.Name) and st.targets[0].id == name:
            if not isinstance(st.value, ast.Dict):
                raise T.Unsupported(name + " is not a dict literal")
            return st.value
    raise T.Unsupported(name + " not found")


def int_const(e, T):
    if isinstance(e, ast.UnaryOp) and isinstance(e.op, ast.USub):
        return -int_const(e.operand, T)
    if isinstance(e, ast.Constant) and isinstance(e.value, int) and not isinstance(e.value, bool):
        return e.value
    raise T.Unsupported("integer constant expected: " + T.src(e))


def mode_tables(tree, site, T):
    ineq = module_dict(tree, "INEQUALITY_MODES", T)
    eq = module_dict(tree, "EQUALITY_MODES", T)
    rows = []
    for k, v in zip(ineq.keys, ineq.values):
        if not (isinstance(k, ast.Constant) and isinstance(k.value, str) and isinstance(v, ast.Tuple) and len(v.elts) == 2):
            raise T.Unsupported("INEQUALITY_MODES entry " + T.src(v))
        rows.append(f'("{k.value}", ({op_const(v.elts[0], T)}, XFin ({int_const(v.elts[1], T)} # 1)))')
    text = PRELUDE + "Definition gen_inequality_modes : list (string * (cmpop * xv)) :=\n  [" + "; ".join(rows) + "].\n"
    rows = []
    for k, v in zip(eq.keys, eq.values):
        if not (isinstance(k, ast.Constant) and isinstance(k.value, str)):
            raise T.Unsupported("EQUALITY_MODES key")
        rows.append(f'("{k.value}", {op_const(v, T)})')
    text += "Definition gen_equality_modes : list (string * cmpop) :=\n  [" + "; ".join(rows) + "].\n"
    return text


# ----------------------------------------------------------------------------------------------
# S9: comparative_discretise
# ----------------------------------------------------------------------------------------------
def is_raise(st, exc):
    return isinstance(st, ast.Raise) and st.exc is not None and \
        (getattr(st.exc.func if isinstance(st.exc, ast.Call) else st.exc, "id", None) == exc)


def tolerance_guard(st, T):
    """if abs_tolerance is None: abs_tolerance = <c>  elif <cond>: raise ValueError"""
    ok = (isinstance(st.test, ast.Compare) and len(st.test.ops) == 1 and isinstance(st.test.ops[0], ast.Is)
          and isinstance(st.test.left, ast.Name) and st.test.left.id == "abs_tolerance"
          and len(st.body) == 1 and isinstance(st.body[0], ast.Assign) and T.src(st.body[0].targets[0]) == "abs_tolerance"
          and len(st.orelse) == 1 and isinstance(st.orelse[0], ast.If) and not st.orelse[0].orelse
          and len(st.orelse[0].body) == 1 and is_raise(st.orelse[0].body[0], "ValueError"))
    if not ok:
        raise T.Unsupported("abs_tolerance sanitising has an unexpected shape")
    X = T.Expr({"abs_tolerance": "num"})
    default = T.Expr({}).num(st.body[0].value)
    cond = X.boolean(st.orelse[0].test)
    return ("Definition gen_discretise_tolerance (abs_tolerance : option xv) : result xv :=\n"
            f"  match abs_tolerance with\n  | None => Ok {default}\n"
            f"  | Some abs_tolerance => if {cond} then Err ValueError else Ok abs_tolerance\n  end.\n")


def is_type_plumbing(st, T):
    """if isinstance(comparison, (float, int)): comparison = xr.DataArray(comparison) elif not isinstance(...): raise TypeError"""
    try:
        return (isinstance(st.test, ast.Call) and st.test.func.id == "isinstance" and T.src(st.test.args[0]) == "comparison"
                and len(st.body) == 1 and T.src(st.body[0]) == "comparison = xr.DataArray(comparison)"
                and len(st.orelse) == 1 and isinstance(st.orelse[0], ast.If) and not st.orelse[0].orelse
                and len(st.orelse[0].body) == 1 and is_raise(st.orelse[0].body[0], "TypeError")
                and T.src(st.orelse[0].test).startswith("not isinstance(comparison"))
    except AttributeError:
        return False


def mode_test(test, tables, T):
    """-> ('table', NAME) | ('is', Op) | ('in', [Ops])"""
    if isinstance(test, ast.Compare) and len(test.ops) == 1 and isinstance(test.left, ast.Name) and test.left.id == "mode":
        op, rhs = test.ops[0], test.comparators[0]
        if isinstance(op, ast.In) and isinstance(rhs, ast.Name) and rhs.id in tables:
            return "table", rhs.id
        if isinstance(op, ast.Is):
            return "is", op_const(rhs, T)
        if isinstance(op, ast.In) and isinstance(rhs, (ast.List, ast.Tuple)):
            return "in", [op_const(x, T) for x in rhs.elts]
    raise T.Unsupported("mode test " + T.src(test))


def branch_body(stmts, X, tables, table, T, pad):
    """statements of one mode branch -> (pattern bound from the table lookup | None, coq text of type option xv)"""
    pattern = None
    lets = []
    stmts = list(stmts)
    if table is not None:
        st = stmts.pop(0)
        if not (isinstance(st, ast.Assign) and len(st.targets) == 1 and T.src(st.value) == f"{table}[mode]"):
            raise T.Unsupported("expected a lookup of the mode in " + table)
        tgt = st.targets[0]
        if tables[table] == "pair" and isinstance(tgt, ast.Tuple) and len(tgt.elts) == 2 and all(isinstance(x, ast.Name) for x in tgt.elts):
            X.ty[tgt.elts[0].id], X.ty[tgt.elts[1].id] = "op", "num"
            pattern = f"({T.cname(tgt.elts[0].id)}, {T.cname(tgt.elts[1].id)})"
        elif tables[table] == "op" and isinstance(tgt, ast.Name):
            X.ty[tgt.id] = "op"
            pattern = T.cname(tgt.id)
        else:
            raise T.Unsupported("lookup target " + T.src(tgt))
    result = None
    for st in stmts:
        if result is not None:
            raise T.Unsupported("statement after the assignment of discrete_data")
        if isinstance(st, ast.If):
            # if mode in [..]: name = c1  else: name = c2
            kind, ops = mode_test(st.test, tables, T)
            if kind != "in" or len(st.body) != 1 or len(st.orelse) != 1:
                raise T.Unsupported("nested if " + T.src(st.test))
            a, b = st.body[0], st.orelse[0]
            if not (isinstance(a, ast.Assign) and isinstance(b, ast.Assign) and T.src(a.targets[0]) == T.src(b.targets[0])
                    and isinstance(a.targets[0], ast.Name)):
                raise T.Unsupported("nested if must assign one name in both branches")
            n = a.targets[0].id
            va, vb = X.num(a.value), X.num(b.value)
            X.ty[n] = "num"
            lets.append(f"{pad}let {T.cname(n)} := if mode_in mode [{'; '.join(ops)}] then {va} else {vb} in\n")
        elif isinstance(st, ast.Assign) and len(st.targets) == 1 and isinstance(st.targets[0], ast.Name):
            n = st.targets[0].id
            if n == "discrete_data":
                result = X.num(st.value)
            else:
                v, ty = X.expr(st.value)
                X.ty[n] = ty
                lets.append(f"{pad}let {T.cname(n)} := {v} in\n")
        else:
            raise T.Unsupported("statement in mode branch: " + T.src(st)[:60])
    if result is None:
        raise T.Unsupported("mode branch does not assign discrete_data")
    return pattern, "".join(lets) + f"{pad}Some {result}"


def mode_chain(node, X, tables, T, depth):
    pad = "  " * (depth + 1)
    kind, arg = mode_test(node.test, tables, T)
    saved = dict(X.ty)
    pattern, body = branch_body(node.body, X, tables, arg if kind == "table" else None, T, pad + "  ")
    X.ty = saved
    if len(node.orelse) == 1 and isinstance(node.orelse[0], ast.If):
        rest = mode_chain(node.orelse[0], X, tables, T, depth + 1)
    elif len(node.orelse) == 1 and is_raise(node.orelse[0], "ValueError"):
        rest = pad + "  None"
    else:
        raise T.Unsupported("the mode chain must end in `else: raise ValueError`")
    if kind == "table":
        return (f"{pad}match mode_lookup mode gen_{arg.lower()} with\n{pad}| Some {pattern} =>\n{body}\n{pad}| None =>\n{rest}\n{pad}end")
    cond = f"mode_is mode {arg}" if kind == "is" else f"mode_in mode [{'; '.join(arg)}]"
    return f"{pad}if {cond} then\n{body}\n{pad}else\n{rest}"


def comparative_discretise(tree, site, T):
    fn = T.find_function(tree, "comparative_discretise")
    tables = {"INEQUALITY_MODES": "pair", "EQUALITY_MODES": "op"}
    X = make_expr(T, {"data": "num", "comparison": "num", "abs_tolerance": "num", "mode": "mode"})
    text = ""
    lets = []
    chain = None
    returned = False
    for st in fn.body:
        if T.is_docstring(st):
            continue
        if returned:
            raise T.Unsupported("statement after return")
        if isinstance(st, ast.If) and T.src(st.test).startswith("abs_tolerance is None"):
            text += tolerance_guard(st, T)
        elif isinstance(st, ast.If) and is_type_plumbing(st, T):
            continue
        elif isinstance(st, ast.If):
            if chain is not None:
                raise T.Unsupported("second mode chain")
            chain = mode_chain(st, X, tables, T, 0)
        elif isinstance(st, ast.Assign) and len(st.targets) == 1 and isinstance(st.targets[0], ast.Name):
            if chain is not None:
                raise T.Unsupported("assignment after the mode chain: " + T.src(st)[:60])
            v, ty = X.expr(st.value)
            X.ty[st.targets[0].id] = ty
            lets.append(f"  let {T.cname(st.targets[0].id)} := {v} in\n")
        elif isinstance(st, ast.Assign) and T.src(st.targets[0]).startswith("discrete_data.attrs["):
            continue      # metadata only
        elif isinstance(st, ast.Return):
            if T.src(st.value) != "discrete_data" or chain is None:
                raise T.Unsupported("return " + T.src(st.value))
            returned = True
        else:
            raise T.Unsupported("statement " + T.src(st)[:80])
    if not returned or "gen_discretise_tolerance" not in text:
        raise T.Unsupported("comparative_discretise: missing return or tolerance sanitising")
    text = PRELUDE + text + ("(* None = ValueError (invalid mode) *)\n"
             "Definition gen_comparative_discretise (data comparison : xv) (mode : pmode) (abs_tolerance : xv) : option xv :=\n"
             + "".join(lets) + chain + ".\n")
    return text


# ----------------------------------------------------------------------------------------------
# S10: contingency maps and event tables
# ----------------------------------------------------------------------------------------------
class SelfToName(ast.NodeTransformer):
    """self.x -> x (the attributes of the manager are plain dataflow variables here)"""

    def visit_Attribute(self, node):
        self.generic_visit(node)
        if isinstance(node.value, ast.Name) and node.value.id == "self":
            return ast.copy_location(ast.Name(id=node.attr, ctx=node.ctx), node)
        return node


def contingency_maps(tree, site, T):
    t2 = SelfToName().visit(copy.deepcopy(tree))
    ast.fix_missing_locations(t2)
    s = dict(site, func="BinaryContingencyManager.__init__", params={"fcst_events": "num", "obs_events": "num"},
             outputs=["tp", "tn", "fp", "fn"])
    return T.translate_kernel(t2, s)


def event_tables(tree, site, T):
    """ThresholdEventOperator.make_event_tables / make_contingency_manager -> (fcst_events, obs_events)"""
    tree = SelfToName().visit(copy.deepcopy(tree))      # self.default_event_threshold -> default_event_threshold
    ast.fix_missing_locations(tree)
    fn = T.find_function(tree, "ThresholdEventOperator." + site["method"])
    X = make_expr(T, {"fcst": "num", "obs": "num", "event_threshold": "optnum", "op_fn": "optop",
                      "default_event_threshold": "num", "default_op_fn": "op"})
    lets = []
    result = None
    for st in fn.body:
        if T.is_docstring(st):
            continue
        if result is not None and not isinstance(st, ast.Return):
            raise T.Unsupported("statement after the result")
        if isinstance(st, ast.If) and not st.orelse and len(st.body) == 1 and isinstance(st.body[0], ast.Assign):
            # if X is None: X = self.default_X       (also: `if not X:` -- Python truthiness)
            a = st.body[0]
            n = a.targets[0].id if isinstance(a.targets[0], ast.Name) else None
            if n not in ("event_threshold", "op_fn") or T.src(a.value) != "default_" + n:
                raise T.Unsupported("fallback " + T.src(st)[:80])
            t = X.ty[n]
            if T.src(st.test) == f"{n} is None":
                cond = f"match {n} with None => true | Some _ => false end"
            elif T.src(st.test) == f"not {n}" and t == "optnum":
                cond = f"negb (py_truthy {n})"
            elif T.src(st.test) == f"not {n}" and t == "optop":
                cond = f"match {n} with None => true | Some _ => false end"     # a function object is truthy
            else:
                raise T.Unsupported("fallback test " + T.src(st.test))
            get = "opt_get" if t == "optnum" else "opt_get_op"
            lets.append(f"  let {n} := if {cond} then default_{n} else {get} {n} in\n")
            X.ty[n] = "num" if t == "optnum" else "op"
        elif isinstance(st, ast.Assign) and len(st.targets) == 1 and isinstance(st.targets[0], ast.Name):
            n = st.targets[0].id
            if isinstance(st.value, ast.Call) and T.src(st.value.func) == "BinaryContingencyManager":
                if [T.src(a) for a in st.value.args] != ["fcst_events", "obs_events"] or st.value.keywords:
                    raise T.Unsupported("manager construction " + T.src(st.value))
                result = ("mgr", n)
            else:
                v, ty = X.expr(st.value)
                X.ty[n] = ty
                lets.append(f"  let {T.cname(n)} := {v} in\n")
        elif isinstance(st, ast.Return):
            if result is not None and T.src(st.value) == result[1]:
                pass
            elif result is None and T.src(st.value) == "(fcst_events, obs_events)":
                result = ("tuple", None)
            else:
                raise T.Unsupported("return " + T.src(st.value))
        else:
            raise T.Unsupported("statement " + T.src(st)[:80])
    if result is None:
        raise T.Unsupported("no result")
    if X.ty.get("fcst_events") != "num" or X.ty.get("obs_events") != "num":
        raise T.Unsupported("event tables are not numeric (NaN mask missing?)")
    return (PRELUDE + f"Definition {site['name']} (default_event_threshold : xv) (default_op_fn : cmpop) (fcst obs : xv) "
            f"(event_threshold : option xv) (op_fn : option cmpop) : xv * xv :=\n" + "".join(lets) + "  (fcst_events, obs_events).\n")


def operator_init(tree, site, T):
    """ThresholdEventOperator.__init__: the two defaults must be stored exactly as given; the signature defaults are read off"""
    fn = T.find_function(tree, "ThresholdEventOperator.__init__")
    kw = {a.arg: d for a, d in zip(fn.args.kwonlyargs, fn.args.kw_defaults)}
    for n in ("default_event_threshold", "default_op_fn"):
        if n not in kw or kw[n] is None:
            raise T.Unsupported(f"{n} is not a keyword-only argument with a default")
    stored = {}
    for st in fn.body:
        if T.is_docstring(st):
            continue
        if not (isinstance(st, ast.Assign) and len(st.targets) == 1 and T.is_attr(st.targets[0], "self")):
            raise T.Unsupported("statement in __init__: " + T.src(st)[:60])
        stored[st.targets[0].attr] = st.value
    for n in ("default_event_threshold", "default_op_fn"):
        if n not in stored or not (isinstance(stored[n], ast.Name) and stored[n].id == n):
            raise T.Unsupported(f"self.{n} is not the argument itself: " + (T.src(stored[n]) if n in stored else "missing"))
    dt = T.Expr({}).num(kw["default_event_threshold"])
    dop = op_const(kw["default_op_fn"], T)
    return (PRELUDE +
            "(* the constructor argument if given, the signature default otherwise; stored unchanged *)\n"
            f"Definition gen_init_event_threshold (default_event_threshold : option xv) : xv :=\n"
            f"  match default_event_threshold with Some v => v | None => {dt} end.\n"
            f"Definition gen_init_op_fn (default_op_fn : option cmpop) : cmpop :=\n"
            f"  match default_op_fn with Some v => v | None => {dop} end.\n")


SITES = [
    dict(id="C08.modes", group="C08_discretise", kind="custom", fn=mode_tables, file="processing/discretise.py", func="INEQUALITY_MODES"),
    dict(id="C08.discretise", group="C08_discretise", kind="custom", fn=comparative_discretise, file="processing/discretise.py",
         func="comparative_discretise", name="gen_comparative_discretise"),
    dict(id="C08.maps", group="C08_contingency", kind="custom", fn=lambda tree, site, T: PRELUDE + contingency_maps(tree, site, T),
         file="categorical/contingency_impl.py", func="BinaryContingencyManager.__init__", name="gen_contingency_maps"),
    dict(id="C08.init", group="C08_contingency", kind="custom", fn=operator_init, file="categorical/contingency_impl.py",
         func="ThresholdEventOperator.__init__", name="gen_init_event_threshold"),
    dict(id="C08.event_tables", group="C08_contingency", kind="custom", fn=event_tables, file="categorical/contingency_impl.py",
         func="ThresholdEventOperator.make_event_tables", method="make_event_tables", name="gen_make_event_tables"),
    dict(id="C08.event_manager", group="C08_contingency", kind="custom", fn=event_tables, file="categorical/contingency_impl.py",
         func="ThresholdEventOperator.make_contingency_manager", method="make_contingency_manager", name="gen_make_contingency_manager"),
]
