"""Translator sites for C09: every metric method of BasicContingencyManager (S12) and the
standalone POD/POFD kernels of categorical/binary_impl.py (S11, shared with C14).

The metric methods are listed in dependency order (a method that calls self.other() refers to
gen_metric_other, which must have been emitted earlier in the generated file)."""

_BASE = [
    "accuracy", "base_rate", "forecast_rate", "frequency_bias", "probability_of_detection",
    "false_alarm_ratio", "false_alarm_rate", "success_ratio", "threat_score", "peirce_skill_score",
    "specificity", "negative_predictive_value", "f1_score", "equitable_threat_score", "heidke_skill_score",
    "odds_ratio_skill_score",
]
_ALIASES = [
    "fraction_correct", "bias_score", "hit_rate", "true_positive_rate", "probability_of_false_detection",
    "critical_success_index", "true_skill_statistic", "hanssen_and_kuipers_discriminant", "sensitivity",
    "true_negative_rate", "recall", "precision", "positive_predictive_value", "gilberts_skill_score",
    "cohens_kappa", "yules_q",
]
# these two call self.probability_of_detection() / self.probability_of_false_detection()
_LATE = ["odds_ratio", "symmetric_extremal_dependence_index"]

METHODS = _BASE + _ALIASES + _LATE


def final_ratio(tree, site, T):
    """the last assignment of the function (`pod = hits / (hits + misses)`), which must be what is returned,
    as an expression over the two reduced (weighted, summed) maps"""
    import ast
    fn = T.find_function(tree, site["func"])
    if len(fn.body) < 2 or not isinstance(fn.body[-1], ast.Return) or not isinstance(fn.body[-2], ast.Assign):
        raise T.Unsupported("expected `<name> = <ratio>; return <name>` at the end of " + site["func"])
    asg, ret = fn.body[-2], fn.body[-1]
    if not (len(asg.targets) == 1 and isinstance(asg.targets[0], ast.Name) and isinstance(ret.value, ast.Name)
            and ret.value.id == asg.targets[0].id):
        raise T.Unsupported("the returned name is not the last assignment in " + site["func"])
    # the operands must be the names reduced by .sum(dim=dims_to_sum) just before
    for p in site["params"]:
        ok = any(isinstance(s, ast.Assign) and isinstance(s.targets[0], ast.Name) and s.targets[0].id == p
                 and T.src(s.value) == f"{p}.sum(dim=dims_to_sum)" for s in fn.body)
        if not ok:
            raise T.Unsupported(f"{p} is not reduced by .sum(dim=dims_to_sum) in " + site["func"])
    X = T.Expr(site["params"])
    args = " ".join(f"({T.cname(p)} : xv)" for p in site["params"])
    return f"Definition {site['name']} {args} : xv :=\n  {X.num(asg.value)}.\n"


SITES = [
    dict(id="C09.m." + m, group="C09_metrics", kind="metric", file="categorical/contingency_impl.py",
         cls="BasicContingencyManager", method=m)
    for m in METHODS
] + [
    # S11: the four boolean maps of the standalone POD / POFD, NaN mask included, before weighting
    dict(id="C09.pod", group="C09_binary", kind="kernel", file="categorical/binary_impl.py", func="probability_of_detection",
         params={"fcst": "num", "obs": "num"}, outputs=["hits", "misses"], stop_before="apply_weights", name="gen_pod_maps"),
    dict(id="C09.pofd", group="C09_binary", kind="kernel", file="categorical/binary_impl.py", func="probability_of_false_detection",
         params={"fcst": "num", "obs": "num"}, outputs=["false_alarms", "correct_negatives"], stop_before="apply_weights",
         name="gen_pofd_maps"),
    # ... and the final ratio of the two weighted sums
    dict(id="C09.pod_ratio", group="C09_binary", kind="custom", fn=final_ratio, file="categorical/binary_impl.py", func="probability_of_detection",
         params={"hits": "num", "misses": "num"}, name="gen_pod_ratio"),
    dict(id="C09.pofd_ratio", group="C09_binary", kind="custom", fn=final_ratio, file="categorical/binary_impl.py", func="probability_of_false_detection",
         params={"false_alarms": "num", "correct_negatives": "num"}, name="gen_pofd_ratio"),
]
