"""Translator sites for C07/C17: the closed-form piece integral and the per-threshold Brier score."""
SITES = [
    # integrate_square_piecewise_linear: m = dy/dx; piece = m^2 dx^3/3 + m b dx^2 + b^2 dx
    dict(id="C07.piece", group="C07_kern", kind="kernel", file="processing/cdf/cdf_functions.py",
         func="integrate_square_piecewise_linear",
         params={"diff_xs": "num", "diff_ys": "num", "b_values": "num"}, cut=["diff_xs", "diff_ys", "b_values"],
         outputs=["piece_integral"], stop_before="piece_weight is not None", name="gen_piece_integral"),
    # crps_cdf_brier_decomposition: bscore = (fcst - obs) ** 2
    dict(id="C07.bscore", group="C07_kern", kind="kernel", file="probability/crps_impl.py",
         func="crps_cdf_brier_decomposition",
         params={"fcst": "num", "obs": "num"}, cut=["fcst", "obs"],
         outputs=["bscore"], stop_before="not_nan", name="gen_bscore"),
]
