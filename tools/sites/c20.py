"""Translator sites for C20: the guard clauses (`if <cond>: raise E`) of the public functions, read from each public
function's own body with the named checker helpers inlined (so a deleted call to a checker removes the guard)."""
def G(id, file, func, params, name, helpers=(), helper_files=None, **kw):
    d = dict(id="C20." + id, group="C20_guards", kind="guards", file=file, func=func, params=params, name="gen_guard_" + name,
             helpers=list(helpers), skip_unsupported_guards=True)
    if helper_files:
        d["helper_files"] = helper_files
    d.update(kw)
    return d


CONS = "continuous/consistent_impl.py"
TW = "continuous/threshold_weighted_impl.py"
CONS_HELPERS = ["check_alpha", "check_huber_param", "consistent_quantile_score", "consistent_expectile_score", "consistent_huber_score"]
CONS_FILES = {h: CONS for h in CONS_HELPERS}

SITES = [
    G("quantile_score", "continuous/quantile_loss_impl.py", "quantile_score", {"alpha": "num"}, "quantile_score"),
    G("qis", "continuous/interval_impl.py", "quantile_interval_score", {"lower_qtile_level": "num", "upper_qtile_level": "num"}, "qis"),
    G("interval_score", "continuous/interval_impl.py", "interval_score", {"interval_range": "num"}, "interval_score"),
    G("consistent_expectile", CONS, "consistent_expectile_score", {"alpha": "num"}, "consistent_expectile", helpers=["check_alpha"]),
    G("consistent_quantile", CONS, "consistent_quantile_score", {"alpha": "num"}, "consistent_quantile", helpers=["check_alpha"]),
    G("consistent_huber", CONS, "consistent_huber_score", {"huber_param": "num"}, "consistent_huber", helpers=["check_huber_param"]),
    G("tw_quantile", TW, "tw_quantile_score", {"alpha": "num"}, "tw_quantile", helpers=CONS_HELPERS, helper_files=CONS_FILES),
    G("tw_expectile", TW, "tw_expectile_score", {"alpha": "num"}, "tw_expectile", helpers=CONS_HELPERS, helper_files=CONS_FILES),
    G("tw_huber", TW, "tw_huber_loss", {"huber_param": "num"}, "tw_huber", helpers=CONS_HELPERS, helper_files=CONS_FILES),
    G("murphy_score", "continuous/murphy_impl.py", "murphy_score", {"alpha": "num", "functional_lower": "str", "huber_a": "optnum"}, "murphy_score",
      helpers=["_check_murphy_inputs"]),
    G("murphy_thetas", "continuous/murphy_impl.py", "murphy_thetas", {"functional": "str", "huber_a": "optnum", "left_limit_delta": "optnum"},
      "murphy_thetas", helpers=["_check_murphy_inputs"]),
    G("firm", "categorical/multicategorical_impl.py", "firm", {"risk_parameter": "num", "discount_distance": "num", "threshold_assignment": "str"},
      "firm", helpers=["_check_firm_inputs"]),
    G("discretise", "processing/discretise.py", "comparative_discretise", {"abs_tolerance": "optnum"}, "comparative_discretise"),
    G("round_values", "processing/cdf/cdf_functions.py", "round_values", {"rounding_precision": "num"}, "round_values"),
    G("observed_cdf", "processing/cdf/cdf_functions.py", "observed_cdf", {"precision": "num"}, "observed_cdf"),
    G("fill_cdf", "processing/cdf/cdf_functions.py", "fill_cdf", {"min_nonnan": "num", "method": "str"}, "fill_cdf"),
    G("adjust_fcst", "probability/crps_impl.py", "adjust_fcst_for_crps", {"decreasing_tolerance": "num"}, "adjust_fcst_for_crps"),
    G("nan_decreasing", "probability/checks.py", "check_nan_decreasing_inputs", {"tolerance": "num"}, "check_nan_decreasing_inputs"),
    G("isoreg", "processing/isoreg_impl.py", "_iso_arg_checks", {"functional": "optstr", "quantile_level": "num", "confidence_level": "num"},
      "iso_arg_checks"),
    G("dm", "stats/statistical_tests/diebold_mariano_impl.py", "diebold_mariano", {"confidence_level": "num", "method": "str", "statistic_distribution": "str"},
      "diebold_mariano"),
    G("crps_ensemble", "probability/crps_impl.py", "crps_for_ensemble", {"method": "str"}, "crps_for_ensemble"),
    G("tail_tw", "probability/crps_impl.py", "tail_tw_crps_for_ensemble", {"tail": "str"}, "tail_tw_crps"),
    G("isoreg_weight", "processing/isoreg_impl.py", "_iso_arg_checks", {"weight": "numlist"}, "iso_weight"),
    G("crps_cdf_weight", "probability/crps_impl.py", "check_crps_cdf_inputs", {"threshold_weight": "numlist", "fcst_fill_method": "str", "integration_method": "str"},
      "crps_cdf_inputs"),
]
