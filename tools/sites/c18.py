"""Translator site for C18: the comparison used by proportion_exceeding.

`proportion_exceeding` passes a mode string to binary_discretise_proportion -> binary_discretise ->
comparative_discretise, whose INEQUALITY_MODES table maps the string to (operator, factor) and evaluates
    operator_func(data, comparison + abs_tolerance * factor).where(data.notnull() * comparison.notnull())
with abs_tolerance = 0 when None.  The site follows exactly this chain in the source text and emits the
per-cell kernel; any deviation from the expected statements is rejected (fail closed)."""
import ast

OPS = {"ge": "xge", "gt": "xgt", "le": "xle", "lt": "xlt"}


def _unparse_all(fn):
    return [ast.unparse(s) for s in ast.walk(fn) if isinstance(s, ast.stmt)]


def gen_exceed(tree, site, T):
    U = T.Unsupported
    # 1. proportion_exceeding: which mode string, and nothing else (no tolerance) is passed on
    f = T.find_function(tree, "proportion_exceeding")
    rets = [s for s in f.body if isinstance(s, ast.Return)]
    others = [s for s in f.body if not isinstance(s, ast.Return) and not T.is_docstring(s)]
    if len(rets) != 1 or others:
        raise U("proportion_exceeding: expected a single return statement")
    call = rets[0].value
    if not (isinstance(call, ast.Call) and isinstance(call.func, ast.Name) and call.func.id == "binary_discretise_proportion"):
        raise U("proportion_exceeding: expected a call of binary_discretise_proportion")
    if len(call.args) != 3 or [ast.unparse(a) for a in call.args[:2]] != ["data", "thresholds"]:
        raise U("proportion_exceeding: unexpected positional arguments " + ast.unparse(call))
    if not (isinstance(call.args[2], ast.Constant) and isinstance(call.args[2].value, str)):
        raise U("proportion_exceeding: mode is not a string literal")
    mode = call.args[2].value
    kws = sorted((k.arg, ast.unparse(k.value)) for k in call.keywords)
    if kws != [("preserve_dims", "preserve_dims"), ("reduce_dims", "reduce_dims")]:
        raise U("proportion_exceeding: unexpected keyword arguments " + repr(kws))
    # 2. the table
    table = None
    for s in tree.body:
        if isinstance(s, ast.Assign) and len(s.targets) == 1 and isinstance(s.targets[0], ast.Name) and s.targets[0].id == "INEQUALITY_MODES":
            table = s.value
    if not isinstance(table, ast.Dict):
        raise U("INEQUALITY_MODES is not a dict literal")
    entry = None
    for k, v in zip(table.keys, table.values):
        if isinstance(k, ast.Constant) and k.value == mode:
            entry = v
    if entry is None:
        raise U(f"mode {mode!r} is not an inequality mode")
    if not (isinstance(entry, ast.Tuple) and len(entry.elts) == 2 and isinstance(entry.elts[0], ast.Attribute)
            and isinstance(entry.elts[0].value, ast.Name) and entry.elts[0].value.id == "operator" and entry.elts[0].attr in OPS):
        raise U("INEQUALITY_MODES entry: " + ast.unparse(entry))
    try:
        factor = ast.literal_eval(entry.elts[1])
    except ValueError:
        raise U("INEQUALITY_MODES factor: " + ast.unparse(entry.elts[1]))
    if not isinstance(factor, int) or isinstance(factor, bool):
        raise U("INEQUALITY_MODES factor is not an integer")
    op = OPS[entry.elts[0].attr]
    # 3. the statements that evaluate an inequality mode
    g = T.find_function(tree, "comparative_discretise")
    stmts = _unparse_all(g)
    need = ["abs_tolerance = 0",
            "notnull_mask = data.notnull() * comparison.notnull()",
            "operator_func, factor = INEQUALITY_MODES[mode]",
            "discrete_data = operator_func(data, comparison + abs_tolerance * factor).where(notnull_mask)",
            "return discrete_data"]
    for n in need:
        if stmts.count(n) != 1:
            raise U("comparative_discretise: expected exactly one statement `" + n + "`")
    first_if = [s for s in g.body if isinstance(s, ast.If)]
    if not first_if or ast.unparse(first_if[0].test) != "abs_tolerance is None" or [ast.unparse(s) for s in first_if[0].body] != ["abs_tolerance = 0"]:
        raise U("comparative_discretise: abs_tolerance default")
    branch = [s for s in g.body if isinstance(s, ast.If) and ast.unparse(s.test) == "mode in INEQUALITY_MODES"]
    if len(branch) != 1 or [ast.unparse(s) for s in branch[0].body] != need[2:4]:
        raise U("comparative_discretise: inequality branch")
    # 4. the mode and the (absent) tolerance are passed through unchanged
    b = T.find_function(tree, "binary_discretise")
    if _unparse_all(b).count("discrete_data = comparative_discretise(data, thresholds_da, mode, abs_tolerance=abs_tolerance)") != 1:
        raise U("binary_discretise: call of comparative_discretise")
    p = T.find_function(tree, "binary_discretise_proportion")
    if _unparse_all(p).count("discrete_data = binary_discretise(data, thresholds, mode, abs_tolerance=abs_tolerance, autosqueeze=autosqueeze)") != 1:
        raise U("binary_discretise_proportion: call of binary_discretise")
    defaults = {a.arg: ast.unparse(d) for a, d in zip(p.args.kwonlyargs, p.args.kw_defaults) if d is not None}
    if defaults.get("abs_tolerance") != "None":
        raise U("binary_discretise_proportion: abs_tolerance default")
    fq = f"({factor} # 1)" if factor >= 0 else f"(-{-factor} # 1)"
    name = site["name"]
    return (f"Definition {name}_mode : string := \"{mode}\".\n"
            f"Definition {name} (data : xv) (comparison : xv) : xv :=\n"
            f"  let abs_tolerance := (XFin (0 # 1)) in\n"
            f"  let notnull_mask := (andb (xnotnull data) (xnotnull comparison)) in\n"
            f"  (xwhere notnull_mask (b2x ({op} data (xadd comparison (xmul abs_tolerance (XFin {fq})))))).\n")


SITES = [
    dict(id="C18.exceed", group="C18_kern", kind="custom", fn=gen_exceed, file="processing/discretise.py", func="proportion_exceeding",
         name="gen_c18_exceed"),
]
