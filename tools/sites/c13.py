"""Translator sites for C13: the per-case ensemble Brier formula (incl. the fair correction) and the
squared-error kernel behind brier_score."""
import wpd_rewrites as W

SITES = [
    dict(id="C13.brier_ens_cell", group="C13_kern", kind="custom", fn=W.kernel_site,
         file="probability/brier_impl.py", func="brier_score_for_ensemble",
         params={"member_event_count": "num", "total_member_count": "num", "binary_obs": "num", "fair_correction": "bool"},
         # the counting statements before the formula are hand-modelled (list folds) and tied by correspondence
         rewrites={"body_from": "result = ("},
         outputs=["result"], stop_before="apply_weights", name="gen_brier_ens_cell"),
    dict(id="C13.sqerr", group="C13_kern", kind="custom", fn=W.kernel_site,
         file="continuous/standard_impl.py", func="mse",
         params={"fcst": "num", "obs": "num"},
         rewrites={"assume_default": {"is_angular": (False, "else")}},
         outputs=["squared"], stop_before="apply_weights", name="gen_c13_sqerr"),
]
