"""Translator sites for C05 (and shared by C02/C18/C20): point and interval kernels."""
SITES = [
    dict(id="S1", group="functions", kind="kernel", file="functions.py", func="angular_difference",
         params={"source_a": "num", "source_b": "num"}, outputs="return", name="gen_angular_difference"),
    dict(id="S2", group="quantile_loss", kind="kernel", file="continuous/quantile_loss_impl.py", func="quantile_score",
         params={"fcst": "num", "obs": "num", "alpha": "num"}, outputs=["result"], name="gen_quantile_score"),
    dict(id="S2g", group="quantile_loss", kind="guards", file="continuous/quantile_loss_impl.py", func="quantile_score",
         params={"alpha": "num"}, name="gen_guard_quantile_score"),
]
