"""Translator site for C03: the single multiply-by-weights helper, translated as a whole function (return style)."""
SITES = [
    dict(id="C03.aw", group="weights", kind="retfun", file="functions.py", func="apply_weights",
         params={"values": "num", "weights": "optnum"}, result="num", name="gen_apply_weights"),
]
