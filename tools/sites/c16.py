"""Translator sites for C16: the scalar tail of the FSS (zero denominator, clamping) in both places where it is written."""
SITES = [
    dict(id="C16.single", group="C16_kern", kind="kernel", file="fast/fss/backend.py", func="FssBackend.compute_fss",
         params={"fcst": "num", "obs": "num", "diff": "num"}, cut=("fcst", "obs", "diff"), outputs=["fss_clamped"],
         name="gen_compute_fss"),
    dict(id="C16.agg", group="C16_kern", kind="kernel", file="spatial/fss_impl.py", func="_aggregate_fss_decomposed",
         params={"fcst_sum": "num", "obs_sum": "num", "diff_sum": "num"}, body_from="fss = 0.0", outputs=["fss_clamped"],
         name="gen_aggregate_tail"),
]
