"""Translator sites for C12: FIRM single-category kernel, Murphy elementary scores (for the
FIRM = sum of Murphy elementary scores link), the risk-matrix cell, and the guards the translator accepts."""
import wpd_rewrites as W

SITES = [
    # multicategorical_impl._single_category_score: the three per-case outputs
    dict(id="C12.firm_single", group="C12_kern", kind="custom", fn=W.kernel_site,
         file="categorical/multicategorical_impl.py", func="_single_category_score",
         params={"fcst": "num", "obs": "num", "risk_parameter": "num", "categorical_threshold": "num",
                 "discount_distance": "num", "threshold_assignment": "str"},
         rewrites={"align_identity": True, "truthy_scalars": ["discount_distance"]},
         outputs=["firm_score", "overforecast_penalty", "underforecast_penalty"], name="gen_firm_single"),
    # the scalar guards of _check_firm_inputs (length checks and the per-weight loop are hand-modelled)
    # (`discount_distance is not None and discount_distance < 0`: the generated chain is for a given number; None is handled by the model)
    dict(id="C12.firm_guards", group="C12_kern", kind="custom", fn=W.guards_site, file="categorical/multicategorical_impl.py",
         func="_check_firm_inputs", params={"risk_parameter": "num", "discount_distance": "num", "threshold_assignment": "str"},
         rewrites={"not_none": ["discount_distance"]}, skip_unsupported_guards=True, name="gen_guard_firm"),
    # murphy_impl elementary scores (over, under) before the NaN merge
    dict(id="C12.murphy_quantile", group="C12_kern", kind="kernel", file="continuous/murphy_impl.py",
         func="_quantile_elementary_score", params={"fcst": "num", "obs": "num", "theta": "num", "alpha": "num"},
         outputs="return", name="gen_c12_murphy_quantile"),
    dict(id="C12.murphy_huber", group="C12_kern", kind="kernel", file="continuous/murphy_impl.py",
         func="_huber_elementary_score", params={"fcst": "num", "obs": "num", "theta": "num", "alpha": "num", "huber_a": "num"},
         outputs="return", name="gen_c12_murphy_huber"),
    dict(id="C12.murphy_expectile", group="C12_kern", kind="kernel", file="continuous/murphy_impl.py",
         func="_expectile_elementary_score", params={"fcst": "num", "obs": "num", "theta": "num", "alpha": "num"},
         outputs="return", name="gen_c12_murphy_expectile"),
    # risk_matrix._risk_matrix_score: one (case, severity, probability threshold) cell before the plain sum
    dict(id="C12.rms_cell", group="C12_kern", kind="custom", fn=W.kernel_site,
         file="emerging/risk_matrix.py", func="_risk_matrix_score",
         params={"fcst": "num", "obs": "num", "da_thresholds": "num", "decision_weights": "num", "threshold_assignment": "str"},
         rewrites={"params_from": {"da_thresholds": "decision_weights[prob_threshold_dim]"}},
         outputs=["result"], stop_before="result.sum", name="gen_rms_cell"),
    # value guards of _check_risk_matrix_score_inputs (dimension-name guards are hand-modelled)
    dict(id="C12.rms_guards", group="C12_kern", kind="custom", fn=W.guards_site,
         file="emerging/risk_matrix.py", func="_check_risk_matrix_score_inputs",
         params={"fcst_max": "num", "fcst_min": "num", "thr_max": "num", "thr_min": "num", "threshold_assignment": "str"},
         rewrites={"reductions": {"fcst.max()": "fcst_max", "fcst.min()": "fcst_min",
                                  "decision_weights[prob_threshold_dim].min()": "thr_min",
                                  "decision_weights[prob_threshold_dim].max()": "thr_max"}},
         skip_unsupported_guards=True, name="gen_guard_rms"),
]
