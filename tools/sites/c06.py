"""Translator sites for C06 (DESIGN.md S15): the elementwise pieces of crps_for_ensemble and the chaining
functions of the tail / interval threshold-weighted variants.

crps_for_ensemble is not a straight-line kernel (a Python loop over members, reductions over the member
dimension), so these are `custom` sites: the function below walks the statements of the function body, insists
on the exact reduction skeleton the hand model (coq/model/C06.v) assumes -- and raises Unsupported (tie
broken, fail closed) when it is not found -- and hands every *elementwise* expression to the ordinary
expression translator.  What is regenerated from source:

  gen_guard_crps_method method             method not in [ecdf, fair] -> ValueError
  gen_crps_pair_cell   fcst fcst_i          |fcst - fcst_i|                 (summed over members, twice)
  gen_crps_obs_cell    fcst obs             |fcst - obs|                    (mean over members)
  gen_crps_{pair,obs,under,over,count}_red   which reduction over the member dimension the source applies
                                            ("sum" | "mean" | "count" | "size"); the model interprets the constant
  gen_crps_norm        method spread count  the ecdf / fair normalisation of the spread term
  gen_crps_total       obs_term spread      obs_term - spread
  gen_crps_under_cell  fcst obs             (obs - fcst).where(fcst < obs, 0).where(mask)
  gen_crps_over_cell   fcst obs             (fcst - obs).where(fcst > obs, 0).where(mask)
  gen_crps_spread_mask spread obs_term      spread.where(~isnan(obs_term))
  gen_chain_tail       tail x threshold     np.maximum / np.minimum
  gen_chain_interval   x lower upper        np.minimum(np.maximum(x, lower), upper)
  gen_guard_interval   lower upper          lower >= upper -> ValueError   (both thresholds Python scalars)
  gen_guard_interval_arr lower upper        the comparison under `.any()` when a threshold is a DataArray
  gen_brier_member_valid fcst               which members brier_score_for_ensemble counts in m (`fcst.notnull()`, summed over members)
  gen_brier_score      i m binary_obs       (i / m - binary_obs) ** 2
  gen_brier_fair_corr  i m                  i (m - i) / (m^2 (m - 1))
  gen_brier_fair_fill  fair_corr            fair_corr.fillna(0)   (one member: no correction)
"""
import ast

ENS = "ensemble_member_dim"


def _is_reduce(e, op):
    return (isinstance(e, ast.Call) and isinstance(e.func, ast.Attribute) and e.func.attr == op and not e.args
            and len(e.keywords) == 1 and e.keywords[0].arg == "dim" and isinstance(e.keywords[0].value, ast.Name)
            and e.keywords[0].value.id == ENS)


def _strip(e, op, T):
    if not _is_reduce(e, op):
        raise T.Unsupported(f"expected <expr>.{op}(dim={ENS}), found {ast.unparse(e)[:80]}")
    return e.func.value


def _strip_any(e, T):
    """<expr>.sum(dim=m) | <expr>.mean(dim=m)  ->  (expr, kind); the kind is emitted as a constant the model interprets
    (NaN-skipping sum / mean), so a changed reduction yields a different model rather than an untranslatable site"""
    for op in ("sum", "mean"):
        if _is_reduce(e, op):
            return e.func.value, op
    raise T.Unsupported(f"expected <expr>.sum/mean(dim={ENS}), found {ast.unparse(e)[:80]}")


def _kind(name, k):
    return f'Definition {name} : string := "{k}".\n'


class _IselToName(ast.NodeTransformer):
    """fcst.isel({ensemble_member_dim: i})  ->  fcst_i"""

    def __init__(self, loopvar):
        self.loopvar = loopvar
        self.hits = 0

    def visit_Call(self, node):
        if (isinstance(node.func, ast.Attribute) and node.func.attr == "isel" and isinstance(node.func.value, ast.Name)
                and node.func.value.id == "fcst" and len(node.args) == 1 and isinstance(node.args[0], ast.Dict)
                and len(node.args[0].keys) == 1 and isinstance(node.args[0].keys[0], ast.Name) and node.args[0].keys[0].id == ENS
                and isinstance(node.args[0].values[0], ast.Name) and node.args[0].values[0].id == self.loopvar):
            self.hits += 1
            return ast.copy_location(ast.Name(id="fcst_i", ctx=ast.Load()), node)
        return self.generic_visit(node)


def _defn(T, name, params, expr_ast, want="num"):
    X = T.Expr(params)
    s = X.num(expr_ast) if want == "num" else X.boolean(expr_ast)
    args = " ".join(f"({T.cname(p)} : {T.COQTY[t]})" for p, t in params.items())
    return f"Definition {name} {args} :=\n  {s}.\n"


def _assigns(stmt, name):
    return name in T_assigned(stmt)


def T_assigned(stmt):
    out = set()
    for n in ast.walk(stmt):
        if isinstance(n, (ast.Assign,)):
            for t in n.targets:
                if isinstance(t, ast.Name):
                    out.add(t.id)
        elif isinstance(n, ast.AugAssign) and isinstance(n.target, ast.Name):
            out.add(n.target.id)
    return out


def crps_kernels(tree, site, T):
    fn = T.find_function(tree, "crps_for_ensemble")
    body = [s for s in fn.body if not T.is_docstring(s)]
    U = T.Unsupported
    # ---- fcst / obs are the arguments throughout: the only re-binding accepted is a conversion of the storage dtype to floating
    #      point (the identity on the values the model computes with); anything else is not what the hand model assumes ----
    for s in body:
        for nm in ("fcst", "obs"):
            if nm in T_assigned(s) and ast.unparse(s) not in (f"{nm} = 1.0 * {nm}", f"{nm} = {nm} * 1.0", f"{nm} = {nm}.astype(float)"):
                raise U(f"crps_for_ensemble re-binds {nm}: {ast.unparse(s)[:80]}")
    # ---- the statements that touch the spread term, in order: init, loop, normalisation ifs, [components if] ----
    touching = [s for s in body if "fcst_spread_term" in T_assigned(s)]
    if len(touching) < 3:
        raise U("crps_for_ensemble: spread-term skeleton not found")
    init, loop = touching[0], touching[1]
    if not (isinstance(init, ast.Assign) and isinstance(init.value, ast.Constant) and init.value.value == 0):
        raise U("spread term is not initialised with 0")
    if not (isinstance(loop, ast.For) and isinstance(loop.target, ast.Name) and not loop.orelse
            and ast.unparse(loop.iter) == f"range(fcst.sizes[{ENS}])" and len(loop.body) == 1
            and isinstance(loop.body[0], ast.AugAssign) and isinstance(loop.body[0].op, ast.Add)
            and isinstance(loop.body[0].target, ast.Name) and loop.body[0].target.id == "fcst_spread_term"):
        raise U("member loop is not `for i in range(fcst.sizes[m]): fcst_spread_term += ...`")
    tr = _IselToName(loop.target.id)
    pair_e, pair_k = _strip_any(loop.body[0].value, T)
    pair = tr.visit(ast.parse(ast.unparse(pair_e), mode="eval").body)
    if tr.hits != 1:
        raise U("loop body does not use fcst.isel({m: i}) exactly once")
    out = T.translate_guards(tree, dict(func="crps_for_ensemble", params={"method": "str"}, name="gen_guard_crps_method"))
    out += _defn(T, "gen_crps_pair_cell", {"fcst": "num", "fcst_i": "num"}, pair)
    out += _kind("gen_crps_pair_red", pair_k)
    # normalisation: every further top-level statement touching the spread term except the components block
    norm = [s for s in touching[2:] if not (isinstance(s, ast.If) and ast.unparse(s.test) == "include_components")]
    comp = [s for s in body if isinstance(s, ast.If) and ast.unparse(s.test) == "include_components"]
    if not norm or len(comp) != 1 or not all(isinstance(s, ast.If) and "method" in ast.unparse(s.test) for s in norm):
        raise U("normalisation / components skeleton not found")
    K = T.Kernel({"method": "str", "fcst_spread_term": "num", "ens_count": "num"})
    lets = K.block(norm, 1)
    out += "Definition gen_crps_norm (method : string) (fcst_spread_term : xv) (ens_count : xv) :=\n"
    out += "".join(f"  let {a} := {b} in\n" for a, b in lets) + "  fcst_spread_term.\n"
    # ens_count
    ec = [s for s in body if isinstance(s, ast.Assign) and "ens_count" in T_assigned(s)]
    cnt = {f"fcst.count({ENS})": "count", f"fcst.sizes[{ENS}]": "size"}
    if len(ec) != 1 or ast.unparse(ec[0].value) not in cnt:
        raise U("ens_count is neither fcst.count(ensemble_member_dim) nor fcst.sizes[ensemble_member_dim]")
    out += _kind("gen_crps_count_red", cnt[ast.unparse(ec[0].value)])
    # observation term and total
    ot = [s for s in body if isinstance(s, ast.Assign) and "fcst_obs_term" in T_assigned(s)]
    if len(ot) != 1:
        raise U("fcst_obs_term assigned more than once")
    obs_e, obs_k = _strip_any(ot[0].value, T)
    out += _defn(T, "gen_crps_obs_cell", {"fcst": "num", "obs": "num"}, obs_e)
    out += _kind("gen_crps_obs_red", obs_k)
    res = [s for s in body if isinstance(s, ast.Assign) and "result" in T_assigned(s)]
    # (the second top-level assignment of `result` is the weighting + final mean: plumbing shared by every score, hand-modelled
    #  with lib/Larr.mean_score and validated by the correspondence check, not translated)
    if len(res) != 2:
        raise U("result is not assigned exactly twice at top level (total, weighted mean)")
    out += _defn(T, "gen_crps_total", {"fcst_obs_term": "num", "fcst_spread_term": "num"}, res[0].value)
    # order of the statements the model relies on
    order = [body.index(s) for s in (init, loop, ec[0], norm[0], norm[-1], ot[0], res[0], comp[0], res[1])]
    if order != sorted(order):
        raise U("statement order changed")
    # ---- components block ----
    cb = comp[0].body
    names = {}
    for s in cb:
        if not (isinstance(s, ast.Assign) and len(s.targets) == 1 and isinstance(s.targets[0], ast.Name)):
            raise U("components block: " + ast.unparse(s)[:60])
        names.setdefault(s.targets[0].id, []).append(s.value)
    if not {"mask", "under_penalty", "over_penalty", "result"} <= set(names) or set(names) - {"mask", "under_penalty", "over_penalty", "fcst_spread_term", "result"} \
            or any(len(v) != 1 for k, v in names.items() if k != "result"):
        raise U("components block: unexpected assignments " + ",".join(names))
    X = T.Expr({"fcst": "num", "obs": "num"})
    mask = X.boolean(names["mask"][0])
    for nm in ("under_penalty", "over_penalty"):
        Xc = T.Expr({"fcst": "num", "obs": "num", "mask": "bool"})
        comp_e, comp_k = _strip_any(names[nm][0], T)
        s = Xc.num(comp_e)
        out += (f"Definition gen_crps_{nm.split('_')[0]}_cell (fcst : xv) (obs : xv) :=\n  let mask := {mask} in\n  {s}.\n")
        out += _kind(f"gen_crps_{nm.split('_')[0]}_red", comp_k)
    if "fcst_spread_term" in names:
        out += _defn(T, "gen_crps_spread_mask", {"fcst_spread_term": "num", "fcst_obs_term": "num"}, names["fcst_spread_term"][0])
    else:   # no re-masking of the spread term in the source
        out += "Definition gen_crps_spread_mask (fcst_spread_term : xv) (fcst_obs_term : xv) :=\n  fcst_spread_term.\n"
    # which arrays are concatenated under which component label is checked by the correspondence check (comparison by label)
    return out


def _inner_return(fdef, T):
    if not (isinstance(fdef, ast.FunctionDef) and len(fdef.body) == 1 and isinstance(fdef.body[0], ast.Return)):
        raise T.Unsupported("chaining function is not a single return")
    return fdef.body[0].value


def chain_kernels(tree, site, T):
    U = T.Unsupported
    tail = T.find_function(tree, "tail_tw_crps_for_ensemble")
    ifs = [s for s in tail.body if isinstance(s, ast.If) and not T.is_raise_if(s)]
    if len(ifs) != 1 or len(ifs[0].body) != 1 or len(ifs[0].orelse) != 1:
        raise U("tail: expected one if/else defining the chaining function")
    X = T.Expr({"tail": "str", "x": "num", "threshold": "num"})
    c = X.boolean(ifs[0].test)
    a = X.num(_inner_return(ifs[0].body[0], T))
    b = X.num(_inner_return(ifs[0].orelse[0], T))
    for f in (ifs[0].body[0], ifs[0].orelse[0]):
        if [x.arg for x in f.args.args] != ["x", "threshold"]:
            raise U("tail chaining function signature")
    out = f"Definition gen_chain_tail (tail : string) (x : xv) (threshold : xv) :=\n  if {c} then {a} else {b}.\n"
    G = T.translate_guards(tree, dict(func="tail_tw_crps_for_ensemble", params={"tail": "str"}, name="gen_guard_tail"))
    out += G
    iv = T.find_function(tree, "interval_tw_crps_for_ensemble")
    fd = [s for s in iv.body if isinstance(s, ast.FunctionDef)]
    if len(fd) != 1 or [x.arg for x in fd[0].args.args] != ["x", "lower_threshold", "upper_threshold"]:
        raise U("interval chaining function signature")
    Xi = T.Expr({"x": "num", "lower_threshold": "num", "upper_threshold": "num"})
    out += ("Definition gen_chain_interval (x : xv) (lower_threshold : xv) (upper_threshold : xv) :=\n  "
            + Xi.num(_inner_return(fd[0], T)) + ".\n")
    chk = [s for s in iv.body if isinstance(s, ast.If)]
    if len(chk) != 1 or len(chk[0].orelse) != 1 or not T.is_raise_if(chk[0].orelse[0]) or len(chk[0].body) != 1 \
            or not T.is_raise_if(chk[0].body[0]):
        raise U("interval: threshold check skeleton")
    if ast.unparse(chk[0].test) != "isinstance(lower_threshold, xr.DataArray) or isinstance(upper_threshold, xr.DataArray)":
        raise U("interval: dispatch between array and scalar threshold check changed")
    arr_test = chk[0].body[0].test
    # <cmp>.any().values.item() | <cmp>.any().item() | <cmp>.any()  ->  <cmp>  (the model takes `any` over the broadcast thresholds)
    e = arr_test
    for attr in ("item", "values", "any"):
        if attr == "values":
            if isinstance(e, ast.Attribute) and e.attr == "values":
                e = e.value
            continue
        if isinstance(e, ast.Call) and isinstance(e.func, ast.Attribute) and e.func.attr == attr and not e.args and not e.keywords:
            e = e.func.value
        elif attr == "any":
            raise U("interval: array threshold check is not <comparison>.any()")
    sc_test = chk[0].orelse[0].test
    Xg = T.Expr({"lower_threshold": "num", "upper_threshold": "num"})
    out += ("Definition gen_guard_interval (lower_threshold : xv) (upper_threshold : xv) : bool :=\n  "
            + Xg.boolean(sc_test) + ".\n")
    out += ("Definition gen_guard_interval_arr (lower_threshold : xv) (upper_threshold : xv) : bool :=\n  "
            + Xg.boolean(e) + ".\n")
    # that tw_crps_for_ensemble applies the chaining function to both obs and fcst and forwards every option is part of the
    # hand model (coq/model/C06.v: chain), validated by the correspondence check and the additivity predicates
    return out


def brier_kernels(tree, site, T):
    """brier_score_for_ensemble: the i term / m term / score / fair-correction statements.  The elementwise expressions are
    translated; the statement skeleton (which array is reduced over the member dimension, that i and the observation's event are
    taken with the caller's operator at the thresholds, `result -= correction` under `if fair_correction`) is insisted on."""
    U = T.Unsupported
    fn = T.find_function(tree, "brier_score_for_ensemble")
    body = [s for s in fn.body if not T.is_docstring(s)]
    for s in body:
        for nm in ("fcst", "obs"):
            if nm in T_assigned(s):
                raise U(f"brier_score_for_ensemble re-binds {nm}: {ast.unparse(s)[:80]}")

    def one(name, where=body):
        a = [s for s in where if isinstance(s, ast.Assign) and len(s.targets) == 1 and isinstance(s.targets[0], ast.Name) and s.targets[0].id == name]
        if len(a) != 1:
            raise U(f"brier_score_for_ensemble: {name} is not assigned exactly once")
        return a[0]
    i_st, m_st, bo_st = one("member_event_count"), one("total_member_count"), one("binary_obs")
    if ast.unparse(i_st.value) != f"event_threshold_operator(fcst, thresholds_xr).sum(dim={ENS})":
        raise U("i term is not event_threshold_operator(fcst, thresholds_xr).sum(dim=ensemble_member_dim): " + ast.unparse(i_st.value)[:80])
    if ast.unparse(bo_st.value) != "binary_discretise(obs, event_thresholds, event_threshold_operator)":
        raise U("binary_obs is not binary_discretise(obs, event_thresholds, event_threshold_operator): " + ast.unparse(bo_st.value)[:80])
    out = "Definition gen_brier_member_valid (fcst : xv) : bool :=\n  " + T.Expr({"fcst": "num"}).boolean(_strip(m_st.value, "sum", T)) + ".\n"
    res = [s for s in body if "result" in T_assigned(s)]
    # result = <score>; [if fair_correction: ... result -= fair_correction]; result = apply_weights(result, ...).mean(...)  (plumbing, hand model)
    if len(res) != 3 or not isinstance(res[0], ast.Assign) or not isinstance(res[1], ast.If) or ast.unparse(res[1].test) != "fair_correction" or res[1].orelse:
        raise U("brier_score_for_ensemble: result / fair-correction skeleton not found")
    out += _defn(T, "gen_brier_score", {"member_event_count": "num", "total_member_count": "num", "binary_obs": "num"}, res[0].value)
    fb = res[1].body
    if len(fb) != 3 or ast.unparse(fb[2]) != "result -= fair_correction":
        raise U("fair-correction block is not `fair_corr = ...; fair_correction = ...; result -= fair_correction`")
    out += _defn(T, "gen_brier_fair_corr", {"member_event_count": "num", "total_member_count": "num"}, one("fair_corr", fb).value)
    out += _defn(T, "gen_brier_fair_fill", {"fair_corr": "num"}, one("fair_correction", fb).value)
    order = [body.index(x) for x in (i_st, m_st, bo_st, res[0], res[1], res[2])]
    if order != sorted(order):
        raise U("brier_score_for_ensemble: statement order changed")
    return out


SITES = [
    dict(id="C06.crps", group="C06_crps", kind="custom", file="probability/crps_impl.py", fn=crps_kernels),
    dict(id="C06.chain", group="C06_crps", kind="custom", file="probability/crps_impl.py", fn=chain_kernels),
    dict(id="C06.brier", group="C06_crps", kind="custom", file="probability/brier_impl.py", fn=brier_kernels),
]
