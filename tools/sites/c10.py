"""Translator sites for C10: consistent scoring kernels (higher-order in g / phi / phi') and the
antiderivatives g, phi, phi' of the rectangular and trapezoidal threshold weights (Table B1, Taggart 2022)."""
_C = "continuous/consistent_impl.py"
_T = "continuous/threshold_weighted_impl.py"
SITES = [
    # ---- consistent_impl: the three Bregman-type kernels; the Python callables become Coq function parameters
    dict(id="C10.cq", group="C10_kern", kind="kernel", file=_C, func="consistent_quantile_score",
         params={"fcst": "num", "obs": "num", "alpha": "num"}, outputs=["result"], stop_before="apply_weights",
         funcs={"g": ("g", "num")}, fun_params=[("g", 1)], name="gen_consistent_quantile"),
    dict(id="C10.ce", group="C10_kern", kind="kernel", file=_C, func="consistent_expectile_score",
         params={"fcst": "num", "obs": "num", "alpha": "num"}, outputs=["result"], stop_before="apply_weights",
         funcs={"phi": ("phi", "num"), "phi_prime": ("phi_prime", "num")}, fun_params=[("phi", 1), ("phi_prime", 1)],
         name="gen_consistent_expectile"),
    dict(id="C10.ch", group="C10_kern", kind="kernel", file=_C, func="consistent_huber_score",
         params={"fcst": "num", "obs": "num", "huber_param": "num"}, outputs=["result"], stop_before="apply_weights",
         funcs={"phi": ("phi", "num"), "phi_prime": ("phi_prime", "num")}, fun_params=[("phi", 1), ("phi_prime", 1)],
         name="gen_consistent_huber"),
    dict(id="C10.ga", group="C10_kern", kind="guards", file=_C, func="check_alpha", params={"alpha": "num"},
         name="gen_guard_check_alpha"),
    dict(id="C10.gh", group="C10_kern", kind="guards", file=_C, func="check_huber_param", params={"huber_param": "num"},
         name="gen_guard_check_huber_param"),
    # ---- threshold_weighted_impl: rows of Table B1
    dict(id="C10.g_rect", group="C10_kern", kind="kernel", file=_T, func="_g_j_rect", identity_calls=["_align_endpoints"],
         params={"a": "num", "b": "num", "x": "num"}, outputs="return", name="gen_g_rect"),
    dict(id="C10.phi_rect", group="C10_kern", kind="kernel", file=_T, func="_phi_j_rect", identity_calls=["_align_endpoints"],
         params={"a": "num", "b": "num", "x": "num"}, outputs="return", name="gen_phi_rect"),
    dict(id="C10.phip_rect", group="C10_kern", kind="kernel", file=_T, func="_phi_j_prime_rect",
         params={"a": "num", "b": "num", "x": "num"}, outputs="return",
         funcs={"_g_j_rect": ("gen_g_rect", "num")}, name="gen_phi_prime_rect"),
    dict(id="C10.g_trap", group="C10_kern", kind="kernel", file=_T, func="_g_j_trap", identity_calls=["_align_endpoints"],
         params={"a": "num", "b": "num", "c": "num", "d": "num", "x": "num"}, outputs="return", name="gen_g_trap"),
    dict(id="C10.phi_trap", group="C10_kern", kind="kernel", file=_T, func="_phi_j_trap", identity_calls=["_align_endpoints"],
         params={"a": "num", "b": "num", "c": "num", "d": "num", "x": "num"}, outputs="return", name="gen_phi_trap"),
    dict(id="C10.phip_trap", group="C10_kern", kind="kernel", file=_T, func="_phi_j_prime_trap",
         params={"a": "num", "b": "num", "c": "num", "d": "num", "x": "num"}, outputs="return",
         funcs={"_g_j_trap": ("gen_g_trap", "num")}, name="gen_phi_prime_trap"),
]
