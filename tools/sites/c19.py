"""Translator sites for C19: the Harvey-Leybourne-Newbold correction factor and the confidence-limit expressions."""
import ast


def ci_limits(tree, site, T):
    """`result = xr.Dataset(data_vars={..., "ci_upper": ([ts_dim], <expr>), "ci_lower": ([ts_dim], <expr>)}, ...)` in
    diebold_mariano: the two expressions, over the names ts_mean, ci_quantile, test_stats (elementwise over the series)."""
    fn = T.find_function(tree, site["func"])
    dicts = [kw.value for st in fn.body if isinstance(st, ast.Assign) and isinstance(st.value, ast.Call)
             and T.src(st.value.func).endswith("Dataset") for kw in st.value.keywords
             if kw.arg == "data_vars" and isinstance(kw.value, ast.Dict)]
    if len(dicts) != 1:
        raise T.Unsupported("expected exactly one Dataset(data_vars={...}) assignment")
    got = {k.value: v for k, v in zip(dicts[0].keys, dicts[0].values) if isinstance(k, ast.Constant)}
    out = ""
    for key, name in site["outputs"].items():
        v = got.get(key)
        if not (isinstance(v, ast.Tuple) and len(v.elts) == 2):
            raise T.Unsupported(f"data_vars[{key!r}] is not a (dims, values) pair")
        X = T.Expr(dict(site["params"]))
        text, ty = X.expr(v.elts[1])
        if ty != "num":
            raise T.Unsupported(f"data_vars[{key!r}] is not numeric")
        args = " ".join(f"({T.cname(p)} : xv)" for p in site["params"])
        out += f"Definition {name} {args} : xv :=\n  {text}.\n"
    return out


SITES = [
    dict(id="C19.hln", group="C19_kern", kind="kernel", file="stats/statistical_tests/diebold_mariano_impl.py",
         func="_hln_method_stat", params={"n": "num", "h": "num"}, cut=("n",), outputs=["correction_factor"],
         name="gen_hln_correction"),
    dict(id="C19.ci", group="C19_kern", kind="custom", fn=ci_limits, file="stats/statistical_tests/diebold_mariano_impl.py",
         func="diebold_mariano", params={"ts_mean": "num", "ci_quantile": "num", "test_stats": "num"},
         outputs={"ci_upper": "gen_dm_ci_upper", "ci_lower": "gen_dm_ci_lower"}, name="gen_dm_ci_upper"),
]
