"""Translator site for C17: which options adjust_fcst_for_crps hands to the crps_cdf call that ranks original / upper / lower."""
import ast


def forwarded(tree, site, T):
    """the single `crps_cdf(...)` call inside adjust_fcst_for_crps -> positional argument sources and (keyword, source) pairs,
    plus the function's own formal parameters"""
    fn = T.find_function(tree, site["func"])
    calls = [c for c in ast.walk(fn) if isinstance(c, ast.Call) and T.src(c.func).split(".")[-1] == site["callee"]]
    if len(calls) != 1:
        raise T.Unsupported(f"expected exactly one call to {site['callee']}, found {len(calls)}")
    c = calls[0]
    if any(k.arg is None for k in c.keywords) or any(isinstance(a, ast.Starred) for a in c.args):
        raise T.Unsupported("*args / **kwargs in the call")
    q = lambda t: '"' + t.replace('"', '""') + '"'
    a = fn.args
    formals = [x.arg for x in a.posonlyargs + a.args + a.kwonlyargs]
    pos = "; ".join(q(T.src(x)) for x in c.args)
    kws = "; ".join(f"({q(k.arg)}, {q(T.src(k.value))})" for k in c.keywords)
    return (f"Definition {site['name']}_formals : list string := [{'; '.join(q(f) for f in formals)}]%list.\n"
            f"Definition {site['name']}_positional : list string := [{pos}]%list.\n"
            f"Definition {site['name']}_keywords : list (string * string) := [{kws}]%list.\n")


SITES = [
    dict(id="C17.fwd", group="C17_plumb", kind="custom", fn=forwarded, file="probability/crps_impl.py", func="adjust_fcst_for_crps",
         callee="crps_cdf", name="gen_adjust_crps_call"),
]
