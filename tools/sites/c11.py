"""Translator sites for C11 (shared with C10/C12): the three Murphy elementary scores (over, under)."""
_M = "continuous/murphy_impl.py"
SITES = [
    dict(id="C11.q", group="C11_kern", kind="kernel", file=_M, func="_quantile_elementary_score",
         params={"fcst": "num", "obs": "num", "theta": "num", "alpha": "num"}, outputs="return", name="gen_murphy_quantile"),
    dict(id="C11.h", group="C11_kern", kind="kernel", file=_M, func="_huber_elementary_score",
         params={"fcst": "num", "obs": "num", "theta": "num", "alpha": "num", "huber_a": "num"}, outputs="return",
         name="gen_murphy_huber"),
    dict(id="C11.e", group="C11_kern", kind="kernel", file=_M, func="_expectile_elementary_score",
         params={"fcst": "num", "obs": "num", "theta": "num", "alpha": "num"}, outputs="return", name="gen_murphy_expectile"),
]
