"""Translator sites for C11 (shared with C10/C12): the three Murphy elementary scores (over, under)."""
_M = "continuous/murphy_impl.py"
SITES = [
    dict(id="C11.q", group="C11_kern", kind="kernel", file=_M, func="_quantile_elementary_score",
         params={"fcst": "num", "obs": "num", "theta": "num", "alpha": "num"}, outputs="return", name="gen_murphy_quantile"),
    dict(id="C11.h", group="C11_kern", kind="kernel", file=_M, func="_huber_elementary_score",
         params={"fcst": "num", "obs": "num", "theta": "num", "alpha": "num", "huber_a": "num"}, outputs="return",
         name="gen_murphy_huber"),
    dict(id="C11.e", group="C11_kern", kind="kernel", file=_M, func="_expectile_elementary_score",
         params={"fcst": "num", "obs": "num", "theta": "num", "alpha": "num"}, outputs="return", name="gen_murphy_expectile"),
]


def _merge_site(tree, site, T):
    """murphy_score l.117-126: the NaN merge pipeline.  `score = over.combine_first(under).fillna(0).where(...)`, and under
    `if decomposition:` the two re-masked parts appended as `sources += [under, over]` / `names += [...]`.  Emits the three
    expressions as one function of (over, under, fcst1) together with the variable names, in the order of `sources`."""
    import ast
    fn = T.find_function(tree, "murphy_score")
    X = T.Expr({"over": "num", "under": "num", "fcst1": "num"})
    score = None
    dec = None
    names0 = None
    for s in fn.body:
        if isinstance(s, ast.Assign) and len(s.targets) == 1 and isinstance(s.targets[0], ast.Name):
            t = s.targets[0].id
            if t == "score":
                score = X.num(s.value)
            if t == "sources" and not (isinstance(s.value, ast.List) and [T.src(x) for x in s.value.elts] == ["score"]):
                raise T.Unsupported("sources = " + T.src(s.value))
            if t == "names":
                names0 = s.value
        if isinstance(s, ast.If) and T.src(s.test) == "decomposition" and not s.orelse:
            dec = s
    if score is None or dec is None or names0 is None:
        raise T.Unsupported("murphy_score merge statements not found")
    if not (isinstance(names0, ast.List) and len(names0.elts) == 1 and isinstance(names0.elts[0], ast.Constant)):
        raise T.Unsupported("names = " + T.src(names0))
    parts = {}
    order = None
    extra = None
    for s in dec.body:
        if isinstance(s, ast.Assign) and isinstance(s.targets[0], ast.Name) and s.targets[0].id in ("over", "under"):
            if s.targets[0].id in parts:
                raise T.Unsupported("part assigned twice")
            parts[s.targets[0].id] = X.num(s.value)       # each re-mask reads the *original* over / under of its own name only
            if (T.used_names(s.value) & {"over", "under"}) != {s.targets[0].id}:
                raise T.Unsupported("decomposition part mixes over and under: " + T.src(s))
        elif isinstance(s, ast.AugAssign) and isinstance(s.target, ast.Name) and s.target.id == "sources" and isinstance(s.value, ast.List):
            order = [T.src(x) for x in s.value.elts]
        elif isinstance(s, ast.AugAssign) and isinstance(s.target, ast.Name) and s.target.id == "names" and isinstance(s.value, ast.List):
            extra = [x.value for x in s.value.elts if isinstance(x, ast.Constant)]
        else:
            raise T.Unsupported("statement in decomposition branch: " + T.src(s)[:60])
    if set(parts) != {"over", "under"} or order is None or sorted(order) != ["over", "under"] or extra is None or len(extra) != 2:
        raise T.Unsupported("decomposition branch shape")
    names = [names0.elts[0].value] + extra
    text = f"Definition {site['name']} (over : xv) (under : xv) (fcst1 : xv) : xv * xv * xv :=\n"
    text += f"  ({score}, {parts[order[0]]}, {parts[order[1]]}).\n"
    text += f"Definition {site['name']}_names : list string := [" + "; ".join('"' + n + '"' for n in names) + "].\n"
    return text


SITES += [
    dict(id="C11.merge", group="C11_kern", kind="custom", file=_M, func="murphy_score", fn=_merge_site, name="gen_murphy_merge"),
]
