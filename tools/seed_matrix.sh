#!/bin/bash
# seed_matrix.sh [seed-dir-glob] -- run every stored seeded defect against the check of the property it breaks
# (via tools/try_seed.sh, i.e. on a scratch copy of /repo) and print one line per seed.
cd "$(dirname "$0")/.."
PAT=${1:-seeded/*}
for d in $PAT; do
  [ -f "$d/patch.diff" ] || continue
  n=$(basename $d); P=${n%%-*}
  R=$(tools/try_seed.sh $d/patch.diff $P 2>&1 | tail -1 | cut -c1-200)
  echo "$n | $R"
done
