(* proofs/C08_proportion.v -- binary_discretise_proportion / proportion_exceeding: the NaN-skipping mean of the discretised
   values of a group is the fraction of its valid (non-NaN) data for which the relation holds. *)
From V Require Import lib.Tree lib.C08_aux gen.Gen_C08_discretise gen.Gen_C08_contingency model.C08 proofs.C08.
Open Scope list_scope.

Section Indicator.
  Variable A : Type.
  Variables (valid p : A -> bool) (m : A -> xv).
  Hypothesis Hm : forall a, m a = if valid a then b2x (p a) else XNaN.

  Definition cnt (q : A -> bool) (l : list A) : nat := List.length (filter q l).

  Lemma ind_nansum l : nansum (map m l) =x= xofnat (cnt (fun a => valid a && p a) l).
  Proof.
    induction l as [|a l IH]. reflexivity.
    cbn [map]. rewrite Hm. unfold cnt in *. cbn [filter]. destruct (valid a); cbn [andb].
    - destruct (p a); cbn [b2x List.length].
      + rewrite nansum_cons_fin, xofnat_S, IH. reflexivity.
      + rewrite nansum_cons_fin, IH. destruct (xofnat _) eqn:E; try discriminate. unfold xofnat in E. inversion E. cbn. ring.
    - rewrite nansum_cons_nan. exact IH.
  Qed.
  Lemma ind_nancount l : nancount (map m l) = cnt valid l.
  Proof.
    induction l as [|a l IH]. reflexivity.
    cbn [map]. rewrite Hm. unfold cnt, nancount in *. cbn [filter valids].
    destruct (valid a); [destruct (p a) |]; cbn [b2x xvalid xnotnull xisnan negb filter List.length]; fold (valids (map m l)); rewrite ?IH; reflexivity.
  Qed.
  (* the NaN-skipping mean of a 0/1/NaN indicator list: NaN without valid elements, otherwise (number with p) / (number valid) *)
  Lemma ind_nanmean l :
    nanmean (map m l) =x=
    match cnt valid l with
    | O => XNaN
    | n => XFin (inject_Z (Z.of_nat (cnt (fun a => valid a && p a) l)) / inject_Z (Z.of_nat n))
    end.
  Proof.
    unfold nanmean. rewrite ind_nancount. destruct (cnt valid l) as [|n] eqn:E. reflexivity.
    rewrite ind_nansum. unfold xofnat, xdiv.
    pose proof (Qeq_bool_spec (inject_Z (Z.of_nat (S n))) 0) as Hz. destruct (Qeq_bool _ 0).
    - exfalso. exact (inject_nat_nz _ Hz).
    - reflexivity.
  Qed.
End Indicator.

(* proportion of one group: data values ds (finite or NaN), one finite threshold c, relation r in either spelling, tolerance >= 0 *)
Definition data_valid (d : xv) : bool := xnotnull d.
Definition data_holds (r : cmpop) (c tol : Q) (d : xv) : bool := match d with XFin x => rel_holdsb r x c tol | _ => false end.

Theorem proportion_is_fraction (r : cmpop) (m : pmode) (c tol : Q) (ds : list xv) :
  0 <= tol -> In m [MStr (mode_name r); MOp r] -> Forall (fun d => xisinf d = false) ds ->
  nanmean (map (fun d => discretise_cell m (XFin tol) d (XFin c)) ds) =x=
  match cnt xv data_valid ds with
  | O => XNaN
  | n => XFin (inject_Z (Z.of_nat (cnt xv (fun d => data_valid d && data_holds r c tol d) ds)) / inject_Z (Z.of_nat n))
  end.
Proof.
  intros Ht Hm Hf.
  assert (E : map (fun d => discretise_cell m (XFin tol) d (XFin c)) ds =
              map (fun d => if data_valid d then b2x (data_holds r c tol d) else XNaN) ds).
  { apply map_ext_in. intros d Hd. rewrite Forall_forall in Hf. specialize (Hf d Hd).
    unfold discretise_cell. destruct d as [|x|s]; try discriminate.
    - assert (H : gen_comparative_discretise XNaN (XFin c) m (XFin tol) = Some XNaN).
      { apply discretise_nan_iff; auto. unfold all_modes, all_ops. cbn [flat_map app]. destruct r; simpl in Hm |- *; tauto. }
      rewrite H. reflexivity.
    - rewrite (discretise_ok r x c tol m Ht Hm). reflexivity. }
  rewrite E. apply (ind_nanmean xv data_valid (data_holds r c tol)). reflexivity.
Qed.
