(* proofs/C12_sum.v -- the sums: FIRM over category thresholds, risk matrix over decision points. *)
From V Require Import lib.Tree lib.C12_aux gen.Gen_C12_kern model.C12 proofs.C12 proofs.C12_nan.

(* ---------------- FIRM: sum over thresholds ---------------- *)
Lemma firm_point_cons c f o a d s tw r :
  firm_point c f o a d s (tw :: r) = xadd (xmul (snd tw) (firm_comp c (gen_firm_single f o a (fst tw) d s))) (firm_point c f o a d s r).
Proof. reflexivity. Qed.

(* firm_total: summed firm_score = summed overforecast + summed underforecast (finite threshold weights, any data) *)
Lemma firm_point_total f o a d s tws :
  Forall (fun tw => xisfin (snd tw) = true) tws ->
  firm_point FTotal f o a d s tws =x= xadd (firm_point FOver f o a d s tws) (firm_point FUnder f o a d s tws).
Proof.
  induction 1 as [|tw r Hw _ IH].
  - simpl. unfold firm_point. simpl. unfold X0. simpl. lra.
  - rewrite !firm_point_cons, IH. pose proof (firm_total_is_sum f o a (fst tw) d s) as Ht.
    destruct (gen_firm_single f o a (fst tw) d s) as [[tot ov] un]. simpl firm_comp. rewrite Ht.
    destruct (snd tw) as [|w|]; try discriminate. rewrite xmul_distr_fin. apply xadd_swap4.
Qed.

(* ... and each is the stated weighted sum of penalties *)
Definition firm_comp_q (c : fcomp) (lower : bool) (a : Q) (d : disc) (f o t : Q) : Q :=
  match c with
  | FOver => firm_over_q lower a d f o t
  | FUnder => firm_under_q lower a d f o t
  | FTotal => firm_over_q lower a d f o t + firm_under_q lower a d f o t end.
Definition xtws (tws : list (Q * Q)) : list (xv * xv) := map (fun tw => (XFin (fst tw), XFin (snd tw))) tws.

Lemma firm_point_spec c s (a f o : Q) (d : disc) (tws : list (Q * Q)) :
  (match d with DFin q => ~ q == 0 | _ => True end) ->
  firm_point c (XFin f) (XFin o) (XFin a) (xdisc d) s (xtws tws) =x=
  XFin (qsum (map (fun tw => snd tw * firm_comp_q c (String.eqb s "lower") a d f o (fst tw)) tws)).
Proof.
  intro Hd. unfold firm_point. apply xsum_fins_eq. induction tws as [|[t w] r IH]; simpl; constructor; auto.
  pose proof (firm_single_ok s a f o t d Hd) as H. cbv zeta in H.
  destruct (gen_firm_single (XFin f) (XFin o) (XFin a) (XFin t) (xdisc d) s) as [[tot ov] un].
  destruct H as [Ho [Hu Ht]]. destruct c; simpl;
  [destruct tot | destruct ov | destruct un]; simpl in *; try tauto;
  [rewrite Ht | rewrite Ho | rewrite Hu]; reflexivity.
Qed.

(* NaN in, NaN out at the level of the sum (at least one threshold): no hypothesis on the remaining data -- thresholds,
   weights, the other of forecast / observation may be finite, infinite or NaN, any risk parameter and discount *)
Lemma firm_point_nan c s (a f o d : xv) (tws : list (xv * xv)) :
  tws <> [] -> (f = XNaN \/ o = XNaN) -> firm_point c f o a d s tws = XNaN.
Proof.
  intros Hne Hnan. destruct tws as [|tw r]; [congruence|].
  rewrite firm_point_cons, (firm_nan_in s a f o (fst tw) d) by tauto.
  destruct c; simpl; rewrite xmul_nan_r; reflexivity.
Qed.

(* ---------------- risk matrix: one cell, then the plain double sum ---------------- *)
Lemma rms_cell_ok (s : string) (f o p w : Q) :
  gen_rms_cell (XFin f) (XFin o) (XFin p) (XFin w) s =x= XFin (w * rms_s (String.eqb s "lower") f o p).
Proof.
  unfold gen_rms_cell, rms_s, rms_above, Qltb. destruct (String.eqb s "lower"); xunf;
  cbn -[Qle_bool Qeq_bool Qcompare Qmult Qplus Qminus Qopp Qdiv Qinv]; qcmpx;
  cbn -[Qmult Qplus Qminus Qopp Qdiv Qinv]; try lra; try contradiction; exfalso; lra.
Qed.

Lemma rms_cell_nan_iff (s : string) (f o : xv) (p w : Q) :
  xisinf f = false -> xisinf o = false ->
  (gen_rms_cell f o (XFin p) (XFin w) s = XNaN <-> f = XNaN \/ o = XNaN).
Proof.
  intros Hf Ho. destruct f as [|f|]; destruct o as [|o|]; try discriminate; unfold gen_rms_cell;
  destruct (String.eqb s "lower"); xunf; cbn -[Qle_bool Qeq_bool Qcompare Qmult Qplus Qminus Qopp Qdiv Qinv];
  repeat match goal with
    | |- context [Qle_bool ?u ?v] => destruct (Qle_bool u v)
    | |- context [Qeq_bool ?u ?v] => destruct (Qeq_bool u v) end;
  cbn; intuition (auto; discriminate).
Qed.

Definition xrow (r : Q * Q * list (Q * Q)) : xv * xv * list (xv * xv) :=
  (XFin (fst (fst r)), XFin (snd (fst r)), map (fun pw => (XFin (fst pw), XFin (snd pw))) (snd r)).

(* rms_spec: the per-case score is sum_i sum_j w_ij * s_j(f_i, y_i), for any number of severity categories and thresholds *)
Lemma rms_case_ok (s : string) (rows : list (Q * Q * list (Q * Q))) :
  rms_case s (map xrow rows) =x= XFin (rms_spec_q (String.eqb s "lower") rows).
Proof.
  unfold rms_case, rms_spec_q. apply xsum_fins_eq. unfold fins.
  induction rows as [|[[f o] pws] r IH]; simpl; [constructor|].
  rewrite map_app. apply Forall2_app; [|exact IH]. clear IH.
  induction pws as [|[p w] t IHp]; simpl; constructor; auto. apply rms_cell_ok.
Qed.

(* the sum does not skip NaN: one missing forecast or observation in any severity category makes the case NaN *)
Lemma rms_case_nan (s : string) (rows : list (xv * xv * list (xv * xv))) f o p w pws :
  In (f, o, (XFin p, XFin w) :: pws) rows -> xisinf f = false -> xisinf o = false ->
  (f = XNaN \/ o = XNaN) -> rms_case s rows = XNaN.
Proof.
  intros Hin Hf Ho Hn. unfold rms_case. apply xsum_in_nan. apply in_flat_map.
  exists (f, o, (XFin p, XFin w) :: pws). split; auto. simpl. left.
  apply (rms_cell_nan_iff s f o p w Hf Ho). exact Hn.
Qed.

(* ---------------- the full-function models: every output cell is the NaN-skipping mean, over the reduced
   dimensions, of weight * per-case sum ---------------- *)
Lemma firm_m_value c fcst obs alpha ths wts dopt rd pd w assign r e :
  firm_m c fcst obs alpha ths wts dopt rd pd w assign = Ok r ->
  exists R, gather (ldims fcst) (ldims obs) None rd pd DNone = Ok R /\
    let s := apply_weights w (firm_pointwise c fcst obs alpha ths wts (firm_disc dopt) assign) in
    lget r e = nanmean (map (lget s) (envs (lsize s) (dinter (ldims s) R) e)).
Proof.
  unfold firm_m, guard, of_guard12. cbv zeta. destruct (gen_guard_firm alpha (firm_disc dopt) assign);
  repeat match goal with |- context [if ?b then Err ValueError else Ok tt] => destruct b end;
  simpl; try (intro H; discriminate H).
  destruct (gather _ _ _ _ _ _) as [R|]; simpl; intro H; inversion H. exists R. split; auto.
Qed.

Lemma rms_m_value fcst obs dw thr sev prob sf so sw assign rd pd w r e :
  rms_m fcst obs dw thr sev prob sf so sw assign rd pd w = Ok r ->
  exists R, gather (ddiff (ldims fcst) [sev]) (ddiff (ldims obs) [sev]) (option_map ldims w) rd pd DNone = Ok R /\
    let s := apply_weights w (rms_pointwise fcst obs dw thr sev prob assign) in
    lget r e = nanmean (map (lget s) (envs (lsize s) (dinter (ldims s) R) e)) /\
    lget (rms_pointwise fcst obs dw thr sev prob assign) e = rms_case assign (rms_rows fcst obs dw thr sev prob e).
Proof.
  unfold rms_m, guard, of_guard12. destruct (gen_guard_rms _ _ _ _ _);
  repeat match goal with |- context [if ?b then Err ValueError else Ok tt] => destruct b end;
  simpl; try (intro H; discriminate H).
  destruct (gather _ _ _ _ _ _) as [R|]; simpl; intro H; inversion H. exists R. repeat split; auto.
Qed.
