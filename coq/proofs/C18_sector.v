(* proofs/C18_sector.v -- the code-faithful model of _encompassing_sector_size_np equals
   360 minus the largest circular gap (for sorted directions in [0,360)). *)
From Coq Require Import Permutation.
From V Require Import lib.Tree gen.Gen_functions model.C18 proofs.C18 proofs.C18_mod.
Open Scope list_scope.
Open Scope Q_scope.

(* ------------------------------------------------------------------------------------ *)
(* generic list facts                                                                     *)
(* ------------------------------------------------------------------------------------ *)
Lemma qmaxl_eq d d' l l' : d == d' -> Forall2 Qeq l l' -> qmaxl d l == qmaxl d' l'.
Proof. intros Hd H. induction H as [|x y l l' Hxy H IH]; simpl; [exact Hd|].
  change (fold_right _ d l) with (qmaxl d l). change (fold_right _ d' l') with (qmaxl d' l').
  rewrite (Qle_bool_compat x y (qmaxl d l) (qmaxl d' l') Hxy IH). destruct (Qle_bool y (qmaxl d' l')); assumption. Qed.
Lemma qmax_list_eq l l' : Forall2 Qeq l l' -> qmax_list l == qmax_list l'.
Proof. intro H. destruct H as [|x y l l' Hxy H]; [reflexivity|]. apply qmaxl_eq; assumption. Qed.
Lemma Forall2_map_eq {A} (f g : A -> Q) l : (forall x, In x l -> f x == g x) -> Forall2 Qeq (map f l) (map g l).
Proof. induction l as [|a t IH]; intro H; simpl; constructor; [apply H; left; reflexivity | apply IH; intros; apply H; right; assumption]. Qed.
Lemma qsum_eq l l' : Forall2 Qeq l l' -> qsum l == qsum l'.
Proof. induction 1; simpl; [reflexivity | rewrite H, IHForall2; reflexivity]. Qed.
Lemma qsum_app a b : qsum (a ++ b) == qsum a + qsum b.
Proof. induction a as [|x t IH]; simpl; [ring | rewrite IH; ring]. Qed.

Definition nonneg (l : list Q) : Prop := forall x, In x l -> 0 <= x.
Lemma qsum_nonneg l : nonneg l -> 0 <= qsum l.
Proof. induction l as [|x t IH]; intro H; simpl; [lra|]. pose proof (H x (or_introl eq_refl)). assert (nonneg t) by (intros y Hy; apply H; right; exact Hy). specialize (IH H1). lra. Qed.
Lemma qsum_ge_member l g : nonneg l -> In g l -> g <= qsum l.
Proof. induction l as [|x t IH]; intros H Hg; [destruct Hg|]. simpl.
  assert (Ht : nonneg t) by (intros y Hy; apply H; right; exact Hy). pose proof (qsum_nonneg t Ht). pose proof (H x (or_introl eq_refl)).
  destruct Hg as [<-|Hg]; [lra | specialize (IH Ht Hg); lra]. Qed.

Lemma count_nz_cons x l : count_nz (x :: l) = ((if Qeq_bool x 0 then 0 else 1) + count_nz l)%nat.
Proof. unfold count_nz. simpl. destruct (Qeq_bool x 0); reflexivity. Qed.
Lemma count_nz_app a b : count_nz (a ++ b) = (count_nz a + count_nz b)%nat.
Proof. unfold count_nz. rewrite filter_app, app_length. reflexivity. Qed.
Lemma count_nz_ext {A} (f g : A -> Q) l : (forall x, In x l -> (f x == 0 <-> g x == 0)) -> count_nz (map f l) = count_nz (map g l).
Proof. induction l as [|a t IH]; intro H; [reflexivity|]. simpl map. rewrite !count_nz_cons. rewrite IH by (intros; apply H; right; assumption).
  pose proof (H a (or_introl eq_refl)) as Ha. pose proof (Qeq_bool_spec (f a) 0). pose proof (Qeq_bool_spec (g a) 0).
  destruct (Qeq_bool (f a) 0), (Qeq_bool (g a) 0); try reflexivity; exfalso; tauto. Qed.
Lemma count_nz_perm l l' : Permutation l l' -> count_nz l = count_nz l'.
Proof. induction 1; rewrite ?count_nz_cons in *; try lia. Qed.
Lemma count_nz_zero l : nonneg l -> qsum l == 0 -> count_nz l = O.
Proof. induction l as [|x t IH]; intros H S; [reflexivity|]. rewrite count_nz_cons. simpl in S.
  assert (Ht : nonneg t) by (intros y Hy; apply H; right; exact Hy). pose proof (qsum_nonneg t Ht). pose proof (H x (or_introl eq_refl)).
  rewrite IH by (auto; lra). pose proof (Qeq_bool_spec x 0). destruct (Qeq_bool x 0); [reflexivity | exfalso; apply H2; lra]. Qed.
Lemma qsum_le_count l M : nonneg l -> (forall x, In x l -> x <= M) -> 0 <= M -> qsum l <= zq (Z.of_nat (count_nz l)) * M.
Proof. induction l as [|x t IH]; intros H HM M0; [change (qsum []) with 0; change (zq (Z.of_nat (count_nz []))) with 0; lra|]. rewrite count_nz_cons. simpl qsum.
  assert (Ht : nonneg t) by (intros y Hy; apply H; right; exact Hy).
  specialize (IH Ht (fun y Hy => HM y (or_intror Hy)) M0). pose proof (HM x (or_introl eq_refl)).
  rewrite Nat2Z.inj_add, zq_add. pose proof (Qeq_bool_spec x 0).
  destruct (Qeq_bool x 0); [change (zq (Z.of_nat 0)) with 0 | change (zq (Z.of_nat 1)) with 1]; nra. Qed.

(* np.argmax as "first maximiser" *)
Lemma first_max_spec {A} (f : A -> Q) l : forall best, In (first_max f best l) (best :: l) /\ forall x, In x (best :: l) -> f x <= f (first_max f best l).
Proof. induction l as [|y t IH]; intro best; simpl.
  - split; [left; reflexivity | intros x [<-|[]]; apply Qle_refl].
  - pose proof (Qltb_spec (f best) (f y)) as Hc. destruct (Qltb (f best) (f y)).
    + destruct (IH y) as [I1 I2]. split; [right; exact I1|]. intros x [<-|Hx]; [|apply I2; exact Hx].
      apply Qle_trans with (f y); [apply Qlt_le_weak; exact Hc | apply I2; left; reflexivity].
    + destruct (IH best) as [I1 I2]. split; [destruct I1 as [E|I1]; [left; exact E | right; right; exact I1]|].
      intros x [<-|[<-|Hx]]; [apply I2; left; reflexivity | apply Qle_trans with (f best); [exact Hc | apply I2; left; reflexivity] | apply I2; right; exact Hx].
Qed.

(* ------------------------------------------------------------------------------------ *)
(* the cyclic pairs of a sorted list                                                      *)
(* ------------------------------------------------------------------------------------ *)
Fixpoint cpairs_from (first prev : Q) (l : list Q) : list (Q * Q) :=
  match l with [] => [(prev, first)] | x :: t => (prev, x) :: cpairs_from first x t end.
Lemma combine_roll first prev l : combine (prev :: l) (l ++ [first]) = cpairs_from first prev l.
Proof. revert prev. induction l as [|x t IH]; intro prev; [reflexivity|].
  change (combine (prev :: x :: t) ((x :: t) ++ [first])) with ((prev, x) :: combine (x :: t) (t ++ [first])). rewrite IH. reflexivity. Qed.
Definition gpair (p : Q * Q) : Q := cw (fst p) (snd p).

Lemma cpairs_member first prev l p : In p (cpairs_from first prev l) ->
  (exists l1 l2, prev :: l = l1 ++ fst p :: snd p :: l2) \/ p = (last l prev, first).
Proof. revert prev. induction l as [|x t IH]; intros prev H; simpl in H.
  - destruct H as [<-|[]]. right. reflexivity.
  - destruct H as [<-|H].
    + left. exists [], t. reflexivity.
    + destruct (IH x H) as [[l1 [l2 E]]|E].
      * left. exists (prev :: l1), l2. simpl. rewrite E. reflexivity.
      * right. rewrite E. f_equal. symmetry. apply last_cons.
Qed.
Lemma cpairs_fst first prev l : map fst (cpairs_from first prev l) = prev :: l.
Proof. revert prev. induction l as [|x t IH]; intro prev; simpl; [reflexivity | rewrite IH; reflexivity]. Qed.

Lemma sorted_app_le l1 a r : qsorted (l1 ++ a :: r) -> forall q, In q l1 -> q <= a.
Proof. induction l1 as [|x t IH]; intros H q Hq; [destruct Hq|]. simpl in H.
  destruct Hq as [<-|Hq]; [apply (sorted_head_le x (t ++ a :: r) H); apply in_or_app; right; left; reflexivity|].
  apply IH; [apply (qsorted_tail _ _ H) | exact Hq]. Qed.
Lemma sorted_app_r l1 r : qsorted (l1 ++ r) -> qsorted r.
Proof. induction l1 as [|x t IH]; intro H; [exact H|]. apply IH. apply (qsorted_tail _ _ H). Qed.
Lemma sorted_split l1 a b l2 : qsorted (l1 ++ a :: b :: l2) -> a <= b /\ forall q, In q (l1 ++ a :: b :: l2) -> q <= a \/ b <= q.
Proof. intro H. pose proof (sorted_app_r _ _ H) as Hab. apply qsorted_cons in Hab. destruct Hab as [Hab Hb]. split; [exact Hab|].
  intros q Hq. apply in_app_or in Hq. destruct Hq as [Hq|[<-|[<-|Hq]]].
  - left. apply (sorted_app_le l1 a (b :: l2) H q Hq).
  - left. apply Qle_refl.
  - right. apply Qle_refl.
  - right. apply (sorted_head_le b l2 Hb q Hq). Qed.
Lemma sorted_last_ge a t : qsorted (a :: t) -> forall q, In q (a :: t) -> q <= last t a.
Proof. revert a. induction t as [|b t IH]; intros a H q Hq.
  - destruct Hq as [<-|[]]. apply Qle_refl.
  - rewrite last_cons. apply qsorted_cons in H. destruct H as [Hab H]. destruct Hq as [<-|Hq].
    + apply Qle_trans with b; [exact Hab | apply IH; [exact H | left; reflexivity]].
    + apply IH; assumption. Qed.

(* sum of the circular gaps *)
Lemma gaps_from_sum first prev l : qsum (gaps_from first prev l) == first + 360 - prev.
Proof. revert prev. induction l as [|x t IH]; intro prev; simpl; [ring | rewrite IH; ring]. Qed.

Section Sorted.
  Variables (x : Q) (t : list Q).
  Let d := x :: t.
  Hypothesis Hs : qsorted d.
  Hypothesis Hr : in_range d.
  Let cps := cpairs_from x x t.
  Let lst := last t x.

  Lemma lst_in : In lst d.
  Proof. unfold lst, d. apply last_in. Qed.
  Lemma x_le_all q : In q d -> x <= q.
  Proof. intros [<-|H]; [apply Qle_refl | apply (sorted_head_le x t Hs q H)]. Qed.
  Lemma all_le_lst q : In q d -> q <= lst.
  Proof. apply (sorted_last_ge x t Hs). Qed.
  Lemma cps_combine : combine d (rollq d) = cps.
  Proof. unfold d, cps. simpl rollq. apply combine_roll. Qed.

  Lemma cps_cases p : In p cps -> (0 <= fst p /\ fst p <= snd p /\ snd p < 360 /\ In (fst p) d /\ In (snd p) d /\
                                   forall q, In q d -> q <= fst p \/ snd p <= q) \/ p = (lst, x).
  Proof. intro H. destruct (cpairs_member x x t p H) as [[l1 [l2 E]]|E]; [left | right; exact E].
    fold d in E. pose proof Hs as Hs'. rewrite E in Hs'. destruct (sorted_split _ _ _ _ Hs') as [Hab Hq].
    assert (Ia : In (fst p) d) by (rewrite E; apply in_or_app; right; left; reflexivity).
    assert (Ib : In (snd p) d) by (rewrite E; apply in_or_app; right; right; left; reflexivity).
    destruct (Hr _ Ia), (Hr _ Ib). repeat split; auto. intros q Iq. apply Hq. rewrite <- E. exact Iq. Qed.

  Lemma cps_in_d p : In p cps -> In (fst p) d /\ In (snd p) d.
  Proof. intro H. destruct (cps_cases p H) as [[_ [_ [_ [A [B _]]]]]|E]; [tauto|]. rewrite E. simpl. split; [apply lst_in | left; reflexivity]. Qed.

  Hypothesis Hne : x < lst.          (* not all directions equal *)

  Lemma adiff_fold p : In p cps -> adiff p == fold180 (gpair p).
  Proof. intro H. destruct (Hr lst lst_in) as [L0 L1]. destruct (Hr x (or_introl eq_refl)) as [X0 X1].
    destruct (cps_cases p H) as [[A0 [Hab [B1 _]]]|Ew]; [|rewrite Ew]; unfold gpair, adiff.
    - rewrite cw_le by assumption. rewrite Qabs_neg by lra. assert (E : - (fst p - snd p) == snd p - fst p) by ring. rewrite E. reflexivity.
    - simpl fst. simpl snd. rewrite cw_gt by assumption. rewrite Qabs_pos by lra.
      assert (E : x - lst + 360 == 360 - (lst - x)) by ring. rewrite E. rewrite fold180_compl by lra. reflexivity.
  Qed.
  Lemma gpair_range p : 0 <= gpair p /\ gpair p < 360.
  Proof. apply cw_range. Qed.
End Sorted.

(* the circular gaps of the specification are the anticlockwise distances of the cyclic pairs *)
Lemma gaps_rel_gen first prev l : qsorted (prev :: l) -> in_range (prev :: l) -> 0 <= first -> first < last l prev ->
  Forall2 Qeq (map gpair (cpairs_from first prev l)) (gaps_from first prev l).
Proof. revert prev. induction l as [|y t IH]; intros prev Hs Hr F0 Hlt; simpl.
  - constructor; [|constructor]. unfold gpair. simpl in *. destruct (Hr prev (or_introl eq_refl)). rewrite cw_gt by lra. ring.
  - apply qsorted_cons in Hs. destruct Hs as [Hpy Hs]. destruct (Hr prev (or_introl eq_refl)). destruct (Hr y (or_intror (or_introl eq_refl))).
    constructor; [unfold gpair; simpl; rewrite cw_le by lra; reflexivity|].
    apply IH; auto; [intros q Hq; apply Hr; right; exact Hq | rewrite last_cons in Hlt; exact Hlt]. Qed.

Lemma adiff_zero_iff a b : 0 <= a < 360 -> 0 <= b < 360 -> (adiff (a, b) == 0 <-> a == b).
Proof. intros [A0 A1] [B0 B1]. unfold adiff. cbn [fst snd]. pose proof (Qabs_nonneg (a - b)).
  assert (Qabs (a - b) < 360) by (apply Qabs_case; intros; lra). rewrite fold180_zero by lra. split; intro E.
  - destruct (Qlt_le_dec (a - b) 0); [rewrite Qabs_neg in E by lra | rewrite Qabs_pos in E by lra]; lra.
  - assert (X : a - b == 0) by lra. rewrite X. reflexivity. Qed.

(* two (three) non-zero adjacent differences need two (three) strictly increasing directions *)
Lemma cpairs_count_le1 first prev : (count_nz (map adiff (cpairs_from first prev [])) <= 1)%nat.
Proof. change (cpairs_from first prev []) with [(prev, first)]. change (map adiff [(prev, first)]) with [adiff (prev, first)].
  rewrite count_nz_cons. change (count_nz []) with O. destruct (Qeq_bool _ 0); lia. Qed.

Lemma inc2 first prev l : qsorted (prev :: l) -> in_range (prev :: l) ->
  (2 <= count_nz (map adiff (cpairs_from first prev l)))%nat -> exists v w, In v (prev :: l) /\ In w (prev :: l) /\ v < w.
Proof. revert prev. induction l as [|y t IH]; intros prev Hs Hr Hc.
  - pose proof (cpairs_count_le1 first prev). lia.
  - simpl cpairs_from in Hc. simpl map in Hc. rewrite count_nz_cons in Hc.
    apply qsorted_cons in Hs. destruct Hs as [Hpy Hs].
    pose proof (Hr prev (or_introl eq_refl)) as Rp. pose proof (Hr y (or_intror (or_introl eq_refl))) as Ry.
    pose proof (Qeq_bool_spec (adiff (prev, y)) 0) as Hz. destruct (Qeq_bool (adiff (prev, y)) 0).
    + destruct (IH y Hs (fun q Hq => Hr q (or_intror Hq)) ltac:(lia)) as [v [w [Iv [Iw Hvw]]]].
      exists v, w. repeat split; auto; right; assumption.
    + exists prev, y. split; [left; reflexivity|]. split; [right; left; reflexivity|].
      destruct (Qlt_le_dec prev y) as [L|L]; [exact L|]. exfalso. apply Hz. apply adiff_zero_iff; auto. lra.
Qed.
Lemma inc3 first prev l : qsorted (prev :: l) -> in_range (prev :: l) ->
  (3 <= count_nz (map adiff (cpairs_from first prev l)))%nat ->
  exists u v w, In u (prev :: l) /\ In v (prev :: l) /\ In w (prev :: l) /\ u < v /\ v < w.
Proof. revert prev. induction l as [|y t IH]; intros prev Hs Hr Hc.
  - pose proof (cpairs_count_le1 first prev). lia.
  - simpl cpairs_from in Hc. simpl map in Hc. rewrite count_nz_cons in Hc.
    pose proof Hs as Hs0. apply qsorted_cons in Hs. destruct Hs as [Hpy Hs].
    pose proof (Hr prev (or_introl eq_refl)) as Rp. pose proof (Hr y (or_intror (or_introl eq_refl))) as Ry.
    assert (Hr' : in_range (y :: t)) by (intros q Hq; apply Hr; right; exact Hq).
    pose proof (Qeq_bool_spec (adiff (prev, y)) 0) as Hz. destruct (Qeq_bool (adiff (prev, y)) 0).
    + destruct (IH y Hs Hr' ltac:(lia)) as [u [v [w [Iu [Iv [Iw H]]]]]].
      exists u, v, w. repeat split; try tauto; right; assumption.
    + destruct (inc2 first y t Hs Hr' ltac:(lia)) as [v [w [Iv [Iw Hvw]]]].
      assert (Hyv : y <= v) by (destruct Iv as [<-|Iv]; [apply Qle_refl | apply (sorted_head_le y t Hs v Iv)]).
      assert (Hpy' : prev < y).
      { destruct (Qlt_le_dec prev y) as [L|L]; [exact L|]. exfalso. apply Hz. apply adiff_zero_iff; auto. lra. }
      exists prev, v, w. split; [left; reflexivity|]. split; [right; exact Iv|]. split; [right; exact Iw|]. lra.
Qed.

Section Main.
  Variables (x : Q) (t : list Q).
  Let d := x :: t.
  Hypothesis Hs : qsorted d.
  Hypothesis Hr : in_range d.
  Let cps := cpairs_from x x t.
  Let lst := last t x.
  Let gs := map gpair cps.

  (* only two distinct directions: at most two non-zero adjacent differences *)
  Lemma two_values a b : (forall q, In q d -> q == a \/ q == b) -> (count_nz (map adiff cps) <= 2)%nat.
  Proof. intro H. destruct (le_lt_dec (count_nz (map adiff cps)) 2) as [L|L]; [exact L|]. exfalso.
    destruct (inc3 x x t Hs Hr ltac:(unfold cps in L; lia)) as [u [v [w [Iu [Iv [Iw [H1 H2]]]]]]].
    destruct (H u Iu), (H v Iv), (H w Iw); lra. Qed.

  Hypothesis Hne : x < lst.

  Lemma gs_nonneg : nonneg gs.
  Proof. intros g Hg. unfold gs in Hg. apply in_map_iff in Hg. destruct Hg as [p [<- _]]. apply gpair_range. Qed.
  Lemma gs_cgaps : Forall2 Qeq gs (cgaps d).
  Proof. unfold gs, cps, d. simpl cgaps. apply gaps_rel_gen; auto. destruct (Hr x (or_introl eq_refl)). tauto. Qed.
  Lemma gs_sum : qsum gs == 360.
  Proof. rewrite (qsum_eq _ _ gs_cgaps). unfold d. simpl cgaps. rewrite gaps_from_sum. ring. Qed.
  Lemma gs_count : count_nz (map adiff cps) = count_nz gs.
  Proof. unfold gs. apply count_nz_ext. intros p Hp. rewrite (adiff_fold x t Hs Hr Hne p Hp).
    destruct (gpair_range p). apply fold180_zero; assumption. Qed.

  (* no direction lies strictly inside the gap of a cyclic pair *)
  Lemma no_point_inside p q : In p cps -> In q d -> cw (fst p) q == 0 \/ gpair p <= cw (fst p) q.
  Proof. intros Hp Hq. destruct (Hr q Hq) as [Q0 Q1]. destruct (Hr lst (lst_in x t)) as [L0 L1]. destruct (Hr x (or_introl eq_refl)) as [X0 X1].
    destruct (cps_cases x t Hs Hr p Hp) as [[A0 [Hab [B1 [Ia [Ib Hsplit]]]]]|E].
    - destruct (Hr _ Ia) as [_ A1]. unfold gpair. rewrite (cw_le (fst p) (snd p)) by assumption.
      destruct (Hsplit q Hq) as [Hle|Hge].
      + destruct (Qlt_le_dec q (fst p)) as [L|L].
        * right. rewrite cw_gt by assumption. lra.
        * left. assert (Eq : q == fst p) by lra. rewrite Eq. apply cw_self.
      + right. rewrite cw_le by lra. lra.
    - fold lst in E. rewrite E. unfold gpair. cbn [fst snd]. rewrite (cw_gt lst x) by assumption.
      pose proof (x_le_all x t Hs q Hq). pose proof (all_le_lst x t Hs q Hq). fold lst in H0.
      destruct (Qlt_le_dec q lst) as [L|L].
      + right. rewrite cw_gt by assumption. lra.
      + left. assert (Eq : q == lst) by lra. rewrite Eq. apply cw_self.
  Qed.

  Lemma sector_core_v1_unfold : sector_core_v1 d ==
    let best := first_max adiff (x, hd x (rollq d)) cps in
    let second := qmod360 (snd best - fst best) in
    let maxrot := qmax_list (map (fun r => qmod360 (r - fst best)) (rollq d)) in
    if (count_nz (map adiff cps) <=? 2)%nat then qmax_list (map adiff cps)
    else if Qeq_bool maxrot second then second else 360 - second.
  Proof. unfold sector_core_v1, d, cps. cbv zeta. rewrite (cps_combine x t). reflexivity. Qed.

  Lemma head_in_cps : In (x, hd x (rollq d)) cps.
  Proof. unfold cps, d. destruct t; simpl; left; reflexivity. Qed.

  Theorem sector_core_v1_spec_ne : sector_core_v1 d == sector_spec_sorted d.
  Proof.
    rewrite sector_core_v1_unfold. cbv zeta. unfold sector_spec_sorted.
    rewrite <- (qmax_list_eq _ _ gs_cgaps).
    assert (Ngs : gs <> []) by (unfold gs, cps; destruct t; simpl; discriminate).
    destruct (qmax_list_spec gs Ngs) as [MI ML]. set (M := qmax_list gs) in *.
    assert (MI' := MI). unfold gs in MI'. apply in_map_iff in MI'. destruct MI' as [pM [EM IpM]].
    pose proof gs_nonneg as Gn. pose proof gs_sum as Gs. pose proof gs_count as Gc.
    assert (M0 : 0 <= M) by (apply Gn; exact MI).
    destruct (first_max_spec adiff cps (x, hd x (rollq d))) as [BI BM].
    set (best := first_max adiff (x, hd x (rollq d)) cps) in *.
    assert (Ibest : In best cps) by (destruct BI as [E|I0]; [rewrite <- E; apply head_in_cps | exact I0]).
    assert (BM' : forall p, In p cps -> adiff p <= adiff best) by (intros p Hp; apply BM; right; exact Hp).
    destruct (count_nz (map adiff cps) <=? 2)%nat eqn:Ec.
    - (* at most two distinct directions *)
      apply Nat.leb_le in Ec. rewrite Gc in Ec.
      assert (M180 : 180 <= M).
      { pose proof (qsum_le_count gs M Gn ML M0) as S. rewrite Gs in S.
        assert (zq (Z.of_nat (count_nz gs)) <= 2) by (change 2 with (zq 2); apply zq_inj_le; lia). nra. }
      assert (M360 : M < 360) by (rewrite <- EM; apply gpair_range).
      assert (FM : fold180 M == 360 - M).
      { destruct (Qlt_le_dec 180 M); [apply fold180_gt; assumption | rewrite fold180_le by assumption; lra]. }
      assert (Nd : map adiff cps <> []) by (unfold cps; destruct t; simpl; discriminate).
      destruct (qmax_list_spec (map adiff cps) Nd) as [DI DL]. set (D := qmax_list (map adiff cps)) in *.
      apply Qle_antisym.
      + (* D <= 360 - M *)
        apply in_map_iff in DI. destruct DI as [p0 [E0 Ip0]]. rewrite <- E0. rewrite (adiff_fold x t Hs Hr Hne p0 Ip0).
        destruct (in_split _ _ IpM) as [c1 [c2 Ecps]].
        assert (Hp0 : p0 = pM \/ In p0 (c1 ++ c2)).
        { rewrite Ecps in Ip0. apply in_app_or in Ip0. destruct Ip0 as [I1|[I1|I1]]; [right; apply in_or_app; left; exact I1 | left; symmetry; exact I1 | right; apply in_or_app; right; exact I1]. }
        destruct Hp0 as [->|Hp0]; [rewrite EM; lra|].
        assert (S : qsum gs == qsum (map gpair (c1 ++ c2)) + M).
        { unfold gs. rewrite Ecps, !map_app. simpl map. rewrite !qsum_app. simpl qsum. rewrite EM. ring. }
        assert (Nn : nonneg (map gpair (c1 ++ c2))) by (intros g Hg; apply in_map_iff in Hg; destruct Hg as [p [<- _]]; apply gpair_range).
        pose proof (qsum_ge_member _ (gpair p0) Nn (in_map gpair _ _ Hp0)) as G0.
        destruct (gpair_range p0) as [P0 P1]. destruct (fold180_range (gpair p0)) as [_ [_ F]]; lra.
      + (* 360 - M <= D *)
        rewrite <- FM, <- EM. rewrite <- (adiff_fold x t Hs Hr Hne pM IpM). apply DL. apply in_map. exact IpM.
    - (* three or more distinct directions *)
      apply Nat.leb_gt in Ec.
      set (a := fst best) in *. set (b := snd best) in *.
      destruct (cps_in_d x t Hs Hr best Ibest) as [Ia Ib]. fold a in Ia. fold b in Ib.
      destruct (Hr a Ia) as [A0 A1]. destruct (Hr b Ib) as [B0 B1].
      change (qmod360 (b - a)) with (gpair best). set (g := gpair best) in *.
      assert (Nrot : map (fun r => qmod360 (r - a)) (rollq d) <> []) by (unfold d; simpl; destruct t; simpl; discriminate).
      destruct (qmax_list_spec _ Nrot) as [RI RL]. set (maxrot := qmax_list (map (fun r => qmod360 (r - a)) (rollq d))) in *.
      (* the equality test fails: otherwise only the directions a and b occur *)
      assert (Hneq : Qeq_bool maxrot g = false).
      { pose proof (Qeq_bool_spec maxrot g) as Hq. destruct (Qeq_bool maxrot g); [exfalso | reflexivity].
        assert (TV : forall q, In q d -> q == a \/ q == b).
        { intros q Hq'. destruct (Hr q Hq') as [Q0 Q1].
          assert (Hle : cw a q <= maxrot).
          { apply RL. apply in_map_iff. exists q. split; [reflexivity|]. unfold d. simpl rollq. destruct Hq' as [<-|Hq'']; apply in_or_app; [right; left; reflexivity | left; exact Hq'']. }
          destruct (no_point_inside best q Ibest Hq') as [Z|G]; fold a in Z || fold a in G.
          - left. symmetry. apply (cw_zero_eq a q); assumption.
          - right. fold g in G. symmetry. apply (cw_inj a b q); try assumption. change (cw a b) with g. lra. }
        pose proof (two_values a b TV). lia. }
      rewrite Hneq.
      (* g is the largest gap *)
      assert (Gg : In g gs) by (unfold gs; apply in_map; exact Ibest).
      assert (HgM : g == M).
      { apply Qle_antisym; [apply ML; exact Gg|].
        destruct (in_split _ _ Ibest) as [c1 [c2 Ecps]].
        assert (HpM : pM = best \/ In pM (c1 ++ c2)).
        { pose proof IpM as I0. rewrite Ecps in I0. apply in_app_or in I0. destruct I0 as [I1|[I1|I1]]; [right; apply in_or_app; left; exact I1 | left; symmetry; exact I1 | right; apply in_or_app; right; exact I1]. }
        destruct HpM as [E|HpM]; [rewrite <- EM, E; apply Qle_refl|].
        destruct (Qlt_le_dec g M) as [Lt|Ge]; [exfalso | exact Ge].
        destruct (in_split _ _ HpM) as [e1 [e2 Ee]].
        assert (S1 : qsum (map gpair (c1 ++ c2)) == M + qsum (map gpair (e1 ++ e2))).
        { rewrite Ee, !map_app. simpl map. rewrite !qsum_app. simpl qsum. rewrite EM. ring. }
        assert (S2 : qsum gs == g + qsum (map gpair (c1 ++ c2))).
        { unfold gs. rewrite Ecps, !map_app. simpl map. rewrite !qsum_app. simpl qsum. fold g. ring. }
        assert (S : qsum gs == g + M + qsum (map gpair (e1 ++ e2))) by (rewrite S2, S1; ring).
        assert (Nn : nonneg (map gpair (e1 ++ e2))) by (intros h Hh; apply in_map_iff in Hh; destruct Hh as [p [<- _]]; apply gpair_range).
        pose proof (qsum_nonneg _ Nn) as S0.
        pose proof (BM' pM IpM) as Hmax. rewrite (adiff_fold x t Hs Hr Hne pM IpM), (adiff_fold x t Hs Hr Hne best Ibest), EM in Hmax. fold g in Hmax.
        destruct (gpair_range best) as [G0 G1]. fold g in G0, G1.
        destruct (Qlt_le_dec 180 M) as [MB|MS].
        - (* M > 180: g = 360 - M and every other gap vanishes *)
          rewrite (fold180_gt M MB) in Hmax. rewrite (fold180_le g) in Hmax by lra.
          assert (Z : qsum (map gpair (e1 ++ e2)) == 0) by lra.
          pose proof (count_nz_zero _ Nn Z) as C0.
          assert (P : Permutation cps (best :: pM :: e1 ++ e2)).
          { rewrite Ecps. eapply perm_trans; [apply Permutation_sym, Permutation_middle|]. apply perm_skip. rewrite Ee. apply Permutation_sym, Permutation_middle. }
          pose proof (count_nz_perm _ _ (Permutation_map gpair P)) as CP. fold gs in CP. simpl map in CP. rewrite !count_nz_cons in CP. rewrite C0 in CP.
          rewrite Gc in Ec. destruct (Qeq_bool (gpair best) 0), (Qeq_bool (gpair pM) 0); simpl in CP; lia.
        - rewrite (fold180_le M MS) in Hmax. rewrite (fold180_le g) in Hmax by lra. lra. }
      rewrite HgM. reflexivity.
  Qed.
End Main.

(* ---- all directions equal ---- *)
Lemma gaps_all_equal first prev l c : first == c -> (forall q, In q (prev :: l) -> q == c) ->
  In (first + 360 - last l prev) (gaps_from first prev l) /\ forall g, In g (gaps_from first prev l) -> g == 0 \/ g == 360.
Proof. revert prev. induction l as [|y t IH]; intros prev Hf H.
  - simpl. split; [left; reflexivity|]. intros g [<-|[]]. right. rewrite Hf, (H prev (or_introl eq_refl)). ring.
  - destruct (IH y Hf (fun q Hq => H q (or_intror Hq))) as [I1 I2]. rewrite last_cons. simpl gaps_from. split.
    + right. exact I1.
    + intros g [<-|Hg]; [left; rewrite (H prev (or_introl eq_refl)), (H y (or_intror (or_introl eq_refl))); ring | apply I2; exact Hg].
Qed.

Lemma sector_core_v1_spec_eq x t : qsorted (x :: t) -> in_range (x :: t) -> last t x <= x -> sector_core_v1 (x :: t) == sector_spec_sorted (x :: t).
Proof.
  intros Hs Hr Hle.
  assert (Hall : forall q, In q (x :: t) -> q == x).
  { intros q Hq. pose proof (x_le_all x t Hs q Hq). pose proof (all_le_lst x t Hs q Hq). lra. }
  (* the specification: the only non-zero gap is the full turn *)
  assert (Spec : sector_spec_sorted (x :: t) == 0).
  { unfold sector_spec_sorted. simpl cgaps. destruct (gaps_all_equal x x t x (Qeq_refl x) Hall) as [I1 I2].
    assert (N : gaps_from x x t <> []) by (destruct t; simpl; discriminate).
    destruct (qmax_list_spec _ N) as [MI ML]. pose proof (ML _ I1) as G. pose proof (Hall _ (last_in x t)) as El.
    destruct (I2 _ MI) as [Z|Z]; lra. }
  rewrite Spec. rewrite (sector_core_v1_unfold x t). cbv zeta.
  assert (Z : forall p, In p (cpairs_from x x t) -> adiff p == 0).
  { intros p Hp. destruct (cps_in_d x t Hs Hr p Hp) as [Ia Ib]. destruct p as [a b]. simpl in *.
    apply adiff_zero_iff; [apply Hr; exact Ia | apply Hr; exact Ib | rewrite (Hall a Ia), (Hall b Ib); reflexivity]. }
  assert (C : count_nz (map adiff (cpairs_from x x t)) = O).
  { clear - Z. induction (cpairs_from x x t) as [|p r IH]; [reflexivity|]. simpl map. rewrite count_nz_cons.
    rewrite IH by (intros; apply Z; right; assumption). pose proof (Z p (or_introl eq_refl)) as Zp.
    pose proof (Qeq_bool_spec (adiff p) 0). destruct (Qeq_bool (adiff p) 0); [reflexivity | contradiction]. }
  rewrite C. simpl Nat.leb.
  assert (N : map adiff (cpairs_from x x t) <> []) by (destruct t; simpl; discriminate).
  destruct (qmax_list_spec _ N) as [MI _]. apply in_map_iff in MI. destruct MI as [p [<- Hp]]. apply Z. exact Hp.
Qed.

Theorem sector_core_v1_spec d : d <> [] -> qsorted d -> in_range d -> sector_core_v1 d == sector_spec_sorted d.
Proof. destruct d as [|x t]; [congruence|]. intros _ Hs Hr.
  destruct (Qlt_le_dec x (last t x)) as [L|L]; [apply sector_core_v1_spec_ne | apply sector_core_v1_spec_eq]; assumption. Qed.

(* ------------------------------------------------------------------------------------ *)
(* the repaired routine (/repo abf9f57): gaps = (rolled - data) % 360, 360 - largest gap,  *)
(* 0 when all directions coincide                                                         *)
(* ------------------------------------------------------------------------------------ *)
Lemma sector_core_unfold2 x t : sector_core (x :: t) =
  let largest := qmax_list (map gpair (cpairs_from x x t)) in if Qeq_bool largest 0 then 0 else 360 - largest.
Proof. unfold sector_core. rewrite (cps_combine x t). reflexivity. Qed.

Theorem sector_core_spec_sorted d : d <> [] -> qsorted d -> in_range d -> sector_core d == sector_spec_sorted d.
Proof.
  destruct d as [|x t]; [congruence|]. intros _ Hs Hr. rewrite sector_core_unfold2. cbv zeta.
  destruct (Qlt_le_dec x (last t x)) as [L|L].
  - (* not all equal: the gaps are the circular gaps of the specification, the largest is positive *)
    pose proof (gs_cgaps x t Hs Hr L) as G. pose proof (qmax_list_eq _ _ G) as EM.
    assert (N : map gpair (cpairs_from x x t) <> []) by (destruct t; simpl; discriminate).
    destruct (qmax_list_spec _ N) as [MI ML].
    pose proof (gs_sum x t Hs Hr L) as S. pose proof (gs_nonneg x t) as Nn.
    assert (P : 0 < qmax_list (map gpair (cpairs_from x x t))).
    { destruct (Qlt_le_dec 0 (qmax_list (map gpair (cpairs_from x x t)))) as [P|P]; [exact P|]. exfalso.
      pose proof (qsum_le_count _ 0 Nn) as X.
      assert (H0 : forall g, In g (map gpair (cpairs_from x x t)) -> g <= 0) by (intros g Hg; specialize (ML g Hg); lra).
      specialize (X H0 (Qle_refl 0)). lra. }
    pose proof (Qeq_bool_spec (qmax_list (map gpair (cpairs_from x x t))) 0) as Hz.
    destruct (Qeq_bool (qmax_list (map gpair (cpairs_from x x t))) 0); [lra|].
    unfold sector_spec_sorted. rewrite EM. reflexivity.
  - (* all equal: every gap is 0 *)
    assert (Hall : forall q, In q (x :: t) -> q == x).
    { intros q Hq. pose proof (x_le_all x t Hs q Hq). pose proof (all_le_lst x t Hs q Hq). lra. }
    rewrite <- (sector_core_v1_spec_eq x t Hs Hr L).
    assert (Z1 : sector_core_v1 (x :: t) == 0).
    { rewrite (sector_core_v1_spec_eq x t Hs Hr L). unfold sector_spec_sorted. simpl cgaps.
      destruct (gaps_all_equal x x t x (Qeq_refl x) Hall) as [I1 I2].
      assert (N : gaps_from x x t <> []) by (destruct t; simpl; discriminate).
      destruct (qmax_list_spec _ N) as [MI ML]. pose proof (ML _ I1) as G. pose proof (Hall _ (last_in x t)) as El.
      destruct (I2 _ MI) as [Z|Z]; lra. }
    rewrite Z1.
    assert (N : map gpair (cpairs_from x x t) <> []) by (destruct t; simpl; discriminate).
    destruct (qmax_list_spec _ N) as [MI _]. apply in_map_iff in MI. destruct MI as [p [E Hp]].
    destruct (cps_in_d x t Hs Hr p Hp) as [Ia Ib].
    assert (Z : qmax_list (map gpair (cpairs_from x x t)) == 0).
    { rewrite <- E. unfold gpair. rewrite (Hall _ Ia), (Hall _ Ib). apply cw_self. }
    pose proof (Qeq_bool_spec (qmax_list (map gpair (cpairs_from x x t))) 0) as Hz.
    destruct (Qeq_bool (qmax_list (map gpair (cpairs_from x x t))) 0); [reflexivity | contradiction].
Qed.

(* the code-faithful model of the sector routine equals 360 minus the largest circular gap *)
Theorem sector_code_eq_spec (l : list Q) : l <> [] -> sector_x false (fins l) =x= XFin (sector_spec l).
Proof.
  intro N. unfold sector_x, sector_spec.
  assert (F : finite_qs (fins l) = l) by (clear N; induction l as [|a r IH]; simpl; [reflexivity | f_equal; exact IH]).
  assert (B : nbad (fins l) = O) by (clear N F; unfold nbad; induction l; simpl; auto).
  rewrite F, B. simpl Nat.ltb.
  assert (Nd : qsort (map qmod360 l) <> []) by (apply qsort_nonempty; destruct l; simpl; congruence).
  destruct (qsort (map qmod360 l)) as [|x t] eqn:E; [congruence|]. cbn [xeq]. rewrite <- E.
  apply sector_core_spec_sorted; [rewrite E; discriminate | apply qsort_sorted | apply in_range_mods].
Qed.
