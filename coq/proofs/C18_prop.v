(* proofs/C18_prop.v -- proportion exceeding on arrays, and selections. *)
From V Require Import lib.Tree gen.Gen_functions model.C18 proofs.C18.
Open Scope string_scope.
Open Scope list_scope.

(* the gathered dims to reduce are dims of the data *)
Lemma dsubset_mem_all l all : dsubset l all = true -> forall d, mem d l = true -> mem d all = true.
Proof. intros H d Hd. eapply dsubset_mem; eauto. Qed.
Lemma dunion_self a d : mem d (dunion a a) = mem d a.
Proof. rewrite mem_dunion. destruct (mem d a); reflexivity. Qed.

Lemma gather_subset dims rd pd R : gather dims dims None rd pd DNone = Ok R -> forall d, mem d R = true -> mem d dims = true.
Proof.
  unfold gather. destruct pd as [|ps|pl], rd as [|rs|rl]; cbn [is_none negb andb truthy is_all as_list]; intros H d Hd; try discriminate.
  all: repeat match type of H with context [if ?c then _ else _] => let E := fresh "E" in destruct c eqn:E end; try discriminate.
  all: inversion H; subst; clear H.
  all: try (rewrite dunion_self in Hd; exact Hd).
  all: try (rewrite mem_ddiff, dunion_self in Hd; apply andb_true_iff in Hd; tauto).
  all: try (simpl in Hd; discriminate).
  all: rewrite <- dunion_self.
  all: match goal with
       | E : _ && negb (dsubset ?l ?U) = false |- _ =>
         assert (S : dsubset l U = true) by (destruct (dsubset l U); [reflexivity | simpl in E; discriminate])
       | E : negb (dsubset ?l ?U) = false |- _ =>
         assert (S : dsubset l U = true) by (destruct (dsubset l U); [reflexivity | simpl in E; discriminate])
       end.
  all: try (apply (dsubset_mem_all _ _ S); exact Hd).
Qed.

(* environments produced by `envs` only change the enumerated dims *)
Lemma envs_untouched size R : forall e e' d, In e' (envs size R e) -> mem d R = false -> e' d = e d.
Proof. induction R as [|r R IH]; intros e e' d H Hm; simpl in H.
  - destruct H as [<-|[]]. reflexivity.
  - apply in_flat_map in H. destruct H as [n [_ H]]. simpl in Hm. apply orb_false_iff in Hm. destruct Hm as [Hr Hm].
    rewrite (IH _ _ d H Hm). unfold upd. rewrite Hr. reflexivity. Qed.
Lemma envs_size_ext size size' R : (forall d, mem d R = true -> size d = size' d) -> forall e, envs size R e = envs size' R e.
Proof. induction R as [|r R IH]; intros H e; simpl; [reflexivity|].
  rewrite (H r) by (simpl; rewrite String.eqb_refl; reflexivity).
  apply flat_map_ext. intro n. apply IH. intros d Hd. apply H. simpl. rewrite Hd. apply orb_true_r. Qed.

Lemma dinter_app a b R : dinter (a ++ b) R = dinter a R ++ dinter b R.
Proof. unfold dinter. apply filter_app. Qed.

Lemma proportion_array_spec a thr rd pd r : proportion_exceeding_m a thr rd pd = Ok r ->
  exists R, gather (ldims a) (ldims a) None rd pd DNone = Ok R /\
    forall e t, nth (e "threshold") thr XNaN = XFin t ->
      lget r e =x= prop_ge_spec (map (lget a) (envs (lsize a) (dinter (ldims a) R) e)) t.
Proof.
  unfold proportion_exceeding_m. destruct (mem "threshold" (ldims a)) eqn:Em; simpl; [discriminate|].
  destruct (negb (thr_monotone thr)); simpl; [discriminate|].
  destruct (gather (ldims a) (ldims a) None rd pd DNone) as [R|] eqn:Eg; simpl; [|discriminate].
  intro H; inversion H; subst; clear H. exists R. split; [reflexivity|]. intros e t Ht.
  assert (HR : mem "threshold" R = false).
  { destruct (mem "threshold" R) eqn:E; [|reflexivity]. rewrite (gather_subset _ _ _ _ Eg _ E) in Em. discriminate. }
  simpl lget. simpl ldims. rewrite dinter_app.
  assert (E0 : dinter ["threshold"] R = []) by (unfold dinter; cbn [filter]; rewrite HR; reflexivity).
  rewrite E0, app_nil_r.
  set (R' := dinter (ldims a) R).
  assert (HR' : mem "threshold" R' = false) by (unfold R'; rewrite mem_dinter, Em; reflexivity).
  rewrite (envs_size_ext _ (lsize a) R').
  2:{ intros d Hd. destruct (String.eqb_spec d "threshold") as [->|N]; [rewrite HR' in Hd; discriminate | reflexivity]. }
  rewrite <- proportion_list_spec. rewrite map_map.
  assert (Emap : map (fun e' => exceed (lget a e') (nth (e' "threshold") thr XNaN)) (envs (lsize a) R' e) =
                 map (fun e' => exceed (lget a e') (XFin t)) (envs (lsize a) R' e)).
  { apply map_ext_in. intros e' He'. rewrite (envs_untouched _ _ _ _ _ He' HR'), Ht. reflexivity. }
  rewrite Emap. reflexivity.
Qed.

(* selections: positions of the requested labels, KeyError when a label is absent *)
Lemma zindex_spec labels v : forall i k, zindex labels v i = Some k -> (i <= k)%nat /\ nth_error labels (k - i) = Some v.
Proof. induction labels as [|x t IH]; intros i k H; simpl in H; [discriminate|].
  destruct (Z.eqb_spec x v) as [->|N].
  - inversion H; subst. split; [lia|]. rewrite Nat.sub_diag. reflexivity.
  - destruct (IH _ _ H) as [L E]. split; [lia|]. replace (k - i)%nat with (S (k - S i)) by lia. exact E. Qed.
Lemma sel_positions_spec labels vals pos : sel_positions labels vals = Ok pos ->
  Forall2 (fun v i => nth_error labels i = Some v) vals pos.
Proof. revert pos. induction vals as [|v t IH]; intros pos H; simpl in H.
  - inversion H. constructor.
  - destruct (zindex labels v 0) as [i|] eqn:E; [|discriminate].
    destruct (sel_positions labels t) as [r|] eqn:Er; simpl in H; [|discriminate]. inversion H; subst.
    constructor; [|apply IH; reflexivity]. destruct (zindex_spec _ _ _ _ E) as [_ X]. rewrite Nat.sub_0_r in X. exact X. Qed.
Lemma sel_positions_absent labels vals : (exists v, In v vals /\ ~ In v labels) -> sel_positions labels vals = Err KeyError.
Proof. intros [v [Hv Hn]]. induction vals as [|a t IH]; [destruct Hv|]. simpl.
  destruct (zindex labels a 0) as [i|] eqn:E.
  - destruct Hv as [->|Hv].
    + exfalso. apply Hn. destruct (zindex_spec _ _ _ _ E) as [_ X]. apply nth_error_In in X. exact X.
    + rewrite (IH Hv). reflexivity.
  - reflexivity. Qed.
(* the selected array holds, at position k of the sampling dim, the value at the k-th selected position *)
Lemma lselect_get a sd pos e : lget (lselect a sd pos) e = lget a (upd e sd (nth (e sd) pos O)).
Proof. reflexivity. Qed.

(* the array functions apply the sequence functions along the sampling / collapsed dimension *)
Lemma ff_array_get a sd ang r : ff_array a sd ang = Ok r ->
  forall e, lget r e = ff_seq ang (map (lget a) (envs (lsize a) (dinter (ldims a) [sd]) e)).
Proof. unfold ff_array. destruct (check_dims (ldims a) (DList [sd]) MSuperset); simpl; [|discriminate]. intro H; inversion H; subst. reflexivity. Qed.
Lemma sector_array_get a keep skipna r : sector_array a keep skipna = Ok r ->
  exists d, ddiff (ldims a) keep = [d] /\ forall e, lget r e = sector_x skipna (map (lget a) (envs (lsize a) (dinter (ldims a) [d]) e)).
Proof. unfold sector_array. destruct (check_dims (ldims a) (DList keep) MProperSuperset); simpl; [|discriminate].
  destruct (ddiff (ldims a) keep) as [|d [|d' r']]; try discriminate. intro H; inversion H; subst. exists d. split; reflexivity. Qed.
