(* proofs/C10_QR.v -- Q2R bridging helpers (comparisons, arithmetic) shared by C10_RIntQ.v and C11_RInt.v.
   Depends on the Reals; not required by any model file. *)
From Coq Require Import Reals Qreals.
From V Require Import lib.Xval.
From Coq Require Import Lra.

(* ---- comparisons ---- *)
Lemma Qltb_R u v : if Qltb u v then (Q2R u < Q2R v)%R else (Q2R v <= Q2R u)%R.
Proof. pose proof (Qltb_spec u v). destruct (Qltb u v); [apply Qlt_Rlt | apply Qle_Rle]; auto. Qed.
Lemma Qleb_R u v : if Qle_bool u v then (Q2R u <= Q2R v)%R else (Q2R v < Q2R u)%R.
Proof. pose proof (Qle_bool_spec u v). destruct (Qle_bool u v); [apply Qle_Rle | apply Qlt_Rlt]; auto. Qed.

Lemma Q2R_nz q : ~ q == 0 -> (Q2R q <> 0)%R.
Proof. intros H E. apply H. apply eqR_Qeq. rewrite E. symmetry. apply RMicromega.Q2R_0. Qed.

(* push Q2R through the arithmetic of a goal; side conditions (non-zero denominators) by Lqa *)
Ltac q2r := repeat first
  [ rewrite Q2R_plus | rewrite Q2R_minus | rewrite Q2R_mult | rewrite Q2R_opp
  | rewrite Q2R_div by Lqa.lra | rewrite Q2R_inv by Lqa.lra ].
Ltac qconst := repeat match goal with |- context [Q2R (?n # ?d)] => 
    let v := fresh "c" in let E := fresh "Ec" in
    remember (Q2R (n # d)) as v eqn:E; unfold Q2R in E; simpl in E end.
(* case-split every rational comparison against its real counterpart *)
Ltac qrdec := repeat match goal with
  | |- context [Qltb ?u ?v] => let H := fresh "Hq" in pose proof (Qltb_R u v) as H; destruct (Qltb u v)
  | |- context [Qle_bool ?u ?v] => let H := fresh "Hq" in pose proof (Qleb_R u v) as H; destruct (Qle_bool u v)
  end;
  repeat match goal with
  | |- context [Rlt_dec ?u ?v] => destruct (Rlt_dec u v)
  | |- context [Rle_dec ?u ?v] => destruct (Rle_dec u v) end.
Ltac fin := q2r; qconst; subst; try lra; try (field; lra).

