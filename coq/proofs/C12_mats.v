(* proofs/C12_mats.v -- weight matrices: orientation (rows in decreasing probability) and the
   warning-scaling algorithm. *)
From Coq Require Import Sorting.Sorted Sorting.Permutation.
From V Require Import lib.Tree model.C12.

(* ---------------- insertion sort, descending ---------------- *)
Lemma insert_desc_perm x l : Permutation (insert_desc x l) (x :: l).
Proof. induction l as [|y t IH]; simpl; auto. destruct (Qle_bool y x); auto.
  rewrite IH. apply perm_swap. Qed.
Lemma sort_desc_perm l : Permutation (sort_desc l) l.
Proof. induction l as [|x t IH]; simpl; auto. rewrite insert_desc_perm. auto. Qed.

Definition ge_rel (a b : Q) : Prop := b <= a.
Lemma insert_desc_sorted x l : StronglySorted ge_rel l -> StronglySorted ge_rel (insert_desc x l).
Proof.
  intro H. induction H as [|y t Hs IH Hall]; simpl. repeat constructor.
  pose proof (Qle_bool_spec y x) as Hc. destruct (Qle_bool y x).
  - constructor. constructor; auto. constructor; auto.
    eapply Forall_impl; [|exact Hall]. unfold ge_rel. intros z Hz. lra.
  - constructor; auto. rewrite Forall_forall. intros z Hz.
    apply (Permutation_in _ (insert_desc_perm x t)) in Hz. destruct Hz as [<-|Hz].
    unfold ge_rel; lra. rewrite Forall_forall in Hall. auto.
Qed.
Lemma sort_desc_sorted l : StronglySorted ge_rel (sort_desc l).
Proof. induction l; simpl. constructor. apply insert_desc_sorted. auto. Qed.

(* ---------------- matrix_weights_to_array ---------------- *)
Lemma fold_max_ge x t y : In y (x :: t) -> y <= fold_right (fun a b => if Qle_bool a b then b else a) x t.
Proof. intros H. induction t as [|z t IH]; simpl in *.
  - destruct H as [E|[]]. rewrite E. lra.
  - set (F := fold_right (fun a b => if Qle_bool a b then b else a) x t) in *. pose proof (Qle_bool_spec z F) as Hc.
    destruct H as [E|[E|H]].
    + assert (y <= F) by (apply IH; auto). destruct (Qle_bool z F); lra.
    + rewrite <- E. destruct (Qle_bool z F); lra.
    + assert (y <= F) by (apply IH; auto). destruct (Qle_bool z F); lra.
Qed.
Lemma fold_min_le x t y : In y (x :: t) -> fold_right (fun a b => if Qle_bool a b then a else b) x t <= y.
Proof. intros H. induction t as [|z t IH]; simpl in *.
  - destruct H as [E|[]]. rewrite E. lra.
  - set (F := fold_right (fun a b => if Qle_bool a b then a else b) x t) in *. pose proof (Qle_bool_spec z F) as Hc.
    destruct H as [E|[E|H]].
    + assert (F <= y) by (apply IH; auto). destruct (Qle_bool z F); lra.
    + rewrite <- E. destruct (Qle_bool z F); lra.
    + assert (F <= y) by (apply IH; auto). destruct (Qle_bool z F); lra.
Qed.
Lemma probs_ok ps : probs_bad ps = false -> Forall (fun p => 0 < p < 1) ps.
Proof. unfold probs_bad, qmaxl, qminl. destruct ps as [|x t]; [discriminate|]. intro H.
  apply orb_false_elim in H. destruct H as [H1 H2].
  rewrite Forall_forall. intros y Hy. pose proof (fold_max_ge x t y Hy). pose proof (fold_min_le x t y Hy).
  pose proof (Qle_bool_spec 1 (fold_right (fun a b => if Qle_bool a b then b else a) x t)) as A. rewrite H1 in A.
  pose proof (Qle_bool_spec (fold_right (fun a b => if Qle_bool a b then a else b) x t) 0) as B. rewrite H2 in B. lra.
Qed.

(* matrix_rows_decreasing_prob: the result keeps the rows untouched and attaches them, in order, to the
   probability thresholds sorted in decreasing order (a permutation of the given ones, all in (0,1)) *)
Lemma mwa_ok {A} (M : list (list A)) n ps cs M' :
  mwa_m M n ps = Ok (cs, M') ->
  M' = M /\ StronglySorted ge_rel cs /\ Permutation cs ps /\ length cs = length M /\
  Forall (fun r => length r = n) M /\ Forall (fun p => 0 < p < 1) cs.
Proof.
  unfold mwa_m, guard. destruct (Nat.eqb (length M) (length ps)) eqn:E1; simpl; [|discriminate].
  destruct (forallb _ M) eqn:E2; simpl; [|discriminate].
  destruct (probs_bad ps) eqn:E3; simpl; [discriminate|]. intro H. inversion H; subst. clear H.
  apply Nat.eqb_eq in E1. split; auto. split. apply sort_desc_sorted. split. apply sort_desc_perm.
  split. rewrite (Permutation_length (sort_desc_perm ps)). auto.
  split. rewrite forallb_forall in E2. rewrite Forall_forall. intros r Hr. apply Nat.eqb_eq. auto.
  pose proof (probs_ok ps E3) as Hp. rewrite Forall_forall in *. intros p Hp'. apply Hp.
  apply (Permutation_in _ (sort_desc_perm ps)). auto.
Qed.

(* ---------------- _scaling_to_weight_matrix: code vs specification ---------------- *)
Lemma first_ge_lt l lvl k : first_ge l lvl = Some k -> (k < length l)%nat.
Proof. revert k. induction l as [|x t IH]; simpl; [discriminate|]. intros k. destruct (lvl <=? x)%Z.
  intro H; inversion H; lia. destruct (first_ge t lvl); simpl; [|discriminate]. intro H; inversion H. specialize (IH n eq_refl). lia. Qed.
Lemma argmax_ge_bound l lvl : (argmax_ge l lvl <= length l - 1)%nat.
Proof. unfold argmax_ge. destruct (first_ge l lvl) eqn:E; [|lia]. apply first_ge_lt in E. lia. Qed.

(* two initial values that both exceed every possible crossover index give the same placements *)
Lemma level_fold_init M aw level cols (B : nat) :
  (forall c, argmax_ge (rev (colz M c)) (Z.of_nat level) <= B)%nat ->
  forall l1 l2 acc, (l1 = l2 \/ (B < l1 /\ B < l2))%nat ->
  snd (fold_left (level_step M aw level) cols (l1, acc)) = snd (fold_left (level_step M aw level) cols (l2, acc)).
Proof.
  intros HB. induction cols as [|c r IH]; intros l1 l2 acc H; simpl; auto.
  destruct H as [->|[H1 H2]]; auto.
  specialize (HB c). set (pi := argmax_ge (rev (colz M c)) (Z.of_nat level)) in *.
  assert (E1 : (l1 <=? pi)%nat = false) by (apply Nat.leb_gt; lia).
  assert (E2 : (l2 <=? pi)%nat = false) by (apply Nat.leb_gt; lia).
  rewrite E1, E2. destruct (0 <? pi)%nat; apply IH; auto.
Qed.

Lemma scaling_code_eq_spec M aw :
  M <> [] -> (length M - 1 <= max_level M aw)%nat -> scaling_to_wm M aw = scaling_to_wm_spec M aw.
Proof.
  intros Hne H. unfold scaling_to_wm, scaling_to_wm_spec, scaling_to_wm_with.
  assert (E : placements (max_level M aw + 1) M aw = placements (length M) M aw).
  { unfold placements. apply flat_map_ext. intro level.
    apply level_fold_init with (B := (length M - 1)%nat).
    - intro c. pose proof (argmax_ge_bound (rev (colz M c)) (Z.of_nat level)) as Hb.
      unfold colz in Hb. rewrite rev_length, map_length in Hb. exact Hb.
    - right. destruct M; [congruence|]. simpl in *. lia. }
  rewrite E. reflexivity.
Qed.

(* ... and without that hypothesis the code is NOT the specification: with 2 probability thresholds, one warning
   level and one assessment weight, the weight of the only decision point is dropped although every documented
   check passes; appending an assessment weight for a level that never occurs changes the result *)
Definition M_wit : list (list Z) := [[0; 1]; [0; 0]; [0; 0]]%Z.
Lemma scaling_spec_refuted :
  (exists r, wfs_m true M_wit [1] [1#4; 1#2] 1 = Ok r) /\
  wfs_m false M_wit [1] [1#4; 1#2] 1 = Ok ([1#2; 1#4], [[0]; [0]]) /\
  wfs_m true M_wit [1] [1#4; 1#2] 1 = Ok ([1#2; 1#4], [[1 + 0]; [0]]).
Proof. split; [eexists|split]; vm_compute; reflexivity. Qed.
Lemma scaling_depends_on_unused_weight :
  scaling_to_wm M_wit [1] = [[0]; [0]] /\ scaling_to_wm M_wit [1; 5] = [[1 + 0]; [0]].
Proof. split; vm_compute; reflexivity. Qed.
