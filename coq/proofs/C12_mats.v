(* proofs/C12_mats.v -- weight matrices: orientation (rows in decreasing probability) and the
   warning-scaling algorithm. *)
From Coq Require Import Sorting.Sorted Sorting.Permutation.
From V Require Import lib.Tree model.C12.

(* ---------------- insertion sort, descending ---------------- *)
Lemma insert_desc_perm x l : Permutation (insert_desc x l) (x :: l).
Proof. induction l as [|y t IH]; simpl; auto. destruct (Qle_bool y x); auto.
  rewrite IH. apply perm_swap. Qed.
Lemma sort_desc_perm l : Permutation (sort_desc l) l.
Proof. induction l as [|x t IH]; simpl; auto. rewrite insert_desc_perm. auto. Qed.

Definition ge_rel (a b : Q) : Prop := b <= a.
Lemma insert_desc_sorted x l : StronglySorted ge_rel l -> StronglySorted ge_rel (insert_desc x l).
Proof.
  intro H. induction H as [|y t Hs IH Hall]; simpl. repeat constructor.
  pose proof (Qle_bool_spec y x) as Hc. destruct (Qle_bool y x).
  - constructor. constructor; auto. constructor; auto.
    eapply Forall_impl; [|exact Hall]. unfold ge_rel. intros z Hz. lra.
  - constructor; auto. rewrite Forall_forall. intros z Hz.
    apply (Permutation_in _ (insert_desc_perm x t)) in Hz. destruct Hz as [<-|Hz].
    unfold ge_rel; lra. rewrite Forall_forall in Hall. auto.
Qed.
Lemma sort_desc_sorted l : StronglySorted ge_rel (sort_desc l).
Proof. induction l; simpl. constructor. apply insert_desc_sorted. auto. Qed.

(* ---------------- matrix_weights_to_array ---------------- *)
Lemma fold_max_ge x t y : In y (x :: t) -> y <= fold_right (fun a b => if Qle_bool a b then b else a) x t.
Proof. intros H. induction t as [|z t IH]; simpl in *.
  - destruct H as [E|[]]. rewrite E. lra.
  - set (F := fold_right (fun a b => if Qle_bool a b then b else a) x t) in *. pose proof (Qle_bool_spec z F) as Hc.
    destruct H as [E|[E|H]].
    + assert (y <= F) by (apply IH; auto). destruct (Qle_bool z F); lra.
    + rewrite <- E. destruct (Qle_bool z F); lra.
    + assert (y <= F) by (apply IH; auto). destruct (Qle_bool z F); lra.
Qed.
Lemma fold_min_le x t y : In y (x :: t) -> fold_right (fun a b => if Qle_bool a b then a else b) x t <= y.
Proof. intros H. induction t as [|z t IH]; simpl in *.
  - destruct H as [E|[]]. rewrite E. lra.
  - set (F := fold_right (fun a b => if Qle_bool a b then a else b) x t) in *. pose proof (Qle_bool_spec z F) as Hc.
    destruct H as [E|[E|H]].
    + assert (F <= y) by (apply IH; auto). destruct (Qle_bool z F); lra.
    + rewrite <- E. destruct (Qle_bool z F); lra.
    + assert (F <= y) by (apply IH; auto). destruct (Qle_bool z F); lra.
Qed.
Lemma probs_ok ps : probs_bad ps = false -> Forall (fun p => 0 < p < 1) ps.
Proof. unfold probs_bad, qmaxl, qminl. destruct ps as [|x t]; [discriminate|]. intro H.
  apply orb_false_elim in H. destruct H as [H1 H2].
  rewrite Forall_forall. intros y Hy. pose proof (fold_max_ge x t y Hy). pose proof (fold_min_le x t y Hy).
  pose proof (Qle_bool_spec 1 (fold_right (fun a b => if Qle_bool a b then b else a) x t)) as A. rewrite H1 in A.
  pose proof (Qle_bool_spec (fold_right (fun a b => if Qle_bool a b then a else b) x t) 0) as B. rewrite H2 in B. lra.
Qed.

(* matrix_rows_decreasing_prob: the result keeps the rows untouched and attaches them, in order, to the
   probability thresholds sorted in decreasing order (a permutation of the given ones, all in (0,1)) *)
Lemma mwa_ok {A} (M : list (list A)) n ps cs M' :
  mwa_m M n ps = Ok (cs, M') ->
  M' = M /\ StronglySorted ge_rel cs /\ Permutation cs ps /\ length cs = length M /\
  Forall (fun r => length r = n) M /\ Forall (fun p => 0 < p < 1) cs.
Proof.
  unfold mwa_m, guard. destruct (Nat.eqb (length M) (length ps)) eqn:E1; simpl; [|discriminate].
  destruct (forallb _ M) eqn:E2; simpl; [|discriminate].
  destruct (probs_bad ps) eqn:E3; simpl; [discriminate|]. intro H. inversion H; subst. clear H.
  apply Nat.eqb_eq in E1. split; auto. split. apply sort_desc_sorted. split. apply sort_desc_perm.
  split. rewrite (Permutation_length (sort_desc_perm ps)). auto.
  split. rewrite forallb_forall in E2. rewrite Forall_forall. intros r Hr. apply Nat.eqb_eq. auto.
  pose proof (probs_ok ps E3) as Hp. rewrite Forall_forall in *. intros p Hp'. apply Hp.
  apply (Permutation_in _ (sort_desc_perm ps)). auto.
Qed.

(* ---------------- regression witness of the repaired initialisation (commit 73a32af in /repo) ---------------- *)
Definition M_wit : list (list Z) := [[0; 1]; [0; 0]; [0; 0]]%Z.
Lemma scaling_witness :
  wfs_m false M_wit [1] [1#4; 1#2] 1 = Ok ([1#2; 1#4], [[1 + 0]; [0]]) /\
  scaling_to_wm M_wit [1] = scaling_to_wm M_wit [1; 5].
Proof. split; vm_compute; reflexivity. Qed.
