(* proofs/C08.v -- lemmas behind the C08 theorems: discretisation relations with tolerance, NaN mask,
   complements, spellings; event tables respect any threshold; contingency counts partition the
   valid pairs, equal direct counting and are additive over a kept dimension. *)
From V Require Import lib.Tree lib.C08_aux gen.Gen_C08_discretise gen.Gen_C08_contingency model.C08.
From Coq Require Import Permutation.

(* ------------------------------------------------------------------------------------------ *)
(* tactics                                                                                     *)
(* ------------------------------------------------------------------------------------------ *)
(* replace every |z| by a variable a with  (0 <= z /\ a == z) \/ (z <= 0 /\ a == -z)  and split *)
Ltac qabs :=
  repeat match goal with
  | |- context [Qabs ?z] =>
      let H := fresh "Habs" in let a := fresh "a" in
      assert (H : (0 <= z /\ Qabs z == z) \/ (z <= 0 /\ Qabs z == - z))
        by (apply (Qabs_case z (fun a => (0 <= z /\ a == z) \/ (z <= 0 /\ a == - z))); intro; [left | right]; split; auto; reflexivity);
      set (a := Qabs z) in *; clearbody a; destruct H as [[? ?] | [? ?]]
  end.
(* split the equality tests first (they may sit inside an absolute value), then simplify the exposed conditionals *)
Ltac qeq_first :=
  repeat match goal with
  | |- context [Qeq_bool ?u ?v] =>
      let H := fresh "Hc" in pose proof (Qeq_bool_spec u v) as H; destruct (Qeq_bool u v)
  end;
  cbn -[Qle_bool Qeq_bool Qmult Qplus Qminus Qopp Qabs].
Ltac kernel_unfold :=
  unfold gen_comparative_discretise, gen_inequality_modes, gen_equality_modes, discretise_spec, rel_holdsb;
  cbn [mode_lookup assoc mode_name mode_is mode_in op_of_mode existsb cmpop_eqb orb andb negb String.eqb Ascii.eqb Bool.eqb
       xisnan apply_op].

Definition all_modes : list pmode := flat_map (fun r => [MStr (mode_name r); MOp r]) all_ops.

(* ------------------------------------------------------------------------------------------ *)
(* the six relations                                                                           *)
(* ------------------------------------------------------------------------------------------ *)
Lemma rel_holdsb_spec r x c tol : rel_holdsb r x c tol = true <-> rel_holds r x c tol.
Proof.
  destruct r; unfold rel_holdsb, rel_holds, Qltb;
  rewrite ?orb_true_iff, ?andb_true_iff, ?negb_true_iff, ?Qle_bool_iff; try tauto;
  repeat match goal with |- context [Qle_bool ?a ?b = false] =>
    let H := fresh in assert (H : Qle_bool a b = false <-> b < a)
      by (pose proof (Qle_bool_spec a b); destruct (Qle_bool a b); split; intros; auto; try discriminate; exfalso; lra);
    rewrite H; clear H end; tauto.
Qed.

(* every spelling of relation r computes the specification, for every tolerance >= 0 *)
Lemma discretise_ok r x c tol m : 0 <= tol -> In m [MStr (mode_name r); MOp r] ->
  gen_comparative_discretise (XFin x) (XFin c) m (XFin tol) = Some (discretise_spec r (XFin x) (XFin c) tol).
Proof.
  intros Ht [<- | [<- | []]]; destruct r; kernel_unfold; xunf;
  cbn -[Qle_bool Qeq_bool Qmult Qplus Qminus Qopp Qabs]; unfold Qminus; do 2 f_equal;
  qeq_first; qabs; qcmp; cbn; auto; exfalso; lra.
Qed.

(* the specification in words: 1 iff the relation holds, 0 iff it does not (finite values) *)
Lemma discretise_one_iff r x c tol : discretise_spec r (XFin x) (XFin c) tol = XFin 1 <-> rel_holds r x c tol.
Proof. unfold discretise_spec. rewrite <- rel_holdsb_spec. destruct (rel_holdsb r x c tol); simpl; split; intros; auto; discriminate. Qed.
Lemma discretise_zero_iff r x c tol : discretise_spec r (XFin x) (XFin c) tol = XFin 0 <-> ~ rel_holds r x c tol.
Proof. unfold discretise_spec. rewrite <- rel_holdsb_spec. destruct (rel_holdsb r x c tol); simpl; split; intros; auto; try discriminate.
 exfalso; auto. Qed.

Lemma b2x_not_nan b : b2x b <> XNaN.
Proof. destruct b; discriminate. Qed.

(* NaN exactly where data or comparison is NaN: every valid spelling, every value (infinities included), every tolerance *)
Lemma discretise_nan_iff m d c tol : In m all_modes ->
  (gen_comparative_discretise d c m tol = Some XNaN <-> d = XNaN \/ c = XNaN).
Proof.
  intro Hm. unfold all_modes, all_ops in Hm. cbn [flat_map app mode_name] in Hm.
  repeat (destruct Hm as [<- | Hm]); try contradiction; kernel_unfold;
  (destruct d as [|x|s]; destruct c as [|y|t]; cbn [xisnan negb andb xwhere];
   (split;
    [ intro H; try (left; reflexivity); try (right; reflexivity); exfalso; inversion H as [H1]; exact (b2x_not_nan _ H1)
    | intros [H | H]; try discriminate; reflexivity ])).
Qed.

(* ... and never an error for a valid spelling; always one for anything else *)
Lemma valid_mode_iff m : valid_mode m = true <-> In m all_modes.
Proof.
  unfold valid_mode, all_modes, all_ops. cbn [flat_map app mode_name]. split.
  - destruct m as [s | o].
    + kernel_unfold.
      repeat match goal with |- context [String.eqb s ?k] => destruct (String.eqb_spec s k); [subst; intros _; simpl; tauto |] end.
      cbn. discriminate.
    + destruct o; intros _; simpl; tauto.
  - intro H. repeat (destruct H as [<- | H]); try contradiction; reflexivity.
Qed.
Lemma invalid_mode_none m d c tol : ~ In m all_modes -> gen_comparative_discretise d c m tol = None.
Proof.
  intro H. destruct m as [s | o].
  - kernel_unfold. unfold all_modes, all_ops in H. cbn [flat_map app mode_name] in H.
    repeat match goal with |- context [String.eqb s ?k] => destruct (String.eqb_spec s k); [subst; exfalso; apply H; simpl; tauto |] end.
    reflexivity.
  - exfalso. apply H. destruct o; simpl; tauto.
Qed.
Lemma valid_mode_some m d c tol : In m all_modes -> exists v, gen_comparative_discretise d c m tol = Some v.
Proof.
  intro Hm. unfold all_modes, all_ops in Hm. cbn [flat_map app mode_name] in Hm.
  repeat (destruct Hm as [<- | Hm]); try contradiction; kernel_unfold; eexists; reflexivity.
Qed.

(* string and operator spelling are the same function *)
Lemma spellings_agree r d c tol :
  gen_comparative_discretise d c (MStr (mode_name r)) tol = gen_comparative_discretise d c (MOp r) tol.
Proof. destruct r; reflexivity. Qed.

(* complementary relations sum to one wherever neither input is NaN: all finite values, any finite tolerance;
   for the four inequalities also infinite data / thresholds *)
Lemma complement_finite r x c tol m m' :
  In m [MStr (mode_name r); MOp r] -> In m' [MStr (mode_name (complement r)); MOp (complement r)] ->
  exists a b, gen_comparative_discretise (XFin x) (XFin c) m (XFin tol) = Some a /\
              gen_comparative_discretise (XFin x) (XFin c) m' (XFin tol) = Some b /\ xadd a b =x= XFin 1.
Proof.
  intros [<- | [<- | []]] [<- | [<- | []]]; destruct r; kernel_unfold; cbn [complement mode_name]; kernel_unfold;
  do 2 eexists; (split; [reflexivity | split; [reflexivity |]]); xunf;
  cbn -[Qle_bool Qeq_bool Qmult Qplus Qminus Qopp Qabs]; qeq_first; qabs; qcmp; cbn; try reflexivity; try lra; exfalso; lra.
Qed.
Definition is_inequality (r : cmpop) : bool := match r with OpEq | OpNe => false | _ => true end.
Lemma complement_inequality_any r d c tol m m' : is_inequality r = true -> d <> XNaN -> c <> XNaN ->
  In m [MStr (mode_name r); MOp r] -> In m' [MStr (mode_name (complement r)); MOp (complement r)] ->
  exists a b, gen_comparative_discretise d c m (XFin tol) = Some a /\
              gen_comparative_discretise d c m' (XFin tol) = Some b /\ xadd a b =x= XFin 1.
Proof.
  intros Hr Hd Hc [<- | [<- | []]] [<- | [<- | []]]; destruct r; try discriminate; kernel_unfold; cbn [complement mode_name]; kernel_unfold;
  do 2 eexists; (split; [reflexivity | split; [reflexivity |]]);
  destruct d as [|x|[|]]; try congruence; destruct c as [|y|[|]]; try congruence; xunf;
  cbn -[Qle_bool Qeq_bool Qmult Qplus Qminus Qopp Qabs]; qcmp; cbn; try reflexivity; try lra; exfalso; lra.
Qed.
(* the tolerance guard: None -> 0, a negative number -> ValueError, anything else unchanged *)
Lemma tolerance_guard_spec (t : option xv) :
  gen_discretise_tolerance t =
  match t with None => Ok (XFin 0) | Some (XFin q) => if Qltb q 0 then Err ValueError else Ok (XFin q)
             | Some (XInf false) => Err ValueError | Some v => Ok v end.
Proof. destruct t as [[|q|[|]]|]; reflexivity. Qed.

(* ------------------------------------------------------------------------------------------ *)
(* event tables                                                                                *)
(* ------------------------------------------------------------------------------------------ *)
Definition event_of (op : cmpop) (t v : xv) : xv := xwhere (negb (xisnan v)) (b2x (apply_op op v t)).

(* the operator honours ANY given threshold (0, negative, infinite ... included) and operator; the defaults are
   used exactly when the argument is None *)
Lemma events_respect_threshold dt dop f o t op :
  gen_make_contingency_manager dt dop f o (Some t) (Some op) = (event_of op t f, event_of op t o).
Proof. reflexivity. Qed.
Lemma events_fallback dt dop f o t op :
  gen_make_contingency_manager dt dop f o t op =
  let t' := match t with Some v => v | None => dt end in
  let op' := match op with Some v => v | None => dop end in
  (event_of op' t' f, event_of op' t' o).
Proof. destruct t, op; reflexivity. Qed.
(* the constructor keeps the defaults it is given (0 included); only a missing argument takes the documented default *)
Lemma constructor_keeps_defaults (t : xv) (op : cmpop) :
  gen_init_event_threshold (Some t) = t /\ gen_init_op_fn (Some op) = op /\
  gen_init_event_threshold None = XFin (1 # 1000) /\ gen_init_op_fn None = OpGe.
Proof. repeat split; reflexivity. Qed.
Lemma event_tables_same dt dop f o t op :
  gen_make_event_tables dt dop f o t op = gen_make_contingency_manager dt dop f o t op.
Proof. destruct t, op; reflexivity. Qed.
(* an event value is 1, 0 or NaN; NaN exactly for a NaN input *)
Lemma event_of_cases op t v :
  (v = XNaN /\ event_of op t v = XNaN) \/ (v <> XNaN /\ event_of op t v = b2x (apply_op op v t)).
Proof. destruct v; [left | right | right]; split; try reflexivity; discriminate. Qed.

(* ------------------------------------------------------------------------------------------ *)
(* the four maps of a cell                                                                     *)
(* ------------------------------------------------------------------------------------------ *)
Definition cell_maps (op : cmpop) (t : xv) (c : cell) : xv * xv * xv * xv :=
  gen_contingency_maps (event_of op t (fst c)) (event_of op t (snd c)).

Lemma cell_maps_spec op t c :
  cell_maps op t c =
  if cvalid c then
    let ef := is_event op t (fst c) in let eo := is_event op t (snd c) in
    (b2x (ef && eo), b2x (negb ef && negb eo), b2x (ef && negb eo), b2x (negb ef && eo))
  else (XNaN, XNaN, XNaN, XNaN).
Proof.
  destruct c as [f o]. unfold cell_maps, cvalid, is_event, event_of. cbn [fst snd].
  destruct f as [|x|s]; destruct o as [|y|s']; cbn [xisnan negb xwhere xnotnull andb];
  repeat match goal with |- context [apply_op op ?a t] => destruct (apply_op op a t) end; reflexivity.
Qed.

(* ------------------------------------------------------------------------------------------ *)
(* counting                                                                                    *)
(* ------------------------------------------------------------------------------------------ *)
Lemma xofnat_S n : xofnat (S n) =x= xadd (XFin 1) (xofnat n).
Proof. unfold xofnat. cbn [xadd xeq]. rewrite Nat2Z.inj_succ. unfold Z.succ. rewrite inject_Z_plus. ring. Qed.
Lemma xofnat_add n m : xadd (xofnat n) (xofnat m) =x= xofnat (n + m).
Proof. unfold xofnat. cbn [xadd xeq]. rewrite Nat2Z.inj_add, inject_Z_plus. reflexivity. Qed.
Lemma nansum_cons_nan l : nansum (XNaN :: l) = nansum l.
Proof. reflexivity. Qed.
Lemma nansum_cons_fin q l : nansum (XFin q :: l) = xadd (XFin q) (nansum l).
Proof. reflexivity. Qed.

(* a map that is the 0/1 indicator of p on valid cells and NaN elsewhere sums (NaN-skipping) to the number of valid cells with p *)
Lemma nansum_indicator (m : cell -> xv) (p : cell -> bool) l :
  (forall c, m c = if cvalid c then b2x (p c) else XNaN) ->
  nansum (map m l) =x= xofnat (count_if (fun c => cvalid c && p c) l).
Proof.
  intro Hm. induction l as [|c l IH]. reflexivity.
  cbn [map]. rewrite Hm. unfold count_if in *. cbn [filter]. destruct (cvalid c); cbn [andb].
  - destruct (p c); cbn [b2x List.length].
    + rewrite nansum_cons_fin, xofnat_S, IH. reflexivity.
    + rewrite nansum_cons_fin, IH. destruct (xofnat _) eqn:E; try discriminate. unfold xofnat in E. inversion E. cbn. ring.
  - rewrite nansum_cons_nan. exact IH.
Qed.

Definition p_tp op t (c : cell) := is_event op t (fst c) && is_event op t (snd c).
Definition p_tn op t (c : cell) := negb (is_event op t (fst c)) && negb (is_event op t (snd c)).
Definition p_fp op t (c : cell) := is_event op t (fst c) && negb (is_event op t (snd c)).
Definition p_fn op t (c : cell) := negb (is_event op t (fst c)) && is_event op t (snd c).
Definition m_tp op t c := let '(a, _, _, _) := cell_maps op t c in a.
Definition m_tn op t c := let '(_, a, _, _) := cell_maps op t c in a.
Definition m_fp op t c := let '(_, _, a, _) := cell_maps op t c in a.
Definition m_fn op t c := let '(_, _, _, a) := cell_maps op t c in a.

(* each count equals direct counting, for every list of cells, threshold and operator *)
Lemma count_tp op t l : nansum (map (m_tp op t) l) =x= xofnat (count_if (fun c => cvalid c && p_tp op t c) l).
Proof. apply nansum_indicator. intro c. unfold m_tp. rewrite cell_maps_spec. destruct (cvalid c); reflexivity. Qed.
Lemma count_tn op t l : nansum (map (m_tn op t) l) =x= xofnat (count_if (fun c => cvalid c && p_tn op t c) l).
Proof. apply nansum_indicator. intro c. unfold m_tn. rewrite cell_maps_spec. destruct (cvalid c); reflexivity. Qed.
Lemma count_fp op t l : nansum (map (m_fp op t) l) =x= xofnat (count_if (fun c => cvalid c && p_fp op t c) l).
Proof. apply nansum_indicator. intro c. unfold m_fp. rewrite cell_maps_spec. destruct (cvalid c); reflexivity. Qed.
Lemma count_fn op t l : nansum (map (m_fn op t) l) =x= xofnat (count_if (fun c => cvalid c && p_fn op t c) l).
Proof. apply nansum_indicator. intro c. unfold m_fn. rewrite cell_maps_spec. destruct (cvalid c); reflexivity. Qed.

Lemma count_partition op t l :
  (count_if (fun c => cvalid c && p_tp op t c) l + count_if (fun c => cvalid c && p_tn op t c) l +
   count_if (fun c => cvalid c && p_fp op t c) l + count_if (fun c => cvalid c && p_fn op t c) l)%nat = count_if cvalid l.
Proof.
  unfold count_if, p_tp, p_tn, p_fp, p_fn. induction l as [|c l IH]. reflexivity.
  cbn [filter]. destruct (cvalid c); cbn [andb]; [| exact IH].
  destruct (is_event op t (fst c)), (is_event op t (snd c)); cbn [andb negb List.length]; lia.
Qed.

(* tp + tn + fp + fn = total = number of pairs valid in both *)
Lemma counts_partition op t l :
  xadd (xadd (xadd (nansum (map (m_tp op t) l)) (nansum (map (m_tn op t) l))) (nansum (map (m_fp op t) l)))
       (nansum (map (m_fn op t) l)) =x= xofnat (count_if cvalid l).
Proof. rewrite count_tp, count_tn, count_fp, count_fn, !xofnat_add, count_partition. reflexivity. Qed.

(* ------------------------------------------------------------------------------------------ *)
(* additivity: counts kept along a dimension sum to the fully reduced counts                   *)
(* ------------------------------------------------------------------------------------------ *)
Definition noinf (l : list xv) : Prop := Forall (fun v => xisinf v = false) l.

Lemma xsum_noinf l : noinf l -> exists q, xsum (valids l) = XFin q.
Proof.
  induction 1 as [|v l Hv Hl [q IH]]. exists 0; reflexivity.
  destruct v; try discriminate; cbn [valids filter xvalid xnotnull xisnan negb].
  - exists q. exact IH.
  - fold (valids l). exists (q0 + q). unfold xsum in *. cbn [fold_right]. rewrite IH. reflexivity.
Qed.
Lemma nansum_app l1 l2 : noinf l1 -> noinf l2 -> nansum (l1 ++ l2) =x= xadd (nansum l1) (nansum l2).
Proof.
  intros H1 H2. unfold nansum. rewrite valids_app. destruct (xsum_noinf l2 H2) as [q2 E2]. rewrite E2.
  induction H1 as [|v l Hv Hl IH].
  - cbn [valids filter app]. rewrite E2. unfold xsum, X0. cbn. ring.
  - destruct (xsum_noinf l Hl) as [q1 E1]. rewrite E1 in IH.
    destruct v; try discriminate; cbn [valids filter xvalid xnotnull xisnan negb app]; fold (valids l).
    + rewrite E1. exact IH.
    + unfold xsum in *. cbn [fold_right]. rewrite E1.
      destruct (fold_right xadd X0 (valids l ++ valids l2)); cbn in *; try tauto. lra.
Qed.
(* the NaN-skipping sum of a concatenation of groups is the NaN-skipping sum of the group sums *)
Lemma noinf_concat ls : Forall noinf ls -> noinf (List.concat ls).
Proof. induction 1; cbn. constructor. apply Forall_app. split; auto. Qed.
Lemma nansum_concat (ls : list (list xv)) : Forall noinf ls ->
  nansum (List.concat ls) =x= nansum (map nansum ls).
Proof.
  induction 1 as [|l ls Hl Hls IH]. reflexivity.
  cbn [List.concat map]. rewrite nansum_app; auto using noinf_concat.
  destruct (xsum_noinf l Hl) as [q E]. assert (E' : nansum l = XFin q) by exact E.
  rewrite E', nansum_cons_fin, IH. reflexivity.
Qed.

(* array form: reducing a leading dimension d together with R is reducing R first (d kept) and then summing over d *)
Lemma envs_cons size d R e : envs size (d :: R) e = List.concat (map (fun n => envs size R (upd e d n)) (seq 0 (size d))).
Proof. cbn [envs]. apply flat_map_concat_map. Qed.
Lemma counts_additive_env (g : env -> xv) size d R e : (forall e', xisinf (g e') = false) ->
  nansum (map g (envs size (d :: R) e)) =x=
  nansum (map (fun n => nansum (map g (envs size R (upd e d n)))) (seq 0 (size d))).
Proof.
  intro Hg. rewrite envs_cons, concat_map, map_map.
  rewrite nansum_concat. rewrite map_map. reflexivity.
  apply Forall_forall. intros l Hl. apply in_map_iff in Hl. destruct Hl as [n [<- _]].
  apply Forall_forall. intros v Hv. apply in_map_iff in Hv. destruct Hv as [e' [<- _]]. apply Hg.
Qed.

(* ------------------------------------------------------------------------------------------ *)
(* array level: the counts of the model's manager are the list-level counts of the cells of each group *)
(* ------------------------------------------------------------------------------------------ *)
Definition events_arr (op : cmpop) (t : xv) (a : larr) : larr := lmap (event_of op t) a.
Definition group_cells (fcst obs : larr) (R : list dim) (e : env) : list cell :=
  let z := lzip (fun f o => f) fcst obs in
  map (fun e' => (lget fcst e', lget obs e')) (envs (lsize z) (dinter (ldims z) R) e).

Lemma array_count_tp fcst obs op t R e :
  lget (lreduce nansum R (lzip map_tp (events_arr op t fcst) (events_arr op t obs))) e =x=
  xofnat (count_if (fun c => cvalid c && p_tp op t c) (group_cells fcst obs R e)).
Proof. unfold group_cells. rewrite <- count_tp, map_map. reflexivity. Qed.
Lemma array_count_tn fcst obs op t R e :
  lget (lreduce nansum R (lzip map_tn (events_arr op t fcst) (events_arr op t obs))) e =x=
  xofnat (count_if (fun c => cvalid c && p_tn op t c) (group_cells fcst obs R e)).
Proof. unfold group_cells. rewrite <- count_tn, map_map. reflexivity. Qed.
Lemma array_count_fp fcst obs op t R e :
  lget (lreduce nansum R (lzip map_fp (events_arr op t fcst) (events_arr op t obs))) e =x=
  xofnat (count_if (fun c => cvalid c && p_fp op t c) (group_cells fcst obs R e)).
Proof. unfold group_cells. rewrite <- count_fp, map_map. reflexivity. Qed.
Lemma array_count_fn fcst obs op t R e :
  lget (lreduce nansum R (lzip map_fn (events_arr op t fcst) (events_arr op t obs))) e =x=
  xofnat (count_if (fun c => cvalid c && p_fn op t c) (group_cells fcst obs R e)).
Proof. unfold group_cells. rewrite <- count_fn, map_map. reflexivity. Qed.
Lemma array_counts_partition fcst obs op t R e :
  let cnt m := lget (lreduce nansum R (lzip m (events_arr op t fcst) (events_arr op t obs))) e in
  xadd (xadd (xadd (cnt map_tp) (cnt map_tn)) (cnt map_fp)) (cnt map_fn) =x=
  xofnat (count_if cvalid (group_cells fcst obs R e)).
Proof.
  cbv zeta. rewrite array_count_tp, array_count_tn, array_count_fp, array_count_fn, !xofnat_add, count_partition. reflexivity.
Qed.

(* counts kept along a (leading) dimension d sum to the counts with d reduced as well -- any array without infinities *)
Lemma counts_additive a d R e :
  (forall e', xisinf (lget a e') = false) ->
  dinter (ldims a) (d :: R) = d :: dinter (ldims a) R ->
  lget (lreduce nansum (d :: R) a) e =x=
  nansum (map (fun n => lget (lreduce nansum R a) (upd e d n)) (seq 0 (lsize a d))).
Proof.
  intros Hg Hd. cbn [lreduce lget]. rewrite Hd. apply counts_additive_env. exact Hg.
Qed.
(* the count maps never contain an infinity *)
Lemma count_map_noinf m fe oe e : In m [map_tp; map_tn; map_fp; map_fn] -> xisinf (lget (lzip m fe oe) e) = false.
Proof.
  intros [<- | [<- | [<- | [<- | []]]]]; cbn [lzip lget]; unfold map_tp, map_tn, map_fp, map_fn, gen_contingency_maps;
  destruct (lget fe e), (lget oe e); cbn;
  repeat match goal with |- context [Qeq_bool ?a ?b] => destruct (Qeq_bool a b) end; reflexivity.
Qed.
