(* proofs/C08_finding_eq_inf.v -- witness of the known finding `discretise-eq-inf` on the CURRENT source.
   Not imported by coq/props/C08.v on purpose: once the defect is repaired this file stops compiling (the witness no
   longer exists) and nothing else is affected -- the check gets quieter, not louder.
   Full statement that is therefore only proved for finite values (C08_complementary_sum_one) and, for the four
   inequalities, for all non-NaN values (C08_complementary_inequalities_any_value):
     forall r d c tol, d <> NaN -> c <> NaN -> discretise r + discretise (complement r) = 1. *)
From V Require Import lib.Tree lib.C08_aux gen.Gen_C08_discretise gen.Gen_C08_contingency model.C08.

(* == and != are NOT complementary at equal infinities: |inf - inf| is NaN and both comparisons are false *)
Lemma eq_ne_inf_refuted :
  exists d c, d <> XNaN /\ c <> XNaN /\
    gen_comparative_discretise d c (MStr "==") (XFin 0) = Some (XFin 0) /\
    gen_comparative_discretise d c (MStr "!=") (XFin 0) = Some (XFin 0).
Proof. exists (XInf true), (XInf true). repeat split; discriminate || reflexivity. Qed.
Print Assumptions eq_ne_inf_refuted.
