(* proofs/C05_rmse.v -- mse is a non-negative rational, so rmse (the host's sqrt of it) squares back to mse. *)
From Coq Require Import Reals Qreals.
From V Require Import lib.Tree gen.Gen_standard gen.Gen_functions proofs.C01 proofs.C03 proofs.C05_angular.

Definition nonneg_or_nan (v : xv) : Prop := match v with XNaN => True | XFin q => 0 <= q | XInf _ => False end.

Lemma xsum_nonneg l : (forall v, In v l -> exists q, v = XFin q /\ 0 <= q) -> exists s, xsum l = XFin s /\ 0 <= s.
Proof. induction l as [|x t IH]; intro H. exists 0. split; [reflexivity | lra].
 destruct (H x (or_introl eq_refl)) as [q [-> Hq]].
 destruct IH as [s [Es Hs]]. { intros v Hv. apply H. right. exact Hv. }
 exists (q + s). change (xsum (XFin q :: t)) with (xadd (XFin q) (xsum t)). rewrite Es. split; [reflexivity | lra]. Qed.

Theorem nanmean_nonneg l : (forall v, In v l -> nonneg_or_nan v) -> nonneg_or_nan (nanmean l).
Proof. intro H. unfold nanmean, nancount, nansum. destruct (length (valids l)) eqn:E; [exact I|].
 assert (Hv : forall v, In v (valids l) -> exists q, v = XFin q /\ 0 <= q).
 { intros v Hv. unfold valids in Hv. apply filter_In in Hv. destruct Hv as [Hin Hval]. specialize (H v Hin).
   destruct v as [|q|b]; simpl in *; try discriminate; try contradiction. exists q. split; auto. }
 destruct (xsum_nonneg _ Hv) as [s [Es Hs]]. rewrite Es. unfold xofnat, xdiv.
 pose proof (Qeq_bool_spec (inject_Z (Z.of_nat (S n))) 0) as Hz.
 destruct (Qeq_bool (inject_Z (Z.of_nat (S n))) 0). exfalso; exact (inject_nat_nz _ Hz).
 cbn [nonneg_or_nan]. pose proof (inject_nat_pos n). apply Qle_shift_div_l; lra. Qed.

(* every weighted squared-error case is a non-negative number or NaN, for non-negative weights *)
Lemma Qsq_nonneg (d : Q) : 0 <= d * d.
Proof. destruct (Qlt_le_dec d 0) as [H|H].
 - setoid_replace (d * d) with ((- d) * (- d)) by ring. apply Qmult_le_0_compat; lra.
 - apply Qmult_le_0_compat; lra. Qed.

Lemma sq_error_shape (f o : xv) b : xisinf f = false -> xisinf o = false ->
  gen_mse_kernel f o b = XNaN \/ exists q, gen_mse_kernel f o b = XFin q /\ 0 <= q.
Proof. intros Hf Ho. destruct f as [|f|], o as [|o|]; try discriminate.
 1-3: left; destruct b; reflexivity.
 right. destruct b; unfold gen_mse_kernel.
 - pose proof (gen_is_angd f o) as E. destruct (gen_angular_difference (XFin f) (XFin o)) as [|d|]; cbn in E; try contradiction.
   exists (d * d). split; [reflexivity | apply Qsq_nonneg].
 - exists ((f + - o) * (f + - o)). split; [reflexivity | apply Qsq_nonneg]. Qed.

Theorem weighted_sq_error_nonneg (f o w : xv) b : xisinf f = false -> xisinf o = false -> nonneg_or_nan w ->
  nonneg_or_nan (xmul (gen_mse_kernel f o b) w).
Proof. intros Hf Ho Hw. destruct (sq_error_shape f o b Hf Ho) as [E|[q [E Hq]]]; rewrite E.
 - exact I.
 - destruct w as [|w|bw]; cbn in *; try exact I; try contradiction. apply Qmult_le_0_compat; assumption. Qed.

(* R-level: rmse := sqrt(mse) satisfies 0 <= rmse and rmse^2 = mse, for every non-negative rational mse *)
Local Open Scope R_scope.
Theorem rmse_squared_is_mse (m : Q) : (0 <= m)%Q -> 0 <= sqrt (Q2R m) /\ sqrt (Q2R m) * sqrt (Q2R m) = Q2R m.
Proof. intro H. split. apply sqrt_pos. apply sqrt_sqrt. replace 0 with (Q2R 0) by (unfold Q2R; simpl; field). apply Qle_Rle. exact H. Qed.
