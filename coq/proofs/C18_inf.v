(* proofs/C18_inf.v -- proportion exceeding an INFINITE threshold (a catch-all bin edge).
   The regenerated comparison (site C18.exceed) masks with notnull, so only NaN is missing: an infinite threshold
   compares as usual.  Hence the proportion is 1 at -inf and 0 at +inf whenever a valid index exists. *)
From V Require Import lib.Tree gen.Gen_functions gen.Gen_C18_kern model.C18 proofs.C18.
Open Scope string_scope.
Open Scope list_scope.

Lemma exceed_valid_x x t : x <> XNaN -> t <> XNaN -> exceed x t = b2x (xge x t).
Proof. intros Hx Ht. unfold exceed, gen_c18_exceed. cbv zeta.
  destruct x as [|q|s]; [congruence | |]; destruct t as [|u|b]; try congruence;
    cbn [xnotnull xisnan negb andb xwhere xadd xmul]; f_equal; try reflexivity; apply xge_eq_r; cbn [xeq]; ring. Qed.
Lemma exceed_nan_x t : exceed XNaN t = XNaN.
Proof. unfold exceed, gen_c18_exceed. reflexivity. Qed.

Lemma valids_exceed_x l t : t <> XNaN -> valids (map (fun x => exceed x t) l) = map (fun x => b2x (xge x t)) (valids l).
Proof. intro Ht. induction l as [|a r IH]; [reflexivity|]. cbn [map]. unfold valids in *. cbn [filter].
  destruct a as [|q|s].
  - rewrite exceed_nan_x. cbn [xvalid xnotnull xisnan negb]. exact IH.
  - rewrite exceed_valid_x by (discriminate || exact Ht). rewrite b2x_valid. cbn [xvalid xnotnull xisnan negb map]. rewrite IH. reflexivity.
  - rewrite exceed_valid_x by (discriminate || exact Ht). rewrite b2x_valid. cbn [xvalid xnotnull xisnan negb map]. rewrite IH. reflexivity.
Qed.

(* the general statement: for every threshold that is not NaN (rational, -inf, +inf) *)
Lemma proportion_list_spec_x l t : t <> XNaN -> nanmean (map (fun x => exceed x t) l) =x= prop_ge_spec_x l t.
Proof.
  intro Ht. unfold nanmean, nancount, nansum, prop_ge_spec_x. rewrite (valids_exceed_x l t Ht).
  destruct (valids l) as [|v r] eqn:V; [reflexivity|].
  assert (EM : forall X : xv, match t with XNaN => XNaN | _ => X end = X) by (intro X; destruct t; [congruence | reflexivity | reflexivity]).
  change (match v :: r, t with [], _ | _, XNaN => XNaN | _, _ => ?X end) with (match t with XNaN => XNaN | _ => X end).
  rewrite EM. clear EM.
  remember (v :: r) as L eqn:EL. rewrite map_length.
  pose proof (xsum_b2x (fun x => xge x t) L) as HS.
  destruct (xsum (map (fun x => b2x (xge x t)) L)) as [|s|] eqn:ES; cbn [xeq] in HS; try tauto.
  assert (EL2 : length L = Datatypes.S (length r)) by (rewrite EL; reflexivity).
  rewrite EL2.
  unfold xofnat, xdiv. pose proof (Qeq_bool_spec (inject_Z (Z.of_nat (Datatypes.S (length r)))) 0) as Z.
  destruct (Qeq_bool _ 0); [exfalso; exact (inject_nat_nz _ Z)|].
  cbn [xeq]. rewrite HS. unfold zq. reflexivity.
Qed.

(* rational thresholds: the specification of the finite case *)
Lemma prop_ge_spec_x_fin l t : prop_ge_spec_x l (XFin t) = prop_ge_spec l t.
Proof. unfold prop_ge_spec_x, prop_ge_spec. destruct (valids l); reflexivity. Qed.

Lemma filter_all {A} (p : A -> bool) l : (forall x, In x l -> p x = true) -> filter p l = l.
Proof. induction l as [|a r IH]; intro H; [reflexivity|]. simpl. rewrite (H a (or_introl eq_refl)). f_equal. apply IH. intros x Hx. apply H. right. exact Hx. Qed.
Lemma filter_none {A} (p : A -> bool) l : (forall x, In x l -> p x = false) -> filter p l = [].
Proof. induction l as [|a r IH]; intro H; [reflexivity|]. simpl. rewrite (H a (or_introl eq_refl)). apply IH. intros x Hx. apply H. right. exact Hx. Qed.
Lemma valids_not_nan l x : In x (valids l) -> x <> XNaN.
Proof. unfold valids. intro H. apply filter_In in H. destruct H as [_ H]. intro E. subst. discriminate. Qed.

(* -inf: every valid index is at or above it -- proportion 1, NaN only when no index is valid *)
Lemma proportion_neg_inf l : nanmean (map (fun x => exceed x (XInf false)) l) =x= match valids l with [] => XNaN | _ => XFin 1 end.
Proof.
  rewrite proportion_list_spec_x by discriminate. unfold prop_ge_spec_x.
  destruct (valids l) as [|v r] eqn:V; [reflexivity|].
  rewrite filter_all.
  2:{ intros x Hx. rewrite <- V in Hx. apply valids_not_nan in Hx. destruct x as [|q|[|]]; [congruence | reflexivity | reflexivity | reflexivity]. }
  cbn [xeq length]. unfold zq. field. exact (inject_nat_nz (length r)).
Qed.

(* +inf: no finite index reaches it -- proportion 0 when every index is NaN or rational and one is valid *)
Lemma proportion_pos_inf l : Forall (fun x => xisinf x = false) l ->
  nanmean (map (fun x => exceed x (XInf true)) l) =x= match valids l with [] => XNaN | _ => XFin 0 end.
Proof.
  intro HF. rewrite proportion_list_spec_x by discriminate. unfold prop_ge_spec_x.
  destruct (valids l) as [|v r] eqn:V; [reflexivity|].
  rewrite filter_none.
  2:{ intros x Hx. rewrite <- V in Hx. unfold valids in Hx. apply filter_In in Hx. destruct Hx as [Hx _].
      rewrite Forall_forall in HF. specialize (HF x Hx). destruct x as [|q|s]; [reflexivity | reflexivity | discriminate]. }
  cbn [xeq length]. unfold zq. simpl. unfold Qdiv. ring.
Qed.
