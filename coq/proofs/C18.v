(* proofs/C18.v -- lemmas behind the C18 theorems: the linear flip-flop index. *)
From V Require Import lib.Tree gen.Gen_functions gen.Gen_C18_kern model.C18.
Open Scope list_scope.
Open Scope Q_scope.

(* ------------------------------------------------------------------------------------ *)
(* maxima / minima of lists, by characterisation                                          *)
(* ------------------------------------------------------------------------------------ *)
Definition is_max (m : Q) (l : list Q) : Prop := In m l /\ forall x, In x l -> x <= m.
Definition is_min (m : Q) (l : list Q) : Prop := In m l /\ forall x, In x l -> m <= x.

Lemma qmaxl_spec d l : is_max (qmaxl d l) (d :: l).
Proof.
  induction l as [|x t IH]; simpl.
  - split; [left; reflexivity | intros y [<-|[]]; apply Qle_refl].
  - destruct IH as [Hin Hle]. change (fold_right _ d t) with (qmaxl d t).
    pose proof (Qle_bool_spec x (qmaxl d t)) as Hc. destruct (Qle_bool x (qmaxl d t)).
    + split.
      * destruct Hin as [E|Hin]; [left; exact E | right; right; exact Hin].
      * intros y [<-|[<-|Hy]]; [apply Hle; left; reflexivity | exact Hc | apply Hle; right; exact Hy].
    + split.
      * right; left; reflexivity.
      * intros y [<-|[<-|Hy]].
        -- apply Qle_trans with (qmaxl d t); [apply Hle; left; reflexivity | apply Qlt_le_weak; exact Hc].
        -- apply Qle_refl.
        -- apply Qle_trans with (qmaxl d t); [apply Hle; right; exact Hy | apply Qlt_le_weak; exact Hc].
Qed.
Lemma qminl_spec d l : is_min (qminl d l) (d :: l).
Proof.
  induction l as [|x t IH]; simpl.
  - split; [left; reflexivity | intros y [<-|[]]; apply Qle_refl].
  - destruct IH as [Hin Hle]. change (fold_right _ d t) with (qminl d t).
    pose proof (Qle_bool_spec x (qminl d t)) as Hc. destruct (Qle_bool x (qminl d t)).
    + split.
      * right; left; reflexivity.
      * intros y [<-|[<-|Hy]].
        -- apply Qle_trans with (qminl d t); [exact Hc | apply Hle; left; reflexivity].
        -- apply Qle_refl.
        -- apply Qle_trans with (qminl d t); [exact Hc | apply Hle; right; exact Hy].
    + split.
      * destruct Hin as [E|Hin]; [left; exact E | right; right; exact Hin].
      * intros y [<-|[<-|Hy]]; [apply Hle; left; reflexivity | apply Qlt_le_weak; exact Hc | apply Hle; right; exact Hy].
Qed.
Lemma qmax_list_spec l : l <> [] -> is_max (qmax_list l) l.
Proof. destruct l as [|x t]; [congruence|]. intros _. apply qmaxl_spec. Qed.
Lemma qmin_list_spec l : l <> [] -> is_min (qmin_list l) l.
Proof. destruct l as [|x t]; [congruence|]. intros _. apply qminl_spec. Qed.

Lemma is_max_unique m m' l : is_max m l -> is_max m' l -> m == m'.
Proof. intros [I1 L1] [I2 L2]. apply Qle_antisym; auto. Qed.
Lemma is_min_unique m m' l : is_min m l -> is_min m' l -> m == m'.
Proof. intros [I1 L1] [I2 L2]. apply Qle_antisym; auto. Qed.

(* image of the maximum under a monotone / antitone map *)
Lemma is_max_map_mono (f : Q -> Q) m l :
  (forall x y, x <= y -> f x <= f y) -> is_max m l -> is_max (f m) (map f l).
Proof. intros Hf [Hin Hle]. split; [apply in_map; exact Hin|].
  intros y Hy. apply in_map_iff in Hy. destruct Hy as [x [<- Hx]]. apply Hf, Hle, Hx. Qed.
Lemma is_min_map_mono (f : Q -> Q) m l :
  (forall x y, x <= y -> f x <= f y) -> is_min m l -> is_min (f m) (map f l).
Proof. intros Hf [Hin Hle]. split; [apply in_map; exact Hin|].
  intros y Hy. apply in_map_iff in Hy. destruct Hy as [x [<- Hx]]. apply Hf, Hle, Hx. Qed.
Lemma is_max_map_anti (f : Q -> Q) m l :
  (forall x y, x <= y -> f y <= f x) -> is_min m l -> is_max (f m) (map f l).
Proof. intros Hf [Hin Hle]. split; [apply in_map; exact Hin|].
  intros y Hy. apply in_map_iff in Hy. destruct Hy as [x [<- Hx]]. apply Hf, Hle, Hx. Qed.
Lemma is_min_map_anti (f : Q -> Q) m l :
  (forall x y, x <= y -> f y <= f x) -> is_max m l -> is_min (f m) (map f l).
Proof. intros Hf [Hin Hle]. split; [apply in_map; exact Hin|].
  intros y Hy. apply in_map_iff in Hy. destruct Hy as [x [<- Hx]]. apply Hf, Hle, Hx. Qed.
Lemma is_max_rev m l : is_max m l -> is_max m (rev l).
Proof. intros [Hin Hle]. split; [apply in_rev in Hin; exact Hin|]. intros x Hx. apply Hle. apply in_rev. exact Hx. Qed.
Lemma is_min_rev m l : is_min m l -> is_min m (rev l).
Proof. intros [Hin Hle]. split; [apply in_rev in Hin; exact Hin|]. intros x Hx. apply Hle. apply in_rev. exact Hx. Qed.

(* ------------------------------------------------------------------------------------ *)
(* total variation                                                                        *)
(* ------------------------------------------------------------------------------------ *)
Lemma tvq_cons2 a b t : tvq (a :: b :: t) = Qabs (a - b) + tvq (b :: t).
Proof. reflexivity. Qed.
Lemma tvq_nonneg l : 0 <= tvq l.
Proof. induction l as [|a [|b t] IH]; simpl; try apply Qle_refl.
  change (0 <= Qabs (a - b) + tvq (b :: t)). pose proof (Qabs_nonneg (a - b)). lra. Qed.

Lemma Qabs_ge x : x <= Qabs x.
Proof. apply Qle_Qabs. Qed.
Lemma Qabs_ge_neg x : - x <= Qabs x.
Proof. rewrite <- Qabs_opp. apply Qle_Qabs. Qed.

(* total variation dominates every difference of two members *)
Lemma tvq_ge_diff l : forall x y, In x l -> In y l -> x - y <= tvq l.
Proof.
  induction l as [|a t IH]; [intros x y []|].
  intros x y Hx Hy. destruct t as [|b t'].
  - destruct Hx as [<-|[]]. destruct Hy as [<-|[]]. simpl. lra.
  - rewrite tvq_cons2. pose proof (Qabs_ge (a - b)). pose proof (Qabs_ge_neg (a - b)).
    pose proof (tvq_nonneg (b :: t')).
    destruct Hx as [<-|Hx]; destruct Hy as [<-|Hy].
    + lra.
    + pose proof (IH b y (or_introl eq_refl) Hy). lra.
    + pose proof (IH x b Hx (or_introl eq_refl)). lra.
    + pose proof (IH x y Hx Hy). lra.
Qed.

Lemma tv_ge_range l : l <> [] -> qrange l <= tvq l.
Proof. intro H. unfold qrange. destruct (qmax_list_spec l H) as [I1 _]. destruct (qmin_list_spec l H) as [I2 _].
  apply tvq_ge_diff; assumption. Qed.

(* monotone sequences *)
Fixpoint nondec (l : list Q) : Prop :=
  match l with a :: t => match t with b :: _ => a <= b /\ nondec t | [] => True end | [] => True end.
Fixpoint noninc (l : list Q) : Prop :=
  match l with a :: t => match t with b :: _ => b <= a /\ noninc t | [] => True end | [] => True end.
Definition monotone (l : list Q) : Prop := nondec l \/ noninc l.

Lemma nondec_hd_le a t : nondec (a :: t) -> forall x, In x (a :: t) -> a <= x.
Proof. revert a. induction t as [|b t IH]; intros a H x [<-|Hx]; try apply Qle_refl; [destruct Hx|].
  destruct H as [Hab Ht]. apply Qle_trans with b; [exact Hab | apply IH; assumption]. Qed.
Lemma noninc_hd_ge a t : noninc (a :: t) -> forall x, In x (a :: t) -> x <= a.
Proof. revert a. induction t as [|b t IH]; intros a H x [<-|Hx]; try apply Qle_refl; [destruct Hx|].
  destruct H as [Hab Ht]. apply Qle_trans with b; [apply IH; assumption | exact Hab]. Qed.

Lemma last_cons (a b : Q) t : last (b :: t) a = last t b.
Proof. revert a b. induction t as [|c t IH]; intros a b; [reflexivity|].
  change (last (b :: c :: t) a) with (last (c :: t) a). rewrite !IH. reflexivity. Qed.
Lemma nondec_tv a t : nondec (a :: t) -> tvq (a :: t) == last t a - a.
Proof. revert a. induction t as [|b t IH]; intros a H; [simpl; lra|].
  destruct H as [Hab Ht]. rewrite tvq_cons2. rewrite (IH b Ht).
  pose proof (last_cons a b t) as E.
  rewrite E. rewrite Qabs_neg by lra. lra. Qed.
Lemma noninc_tv a t : noninc (a :: t) -> tvq (a :: t) == a - last t a.
Proof. revert a. induction t as [|b t IH]; intros a H; [simpl; lra|].
  destruct H as [Hab Ht]. rewrite tvq_cons2. rewrite (IH b Ht).
  pose proof (last_cons a b t) as E.
  rewrite E. rewrite Qabs_pos by lra. lra. Qed.
Lemma last_in (a : Q) t : In (last t a) (a :: t).
Proof. revert a. induction t as [|b t IH]; intro a; [left; reflexivity|].
  rewrite last_cons. right. apply IH. Qed.
Lemma nondec_last_ge a t : nondec (a :: t) -> forall x, In x (a :: t) -> x <= last t a.
Proof. revert a. induction t as [|b t IH]; intros a H x Hx.
  - destruct Hx as [<-|[]]. apply Qle_refl.
  - destruct H as [Hab Ht].
    pose proof (last_cons a b t) as E.
    rewrite E. destruct Hx as [<-|Hx].
    + apply Qle_trans with b; [exact Hab | apply IH; [exact Ht | left; reflexivity]].
    + apply IH; assumption.
Qed.
Lemma noninc_last_le a t : noninc (a :: t) -> forall x, In x (a :: t) -> last t a <= x.
Proof. revert a. induction t as [|b t IH]; intros a H x Hx.
  - destruct Hx as [<-|[]]. apply Qle_refl.
  - destruct H as [Hab Ht].
    pose proof (last_cons a b t) as E.
    rewrite E. destruct Hx as [<-|Hx].
    + apply Qle_trans with b; [apply IH; [exact Ht | left; reflexivity] | exact Hab].
    + apply IH; assumption.
Qed.

Lemma tv_eq_range_if_monotone l : monotone l -> tvq l == qrange l.
Proof.
  destruct l as [|a t]; [intros _; reflexivity|]. intros [H|H]; unfold qrange.
  - assert (M : is_max (last t a) (a :: t)) by (split; [apply last_in | apply nondec_last_ge; exact H]).
    assert (m : is_min a (a :: t)) by (split; [left; reflexivity | apply nondec_hd_le; exact H]).
    rewrite (is_max_unique _ _ _ (qmax_list_spec (a :: t) ltac:(congruence)) M).
    rewrite (is_min_unique _ _ _ (qmin_list_spec (a :: t) ltac:(congruence)) m).
    apply nondec_tv; exact H.
  - assert (M : is_max a (a :: t)) by (split; [left; reflexivity | apply noninc_hd_ge; exact H]).
    assert (m : is_min (last t a) (a :: t)) by (split; [apply last_in | apply noninc_last_le; exact H]).
    rewrite (is_max_unique _ _ _ (qmax_list_spec (a :: t) ltac:(congruence)) M).
    rewrite (is_min_unique _ _ _ (qmin_list_spec (a :: t) ltac:(congruence)) m).
    apply noninc_tv; exact H.
Qed.

(* the converse: total variation equal to the range forces monotonicity *)
Lemma nondec_cons a b t : a <= b -> nondec (b :: t) -> nondec (a :: b :: t).
Proof. intros; split; assumption. Qed.
Lemma noninc_cons a b t : b <= a -> noninc (b :: t) -> noninc (a :: b :: t).
Proof. intros; split; assumption. Qed.
Lemma all_eq_noninc a t : (forall x, In x (a :: t) -> x == a) -> noninc (a :: t).
Proof. revert a. induction t as [|b t IH]; intros a H; [exact I|]. split.
  - rewrite (H b (or_intror (or_introl eq_refl))). apply Qle_refl.
  - apply IH. intros x Hx. rewrite (H x (or_intror Hx)). symmetry. apply H. right; left; reflexivity. Qed.
Lemma all_eq_nondec a t : (forall x, In x (a :: t) -> x == a) -> nondec (a :: t).
Proof. revert a. induction t as [|b t IH]; intros a H; [exact I|]. split.
  - rewrite (H b (or_intror (or_introl eq_refl))). apply Qle_refl.
  - apply IH. intros x Hx. rewrite (H x (or_intror Hx)). symmetry. apply H. right; left; reflexivity. Qed.

Lemma monotone_if_tv_eq_range l : tvq l == qrange l -> monotone l.
Proof.
  induction l as [|a t IH]; [intros _; left; exact I|].
  destruct t as [|b t']; [intros _; left; exact I|].
  intro E. rewrite tvq_cons2 in E. unfold qrange in E.
  set (T := b :: t') in *.
  assert (HT : T <> []) by (unfold T; congruence).
  destruct (qmax_list_spec T HT) as [MI ML]. destruct (qmin_list_spec T HT) as [mI mL].
  destruct (qmax_list_spec (a :: T) ltac:(congruence)) as [MI' ML'].
  destruct (qmin_list_spec (a :: T) ltac:(congruence)) as [mI' mL'].
  set (M := qmax_list T) in *. set (m := qmin_list T) in *.
  set (M' := qmax_list (a :: T)) in *. set (m' := qmin_list (a :: T)) in *.
  pose proof (tv_ge_range T HT) as Hge. unfold qrange in Hge. fold M m in Hge.
  assert (HbM : b <= M) by (apply ML; left; reflexivity).
  assert (Hmb : m <= b) by (apply mL; left; reflexivity).
  assert (HM'a : a <= M') by (apply ML'; left; reflexivity).
  assert (Hm'a : m' <= a) by (apply mL'; left; reflexivity).
  assert (HM'M : M <= M') by (apply ML'; right; exact MI).
  assert (Hm'm : m' <= m) by (apply mL'; right; exact mI).
  assert (HM'le : M' <= a \/ M' <= M) by (destruct MI' as [<-|HI]; [left; apply Qle_refl | right; apply ML; exact HI]).
  assert (Hm'ge : a <= m' \/ m <= m') by (destruct mI' as [<-|HI]; [left; apply Qle_refl | right; apply mL; exact HI]).
  pose proof (Qabs_ge (a - b)). pose proof (Qabs_ge_neg (a - b)).
  (* the tail is monotone *)
  assert (ET : tvq T == qrange T).
  { unfold qrange. fold M m. destruct HM'le, Hm'ge; lra. }
  specialize (IH ET).
  destruct (Qlt_le_dec M a) as [HaM|HaM].
  - (* a above the tail: b must be its maximum, the tail non-increasing *)
    assert (Eb : b == M) by (destruct HM'le, Hm'ge; lra).
    right. apply noninc_cons; [lra|].
    destruct IH as [Hnd|Hni]; [|exact Hni].
    apply all_eq_noninc. intros x Hx. apply Qle_antisym.
    + rewrite Eb. apply ML. exact Hx.
    + apply (nondec_hd_le b t' Hnd x Hx).
  - destruct (Qlt_le_dec a m) as [Ham|Ham].
    + assert (Eb : b == m) by (destruct HM'le, Hm'ge; lra).
      left. apply nondec_cons; [lra|].
      destruct IH as [Hnd|Hni]; [exact Hnd|].
      apply all_eq_nondec. intros x Hx. apply Qle_antisym.
      * apply (noninc_hd_ge b t' Hni x Hx).
      * rewrite Eb. apply mL. exact Hx.
    + (* a inside the range of the tail: a = b *)
      assert (Eab : a == b).
      { destruct (Qlt_le_dec a b) as [Hab|Hab]; [rewrite Qabs_neg in E by lra | rewrite Qabs_pos in E by lra];
        destruct HM'le, Hm'ge; lra. }
      destruct IH as [Hnd|Hni]; [left; apply nondec_cons | right; apply noninc_cons]; auto; lra.
Qed.

(* ------------------------------------------------------------------------------------ *)
(* transformations                                                                        *)
(* ------------------------------------------------------------------------------------ *)
Lemma tvq_map_affine (f : Q -> Q) c k l : (forall x, f x == k * x + c) -> tvq (map f l) == Qabs k * tvq l.
Proof. intro Hf. induction l as [|a [|b t] IH]; try (simpl; lra).
  change (map f (a :: b :: t)) with (f a :: f b :: map f t).
  rewrite tvq_cons2. change (f b :: map f t) with (map f (b :: t)).
  rewrite IH. rewrite tvq_cons2.
  assert (E : f a - f b == k * (a - b)) by (rewrite !Hf; ring). rewrite E. rewrite Qabs_Qmult. ring. Qed.

Lemma tvq_app_single l a b : tvq (l ++ [a; b]) == tvq (l ++ [a]) + Qabs (a - b).
Proof. induction l as [|x [|y t] IH].
  - simpl. lra.
  - simpl. lra.
  - change ((x :: y :: t) ++ [a; b]) with (x :: y :: (t ++ [a; b])).
    change ((x :: y :: t) ++ [a]) with (x :: y :: (t ++ [a])).
    rewrite !tvq_cons2. change (y :: t ++ [a; b]) with ((y :: t) ++ [a; b]).
    change (y :: t ++ [a]) with ((y :: t) ++ [a]). rewrite IH. ring. Qed.
Lemma tvq_rev l : tvq (rev l) == tvq l.
Proof. induction l as [|a [|b t] IH]; try reflexivity.
  change (rev (a :: b :: t)) with ((rev t ++ [b]) ++ [a]). rewrite <- app_assoc. simpl app.
  rewrite tvq_app_single. change (rev t ++ [b]) with (rev (b :: t)). rewrite IH, tvq_cons2.
  rewrite <- (Qabs_opp (b - a)). assert (E : - (b - a) == a - b) by ring. rewrite E. ring. Qed.

Lemma qrange_affine (f : Q -> Q) c k l : (forall x, f x == k * x + c) -> l <> [] -> qrange (map f l) == Qabs k * qrange l.
Proof. intros Hf H. unfold qrange.
  assert (H' : map f l <> []) by (destruct l; simpl; congruence).
  pose proof (qmax_list_spec l H) as M. pose proof (qmin_list_spec l H) as m.
  destruct (Qlt_le_dec k 0) as [Hk|Hk].
  - assert (A : forall x y, x <= y -> f y <= f x) by (intros; rewrite !Hf; nra).
    rewrite (is_max_unique _ _ _ (qmax_list_spec _ H') (is_max_map_anti _ _ _ A m)).
    rewrite (is_min_unique _ _ _ (qmin_list_spec _ H') (is_min_map_anti _ _ _ A M)).
    rewrite !Hf. rewrite Qabs_neg by lra. ring.
  - assert (A : forall x y, x <= y -> f x <= f y) by (intros; rewrite !Hf; nra).
    rewrite (is_max_unique _ _ _ (qmax_list_spec _ H') (is_max_map_mono _ _ _ A M)).
    rewrite (is_min_unique _ _ _ (qmin_list_spec _ H') (is_min_map_mono _ _ _ A m)).
    rewrite !Hf. rewrite Qabs_pos by lra. ring.
Qed.
Lemma qrange_rev l : l <> [] -> qrange (rev l) == qrange l.
Proof. intro H. unfold qrange.
  assert (H' : rev l <> []) by (intro E; apply (f_equal (@rev Q)) in E; rewrite rev_involutive in E; simpl in E; congruence).
  rewrite (is_max_unique _ _ _ (qmax_list_spec _ H') (is_max_rev _ _ (qmax_list_spec l H))).
  rewrite (is_min_unique _ _ _ (qmin_list_spec _ H') (is_min_rev _ _ (qmin_list_spec l H))). reflexivity. Qed.

(* ------------------------------------------------------------------------------------ *)
(* the specification value                                                                *)
(* ------------------------------------------------------------------------------------ *)
Lemma nm2_pos (l : list Q) : (3 <= length l)%nat -> 0 < nm2 (length l).
Proof. intro H. unfold nm2, zq. change 0 with (inject_Z 0). rewrite <- Zlt_Qlt. lia. Qed.

Lemma ff_spec_nonneg l : (3 <= length l)%nat -> 0 <= ff_spec l.
Proof. intro H. unfold ff_spec. pose proof (nm2_pos l H). assert (l <> []) by (destruct l; simpl in *; [lia|congruence]).
  pose proof (tv_ge_range l H1). apply Qle_shift_div_l; lra. Qed.
Lemma ff_spec_zero_iff l : (3 <= length l)%nat -> (ff_spec l == 0 <-> monotone l).
Proof. intro H. unfold ff_spec. pose proof (nm2_pos l H). split.
  - intro E. apply monotone_if_tv_eq_range.
    assert (E2 : (tvq l - qrange l) == 0).
    { assert (X : (tvq l - qrange l) == ((tvq l - qrange l) / nm2 (length l)) * nm2 (length l)) by (field; lra).
      rewrite X, E. ring. }
    lra.
  - intro Hm. rewrite (tv_eq_range_if_monotone l Hm). field. lra.
Qed.
Lemma ff_spec_affine (f : Q -> Q) c k l : (forall x, f x == k * x + c) -> (3 <= length l)%nat -> ff_spec (map f l) == Qabs k * ff_spec l.
Proof. intros Hf H. unfold ff_spec. rewrite map_length. pose proof (nm2_pos l H).
  assert (l <> []) by (destruct l; simpl in *; [lia|congruence]).
  rewrite (tvq_map_affine f c k), (qrange_affine f c k) by assumption. field. lra. Qed.
Lemma ff_spec_rev l : (3 <= length l)%nat -> ff_spec (rev l) == ff_spec l.
Proof. intro H. unfold ff_spec. rewrite rev_length. pose proof (nm2_pos l H).
  assert (l <> []) by (destruct l; simpl in *; [lia|congruence]).
  rewrite tvq_rev, qrange_rev by assumption. reflexivity. Qed.

(* ------------------------------------------------------------------------------------ *)
(* the modelled index equals the specification                                            *)
(* ------------------------------------------------------------------------------------ *)
Fixpoint qdiffs (l : list Q) : list Q :=
  match l with a :: t => match t with b :: _ => (a - b) :: qdiffs t | [] => [] end | [] => [] end.

Lemma sdiffs_cons2 f a b t : sdiffs f (a :: b :: t) = f a b :: sdiffs f (b :: t).
Proof. reflexivity. Qed.
Lemma sdiffs_xsub_fins l : exists d, sdiffs xsub (fins l) = fins d /\ qsum (map Qabs d) == tvq l.
Proof. induction l as [|a [|b t] IH].
  - exists []. split; reflexivity.
  - exists []. split; reflexivity.
  - destruct IH as [d [E S]]. exists ((a + - b) :: d). split.
    + change (fins (a :: b :: t)) with (XFin a :: XFin b :: fins t).
      rewrite sdiffs_cons2. change (XFin b :: fins t) with (fins (b :: t)). rewrite E. reflexivity.
    + rewrite tvq_cons2. cbn [map qsum]. rewrite S. reflexivity.
Qed.
Lemma map_xabs_fins d : map xabs (fins d) = fins (map Qabs d).
Proof. unfold fins. rewrite !map_map. reflexivity. Qed.
Lemma nansum_nan_fins d : nansum (XNaN :: fins d) =x= XFin (qsum d).
Proof. unfold nansum. change (valids (XNaN :: fins d)) with (valids (fins d)). rewrite valids_fins. apply xsum_fins. Qed.

Lemma xmaxl_fins l : l <> [] -> xmaxl (fins l) = XFin (qmax_list l).
Proof. destruct l as [|a t]; [congruence|]. intros _. simpl. unfold qmaxl.
  induction t as [|b t IH]; [reflexivity|]. simpl. rewrite IH. unfold xmax, xle. destruct (Qle_bool b _); reflexivity. Qed.
Lemma xminl_fins l : l <> [] -> xminl (fins l) = XFin (qmin_list l).
Proof. destruct l as [|a t]; [congruence|]. intros _. simpl. unfold qminl.
  induction t as [|b t IH]; [reflexivity|]. simpl. rewrite IH. unfold xmin, xle. destruct (Qle_bool b _); reflexivity. Qed.

Lemma ff_linear_fins l : (3 <= length l)%nat -> ff_linear (fins l) =x= XFin (ff_spec l).
Proof.
  intro H. assert (Hne : l <> []) by (destruct l; simpl in *; [lia|congruence]).
  unfold ff_linear. destruct (sdiffs_xsub_fins l) as [d [E S]]. rewrite E, map_xabs_fins.
  rewrite xmaxl_fins, xminl_fins by assumption.
  pose proof (nansum_nan_fins (map Qabs d)) as N.
  destruct (nansum (XNaN :: fins (map Qabs d))) as [|s|]; simpl in N; try tauto.
  assert (L : length (fins l) = length l) by (unfold fins; apply map_length). rewrite L.
  pose proof (nm2_pos l H) as P. unfold xsub, xneg, xadd, xdiv.
  pose proof (Qeq_bool_spec (nm2 (length l)) 0) as Z. destruct (Qeq_bool (nm2 (length l)) 0); [lra|].
  simpl. unfold ff_spec, qrange. rewrite N, S. field. lra.
Qed.

(* NaN in, NaN out -- and (without infinities) only then *)
Lemma xmaxl_nan l : In XNaN l -> xmaxl l = XNaN.
Proof. destruct l as [|a t]; [intros []|]. simpl. revert a. induction t as [|b t IH]; intros a H.
  - destruct H as [->|[]]. reflexivity.
  - simpl. destruct H as [->|[->|H]].
    + assert (X : fold_right xmax XNaN t = XNaN) by (clear; induction t; simpl; auto; rewrite IHt; destruct a; reflexivity).
      rewrite X. destruct b; reflexivity.
    + reflexivity.
    + rewrite (IH a (or_intror H)). destruct b; reflexivity.
Qed.
Lemma finite_decompose l : nbad l = O -> l = fins (finite_qs l).
Proof. induction l as [|a t IH]; [reflexivity|]. unfold nbad in *. simpl.
  destruct a; simpl; try discriminate. intro H. f_equal. apply IH. exact H. Qed.
Lemma nbad_pos_cases l : (0 < nbad l)%nat -> exists v, In v l /\ xisfin v = false.
Proof. induction l as [|a t IH]; unfold nbad in *; simpl; [lia|].
  destruct (xisfin a) eqn:E; simpl; intro H.
  - destruct (IH H) as [v [Hv Hf]]. exists v. split; [right|]; assumption.
  - exists a. split; [left; reflexivity | exact E]. Qed.

Lemma ff_linear_nan_iff l : (3 <= length l)%nat -> (forall v, In v l -> xisinf v = false) ->
  (ff_linear l = XNaN <-> In XNaN l).
Proof.
  intros H Hinf. split.
  - intro E. destruct (Nat.eq_dec (nbad l) 0) as [Z|NZ].
    + exfalso. rewrite (finite_decompose l Z) in E.
      assert (L : (3 <= length (finite_qs l))%nat).
      { rewrite (finite_decompose l Z) in H. unfold fins in H. rewrite map_length in H. exact H. }
      pose proof (ff_linear_fins _ L) as F. rewrite E in F. exact F.
    + destruct (nbad_pos_cases l ltac:(lia)) as [v [Hv Hf]]. specialize (Hinf v Hv).
      destruct v; simpl in *; try discriminate. exact Hv.
  - intro Hn. unfold ff_linear. rewrite (xmaxl_nan l Hn).
    unfold xsub at 2. simpl xadd. unfold xsub.
    destruct (nansum _); reflexivity.
Qed.

(* ------------------------------------------------------------------------------------ *)
(* proportion exceeding                                                                   *)
(* ------------------------------------------------------------------------------------ *)
Definition geb (t : Q) (x : xv) : bool := xge x (XFin t).
Lemma xge_eq_r x a b : a =x= b -> xge x a = xge x b.
Proof. intro E. unfold xge. rewrite E. reflexivity. Qed.
(* the regenerated comparison is `>=` against the threshold itself (the tolerance term vanishes) *)
Lemma exceed_valid x t : x <> XNaN -> exceed x (XFin t) = b2x (geb t x).
Proof. intro H. unfold exceed, gen_c18_exceed. cbv zeta.
  destruct x as [|q|s]; [congruence | |]; cbn [xnotnull xisnan negb andb xwhere]; f_equal; unfold geb; apply xge_eq_r; cbn [xadd xmul xeq]; ring. Qed.
Lemma exceed_nan t : exceed XNaN (XFin t) = XNaN.
Proof. reflexivity. Qed.
Lemma exceed_nan_iff x t : exceed x (XFin t) = XNaN <-> x = XNaN.
Proof. split; [|intros ->; apply exceed_nan]. intro H. destruct x as [|q|s]; [reflexivity | |];
  rewrite exceed_valid in H by discriminate; unfold b2x in H; destruct (geb t _); discriminate. Qed.
Lemma b2x_valid b : xvalid (b2x b) = true.
Proof. destruct b; reflexivity. Qed.
Lemma valids_exceed l t : valids (map (fun x => exceed x (XFin t)) l) = map (fun x => b2x (geb t x)) (valids l).
Proof. induction l as [|a r IH]; [reflexivity|]. cbn [map]. unfold valids in *. cbn [filter].
  destruct a as [|q|s].
  - rewrite exceed_nan. cbn [xvalid xnotnull xisnan negb]. exact IH.
  - rewrite exceed_valid by discriminate. rewrite b2x_valid. cbn [xvalid xnotnull xisnan negb map]. rewrite IH. reflexivity.
  - rewrite exceed_valid by discriminate. rewrite b2x_valid. cbn [xvalid xnotnull xisnan negb map]. rewrite IH. reflexivity.
Qed.
Lemma xsum_b2x (p : xv -> bool) l : xsum (map (fun x => b2x (p x)) l) =x= XFin (zq (Z.of_nat (length (filter p l)))).
Proof. induction l as [|a r IH]; [simpl; reflexivity|].
  cbn [map filter]. change (xsum (?h :: ?t)) with (xadd h (xsum t)).
  destruct (xsum (map (fun x => b2x (p x)) r)) as [|s|]; simpl in IH; try tauto.
  destruct (p a); unfold b2x; cbn [xadd xeq length]; rewrite IH; unfold zq.
  - rewrite Nat2Z.inj_succ. unfold Z.succ. rewrite inject_Z_plus. ring.
  - ring.
Qed.
Lemma map_b2x_valid (p : xv -> bool) l : valids (map (fun x => b2x (p x)) l) = map (fun x => b2x (p x)) l.
Proof. induction l as [|a r IH]; [reflexivity|]. simpl. unfold b2x at 1. destruct (p a); simpl; rewrite IH; reflexivity. Qed.

Lemma proportion_list_spec l t : nanmean (map (fun x => exceed x (XFin t)) l) =x= prop_ge_spec l t.
Proof.
  unfold nanmean, nancount, nansum, prop_ge_spec. rewrite valids_exceed.
  destruct (valids l) as [|v r] eqn:V; [reflexivity|].
  remember (v :: r) as L eqn:EL. rewrite map_length.
  pose proof (xsum_b2x (geb t) L) as HS.
  destruct (xsum (map (fun x => b2x (geb t x)) L)) as [|s|] eqn:ES; cbn [xeq] in HS; try tauto.
  assert (EL2 : length L = Datatypes.S (length r)) by (rewrite EL; reflexivity).
  rewrite EL2.
  unfold xofnat, xdiv. pose proof (Qeq_bool_spec (inject_Z (Z.of_nat (Datatypes.S (length r)))) 0) as Z.
  destruct (Qeq_bool _ 0); [exfalso; exact (inject_nat_nz _ Z)|].
  cbn [xeq]. unfold geb in HS. rewrite HS. unfold zq. reflexivity.
Qed.

(* ------------------------------------------------------------------------------------ *)
(* statements about the modelled index itself                                             *)
(* ------------------------------------------------------------------------------------ *)
Lemma ff_linear_formula (l : list Q) : (3 <= length l)%nat ->
  ff_linear (fins l) =x= XFin ((tvq l - (qmax_list l - qmin_list l)) / (inject_Z (Z.of_nat (length l) - 2))).
Proof. exact (ff_linear_fins l). Qed.

Lemma ff_linear_nonneg (l : list Q) : (3 <= length l)%nat -> exists v, ff_linear (fins l) =x= XFin v /\ 0 <= v.
Proof. intro H. exists (ff_spec l). split; [apply ff_linear_fins; exact H | apply ff_spec_nonneg; exact H]. Qed.
Lemma ff_linear_zero_if_monotone (l : list Q) : (3 <= length l)%nat -> monotone l -> ff_linear (fins l) =x= XFin 0.
Proof. intros H Hm. rewrite (ff_linear_fins l H). cbn [xeq]. apply ff_spec_zero_iff; assumption. Qed.
Lemma ff_linear_zero_only_if_monotone (l : list Q) : (3 <= length l)%nat -> ff_linear (fins l) =x= XFin 0 -> monotone l.
Proof. intros H E. rewrite (ff_linear_fins l H) in E. cbn [xeq] in E. apply ff_spec_zero_iff in E; assumption. Qed.

Lemma ff_linear_affine (f : Q -> Q) c k (l : list Q) : (forall x, f x == k * x + c) -> (3 <= length l)%nat ->
  ff_linear (fins (map f l)) =x= xmul (XFin (Qabs k)) (ff_linear (fins l)).
Proof. intros Hf H. rewrite (ff_linear_fins l H). rewrite (ff_linear_fins (map f l)) by (rewrite map_length; exact H).
  cbn [xmul xeq]. apply (ff_spec_affine f c k); assumption. Qed.
Lemma ff_linear_shift c (l : list Q) : (3 <= length l)%nat ->
  ff_linear (fins (map (fun x => x + c) l)) =x= ff_linear (fins l).
Proof. intro H. rewrite (ff_linear_affine (fun x => x + c) c 1 l) by (try assumption; intros; ring).
  rewrite (ff_linear_fins l H). cbn [xmul xeq]. rewrite Qabs_pos by lra. ring. Qed.
Lemma ff_linear_neg (l : list Q) : (3 <= length l)%nat ->
  ff_linear (fins (map Qopp l)) =x= ff_linear (fins l).
Proof. intro H. rewrite (ff_linear_affine Qopp 0 (-1) l) by (try assumption; intros; ring).
  rewrite (ff_linear_fins l H). cbn [xmul xeq]. rewrite Qabs_neg by lra. ring. Qed.
Lemma ff_linear_scale k (l : list Q) : (3 <= length l)%nat ->
  ff_linear (fins (map (Qmult k) l)) =x= xmul (XFin (Qabs k)) (ff_linear (fins l)).
Proof. intro H. apply (ff_linear_affine (Qmult k) 0 k l); [intros; ring | exact H]. Qed.
Lemma ff_linear_rev (l : list Q) : (3 <= length l)%nat -> ff_linear (fins (rev l)) =x= ff_linear (fins l).
Proof. intro H. rewrite (ff_linear_fins l H). rewrite (ff_linear_fins (rev l)) by (rewrite rev_length; exact H).
  cbn [xeq]. apply ff_spec_rev; exact H. Qed.
