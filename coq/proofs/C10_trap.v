(* proofs/C10_trap.v -- Q-level facts about the trapezoidal threshold-weighted scores (axiom-free): immateriality of
   the finite replacements of infinite end points, and the partition of unity trapezoid + two ramps. *)
From V Require Import lib.Tree lib.C10_aux gen.Gen_C10_kern model.C10 proofs.C10.

Ltac unf_trap := unfold q_tw_sq_trap, q_tw_abs_trap, q_tw_quantile_trap, q_tw_expectile_trap, q_tw_huber_trap, qcq, qce, qch, qclip,
   qphi_trap, qphip_trap, qg_trap, Qltb.
Ltac trap_solve := unf_trap; qcmpp; qsolve; try (field; lra).

(* trapezoid whose left ramp [a,b] lies at or below the data: the ramp can be moved freely (so the finite replacements
   of a = b = -inf are immaterial); symmetrically for the right ramp [c,d] at or above the data *)
Lemma trap_lower_irrelevant a1 b1 a2 b2 c d alpha v f o :
  a1 < b1 -> a2 < b2 -> b1 <= f -> b1 <= o -> b2 <= f -> b2 <= o -> b1 < c -> b2 < c -> c < d -> 0 <= v ->
  q_tw_sq_trap a1 b1 c d f o == q_tw_sq_trap a2 b2 c d f o /\ q_tw_abs_trap a1 b1 c d f o == q_tw_abs_trap a2 b2 c d f o /\
  q_tw_quantile_trap a1 b1 c d alpha f o == q_tw_quantile_trap a2 b2 c d alpha f o /\
  q_tw_expectile_trap a1 b1 c d alpha f o == q_tw_expectile_trap a2 b2 c d alpha f o /\
  q_tw_huber_trap a1 b1 c d v f o == q_tw_huber_trap a2 b2 c d v f o.
Proof. intros. repeat split; trap_solve. Qed.

Lemma trap_upper_irrelevant a b c1 d1 c2 d2 alpha v f o :
  c1 < d1 -> c2 < d2 -> f < c1 -> o < c1 -> f < c2 -> o < c2 -> b < c1 -> b < c2 -> a < b -> 0 <= v ->
  q_tw_sq_trap a b c1 d1 f o == q_tw_sq_trap a b c2 d2 f o /\ q_tw_abs_trap a b c1 d1 f o == q_tw_abs_trap a b c2 d2 f o /\
  q_tw_quantile_trap a b c1 d1 alpha f o == q_tw_quantile_trap a b c2 d2 alpha f o /\
  q_tw_expectile_trap a b c1 d1 alpha f o == q_tw_expectile_trap a b c2 d2 alpha f o /\
  q_tw_huber_trap a b c1 d1 v f o == q_tw_huber_trap a b c2 d2 v f o.
Proof. intros. repeat split; trap_solve. Qed.

(* ---------------- partition of unity: a trapezoid plus its two complementary ramps ---------------- *)
(* left ramp = trapezoid (L2, L1, a, b): weight 1 on [L1, a], falling to 0 on [a, b]  (interval_where_one = (-inf, a),
   interval_where_positive = (-inf, b) after the finite replacement); right ramp = trapezoid (c, d, U1, U2) *)
Definition ramps_ok (L2 L1 a b c d U1 U2 : Q) : Prop := L2 < L1 /\ L1 < a /\ a < b /\ b < c /\ c < d /\ d < U1 /\ U1 < U2.

Lemma qg_trap_partition L2 L1 a b c d U1 U2 x : ramps_ok L2 L1 a b c d U1 U2 -> L1 <= x -> x < U1 ->
  qg_trap L2 L1 a b x + qg_trap a b c d x + qg_trap c d U1 U2 x == x - (L1 + L2) / 2.
Proof. intros (H1 & H2 & H3 & H4 & H5 & H6 & H7) Hx Hx'. unfold qg_trap, Qltb. qcmpp; qsolve; try (field; lra). Qed.
Lemma qphi_trap_partition L2 L1 a b c d U1 U2 x : ramps_ok L2 L1 a b c d U1 U2 -> L1 <= x -> x < U1 ->
  qphi_trap L2 L1 a b x + qphi_trap a b c d x + qphi_trap c d U1 U2 x
  == 2 * (x * x) - 2 * (L1 + L2) * x + 2 * ((L1 - L2) * (L1 - L2)) / 3 + 2 * L1 * L2.
Proof. intros (H1 & H2 & H3 & H4 & H5 & H6 & H7) Hx Hx'. unfold qphi_trap, Qltb. qcmpp; qsolve; try (field; lra). Qed.

Section Partition.
Variables (L2 L1 a b c d U1 U2 f o : Q).
Hypothesis R : ramps_ok L2 L1 a b c d U1 U2.
Hypothesis Hf : L1 <= f < U1.
Hypothesis Ho : L1 <= o < U1.

Lemma tw_partition_trap_quantile alpha :
  q_tw_quantile_trap L2 L1 a b alpha f o + q_tw_quantile_trap a b c d alpha f o + q_tw_quantile_trap c d U1 U2 alpha f o
  == q_pinball alpha f o.
Proof. unfold q_tw_quantile_trap, qcq, q_pinball.
 pose proof (qg_trap_partition _ _ _ _ _ _ _ _ f R (proj1 Hf) (proj2 Hf)). pose proof (qg_trap_partition _ _ _ _ _ _ _ _ o R (proj1 Ho) (proj2 Ho)).
 set (gf := qg_trap L2 L1 a b f + qg_trap a b c d f + qg_trap c d U1 U2 f) in *.
 set (go := qg_trap L2 L1 a b o + qg_trap a b c d o + qg_trap c d U1 U2 o) in *.
 destruct (Qltb o f).
 - setoid_replace ((1 - alpha) * (f - o)) with ((1 - alpha) * (gf - go)) by (rewrite H, H0; ring). unfold gf, go. ring.
 - setoid_replace (alpha * (o - f)) with (alpha * (go - gf)) by (rewrite H, H0; ring). unfold gf, go. ring. Qed.
Lemma tw_partition_trap_abs :
  q_tw_abs_trap L2 L1 a b f o + q_tw_abs_trap a b c d f o + q_tw_abs_trap c d U1 U2 f o == q_abs_err f o.
Proof. pose proof (tw_partition_trap_quantile (1 # 2)) as H. unfold q_tw_abs_trap, q_tw_quantile_trap in *.
 unfold q_pinball, Qltb in H. unfold q_abs_err. pose proof (Qle_bool_spec f o) as C. destruct (Qle_bool f o); cbn [negb] in H.
 - rewrite Qabs_neg by lra. lra.
 - rewrite Qabs_pos by lra. lra. Qed.
Lemma tw_partition_trap_expectile alpha :
  q_tw_expectile_trap L2 L1 a b alpha f o + q_tw_expectile_trap a b c d alpha f o + q_tw_expectile_trap c d U1 U2 alpha f o
  == q_asym_sq alpha f o.
Proof. unfold q_tw_expectile_trap, qce, q_asym_sq, qphip_trap.
 pose proof (qg_trap_partition _ _ _ _ _ _ _ _ f R (proj1 Hf) (proj2 Hf)).
 pose proof (qphi_trap_partition _ _ _ _ _ _ _ _ f R (proj1 Hf) (proj2 Hf)). pose proof (qphi_trap_partition _ _ _ _ _ _ _ _ o R (proj1 Ho) (proj2 Ho)).
 set (w := if Qltb o f then 1 - alpha else alpha).
 set (gf := qg_trap L2 L1 a b f + qg_trap a b c d f + qg_trap c d U1 U2 f) in *.
 set (pf := qphi_trap L2 L1 a b f + qphi_trap a b c d f + qphi_trap c d U1 U2 f) in *.
 set (po := qphi_trap L2 L1 a b o + qphi_trap a b c d o + qphi_trap c d U1 U2 o) in *.
 setoid_replace (w * ((f - o) * (f - o))) with ((1 # 2) * (w * (po - pf - 4 * gf * (o - f)))) by (rewrite H, H0, H1; field).
 unfold gf, pf, po. ring. Qed.
Lemma tw_partition_trap_sq :
  q_tw_sq_trap L2 L1 a b f o + q_tw_sq_trap a b c d f o + q_tw_sq_trap c d U1 U2 f o == q_sq_err f o.
Proof. pose proof (tw_partition_trap_expectile (1 # 2)) as H. unfold q_tw_sq_trap, q_tw_expectile_trap, q_asym_sq, q_sq_err in *.
 destruct (Qltb o f); lra. Qed.
Lemma tw_partition_trap_huber v : 0 <= v ->
  q_tw_huber_trap L2 L1 a b v f o + q_tw_huber_trap a b c d v f o + q_tw_huber_trap c d U1 U2 v f o == q_huber v f o.
Proof. intro Hv. unfold q_tw_huber_trap, qch, qphip_trap.
 pose proof (qclip_spec v (f - o) Hv) as [_ [Hp Hn]]. set (k := qclip v (f - o)) in *.
 assert (Hz : L1 <= k + o < U1).
 { destruct (Qlt_le_dec (f - o) 0) as [N|N]; [assert (f - o <= 0) as N' by lra; specialize (Hn N') | specialize (Hp N)]; lra. }
 pose proof (qg_trap_partition _ _ _ _ _ _ _ _ f R (proj1 Hf) (proj2 Hf)).
 pose proof (qphi_trap_partition _ _ _ _ _ _ _ _ (k + o) R (proj1 Hz) (proj2 Hz)). pose proof (qphi_trap_partition _ _ _ _ _ _ _ _ o R (proj1 Ho) (proj2 Ho)).
 assert (E : (1 # 2) * ((1 # 2) * (2 * (o * o) - 2 * ((k + o) * (k + o)) + 2 * (L1 + L2) * k + k * (4 * (f - (L1 + L2) / 2)))) == q_huber v f o).
 { unfold q_huber, k, qclip, Qltb.
   destruct (Qlt_le_dec (f - o) 0) as [N|N];
   [assert (EA : Qabs (f - o) == - (f - o)) by (apply Qabs_neg; lra) | assert (EA : Qabs (f - o) == f - o) by (apply Qabs_pos; lra)];
   set (A := Qabs (f - o)) in *; clearbody A; qcmpp; qsolve; rewrite ?EA; field. }
 rewrite <- E.
 set (gf := qg_trap L2 L1 a b f + qg_trap a b c d f + qg_trap c d U1 U2 f) in *.
 set (pz := qphi_trap L2 L1 a b (k + o) + qphi_trap a b c d (k + o) + qphi_trap c d U1 U2 (k + o)) in *.
 set (po := qphi_trap L2 L1 a b o + qphi_trap a b c d o + qphi_trap c d U1 U2 o) in *.
 setoid_replace ((1 # 2) * ((1 # 2) * (2 * (o * o) - 2 * ((k + o) * (k + o)) + 2 * (L1 + L2) * k + k * (4 * (f - (L1 + L2) / 2)))))
   with ((1 # 2) * ((1 # 2) * (po - pz + k * (4 * gf)))) by (rewrite H, H0, H1; field).
 unfold gf, pz, po. ring. Qed.
End Partition.

(* ---------------- the regenerated trapezoid kernels composed as the tw_* wrappers compose them ---------------- *)
Lemma qphi_trap_respects a b c d : respects (qphi_trap a b c d).
Proof. intros x y E. unfold qphi_trap, Qltb. qcmpp; cbn -[Qmult Qplus Qminus Qopp Qdiv Qinv]; rewrite ?E; reflexivity. Qed.
Lemma qg_trap_respects a b c d : respects (qg_trap a b c d).
Proof. intros x y E. unfold qg_trap, Qltb. qcmpp; cbn -[Qmult Qplus Qminus Qopp Qdiv Qinv]; rewrite ?E; reflexivity. Qed.
Lemma qphip_trap_respects a b c d : respects (qphip_trap a b c d).
Proof. intros x y E. unfold qphip_trap. rewrite (qg_trap_respects a b c d x y E). reflexivity. Qed.

Lemma tw_trap_gen a b c d alpha v f o : a < b -> b < c -> c < d -> 0 <= v ->
  let A := XFin a in let B := XFin b in let C := XFin c in let D := XFin d in
  gen_consistent_expectile (gen_phi_trap A B C D) (gen_phi_prime_trap A B C D) (XFin f) (XFin o) (XFin (1 # 2))
    =x= XFin (q_tw_sq_trap a b c d f o) /\
  xmul (XFin 2) (gen_consistent_quantile (gen_g_trap A B C D) (XFin f) (XFin o) (XFin (1 # 2))) =x= XFin (q_tw_abs_trap a b c d f o) /\
  gen_consistent_quantile (gen_g_trap A B C D) (XFin f) (XFin o) (XFin alpha) =x= XFin (q_tw_quantile_trap a b c d alpha f o) /\
  xmul (XFin (1 # 2)) (gen_consistent_expectile (gen_phi_trap A B C D) (gen_phi_prime_trap A B C D) (XFin f) (XFin o) (XFin alpha))
    =x= XFin (q_tw_expectile_trap a b c d alpha f o) /\
  xmul (XFin (1 # 2)) (gen_consistent_huber (gen_phi_trap A B C D) (gen_phi_prime_trap A B C D) (XFin f) (XFin o) (XFin v))
    =x= XFin (q_tw_huber_trap a b c d v f o).
Proof. intros Hab Hbc Hcd Hv. cbv zeta. repeat split.
 - apply ce_gen_spec; [apply lifts_phi_trap | apply lifts_phip_trap | apply qphi_trap_respects | apply qphip_trap_respects]; auto.
 - apply xmul_fin_eq. apply cq_gen_spec; [apply lifts_g_trap | apply qg_trap_respects]; auto.
 - apply cq_gen_spec; [apply lifts_g_trap | apply qg_trap_respects]; auto.
 - apply xmul_fin_eq. apply ce_gen_spec; [apply lifts_phi_trap | apply lifts_phip_trap | apply qphi_trap_respects | apply qphip_trap_respects]; auto.
 - apply xmul_fin_eq. apply ch_gen_spec; [apply lifts_phi_trap | apply lifts_phip_trap | | apply qphi_trap_respects | apply qphip_trap_respects]; auto. Qed.

(* weight one: the plateau [b, c) covers the data (this is what interval_where_one = interval_where_positive = (-inf, inf) becomes) *)
Lemma tw_weight_one_trap a b c d alpha v f o : a < b -> c < d -> b <= f -> b <= o -> f < c -> o < c -> 0 <= v ->
  q_tw_sq_trap a b c d f o == q_sq_err f o /\ q_tw_abs_trap a b c d f o == q_abs_err f o /\
  q_tw_quantile_trap a b c d alpha f o == q_pinball alpha f o /\ q_tw_expectile_trap a b c d alpha f o == q_asym_sq alpha f o /\
  q_tw_huber_trap a b c d v f o == q_huber v f o.
Proof. intros. unfold q_sq_err, q_abs_err, q_pinball, q_asym_sq, q_huber.
 destruct (Qlt_le_dec (f - o) 0) as [N|N];
 [assert (EA : Qabs (f - o) == - (f - o)) by (apply Qabs_neg; lra) | assert (EA : Qabs (f - o) == f - o) by (apply Qabs_pos; lra)];
 set (A := Qabs (f - o)) in *; clearbody A; repeat split; unf_trap; qcmpp; qsolve; try (rewrite ?EA; field; lra). Qed.
