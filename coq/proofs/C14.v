(* proofs/C14.v -- lemmas behind the C14 theorems: ROC points are the weighted fractions of events / non-events
   with forecast >= t, monotone in t, 1 at t = 0; the trapezoid AUC lies in [0,1]. *)
From V Require Import lib.Tree lib.C08_aux gen.Gen_C08_discretise gen.Gen_C09_binary model.C08 model.C09 model.C14 proofs.C09.
From Coq Require Import Morphisms Setoid.

(* ------------------------------------------------------------------------------------------ *)
(* the discretised forecast                                                                    *)
(* ------------------------------------------------------------------------------------------ *)
Lemma disc_ge_spec t f :
  disc_ge (XFin t) f = match f with XNaN => XNaN | _ => b2x (xge f (XFin t)) end.
Proof.
  unfold disc_ge, discretise_cell, gen_comparative_discretise, gen_inequality_modes, gen_equality_modes.
  cbn [mode_lookup mode_is mode_in op_of_mode existsb cmpop_eqb orb andb negb apply_op xisnan X0].
  destruct f as [|x|s]; cbn [xisnan negb andb xwhere]; try reflexivity;
  f_equal; unfold xge; apply xle_Proper; [cbn; ring | reflexivity].
Qed.

(* ------------------------------------------------------------------------------------------ *)
(* weighted sums of indicator maps                                                             *)
(* ------------------------------------------------------------------------------------------ *)
Definition wf (c : triple) : Prop := xisinf (t_w c) = false.

Lemma xeq_nan_l v : v =x= XNaN -> v = XNaN.
Proof. destruct v; simpl; tauto. Qed.
Lemma xeq_fin_l v q : v =x= XFin q -> exists q', v = XFin q' /\ q' == q.
Proof. destruct v; simpl; try tauto. intro H. eauto. Qed.

Lemma nansum_weighted (m : triple -> xv) (p : triple -> bool) cells :
  (forall c, In c cells -> m c =x= if tvalid c then XFin (if p c then qv (t_w c) else 0) else XNaN) ->
  nansum (map m cells) =x= XFin (wsum (fun c => tvalid c && p c) cells).
Proof.
  induction cells as [|c l IH]; intro Hm. reflexivity.
  cbn [map]. unfold wsum. cbn [map qsum]. fold (wsum (fun c => tvalid c && p c) l).
  assert (IH' := IH (fun c' H => Hm c' (or_intror H))). pose proof (Hm c (or_introl eq_refl)) as Hc.
  destruct (tvalid c); cbn [andb].
  - apply xeq_fin_l in Hc. destruct Hc as [q' [-> Eq]]. change (nansum (XFin q' :: map m l)) with (xadd (XFin q') (nansum (map m l))).
    rewrite IH'. cbn [xadd xeq]. rewrite Eq. reflexivity.
  - apply xeq_nan_l in Hc. rewrite Hc. change (nansum (XNaN :: map m l)) with (nansum (map m l)). rewrite IH'. cbn. ring.
Qed.

Lemma wsum_ext p q cells : (forall c, In c cells -> p c = q c) -> wsum p cells == wsum q cells.
Proof.
  induction cells as [|c l IH]; intro H. reflexivity.
  unfold wsum. cbn [map qsum]. rewrite (H c (or_introl eq_refl)).
  fold (wsum p l). fold (wsum q l). rewrite IH. reflexivity. intros; apply H; right; auto.
Qed.
Lemma wsum_split p q cells : wsum (fun c => p c && q c) cells + wsum (fun c => p c && negb (q c)) cells == wsum p cells.
Proof.
  induction cells as [|c l IH]. reflexivity.
  unfold wsum in *. cbn [map qsum]. destruct (p c), (q c); cbn [andb negb]; lra.
Qed.
Lemma wsum_nonneg p cells : (forall c, In c cells -> p c = true -> 0 <= qv (t_w c)) -> 0 <= wsum p cells.
Proof.
  induction cells as [|c l IH]; intro H. unfold wsum; simpl; lra.
  unfold wsum in *. cbn [map qsum]. assert (0 <= qsum (map (fun c0 => if p c0 then qv (t_w c0) else 0) l)) by (apply IH; intros; apply H; auto; right; auto).
  destruct (p c) eqn:E; [pose proof (H c (or_introl eq_refl) E) |]; lra.
Qed.
Lemma wsum_mono p q cells :
  (forall c, In c cells -> p c = true -> q c = true) -> (forall c, In c cells -> q c = true -> 0 <= qv (t_w c)) ->
  wsum p cells <= wsum q cells.
Proof.
  induction cells as [|c l IH]; intros H W. unfold wsum; simpl; lra.
  unfold wsum in *. cbn [map qsum].
  assert (qsum (map (fun c0 => if p c0 then qv (t_w c0) else 0) l) <= qsum (map (fun c0 => if q c0 then qv (t_w c0) else 0) l))
    by (apply IH; intros; [apply H | apply W]; auto; right; auto).
  pose proof (H c (or_introl eq_refl)) as H1. pose proof (W c (or_introl eq_refl)) as W1.
  destruct (p c), (q c); try lra; try (specialize (H1 eq_refl); discriminate); specialize (W1 eq_refl); lra.
Qed.

(* ------------------------------------------------------------------------------------------ *)
(* the four weighted maps of a triple                                                          *)
(* ------------------------------------------------------------------------------------------ *)
Ltac triple_cases c :=
  destruct c as [[f o] w]; unfold hit_w, miss_w, fa_w, cn_w, tvalid, obs_is, fc_ge, wf, t_f, t_o, t_w in *; cbn [fst snd] in *;
  rewrite disc_ge_spec; unfold gen_pod_maps, gen_pofd_maps;
  destruct f as [|x|[|]]; destruct o as [|y|[|]]; destruct w as [|z|sw]; try discriminate;
  cbn -[Qle_bool Qeq_bool Qmult]; try exact I;
  qcmp; cbn -[Qmult]; try exact I; try ring; exfalso; lra.

Lemma hit_w_spec t c : wf c ->
  hit_w (XFin t) c =x= if tvalid c then XFin (if obs_is 1 c && fc_ge t c then qv (t_w c) else 0) else XNaN.
Proof. intro H. triple_cases c. Qed.
Lemma miss_w_spec t c : wf c ->
  miss_w (XFin t) c =x= if tvalid c then XFin (if obs_is 1 c && negb (fc_ge t c) then qv (t_w c) else 0) else XNaN.
Proof. intro H. triple_cases c. Qed.
Lemma fa_w_spec t c : wf c ->
  fa_w (XFin t) c =x= if tvalid c then XFin (if obs_is 0 c && fc_ge t c then qv (t_w c) else 0) else XNaN.
Proof. intro H. triple_cases c. Qed.
Lemma cn_w_spec t c : wf c ->
  cn_w (XFin t) c =x= if tvalid c then XFin (if obs_is 0 c && negb (fc_ge t c) then qv (t_w c) else 0) else XNaN.
Proof. intro H. triple_cases c. Qed.

(* ------------------------------------------------------------------------------------------ *)
(* ROC points                                                                                  *)
(* ------------------------------------------------------------------------------------------ *)
Definition h1 cells t := wsum (fun c => tvalid c && obs_is 1 c && fc_ge t c) cells.
Definition d1 cells := wsum (fun c => tvalid c && obs_is 1 c) cells.
Definition h0 cells t := wsum (fun c => tvalid c && obs_is 0 c && fc_ge t c) cells.
Definition d0 cells := wsum (fun c => tvalid c && obs_is 0 c) cells.

Lemma andb_assoc' a b c : a && (b && c) = a && b && c.
Proof. destruct a, b, c; reflexivity. Qed.

(* POD(t), POFD(t) are the weighted fractions of observed events / non-events whose forecast is >= t;
   a forecast equal to t is an event (fc_ge is >=) *)
Lemma roc_point_pod cells t : Forall wf cells -> pod_at cells (XFin t) =x= pod_spec cells t.
Proof.
  intro W. rewrite Forall_forall in W. unfold pod_at, gen_pod_ratio, pod_spec.
  rewrite (nansum_weighted (hit_w (XFin t)) (fun c => obs_is 1 c && fc_ge t c)) by (intros; apply hit_w_spec; auto).
  rewrite (nansum_weighted (miss_w (XFin t)) (fun c => obs_is 1 c && negb (fc_ge t c))) by (intros; apply miss_w_spec; auto).
  cbn [xadd]. rewrite xdiv_fin. apply ratio_compat.
  - apply wsum_ext. intros. apply andb_assoc'.
  - rewrite <- (wsum_split (fun c => tvalid c && obs_is 1 c) (fc_ge t)).
    rewrite (wsum_ext (fun c => tvalid c && (obs_is 1 c && fc_ge t c)) (fun c => tvalid c && obs_is 1 c && fc_ge t c)) by (intros; apply andb_assoc').
    rewrite (wsum_ext (fun c => tvalid c && (obs_is 1 c && negb (fc_ge t c))) (fun c => tvalid c && obs_is 1 c && negb (fc_ge t c))) by (intros; apply andb_assoc').
    reflexivity.
Qed.
Lemma roc_point_pofd cells t : Forall wf cells -> pofd_at cells (XFin t) =x= pofd_spec cells t.
Proof.
  intro W. rewrite Forall_forall in W. unfold pofd_at, gen_pofd_ratio, pofd_spec.
  rewrite (nansum_weighted (fa_w (XFin t)) (fun c => obs_is 0 c && fc_ge t c)) by (intros; apply fa_w_spec; auto).
  rewrite (nansum_weighted (cn_w (XFin t)) (fun c => obs_is 0 c && negb (fc_ge t c))) by (intros; apply cn_w_spec; auto).
  cbn [xadd]. rewrite xdiv_fin. apply ratio_compat.
  - apply wsum_ext. intros. apply andb_assoc'.
  - rewrite <- (wsum_split (fun c => tvalid c && obs_is 0 c) (fc_ge t)).
    rewrite (wsum_ext (fun c => tvalid c && (obs_is 0 c && fc_ge t c)) (fun c => tvalid c && obs_is 0 c && fc_ge t c)) by (intros; apply andb_assoc').
    rewrite (wsum_ext (fun c => tvalid c && (obs_is 0 c && negb (fc_ge t c))) (fun c => tvalid c && obs_is 0 c && negb (fc_ge t c))) by (intros; apply andb_assoc').
    reflexivity.
Qed.

(* non-negative weights on the valid cells *)
Definition wnonneg (cells : list triple) : Prop := forall c, In c cells -> tvalid c = true -> 0 <= qv (t_w c).

Lemma fc_ge_mono t1 t2 c : t1 <= t2 -> fc_ge t2 c = true -> fc_ge t1 c = true.
Proof.
  unfold fc_ge, xge, xle. destruct (t_f c) as [|x|[|]]; auto. intros H H2.
  apply Qle_bool_iff in H2. apply Qle_bool_iff. lra.
Qed.

Section Frac.
  Variable cells : list triple.
  Variable k : Q.
  Hypothesis W : wnonneg cells.
  Let num t := wsum (fun c => tvalid c && obs_is k c && fc_ge t c) cells.
  Let den := wsum (fun c => tvalid c && obs_is k c) cells.

  Lemma num_nonneg t : 0 <= num t.
  Proof. apply wsum_nonneg. intros c Hc H. apply W; auto. destruct (tvalid c); auto. Qed.
  Lemma num_le_den t : num t <= den.
  Proof.
    apply wsum_mono.
    - intros c _ H. destruct (tvalid c && obs_is k c); auto.
    - intros c Hc H. apply W; auto. destruct (tvalid c); auto.
  Qed.
  Lemma num_mono t1 t2 : t1 <= t2 -> num t2 <= num t1.
  Proof.
    intro H. apply wsum_mono.
    - intros c _ H2. destruct (tvalid c && obs_is k c); auto. cbn [andb] in *. eapply fc_ge_mono; eauto.
    - intros c Hc H2. apply W; auto. destruct (tvalid c); auto.
  Qed.
  (* all valid forecasts are >= t  ==>  the numerator is the whole class *)
  Lemma num_all t : (forall c, In c cells -> tvalid c = true -> fc_ge t c = true) -> num t == den.
  Proof.
    intro H. apply wsum_ext. intros c Hc. destruct (tvalid c) eqn:E; auto. rewrite (H c Hc E). destruct (obs_is k c); reflexivity.
  Qed.
End Frac.

(* order on ROC values: both finite and ordered, or both undefined (empty class) *)
Definition roc_le (a b : xv) : Prop :=
  match a, b with XFin x, XFin y => x <= y | XNaN, XNaN => True | _, _ => False end.
Definition roc_unit (a : xv) : Prop :=
  match a with XFin x => 0 <= x <= 1 | XNaN => True | _ => False end.

Lemma ratio_frac_le n1 n2 d : 0 <= n2 -> n2 <= n1 -> n1 <= d -> roc_le (ratio n2 d) (ratio n1 d).
Proof.
  intros H0 H1 H2. destruct (Qeq_dec d 0) as [Z | NZ].
  - rewrite !ratio_zz by lra. exact I.
  - rewrite !ratio_nz by auto. simpl. apply Qmult_le_compat_r; auto. apply Qinv_le_0_compat. lra.
Qed.
Lemma ratio_frac_unit n d : 0 <= n -> n <= d -> roc_unit (ratio n d).
Proof.
  intros H0 H1. destruct (Qeq_dec d 0) as [Z | NZ].
  - rewrite ratio_zz by lra. exact I.
  - rewrite ratio_nz by auto. simpl. assert (0 < d) by lra. split.
    + apply Qle_shift_div_l; auto. lra.
    + apply Qle_shift_div_r; auto. lra.
Qed.
Lemma roc_le_xeq a a' b b' : a =x= a' -> b =x= b' -> roc_le a' b' -> roc_le a b.
Proof. destruct a, a', b, b'; simpl; try tauto. intros -> ->. auto. Qed.
Lemma roc_unit_xeq a a' : a =x= a' -> roc_unit a' -> roc_unit a.
Proof. destruct a, a'; simpl; try tauto. intros ->. auto. Qed.

(* POD and POFD are non-increasing in the threshold for non-negative weights *)
Lemma roc_monotone_pod cells t1 t2 : Forall wf cells -> wnonneg cells -> t1 <= t2 ->
  roc_le (pod_at cells (XFin t2)) (pod_at cells (XFin t1)).
Proof.
  intros F W H. eapply roc_le_xeq; [apply roc_point_pod; auto | apply roc_point_pod; auto |].
  unfold pod_spec. apply ratio_frac_le; [apply num_nonneg | apply num_mono | apply num_le_den]; auto.
Qed.
Lemma roc_monotone_pofd cells t1 t2 : Forall wf cells -> wnonneg cells -> t1 <= t2 ->
  roc_le (pofd_at cells (XFin t2)) (pofd_at cells (XFin t1)).
Proof.
  intros F W H. eapply roc_le_xeq; [apply roc_point_pofd; auto | apply roc_point_pofd; auto |].
  unfold pofd_spec. apply ratio_frac_le; [apply num_nonneg | apply num_mono | apply num_le_den]; auto.
Qed.
Lemma roc_unit_pod cells t : Forall wf cells -> wnonneg cells -> roc_unit (pod_at cells (XFin t)).
Proof.
  intros F W. eapply roc_unit_xeq; [apply roc_point_pod; auto |]. unfold pod_spec.
  apply ratio_frac_unit; [apply num_nonneg | apply num_le_den]; auto.
Qed.
Lemma roc_unit_pofd cells t : Forall wf cells -> wnonneg cells -> roc_unit (pofd_at cells (XFin t)).
Proof.
  intros F W. eapply roc_unit_xeq; [apply roc_point_pofd; auto |]. unfold pofd_spec.
  apply ratio_frac_unit; [apply num_nonneg | apply num_le_den]; auto.
Qed.

(* at a threshold below every valid forecast (t = 0 for probabilities) both coordinates are 1 when the class has weight *)
Lemma roc_at_low_pod cells t : Forall wf cells ->
  (forall c, In c cells -> tvalid c = true -> fc_ge t c = true) -> ~ d1 cells == 0 ->
  pod_at cells (XFin t) =x= XFin 1.
Proof.
  intros F H D. rewrite roc_point_pod by auto. unfold pod_spec. fold (d1 cells). rewrite ratio_nz by auto.
  simpl. rewrite (num_all cells 1 t H). fold (d1 cells). field. auto.
Qed.
Lemma roc_at_low_pofd cells t : Forall wf cells ->
  (forall c, In c cells -> tvalid c = true -> fc_ge t c = true) -> ~ d0 cells == 0 ->
  pofd_at cells (XFin t) =x= XFin 1.
Proof.
  intros F H D. rewrite roc_point_pofd by auto. unfold pofd_spec. fold (d0 cells). rewrite ratio_nz by auto.
  simpl. rewrite (num_all cells 0 t H). fold (d0 cells). field. auto.
Qed.
(* ... and above every valid forecast both are 0 *)
Lemma num_none cells k t : (forall c, In c cells -> tvalid c = true -> fc_ge t c = false) ->
  wsum (fun c => tvalid c && obs_is k c && fc_ge t c) cells == 0.
Proof.
  intro H. induction cells as [|c l IH]. reflexivity.
  unfold wsum in *. cbn [map qsum]. rewrite IH by (intros; apply H; auto; right; auto).
  destruct (tvalid c) eqn:E; cbn [andb]; [rewrite (H c (or_introl eq_refl) E); destruct (obs_is k c); cbn [andb] |]; lra.
Qed.

(* ------------------------------------------------------------------------------------------ *)
(* the trapezoid area                                                                          *)
(* ------------------------------------------------------------------------------------------ *)
Fixpoint trapzQ (ys xs : list Q) : Q :=
  match ys, xs with
  | y0 :: ((y1 :: _) as ys'), x0 :: ((x1 :: _) as xs') => (x1 - x0) * (y1 + y0) * (1 # 2) + trapzQ ys' xs'
  | _, _ => 0
  end.

Lemma trapz_xeq ys ys' xs xs' : Forall2 xeq ys ys' -> Forall2 xeq xs xs' -> trapz ys xs =x= trapz ys' xs'.
Proof.
  intros Hy. revert xs xs'. induction Hy as [|y0 y0' ys ys' E0 Hy IH]; intros xs xs' Hx. reflexivity.
  destruct Hy as [|y1 y1' ys2 ys2' E1 Hy2].
  - destruct Hx as [|x0 x0' xs2 xs2' F0 Hx2]; reflexivity.
  - destruct Hx as [|x0 x0' xs2 xs2' F0 Hx2]. reflexivity.
    destruct Hx2 as [|x1 x1' xs3 xs3' F1 Hx3]. reflexivity.
    cbn [trapz]. rewrite E0, E1, F0, F1.
    rewrite (IH (x1 :: xs3) (x1' :: xs3')). reflexivity. constructor; auto.
Qed.
Lemma trapz_fin ys xs : trapz (map XFin ys) (map XFin xs) =x= XFin (trapzQ ys xs).
Proof.
  revert xs. induction ys as [|y0 ys IH]; intro xs. reflexivity.
  destruct ys as [|y1 ys]. destruct xs as [|x0 [|x1 xs]]; reflexivity.
  destruct xs as [|x0 [|x1 xs]]; try reflexivity.
  cbn [map trapz]. specialize (IH (x1 :: xs)). cbn [map] in IH. rewrite IH.
  change (trapzQ (y0 :: y1 :: ys) (x0 :: x1 :: xs)) with ((x1 - x0) * (y1 + y0) * (1 # 2) + trapzQ (y1 :: ys) (x1 :: xs)).
  cbn [xsub xneg xadd xmul]. rewrite xdiv_fin, ratio_nz by lra. cbn [xadd xeq]. field.
Qed.

Fixpoint noninc (l : list Q) : Prop :=
  match l with a :: ((b :: _) as t) => b <= a /\ noninc t | _ => True end.
Fixpoint nondec (l : list Q) : Prop :=
  match l with a :: ((b :: _) as t) => a <= b /\ nondec t | _ => True end.
Definition in01 (q : Q) : Prop := 0 <= q <= 1.

(* the (negated) trapezoid sum of points with non-increasing abscissae >= 0 and ordinates in [0,1] lies in [0, first abscissa] *)
Lemma trapzQ_bounds ys xs : Forall in01 ys -> noninc xs -> Forall (fun x => 0 <= x) xs ->
  0 <= - trapzQ ys xs <= hd 0 xs.
Proof.
  revert xs. induction ys as [|y0 ys IH]; intros xs Hy Hn Hx.
  - simpl. destruct xs; simpl; [lra | inversion Hx; lra].
  - destruct ys as [|y1 ys].
    + destruct xs as [|x0 [|x1 xs]]; simpl; try lra; inversion Hx; subst; lra.
    + destruct xs as [|x0 [|x1 xs]]; try (simpl; lra); try (simpl; inversion Hx; subst; lra).
      inversion Hy as [|? ? Hy0 Hy']; subst. inversion Hy' as [|? ? Hy1 _]; subst.
      inversion Hx as [|? ? Hx0 Hx']; subst. destruct Hn as [Hle Hn'].
      specialize (IH (x1 :: xs) Hy' Hn' Hx'). cbn [hd] in *.
      change (trapzQ (y0 :: y1 :: ys) (x0 :: x1 :: xs)) with ((x1 - x0) * (y1 + y0) * (1 # 2) + trapzQ (y1 :: ys) (x1 :: xs)).
      unfold in01 in *. split.
      * assert ((x1 - x0) * (y1 + y0) <= 0) by nra. lra.
      * assert (- 2 * (x0 - x1) <= (x1 - x0) * (y1 + y0)) by nra. lra.
Qed.

Lemma pods_fin cells ts : Forall wf cells -> ~ d1 cells == 0 ->
  Forall2 xeq (map (pod_at cells) (map XFin ts)) (map XFin (map (fun t => h1 cells t / d1 cells) ts)).
Proof.
  intros F D1. induction ts as [|t ts IH]; cbn [map]; constructor; auto.
  rewrite roc_point_pod by auto. unfold pod_spec. fold (d1 cells). rewrite ratio_nz by auto. reflexivity.
Qed.
Lemma pofds_fin cells ts : Forall wf cells -> ~ d0 cells == 0 ->
  Forall2 xeq (map (pofd_at cells) (map XFin ts)) (map XFin (map (fun t => h0 cells t / d0 cells) ts)).
Proof.
  intros F D0. induction ts as [|t ts IH]; cbn [map]; constructor; auto.
  rewrite roc_point_pofd by auto. unfold pofd_spec. fold (d0 cells). rewrite ratio_nz by auto. reflexivity.
Qed.

(* AUC of one output cell, thresholds sorted increasing, both classes non-empty, non-negative weights: a number in [0,1] *)
Lemma auc_unit cells ts : Forall wf cells -> wnonneg cells -> nondec ts -> ~ d1 cells == 0 -> ~ d0 cells == 0 ->
  exists a, auc_at cells (map XFin ts) =x= XFin a /\ 0 <= a <= 1.
Proof.
  intros F W S D1 D0.
  set (ys := map (fun t => h1 cells t / d1 cells) ts). set (xs := map (fun t => h0 cells t / d0 cells) ts).
  assert (P1 : 0 < d1 cells).
  { assert (0 <= h1 cells 0) by (apply (num_nonneg cells 1 W 0)). assert (h1 cells 0 <= d1 cells) by (apply (num_le_den cells 1 W 0)).
    destruct (Qlt_le_dec 0 (d1 cells)); auto. exfalso. apply D1. lra. }
  assert (P0 : 0 < d0 cells).
  { assert (0 <= h0 cells 0) by (apply (num_nonneg cells 0 W 0)). assert (h0 cells 0 <= d0 cells) by (apply (num_le_den cells 0 W 0)).
    destruct (Qlt_le_dec 0 (d0 cells)); auto. exfalso. apply D0. lra. }
  assert (Ey : Forall2 xeq (map (pod_at cells) (map XFin ts)) (map XFin ys)) by (apply pods_fin; auto).
  assert (Ex : Forall2 xeq (map (pofd_at cells) (map XFin ts)) (map XFin xs)) by (apply pofds_fin; auto).
  exists (- trapzQ ys xs). split.
  - unfold auc_at, auc_of. rewrite (trapz_xeq _ _ _ _ Ey Ex), trapz_fin. cbn [xmul xeq]. ring.
  - assert (B := trapzQ_bounds ys xs).
    assert (Hy : Forall in01 ys).
    { unfold ys. apply Forall_forall. intros y Hy. apply in_map_iff in Hy. destruct Hy as [t [<- _]].
      assert (0 <= h1 cells t) by (apply (num_nonneg cells 1 W t)). assert (h1 cells t <= d1 cells) by (apply (num_le_den cells 1 W t)).
      split; [apply Qle_shift_div_l | apply Qle_shift_div_r]; auto; lra. }
    assert (Hx : Forall (fun x => 0 <= x) xs).
    { unfold xs. apply Forall_forall. intros x Hx. apply in_map_iff in Hx. destruct Hx as [t [<- _]].
      assert (0 <= h0 cells t) by (apply (num_nonneg cells 0 W t)). apply Qle_shift_div_l; auto. lra. }
    assert (Hn : noninc xs).
    { unfold xs. clear -S W P0. induction ts as [|t [|t' ts] IH]; cbn [map noninc]; auto. destruct S as [Hle S']. split.
      - assert (h0 cells t' <= h0 cells t) by (apply (num_mono cells 0 W t t' Hle)).
        apply Qmult_le_compat_r; auto. apply Qinv_le_0_compat. lra.
      - apply IH. exact S'. }
    specialize (B Hy Hn Hx). split; [lra |].
    destruct ts as [|t ts]. simpl in *. lra.
    assert (hd 0 xs <= 1).
    { unfold xs. cbn [map hd]. assert (h0 cells t <= d0 cells) by (apply (num_le_den cells 0 W t)). apply Qle_shift_div_r; auto. lra. }
    lra.
Qed.
(* with an empty class (no weight among the events or among the non-events) every point of that coordinate is NaN *)
Lemma pod_nan_empty cells t : Forall wf cells -> wnonneg cells -> d1 cells == 0 -> pod_at cells (XFin t) = XNaN.
Proof.
  intros F W D. apply xeq_nan_l. rewrite roc_point_pod by auto. unfold pod_spec. fold (d1 cells).
  assert (0 <= h1 cells t) by (apply (num_nonneg cells 1 W t)). assert (h1 cells t <= d1 cells) by (apply (num_le_den cells 1 W t)).
  fold (h1 cells t). rewrite ratio_zz by lra. exact I.
Qed.
