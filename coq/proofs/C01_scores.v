(* proofs/C01_scores.v -- C01 lifted from the dimension rule to whole score functions of the model
   (mse, mae, additive_bias instantiate simple_mean_m; quantile_score has its own pre-checks). *)
From V Require Import lib.Tree proofs.C01 gen.Gen_quantile_loss gen.Gen_standard gen.Gen_functions gen.Gen_interval model.C05.
Open Scope string_scope.

Definition data_dims (f o : larr) : list dim := dunion (ldims f) (ldims o).
Definition req (r1 r2 : result larr) : Prop :=
  match r1, r2 with Ok a, Ok b => a = b | Err e1, Err e2 => e1 = e2 | _, _ => False end.

Lemma seteq_ddiff_ddiff A R : dsubset R A = true -> seteq R (ddiff A (ddiff A R)).
Proof. intros Hsub d. rewrite !mem_ddiff. destruct (mem d R) eqn:E.
 - rewrite (dsubset_mem _ _ _ Hsub E). reflexivity.
 - cbn [negb]. rewrite andb_true_r. destruct (mem d A); reflexivity. Qed.

Theorem simple_mean_reduce_preserve k f o w R : dsubset R (data_dims f o) = true ->
  req (simple_mean_m k f o (DList R) DNone w) (simple_mean_m k f o DNone (DList (ddiff (data_dims f o) R)) w).
Proof. intro Hsub. unfold simple_mean_m, data_dims in *.
 change (dunion (ldims f) (ldims o)) with (all_data (ldims f) (ldims o) None) in *.
 rewrite (gather_reduce_list _ _ None R Hsub). rewrite (gather_preserve_list _ _ None _ (dsubset_ddiff _ R)).
 cbn [rbind req]. apply mean_score_seteq. apply seteq_ddiff_ddiff. exact Hsub. Qed.

Theorem simple_mean_none_is_all k f o w : simple_mean_m k f o DNone DNone w = simple_mean_m k f o (DStr "all") DNone w.
Proof. unfold simple_mean_m. rewrite gather_none_is_all. reflexivity. Qed.

Theorem simple_mean_both_error k f o w r p : r <> DNone -> p <> DNone -> simple_mean_m k f o r p w = Err ValueError.
Proof. intros Hr Hp. unfold simple_mean_m. rewrite gather_both_err by assumption. reflexivity. Qed.

Theorem simple_mean_absent_error k f o w l d : In d l -> mem d (data_dims f o) = false ->
  simple_mean_m k f o (DList l) DNone w = Err ValueError /\ simple_mean_m k f o DNone (DList l) w = Err ValueError.
Proof. intros Hin Hm. unfold simple_mean_m, data_dims in *.
 change (dunion (ldims f) (ldims o)) with (all_data (ldims f) (ldims o) None) in Hm.
 rewrite (gather_absent_reduce_err _ _ None l d Hin Hm), (gather_absent_preserve_err _ _ None l d Hin Hm). split; reflexivity. Qed.

(* result dims of a successful call = dims of fcst, obs and weights minus the reduced set *)
Theorem simple_mean_result_dims k f o w rd pd R r : gather (ldims f) (ldims o) None rd pd DNone = Ok R ->
  simple_mean_m k f o rd pd w = Ok r ->
  forall d, mem d (ldims r) = mem d (ldims (apply_weights w (lzip k f o))) && negb (mem d R).
Proof. intros HR H d. unfold simple_mean_m in H. rewrite HR in H. cbn [rbind] in H. inversion H; subst. apply mean_score_dims. Qed.
