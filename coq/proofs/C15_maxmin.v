(* proofs/C15_maxmin.v -- the PAV-mean fit equals the max-min of block averages:
   fit_i = max over j <= i of min over k >= i of the weighted mean of the observations j..k. *)
From Coq Require Import Permutation.
From V Require Import lib.Tree model.C15 proofs.C15 proofs.C15_mean.
Open Scope list_scope.
Open Scope Q_scope.

(* ---- mean vs deviation ---- *)
Lemma wmean_ge l v : wpos l -> l <> [] -> 0 <= dev l v -> v <= wmean l.
Proof. intros Hp N D. pose proof (sum_w_pos l Hp N) as W. unfold dev in D. unfold wmean. apply Qle_shift_div_l; lra. Qed.
Lemma wmean_le l v : wpos l -> l <> [] -> dev l v <= 0 -> wmean l <= v.
Proof. intros Hp N D. pose proof (sum_w_pos l Hp N) as W. unfold dev in D. unfold wmean. apply Qle_shift_div_r; lra. Qed.

(* ---- prefixes of later blocks lie above, suffixes of earlier blocks lie below ---- *)
Lemma dev_raise l v v' : wpos l -> v <= v' -> dev l v' <= dev l v.
Proof. intros Hp H. rewrite (dev_shift l v v'). pose proof (sum_w_nonneg l Hp). nra. Qed.

Lemma prefix_of_later bs v : Forall good bs -> Forall (fun b => v <= bval b) bs ->
  forall P rest, flat_map bitems bs = P ++ rest -> 0 <= dev P v.
Proof. induction bs as [|b t IH]; intros G V P rest E.
  - simpl in E. symmetry in E. apply app_eq_nil in E. destruct E as [-> _]. unfold dev. simpl. lra.
  - simpl in E. destruct (Forall_inv G) as [Bp Bn Bc Bpre]. pose proof (Forall_inv V) as Vb. cbv beta in Vb.
    destruct (app_eq_app_cases _ _ _ _ E) as [[m [E1 E2]]|[m [E1 E2]]].
    + (* P = bitems b ++ m *)
      rewrite E1, dev_app. unfold centered in Bc.
      assert (0 <= dev (bitems b) v) by (pose proof (dev_raise (bitems b) v (bval b) Bp Vb); lra).
      pose proof (IH (Forall_inv_tail G) (Forall_inv_tail V) m rest E2). lra.
    + (* P a prefix of b *)
      assert (Pp : wpos P) by (rewrite E1 in Bp; apply wpos_app in Bp; tauto).
      pose proof (Bpre P m E1). pose proof (dev_raise P v (bval b) Pp Vb). lra.
Qed.

Lemma suf_ok b : good b -> forall P S, bitems b = P ++ S -> dev S (bval b) <= 0.
Proof. intros [Bp Bn Bc Bpre] P S E. pose proof (Bpre P S E). unfold centered in Bc. rewrite E, dev_app in Bc. lra. Qed.

Lemma suffix_of_earlier bs v : Forall good bs -> Forall (fun b => bval b <= v) bs ->
  forall pre S, flat_map bitems bs = pre ++ S -> dev S v <= 0.
Proof. induction bs as [|b t IH] using rev_ind; intros G V pre S E.
  - simpl in E. symmetry in E. apply app_eq_nil in E. destruct E as [_ ->]. unfold dev. simpl. lra.
  - rewrite flat_map_app in E. simpl in E. rewrite app_nil_r in E.
    apply Forall_app in G. destruct G as [Gt Gb]. apply Forall_app in V. destruct V as [Vt Vb].
    pose proof (Forall_inv Gb) as Gb'. pose proof (Forall_inv Vb) as Vb'. cbv beta in Vb'. destruct Gb' as [Bp Bn Bc Bpre].
    destruct (app_eq_app_cases _ _ _ _ E) as [[m [E1 E2]]|[m [E1 E2]]].
    + (* S a suffix of b *)
      assert (Sp : wpos S) by (rewrite E2 in Bp; apply wpos_app in Bp; tauto).
      pose proof (suf_ok b (Forall_inv Gb) m S E2).
      rewrite (dev_shift S (bval b) v). pose proof (sum_w_nonneg _ Sp). nra.
    + (* S = m ++ bitems b with m a suffix of the earlier blocks *)
      rewrite E2, dev_app. pose proof (IH Gt Vt pre m E1) as X.
      unfold centered in Bc. assert (dev (bitems b) v <= 0).
      { rewrite (dev_shift (bitems b) (bval b) v). pose proof (sum_w_nonneg _ Bp). nra. }
      lra.
Qed.

(* ---- list minima / maxima are members ---- *)
Lemma lmax_in l : l <> [] -> In (lmax l) l.
Proof. destruct l as [|a t]; [congruence|]. intros _. unfold lmax. induction t as [|b t IH]; simpl; [left; reflexivity|].
  destruct (Qle_bool b _); [destruct IH as [E|I]; [left; exact E | right; right; exact I] | right; left; reflexivity]. Qed.
Lemma lmin_in l : l <> [] -> In (lmin l) l.
Proof. destruct l as [|a t]; [congruence|]. intros _. unfold lmin. induction t as [|b t IH]; simpl; [left; reflexivity|].
  destruct (Qle_bool b _); [right; left; reflexivity | destruct IH as [E|I]; [left; exact E | right; right; exact I]]. Qed.

(* ---- locating the block of a position ---- *)
Lemma expand_app bs1 bs2 : expand (bs1 ++ bs2) = expand bs1 ++ expand bs2.
Proof. unfold expand. apply flat_map_app. Qed.
Lemma block_at bs : Forall (fun b => bitems b <> []) bs -> forall i, (i < length (flat_map bitems bs))%nat ->
  exists pre B post, bs = pre ++ B :: post /\ (length (flat_map bitems pre) <= i < length (flat_map bitems pre) + length (bitems B))%nat /\
                     nth i (expand bs) 0 = bval B.
Proof. induction bs as [|b t IH]; intros N i Hi; [simpl in Hi; lia|]. simpl in Hi. rewrite app_length in Hi.
  destruct (lt_dec i (length (bitems b))) as [L|L].
  - exists [], b, t. split; [reflexivity|]. split; [simpl; lia|]. unfold expand. simpl. rewrite app_nth1 by (rewrite map_length; exact L).
    rewrite (nth_indep _ 0 ((fun _ : item => bval b) (0, 0))) by (rewrite map_length; exact L).
    rewrite (map_nth (fun _ : item => bval b) (bitems b) (0, 0) i). reflexivity.
  - destruct (IH (Forall_inv_tail N) (i - length (bitems b))%nat ltac:(lia)) as [pre [B [post [E [R V]]]]].
    exists (b :: pre), B, post. split; [simpl; rewrite E; reflexivity|]. split; [simpl; rewrite app_length; lia|].
    unfold expand in *. simpl. rewrite app_nth2 by (rewrite map_length; lia). rewrite map_length. exact V. Qed.

Lemma adj_before_after {A} (R : A -> A -> Prop) : (forall a b c, R a b -> R b c -> R a c) ->
  forall pre x post, adj R (pre ++ x :: post) -> Forall (fun a => R a x) pre /\ Forall (fun c => R x c) post.
Proof. intros Tr pre x post H. split.
  - induction pre as [|a t IH]; [constructor|]. simpl in H. constructor.
    + clear IH. revert a H. induction t as [|b t IHt]; intros a H; simpl in H; [tauto|]. destruct H as [Hab H]. apply Tr with b; [exact Hab | apply IHt; exact H].
    + apply IH. apply (adj_tail _ _ _ H).
  - apply adj_app_inv in H. destruct H as [_ H]. clear pre. revert x H. induction post as [|c t IH]; intros x H; [constructor|].
    destruct H as [Hxc H]. constructor; [exact Hxc|]. specialize (IH c H). eapply Forall_impl; [|exact IH]. intros d Hd. apply Tr with c; assumption. Qed.

Lemma wpos_sub (l m : list item) : wpos l -> (forall x, In x m -> In x l) -> wpos m.
Proof. unfold wpos. rewrite !Forall_forall. auto. Qed.

Theorem pav_mean_maxmin l i : wpos l -> (i < length l)%nat -> nth i (pav mean_sv l) 0 == maxmin_item l i.
Proof.
  intros Hp Hi. destruct (pav_total mean_sv l) as [bs [E [Ex [Hitems Hv Hs _]]]].
  pose proof (pav_mean_good l bs Hp E) as G.
  assert (Nn : Forall (fun b => bitems b <> []) bs) by (eapply Forall_impl; [|exact G]; intros b [_ Bn _ _]; exact Bn).
  destruct (block_at bs Nn i ltac:(rewrite Hitems; exact Hi)) as [pre [B [post [Ebs [[R1 R2] V]]]]].
  rewrite Ex, V. set (v := bval B).
  (* blocks before are below, blocks after are above *)
  rewrite Ebs in Hs. destruct (adj_before_after vlt ltac:(unfold vlt; intros; lra) pre B post Hs) as [Hb Ha].
  rewrite Ebs in G. apply Forall_app in G. destruct G as [Gpre GB]. pose proof (Forall_inv GB) as GBb. pose proof (Forall_inv_tail GB) as Gpost.
  destruct GBb as [Bp Bn Bc Bpre].
  assert (Vpre : Forall (fun b => bval b <= v) pre) by (eapply Forall_impl; [|exact Hb]; intros a0 Hx; unfold vlt in Hx; cbv beta in Hx |- *; unfold v; lra).
  assert (Vpost : Forall (fun b => v <= bval b) post) by (eapply Forall_impl; [|exact Ha]; intros a0 Hx; unfold vlt in Hx; cbv beta in Hx |- *; unfold v; lra).
  assert (El : l = flat_map bitems pre ++ bitems B ++ flat_map bitems post).
  { rewrite <- Hitems, Ebs, flat_map_app. reflexivity. }
  set (P0 := flat_map bitems pre) in *. set (Q0 := flat_map bitems post) in *. set (j0 := length P0) in *.
  assert (Ln : length l = (j0 + length (bitems B) + length Q0)%nat) by (rewrite El, !app_length; unfold j0; lia).
  unfold maxmin_item. apply Qle_antisym.
  - (* v <= max-min: take j = start of the block *)
    apply Qle_trans with (lmin (map (fun k => wmean (seg l j0 k)) (seq i (length l - i)))).
    + assert (Nl : map (fun k => wmean (seg l j0 k)) (seq i (length l - i)) <> []) by (destruct (length l - i)%nat eqn:X; [lia | simpl; discriminate]).
      pose proof (lmin_in _ Nl) as I. apply in_map_iff in I. destruct I as [k [<- Hk]]. apply in_seq in Hk.
      set (P := seg l j0 k).
      assert (EP : exists rest, bitems B ++ Q0 = P ++ rest /\ P <> []).
      { unfold P, seg. rewrite El. rewrite skipn_app, skipn_all2 by (unfold j0; lia). replace (j0 - length P0)%nat with O by (unfold j0; lia). simpl skipn.
        exists (skipn (k - j0 + 1) (bitems B ++ Q0)). split; [symmetry; apply firstn_skipn|].
        intro X. apply (f_equal (@length item)) in X. rewrite firstn_length, app_length in X. simpl in X. destruct (bitems B); [contradiction | simpl in X; lia]. }
      destruct EP as [rest [EP NP]].
      assert (PP : wpos P).
      { apply (wpos_sub l); [exact Hp|]. intros y Hy. rewrite El. apply in_or_app. right. rewrite EP. apply in_or_app. left. exact Hy. }
      apply wmean_ge; [exact PP | exact NP|].
      destruct (app_eq_app_cases _ _ _ _ EP) as [[m [E1 E2]]|[m [E1 E2]]].
      * rewrite E1, dev_app. unfold centered in Bc. fold v in Bc. rewrite Bc.
        pose proof (prefix_of_later post v Gpost Vpost m rest E2). lra.
      * apply (Bpre P m). exact E1.
    + apply lmax_ge. apply in_map_iff. exists j0. split; [reflexivity|]. apply in_seq. lia.
  - (* max-min <= v: for every j use k = end of the block *)
    assert (Nl : map (fun j => lmin (map (fun k => wmean (seg l j k)) (seq i (length l - i)))) (seq 0 (i + 1)) <> []) by (rewrite Nat.add_1_r; simpl; discriminate).
    pose proof (lmax_in _ Nl) as I. apply in_map_iff in I. destruct I as [j [<- Hj]]. apply in_seq in Hj.
    set (k0 := (j0 + length (bitems B) - 1)%nat).
    apply Qle_trans with (wmean (seg l j k0)).
    + apply lmin_le. apply in_map_iff. exists k0. split; [reflexivity|]. apply in_seq. unfold k0. lia.
    + set (S := seg l j k0).
      assert (ES : exists p, P0 ++ bitems B = p ++ S /\ S <> []).
      { unfold S, seg. rewrite El, app_assoc. rewrite skipn_app.
        assert (Lj : (j <= length (P0 ++ bitems B))%nat) by (rewrite app_length; unfold j0 in *; lia).
        replace (j - length (P0 ++ bitems B))%nat with O by lia. simpl skipn.
        rewrite firstn_app. assert (Lk : (k0 - j + 1 = length (skipn j (P0 ++ bitems B)))%nat) by (rewrite skipn_length, app_length; unfold k0, j0 in *; lia).
        rewrite Lk, firstn_all, Nat.sub_diag. simpl firstn. rewrite app_nil_r.
        exists (firstn j (P0 ++ bitems B)). split; [symmetry; apply firstn_skipn|].
        intro X. apply (f_equal (@length item)) in X. rewrite <- Lk in X. simpl in X. lia. }
      destruct ES as [p [ES NS]].
      assert (SP : wpos S).
      { apply (wpos_sub l); [exact Hp|]. intros y Hy. rewrite El, app_assoc. apply in_or_app. left. rewrite ES. apply in_or_app. right. exact Hy. }
      apply wmean_le; [exact SP | exact NS|].
      destruct (app_eq_app_cases _ _ _ _ ES) as [[m [E1 E2]]|[m [E1 E2]]].
      * (* p = P0 ++ m: S is a suffix of the block *)
        apply (suf_ok B (Forall_inv GB) m S E2).
      * rewrite E2, dev_app. unfold centered in Bc. fold v in Bc. rewrite Bc.
        pose proof (suffix_of_earlier pre v Gpre Vpre p m E1). lra.
Qed.
