(* proofs/C03.v -- weights act as a pointwise multiplier before the NaN-skipping mean. *)
From V Require Import lib.Tree proofs.C01 gen.Gen_weights.
Open Scope string_scope.

(* ---- pointwise factorisation: preserve_dims='all' with weights w = w * unweighted pointwise result ---- *)
Theorem weights_pointwise s w e :
  lget (mean_score s (Some w) []) e =x= xmul (lget (mean_score s None []) e) (lget w e).
Proof. unfold mean_score. rewrite !lreduce_nil. cbn [apply_weights lzip lget].
 rewrite (nanmean_singleton (xmul (lget s e) (lget w e))).
 apply xmul_Proper; [symmetry; apply nanmean_singleton | reflexivity]. Qed.

(* weights on a subset of dims act along those dims only: the weight seen by a cell is w at the cell's own labels
   (a weight array that does not have dimension d ignores the position along d) *)
Theorem weights_broadcast dims data e d n : mem d (map fst dims) = false ->
  lget (of_flat dims data) (upd e d n) = lget (of_flat dims data) e.
Proof. intro H. cbn [of_flat lget]. f_equal. induction dims as [|[d0 n0] t IH]; cbn [flat_index]; auto.
 cbn [map fst mem existsb] in H. apply orb_false_iff in H. destruct H as [H1 H2].
 rewrite IH by exact H2. unfold upd. rewrite String.eqb_sym in H1. rewrite H1. reflexivity. Qed.

(* ---- unit weights change nothing ---- *)
Lemma xmul_one v : xmul v X1 =x= v.
Proof. destruct v as [|q|b]; simpl; auto. ring. Qed.
Theorem weights_unit s u R e : (forall e', lget u e' = X1) ->
  Forall2 xeq (map (lget (apply_weights (Some u) s)) (envs (lsize s) R e)) (map (lget (apply_weights None s)) (envs (lsize s) R e)).
Proof. intro H. induction (envs (lsize s) R e) as [|x t IH]; simpl; constructor; auto.
 rewrite H. apply xmul_one. Qed.
Corollary weights_unit_mean l : nanmean (map (fun v => xmul v X1) l) =x= nanmean l.
Proof. apply nanmean_ext. induction l; simpl; constructor; auto. apply xmul_one. Qed.

(* ---- scaling: weights c*w scale the score by c (c finite, non-zero; c = 0 is the constant 0 on valid cases) ---- *)
Lemma valids_scale c l : ~ c == 0 ->
  valids (map (xmul (XFin c)) l) = map (xmul (XFin c)) (valids l).
Proof. intro Hc. induction l as [|x t IH]; simpl; auto. destruct x as [|q|b]; simpl; rewrite ?IH; auto.
 unfold Qsgn. destruct (Qcompare_spec c 0) as [E|E|E]; simpl; rewrite ?IH; auto. contradiction. Qed.
Lemma xsum_allfin l : (forall v, In v l -> xisfin v = true) -> exists s, xsum l = XFin s.
Proof. induction l as [|y t IH]; intro H. exists 0; reflexivity.
 assert (Hy : xisfin y = true) by (apply H; left; auto). destruct y as [|q|b]; try discriminate.
 destruct IH as [s Hs]. { intros v Hv. apply H. right; auto. }
 exists (q + s). change (xsum (XFin q :: t)) with (xadd (XFin q) (xsum t)). rewrite Hs. reflexivity. Qed.
Lemma xsum_scale_fin c l : (forall v, In v l -> xisfin v = true) ->
  xsum (map (xmul (XFin c)) l) =x= xmul (XFin c) (xsum l).
Proof. intro H. induction l as [|x t IH].
 - cbn. ring.
 - assert (Hx : xisfin x = true) by (apply H; left; auto). destruct x as [|q|b]; try discriminate.
   assert (Ht : forall v, In v t -> xisfin v = true) by (intros v Hv; apply H; right; auto).
   specialize (IH Ht). destruct (xsum_allfin t Ht) as [s Hs].
   change (xsum (map (xmul (XFin c)) (XFin q :: t))) with (xadd (XFin (c * q)) (xsum (map (xmul (XFin c)) t))).
   change (xsum (XFin q :: t)) with (xadd (XFin q) (xsum t)). rewrite Hs in *.
   destruct (xsum (map (xmul (XFin c)) t)) as [|s'|b']; cbn [xmul xadd xeq] in *; try tauto. rewrite IH. ring. Qed.

Theorem nanmean_scale c l : ~ c == 0 -> (forall v, In v l -> xisinf v = false) ->
  nanmean (map (xmul (XFin c)) l) =x= xmul (XFin c) (nanmean l).
Proof. intros Hc Hfin. unfold nanmean, nancount, nansum. rewrite (valids_scale c l Hc). rewrite map_length.
 destruct (length (valids l)) eqn:E; [reflexivity|].
 assert (Hv : forall v, In v (valids l) -> xisfin v = true).
 { intros v Hv. unfold valids in Hv. apply filter_In in Hv. destruct Hv as [Hin Hval]. specialize (Hfin v Hin).
   destruct v; simpl in *; auto; discriminate. }
 pose proof (xsum_scale_fin c (valids l) Hv) as Hs.
 assert (Hf : exists s, xsum (valids l) = XFin s) by (apply xsum_allfin; exact Hv).
 destruct Hf as [s Es]. rewrite Es in *.
 destruct (xsum (map (xmul (XFin c)) (valids l))) as [|s'|b]; simpl in Hs; try tauto.
 unfold xofnat, xdiv. pose proof (Qeq_bool_spec (inject_Z (Z.of_nat (S n))) 0) as Hz.
 destruct (Qeq_bool (inject_Z (Z.of_nat (S n))) 0). exfalso; exact (inject_nat_nz _ Hz).
 simpl. rewrite Hs. field. exact Hz. Qed.

(* ---- additivity in the weights, under the hypothesis the mathematics forces: equal NaN masks.
        Stated on the list of weighted per-case scores of one output cell. ---- *)
Definition wscore (s w : xv) := xmul s w.
Definition sc (t : xv * Q * Q) : Q := match fst (fst t) with XFin s => s | _ => 0 end.
Definition tvalid (t : xv * Q * Q) : bool := xnotnull (fst (fst t)).

Lemma valids_wscore (h : xv * Q * Q -> Q) l : (forall t, In t l -> xisinf (fst (fst t)) = false) ->
  valids (map (fun t => wscore (fst (fst t)) (XFin (h t))) l) = fins (map (fun t => sc t * h t) (filter tvalid l)).
Proof. induction l as [|[[s a] b] t IH]; intro H. reflexivity.
 assert (Hs : xisinf s = false) by (apply (H (s, a, b)); left; auto).
 assert (IH' := IH (fun t0 Ht0 => H t0 (or_intror Ht0))).
 destruct s as [|s|bb]; try discriminate; cbn [map filter tvalid fst snd xnotnull xisnan negb wscore xmul].
 - exact IH'.
 - change (valids (XFin (s * h (XFin s, a, b)) :: map (fun t0 => wscore (fst (fst t0)) (XFin (h t0))) t))
     with (XFin (s * h (XFin s, a, b)) :: valids (map (fun t0 => wscore (fst (fst t0)) (XFin (h t0))) t)).
   rewrite IH'. reflexivity. Qed.

Lemma nanmean_wscore (h : xv * Q * Q -> Q) l : (forall t, In t l -> xisinf (fst (fst t)) = false) ->
  nanmean (map (fun t => wscore (fst (fst t)) (XFin (h t))) l) =x=
  match filter tvalid l with
  | [] => XNaN
  | vs => XFin (qsum (map (fun t => sc t * h t) vs) / inject_Z (Z.of_nat (length vs))) end.
Proof. intro H. rewrite nanmean_valids, (valids_wscore h l H).
 destruct (filter tvalid l) as [|t0 vs] eqn:E. reflexivity.
 rewrite nanmean_fins by discriminate. rewrite map_length. reflexivity. Qed.

Theorem nanmean_additive (l : list (xv * Q * Q)) :
  (forall t, In t l -> xisinf (fst (fst t)) = false) ->
  nanmean (map (fun t => wscore (fst (fst t)) (XFin (snd (fst t) + snd t))) l) =x=
  xadd (nanmean (map (fun t => wscore (fst (fst t)) (XFin (snd (fst t)))) l))
       (nanmean (map (fun t => wscore (fst (fst t)) (XFin (snd t))) l)).
Proof.
  intro Hfin.
  rewrite (nanmean_wscore (fun t => snd (fst t) + snd t) l Hfin), (nanmean_wscore (fun t => snd (fst t)) l Hfin),
          (nanmean_wscore (fun t => snd t) l Hfin).
  destruct (filter tvalid l) as [|t0 vs]. reflexivity.
  cbn [xadd xeq].
  assert (Hn : ~ inject_Z (Z.of_nat (length (t0 :: vs))) == 0) by (cbn [length]; apply inject_nat_nz).
  assert (Hsum : qsum (map (fun t => sc t * (snd (fst t) + snd t)) (t0 :: vs)) ==
                 qsum (map (fun t => sc t * snd (fst t)) (t0 :: vs)) + qsum (map (fun t => sc t * snd t) (t0 :: vs))).
  { clear. induction (t0 :: vs) as [|t l IH]; cbn [map qsum]. ring. rewrite IH. ring. }
  rewrite Hsum. field. exact Hn.
Qed.

(* with different NaN masks additivity is false for any NaN-skipping mean: a two-case witness *)
Theorem weights_additive_needs_equal_masks_refuted :
  exists s1 s2 w1a w1b w2a w2b,
    ~ nanmean [xmul s1 (xadd w1a w2a); xmul s2 (xadd w1b w2b)] =x=
      xadd (nanmean [xmul s1 w1a; xmul s2 w1b]) (nanmean [xmul s1 w2a; xmul s2 w2b]).
Proof. exists (XFin 1), (XFin 3), (XFin 1), XNaN, (XFin 1), (XFin 1). vm_compute. intro H. discriminate. Qed.

(* ---- ratio scores are invariant under a positive constant weight ---- *)
Theorem ratio_scale_invariant (c a b : Q) : 0 < c -> xdiv (xmul (XFin c) (XFin a)) (xmul (XFin c) (XFin b)) =x= xdiv (XFin a) (XFin b).
Proof. intro Hc. unfold xdiv, xmul.
 pose proof (Qeq_bool_spec (c * b) 0) as H1. pose proof (Qeq_bool_spec b 0) as H2.
 destruct (Qeq_bool (c * b) 0), (Qeq_bool b 0).
 - unfold Qsgn. destruct (Qcompare_spec (c * a) 0), (Qcompare_spec a 0); simpl; auto; exfalso; nra.
 - exfalso. apply H2. nra.
 - exfalso. apply H1. rewrite H2. ring.
 - simpl. field. split; auto. lra. Qed.

(* ---- the same at the level of whole labelled arrays: weights c*w scale every cell of the aggregated score by c ---- *)
Lemma xmul_scale_assoc c s w : xisinf s = false -> xisinf w = false ->
  xmul s (xmul (XFin c) w) =x= xmul (XFin c) (xmul s w).
Proof. destruct s as [|s|], w as [|w|]; intros; try discriminate; cbn; auto. ring. Qed.

Theorem mean_score_constant_weight_scales (s w : larr) (c : Q) (R : list dim) (e : env) :
  ~ c == 0 -> (forall e', xisinf (lget s e') = false) -> (forall e', xisinf (lget w e') = false) ->
  lget (mean_score s (Some (lmap (xmul (XFin c)) w)) R) e =x= xmul (XFin c) (lget (mean_score s (Some w) R) e).
Proof. intros Hc Hs Hw. unfold mean_score, apply_weights. cbn [lget lreduce lzip lmap ldims lsize].
 set (L := envs (fun d => if mem d (ldims s) then lsize s d else lsize w d) (dinter (dunion (ldims s) (ldims w)) R) e).
 rewrite <- (nanmean_scale c (map (fun e0 => xmul (lget s e0) (lget w e0)) L) Hc).
 - apply nanmean_ext. rewrite map_map. induction L as [|x t IH]; cbn [map]; constructor; auto.
   apply xmul_scale_assoc; auto.
 - intros v Hv. apply in_map_iff in Hv. destruct Hv as [x [<- _]].
   specialize (Hs x). specialize (Hw x). destruct (lget s x), (lget w x); cbn in *; try discriminate; auto. Qed.

(* ---- route A: the helper every score calls, regenerated from functions.py (site C03.aw, gen/Gen_weights.v) ---- *)
(* the code of apply_weights, read off the source: no weights = the values themselves, weights = one multiplication *)
Theorem gen_apply_weights_none v : gen_apply_weights v None = v.
Proof. reflexivity. Qed.
Theorem gen_apply_weights_some v w : gen_apply_weights v (Some w) = xmul v w.
Proof. reflexivity. Qed.
(* the labelled-array functional used by every theorem above is, cell by cell, the regenerated code *)
Theorem apply_weights_is_code w s e :
  lget (apply_weights w s) e = gen_apply_weights (lget s e) (option_map (fun a => lget a e) w).
Proof. destruct w as [w|]; reflexivity. Qed.
(* hence the pointwise factorisation, stated against the regenerated code rather than the hand model *)
Theorem weights_pointwise_code s w e :
  lget (mean_score s (Some w) []) e =x= gen_apply_weights (lget (mean_score s None []) e) (Some (lget w e)).
Proof. rewrite gen_apply_weights_some. apply weights_pointwise. Qed.
(* the code never looks at anything but the two values of the cell: a NaN score or NaN weight gives NaN, and for finite
   values the result is the rational product *)
Theorem gen_apply_weights_nan v w : v = XNaN \/ w = XNaN -> gen_apply_weights v (Some w) = XNaN.
Proof. intros [H|H]; subst; [reflexivity | destruct v; reflexivity]. Qed.
Theorem gen_apply_weights_fin a b : gen_apply_weights (XFin a) (Some (XFin b)) = XFin (a * b).
Proof. reflexivity. Qed.
