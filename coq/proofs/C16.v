(* proofs/C16.v -- lemmas behind the C16 theorems: the code-faithful FSS model against the
   sliding-window definition, and the algebraic properties of the score. *)
From V Require Import lib.Tree model.C16 proofs.C16_sat.
Open Scope Q_scope.

(* ------------------------------------------------------------------------------------------ *)
(* Q-level facts about the score                                                               *)
(* ------------------------------------------------------------------------------------------ *)
Lemma qz_add a b : qz (a + b) == qz a + qz b.
Proof. unfold qz. rewrite inject_Z_plus. reflexivity. Qed.
Lemma qz_le a b : (a <= b)%Z -> qz a <= qz b.
Proof. unfold qz. rewrite <- Zle_Qle. auto. Qed.
Lemma qz_lt a b : (a < b)%Z -> qz a < qz b.
Proof. unfold qz. rewrite <- Zlt_Qlt. auto. Qed.
Lemma qz_0 : qz 0 == 0. Proof. reflexivity. Qed.

Lemma qclamp_compat x y : x == y -> qmax (qmin x 1) 0 == qmax (qmin y 1) 0.
Proof. intro E. unfold qmax, qmin. pose proof (Qle_bool_spec x 1); pose proof (Qle_bool_spec y 1).
 destruct (Qle_bool x 1), (Qle_bool y 1); qcmp; lra. Qed.
Lemma qclamp_id x : 0 <= x <= 1 -> qmax (qmin x 1) 0 == x.
Proof. intro E. unfold qmax, qmin. pose proof (Qle_bool_spec x 1). destruct (Qle_bool x 1); qcmp; lra. Qed.
Lemma qclamp_range x : 0 <= qmax (qmin x 1) 0 <= 1.
Proof. unfold qmax, qmin. pose proof (Qle_bool_spec x 1). destruct (Qle_bool x 1); qcmp; lra. Qed.

Lemma Qltb_compat x y : x == y -> Qltb 0 x = Qltb 0 y.
Proof. intro E. unfold Qltb. f_equal. apply Qle_bool_compat; auto. reflexivity. Qed.

Lemma fss_of_comps_proper c c' : cf c == cf c' -> co c == co c' -> cd c == cd c' -> fss_of_comps c == fss_of_comps c'.
Proof.
  intros E1 E2 E3. unfold fss_of_comps. apply qclamp_compat.
  rewrite (Qltb_compat (cf c + co c) (cf c' + co c')) by (rewrite E1, E2; reflexivity).
  destruct (Qltb 0 (cf c' + co c')). rewrite E1, E2, E3; reflexivity. reflexivity.
Qed.

(* the score does not depend on the common normalisation of the three components *)
Lemma fss_scaled a b d M : 0 < M -> fss_of_comps {| cf := a / M; co := b / M; cd := d / M |} == fss_sums a b d.
Proof.
  intro HM. unfold fss_of_comps, fss_sums. cbn [cf co cd].
  assert (E : a / M + b / M == (a + b) / M) by (field; lra).
  pose proof (Qltb_spec 0 (a + b)) as S. destruct (Qltb 0 (a + b)).
  - rewrite Qltb_true.
    + apply qclamp_compat. rewrite E. field. split; lra.
    + rewrite E. apply Qlt_shift_div_l; lra.
  - rewrite Qltb_false. reflexivity.
    rewrite E. apply Qle_shift_div_r; lra.
Qed.

Lemma fss_sums_range sf so sd : 0 <= sd <= sf + so -> 0 <= fss_sums sf so sd <= 1.
Proof. intros. unfold fss_sums. destruct (Qltb 0 (sf + so)). apply qclamp_range. lra. Qed.
(* for event counts the clamp never acts *)
Lemma fss_sums_unclamped sf so sd : 0 <= sd <= sf + so -> 0 < sf + so ->
  fss_sums sf so sd == fss_raw sf so sd /\ 0 <= fss_raw sf so sd <= 1.
Proof.
  intros H P. unfold fss_sums, fss_raw. rewrite Qltb_true by auto.
  assert (R : 0 <= sd / (sf + so) <= 1).
  { split. apply Qle_shift_div_l; lra. apply Qle_shift_div_r; lra. }
  split. apply qclamp_id. lra. lra.
Qed.
Lemma fss_sums_zero_denominator sf so sd : sf + so <= 0 -> fss_sums sf so sd = 0.
Proof. intro H. unfold fss_sums. rewrite Qltb_false; auto. Qed.
Lemma fss_sums_one sf so : 0 < sf + so -> fss_sums sf so 0 == 1.
Proof. intro P. unfold fss_sums. rewrite Qltb_true by auto. rewrite qclamp_id; unfold Qdiv; rewrite Qmult_0_l; lra. Qed.
Lemma fss_sums_sym sf so sd : fss_sums sf so sd == fss_sums so sf sd.
Proof.
  unfold fss_sums. rewrite (Qltb_compat (sf + so) (so + sf)) by ring.
  destruct (Qltb 0 (so + sf)). apply qclamp_compat. rewrite (Qplus_comm sf so). reflexivity. reflexivity.
Qed.

(* ------------------------------------------------------------------------------------------ *)
(* sums over the position grid                                                                 *)
(* ------------------------------------------------------------------------------------------ *)
Definition Sf nr nc (wf : nat -> nat -> Z) := grid_sum nr nc (fun r c => sqz (wf r c)).
Definition Sd nr nc (wf wo : nat -> nat -> Z) := grid_sum nr nc (fun r c => sqz (wo r c - wf r c)).

Lemma grid_sum_ext nr nc g g' : (forall r c, (r < nr)%nat -> (c < nc)%nat -> g r c = g' r c) ->
  grid_sum nr nc g = grid_sum nr nc g'.
Proof. intro E. unfold grid_sum. apply zsum_ext. intros r Hr. apply zsum_ext. intros c Hc. auto. Qed.
Lemma grid_sum_drop_row nr nc g : (forall c, (c < nc)%nat -> g nr c = 0%Z) -> grid_sum (S nr) nc g = grid_sum nr nc g.
Proof. intro Z0. unfold grid_sum. cbn [zsum]. rewrite (zsum_zero nc (fun c => g nr c)) by auto. lia. Qed.
Lemma grid_sum_drop_col nr nc g : (forall r, (r < nr)%nat -> g r nc = 0%Z) -> grid_sum nr (S nc) g = grid_sum nr nc g.
Proof. intro Z0. unfold grid_sum. apply zsum_ext. intros r Hr. cbn [zsum]. rewrite Z0 by auto. lia. Qed.
Lemma grid_sum_nonneg nr nc g : (forall r c, (r < nr)%nat -> (c < nc)%nat -> (0 <= g r c)%Z) -> (0 <= grid_sum nr nc g)%Z.
Proof. intro P. unfold grid_sum. apply zsum_nonneg. intros r Hr. apply zsum_nonneg. intros c Hc. auto. Qed.
Lemma grid_sum_le nr nc g g' : (forall r c, (r < nr)%nat -> (c < nc)%nat -> (g r c <= g' r c)%Z) ->
  (grid_sum nr nc g <= grid_sum nr nc g')%Z.
Proof. intro P. unfold grid_sum. apply zsum_le. intros r Hr. apply zsum_le. intros c Hc. auto. Qed.
Lemma grid_sum_add nr nc g g' : grid_sum nr nc (fun r c => (g r c + g' r c)%Z) = (grid_sum nr nc g + grid_sum nr nc g')%Z.
Proof. unfold grid_sum. rewrite <- zsum_add. apply zsum_ext. intros r _. apply zsum_add. Qed.
Lemma grid_sum_ge_term nr nc g r c : (forall r c, (r < nr)%nat -> (c < nc)%nat -> (0 <= g r c)%Z) ->
  (r < nr)%nat -> (c < nc)%nat -> (g r c <= grid_sum nr nc g)%Z.
Proof.
  intros P Hr Hc. unfold grid_sum.
  assert (g r c <= zsum nc (fun c => g r c))%Z by (apply (zsum_ge_term nc (fun c => g r c)); auto).
  assert (zsum nc (fun c => g r c) <= zsum nr (fun r => zsum nc (fun c => g r c)))%Z.
  { apply (zsum_ge_term nr (fun r => zsum nc (fun c => g r c))); auto. intros i Hi. apply zsum_nonneg. auto. }
  lia.
Qed.
Lemma grid_sum_zero nr nc g : (forall r c, (r < nr)%nat -> (c < nc)%nat -> g r c = 0%Z) -> grid_sum nr nc g = 0%Z.
Proof. intro P. unfold grid_sum. apply zsum_zero. intros r Hr. apply zsum_zero. auto. Qed.

Lemma comps_of_ext nr nc wf wo wf' wo' :
  (forall r c, (r < nr)%nat -> (c < nc)%nat -> wf r c = wf' r c) ->
  (forall r c, (r < nr)%nat -> (c < nc)%nat -> wo r c = wo' r c) ->
  comps_of nr nc wf wo = comps_of nr nc wf' wo'.
Proof.
  intros Ef Eo. unfold comps_of.
  rewrite (grid_sum_ext nr nc (fun r c => sqz (wf r c)) (fun r c => sqz (wf' r c))) by (intros; rewrite Ef; auto).
  rewrite (grid_sum_ext nr nc (fun r c => sqz (wo r c)) (fun r c => sqz (wo' r c))) by (intros; rewrite Eo; auto).
  rewrite (grid_sum_ext nr nc (fun r c => sqz (wo r c - wf r c)) (fun r c => sqz (wo' r c - wf' r c))) by (intros; rewrite Ef, Eo; auto).
  reflexivity.
Qed.

Lemma npos_pos nr nc : (0 < nr)%nat -> (0 < nc)%nat -> 0 < qz (Z.of_nat (nr * nc)).
Proof. intros. change 0 with (qz 0). apply qz_lt. assert (0 < nr * nc)%nat by (apply Nat.mul_pos_pos; auto). lia. Qed.

(* the score of one field pair in the N-free form *)
Lemma fss_of_comps_sums nr nc wf wo : (0 < nr)%nat -> (0 < nc)%nat ->
  fss_of_comps (comps_of nr nc wf wo) == fss_sums (qz (Sf nr nc wf)) (qz (Sf nr nc wo)) (qz (Sd nr nc wf wo)).
Proof. intros. unfold comps_of. apply fss_scaled. apply npos_pos; auto. Qed.

(* event counts: (o - f)^2 <= o^2 + f^2 *)
Lemma sums_bound nr nc wf wo :
  (forall r c, (r < nr)%nat -> (c < nc)%nat -> (0 <= wf r c)%Z /\ (0 <= wo r c)%Z) ->
  0 <= qz (Sd nr nc wf wo) <= qz (Sf nr nc wf) + qz (Sf nr nc wo).
Proof.
  intro P. split.
  - change 0 with (qz 0). apply qz_le. apply grid_sum_nonneg. intros. unfold sqz. apply Z.square_nonneg.
  - rewrite <- qz_add. apply qz_le. unfold Sd, Sf. rewrite <- grid_sum_add. apply grid_sum_le.
    intros r c Hr Hc. destruct (P r c Hr Hc). unfold sqz. nia.
Qed.

(* ------------------------------------------------------------------------------------------ *)
(* shape bookkeeping                                                                           *)
(* ------------------------------------------------------------------------------------------ *)
Lemma rect_nrows rows H W : rect rows H W -> nrows rows = H.
Proof. intros [L _]. exact L. Qed.

Definition winx (pad : bool) (F : field) (H W wh ww : nat) : nat -> nat -> Z :=
  fun r c => wsum (ext F H W (half wh) (half ww)) r c wh ww.

(* the code-faithful windows, both padding modes *)
Lemma win_sat_nopad rows H W wh ww r c : rect rows H W -> (1 <= wh <= H)%nat -> (1 <= ww <= W)%nat ->
  (r < S H - wh)%nat -> (c < S W - ww)%nat -> win_sat false rows wh ww r c = wsum (fld rows) r c wh ww.
Proof.
  intros R Hh Hw Hr Hc. unfold win_sat. rewrite (rect_nrows _ _ _ R), (ncols_rect _ _ _ R) by lia.
  apply (win_area_nopad _ (fld rows) H W); auto. apply sat_table_ok; auto. lia.
Qed.
Lemma win_sat_pad rows H W wh ww r c : rect rows H W -> (1 <= wh <= H)%nat -> (1 <= ww <= W)%nat ->
  (r <= H)%nat -> (c <= W)%nat -> win_sat true rows wh ww r c = wsum (ext (fld rows) H W (half wh) (half ww)) r c wh ww.
Proof.
  intros R Hh Hw Hr Hc. unfold win_sat. rewrite (rect_nrows _ _ _ R), (ncols_rect _ _ _ R) by lia.
  apply (win_area_pad _ (fld rows) H W); auto. apply sat_table_ok; auto. lia.
Qed.

(* ------------------------------------------------------------------------------------------ *)
(* SAT model = definition, no padding                                                          *)
(* ------------------------------------------------------------------------------------------ *)
Theorem comps_sat_eq_def_nopad rf ro H W wh ww : rect rf H W -> rect ro H W -> (1 <= wh <= H)%nat -> (1 <= ww <= W)%nat ->
  comps_field VSat false rf ro wh ww = comps_field VDef false rf ro wh ww.
Proof.
  intros Rf Ro Hh Hw. unfold comps_field. rewrite (rect_nrows _ _ _ Rf), (ncols_rect _ _ _ Rf) by lia.
  unfold npos_def, win_def. cbn [sat_axis a_n].
  replace (H + 1 - wh)%nat with (S H - wh)%nat by lia. replace (W + 1 - ww)%nat with (S W - ww)%nat by lia.
  apply comps_of_ext; intros r c Hr Hc.
  - apply (win_sat_nopad rf H W); auto.
  - apply (win_sat_nopad ro H W); auto.
Qed.

(* with zero padding the code visits the windows with top-left corner (r - floor(wh/2), c - floor(ww/2)),
   r = 0..H, c = 0..W, of the zero-extended plane *)
Theorem comps_sat_pad_characterised rf ro H W wh ww : rect rf H W -> rect ro H W -> (1 <= wh <= H)%nat -> (1 <= ww <= W)%nat ->
  comps_field VSat true rf ro wh ww =
  comps_of (S H) (S W) (fun r c => wsum (ext (fld rf) H W (half wh) (half ww)) r c wh ww)
                       (fun r c => wsum (ext (fld ro) H W (half wh) (half ww)) r c wh ww).
Proof.
  intros Rf Ro Hh Hw. unfold comps_field. rewrite (rect_nrows _ _ _ Rf), (ncols_rect _ _ _ Rf) by lia.
  cbn [sat_axis a_n].
  apply comps_of_ext; intros r c Hr Hc.
  - apply (win_sat_pad rf H W); auto; lia.
  - apply (win_sat_pad ro H W); auto; lia.
Qed.

(* ------------------------------------------------------------------------------------------ *)
(* zero padding: even windows and w = 1 are the documented padding                             *)
(* ------------------------------------------------------------------------------------------ *)
Definition axis_ok (w : nat) : Prop := Nat.even w = true \/ w = 1%nat.

Lemma ext_row_out F H W pt pl i j : (pt + H <= i)%nat -> ext F H W pt pl i j = 0%Z.
Proof. intro. unfold ext, inband. destruct (Nat.ltb_spec i (pt + H)). lia. rewrite andb_false_r. reflexivity. Qed.
Lemma ext_col_out F H W pt pl i j : (pl + W <= j)%nat -> ext F H W pt pl i j = 0%Z.
Proof. intro. unfold ext, inband. destruct (Nat.ltb_spec j (pl + W)). lia. rewrite !andb_false_r. reflexivity. Qed.

Lemma wsum_row_out F H W pl r c ww : (H <= r)%nat -> wsum (ext F H W 0 pl) r c 1 ww = 0%Z.
Proof. intro. unfold wsum. apply zsum_zero. intros k _. apply zsum_zero. intros k' _. apply ext_row_out. lia. Qed.
Lemma wsum_col_out F H W pt r c wh : (W <= c)%nat -> wsum (ext F H W pt 0) r c wh 1 = 0%Z.
Proof. intro. unfold wsum. apply zsum_zero. intros k _. apply zsum_zero. intros k' _. apply ext_col_out. lia. Qed.

Lemma npos_even n w : Nat.even w = true -> npos_def true n w = S n.
Proof. intro E. unfold npos_def. pose proof (half_even w E). lia. Qed.
Lemma npos_one n : npos_def true n 1 = n.
Proof. unfold npos_def. change (half 1) with O. lia. Qed.

(* the sums of any per-window quantity g that vanishes on empty windows are the same over the code's
   (H+1) x (W+1) positions and over the positions of the padded field *)
Lemma pad_grid_sum (g : Z -> Z -> Z) F G H W wh ww : g 0%Z 0%Z = 0%Z -> axis_ok wh -> axis_ok ww ->
  let wf := fun r c => wsum (ext F H W (half wh) (half ww)) r c wh ww in
  let wo := fun r c => wsum (ext G H W (half wh) (half ww)) r c wh ww in
  grid_sum (S H) (S W) (fun r c => g (wf r c) (wo r c)) =
  grid_sum (npos_def true H wh) (npos_def true W ww) (fun r c => g (wf r c) (wo r c)).
Proof.
  intros G0 [Eh|Eh] [Ew|Ew]; intros wf wo; subst wf wo.
  - rewrite !npos_even by auto. reflexivity.
  - subst ww. rewrite npos_one. rewrite (npos_even H wh) by auto. change (half 1) with O.
    apply grid_sum_drop_col. intros r _. rewrite !wsum_col_out by lia. exact G0.
  - subst wh. rewrite npos_one. rewrite (npos_even W ww) by auto. change (half 1) with O.
    apply grid_sum_drop_row. intros c _. rewrite !wsum_row_out by lia. exact G0.
  - subst wh ww. rewrite !npos_one. change (half 1) with O.
    rewrite grid_sum_drop_row by (intros c _; rewrite !wsum_row_out by lia; exact G0).
    apply grid_sum_drop_col. intros r _. rewrite !wsum_col_out by lia. exact G0.
Qed.

Theorem fss_pad_ok rf ro H W wh ww : rect rf H W -> rect ro H W -> (1 <= wh <= H)%nat -> (1 <= ww <= W)%nat ->
  axis_ok wh -> axis_ok ww ->
  fss_of_comps (comps_field VSat true rf ro wh ww) == fss_of_comps (comps_field VDef true rf ro wh ww).
Proof.
  intros Rf Ro Hh Hw Ah Aw. rewrite (comps_sat_pad_characterised rf ro H W) by auto.
  unfold comps_field. rewrite (rect_nrows _ _ _ Rf), (ncols_rect _ _ _ Rf) by lia.
  unfold win_def.
  assert (Ph : (0 < npos_def true H wh)%nat).
  { destruct Ah as [E|E]. rewrite npos_even by auto. lia. subst. rewrite npos_one. lia. }
  assert (Pw : (0 < npos_def true W ww)%nat).
  { destruct Aw as [E|E]. rewrite npos_even by auto. lia. subst. rewrite npos_one. lia. }
  rewrite !fss_of_comps_sums by (auto; lia).
  unfold Sf, Sd.
  rewrite (pad_grid_sum (fun a _ => sqz a) (fld rf) (fld ro) H W wh ww) by auto.
  rewrite (pad_grid_sum (fun _ b => sqz b) (fld rf) (fld ro) H W wh ww) by auto.
  rewrite (pad_grid_sum (fun a b => sqz (b - a)) (fld rf) (fld ro) H W wh ww) by auto.
  reflexivity.
Qed.
