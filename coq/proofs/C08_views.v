(* proofs/C08_views.v -- the views of a contingency manager report each count under its own label (C08, round 4). *)
From V Require Import lib.C08_aux gen.Gen_C08_views.
From Coq Require Import List.
Import ListNotations.
Open Scope string_scope.

Lemma combine_fst_snd {A B} (l : list (A * B)) : combine (map fst l) (map snd l) = l.
Proof. induction l as [|[a b] l IH]; cbn; [reflexivity | now rewrite IH]. Qed.

(* get_table(): the table carries the keys of the counts dict as labels, in the dict's own order, each with its own value *)
Lemma table_is_the_items : forall A (counts : list (string * A)), gen_table_of_counts counts = counts.
Proof. intros; unfold gen_table_of_counts; apply combine_fst_snd. Qed.

Lemma table_labelled_by_key : forall A (counts : list (string * A)) k,
  by_label k (gen_table_of_counts counts) = by_label k counts.
Proof. intros; now rewrite table_is_the_items. Qed.

Lemma table_labels_are_the_keys : forall A (counts : list (string * A)),
  map fst (gen_table_of_counts counts) = map fst counts /\ map snd (gen_table_of_counts counts) = map snd counts.
Proof. intros; now rewrite table_is_the_items. Qed.

(* the key order _get_counts builds, which every manager made by the library itself (transform, event operators) has *)
Lemma count_keys_order : gen_count_keys = ["tp_count"; "tn_count"; "fp_count"; "fn_count"; "total_count"].
Proof. reflexivity. Qed.

(* format_table on a table in that key order: hits and false alarms in the forecast-yes row, misses and correct negatives below *)
Lemma format_cells_library_order : forall A (tp tn fp fn tot : A),
  gen_format_cells (gen_table_of_counts (combine gen_count_keys [tp; tn; fp; fn; tot])) = [Some tp; Some fp; Some fn; Some tn].
Proof. intros; reflexivity. Qed.

Definition cells_by_label {A} (counts : list (string * A)) : list (option A) :=
  [by_label "tp_count" counts; by_label "fp_count" counts; by_label "fn_count" counts; by_label "tn_count" counts].

(* a format_table that reads the table by label is right for a counts dict in ANY key order ... *)
Lemma format_cells_any_order : gen_format_reads_by_label = true ->
  forall A (counts : list (string * A)), gen_format_cells (gen_table_of_counts counts) = cells_by_label counts.
Proof.
  intro H; unfold gen_format_reads_by_label in H.
  first [ discriminate H | intros; rewrite table_is_the_items; reflexivity ].
Qed.

(* ... one that reads it by position is not: a dict with distinct keys, in the customary 2x2 reading order, is shown wrong
   (known finding format-table-by-position; this statement becomes vacuous once format_table reads by label) *)
Lemma format_cells_by_position_refuted : gen_format_reads_by_label = false ->
  exists counts : list (string * nat), NoDup (map fst counts) /\ gen_format_cells (gen_table_of_counts counts) <> cells_by_label counts.
Proof.
  intro H; unfold gen_format_reads_by_label in H.
  first [ discriminate H
        | exists [("tp_count", 28%nat); ("fp_count", 72%nat); ("fn_count", 23%nat); ("tn_count", 2680%nat); ("total_count", 2803%nat)];
          split; [ repeat (constructor; [cbn; intuition discriminate |]); constructor | vm_compute; discriminate ] ].
Qed.
