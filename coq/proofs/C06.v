(* proofs/C06.v -- Q-level lemmas behind the C06 theorems (axiom-free). *)
From V Require Import lib.Tree gen.Gen_C06_crps model.C06.

(* case-split every Qabs in the goal *)
Ltac qabs1 :=
  match goal with |- context [Qabs ?x] =>
    let H := fresh "Ha" in let E := fresh "Ea" in
    destruct (Qlt_le_dec x 0) as [H|H];
    [ assert (E : Qabs x == - x) by (apply Qabs_neg; lra)
    | assert (E : Qabs x == x) by (apply Qabs_pos; exact H) ];
    rewrite E; clear E end.
Ltac qabs := repeat qabs1.

(* |max(a,t) - max(b,t)| + |min(a,t) - min(b,t)| = |a - b| *)
Lemma tw_split2 (a b t : Q) :
  Qabs (Qmx a t - Qmx b t) + Qabs (Qmn a t - Qmn b t) == Qabs (a - b).
Proof. unfold Qmx, Qmn. qcmp; qabs; lra. Qed.

(* three-way split at lo <= hi: lower tail + interval + upper tail *)
Lemma tw_split3 (a b lo hi : Q) : lo <= hi ->
  Qabs (Qmn a lo - Qmn b lo) + Qabs (Qclip lo hi a - Qclip lo hi b) + Qabs (Qmx a hi - Qmx b hi) == Qabs (a - b).
Proof. intro H. unfold Qclip, Qmx, Qmn. qcmp; qabs; lra. Qed.
