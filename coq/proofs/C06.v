(* proofs/C06.v -- Q-level lemmas behind the C06 theorems (axiom-free): algebra of the kernel form
   S/m - P/(2 m^2) (ecdf) and S/m - P/(2 m (m-1)) (fair) over exact rationals. *)
From V Require Import lib.Tree gen.Gen_C06_crps model.C06.
From Coq Require Import Permutation.

(* case-split every Qabs in the goal *)
Ltac qabs1 :=
  match goal with |- context [Qabs ?x] =>
    let H := fresh "Ha" in let E := fresh "Ea" in
    destruct (Qlt_le_dec x 0) as [H|H];
    [ assert (E : Qabs x == - x) by (apply Qabs_neg; lra)
    | assert (E : Qabs x == x) by (apply Qabs_pos; exact H) ];
    rewrite E; clear E end.
Ltac qabs := repeat qabs1.

(* ---------------------------------------------------------------------------------------------- *)
(* finite sums                                                                                      *)
(* ---------------------------------------------------------------------------------------------- *)
Lemma qsum_ext {A} (f g : A -> Q) l : (forall x, In x l -> f x == g x) -> qsum (map f l) == qsum (map g l).
Proof. induction l as [|a l IH]; intro H; simpl. reflexivity.
  rewrite (H a) by (left; auto). rewrite IH. reflexivity. intros; apply H; right; auto. Qed.
Lemma qsum_plus {A} (f g : A -> Q) l : qsum (map (fun x => f x + g x) l) == qsum (map f l) + qsum (map g l).
Proof. induction l as [|a l IH]; simpl. reflexivity. rewrite IH. ring. Qed.
Lemma qsum_scale {A} c (f : A -> Q) l : qsum (map (fun x => c * f x) l) == c * qsum (map f l).
Proof. induction l as [|a l IH]; simpl. ring. rewrite IH. ring. Qed.
Lemma qsum_const {A} c (l : list A) : qsum (map (fun _ => c) l) == inject_Z (Z.of_nat (length l)) * c.
Proof. induction l as [|a l IH]. simpl. ring.
  cbn [map qsum]. rewrite IH. change (length (a :: l)) with (S (length l)).
  rewrite Nat2Z.inj_succ. unfold Z.succ. rewrite inject_Z_plus. ring. Qed.
Lemma qsum_le {A} (f g : A -> Q) l : (forall x, In x l -> f x <= g x) -> qsum (map f l) <= qsum (map g l).
Proof. induction l as [|a l IH]; intro H; simpl. lra.
  pose proof (H a (or_introl eq_refl)). assert (qsum (map f l) <= qsum (map g l)) by (apply IH; intros; apply H; right; auto). lra. Qed.
Lemma qsum_nonneg {A} (f : A -> Q) l : (forall x, In x l -> 0 <= f x) -> 0 <= qsum (map f l).
Proof. induction l as [|a l IH]; intro H; simpl. lra.
  pose proof (H a (or_introl eq_refl)). assert (0 <= qsum (map f l)) by (apply IH; intros; apply H; right; auto). lra. Qed.
Lemma qsum_zero_all {A} (f : A -> Q) l : (forall x, In x l -> 0 <= f x) -> qsum (map f l) == 0 -> forall x, In x l -> f x == 0.
Proof. induction l as [|a l IH]; intros H E x Hx. destruct Hx.
  simpl in E. pose proof (H a (or_introl eq_refl)).
  assert (0 <= qsum (map f l)) by (apply qsum_nonneg; intros; apply H; right; auto).
  destruct Hx as [<-|Hx]. lra. apply IH; auto. intros; apply H; right; auto. lra. Qed.
Lemma qsum_app l1 l2 : qsum (l1 ++ l2) == qsum l1 + qsum l2.
Proof. induction l1 as [|a l IH]; simpl. ring. rewrite IH. ring. Qed.
Lemma qsum_perm l l' : Permutation l l' -> qsum l == qsum l'.
Proof. induction 1; simpl; try lra. Qed.
(* one distinguished element where the bound is not tight *)
Lemma qsum_le_slack {A} (f g : A -> Q) l a d : In a l -> (forall x, In x l -> f x <= g x) -> f a + d <= g a ->
  qsum (map f l) + d <= qsum (map g l).
Proof. induction l as [|b l IH]; intros Hin H Ha. destruct Hin.
  simpl. destruct Hin as [->|Hin].
  - assert (qsum (map f l) <= qsum (map g l)) by (apply qsum_le; intros; apply H; right; auto). lra.
  - pose proof (H b (or_introl eq_refl)). assert (qsum (map f l) + d <= qsum (map g l)) by (apply IH; auto; intros; apply H; right; auto). lra.
Qed.

Lemma qlen_pos X : X <> [] -> 0 < qlen X.
Proof. destruct X as [|x X]; [congruence|]. intros _. unfold qlen. cbn [length]. apply inject_nat_pos. Qed.
Lemma qlen_nonneg (X : list Q) : 0 <= qlen X.
Proof. destruct X as [|q X]. unfold qlen; simpl. apply Qle_refl. assert (H : q :: X <> []) by congruence. apply Qlt_le_weak, (qlen_pos _ H). Qed.
Lemma qlen_cons x X : qlen (x :: X) == qlen X + 1.
Proof. unfold qlen. cbn [length]. rewrite Nat2Z.inj_succ. unfold Z.succ. rewrite inject_Z_plus. reflexivity. Qed.
Lemma qlen_ge2 (X : list Q) : (2 <= length X)%nat -> 2 <= qlen X.
Proof. destruct X as [|a [|b X]]; simpl; try lia. intros _. rewrite !qlen_cons. pose proof (qlen_nonneg X). lra. Qed.
Lemma qlen_map {A} (f : A -> Q) (X : list A) : inject_Z (Z.of_nat (length (map f X))) = inject_Z (Z.of_nat (length X)).
Proof. rewrite map_length. reflexivity. Qed.

(* the two sums of the kernel form under a map of the members and the observation *)
Lemma q_obs_sum_map (g : Q -> Q) X y : q_obs_sum (map g X) (g y) = qsum (map (fun x => Qabs (g x - g y)) X).
Proof. unfold q_obs_sum. rewrite map_map. reflexivity. Qed.
Lemma q_pair_sum_map (g : Q -> Q) X :
  q_pair_sum (map g X) = qsum (map (fun xi => qsum (map (fun xj => Qabs (g xj - g xi)) X)) X).
Proof. unfold q_pair_sum. rewrite map_map. f_equal. apply map_ext. intro a. rewrite map_map. reflexivity. Qed.
Lemma qlen_map' (g : Q -> Q) X : qlen (map g X) = qlen X.
Proof. unfold qlen. rewrite map_length. reflexivity. Qed.

(* ---------------------------------------------------------------------------------------------- *)
(* chaining identities                                                                               *)
(* ---------------------------------------------------------------------------------------------- *)
(* |min(a,t) - min(b,t)| + |max(a,t) - max(b,t)| = |a - b| *)
Lemma tw_split2 (a b t : Q) :
  Qabs (Qmn a t - Qmn b t) + Qabs (Qmx a t - Qmx b t) == Qabs (a - b).
Proof. unfold Qmx, Qmn. qcmp; qabs; lra. Qed.

(* three-way split at lo <= hi: lower tail + interval + upper tail *)
Lemma tw_split3 (a b lo hi : Q) : lo <= hi ->
  Qabs (Qmn a lo - Qmn b lo) + Qabs (Qclip lo hi a - Qclip lo hi b) + Qabs (Qmx a hi - Qmx b hi) == Qabs (a - b).
Proof. intro H. unfold Qclip, Qmx, Qmn. qcmp; qabs; lra. Qed.

(* generic kernel form with spread coefficient c: both methods are instances *)
Definition kern (c : Q) (X : list Q) (y : Q) : Q := q_obs_sum X y / qlen X - q_pair_sum X * c.
Lemma crps_ecdf_kern X y : crps_ecdf X y == kern (/ (2 * qlen X * qlen X)) X y.
Proof. unfold crps_ecdf, kern, Qdiv. reflexivity. Qed.
Lemma crps_fair_kern X y : crps_fair X y == kern (/ (2 * qlen X * (qlen X - 1))) X y.
Proof. unfold crps_fair, kern, Qdiv. reflexivity. Qed.

(* any pair / triple of chaining functions whose absolute differences add up to |a - b| splits the kernel form *)
Lemma kern_split2_gen c X y (f1 f2 : Q -> Q) :
  (forall a b, Qabs (f1 a - f1 b) + Qabs (f2 a - f2 b) == Qabs (a - b)) ->
  kern c (map f1 X) (f1 y) + kern c (map f2 X) (f2 y) == kern c X y.
Proof.
  intro Hf. unfold kern. rewrite !qlen_map'.
  rewrite (q_obs_sum_map f1), (q_obs_sum_map f2), (q_pair_sum_map f1), (q_pair_sum_map f2).
  assert (HS : qsum (map (fun x => Qabs (f1 x - f1 y)) X) + qsum (map (fun x => Qabs (f2 x - f2 y)) X) == q_obs_sum X y).
  { rewrite <- qsum_plus. unfold q_obs_sum. apply qsum_ext. intros; apply Hf. }
  assert (HP : qsum (map (fun xi => qsum (map (fun xj => Qabs (f1 xj - f1 xi)) X)) X)
             + qsum (map (fun xi => qsum (map (fun xj => Qabs (f2 xj - f2 xi)) X)) X) == q_pair_sum X).
  { rewrite <- qsum_plus. unfold q_pair_sum. apply qsum_ext. intros xi _. rewrite <- qsum_plus. apply qsum_ext. intros; apply Hf. }
  rewrite <- HS, <- HP. unfold Qdiv. ring.
Qed.
Lemma kern_split3_gen c X y (f1 f2 f3 : Q -> Q) :
  (forall a b, Qabs (f1 a - f1 b) + Qabs (f2 a - f2 b) + Qabs (f3 a - f3 b) == Qabs (a - b)) ->
  kern c (map f1 X) (f1 y) + kern c (map f2 X) (f2 y) + kern c (map f3 X) (f3 y) == kern c X y.
Proof.
  intro Hf. unfold kern. rewrite !qlen_map'.
  rewrite (q_obs_sum_map f1), (q_obs_sum_map f2), (q_obs_sum_map f3), (q_pair_sum_map f1), (q_pair_sum_map f2), (q_pair_sum_map f3).
  assert (HS : qsum (map (fun x => Qabs (f1 x - f1 y)) X) + qsum (map (fun x => Qabs (f2 x - f2 y)) X)
               + qsum (map (fun x => Qabs (f3 x - f3 y)) X) == q_obs_sum X y).
  { rewrite <- !qsum_plus. unfold q_obs_sum. apply qsum_ext. intros; apply Hf. }
  assert (HP : qsum (map (fun xi => qsum (map (fun xj => Qabs (f1 xj - f1 xi)) X)) X)
             + qsum (map (fun xi => qsum (map (fun xj => Qabs (f2 xj - f2 xi)) X)) X)
             + qsum (map (fun xi => qsum (map (fun xj => Qabs (f3 xj - f3 xi)) X)) X) == q_pair_sum X).
  { rewrite <- !qsum_plus. unfold q_pair_sum. apply qsum_ext. intros xi _. rewrite <- !qsum_plus. apply qsum_ext. intros; apply Hf. }
  rewrite <- HS, <- HP. unfold Qdiv. ring.
Qed.
Lemma kern_split2 c X y t :
  kern c (map (fun x => Qmn x t) X) (Qmn y t) + kern c (map (fun x => Qmx x t) X) (Qmx y t) == kern c X y.
Proof. apply (kern_split2_gen c X y (fun x => Qmn x t) (fun x => Qmx x t)). intros; apply tw_split2. Qed.
Lemma kern_split3 c X y lo hi : lo <= hi ->
  kern c (map (fun x => Qmn x lo) X) (Qmn y lo) + kern c (map (Qclip lo hi) X) (Qclip lo hi y)
  + kern c (map (fun x => Qmx x hi) X) (Qmx y hi) == kern c X y.
Proof. intro H. apply (kern_split3_gen c X y (fun x => Qmn x lo) (Qclip lo hi) (fun x => Qmx x hi)). intros; apply tw_split3; auto. Qed.

(* lower tail + upper tail = unweighted, lower + interval + upper = unweighted: both methods, any ensemble *)
Lemma crps_ecdf_split2 X y t :
  crps_ecdf (map (fun x => Qmn x t) X) (Qmn y t) + crps_ecdf (map (fun x => Qmx x t) X) (Qmx y t) == crps_ecdf X y.
Proof. rewrite !crps_ecdf_kern, !qlen_map'. apply kern_split2. Qed.
Lemma crps_fair_split2 X y t :
  crps_fair (map (fun x => Qmn x t) X) (Qmn y t) + crps_fair (map (fun x => Qmx x t) X) (Qmx y t) == crps_fair X y.
Proof. rewrite !crps_fair_kern, !qlen_map'. apply kern_split2. Qed.
Lemma crps_ecdf_split3 X y lo hi : lo <= hi ->
  crps_ecdf (map (fun x => Qmn x lo) X) (Qmn y lo) + crps_ecdf (map (Qclip lo hi) X) (Qclip lo hi y)
  + crps_ecdf (map (fun x => Qmx x hi) X) (Qmx y hi) == crps_ecdf X y.
Proof. intro. rewrite !crps_ecdf_kern, !qlen_map'. apply kern_split3; auto. Qed.
Lemma crps_fair_split3 X y lo hi : lo <= hi ->
  crps_fair (map (fun x => Qmn x lo) X) (Qmn y lo) + crps_fair (map (Qclip lo hi) X) (Qclip lo hi y)
  + crps_fair (map (fun x => Qmx x hi) X) (Qmx y hi) == crps_fair X y.
Proof. intro. rewrite !crps_fair_kern, !qlen_map'. apply kern_split3; auto. Qed.

(* ---------------------------------------------------------------------------------------------- *)
(* fair vs ecdf, components                                                                          *)
(* ---------------------------------------------------------------------------------------------- *)
(* fair differs from ecdf only by the spread normalisation m^2 -> m (m - 1) *)
Lemma crps_fair_diff X y : (2 <= length X)%nat ->
  crps_fair X y == crps_ecdf X y - q_pair_sum X / (2 * qlen X * qlen X * (qlen X - 1)).
Proof. intro H. pose proof (qlen_ge2 X H). unfold crps_fair, crps_ecdf. field. split; lra. Qed.

Lemma pos_parts (x y : Q) : Qpos_part (y - x) + Qpos_part (x - y) == Qabs (x - y).
Proof. unfold Qpos_part. qcmp; qabs; lra. Qed.
Lemma obs_term_under_over X y : q_obs_sum X y / qlen X == q_under X y + q_over X y.
Proof. unfold q_under, q_over, q_obs_sum.
  rewrite (qsum_ext (fun x => Qabs (x - y)) (fun x => Qpos_part (y - x) + Qpos_part (x - y))) by (intros; symmetry; apply pos_parts).
  rewrite qsum_plus. unfold Qdiv. ring. Qed.
Lemma crps_ecdf_components X y :
  crps_ecdf X y == q_under X y + q_over X y - q_pair_sum X / (2 * qlen X * qlen X).
Proof. unfold crps_ecdf. rewrite obs_term_under_over. reflexivity. Qed.
Lemma crps_fair_components X y :
  crps_fair X y == q_under X y + q_over X y - q_pair_sum X / (2 * qlen X * (qlen X - 1)).
Proof. unfold crps_fair. rewrite obs_term_under_over. reflexivity. Qed.

(* ---------------------------------------------------------------------------------------------- *)
(* invariances                                                                                       *)
(* ---------------------------------------------------------------------------------------------- *)
Lemma q_obs_sum_perm X X' y : Permutation X X' -> q_obs_sum X y == q_obs_sum X' y.
Proof. intro H. unfold q_obs_sum. apply qsum_perm. apply Permutation_map. exact H. Qed.
Lemma q_pair_sum_perm X X' : Permutation X X' -> q_pair_sum X == q_pair_sum X'.
Proof. intro H. unfold q_pair_sum.
  rewrite (qsum_ext _ (fun xi => qsum (map (fun xj => Qabs (xj - xi)) X')) X).
  - apply qsum_perm. apply Permutation_map. exact H.
  - intros xi _. apply qsum_perm. apply Permutation_map. exact H. Qed.
Lemma qlen_perm (X X' : list Q) : Permutation X X' -> qlen X = qlen X'.
Proof. intro H. unfold qlen. rewrite (Permutation_length H). reflexivity. Qed.
Lemma crps_ecdf_perm X X' y : Permutation X X' -> crps_ecdf X y == crps_ecdf X' y.
Proof. intro H. unfold crps_ecdf. rewrite (q_obs_sum_perm _ _ y H), (q_pair_sum_perm _ _ H), (qlen_perm _ _ H). reflexivity. Qed.
Lemma crps_fair_perm X X' y : Permutation X X' -> crps_fair X y == crps_fair X' y.
Proof. intro H. unfold crps_fair. rewrite (q_obs_sum_perm _ _ y H), (q_pair_sum_perm _ _ H), (qlen_perm _ _ H). reflexivity. Qed.

Lemma abs_shift (a b c : Q) : Qabs ((a + c) - (b + c)) == Qabs (a - b).
Proof. apply Qabs_wd. ring. Qed.
Lemma abs_scale (a x y : Q) : Qabs (a * x - a * y) == Qabs a * Qabs (x - y).
Proof. rewrite <- Qabs_Qmult. apply Qabs_wd. ring. Qed.
Lemma kern_shift k X y c : kern k (map (fun x => x + c) X) (y + c) == kern k X y.
Proof. unfold kern. rewrite qlen_map', (q_obs_sum_map (fun x => x + c)), (q_pair_sum_map (fun x => x + c)).
  assert (HS : qsum (map (fun x => Qabs (x + c - (y + c))) X) == q_obs_sum X y) by (apply qsum_ext; intros; apply abs_shift).
  assert (HP : qsum (map (fun xi => qsum (map (fun xj => Qabs (xj + c - (xi + c))) X)) X) == q_pair_sum X).
  { apply qsum_ext; intros xi _. apply qsum_ext; intros; apply abs_shift. }
  rewrite HS, HP. reflexivity. Qed.
Lemma kern_scale k X y a : kern k (map (fun x => a * x) X) (a * y) == Qabs a * kern k X y.
Proof. unfold kern. rewrite qlen_map', (q_obs_sum_map (fun x => a * x)), (q_pair_sum_map (fun x => a * x)).
  assert (HS : qsum (map (fun x => Qabs (a * x - a * y)) X) == Qabs a * q_obs_sum X y).
  { unfold q_obs_sum. rewrite <- qsum_scale. apply qsum_ext; intros; apply abs_scale. }
  assert (HP : qsum (map (fun xi => qsum (map (fun xj => Qabs (a * xj - a * xi)) X)) X) == Qabs a * q_pair_sum X).
  { unfold q_pair_sum. rewrite <- qsum_scale. apply qsum_ext; intros xi _. rewrite <- qsum_scale. apply qsum_ext; intros; apply abs_scale. }
  rewrite HS, HP. unfold Qdiv. ring. Qed.
Lemma crps_ecdf_shift X y c : crps_ecdf (map (fun x => x + c) X) (y + c) == crps_ecdf X y.
Proof. rewrite !crps_ecdf_kern, qlen_map'. apply kern_shift. Qed.
Lemma crps_fair_shift X y c : crps_fair (map (fun x => x + c) X) (y + c) == crps_fair X y.
Proof. rewrite !crps_fair_kern, qlen_map'. apply kern_shift. Qed.
Lemma crps_ecdf_scale X y a : crps_ecdf (map (fun x => a * x) X) (a * y) == Qabs a * crps_ecdf X y.
Proof. rewrite !crps_ecdf_kern, qlen_map'. apply kern_scale. Qed.
Lemma crps_fair_scale X y a : crps_fair (map (fun x => a * x) X) (a * y) == Qabs a * crps_fair X y.
Proof. rewrite !crps_fair_kern, qlen_map'. apply kern_scale. Qed.

(* ---------------------------------------------------------------------------------------------- *)
(* sign: the triangle inequality bounds the pair sum by 2 (m - 1) S                                  *)
(* ---------------------------------------------------------------------------------------------- *)
Lemma abs_triangle3 (a b y : Q) : Qabs (a - b) <= Qabs (a - y) + Qabs (b - y).
Proof. qabs; lra. Qed.
Lemma abs_self (a : Q) : Qabs (a - a) == 0.
Proof. qabs; lra. Qed.

Lemma pair_sum_bound X y : q_pair_sum X <= 2 * (qlen X - 1) * q_obs_sum X y.
Proof.
  unfold q_pair_sum.
  assert (H : qsum (map (fun xi => qsum (map (fun xj => Qabs (xj - xi)) X)) X)
              <= qsum (map (fun xi => (qlen X - 2) * Qabs (xi - y) + q_obs_sum X y) X)).
  { apply qsum_le. intros xi Hi.
    assert (G : qsum (map (fun xj => Qabs (xj - xi)) X) + 2 * Qabs (xi - y)
                <= qsum (map (fun xj => Qabs (xj - y) + Qabs (xi - y)) X)).
    { apply (qsum_le_slack _ _ X xi); auto.
      - intros; apply abs_triangle3.
      - rewrite abs_self. lra. }
    rewrite qsum_plus, qsum_const in G. fold (qlen X) in G. fold (q_obs_sum X y) in G. lra. }
  rewrite qsum_plus, qsum_scale, qsum_const in H. fold (qlen X) in H. fold (q_obs_sum X y) in H. lra.
Qed.

Lemma q_obs_sum_nonneg X y : 0 <= q_obs_sum X y.
Proof. unfold q_obs_sum. apply qsum_nonneg. intros; apply Qabs_nonneg. Qed.
Lemma q_pair_sum_nonneg X : 0 <= q_pair_sum X.
Proof. unfold q_pair_sum. apply qsum_nonneg. intros. apply qsum_nonneg. intros; apply Qabs_nonneg. Qed.

(* ecdf:  crps >= S / m^2  (>= 0) *)
Lemma crps_ecdf_lower X y : X <> [] -> q_obs_sum X y / (qlen X * qlen X) <= crps_ecdf X y.
Proof.
  intro H. pose proof (qlen_pos X H) as Hm. pose proof (pair_sum_bound X y) as B.
  unfold crps_ecdf. set (m := qlen X) in *. set (S := q_obs_sum X y) in *. set (P := q_pair_sum X) in *.
  assert (E : S / m - P / (2 * m * m) - S / (m * m) == (2 * (m - 1) * S - P) / (2 * m * m)) by (field; lra).
  assert (0 <= (2 * (m - 1) * S - P) / (2 * m * m)).
  { apply Qle_shift_div_l; nra. }
  lra.
Qed.
Lemma crps_ecdf_nonneg X y : X <> [] -> 0 <= crps_ecdf X y.
Proof. intro H. pose proof (crps_ecdf_lower X y H). pose proof (qlen_pos X H). pose proof (q_obs_sum_nonneg X y).
  assert (0 <= q_obs_sum X y / (qlen X * qlen X)) by (apply Qle_shift_div_l; nra). lra. Qed.
(* fair is non-negative too (for m >= 2) *)
Lemma crps_fair_nonneg X y : (2 <= length X)%nat -> 0 <= crps_fair X y.
Proof.
  intro H. pose proof (qlen_ge2 X H) as Hm. pose proof (pair_sum_bound X y) as B.
  unfold crps_fair. set (m := qlen X) in *. set (S := q_obs_sum X y) in *. set (P := q_pair_sum X) in *.
  assert (E : S / m - P / (2 * m * (m - 1)) == (2 * (m - 1) * S - P) / (2 * m * (m - 1))) by (field; lra).
  rewrite E. apply Qle_shift_div_l; nra.
Qed.
(* zero iff every member equals the observation *)
Lemma crps_ecdf_zero_iff X y : X <> [] -> (crps_ecdf X y == 0 <-> forall x, In x X -> x == y).
Proof.
  intro H. pose proof (qlen_pos X H) as Hm. split.
  - intros E x Hx. pose proof (crps_ecdf_lower X y H) as L. pose proof (q_obs_sum_nonneg X y) as N.
    assert (Z : q_obs_sum X y == 0).
    { assert (0 <= q_obs_sum X y / (qlen X * qlen X)) by (apply Qle_shift_div_l; nra).
      assert (q_obs_sum X y / (qlen X * qlen X) == 0) by lra.
      assert (q_obs_sum X y == q_obs_sum X y / (qlen X * qlen X) * (qlen X * qlen X)) by (field; nra).
      nra. }
    pose proof (qsum_zero_all (fun x => Qabs (x - y)) X (fun x _ => Qabs_nonneg (x - y)) Z x Hx) as A. cbv beta in A.
    revert A. qabs; lra.
  - intro A. unfold crps_ecdf.
    assert (Z : q_obs_sum X y == 0).
    { unfold q_obs_sum. rewrite (qsum_ext _ (fun _ => 0)). rewrite qsum_const. ring.
      intros x Hx. rewrite (A x Hx). apply abs_self. }
    assert (Z2 : q_pair_sum X == 0).
    { unfold q_pair_sum. rewrite (qsum_ext _ (fun _ => 0)). rewrite qsum_const. ring.
      intros xi Hi. rewrite (qsum_ext _ (fun _ => 0)). rewrite qsum_const. ring.
      intros xj Hj. rewrite (A xi Hi), (A xj Hj). apply abs_self. }
    rewrite Z, Z2. unfold Qdiv. ring.
Qed.
