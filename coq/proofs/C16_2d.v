(* proofs/C16_2d.v -- the theorems lifted to fss_2d / fss_2d_binary (multi-field arrays, extra
   dimensions, reductions), and the refutation witness of the odd-window padding. *)
From V Require Import lib.Tree model.C16 proofs.C16_sat proofs.C16 proofs.C16_score.
Open Scope Q_scope.

(* ------------------------------------------------------------------------------------------ *)
(* the odd-window refutation (finding 6)                                                       *)
(* ------------------------------------------------------------------------------------------ *)
Definition wit_f : list (list xv) := [[XFin 0; XFin 0; XFin 1]].
Definition wit_o : list (list xv) := [[XFin 1; XFin 0; XFin 0]].

Lemma wit_values : exists x y,
  fss_single VSat true (Some OpGt) (XFin (1 # 2)) wit_f wit_o 1 3 = Ok x /\
  fss_single VDef true (Some OpGt) (XFin (1 # 2)) wit_f wit_o 1 3 = Ok y /\ x == 2 # 5 /\ y == 1 # 2.
Proof. eexists. eexists. split; [vm_compute; reflexivity|]. split; [vm_compute; reflexivity|]. split; reflexivity. Qed.

Theorem fss_pad_odd_refuted :
  exists (f o : list (list xv)) (wh ww : Z) x y,
    rectx f 1 3 /\ rectx o 1 3 /\ Z.odd ww = true /\ (3 <= ww)%Z /\
    fss_single VSat true (Some OpGt) (XFin (1 # 2)) f o wh ww = Ok x /\
    fss_single VDef true (Some OpGt) (XFin (1 # 2)) f o wh ww = Ok y /\ ~ x == y.
Proof.
  destruct wit_values as [x [y [E1 [E2 [X Y]]]]].
  exists wit_f, wit_o, 1%Z, 3%Z, x, y.
  split. { split. reflexivity. repeat constructor. }
  split. { split. reflexivity. repeat constructor. }
  split. reflexivity. split. lia. split. exact E1. split. exact E2.
  rewrite X, Y. intro E. discriminate E.
Qed.

(* a 3x3 window on a 3x3 field also deviates (the curated 3x3 test of the suite passes by coincidence) *)
Example fss_pad_odd_refuted_3x3 :
  let f := [[XFin 0; XFin 1; XFin 0]; [XFin 0; XFin 0; XFin 0]; [XFin 1; XFin 0; XFin 1]] in
  let o := [[XFin 0; XFin 0; XFin 0]; [XFin 0; XFin 1; XFin 0]; [XFin 0; XFin 0; XFin 1]] in
  exists x y, fss_single VSat true (Some OpGt) (XFin (1 # 2)) f o 3 3 = Ok x /\
              fss_single VDef true (Some OpGt) (XFin (1 # 2)) f o 3 3 = Ok y /\ ~ x == y.
Proof.
  cbv zeta. eexists. eexists. split; [vm_compute; reflexivity|]. split; [vm_compute; reflexivity|].
  intro E. vm_compute in E. discriminate E.
Qed.

(* ------------------------------------------------------------------------------------------ *)
(* multi-field aggregation in terms of the window sums, every variant                          *)
(* ------------------------------------------------------------------------------------------ *)
Definition rpair := (list (list Z) * list (list Z))%type.
Definition all_rect (fields : list rpair) (H W : nat) : Prop :=
  Forall (fun p => rect (fst p) H W /\ rect (snd p) H W) fields.

Definition fSf v pad H W wh ww (sel : rpair -> list (list Z)) (fields : list rpair) : Z :=
  zlsum (map (fun p => Sf (npos v pad H wh) (npos v pad W ww) (win_spec pad (fld (sel p)) H W wh ww)) fields).
Definition fSd v pad H W wh ww (fields : list rpair) : Z :=
  zlsum (map (fun p => Sd (npos v pad H wh) (npos v pad W ww) (win_spec pad (fld (fst p)) H W wh ww)
                                                             (win_spec pad (fld (snd p)) H W wh ww)) fields).

(* over several fields the score is 1 - (sum of the fields' Sd) / (sum of Sf + sum of So): formed from
   the three component sums, not from per-field scores *)
Theorem fss_aggregate_by_components v pad (fields : list rpair) H W wh ww :
  all_rect fields H W -> (1 <= wh <= H)%nat -> (1 <= ww <= W)%nat -> fields <> [] ->
  aggregate (map (fun p => comps_field v pad (fst p) (snd p) wh ww) fields) ==
  fss_sums (qz (fSf v pad H W wh ww fst fields)) (qz (fSf v pad H W wh ww snd fields)) (qz (fSd v pad H W wh ww fields)).
Proof.
  intros AR Hh Hw Hne.
  set (ws := map (fun p : rpair => (win_spec pad (fld (fst p)) H W wh ww, win_spec pad (fld (snd p)) H W wh ww)) fields).
  assert (E : map (fun p => comps_field v pad (fst p) (snd p) wh ww) fields =
              map (fun q : wpair => comps_of (npos v pad H wh) (npos v pad W ww) (fst q) (snd q)) ws).
  { unfold ws. rewrite map_map. apply map_ext_in. intros p Hp. unfold all_rect in AR. rewrite Forall_forall in AR.
    destruct (AR p Hp) as [R1 R2]. apply (comps_field_char v pad (fst p) (snd p) H W); auto. }
  rewrite E. rewrite aggregate_by_components; try (apply npos_gt0; auto).
  - unfold fSf, fSd, ws. rewrite !map_map. reflexivity.
  - unfold ws. destruct fields; [congruence | discriminate].
Qed.

(* not the mean of per-field scores: two 1x2 fields, window 1x1 *)
Example aggregate_is_not_mean_of_scores :
  let c1 := comps_field VDef false [[1; 1]]%Z [[1; 1]]%Z 1 1 in
  let c2 := comps_field VDef false [[1; 0]]%Z [[0; 0]]%Z 1 1 in
  aggregate [c1; c2] == 4 # 5 /\ (fss_of_comps c1 + fss_of_comps c2) / 2 == 1 # 2.
Proof. split; vm_compute; reflexivity. Qed.

(* zero padding, several fields: even windows and w = 1 agree with the documented padding *)
Theorem fss_aggregate_pad_ok (fields : list rpair) H W wh ww :
  all_rect fields H W -> (1 <= wh <= H)%nat -> (1 <= ww <= W)%nat -> axis_ok wh -> axis_ok ww ->
  aggregate (map (fun p => comps_field VSat true (fst p) (snd p) wh ww) fields) ==
  aggregate (map (fun p => comps_field VDef true (fst p) (snd p) wh ww) fields).
Proof.
  intros AR Hh Hw Ah Aw. destruct fields as [|p0 t] eqn:Ef. reflexivity. rewrite <- Ef in *.
  assert (Hne : fields <> []) by (rewrite Ef; discriminate).
  rewrite !(fss_aggregate_by_components _ true fields H W) by auto.
  assert (S1 : forall sel, fSf VSat true H W wh ww sel fields = fSf VDef true H W wh ww sel fields).
  { intro sel. unfold fSf. f_equal. apply map_ext. intro p. unfold Sf, npos, win_spec.
    apply (pad_grid_sum (fun a _ => sqz a) (fld (sel p)) (fld (sel p)) H W wh ww); auto. }
  assert (S2 : fSd VSat true H W wh ww fields = fSd VDef true H W wh ww fields).
  { unfold fSd. f_equal. apply map_ext. intro p. unfold Sd, npos, win_spec.
    apply (pad_grid_sum (fun a b => sqz (b - a)) (fld (fst p)) (fld (snd p)) H W wh ww); auto. }
  rewrite !S1, S2. reflexivity.
Qed.

(* ------------------------------------------------------------------------------------------ *)
(* fss_2d                                                                                      *)
(* ------------------------------------------------------------------------------------------ *)
Definition larr_rel (R : xv -> xv -> Prop) (a b : larr) : Prop :=
  ldims a = ldims b /\ (forall d, lsize a d = lsize b d) /\ forall e, R (lget a e) (lget b e).
Definition res_rel (R : xv -> xv -> Prop) (a b : result larr) : Prop :=
  match a, b with Ok x, Ok y => larr_rel R x y | Err e, Err e' => e = e' | _, _ => False end.

Lemma slice_rows_rect op th a sx sy H W e : rect (slice_rows op th a sx sy H W e) H W.
Proof.
  unfold slice_rows. split. rewrite map_length, seq_length. reflexivity.
  rewrite Forall_map. apply Forall_forall. intros i _. rewrite map_length, seq_length. reflexivity.
Qed.

(* whatever relation holds between the aggregates of every list of rectangular field pairs holds between
   the two public results *)
Lemma fss_2d_lift (R : xv -> xv -> Prop) v1 v2 pad op th fcst obs wh ww sp rd pd :
  (forall H W (fields : list rpair), all_rect fields H W -> (1 <= Z.to_nat wh <= H)%nat -> (1 <= Z.to_nat ww <= W)%nat ->
     R (XFin (aggregate (map (fun p => comps_field v1 pad (fst p) (snd p) (Z.to_nat wh) (Z.to_nat ww)) fields)))
       (XFin (aggregate (map (fun p => comps_field v2 pad (fst p) (snd p) (Z.to_nat wh) (Z.to_nat ww)) fields)))) ->
  res_rel R (fss_2d_m v1 pad op th fcst obs wh ww sp rd pd) (fss_2d_m v2 pad op th fcst obs wh ww sp rd pd).
Proof.
  intro K. unfold fss_2d_m. destruct op as [op|]; [|reflexivity].
  destruct sp as [|sx [|sy [|z t]]]; try reflexivity.
  destruct (negb (mem sx (ldims fcst) && mem sy (ldims fcst))); [reflexivity|].
  destruct (negb (mem sx (ldims obs) && mem sy (ldims obs))); [reflexivity|].
  destruct (negb (Nat.eqb (lsize fcst sx) (lsize obs sx) && Nat.eqb (lsize fcst sy) (lsize obs sy))); [reflexivity|].
  destruct (check_window (lsize fcst sx) (lsize fcst sy) wh ww) eqn:CW; cbn [negb]; [|reflexivity].
  destruct (gather (ldims fcst) (ldims obs) None rd pd DNone) as [G|err]; cbn [rbind]; [|reflexivity].
  unfold res_rel, larr_rel. cbn [ldims lsize lget]. split; [reflexivity|]. split; [reflexivity|].
  intro e.
  unfold check_window in CW. apply negb_true_iff in CW. apply orb_false_iff in CW. destruct CW as [CW C4].
  apply orb_false_iff in CW. destruct CW as [CW C3]. apply orb_false_iff in CW. destruct CW as [C1 C2].
  apply Z.ltb_ge in C1, C2, C3, C4.
  set (H := lsize fcst sx) in *. set (W := lsize fcst sy) in *.
  set (envl := envs _ _ e).
  pose (mk := fun e' : env => (slice_rows op th fcst sx sy H W e', slice_rows op th obs sx sy H W e') : rpair).
  specialize (K H W (map mk envl)).
  rewrite !map_map in K. cbn [mk fst snd] in K. apply K; try lia.
  unfold all_rect. rewrite Forall_map. apply Forall_forall. intros e' _. cbn [mk fst snd]. split; apply slice_rows_rect.
Qed.

(* without padding the code-faithful model of fss_2d equals the definition: every array, extra dims, request *)
Theorem fss_2d_sat_eq_def_nopad op th fcst obs wh ww sp rd pd :
  res_rel eq (fss_2d_m VSat false op th fcst obs wh ww sp rd pd) (fss_2d_m VDef false op th fcst obs wh ww sp rd pd).
Proof.
  apply fss_2d_lift. intros H W fields AR Hh Hw. f_equal. f_equal. apply map_ext_in. intros p Hp.
  unfold all_rect in AR. rewrite Forall_forall in AR. destruct (AR p Hp). apply (comps_sat_eq_def_nopad _ _ H W); auto.
Qed.

(* with zero padding: even windows and w = 1 *)
Theorem fss_2d_pad_ok op th fcst obs wh ww sp rd pd : okz wh -> okz ww ->
  res_rel xeq (fss_2d_m VSat true op th fcst obs wh ww sp rd pd) (fss_2d_m VDef true op th fcst obs wh ww sp rd pd).
Proof.
  intros Oh Ow. apply fss_2d_lift. intros H W fields AR Hh Hw. cbn [xeq].
  apply (fss_aggregate_pad_ok fields H W); auto; apply okz_axis; auto; lia.
Qed.

(* every value fss_2d returns is the component-wise aggregate over the reduced index space *)
Theorem fss_2d_in_unit_interval v pad op th fcst obs wh ww sp rd pd a e :
  fss_2d_m v pad op th fcst obs wh ww sp rd pd = Ok a -> exists x, lget a e = XFin x /\ 0 <= x <= 1.
Proof.
  intro E.
  pose proof (fss_2d_lift (fun x _ => exists q, x = XFin q /\ 0 <= q <= 1) v v pad op th fcst obs wh ww sp rd pd) as L.
  rewrite E in L. unfold res_rel, larr_rel in L.
  assert (K : forall (H W : nat) (fields : list rpair), all_rect fields H W -> (1 <= Z.to_nat wh <= H)%nat -> (1 <= Z.to_nat ww <= W)%nat ->
     exists q : Q, XFin (aggregate (map (fun p : rpair => comps_field v pad (fst p) (snd p) (Z.to_nat wh) (Z.to_nat ww)) fields)) = XFin q
                   /\ 0 <= q <= 1).
  { intros H W fields _ _ _. eexists. split. reflexivity.
    unfold aggregate. match goal with |- context [match ?l with [] => _ | _ :: _ => _ end] => destruct l end.
    lra. unfold fss_of_comps. apply qclamp_range. }
  destruct (L K) as [_ [_ L3]]. apply L3.
Qed.

(* ------------------------------------------------------------------------------------------ *)
(* the binary entry point agrees with thresholding                                             *)
(* ------------------------------------------------------------------------------------------ *)
Definition binarise (op : top) (th : xv) (a : larr) : larr := lmap (fun v => XFin (qz (thr op th v))) a.

Lemma slice_rows_binarise op th t a sx sy H W e :
  slice_rows OpId t (binarise op th a) sx sy H W e = slice_rows op th a sx sy H W e.
Proof.
  unfold slice_rows. apply map_ext. intro i. apply map_ext. intro j. cbn [binarise lmap lget]. apply thr_id_of_thr.
Qed.

Theorem fss_binary_agrees v pad op th fcst obs wh ww sp rd pd :
  res_rel eq (fss_2d_binary_m v pad true true (binarise op th fcst) (binarise op th obs) wh ww sp rd pd)
             (fss_2d_m v pad (Some op) th fcst obs wh ww sp rd pd).
Proof.
  unfold fss_2d_binary_m. cbn [andb negb]. unfold fss_2d_m. cbn [binarise lmap ldims lsize].
  destruct sp as [|sx [|sy [|z t]]]; try reflexivity.
  destruct (negb (mem sx (ldims fcst) && mem sy (ldims fcst))); [reflexivity|].
  destruct (negb (mem sx (ldims obs) && mem sy (ldims obs))); [reflexivity|].
  destruct (negb (Nat.eqb (lsize fcst sx) (lsize obs sx) && Nat.eqb (lsize fcst sy) (lsize obs sy))); [reflexivity|].
  destruct (negb (check_window (lsize fcst sx) (lsize fcst sy) wh ww)); [reflexivity|].
  destruct (gather (ldims fcst) (ldims obs) None rd pd DNone) as [G|err]; cbn [rbind]; [|reflexivity].
  unfold res_rel, larr_rel. cbn [ldims lsize lget]. split; [reflexivity|]. split; [reflexivity|].
  intro e. f_equal. f_equal. apply map_ext. intro e'.
  fold (binarise op th fcst) (binarise op th obs). rewrite !slice_rows_binarise. reflexivity.
Qed.
