(* proofs/C10_RIntQ.v -- bridge between the rational specification functions (model/C10.v, model/C11.v; tied to the
   regenerated kernels by proofs/C10.v, proofs/C11.v) and the real-analysis facts of proofs/C10_RInt.v, via Q2R.
   Everything here depends on the standard Reals axioms. *)
From Coq Require Import Reals Qreals.
From Coquelicot Require Import Coquelicot.
From V Require Import lib.Tree lib.C10_aux gen.Gen_C10_kern model.C10 proofs.C10 proofs.C10_RInt proofs.C10_QR.
From Coq Require Import Lra.

Lemma g_rect_bridge a b x : Q2R (qg_rect a b x) = g_rect (Q2R a) (Q2R b) (Q2R x).
Proof. unfold qg_rect, g_rect. qrdec; try lra; fin. Qed.
Lemma P_rect_bridge a b x : Q2R (qphi_rect a b x) = (4 * P_rect (Q2R a) (Q2R b) (Q2R x))%R.
Proof. unfold qphi_rect, P_rect. qrdec; try lra; fin. Qed.

Lemma g_trap_bridge (a b c d x : Q) : (a < b)%Q -> (b < c)%Q -> (c < d)%Q ->
  Q2R (qg_trap a b c d x) = g_trap (Q2R a) (Q2R b) (Q2R c) (Q2R d) (Q2R x).
Proof. intros Hab Hbc Hcd. apply Qlt_Rlt in Hab as Rab. apply Qlt_Rlt in Hcd as Rcd.
 unfold qg_trap, g_trap. qrdec; try lra; fin. Qed.
Lemma P_trap_bridge (a b c d x : Q) : (a < b)%Q -> (b < c)%Q -> (c < d)%Q ->
  Q2R (qphi_trap a b c d x) = (4 * P_trap (Q2R a) (Q2R b) (Q2R c) (Q2R d) (Q2R x))%R.
Proof. intros Hab Hbc Hcd. apply Qlt_Rlt in Hab as Rab. apply Qlt_Rlt in Hcd as Rcd.
 unfold qphi_trap, P_trap. qrdec; try lra; fin. Qed.

(* ---- the consistent scoring functions ---- *)
Lemma qclip_bridge v x : Q2R (qclip v x) = clipR (Q2R v) (Q2R x).
Proof. unfold qclip, clipR.
 pose proof (Qltb_R x (- v)) as H1. pose proof (Qltb_R v x) as H2. rewrite Q2R_opp in H1.
 destruct (Qltb x (- v)), (Qltb v x); destruct (Rlt_dec (Q2R x) (- Q2R v)), (Rlt_dec (Q2R v) (Q2R x)); try lra; q2r; lra. Qed.

Section Generic.
Variables (W G P : R -> R) (g p : Q -> Q).
Hypothesis H1 : FTC W G.
Hypothesis H2 : forall k, FTC (fun t => W t * (t - k)) (fun t => G t * (t - k) - P t).
Hypothesis Hg : forall x, Q2R (g x) = G (Q2R x).
Hypothesis Hp : forall x, Q2R (p x) = (4 * P (Q2R x))%R.
Let p' := fun x => (4 * g x)%Q.

Lemma qcq_bridge alpha f o :
  Q2R (qcq g alpha f o) = if Rlt_dec (Q2R o) (Q2R f) then ((1 - Q2R alpha) * (G (Q2R f) - G (Q2R o)))%R
                          else (Q2R alpha * (G (Q2R o) - G (Q2R f)))%R.
Proof. unfold qcq. qrdec; try lra; q2r; rewrite !Hg; qconst; subst; lra. Qed.
Lemma qce_bridge alpha f o :
  Q2R (qce p p' alpha f o) = (4 * ((if Rlt_dec (Q2R o) (Q2R f) then 1 - Q2R alpha else Q2R alpha)
                                   * (P (Q2R o) - P (Q2R f) - G (Q2R f) * (Q2R o - Q2R f))))%R.
Proof. unfold qce, p'. qrdec; try lra; q2r; rewrite !Hg, !Hp; qconst; subst; lra. Qed.
Lemma qch_bridge v f o :
  Q2R (qch p p' v f o) = (2 * (P (Q2R o) - P (clipR (Q2R v) (Q2R f - Q2R o) + Q2R o)
                               + clipR (Q2R v) (Q2R f - Q2R o) * G (Q2R f)))%R.
Proof. unfold qch, p'. cbv zeta. q2r. rewrite !Hg, !Hp. q2r. rewrite !qclip_bridge. q2r. qconst; subst; lra. Qed.

Lemma tw_generic (alpha v f o lo hi : Q) : (0 <= v)%Q -> (lo <= f <= hi)%Q -> (lo <= o <= hi)%Q ->
  let F := Q2R f in let O := Q2R o in
  is_RInt (fun t => 4 * (W t * esR_expectile (1 / 2) F O t))%R (Q2R lo) (Q2R hi) (Q2R (qce p p' (1 # 2) f o)) /\
  is_RInt (fun t => 2 * (W t * esR_quantile (1 / 2) F O t))%R (Q2R lo) (Q2R hi) (Q2R (2 * qcq g (1 # 2) f o)) /\
  is_RInt (fun t => W t * esR_quantile (Q2R alpha) F O t)%R (Q2R lo) (Q2R hi) (Q2R (qcq g alpha f o)) /\
  is_RInt (fun t => 2 * (W t * esR_expectile (Q2R alpha) F O t))%R (Q2R lo) (Q2R hi) (Q2R ((1 # 2) * qce p p' alpha f o)) /\
  is_RInt (fun t => 2 * (W t * esR_huber (1 / 2) (Q2R v) F O t))%R (Q2R lo) (Q2R hi) (Q2R ((1 # 2) * qch p p' v f o)).
Proof. intros Hv [Hf1 Hf2] [Ho1 Ho2] F O.
 apply Qle_Rle in Hf1, Hf2, Ho1, Ho2, Hv. replace (Q2R 0) with 0%R in Hv by (unfold Q2R; simpl; lra).
 assert (Bf : (Q2R lo <= F <= Q2R hi)%R) by (unfold F; lra). assert (Bo : (Q2R lo <= O <= Q2R hi)%R) by (unfold O; lra).
 assert (Eh : Q2R (1 # 2) = (1 / 2)%R) by (unfold Q2R; simpl; lra).
 repeat split.
 - eapply is_RInt_val; [apply RInt_scal_l; apply (expectile_is_integral W G P (1 / 2) F O _ _ H2 Bf Bo) |].
   rewrite qce_bridge. rewrite Eh. fold F O. destruct (Rlt_dec O F); lra.
 - eapply is_RInt_val; [apply RInt_scal_l; apply (quantile_is_integral W G (1 / 2) F O _ _ H1 Bf Bo) |].
   rewrite Q2R_mult, qcq_bridge. rewrite Eh. fold F O. replace (Q2R 2) with 2%R by (unfold Q2R; simpl; lra). destruct (Rlt_dec O F); lra.
 - eapply is_RInt_val; [apply (quantile_is_integral W G (Q2R alpha) F O _ _ H1 Bf Bo) |].
   rewrite qcq_bridge. fold F O. destruct (Rlt_dec O F); lra.
 - eapply is_RInt_val; [apply RInt_scal_l; apply (expectile_is_integral W G P (Q2R alpha) F O _ _ H2 Bf Bo) |].
   rewrite Q2R_mult, qce_bridge. rewrite Eh. fold F O. destruct (Rlt_dec O F); lra.
 - eapply is_RInt_val; [apply RInt_scal_l; apply (huber_is_integral W G P (1 / 2) (Q2R v) F O _ _ H1 H2 Hv Bf Bo) |].
   rewrite Q2R_mult, qch_bridge. rewrite Eh. fold F O. destruct (Rlt_dec O F); lra.
Qed.
End Generic.

(* ---- antiderivative statements at rational points ---- *)
Lemma g_rect_is_antiderivative (a b x y : Q) : (a < b)%Q -> (x <= y)%Q ->
  is_RInt (w_rect (Q2R a) (Q2R b)) (Q2R x) (Q2R y) (Q2R (qg_rect a b y - qg_rect a b x)).
Proof. intros Hab Hxy. apply Qlt_Rlt in Hab. apply Qle_Rle in Hxy. rewrite Q2R_minus, !g_rect_bridge. apply rect_H1; auto. Qed.
Lemma g_trap_is_antiderivative (a b c d x y : Q) : (a < b)%Q -> (b < c)%Q -> (c < d)%Q -> (x <= y)%Q ->
  is_RInt (w_trap (Q2R a) (Q2R b) (Q2R c) (Q2R d)) (Q2R x) (Q2R y) (Q2R (qg_trap a b c d y - qg_trap a b c d x)).
Proof. intros Hab Hbc Hcd Hxy. rewrite Q2R_minus, !g_trap_bridge by auto.
 apply Qlt_Rlt in Hab, Hbc, Hcd. apply Qle_Rle in Hxy. apply trap_H1; auto. Qed.

Lemma phi_rect_is_double_antiderivative (a b x y : Q) : (a < b)%Q -> (x <= y)%Q ->
  is_RInt (fun t => w_rect (Q2R a) (Q2R b) t * (Q2R y - t))%R (Q2R x) (Q2R y)
          (Q2R ((qphi_rect a b y - qphi_rect a b x - qphip_rect a b x * (y - x)) / 4)).
Proof. intros Hab Hxy. apply Qlt_Rlt in Hab. apply Qle_Rle in Hxy.
 eapply is_RInt_val; [apply (double_antiderivative _ (g_rect (Q2R a) (Q2R b)) (P_rect (Q2R a) (Q2R b))); [intro k; apply rect_H2; auto | exact Hxy] |].
 unfold qphip_rect. q2r. rewrite !P_rect_bridge, !g_rect_bridge. qconst; subst. lra. Qed.
Lemma phi_trap_is_double_antiderivative (a b c d x y : Q) : (a < b)%Q -> (b < c)%Q -> (c < d)%Q -> (x <= y)%Q ->
  is_RInt (fun t => w_trap (Q2R a) (Q2R b) (Q2R c) (Q2R d) t * (Q2R y - t))%R (Q2R x) (Q2R y)
          (Q2R ((qphi_trap a b c d y - qphi_trap a b c d x - qphip_trap a b c d x * (y - x)) / 4)).
Proof. intros Hab Hbc Hcd Hxy.
 unfold qphip_trap. q2r. rewrite !P_trap_bridge, !g_trap_bridge by auto.
 apply Qlt_Rlt in Hab, Hbc, Hcd. apply Qle_Rle in Hxy.
 eapply is_RInt_val; [apply (double_antiderivative _ (g_trap (Q2R a) (Q2R b) (Q2R c) (Q2R d)) (P_trap (Q2R a) (Q2R b) (Q2R c) (Q2R d)));
   [intro k; apply trap_H2; auto | exact Hxy] |].
 qconst; subst. lra. Qed.

(* ---- the five threshold-weighted scores as integrals over theta of weight x elementary score ---- *)
Theorem tw_rect_is_integral (a b alpha v f o lo hi : Q) : (a < b)%Q -> (0 <= v)%Q -> (lo <= f <= hi)%Q -> (lo <= o <= hi)%Q ->
  let W := w_rect (Q2R a) (Q2R b) in let F := Q2R f in let O := Q2R o in
  is_RInt (fun t => 4 * (W t * esR_expectile (1 / 2) F O t))%R (Q2R lo) (Q2R hi) (Q2R (q_tw_sq_rect a b f o)) /\
  is_RInt (fun t => 2 * (W t * esR_quantile (1 / 2) F O t))%R (Q2R lo) (Q2R hi) (Q2R (q_tw_abs_rect a b f o)) /\
  is_RInt (fun t => W t * esR_quantile (Q2R alpha) F O t)%R (Q2R lo) (Q2R hi) (Q2R (q_tw_quantile_rect a b alpha f o)) /\
  is_RInt (fun t => 2 * (W t * esR_expectile (Q2R alpha) F O t))%R (Q2R lo) (Q2R hi) (Q2R (q_tw_expectile_rect a b alpha f o)) /\
  is_RInt (fun t => 2 * (W t * esR_huber (1 / 2) (Q2R v) F O t))%R (Q2R lo) (Q2R hi) (Q2R (q_tw_huber_rect a b v f o)).
Proof. intros Hab Hv Hf Ho. apply Qlt_Rlt in Hab.
 exact (tw_generic (w_rect (Q2R a) (Q2R b)) (g_rect (Q2R a) (Q2R b)) (P_rect (Q2R a) (Q2R b)) (qg_rect a b) (qphi_rect a b)
          (rect_H1 _ _ Hab) (fun k => rect_H2 _ _ k Hab) (g_rect_bridge a b) (P_rect_bridge a b) alpha v f o lo hi Hv Hf Ho). Qed.

Theorem tw_trap_is_integral (a b c d alpha v f o lo hi : Q) : (a < b)%Q -> (b < c)%Q -> (c < d)%Q -> (0 <= v)%Q ->
  (lo <= f <= hi)%Q -> (lo <= o <= hi)%Q ->
  let W := w_trap (Q2R a) (Q2R b) (Q2R c) (Q2R d) in let F := Q2R f in let O := Q2R o in
  is_RInt (fun t => 4 * (W t * esR_expectile (1 / 2) F O t))%R (Q2R lo) (Q2R hi) (Q2R (q_tw_sq_trap a b c d f o)) /\
  is_RInt (fun t => 2 * (W t * esR_quantile (1 / 2) F O t))%R (Q2R lo) (Q2R hi) (Q2R (q_tw_abs_trap a b c d f o)) /\
  is_RInt (fun t => W t * esR_quantile (Q2R alpha) F O t)%R (Q2R lo) (Q2R hi) (Q2R (q_tw_quantile_trap a b c d alpha f o)) /\
  is_RInt (fun t => 2 * (W t * esR_expectile (Q2R alpha) F O t))%R (Q2R lo) (Q2R hi) (Q2R (q_tw_expectile_trap a b c d alpha f o)) /\
  is_RInt (fun t => 2 * (W t * esR_huber (1 / 2) (Q2R v) F O t))%R (Q2R lo) (Q2R hi) (Q2R (q_tw_huber_trap a b c d v f o)).
Proof. intros Hab Hbc Hcd Hv Hf Ho.
 pose proof (g_trap_bridge a b c d) as Bg. pose proof (P_trap_bridge a b c d) as Bp.
 apply Qlt_Rlt in Hab as Rab, Hbc as Rbc, Hcd as Rcd.
 exact (tw_generic (w_trap (Q2R a) (Q2R b) (Q2R c) (Q2R d)) (g_trap (Q2R a) (Q2R b) (Q2R c) (Q2R d)) (P_trap (Q2R a) (Q2R b) (Q2R c) (Q2R d))
          (qg_trap a b c d) (qphi_trap a b c d) (trap_H1 _ _ _ _ Rab Rbc Rcd) (fun k => trap_H2 _ _ _ _ k Rab Rbc Rcd)
          (fun x => Bg x Hab Hbc Hcd) (fun x => Bp x Hab Hbc Hcd) alpha v f o lo hi Hv Hf Ho). Qed.


(* ---- trapezoid: g non-decreasing, phi convex with subgradient phi' = 4 g (via the integral form) ---- *)
Lemma qg_trap_nondecreasing (a b c d : Q) : (a < b)%Q -> (b < c)%Q -> (c < d)%Q -> nondecreasing (qg_trap a b c d).
Proof. intros Hab Hbc Hcd x y Hxy. apply Rle_Qle. rewrite !g_trap_bridge by auto.
 apply Qlt_Rlt in Hab, Hbc, Hcd. apply Qle_Rle in Hxy.
 apply (g_nondecreasing (w_trap (Q2R a) (Q2R b) (Q2R c) (Q2R d))); auto.
 - intro t. apply w_trap_nonneg; auto.
 - apply trap_H1; auto. Qed.
Lemma qphip_trap_nondecreasing (a b c d : Q) : (a < b)%Q -> (b < c)%Q -> (c < d)%Q -> nondecreasing (qphip_trap a b c d).
Proof. intros Hab Hbc Hcd x y Hxy. unfold qphip_trap. pose proof (qg_trap_nondecreasing a b c d Hab Hbc Hcd x y Hxy). Lqa.lra. Qed.
Lemma qphi_trap_subgradient (a b c d : Q) : (a < b)%Q -> (b < c)%Q -> (c < d)%Q -> subgradient (qphi_trap a b c d) (qphip_trap a b c d).
Proof. intros Hab Hbc Hcd x y. apply Rle_Qle. unfold qphip_trap. q2r. rewrite !P_trap_bridge, !g_trap_bridge by auto.
 apply Qlt_Rlt in Hab, Hbc, Hcd.
 pose proof (P_subgradient (w_trap (Q2R a) (Q2R b) (Q2R c) (Q2R d)) (g_trap (Q2R a) (Q2R b) (Q2R c) (Q2R d)) (P_trap (Q2R a) (Q2R b) (Q2R c) (Q2R d))
   (fun t => w_trap_nonneg _ _ _ _ t Hab Hcd) (fun k => trap_H2 _ _ _ _ k Hab Hbc Hcd) (Q2R x) (Q2R y)).
 qconst; subst. lra. Qed.

(* hence every trapezoidal threshold-weighted score is non-negative and vanishes at fcst = obs *)
Lemma tw_trap_nonneg (a b c d alpha v f o : Q) : (a < b)%Q -> (b < c)%Q -> (c < d)%Q -> (0 < alpha < 1)%Q -> (0 <= v)%Q ->
  (0 <= q_tw_sq_trap a b c d f o /\ 0 <= q_tw_abs_trap a b c d f o /\ 0 <= q_tw_quantile_trap a b c d alpha f o /\
   0 <= q_tw_expectile_trap a b c d alpha f o /\ 0 <= q_tw_huber_trap a b c d v f o)%Q /\
  (f == o -> q_tw_sq_trap a b c d f o == 0 /\ q_tw_abs_trap a b c d f o == 0 /\ q_tw_quantile_trap a b c d alpha f o == 0 /\
   q_tw_expectile_trap a b c d alpha f o == 0 /\ q_tw_huber_trap a b c d v f o == 0)%Q.
Proof. intros Hab Hbc Hcd Ha Hv.
 pose proof (qg_trap_nondecreasing a b c d Hab Hbc Hcd) as M.
 pose proof (qphip_trap_nondecreasing a b c d Hab Hbc Hcd) as M'.
 pose proof (qphi_trap_subgradient a b c d Hab Hbc Hcd) as S.
 assert (Hh : (0 < 1 # 2 < 1)%Q) by (split; reflexivity).
 unfold q_tw_sq_trap, q_tw_abs_trap, q_tw_quantile_trap, q_tw_expectile_trap, q_tw_huber_trap. split.
 - pose proof (qce_nonneg _ _ (1 # 2) f o S Hh). pose proof (qcq_nonneg _ (1 # 2) f o M Hh). pose proof (qcq_nonneg _ alpha f o M Ha).
   pose proof (qce_nonneg _ _ alpha f o S Ha). pose proof (qch_nonneg _ _ v f o S M' Hv). repeat split; Lqa.lra.
 - intro E. pose proof (qce_zero _ _ (1 # 2) f o S E). pose proof (qcq_zero _ (1 # 2) f o M E). pose proof (qcq_zero _ alpha f o M E).
   pose proof (qce_zero _ _ alpha f o S E). pose proof (qch_zero _ _ v f o S Hv E). repeat split; Lqa.lra. Qed.
