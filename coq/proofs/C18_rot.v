(* proofs/C18_rot.v -- the sector specification is the smallest covering arc; it is invariant under
   rotating all directions, and so are the modelled sector size and angular index. *)
From Coq Require Import Permutation.
From V Require Import lib.Tree gen.Gen_functions model.C18 proofs.C18 proofs.C18_mod proofs.C18_sector.
Open Scope list_scope.
Open Scope Q_scope.

(* ------------------------------------------------------------------------------------ *)
(* minima / maxima up to Qeq and under permutation                                        *)
(* ------------------------------------------------------------------------------------ *)
Lemma qminl_eq d d' l l' : d == d' -> Forall2 Qeq l l' -> qminl d l == qminl d' l'.
Proof. intros Hd H. induction H as [|x y l l' Hxy H IH]; simpl; [exact Hd|].
  change (fold_right _ d l) with (qminl d l). change (fold_right _ d' l') with (qminl d' l').
  rewrite (Qle_bool_compat x y (qminl d l) (qminl d' l') Hxy IH). destruct (Qle_bool y (qminl d' l')); assumption. Qed.
Lemma qmin_list_eq l l' : Forall2 Qeq l l' -> qmin_list l == qmin_list l'.
Proof. intro H. destruct H as [|x y l l' Hxy H]; [reflexivity|]. apply qminl_eq; assumption. Qed.

Lemma is_max_perm m l l' : Permutation l l' -> is_max m l -> is_max m l'.
Proof. intros P [I L]. split; [apply (Permutation_in _ P I)|]. intros x Hx. apply L. apply (Permutation_in _ (Permutation_sym P) Hx). Qed.
Lemma is_min_perm m l l' : Permutation l l' -> is_min m l -> is_min m l'.
Proof. intros P [I L]. split; [apply (Permutation_in _ P I)|]. intros x Hx. apply L. apply (Permutation_in _ (Permutation_sym P) Hx). Qed.
Lemma perm_nonempty {A} (l l' : list A) : Permutation l l' -> l <> [] -> l' <> [].
Proof. intros P N E. subst l'. apply N. apply Permutation_nil. apply Permutation_sym. exact P. Qed.
Lemma qmax_list_perm l l' : Permutation l l' -> qmax_list l == qmax_list l'.
Proof. intro P. destruct l as [|a t].
  - apply Permutation_nil in P. subst. reflexivity.
  - assert (N : a :: t <> []) by discriminate. pose proof (perm_nonempty _ _ P N) as N'.
    apply (is_max_unique _ _ l'); [apply (is_max_perm _ _ _ P); apply qmax_list_spec; exact N | apply qmax_list_spec; exact N']. Qed.
Lemma qmin_list_perm l l' : Permutation l l' -> qmin_list l == qmin_list l'.
Proof. intro P. destruct l as [|a t].
  - apply Permutation_nil in P. subst. reflexivity.
  - assert (N : a :: t <> []) by discriminate. pose proof (perm_nonempty _ _ P N) as N'.
    apply (is_min_unique _ _ l'); [apply (is_min_perm _ _ _ P); apply qmin_list_spec; exact N | apply qmin_list_spec; exact N']. Qed.

(* ------------------------------------------------------------------------------------ *)
(* invariances of the covering-arc specification                                          *)
(* ------------------------------------------------------------------------------------ *)
Definition reach (l : list Q) (p : Q) : Q := qmax_list (map (cw p) l).
Lemma sector_arc_unfold l : sector_arc l = qmin_list (map (reach l) l).
Proof. reflexivity. Qed.

Lemma reach_map (f : Q -> Q) l p : (forall a b, cw (f a) (f b) == cw a b) -> reach (map f l) (f p) == reach l p.
Proof. intro H. unfold reach. rewrite map_map. apply qmax_list_eq. apply Forall2_map_eq. intros q _. apply H. Qed.
Lemma sector_arc_map (f : Q -> Q) l : (forall a b, cw (f a) (f b) == cw a b) -> sector_arc (map f l) == sector_arc l.
Proof. intro H. rewrite !sector_arc_unfold. rewrite map_map. apply qmin_list_eq. apply Forall2_map_eq. intros p _. apply reach_map. exact H. Qed.

Lemma sector_arc_mod l : sector_arc (map qmod360 l) == sector_arc l.
Proof. apply sector_arc_map. apply cw_mod. Qed.
Lemma sector_arc_shift c l : sector_arc (map (fun x => x + c) l) == sector_arc l.
Proof. apply sector_arc_map. intros a b. apply cw_shift. Qed.

Lemma reach_perm l l' p : Permutation l l' -> reach l p == reach l' p.
Proof. intro P. unfold reach. apply qmax_list_perm. apply Permutation_map. exact P. Qed.
Lemma sector_arc_perm l l' : Permutation l l' -> sector_arc l == sector_arc l'.
Proof. intro P. rewrite !sector_arc_unfold.
  rewrite (qmin_list_perm _ _ (Permutation_map (reach l) P)). apply qmin_list_eq. apply Forall2_map_eq. intros p _. apply reach_perm. exact P. Qed.

(* ------------------------------------------------------------------------------------ *)
(* 360 - largest gap  =  smallest covering arc   (sorted directions in [0,360))            *)
(* ------------------------------------------------------------------------------------ *)
Lemma cw_sub a b q : cw b q == qmod360 (cw a q - cw a b).
Proof. unfold cw. destruct (qmod360_form (q - a)) as [j Ej]. destruct (qmod360_form (b - a)) as [k Ek].
  assert (E : q - b == (qmod360 (q - a) - qmod360 (b - a)) + 360 * zq (j - k)).
  { unfold Z.sub. rewrite zq_add. assert (X : zq (- k) == - zq k) by (unfold zq; rewrite inject_Z_opp; reflexivity). rewrite X.
    assert (Y : q - b == (q - a) - (b - a)) by ring. rewrite Y. rewrite Ej at 1. rewrite Ek at 1. ring. }
  rewrite E. apply qmod360_add_turns. Qed.
Lemma cw_reverse a b : 0 <= a < 360 -> 0 <= b < 360 -> ~ a == b -> cw b a == 360 - cw a b.
Proof. intros [A0 A1] [B0 B1] N. destruct (Qlt_le_dec b a) as [L|L].
  - rewrite (cw_gt a b), (cw_le b a) by lra. ring.
  - assert (a < b) by (destruct (Qlt_le_dec a b); [assumption | exfalso; apply N; lra]).
    rewrite (cw_le a b), (cw_gt b a) by lra. ring. Qed.

Lemma cps_adjacent first prev l u a b v : prev :: l = u ++ a :: b :: v -> In (a, b) (cpairs_from first prev l).
Proof. revert prev u. induction l as [|y t IH]; intros prev u E.
  - destruct u as [|x u']; [discriminate|]. destruct u'; discriminate.
  - destruct u as [|x u']; simpl in E.
    + inversion E; subst. left. reflexivity.
    + inversion E; subst. right. apply (IH y u'). assumption. Qed.
Lemma cps_wrap first prev l : In (last l prev, first) (cpairs_from first prev l).
Proof. revert prev. induction l as [|y t IH]; intro prev; [left; reflexivity|]. rewrite last_cons. simpl cpairs_from. right. apply IH. Qed.

Lemma first_occurrence (p : Q) l : In p l -> exists l1 p' l2, l = l1 ++ p' :: l2 /\ p' == p /\ forall q, In q l1 -> ~ q == p.
Proof. induction l as [|a t IH]; intro H; [destruct H|].
  destruct (Qeq_dec a p) as [E|N].
  - exists [], a, t. split; [reflexivity|]. split; [exact E | intros q []].
  - destruct H as [->|H]; [exfalso; apply N; reflexivity|]. destruct (IH H) as [l1 [p' [l2 [E1 [E2 E3]]]]].
    exists (a :: l1), p', l2. split; [simpl; rewrite E1; reflexivity|]. split; [exact E2|]. intros q [<-|Hq]; [exact N | apply E3; exact Hq]. Qed.

Section Arc.
  Variables (x : Q) (t : list Q).
  Let d := x :: t.
  Hypothesis Hs : qsorted d.
  Hypothesis Hr : in_range d.
  Hypothesis Hne : x < last t x.
  Let cps := cpairs_from x x t.
  Let gs := map gpair cps.
  Let M := qmax_list gs.

  Lemma M_facts : In M gs /\ (forall g, In g gs -> g <= M) /\ 0 < M /\ M < 360.
  Proof. assert (N : gs <> []) by (unfold gs, cps; destruct t; simpl; discriminate).
    destruct (qmax_list_spec gs N) as [MI ML]. fold M in MI, ML. split; [exact MI|]. split; [exact ML|].
    pose proof (gs_sum x t Hs Hr Hne) as S. fold cps gs in S. pose proof (gs_nonneg x t) as Nn. fold cps gs in Nn.
    split.
    - destruct (Qlt_le_dec 0 M) as [L|L]; [exact L|]. exfalso.
      pose proof (qsum_le_count gs 0 Nn) as X. assert (forall g, In g gs -> g <= 0) by (intros g Hg; specialize (ML g Hg); lra).
      specialize (X H (Qle_refl 0)). lra.
    - unfold gs in MI. apply in_map_iff in MI. destruct MI as [p [<- _]]. apply gpair_range. Qed.

  (* starting at the far end of the largest gap, every direction is within 360 - M *)
  Lemma arc_upper : exists b, In b d /\ reach d b <= 360 - M.
  Proof. destruct M_facts as [MI [ML [M0 M1]]]. unfold gs in MI. apply in_map_iff in MI. destruct MI as [pM [EM IpM]].
    destruct (cps_in_d x t Hs Hr pM IpM) as [Ia Ib]. exists (snd pM). split; [exact Ib|].
    unfold reach. assert (N : map (cw (snd pM)) d <> []) by (unfold d; simpl; discriminate).
    destruct (qmax_list_spec _ N) as [RI _]. apply in_map_iff in RI. destruct RI as [q [<- Hq]].
    rewrite (cw_sub (fst pM) (snd pM) q). change (cw (fst pM) (snd pM)) with (gpair pM). rewrite EM.
    destruct (cw_range (fst pM) q) as [C0 C1].
    destruct (no_point_inside x t Hs Hr Hne pM q IpM Hq) as [Z|G].
    - rewrite Z. assert (E : 0 - M == - M) by ring. rewrite E. rewrite qmod360_neg by lra. lra.
    - rewrite EM in G. rewrite qmod360_id by lra. lra. Qed.

  (* from every direction some other direction is at least 360 - M away *)
  Lemma arc_lower p : In p d -> 360 - M <= reach d p.
  Proof. intro Hp. destruct M_facts as [_ [ML _]].
    destruct (first_occurrence p d Hp) as [l1 [p' [l2 [E1 [E2 E3]]]]].
    assert (Hpair : exists a, In (a, p') cps /\ In a d /\ ~ a == p).
    { destruct l1 as [|x0 l1' _] using rev_ind.
      - (* p' is the head: the wrap-around pair *)
        simpl in E1. unfold d in E1. inversion E1; subst p'. exists (last t x). split; [apply cps_wrap|]. split; [apply last_in|]. rewrite <- E2. lra.
      - rewrite <- app_assoc in E1. simpl in E1. exists x0. split; [apply (cps_adjacent x x t l1' x0 p' l2); exact E1|].
        split; [rewrite E1; apply in_or_app; right; left; reflexivity | apply E3; apply in_or_app; right; left; reflexivity]. }
    destruct Hpair as [a [Ipair [Ia Na]]].
    assert (Ip' : In p' d) by (rewrite E1; apply in_or_app; right; left; reflexivity).
    pose proof (Hr a Ia) as Ra. pose proof (Hr p' Ip') as Rp'.
    assert (G : gpair (a, p') <= M) by (apply ML; unfold gs; apply in_map; exact Ipair). unfold gpair in G. simpl in G.
    assert (R : cw p' a == 360 - cw a p') by (apply cw_reverse; auto; rewrite E2; exact Na).
    unfold reach. assert (N : map (cw p) d <> []) by (unfold d; simpl; discriminate).
    destruct (qmax_list_spec _ N) as [_ RL]. apply Qle_trans with (cw p a); [rewrite <- E2, R; lra | apply RL; apply in_map; exact Ia]. Qed.

  Lemma spec_is_arc_ne : sector_spec_sorted d == sector_arc d.
  Proof. unfold sector_spec_sorted.
    assert (EM : qmax_list (cgaps d) == M) by (unfold d, M, gs, cps; symmetry; apply qmax_list_eq; apply gs_cgaps; assumption).
    rewrite EM.
    rewrite sector_arc_unfold. assert (N : map (reach d) d <> []) by (unfold d; simpl; discriminate).
    destruct (qmin_list_spec _ N) as [mI mL]. apply in_map_iff in mI. destruct mI as [p0 [E0 Hp0]].
    destruct arc_upper as [b [Hb Ub]]. apply Qle_antisym.
    - rewrite <- E0. apply arc_lower. exact Hp0.
    - apply Qle_trans with (reach d b); [apply mL; apply in_map; exact Hb | exact Ub]. Qed.
End Arc.

Lemma spec_is_arc_eq x t : qsorted (x :: t) -> in_range (x :: t) -> last t x <= x -> sector_spec_sorted (x :: t) == sector_arc (x :: t).
Proof. intros Hs Hr Hle.
  assert (Hall : forall q, In q (x :: t) -> q == x).
  { intros q Hq. pose proof (x_le_all x t Hs q Hq). pose proof (all_le_lst x t Hs q Hq). lra. }
  rewrite <- (sector_core_v1_spec_eq x t Hs Hr Hle).
  assert (Z : sector_core_v1 (x :: t) == 0).
  { rewrite (sector_core_v1_spec_eq x t Hs Hr Hle). unfold sector_spec_sorted. simpl cgaps.
    destruct (gaps_all_equal x x t x (Qeq_refl x) Hall) as [I1 I2].
    assert (N : gaps_from x x t <> []) by (destruct t; simpl; discriminate).
    destruct (qmax_list_spec _ N) as [MI ML]. pose proof (ML _ I1) as G. pose proof (Hall _ (last_in x t)) as El.
    destruct (I2 _ MI) as [Z|Z]; lra. }
  rewrite Z. rewrite sector_arc_unfold. assert (N : map (reach (x :: t)) (x :: t) <> []) by (simpl; discriminate).
  destruct (qmin_list_spec _ N) as [mI _]. apply in_map_iff in mI. destruct mI as [p [<- Hp]].
  unfold reach. assert (N2 : map (cw p) (x :: t) <> []) by (simpl; discriminate).
  destruct (qmax_list_spec _ N2) as [RI _]. apply in_map_iff in RI. destruct RI as [q [<- Hq]].
  rewrite (Hall p Hp), (Hall q Hq). symmetry. apply cw_self. Qed.

Lemma spec_is_arc_sorted d : d <> [] -> qsorted d -> in_range d -> sector_spec_sorted d == sector_arc d.
Proof. destruct d as [|x t]; [congruence|]. intros _ Hs Hr.
  destruct (Qlt_le_dec x (last t x)) as [L|L]; [apply spec_is_arc_ne | apply spec_is_arc_eq]; assumption. Qed.

(* the gap specification is the smallest covering arc, for every non-empty list of directions *)
Theorem sector_spec_is_arc (l : list Q) : l <> [] -> sector_spec l == sector_arc l.
Proof. intro N. unfold sector_spec.
  rewrite spec_is_arc_sorted; [| apply qsort_nonempty; destruct l; simpl; congruence | apply qsort_sorted | apply in_range_mods].
  rewrite (sector_arc_perm _ _ (qsort_perm _)). apply sector_arc_mod. Qed.

(* rotating all directions by c leaves the sector unchanged *)
Theorem sector_spec_rotation (c : Q) (l : list Q) : l <> [] -> sector_spec (map (fun x => x + c) l) == sector_spec l.
Proof. intro N. rewrite !sector_spec_is_arc by (try assumption; destruct l; simpl; congruence). apply sector_arc_shift. Qed.

Theorem sector_x_rotation (c : Q) (l : list Q) : l <> [] ->
  sector_x false (fins (map (fun x => x + c) l)) =x= sector_x false (fins l).
Proof. intro N. rewrite !sector_code_eq_spec by (try assumption; destruct l; simpl; congruence). cbn [xeq]. apply sector_spec_rotation. exact N. Qed.
