(* proofs/C07_int.v -- R level: the specification value of the exact method is the Riemann integral
   (Coquelicot is_RInt) of w(x) (F(x) - 1{x >= y})^2 over the span of the threshold grid, with F the
   continuous piecewise-linear interpolant of the ordinates and w the right-continuous step weight.
   Not required by any model file: extraction stays free of Reals. *)
From V Require Import lib.Tree gen.Gen_C07_kern model.Cdf model.C07 proofs.C07.
From Coq Require Import Reals Qreals Lra.
From Coquelicot Require Import Coquelicot.
Open Scope R_scope.

(* ------------------------------------------------------------------------------------------ *)
(* closed form of one piece                                                                     *)
(* ------------------------------------------------------------------------------------------ *)
Lemma piece_integral (m b x0 x1 : R) :
  is_RInt (fun t => (m * (t - x0) + b) ^ 2) x0 x1
          (m ^ 2 * (x1 - x0) ^ 3 / 3 + m * b * (x1 - x0) ^ 2 + b ^ 2 * (x1 - x0)).
Proof.
  set (G := fun t : R => m ^ 2 * (t - x0) ^ 3 / 3 + m * b * (t - x0) ^ 2 + b ^ 2 * (t - x0)).
  replace (m ^ 2 * (x1 - x0) ^ 3 / 3 + m * b * (x1 - x0) ^ 2 + b ^ 2 * (x1 - x0)) with (minus (G x1) (G x0)).
  2:{ unfold G, minus, plus, opp; simpl. field. }
  apply (is_RInt_derive G (fun t => (m * (t - x0) + b) ^ 2)).
  - intros x _. unfold G. auto_derive; [trivial | field].
  - intros x _. apply (ex_derive_continuous (fun t => (m * (t - x0) + b) ^ 2)). auto_derive. trivial.
Qed.

Ltac eqR := match goal with |- ?a = ?b => change (@eq R a b) end.

(* the same piece through its two end values a (at x0) and b (at x1): (x1-x0)(a^2+ab+b^2)/3 *)
Lemma piece_integral_ends (c a b x0 x1 : R) : x0 <> x1 ->
  is_RInt (fun t => c * (a + (b - a) / (x1 - x0) * (t - x0)) ^ 2) x0 x1 (c * ((x1 - x0) * (a * a + a * b + b * b) / 3)).
Proof.
  intro H.
  apply is_RInt_ext with (f := fun t => scal c (((b - a) / (x1 - x0) * (t - x0) + a) ^ 2)).
  { intros t _. unfold scal; simpl; unfold mult; simpl. ring. }
  replace (c * ((x1 - x0) * (a * a + a * b + b * b) / 3)) with
    (scal c (((b - a) / (x1 - x0)) ^ 2 * (x1 - x0) ^ 3 / 3 + (b - a) / (x1 - x0) * a * (x1 - x0) ^ 2 + a ^ 2 * (x1 - x0))).
  2:{ unfold scal; simpl; unfold mult; simpl. field. lra. }
  apply (@is_RInt_scal R_CompleteNormedModule). apply piece_integral.
Qed.

(* ------------------------------------------------------------------------------------------ *)
(* the functions being integrated                                                               *)
(* ------------------------------------------------------------------------------------------ *)
Definition RH (y : Q) (x : R) : R := if Rle_dec (Q2R y) x then 1 else 0.          (* 1{x >= y} *)

(* continuous piecewise-linear interpolant through the points (t_i, F_i) *)
Fixpoint Finterp (pts : list pt) (x : R) : R :=
  match pts with
  | p0 :: ((p1 :: _) as tl) =>
      if Rlt_dec x (Q2R (tq p1))
      then Q2R (fq p0) + (Q2R (fq p1) - Q2R (fq p0)) / (Q2R (tq p1) - Q2R (tq p0)) * (x - Q2R (tq p0))
      else Finterp tl x
  | p0 :: nil => Q2R (fq p0)
  | nil => 0
  end.
(* right-continuous piecewise-constant weight: w_i on [t_i, t_{i+1}) *)
Fixpoint Wstep (pts : list pt) (x : R) : R :=
  match pts with
  | p0 :: ((p1 :: _) as tl) => if Rlt_dec x (Q2R (tq p1)) then Q2R (wq p0) else Wstep tl x
  | p0 :: nil => Q2R (wq p0)
  | nil => 0
  end.

(* cu, co select the under- / over-forecast part *)
Definition integrand (cu co : R) (pts : list pt) (y : Q) (x : R) : R :=
  Wstep pts x * (cu * (1 - RH y x) * (Finterp pts x) ^ 2 + co * RH y x * (Finterp pts x - 1) ^ 2).

Definition tfirst (pts : list pt) : Q := hd 0%Q (map tq pts).
Definition tlast (pts : list pt) : Q := last (map tq pts) 0%Q.

(* the observation does not lie strictly inside a grid interval (it is on the grid or outside its span) *)
Fixpoint no_interior (y : Q) (ts : list Q) : bool :=
  match ts with
  | t0 :: ((t1 :: _) as tl) => (Qle_bool y t0 || Qle_bool t1 y) && no_interior y tl
  | _ => true
  end.

Lemma increasing_le_last : forall (ts : list Q) t0, Cdf.increasing (t0 :: ts) = true -> (Q2R t0 <= Q2R (last (t0 :: ts) 0%Q))%R.
Proof.
  induction ts as [|t1 ts IH]; intros t0 H. simpl; lra.
  apply increasing_cons in H. destruct H as [Hlt Hi]. apply Qlt_Rlt in Hlt.
  specialize (IH t1 Hi). change (last (t0 :: t1 :: ts) 0%Q) with (last (t1 :: ts) 0%Q). lra.
Qed.

Lemma Q2R_sq_piece d a b : Q2R (sq_piece d a b) = Q2R d * (Q2R a * Q2R a + Q2R a * Q2R b + Q2R b * Q2R b) / 3.
Proof.
  unfold sq_piece. rewrite Q2R_div by (unfold Qeq; simpl; lia).
  rewrite Q2R_mult, !Q2R_plus, !Q2R_mult.
  replace (Q2R 3) with 3 by (unfold Q2R; simpl; field). reflexivity.
Qed.

Definition specV (cu co : R) (pts : list pt) (y : Q) : R :=
  cu * Q2R (fst (spec_exact pts y)) + co * Q2R (snd (spec_exact pts y)).

Lemma spec_exact_step p0 p1 tl y :
  spec_exact (p0 :: p1 :: tl) y =
  (if Qltb (tq p0) y
   then (fst (spec_exact (p1 :: tl) y) + wq p0 * sq_piece (tq p1 - tq p0) (fq p0) (fq p1), snd (spec_exact (p1 :: tl) y))
   else (fst (spec_exact (p1 :: tl) y), snd (spec_exact (p1 :: tl) y) + wq p0 * sq_piece (tq p1 - tq p0) (fq p0 - 1) (fq p1 - 1)))%Q.
Proof.
  destruct p0 as [[t0 f0] w0], p1 as [[t1 f1] w1].
  change (spec_exact ((t0, f0, w0) :: (t1, f1, w1) :: tl) y) with
    (let '(u, o) := spec_exact ((t1, f1, w1) :: tl) y in
     if Qltb t0 y then (u + w0 * sq_piece (t1 - t0) f0 f1, o) else (u, o + w0 * sq_piece (t1 - t0) (f0 - 1) (f1 - 1)))%Q.
  destruct (spec_exact ((t1, f1, w1) :: tl) y) as [u o]. reflexivity.
Qed.

Theorem spec_is_integral_sel (cu co : R) (y : Q) : forall pts : list pt,
  pts <> [] -> Cdf.increasing (map tq pts) = true -> no_interior y (map tq pts) = true ->
  is_RInt (integrand cu co pts y) (Q2R (tfirst pts)) (Q2R (tlast pts)) (specV cu co pts y).
Proof.
  induction pts as [|p0 tl IH]; intros Hne Hinc Hni. congruence.
  destruct tl as [|p1 tl].
  - (* a single threshold: empty span *)
    destruct p0 as [[t0 f0] w0]. unfold tfirst, tlast, specV. simpl.
    replace (cu * Q2R 0 + co * Q2R 0) with (@zero R_NormedModule) by (unfold Q2R, zero; simpl; lra).
    apply (@is_RInt_point R_NormedModule).
  - change (map tq (p0 :: p1 :: tl)) with (tq p0 :: tq p1 :: map tq tl) in Hinc, Hni.
    destruct (increasing_cons _ _ _ Hinc) as [Hlt Hinc'].
    simpl in Hni. apply andb_prop in Hni. destruct Hni as [Hy Hni'].
    assert (IH' := IH ltac:(congruence) Hinc' Hni'). clear IH.
    pose proof (Qlt_Rlt _ _ Hlt) as HltR.
    pose proof (increasing_le_last (map tq tl) (tq p1) Hinc') as Hlast.
    change (tq p1 :: map tq tl) with (map tq (p1 :: tl)) in Hlast. fold (tlast (p1 :: tl)) in Hlast.
    change (tfirst (p0 :: p1 :: tl)) with (tq p0). change (tlast (p0 :: p1 :: tl)) with (tlast (p1 :: tl)).
    change (tfirst (p1 :: tl)) with (tq p1) in IH'.
    (* value of the first piece *)
    set (A := if Qltb (tq p0) y
              then cu * Q2R (wq p0 * sq_piece (tq p1 - tq p0) (fq p0) (fq p1))
              else co * Q2R (wq p0 * sq_piece (tq p1 - tq p0) (fq p0 - 1) (fq p1 - 1))).
    assert (EV : specV cu co (p0 :: p1 :: tl) y = plus A (specV cu co (p1 :: tl) y)).
    { unfold specV, A. rewrite spec_exact_step. destruct (Qltb (tq p0) y); cbn [fst snd]; rewrite Q2R_plus; unfold plus; simpl; ring. }
    rewrite EV.
    apply (@is_RInt_Chasles R_NormedModule) with (b := Q2R (tq p1)).
    + (* the piece [t0, t1] *)
      unfold A. pose proof (Qltb_spec (tq p0) y) as Hc. destruct (Qltb (tq p0) y).
      * (* left of the observation: t1 <= y, H = 0 on the open piece *)
        assert (Hy1 : (Q2R (tq p1) <= Q2R y)%R).
        { apply Qle_Rle. apply orb_prop in Hy. destruct Hy as [Hy|Hy]; apply Qle_bool_iff in Hy; [exfalso; Lqa.lra | exact Hy]. }
        apply is_RInt_ext with
          (f := fun x => (cu * Q2R (wq p0)) * (Q2R (fq p0) + (Q2R (fq p1) - Q2R (fq p0)) / (Q2R (tq p1) - Q2R (tq p0)) * (x - Q2R (tq p0))) ^ 2).
        { intros x Hx. rewrite Rmin_left, Rmax_right in Hx by lra. unfold integrand. cbn [Wstep Finterp].
          destruct (Rlt_dec x (Q2R (tq p1))); [|lra]. unfold RH. destruct (Rle_dec (Q2R y) x); [lra|]. eqR. field. lra. }
        rewrite Q2R_mult, Q2R_sq_piece, Q2R_minus.
        replace (cu * (Q2R (wq p0) * (((Q2R (tq p1) - Q2R (tq p0)) * (Q2R (fq p0) * Q2R (fq p0) + Q2R (fq p0) * Q2R (fq p1) + Q2R (fq p1) * Q2R (fq p1))) / 3)))
          with (cu * Q2R (wq p0) * ((Q2R (tq p1) - Q2R (tq p0)) * (Q2R (fq p0) * Q2R (fq p0) + Q2R (fq p0) * Q2R (fq p1) + Q2R (fq p1) * Q2R (fq p1)) / 3)) by field.
        apply piece_integral_ends. lra.
      * (* right of the observation: y <= t0, H = 1 on the open piece *)
        assert (Hy0 : (Q2R y <= Q2R (tq p0))%R) by (apply Qle_Rle; exact Hc).
        apply is_RInt_ext with
          (f := fun x => (co * Q2R (wq p0)) * ((Q2R (fq p0) - 1) + ((Q2R (fq p1) - 1) - (Q2R (fq p0) - 1)) / (Q2R (tq p1) - Q2R (tq p0)) * (x - Q2R (tq p0))) ^ 2).
        { intros x Hx. rewrite Rmin_left, Rmax_right in Hx by lra. unfold integrand. cbn [Wstep Finterp].
          destruct (Rlt_dec x (Q2R (tq p1))); [|lra]. unfold RH. destruct (Rle_dec (Q2R y) x); [|lra]. eqR. field. lra. }
        rewrite Q2R_mult, Q2R_sq_piece, !Q2R_minus.
        replace (Q2R 1) with 1 by (unfold Q2R; simpl; field).
        replace (co * (Q2R (wq p0) * (((Q2R (tq p1) - Q2R (tq p0)) * ((Q2R (fq p0) - 1) * (Q2R (fq p0) - 1) + (Q2R (fq p0) - 1) * (Q2R (fq p1) - 1) + (Q2R (fq p1) - 1) * (Q2R (fq p1) - 1))) / 3)))
          with (co * Q2R (wq p0) * ((Q2R (tq p1) - Q2R (tq p0)) * ((Q2R (fq p0) - 1) * (Q2R (fq p0) - 1) + (Q2R (fq p0) - 1) * (Q2R (fq p1) - 1) + (Q2R (fq p1) - 1) * (Q2R (fq p1) - 1)) / 3)) by field.
        apply piece_integral_ends. lra.
    + (* the rest [t1, tn]: right of t1 the functions of the longer list are those of its tail *)
      apply is_RInt_ext with (f := integrand cu co (p1 :: tl) y); [|exact IH'].
      intros x Hx. rewrite Rmin_left, Rmax_right in Hx by lra.
      unfold integrand. change (Wstep (p0 :: p1 :: tl) x) with (if Rlt_dec x (Q2R (tq p1)) then Q2R (wq p0) else Wstep (p1 :: tl) x).
      change (Finterp (p0 :: p1 :: tl) x) with
        (if Rlt_dec x (Q2R (tq p1))
         then Q2R (fq p0) + (Q2R (fq p1) - Q2R (fq p0)) / (Q2R (tq p1) - Q2R (tq p0)) * (x - Q2R (tq p0))
         else Finterp (p1 :: tl) x).
      destruct (Rlt_dec x (Q2R (tq p1))); [lra | reflexivity].
Qed.

(* ------------------------------------------------------------------------------------------ *)
(* the theorem about the code-faithful exact method                                             *)
(* ------------------------------------------------------------------------------------------ *)
Definition crps_integrand (pts : list pt) (y : Q) (x : R) : R := Wstep pts x * (Finterp pts x - RH y x) ^ 2.
Definition under_integrand (pts : list pt) (y : Q) (x : R) : R := Wstep pts x * ((1 - RH y x) * (Finterp pts x) ^ 2).
Definition over_integrand (pts : list pt) (y : Q) (x : R) : R := Wstep pts x * (RH y x * (Finterp pts x - 1) ^ 2).

Theorem exact_is_integral (pts : list pt) (y : Q) :
  pts <> [] -> Cdf.increasing (map tq pts) = true -> no_interior y (map tq pts) = true ->
  forall t u o : Q,
  crps_exact_line (map tq pts) (fins (map fq pts)) (observed_cdf_line (XFin y) (map tq pts)) (fins (map wq pts)) = (XFin t, XFin u, XFin o) ->
  is_RInt (crps_integrand pts y) (Q2R (tfirst pts)) (Q2R (tlast pts)) (Q2R t) /\
  is_RInt (under_integrand pts y) (Q2R (tfirst pts)) (Q2R (tlast pts)) (Q2R u) /\
  is_RInt (over_integrand pts y) (Q2R (tfirst pts)) (Q2R (tlast pts)) (Q2R o).
Proof.
  intros Hne Hinc Hni t u o E.
  destruct (exact_line_eq_spec pts y Hinc) as [A [B C]]. cbv zeta in A, B, C. rewrite E in A, B, C. cbn [fst snd xeq] in A, B, C.
  apply Qeq_eqR in A, B, C.
  split; [|split].
  - rewrite A. apply is_RInt_ext with (f := integrand 1 1 pts y).
    { intros x _. unfold integrand, crps_integrand, RH. eqR. destruct (Rle_dec (Q2R y) x); ring. }
    pose proof (spec_is_integral_sel 1 1 y pts Hne Hinc Hni) as H. unfold specV in H.
    rewrite Q2R_plus. replace (Q2R (snd (spec_exact pts y)) + Q2R (fst (spec_exact pts y)))
      with (1 * Q2R (fst (spec_exact pts y)) + 1 * Q2R (snd (spec_exact pts y))) by ring. exact H.
  - rewrite B. apply is_RInt_ext with (f := integrand 1 0 pts y).
    { intros x _. unfold integrand, under_integrand. eqR. ring. }
    pose proof (spec_is_integral_sel 1 0 y pts Hne Hinc Hni) as H. unfold specV in H.
    replace (Q2R (fst (spec_exact pts y))) with (1 * Q2R (fst (spec_exact pts y)) + 0 * Q2R (snd (spec_exact pts y))) by ring. exact H.
  - rewrite C. apply is_RInt_ext with (f := integrand 0 1 pts y).
    { intros x _. unfold integrand, over_integrand. eqR. ring. }
    pose proof (spec_is_integral_sel 0 1 y pts Hne Hinc Hni) as H. unfold specV in H.
    replace (Q2R (snd (spec_exact pts y))) with (0 * Q2R (fst (spec_exact pts y)) + 1 * Q2R (snd (spec_exact pts y))) by ring. exact H.
Qed.

(* an observation that is one of the (increasing) thresholds is never strictly inside a grid interval *)
Lemma increasing_head_le : forall (ts : list Q) t0 x, Cdf.increasing (t0 :: ts) = true -> qmem x (t0 :: ts) = true -> (t0 <= x)%Q.
Proof.
  induction ts as [|t1 ts IH]; intros t0 x Hi Hm.
  - simpl in Hm. rewrite orb_false_r in Hm. apply Qeq_bool_iff in Hm. Lqa.lra.
  - apply increasing_cons in Hi. destruct Hi as [Hlt Hi].
    change (qmem x (t0 :: t1 :: ts)) with (Qeq_bool x t0 || qmem x (t1 :: ts)) in Hm.
    apply orb_prop in Hm. destruct Hm as [Hm|Hm].
    + apply Qeq_bool_iff in Hm. Lqa.lra.
    + specialize (IH t1 x Hi Hm). Lqa.lra.
Qed.
Lemma on_grid_no_interior y : forall ts, Cdf.increasing ts = true -> qmem y ts = true -> no_interior y ts = true.
Proof.
  induction ts as [|t0 ts IH]; intros Hi Hm. reflexivity.
  destruct ts as [|t1 ts]. reflexivity.
  destruct (increasing_cons _ _ _ Hi) as [Hlt Hi'].
  change (no_interior y (t0 :: t1 :: ts)) with ((Qle_bool y t0 || Qle_bool t1 y) && no_interior y (t1 :: ts)).
  change (qmem y (t0 :: t1 :: ts)) with (Qeq_bool y t0 || qmem y (t1 :: ts)) in Hm.
  apply orb_prop in Hm. destruct Hm as [Hm|Hm].
  - apply Qeq_bool_iff in Hm. rewrite (Qle_bool_true y t0) by Lqa.lra. simpl.
    (* y = t0 lies left of every later interval *)
    clear IH Hi. revert t1 Hlt Hi'. induction ts as [|t2 ts IH2]; intros t1 Hlt Hi'. reflexivity.
    destruct (increasing_cons _ _ _ Hi') as [Hlt' Hi''].
    change (no_interior y (t1 :: t2 :: ts)) with ((Qle_bool y t1 || Qle_bool t2 y) && no_interior y (t2 :: ts)).
    rewrite (Qle_bool_true y t1) by Lqa.lra. simpl. apply IH2; auto. Lqa.lra.
  - pose proof (increasing_head_le ts t1 y Hi' Hm) as Hle.
    rewrite (Qle_bool_true t1 y Hle), orb_true_r. simpl. apply IH; auto.
Qed.

(* ------------------------------------------------------------------------------------------ *)
(* the same for one forecast case of the public pipeline (crps_case), whenever filling left no   *)
(* NaN (C17_fill_range01 gives that for every NaN-free forecast with two thresholds)            *)
(* ------------------------------------------------------------------------------------------ *)
Lemma map_tq_combine : forall (g f w : list Q), length f = length g -> length w = length g ->
  map tq (combine (combine g f) w) = g /\ map fq (combine (combine g f) w) = f /\ map wq (combine (combine g f) w) = w.
Proof.
  induction g as [|a g IH]; intros [|b f] [|c w] Hf Hw; simpl in Hf, Hw; try (exfalso; congruence). repeat split.
  apply eq_add_S in Hf. apply eq_add_S in Hw. destruct (IH f w Hf Hw) as [A [B C]].
  cbn [combine map]. unfold tq, fq, wq in *. cbn [fst snd]. rewrite A, B, C. repeat split.
Qed.

Theorem crps_case_is_integral grid ft wt op (c : fcase) (f w : list Q) (y : Q) :
  o_exact op = true -> grid <> [] ->
  reformat_case grid ft wt op c = (fins f, observed_cdf_line (XFin y) grid, fins w) ->
  length f = length grid -> length w = length grid ->
  Cdf.increasing grid = true -> qmem y grid = true ->
  forall t u o : Q, crps_case grid ft wt op c = (XFin t, XFin u, XFin o) ->
  let pts := combine (combine grid f) w in
  is_RInt (crps_integrand pts y) (Q2R (tfirst pts)) (Q2R (tlast pts)) (Q2R t) /\
  is_RInt (under_integrand pts y) (Q2R (tfirst pts)) (Q2R (tlast pts)) (Q2R u) /\
  is_RInt (over_integrand pts y) (Q2R (tfirst pts)) (Q2R (tlast pts)) (Q2R o).
Proof.
  intros Hex Hne Hre Hf Hw Hinc Hy t u o E. cbv zeta.
  destruct (map_tq_combine grid f w Hf Hw) as [A [B C]].
  unfold crps_case in E. rewrite Hre, Hex in E.
  apply exact_is_integral.
  - destruct grid as [|g0 grid]; [congruence|]. destruct f, w; simpl in Hf, Hw; try (exfalso; congruence). simpl. congruence.
  - rewrite A. exact Hinc.
  - rewrite A. apply on_grid_no_interior; auto.
  - rewrite A, B, C. exact E.
Qed.
