(* proofs/C05.v -- lemmas behind the C05 theorems (point and interval scores). *)
From V Require Import lib.Tree gen.Gen_quantile_loss gen.Gen_functions gen.Gen_interval gen.Gen_standard model.C05.

Ltac kcbn := cbn -[Qle_bool Qeq_bool Qmult Qplus Qminus Qopp Qdiv Qinv Qabs Qcompare].

(* ---------- pinball ---------- *)
Lemma pinball_ok (a f o : Q) :
  gen_quantile_score (XFin f) (XFin o) (XFin a) =x= XFin (pinball_spec a f o).
Proof.
  unfold gen_quantile_score, pinball_spec, Qmax0. xunf. kcbn.
  qcmp; cbn; try lra; assert (f == o) by lra; nra.
Qed.

(* ---------- quantile interval score ---------- *)
Definition xeq4 (a b : xv * xv * xv * xv) : Prop :=
  let '(a1, a2, a3, a4) := a in let '(b1, b2, b3, b4) := b in a1 =x= b1 /\ a2 =x= b2 /\ a3 =x= b3 /\ a4 =x= b4.
Definition fin4 (t : Q * Q * Q * Q) : xv * xv * xv * xv :=
  let '(a, b, c, d) := t in (XFin a, XFin b, XFin c, XFin d).

Lemma qis_ok (ll ul lo hi y : Q) : 0 < ll -> ul < 1 ->
  xeq4 (gen_qis (XFin lo) (XFin hi) (XFin y) (XFin ll) (XFin ul)) (fin4 (qis_spec ll ul lo hi y)).
Proof.
  intros Hl Hu. unfold gen_qis, qis_spec, Qmax0, xeq4, fin4. xunf. unfold xdiv. kcbn.
  pose proof (Qeq_bool_spec ll 0) as E1. destruct (Qeq_bool ll 0); [lra|].
  pose proof (Qeq_bool_spec (1 + - ul) 0) as E2. destruct (Qeq_bool (1 + - ul) 0); [lra|].
  kcbn.
  assert (Hil : 0 < / ll) by (apply Qinv_lt_0_compat; lra).
  assert (Hiu : 0 < / (1 + - ul)) by (apply Qinv_lt_0_compat; lra).
  unfold Qdiv.
  assert (Eiu : / (1 - ul) == / (1 + - ul)) by (apply Qinv_comp; ring).
  qcmp; cbn; repeat split; rewrite ?Eiu;
  set (il := / ll) in *; set (iu := / (1 + - ul)) in *; clearbody il iu;
  try lra; try nra;
  try (assert (y - hi == 0) by nra; nra); try (assert (lo - y == 0) by nra; nra).
Qed.

(* an observation exactly on an end point is not penalised *)
Lemma qis_on_endpoint (ll ul lo hi : Q) :
  let '(_, ov, _, _) := qis_spec ll ul lo hi lo in ov == 0 /\
  let '(_, _, un, _) := qis_spec ll ul lo hi hi in un == 0.
Proof. unfold qis_spec, Qmax0. cbv zeta beta iota. split.
 - pose proof (Qle_bool_spec 0 (lo - lo)) as H. destruct (Qle_bool 0 (lo - lo)); unfold Qdiv; [ring | lra].
 - pose proof (Qle_bool_spec 0 (hi - hi)) as H. destruct (Qle_bool 0 (hi - hi)); unfold Qdiv; [ring | lra]. Qed.

(* the two penalties are the pinball losses of the two quantile forecasts, restricted to the side on
   which each can be penalised, scaled by 1/ll and 1/(1-ul):  total = width + ... *)
Lemma qis_is_scaled_pinball (ll ul lo hi y : Q) : 0 < ll -> ll < 1 -> 0 < ul -> ul < 1 ->
  let '(w, ov, un, tot) := qis_spec ll ul lo hi y in
  ov == (pinball_spec ll lo y - ll * Qmax0 (y - lo)) / (ll * (1 - ll)) /\
  un == (pinball_spec ul hi y - (1 - ul) * Qmax0 (hi - y)) / (ul * (1 - ul)) /\
  tot == w + ov + un.
Proof. intros. unfold qis_spec, pinball_spec. cbv zeta beta iota. repeat split; try reflexivity; field; lra. Qed.

(* interval score = quantile interval score at the symmetric levels (1-r)/2, (1+r)/2 *)
Lemma interval_levels_ok (r : Q) :
  let '(lq, uq) := gen_interval_levels (XFin r) in lq =x= XFin ((1 - r) / 2) /\ uq =x= XFin ((1 + r) / 2).
Proof. unfold gen_interval_levels. xunf. unfold xdiv. kcbn.
  pose proof (Qeq_bool_spec 2 0) as E. destruct (Qeq_bool 2 0); [lra|]. cbn -[Qdiv Qplus Qminus Qopp]. split; field. Qed.

(* and therefore width + (2/alpha) * penalties with alpha = 1 - r *)
Lemma interval_score_textbook (r lo hi y : Q) : 0 < r -> r < 1 ->
  let '(_, _, _, tot) := qis_spec ((1 - r) / 2) ((1 + r) / 2) lo hi y in
  tot == (hi - lo) + (2 / (1 - r)) * Qmax0 (lo - y) + (2 / (1 - r)) * Qmax0 (y - hi).
Proof. intros H0 H1. unfold qis_spec. cbv zeta beta iota. field. repeat split; lra. Qed.

(* NaN-iff for every component: a case with a missing input is missing from all four components *)
Lemma qis_nan_iff (lo hi y : xv) (ll ul : Q) : 0 < ll -> ul < 1 ->
  xisinf lo = false -> xisinf hi = false -> xisinf y = false ->
  let '(a, b, c, d) := gen_qis lo hi y (XFin ll) (XFin ul) in
  let anynan := lo = XNaN \/ hi = XNaN \/ y = XNaN in
  (a = XNaN <-> anynan) /\ (b = XNaN <-> anynan) /\ (c = XNaN <-> anynan) /\ (d = XNaN <-> anynan).
Proof.
  intros Hl Hu H1 H2 H3.
  destruct lo as [|lo|]; destruct hi as [|hi|]; destruct y as [|y|]; try discriminate;
  unfold gen_qis; xunf; unfold xdiv; kcbn;
  (pose proof (Qeq_bool_spec ll 0) as E1; destruct (Qeq_bool ll 0); [lra|]);
  (pose proof (Qeq_bool_spec (1 + - ul) 0) as E2; destruct (Qeq_bool (1 + - ul) 0); [lra|]);
  kcbn; qcmp; cbn; intuition (auto; discriminate).
Qed.

(* ---------- squared / absolute error, bias ---------- *)
Lemma mse_kernel_ok (f o : Q) : gen_mse_kernel (XFin f) (XFin o) false =x= XFin ((f - o) * (f - o)).
Proof. unfold gen_mse_kernel. xunf. kcbn. ring. Qed.
Lemma mae_kernel_ok (f o : Q) : gen_mae_kernel (XFin f) (XFin o) false =x= XFin (Qabs (f - o)).
Proof. unfold gen_mae_kernel. xunf. kcbn. reflexivity. Qed.
Lemma bias_kernel_ok (f o : Q) : gen_bias_kernel (XFin f) (XFin o) =x= XFin (f - o).
Proof. unfold gen_bias_kernel. xunf. kcbn. reflexivity. Qed.
Lemma mse_kernel_nan_iff (f o : xv) b : xisinf f = false -> xisinf o = false ->
  (gen_mse_kernel f o b = XNaN <-> f = XNaN \/ o = XNaN).
Proof. intros Hf Ho. destruct f as [|f|], o as [|o|]; try discriminate; destruct b;
  unfold gen_mse_kernel, gen_angular_difference; xunf; unfold xmodc; kcbn; qcmp; cbn; intuition (auto; discriminate). Qed.
Lemma mae_kernel_nan_iff (f o : xv) b : xisinf f = false -> xisinf o = false ->
  (gen_mae_kernel f o b = XNaN <-> f = XNaN \/ o = XNaN).
Proof. intros Hf Ho. destruct f as [|f|], o as [|o|]; try discriminate; destruct b;
  unfold gen_mae_kernel, gen_angular_difference; xunf; unfold xmodc; kcbn; qcmp; cbn; intuition (auto; discriminate). Qed.

(* ---------- list-level identities: MSE = bias^2 + var_f + var_o - 2 cov ---------- *)
Fixpoint qsum2 (g : Q -> Q -> Q) (l : list (Q * Q)) : Q :=
  match l with [] => 0 | (f, o) :: t => g f o + qsum2 g t end.
Definition qlen (l : list (Q * Q)) : Q := inject_Z (Z.of_nat (length l)).
Definition qmean2 (g : Q -> Q -> Q) (l : list (Q * Q)) : Q := qsum2 g l / qlen l.

Lemma qsum2_lin (g h : Q -> Q -> Q) (a b c : Q) l :
  qsum2 (fun f o => a * g f o + b * h f o + c) l == a * qsum2 g l + b * qsum2 h l + c * qlen l.
Proof. unfold qlen. induction l as [|[f o] t IH].
 - simpl. ring.
 - cbn [qsum2 length]. rewrite IH. rewrite Nat2Z.inj_succ. unfold Z.succ. rewrite inject_Z_plus. ring. Qed.
Lemma qsum2_ext (g h : Q -> Q -> Q) l : (forall f o, g f o == h f o) -> qsum2 g l == qsum2 h l.
Proof. intro E. induction l as [|[f o] t IH]; simpl. reflexivity. rewrite E, IH. reflexivity. Qed.

Theorem mse_decomposition (l : list (Q * Q)) : l <> [] ->
  let mf := qmean2 (fun f _ => f) l in let mo := qmean2 (fun _ o => o) l in
  qmean2 (fun f o => (f - o) * (f - o)) l ==
    (mf - mo) * (mf - mo) + qmean2 (fun f _ => (f - mf) * (f - mf)) l + qmean2 (fun _ o => (o - mo) * (o - mo)) l
    - 2 * qmean2 (fun f o => (f - mf) * (o - mo)) l.
Proof.
  intros Hne mf mo. unfold qmean2.
  assert (Hn : ~ qlen l == 0).
  { unfold qlen. destruct l; [congruence|]. cbn [length]. apply inject_nat_nz. }
  set (n := qlen l) in *.
  set (Sf := qsum2 (fun f _ => f) l). set (So := qsum2 (fun _ o => o) l).
  set (Sff := qsum2 (fun f _ => f * f) l). set (Soo := qsum2 (fun _ o => o * o) l). set (Sfo := qsum2 (fun f o => f * o) l).
  assert (Emf : mf == Sf / n) by reflexivity. assert (Emo : mo == So / n) by reflexivity.
  (* expand every sum into the five basic sums *)
  assert (E1 : qsum2 (fun f o => (f - o) * (f - o)) l == Sff + Soo - 2 * Sfo).
  { rewrite (qsum2_ext _ (fun f o => 1 * (f * f + o * o) + (-2) * (f * o) + 0)) by (intros; ring).
    rewrite qsum2_lin. rewrite (qsum2_ext (fun f o => f * f + o * o) (fun f o => 1 * (f * f) + 1 * (o * o) + 0)) by (intros; ring).
    rewrite qsum2_lin. fold Sff Soo Sfo. try change (qsum2 Qmult l) with Sfo. ring. }
  assert (E2 : qsum2 (fun f _ => (f - mf) * (f - mf)) l == Sff - 2 * mf * Sf + mf * mf * n).
  { rewrite (qsum2_ext _ (fun f o => 1 * (f * f) + (-2 * mf) * f + mf * mf)) by (intros; ring).
    rewrite qsum2_lin. fold Sff Sf n. ring. }
  assert (E3 : qsum2 (fun _ o => (o - mo) * (o - mo)) l == Soo - 2 * mo * So + mo * mo * n).
  { rewrite (qsum2_ext _ (fun f o => 1 * (o * o) + (-2 * mo) * o + mo * mo)) by (intros; ring).
    rewrite qsum2_lin. fold Soo So n. ring. }
  assert (E4 : qsum2 (fun f o => (f - mf) * (o - mo)) l == Sfo - mo * Sf - mf * So + mf * mo * n).
  { rewrite (qsum2_ext _ (fun f o => 1 * (f * o) + 1 * ((- mo) * f + (- mf) * o) + mf * mo)) by (intros; ring).
    rewrite qsum2_lin. rewrite (qsum2_ext (fun f o => - mo * f + - mf * o) (fun f o => (- mo) * f + (- mf) * o + 0)) by (intros; ring).
    rewrite qsum2_lin. fold Sfo Sf So n. try change (qsum2 Qmult l) with Sfo. ring. }
  rewrite E1, E2, E3, E4, Emf, Emo. field. exact Hn.
Qed.

(* KGE of a series with itself: covariance = variance and the ratio of means is 1, so rho^2 = alpha^2 = beta = 1 *)
Theorem self_moments (l : list (Q * Q)) : (forall p, In p l -> fst p == snd p) ->
  qsum2 (fun f o => f) l == qsum2 (fun f o => o) l /\
  forall m, qsum2 (fun f o => (f - m) * (o - m)) l == qsum2 (fun f _ => (f - m) * (f - m)) l
         /\ qsum2 (fun _ o => (o - m) * (o - m)) l == qsum2 (fun f _ => (f - m) * (f - m)) l.
Proof. intro H. induction l as [|[f o] t IH].
 - simpl. split; [reflexivity|]. intro; split; reflexivity.
 - assert (E : f == o) by (apply (H (f, o)); left; reflexivity).
   destruct IH as [A B]. { intros p Hp. apply H. right. exact Hp. }
   split. { simpl. rewrite E, A. reflexivity. }
   intro m. destruct (B m) as [B1 B2]. simpl. rewrite B1, B2, E. split; reflexivity.
Qed.

(* ---------- angular difference ---------- *)
(* m(x) = x - 360 floor(x/360) in [0,360) *)
Lemma mod360_range (x : Q) : let m := x - 360 * inject_Z (Qfloor (x / 360)) in 0 <= m /\ m < 360.
Proof. cbv zeta. pose proof (Qfloor_le (x / 360)) as A. pose proof (Qlt_floor (x / 360)) as B.
 rewrite inject_Z_plus in B. change (inject_Z 1) with 1 in B.
 assert (E : x == 360 * (x / 360)) by (field).
 split.
 - assert (360 * inject_Z (Qfloor (x / 360)) <= 360 * (x / 360)) by nra. lra.
 - assert (360 * (x / 360) < 360 * (inject_Z (Qfloor (x / 360)) + 1)) by nra. lra. Qed.

Theorem angular_range (a b : Q) :
  exists r, gen_angular_difference (XFin a) (XFin b) = XFin r /\ 0 <= r /\ r <= 180.
Proof. unfold gen_angular_difference, xmodc. xunf. kcbn.
 pose proof (mod360_range (Qabs (a + - b))) as [H0 H1]. cbv zeta in *.
 set (m := Qabs (a + - b) - 360 * inject_Z (Qfloor (Qabs (a + - b) / 360))) in *.
 qcmp.
 - exists m. repeat split; auto.
 - exists (360 + - m). repeat split; lra. Qed.

Theorem angular_symmetric (a b : Q) :
  gen_angular_difference (XFin a) (XFin b) =x= gen_angular_difference (XFin b) (XFin a).
Proof. unfold gen_angular_difference, xmodc. xunf. kcbn.
 assert (E : Qabs (a + - b) == Qabs (b + - a)).
 { setoid_replace (b + - a) with (- (a + - b)) by ring. rewrite Qabs_opp. reflexivity. }
 assert (F : Qfloor (Qabs (a + - b) / 360) = Qfloor (Qabs (b + - a) / 360)) by (rewrite E; reflexivity).
 rewrite F.
 assert (G : Qabs (a + - b) - 360 * inject_Z (Qfloor (Qabs (b + - a) / 360)) == Qabs (b + - a) - 360 * inject_Z (Qfloor (Qabs (b + - a) / 360))) by (rewrite E; reflexivity).
 rewrite (Qle_bool_compat _ _ _ _ G (Qeq_refl 180)).
 destruct (Qle_bool _ 180); cbn; rewrite G; reflexivity. Qed.
