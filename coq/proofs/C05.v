(* proofs/C05.v -- lemmas behind the C05 theorems (point and interval scores). *)
From V Require Import lib.Tree gen.Gen_quantile_loss gen.Gen_functions model.C05.

Lemma pinball_ok (a f o : Q) :
  gen_quantile_score (XFin f) (XFin o) (XFin a) =x= XFin (pinball_spec a f o).
Proof.
  unfold gen_quantile_score, pinball_spec, Qmax0. xunf. cbn -[Qle_bool Qmult Qplus Qminus Qopp].
  qcmp; cbn; try lra; assert (f == o) by lra; nra.
Qed.

(* the guard fires exactly outside the open unit interval *)
Lemma quantile_guard_spec (a : Q) :
  gen_guard_quantile_score (XFin a) = None <-> 0 < a < 1.
Proof.
  unfold gen_guard_quantile_score. xunf. cbn -[Qle_bool]. qcmp; cbn; split; intros; try discriminate; try lra; auto.
Qed.

(* NaN in, NaN out -- and only then (finite alpha) *)
Lemma quantile_nan_iff (f o : xv) (a : Q) :
  xisinf f = false -> xisinf o = false ->
  (gen_quantile_score f o (XFin a) = XNaN <-> f = XNaN \/ o = XNaN).
Proof.
  intros Hf Ho. destruct f as [|f|]; destruct o as [|o|]; try discriminate;
  unfold gen_quantile_score; xunf; cbn -[Qle_bool Qmult Qplus Qminus Qopp]; qcmp; cbn;
  intuition (auto; discriminate).
Qed.
