(* proofs/C12_murphy.v -- FIRM vs Murphy elementary scores, and the upper/lower mirror relation. *)
From V Require Import lib.Tree gen.Gen_C12_kern model.C12 proofs.C12.

(* ---- FIRM = Murphy elementary scores at theta = threshold ("lower" assignment) ---- *)
Ltac murphy_go :=
  unfold gen_firm_single, murphy_point, gen_c12_murphy_quantile, gen_c12_murphy_huber, gen_c12_murphy_expectile;
  xunf; cbn -[Qle_bool Qeq_bool Qcompare Qmult Qplus Qminus Qopp Qdiv Qinv Qabs]; qcmpx;
  cbn -[Qmult Qplus Qminus Qopp Qdiv Qinv Qabs]; repeat split; try lra; try contradiction; try (exfalso; lra).

(* Round 4: observation and threshold may be INFINITE (they only enter comparisons and the distance t - o; when both are the
   same infinity the observation sits on the threshold and both scores charge 0).
   Round 5: so may the FORECAST.  murphy_impl.py used to build its zero array as `fcst * 0.0` (NaN for an infinite forecast);
   since /repo 806a3e1 it is `xr.zeros_like(fcst, dtype=float)` (regenerated as the constant 0), and the identities hold for
   every extended value of forecast, observation and threshold. *)
Ltac x3 f o t :=
  destruct f as [|f|[|]]; destruct o as [|o|[|]]; destruct t as [|t|[|]].

Lemma firm_murphy_quantile (a : Q) (f o t : xv) :
  let '(tot, over, under) := gen_firm_single f o (XFin a) t (XFin 0) "lower" in
  let '(mt, mo, mu) := murphy_point (fun f o t => gen_c12_murphy_quantile f o t (XFin a)) f o t in
  tot =x= mt /\ over =x= mo /\ under =x= mu.
Proof.
  x3 f o t; try (cbn; repeat split; exact I); murphy_go.
Qed.

Lemma firm_murphy_huber (a d : Q) (f o t : xv) : 0 < d ->
  let '(tot, over, under) := gen_firm_single f o (XFin a) t (XFin d) "lower" in
  let '(mt, mo, mu) := murphy_point (fun f o t => gen_c12_murphy_huber f o t (XFin a) (XFin d)) f o t in
  tot =x= mt /\ over =x= mo /\ under =x= mu.
Proof.
  intros Hd. x3 f o t; murphy_go.
Qed.

Lemma firm_murphy_expectile (a : Q) (f o t : xv) : 0 < a < 1 ->
  let '(tot, over, under) := gen_firm_single f o (XFin a) t (XInf true) "lower" in
  let '(mt, mo, mu) := murphy_point (fun f o t => gen_c12_murphy_expectile f o t (XFin a)) f o t in
  tot =x= mt /\ over =x= mo /\ under =x= mu.
Proof.
  intros Ha. x3 f o t; murphy_go;
  try (rewrite Qabs_pos by lra; lra); try (rewrite Qabs_neg by lra; lra).
Qed.

(* ---- "upper" assignment = "lower" assignment on negated data with alpha <-> 1 - alpha (over <-> under) ---- *)
Lemma firm_spec_mirror (a f o t : Q) (d : disc) :
  firm_over_q false a d f o t == firm_under_q true (1 - a) d (- f) (- o) (- t) /\
  firm_under_q false a d f o t == firm_over_q true (1 - a) d (- f) (- o) (- t).
Proof.
  unfold firm_over_q, firm_under_q, firm_fa, firm_miss, fscale, Qmin2, Qltb. destruct d; qcmpx; cbn; split; lra.
Qed.

Lemma firm_upper_mirror (a f o t : Q) (d : disc) :
  (match d with DFin q => ~ q == 0 | _ => True end) ->
  let '(tu, ou, uu) := gen_firm_single (XFin f) (XFin o) (XFin a) (XFin t) (xdisc d) "upper" in
  let '(tl, ol, ul) := gen_firm_single (XFin (- f)) (XFin (- o)) (XFin (1 - a)) (XFin (- t)) (xdisc d) "lower" in
  tu =x= tl /\ ou =x= ul /\ uu =x= ol.
Proof.
  intro Hd. pose proof (firm_single_ok "upper" a f o t d Hd) as H1.
  pose proof (firm_single_ok "lower" (1 - a) (- f) (- o) (- t) d Hd) as H2.
  destruct (gen_firm_single (XFin f) _ _ _ _ "upper") as [[tu ou] uu].
  destruct (gen_firm_single (XFin (- f)) _ _ _ _ "lower") as [[tl ol] ul].
  change (String.eqb "upper" "lower") with false in H1. change (String.eqb "lower" "lower") with true in H2.
  cbv zeta in H1, H2. destruct H1 as [A1 [B1 C1]]. destruct H2 as [A2 [B2 C2]].
  destruct (firm_spec_mirror a f o t d) as [M1 M2].
  rewrite A1, B1, C1, A2, B2, C2. simpl. repeat split; lra.
Qed.
