(* proofs/C10_ends.v -- the finite replacements of infinite end points computed by the model of _auxiliary_funcs lie
   strictly beyond every finite forecast and observation value (axiom-free). *)
From V Require Import lib.Tree lib.C10_aux gen.Gen_C10_kern model.C10.

Definition fin_or_nan (v : xv) : Prop := xisinf v = false.

Lemma nanmin_spec l : Forall fin_or_nan l ->
  (nanmin l = XNaN /\ forall x, ~ In (XFin x) l) \/
  (exists m, nanmin l = XFin m /\ forall x, In (XFin x) l -> m <= x).
Proof. induction l as [|h t IH]; intro F.
 - left. split; auto.
 - inversion F as [|? ? Hh Ht]; subst. specialize (IH Ht). unfold nanmin in *. cbn [fold_right].
   destruct h as [|q|s]; [| |discriminate Hh].
   + destruct IH as [[E N]|[m [E M]]].
     * left. rewrite E. split; auto. intros x [D|I]; [discriminate | exact (N x I)].
     * right. exists m. rewrite E. split; auto. intros x [D|I]; [discriminate | auto].
   + destruct IH as [[E N]|[m [E M]]]; rewrite E; cbn.
     * right. exists q. split; auto. intros x [D|I]; [inversion D; lra | destruct (N x I)].
     * pose proof (Qle_bool_spec q m) as C. destruct (Qle_bool q m); right; [exists q | exists m]; split; auto;
       intros x [D|I]; try (inversion D; subst; lra); specialize (M x I); lra. Qed.

Lemma nanmax_spec l : Forall fin_or_nan l ->
  (nanmax l = XNaN /\ forall x, ~ In (XFin x) l) \/
  (exists m, nanmax l = XFin m /\ forall x, In (XFin x) l -> x <= m).
Proof. induction l as [|h t IH]; intro F.
 - left. split; auto.
 - inversion F as [|? ? Hh Ht]; subst. specialize (IH Ht). unfold nanmax in *. cbn [fold_right].
   destruct h as [|q|s]; [| |discriminate Hh].
   + destruct IH as [[E N]|[m [E M]]].
     * left. rewrite E. split; auto. intros x [D|I]; [discriminate | exact (N x I)].
     * right. exists m. rewrite E. split; auto. intros x [D|I]; [discriminate | auto].
   + destruct IH as [[E N]|[m [E M]]]; rewrite E; cbn.
     * right. exists q. split; auto. intros x [D|I]; [inversion D; lra | destruct (N x I)].
     * pose proof (Qle_bool_spec q m) as C. destruct (Qle_bool q m); right; [exists m | exists q]; split; auto;
       intros x [D|I]; try (inversion D; subst; lra); specialize (M x I); lra. Qed.

(* the value that replaces a = -inf (rectangular: vb = b.min(); trapezoidal: vb = c.min()) *)
Theorem lower_replacement_sound F O vb x :
  Forall fin_or_nan F -> Forall fin_or_nan O -> (exists y, In (XFin y) F) -> (exists y, In (XFin y) O) -> vb <> XInf false ->
  In (XFin x) (F ++ O) ->
  exists q, xsub (pymin3 (nanmin F) (nanmin O) vb) X1 = XFin q /\ q < x.
Proof. intros HF HO [yf If] [yo Io] Hb Ix.
 destruct (nanmin_spec F HF) as [[_ N]|[mf [Ef Mf]]]; [destruct (N yf If)|].
 destruct (nanmin_spec O HO) as [[_ N]|[mo [Eo Mo]]]; [destruct (N yo Io)|].
 rewrite Ef, Eo. assert (Hx : mf <= x \/ mo <= x) by (apply in_app_or in Ix; destruct Ix; [left; apply Mf | right; apply Mo]; auto).
 unfold pymin3, pymin2. cbn [xlt]. unfold Qltb.
 pose proof (Qle_bool_spec mf mo) as C. destruct (Qle_bool mf mo); cbn [negb];
 destruct vb as [|qb|[]]; try congruence; cbn [xlt xsub xadd xneg X1]; unfold Qltb;
 try (match goal with |- context [Qle_bool ?u ?v] => pose proof (Qle_bool_spec u v); destruct (Qle_bool u v) end); cbn [negb xsub xadd xneg];
 eexists; (split; [reflexivity | lra]). Qed.

(* the value that replaces b = +inf (va = a.max() after replacement; trapezoidal: b.max()) *)
Theorem upper_replacement_sound F O va x :
  Forall fin_or_nan F -> Forall fin_or_nan O -> (exists y, In (XFin y) F) -> (exists y, In (XFin y) O) -> va <> XInf true ->
  In (XFin x) (F ++ O) ->
  exists q, xadd (pymax3 (nanmax F) (nanmax O) va) X1 = XFin q /\ x < q.
Proof. intros HF HO [yf If] [yo Io] Hb Ix.
 destruct (nanmax_spec F HF) as [[_ N]|[mf [Ef Mf]]]; [destruct (N yf If)|].
 destruct (nanmax_spec O HO) as [[_ N]|[mo [Eo Mo]]]; [destruct (N yo Io)|].
 rewrite Ef, Eo. assert (Hx : x <= mf \/ x <= mo) by (apply in_app_or in Ix; destruct Ix; [left; apply Mf | right; apply Mo]; auto).
 unfold pymax3, pymax2, xgt. cbn [xlt]. unfold Qltb.
 pose proof (Qle_bool_spec mo mf) as C. destruct (Qle_bool mo mf); cbn [negb];
 destruct va as [|qb|[]]; try congruence; cbn [xlt xsub xadd xneg X1]; unfold Qltb;
 try (match goal with |- context [Qle_bool ?u ?v] => pose proof (Qle_bool_spec u v); destruct (Qle_bool u v) end); cbn [negb xsub xadd xneg];
 eexists; (split; [reflexivity | lra]). Qed.

(* the model of _auxiliary_funcs uses exactly these two values *)
Lemma rect_ends_formula fcst obs a b :
  rect_ends fcst obs a b =
  (let a' := repl_neginf (xsub (pymin3 (nanmin (lvals fcst)) (nanmin (lvals obs)) (nanmin (lvals b))) X1) a in
   (a', repl_posinf (xadd (pymax3 (nanmax (lvals fcst)) (nanmax (lvals obs)) (nanmax (lvals a'))) X1) b)).
Proof. reflexivity. Qed.
Lemma trap_ends_formula fcst obs a b c d :
  trap_ends fcst obs a b c d =
  (let b' := repl_neginf (xsub (pymin3 (nanmin (lvals fcst)) (nanmin (lvals obs)) (nanmin (lvals c))) X1) b in
   let a' := repl_neginf (xsub (nanmin (lvals b')) X1) a in
   let c' := repl_posinf (xadd (pymax3 (nanmax (lvals fcst)) (nanmax (lvals obs)) (nanmax (lvals b'))) X1) c in
   let d' := repl_posinf (xadd (nanmax (lvals c')) X1) d in (a', b', c', d')).
Proof. reflexivity. Qed.
