(* proofs/C05_angular.v -- angular difference is 360-periodic in each argument. *)
From V Require Import lib.Tree gen.Gen_functions.

Definition angd (x : Q) : Q :=
  let m := Qabs x - 360 * inject_Z (Qfloor (Qabs x / 360)) in if Qle_bool m 180 then m else 360 + - m.

Lemma gen_is_angd a b : gen_angular_difference (XFin a) (XFin b) =x= XFin (angd (a + - b)).
Proof. unfold gen_angular_difference, angd, xmodc. xunf. cbn -[Qle_bool Qmult Qplus Qminus Qopp Qabs Qdiv Qfloor inject_Z].
 destruct (Qle_bool _ 180); cbn; reflexivity. Qed.

Lemma mod360_range (x : Q) : let m := x - 360 * inject_Z (Qfloor (x / 360)) in 0 <= m /\ m < 360.
Proof. cbv zeta. pose proof (Qfloor_le (x / 360)) as A. pose proof (Qlt_floor (x / 360)) as B.
 rewrite inject_Z_plus in B. change (inject_Z 1) with 1 in B.
 assert (E : x == 360 * (x / 360)) by field. split.
 - assert (360 * inject_Z (Qfloor (x / 360)) <= 360 * (x / 360)) by nra. lra.
 - assert (360 * (x / 360) < 360 * (inject_Z (Qfloor (x / 360)) + 1)) by nra. lra. Qed.

(* r is "a" distance from x to the lattice 360 Z, within half a period *)
Definition lattice_dist (x r : Q) : Prop :=
  0 <= r /\ r <= 180 /\ exists n : Z, x == 360 * inject_Z n + r \/ x == 360 * inject_Z n - r.

Lemma angd_sat x : lattice_dist x (angd x).
Proof. unfold lattice_dist, angd. pose proof (mod360_range (Qabs x)) as [H0 H1]. cbv zeta in *.
 set (k := Qfloor (Qabs x / 360)) in *. set (m := Qabs x - 360 * inject_Z k) in *.
 assert (Em : Qabs x == 360 * inject_Z k + m) by (unfold m; ring).
 pose proof (Qle_bool_spec m 180) as Hm. pose proof (Qle_bool_spec 0 x) as Hx.
 destruct (Qle_bool 0 x);
 [rewrite (Qabs_pos x Hx) in Em | assert (Hx' : x <= 0) by lra; rewrite (Qabs_neg x Hx') in Em];
 destruct (Qle_bool m 180).
 - repeat split; try lra. exists k. left. lra.
 - repeat split; try lra. exists (k + 1)%Z. right. rewrite inject_Z_plus. change (inject_Z 1) with 1. lra.
 - repeat split; try lra. exists (- k)%Z. right. rewrite inject_Z_opp. lra.
 - repeat split; try lra. exists (- k - 1)%Z. left. unfold Z.sub. rewrite inject_Z_plus, !inject_Z_opp. change (inject_Z 1) with 1. lra.
Qed.

Lemma small_int (j : Z) : -2 < inject_Z j -> inject_Z j < 2 -> inject_Z j == -1 \/ inject_Z j == 0 \/ inject_Z j == 1.
Proof. intros A B. change (-2) with (inject_Z (-2)) in A. change 2 with (inject_Z 2) in B.
 rewrite <- Zlt_Qlt in A, B. assert (H : (j = -1 \/ j = 0 \/ j = 1)%Z) by lia.
 destruct H as [H|[H|H]]; subst j; [left|right; left|right; right]; reflexivity. Qed.

Lemma lattice_dist_unique x r1 r2 : lattice_dist x r1 -> lattice_dist x r2 -> r1 == r2.
Proof. intros (A0 & A1 & n1 & A) (B0 & B1 & n2 & B).
 set (j := (n1 - n2)%Z).
 assert (Ej : inject_Z j == inject_Z n1 - inject_Z n2) by (unfold j, Z.sub; rewrite inject_Z_plus, inject_Z_opp; ring).
 destruct A as [A|A], B as [B|B].
 - assert (H : 360 * inject_Z j == r2 - r1) by (rewrite Ej; lra).
   destruct (small_int j) as [E|[E|E]]; try lra; rewrite E in H; lra.
 - assert (H : 360 * inject_Z j == - r2 - r1) by (rewrite Ej; lra).
   destruct (small_int j) as [E|[E|E]]; try lra; rewrite E in H; lra.
 - assert (H : 360 * inject_Z j == r2 + r1) by (rewrite Ej; lra).
   destruct (small_int j) as [E|[E|E]]; try lra; rewrite E in H; lra.
 - assert (H : 360 * inject_Z j == r1 - r2) by (rewrite Ej; lra).
   destruct (small_int j) as [E|[E|E]]; try lra; rewrite E in H; lra.
Qed.

Lemma lattice_dist_shift x r k : lattice_dist (x + 360 * inject_Z k) r -> lattice_dist x r.
Proof. intros (A0 & A1 & n & A). repeat split; auto. exists (n - k)%Z.
 unfold Z.sub. rewrite inject_Z_plus, inject_Z_opp. destruct A as [A|A]; [left|right]; lra. Qed.

Theorem angd_periodic x k : angd (x + 360 * inject_Z k) == angd x.
Proof. apply (lattice_dist_unique x); [apply (lattice_dist_shift x _ k); apply angd_sat | apply angd_sat]. Qed.

Lemma angd_compat x y : x == y -> angd x == angd y.
Proof. intro E. apply (lattice_dist_unique x); [apply angd_sat|].
 destruct (angd_sat y) as (A0 & A1 & n & A). repeat split; auto. exists n. rewrite E. exact A. Qed.

Theorem angular_periodic_left a b k :
  gen_angular_difference (XFin (a + 360 * inject_Z k)) (XFin b) =x= gen_angular_difference (XFin a) (XFin b).
Proof. rewrite !gen_is_angd. cbn [xeq].
 rewrite (angd_compat (a + 360 * inject_Z k + - b) ((a + - b) + 360 * inject_Z k)) by ring. apply angd_periodic. Qed.
Theorem angular_periodic_right a b k :
  gen_angular_difference (XFin a) (XFin (b + 360 * inject_Z k)) =x= gen_angular_difference (XFin a) (XFin b).
Proof. rewrite !gen_is_angd. cbn [xeq].
 rewrite (angd_compat (a + - (b + 360 * inject_Z k)) ((a + - b) + 360 * inject_Z (- k))) by (rewrite inject_Z_opp; ring).
 apply angd_periodic. Qed.

(* the value is the distance to the nearest multiple of 360: no multiple is closer *)
Theorem angular_is_nearest a b (n : Z) :
  exists r, gen_angular_difference (XFin a) (XFin b) =x= XFin r /\ r <= Qabs (a - b - 360 * inject_Z n).
Proof. exists (angd (a + - b)). split. apply gen_is_angd.
 destruct (angd_sat (a + - b)) as (A0 & A1 & m & A).
 set (r := angd (a + - b)) in *. set (j := (m - n)%Z).
 assert (Ej : inject_Z j == inject_Z m - inject_Z n) by (unfold j, Z.sub; rewrite inject_Z_plus, inject_Z_opp; ring).
 assert (Hint : inject_Z j == 0 \/ 1 <= inject_Z j \/ inject_Z j <= -1).
 { destruct (Z_lt_le_dec j 1) as [L|L]; [destruct (Z_lt_le_dec (-1) j) as [L2|L2]|].
   - left. assert (j = 0)%Z by lia. subst j. rewrite H. reflexivity.
   - right. right. change (-1) with (inject_Z (-1)). rewrite <- Zle_Qle. exact L2.
   - right. left. change 1 with (inject_Z 1). rewrite <- Zle_Qle. exact L. }
 destruct A as [A|A].
 - assert (E : a - b - 360 * inject_Z n == 360 * inject_Z j + r) by (rewrite Ej; lra).
   rewrite E. destruct Hint as [H|[H|H]].
   + rewrite H. setoid_replace (360 * 0 + r) with r by ring. rewrite Qabs_pos; lra.
   + rewrite Qabs_pos; lra.
   + rewrite Qabs_neg; lra.
 - assert (E : a - b - 360 * inject_Z n == 360 * inject_Z j - r) by (rewrite Ej; lra).
   rewrite E. destruct Hint as [H|[H|H]].
   + rewrite H. setoid_replace (360 * 0 - r) with (- r) by ring. rewrite Qabs_opp, Qabs_pos; lra.
   + rewrite Qabs_pos; lra.
   + rewrite Qabs_neg; lra.
Qed.
