(* proofs/C18_mod.v -- arithmetic of `% 360`, circular distance, sorting; the angular range is in [0,180]. *)
From Coq Require Import Permutation.
From V Require Import lib.Tree gen.Gen_functions model.C18 proofs.C18.
Open Scope list_scope.
Open Scope Q_scope.

(* ------------------------------------------------------------------------------------ *)
(* the sector routine as it was before /repo abf9f57 (kept: it is correct in exact arithmetic, *)
(* C18_sector.v: sector_core_v1_spec; its defect was the float comparison only)             *)
(* ------------------------------------------------------------------------------------ *)
Definition adiff (p : Q * Q) : Q := fold180 (Qabs (fst p - snd p)).
(* np.argmax: the first position holding the maximum; we return the element there *)
Fixpoint first_max {A} (f : A -> Q) (best : A) (l : list A) : A :=
  match l with
  | [] => best
  | x :: t => if Qltb (f best) (f x) then first_max f x t else first_max f best t
  end.
Definition count_nz (l : list Q) : nat := length (filter (fun x => negb (Qeq_bool x 0)) l).
Definition sector_core_v1 (d : list Q) : Q :=
  match d with
  | [] => 0
  | d0 :: _ =>
    let rolled := rollq d in
    let pairs := combine d rolled in
    let diffs := map adiff pairs in
    let best := first_max adiff (d0, hd d0 rolled) pairs in        (* pair at argmax *)
    let fba := fst best in                                           (* first_bounding_angle *)
    let rotated := map (fun r => qmod360 (r - fba)) rolled in
    let second := qmod360 (snd best - fba) in                        (* second_bound_angle_rotated *)
    let maxrot := qmax_list rotated in
    let result := if Qeq_bool maxrot second then second else 360 - second in
    if (count_nz diffs <=? 2)%nat then qmax_list diffs else result
  end.

(* ---- floor ---- *)
Lemma zq_inj_le a b : (a <= b)%Z -> zq a <= zq b.
Proof. unfold zq. rewrite <- Zle_Qle. tauto. Qed.
Lemma zq_inj_lt a b : (a < b)%Z -> zq a < zq b.
Proof. unfold zq. rewrite <- Zlt_Qlt. tauto. Qed.
Lemma zq_lt_inv a b : zq a < zq b -> (a < b)%Z.
Proof. unfold zq. rewrite <- Zlt_Qlt. tauto. Qed.
Lemma zq_add a b : zq (a + b) == zq a + zq b.
Proof. unfold zq. rewrite inject_Z_plus. reflexivity. Qed.

Lemma floor_unique x z : zq z <= x -> x < zq (z + 1) -> Qfloor x = z.
Proof. intros H1 H2. pose proof (Qfloor_le x) as F1. pose proof (Qlt_floor x) as F2.
  change (inject_Z (Qfloor x)) with (zq (Qfloor x)) in F1. change (inject_Z (Qfloor x + 1)) with (zq (Qfloor x + 1)) in F2.
  assert (A : (Qfloor x < z + 1)%Z) by (apply zq_lt_inv; lra).
  assert (B : (z < Qfloor x + 1)%Z) by (apply zq_lt_inv; lra). lia. Qed.

(* ---- x % 360 ---- *)
Global Instance qmod360_Proper : Proper (Qeq ==> Qeq) qmod360.
Proof. intros x y E. unfold qmod360. assert (F : Qfloor (x / 360) = Qfloor (y / 360)) by (apply Qfloor_comp; rewrite E; reflexivity).
  rewrite F, E. reflexivity. Qed.

Lemma qmod360_range x : 0 <= qmod360 x /\ qmod360 x < 360.
Proof. unfold qmod360. pose proof (Qfloor_le (x / 360)) as F1. pose proof (Qlt_floor (x / 360)) as F2.
  change (inject_Z (Qfloor (x / 360))) with (zq (Qfloor (x / 360))) in F1. change (inject_Z (Qfloor (x / 360) + 1)) with (zq (Qfloor (x / 360) + 1)) in F2.
  rewrite zq_add in F2. change (zq 1) with 1 in F2.
  set (k := zq (Qfloor (x / 360))) in *. assert (E : x == (x / 360) * 360) by (field). split.
  - assert (k * 360 <= x / 360 * 360) by nra. lra.
  - assert (x / 360 * 360 < (k + 1) * 360) by nra. lra. Qed.

Lemma qmod360_shift x (k : Z) r : x == r + 360 * zq k -> 0 <= r -> r < 360 -> qmod360 x == r.
Proof. intros E H0 H1. unfold qmod360.
  assert (F : Qfloor (x / 360) = k).
  { apply floor_unique; rewrite ?zq_add; change (zq 1) with 1; rewrite E.
    - assert (X : (r + 360 * zq k) / 360 == r / 360 + zq k) by field. rewrite X.
      assert (0 <= r / 360) by (apply Qle_shift_div_l; lra). lra.
    - assert (X : (r + 360 * zq k) / 360 == r / 360 + zq k) by field. rewrite X.
      assert (r / 360 < 1) by (apply Qlt_shift_div_r; lra). lra. }
  rewrite F, E. ring. Qed.

Lemma qmod360_id x : 0 <= x -> x < 360 -> qmod360 x == x.
Proof. intros. apply (qmod360_shift x 0 x); auto. change (zq 0) with 0. ring. Qed.
Lemma qmod360_neg x : -360 <= x -> x < 0 -> qmod360 x == x + 360.
Proof. intros. apply (qmod360_shift x (-1) (x + 360)); try lra. change (zq (-1)) with (-1). ring. Qed.
Lemma qmod360_form x : exists k : Z, x == qmod360 x + 360 * zq k.
Proof. exists (Qfloor (x / 360)). unfold qmod360. ring. Qed.
Lemma qmod360_add_turns x (k : Z) : qmod360 (x + 360 * zq k) == qmod360 x.
Proof. destruct (qmod360_form x) as [j E]. destruct (qmod360_range x) as [R0 R1].
  apply (qmod360_shift _ (j + k) (qmod360 x)); auto. rewrite zq_add. rewrite E at 1. ring. Qed.
Lemma qmod360_idem x : qmod360 (qmod360 x) == qmod360 x.
Proof. destruct (qmod360_range x). apply qmod360_id; assumption. Qed.

(* ---- anticlockwise distance ---- *)
Global Instance cw_Proper : Proper (Qeq ==> Qeq ==> Qeq) cw.
Proof. intros a b E c d F. unfold cw. rewrite E, F. reflexivity. Qed.
Lemma cw_range p q : 0 <= cw p q /\ cw p q < 360.
Proof. apply qmod360_range. Qed.
Lemma cw_mod p q : cw (qmod360 p) (qmod360 q) == cw p q.
Proof. unfold cw. destruct (qmod360_form p) as [j Ep]. destruct (qmod360_form q) as [k Eq].
  assert (E : q - p == (qmod360 q - qmod360 p) + 360 * zq (k - j)).
  { unfold Z.sub. rewrite zq_add. assert (zq (- j) == - zq j) by (unfold zq; rewrite inject_Z_opp; reflexivity). rewrite H. rewrite Eq at 1. rewrite Ep at 1. ring. }
  rewrite E. rewrite qmod360_add_turns. reflexivity. Qed.
Lemma cw_shift c p q : cw (p + c) (q + c) == cw p q.
Proof. unfold cw. assert (E : q + c - (p + c) == q - p) by ring. rewrite E. reflexivity. Qed.
Lemma cw_self p : cw p p == 0.
Proof. unfold cw. assert (E : p - p == 0) by ring. rewrite E. apply qmod360_id; lra. Qed.
(* for angles already in [0,360) *)
Lemma cw_le a b : 0 <= a -> b < 360 -> a <= b -> cw a b == b - a.
Proof. intros. unfold cw. apply qmod360_id; lra. Qed.
Lemma cw_gt a b : 0 <= b -> a < 360 -> b < a -> cw a b == b - a + 360.
Proof. intros. unfold cw. apply qmod360_neg; lra. Qed.
Lemma cw_zero_eq a b : 0 <= a -> a < 360 -> 0 <= b -> b < 360 -> cw a b == 0 -> a == b.
Proof. intros A0 A1 B0 B1 E. destruct (Qlt_le_dec b a) as [L|L]; [rewrite cw_gt in E by assumption | rewrite cw_le in E by assumption]; lra. Qed.
Lemma cw_inj a b c : 0 <= a -> a < 360 -> 0 <= b -> b < 360 -> 0 <= c -> c < 360 -> cw a b == cw a c -> b == c.
Proof. intros A0 A1 B0 B1 C0 C1 E.
  destruct (Qlt_le_dec b a) as [L1|L1]; destruct (Qlt_le_dec c a) as [L2|L2];
    [rewrite !cw_gt in E by assumption | rewrite cw_gt, cw_le in E by assumption | rewrite cw_le, cw_gt in E by assumption | rewrite !cw_le in E by assumption]; lra. Qed.

(* ---- fold180 ---- *)
Global Instance fold180_Proper : Proper (Qeq ==> Qeq) fold180.
Proof. intros x y E. unfold fold180, Qltb. rewrite (Qle_bool_compat x y 180 180 E (Qeq_refl _)). destruct (Qle_bool y 180); simpl; rewrite E; reflexivity. Qed.
Lemma fold180_le x : x <= 180 -> fold180 x == x.
Proof. intro H. unfold fold180. rewrite Qltb_false by exact H. reflexivity. Qed.
Lemma fold180_gt x : 180 < x -> fold180 x == 360 - x.
Proof. intro H. unfold fold180. rewrite Qltb_true by exact H. reflexivity. Qed.
Lemma fold180_range x : 0 <= x -> x <= 360 -> 0 <= fold180 x /\ fold180 x <= 180 /\ fold180 x <= x.
Proof. intros. destruct (Qlt_le_dec 180 x); [rewrite fold180_gt by assumption | rewrite fold180_le by assumption]; lra. Qed.
Lemma fold180_compl x : 0 <= x -> x <= 360 -> fold180 (360 - x) == fold180 x.
Proof. intros. destruct (Qlt_le_dec 180 x) as [L|L].
  - rewrite (fold180_gt x L), fold180_le by lra. reflexivity.
  - rewrite (fold180_le x L). destruct (Qlt_le_dec 180 (360 - x)); [rewrite fold180_gt by assumption | rewrite fold180_le by assumption]; lra. Qed.
Lemma fold180_zero x : 0 <= x -> x < 360 -> (fold180 x == 0 <-> x == 0).
Proof. intros. destruct (Qlt_le_dec 180 x); [rewrite fold180_gt by assumption | rewrite fold180_le by assumption]; split; lra. Qed.

(* ---- sorting ---- *)
Fixpoint qsorted (l : list Q) : Prop :=
  match l with a :: t => match t with b :: _ => a <= b /\ qsorted t | [] => True end | [] => True end.
Lemma qsorted_cons a b t : qsorted (a :: b :: t) <-> a <= b /\ qsorted (b :: t).
Proof. reflexivity. Qed.
Lemma qsorted_tail a t : qsorted (a :: t) -> qsorted t.
Proof. destruct t; simpl; tauto. Qed.
Lemma qinsert_perm x l : Permutation (qinsert x l) (x :: l).
Proof. induction l as [|y t IH]; simpl; auto. destruct (Qle_bool x y); auto.
  eapply perm_trans; [apply perm_skip; exact IH | apply perm_swap]. Qed.
Lemma qsort_perm l : Permutation (qsort l) l.
Proof. induction l as [|x t IH]; simpl; auto. eapply perm_trans; [apply qinsert_perm | apply perm_skip; exact IH]. Qed.
Lemma qinsert_sorted x l : qsorted l -> qsorted (qinsert x l).
Proof. induction l as [|y t IH]; intro H; [exact I|]. simpl qinsert.
  pose proof (Qle_bool_spec x y) as Hc. destruct (Qle_bool x y).
  - apply qsorted_cons. split; assumption.
  - specialize (IH (qsorted_tail _ _ H)). destruct t as [|z t'].
    + simpl. split; [lra | exact I].
    + simpl qinsert in *. pose proof (Qle_bool_spec x z) as Hz. destruct (Qle_bool x z).
      * apply qsorted_cons. split; [lra | exact IH].
      * apply qsorted_cons. apply qsorted_cons in H. split; [exact (proj1 H) | exact IH].
Qed.
Lemma qsort_sorted l : qsorted (qsort l).
Proof. induction l as [|x t IH]; [exact I|]. simpl. apply qinsert_sorted. exact IH. Qed.
Lemma qsort_nonempty l : l <> [] -> qsort l <> [].
Proof. intros H E. apply H. apply Permutation_nil. rewrite <- E. apply qsort_perm. Qed.

Definition in_range (l : list Q) : Prop := forall x, In x l -> 0 <= x /\ x < 360.
Lemma in_range_mods l : in_range (qsort (map qmod360 l)).
Proof. intros x Hx. apply (Permutation_in _ (qsort_perm _)) in Hx. apply in_map_iff in Hx. destruct Hx as [y [<- _]]. apply qmod360_range. Qed.

Lemma sorted_head_le a t : qsorted (a :: t) -> forall x, In x t -> a <= x.
Proof. revert a. induction t as [|b t IH]; intros a H x Hx; [destruct Hx|].
  apply qsorted_cons in H. destruct H as [Hab H]. destruct Hx as [<-|Hx]; [exact Hab|]. apply Qle_trans with b; [exact Hab | apply IH; assumption]. Qed.

(* ------------------------------------------------------------------------------------ *)
(* the angular range and the circular differences lie in [0,180]                          *)
(* ------------------------------------------------------------------------------------ *)
Lemma qmax_list_ge0 l : l <> [] -> (forall x, In x l -> 0 <= x) -> 0 <= qmax_list l.
Proof. intros N H. apply H. apply (qmax_list_spec l N). Qed.

Lemma adiff_range a b : 0 <= a < 360 -> 0 <= b < 360 -> 0 <= adiff (a, b) /\ adiff (a, b) <= 180.
Proof. intros [A0 A1] [B0 B1]. unfold adiff. simpl. pose proof (Qabs_nonneg (a - b)).
  assert (Qabs (a - b) <= 360) by (apply Qabs_case; intros; lra).
  destruct (fold180_range (Qabs (a - b))) as [F0 [F1 _]]; auto. Qed.

Lemma in_combine_both {A B} (x : A) (y : B) l1 l2 : In (x, y) (combine l1 l2) -> In x l1 /\ In y l2.
Proof. intro H. split; [eapply in_combine_l | eapply in_combine_r]; eauto. Qed.
Lemma rollq_in x d : In x (rollq d) -> In x d.
Proof. destruct d as [|a t]; simpl; auto. intro H. apply in_app_or in H. destruct H as [H|[<-|[]]]; auto. Qed.

Lemma sector_core_nonneg d : in_range d -> 0 <= sector_core d.
Proof.
  intros _. unfold sector_core. destruct d as [|d0 t]; [lra|].
  set (gaps := map (fun p : Q * Q => qmod360 (snd p - fst p)) (combine (d0 :: t) (rollq (d0 :: t)))).
  assert (N : gaps <> []) by (unfold gaps; simpl; destruct t; simpl; discriminate).
  destruct (qmax_list_spec gaps N) as [I _]. unfold gaps in I at 2. apply in_map_iff in I. destruct I as [p [E _]].
  pose proof (qmod360_range (snd p - fst p)) as R. rewrite E in R. destruct (Qeq_bool (qmax_list gaps) 0); lra.
Qed.

Lemma sector_x_range l : sector_x false l = XNaN \/ exists r, sector_x false l = XFin r /\ 0 <= r.
Proof. unfold sector_x. destruct (0 <? nbad l)%nat; [left; reflexivity|].
  destruct (qsort (map qmod360 (finite_qs l))) eqn:E; [left; reflexivity|]. right. eexists. split; [reflexivity|].
  rewrite <- E. apply sector_core_nonneg. apply in_range_mods. Qed.

(* the range used by the angular index: the sector capped at 180 *)
Lemma angular_range l : let r := xclip_max (sector_x false l) (XFin 180) in
  r = XNaN \/ exists q, r = XFin q /\ 0 <= q /\ q <= 180.
Proof. cbv zeta. destruct (sector_x_range l) as [E|[r [E Hr]]]; rewrite E; [left; reflexivity|]. right.
  unfold xclip_max, xmin, xle. pose proof (Qle_bool_spec r 180) as Hc. destruct (Qle_bool r 180); eexists; (split; [reflexivity|]); lra. Qed.

(* each circular difference (regenerated kernel) lies in [0,180] *)
Lemma angular_difference_range a b : exists q, gen_angular_difference (XFin a) (XFin b) = XFin q /\ 0 <= q /\ q <= 180.
Proof. unfold gen_angular_difference. xunf. cbn -[Qle_bool Qabs Qfloor Qmult Qplus Qminus Qopp Qdiv Qinv].
  match goal with |- context [Qle_bool ?u ?v] => pose proof (Qle_bool_spec u v) as Hc; destruct (Qle_bool u v) end;
  eexists; (split; [reflexivity|]);
  match goal with |- context [Qfloor ?e] => pose proof (Qfloor_le e) as F1; pose proof (Qlt_floor e) as F2 end.
  all: rewrite inject_Z_plus in F2; change (inject_Z 1) with 1 in F2.
  all: set (k := inject_Z (Qfloor (Qabs (a + - b) / (360 # 1)))) in *; set (x := Qabs (a + - b)) in *.
  all: assert (E : x == x / (360 # 1) * (360 # 1)) by field.
  all: assert (k * (360 # 1) <= x / (360 # 1) * (360 # 1)) by nra; assert (x / (360 # 1) * (360 # 1) < (k + 1) * (360 # 1)) by nra.
  all: split; lra.
Qed.
