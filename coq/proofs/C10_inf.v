(* proofs/C10_inf.v -- +-inf among the data, finite end points (Q-level, axiom-free): the antiderivatives g of the threshold weight
   at +-inf, and the quantile-type kernel (tw_quantile_score; tw_absolute_error is twice it at alpha = 1/2) for an infinite forecast
   or observation.  g(x) = int_{-inf}^x w, so (total mass) - g(x) = int_x^{+inf} w: the values below are the integral over theta of
   weight x elementary quantile score, whose region is [obs, +inf) for a forecast of +inf, (-inf, obs) for a forecast of -inf. *)
From V Require Import lib.Tree lib.C10_aux gen.Gen_C10_kern model.C10 proofs.C10 proofs.C10_trap.

Ltac gki := xunf; xunf; unfold Qltb; cbn -[Qle_bool Qeq_bool Qmult Qplus Qminus Qopp Qdiv Qinv Qcompare Qabs];
  repeat (progress (qcmp; unfold Qltb; cbn -[Qle_bool Qeq_bool Qmult Qplus Qminus Qopp Qdiv Qinv Qcompare Qabs]));
  cbn -[Qmult Qplus Qminus Qopp Qdiv Qinv Qabs]; try reflexivity; try lra; try nra.

Lemma g_rect_at_infinity a b : a <= b ->
  gen_g_rect (XFin a) (XFin b) (XInf true) =x= XFin (b - a) /\ gen_g_rect (XFin a) (XFin b) (XInf false) =x= X0.
Proof. intro H. unfold gen_g_rect, X0. split; gki. Qed.

Lemma g_trap_at_infinity a b c d : a < b -> b < c -> c < d ->
  gen_g_trap (XFin a) (XFin b) (XFin c) (XFin d) (XInf true) =x= XFin ((d + c - a - b) / 2) /\
  gen_g_trap (XFin a) (XFin b) (XFin c) (XFin d) (XInf false) =x= X0.
Proof. intros. unfold gen_g_trap, X0. split; gki; try (field; lra). Qed.

(* the quantile-type kernel for any g that is finite at +-inf (value M at +inf, 0 at -inf) *)
Lemma cq_infinite_data g gq M alpha x : lifts g gq -> respects gq -> g (XInf true) =x= XFin M -> g (XInf false) =x= X0 ->
  gen_consistent_quantile g (XInf true) (XFin x) (XFin alpha) =x= XFin ((1 - alpha) * (M - gq x)) /\
  gen_consistent_quantile g (XInf false) (XFin x) (XFin alpha) =x= XFin (alpha * gq x) /\
  gen_consistent_quantile g (XFin x) (XInf true) (XFin alpha) =x= XFin (alpha * (M - gq x)) /\
  gen_consistent_quantile g (XFin x) (XInf false) (XFin alpha) =x= XFin ((1 - alpha) * gq x).
Proof. intros L C Hp Hm. unfold respects in C. unfold gen_consistent_quantile, X0 in *.
 repeat split;
 (xunf; xunf; unfold Qltb; cbn -[Qle_bool Qeq_bool Qmult Qplus Qminus Qopp Qdiv Qinv Qcompare Qabs];
  repeat (progress (qcmp; unfold Qltb; cbn -[Qle_bool Qeq_bool Qmult Qplus Qminus Qopp Qdiv Qinv Qcompare Qabs])); try lra;
  destruct (g (XInf true)) as [|mp|]; cbn in Hp; try tauto; destruct (g (XInf false)) as [|mm|]; cbn in Hm; try tauto;
  lift_all; cbn -[Qmult Qplus Qminus Qopp Qdiv Qinv Qabs]; use_lifts gq gq; rewrite ?Hp, ?Hm; pq_compat C; try lra; nra). Qed.

Lemma tw_quantile_rect_infinite_data a b alpha x : a <= b ->
  let g := gen_g_rect (XFin a) (XFin b) in
  gen_consistent_quantile g (XInf true) (XFin x) (XFin alpha) =x= XFin ((1 - alpha) * ((b - a) - qg_rect a b x)) /\
  gen_consistent_quantile g (XInf false) (XFin x) (XFin alpha) =x= XFin (alpha * qg_rect a b x) /\
  gen_consistent_quantile g (XFin x) (XInf true) (XFin alpha) =x= XFin (alpha * ((b - a) - qg_rect a b x)) /\
  gen_consistent_quantile g (XFin x) (XInf false) (XFin alpha) =x= XFin ((1 - alpha) * qg_rect a b x).
Proof. intro H. destruct (g_rect_at_infinity a b H). apply cq_infinite_data; auto.
 - apply lifts_g_rect. - exact (nondecreasing_respects _ (qg_rect_nondecreasing a b H)). Qed.

Lemma tw_quantile_trap_infinite_data a b c d alpha x : a < b -> b < c -> c < d ->
  let g := gen_g_trap (XFin a) (XFin b) (XFin c) (XFin d) in
  gen_consistent_quantile g (XInf true) (XFin x) (XFin alpha) =x= XFin ((1 - alpha) * ((d + c - a - b) / 2 - qg_trap a b c d x)) /\
  gen_consistent_quantile g (XInf false) (XFin x) (XFin alpha) =x= XFin (alpha * qg_trap a b c d x) /\
  gen_consistent_quantile g (XFin x) (XInf true) (XFin alpha) =x= XFin (alpha * ((d + c - a - b) / 2 - qg_trap a b c d x)) /\
  gen_consistent_quantile g (XFin x) (XInf false) (XFin alpha) =x= XFin ((1 - alpha) * qg_trap a b c d x).
Proof. intros H H0 H1. destruct (g_trap_at_infinity a b c d H H0 H1). apply cq_infinite_data; auto.
 - apply lifts_g_trap; auto. - apply qg_trap_respects. Qed.

(* the total mass is what g reaches beyond the support *)
Lemma g_total_mass a b c d x : a < b -> b < c -> c < d -> (b <= x -> qg_rect a b x == b - a) /\ (d <= x -> qg_trap a b c d x == (d + c - a - b) / 2).
Proof. intros. unfold qg_rect, qg_trap, Qltb. split; intro; qcmp; cbn -[Qmult Qplus Qminus Qopp Qdiv Qinv]; try lra; try (field; lra). Qed.
