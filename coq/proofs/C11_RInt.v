(* proofs/C11_RInt.v -- C11 murphy_integrates: the integral over theta of the elementary score is the pinball /
   half asymmetric squared / asymmetric Huber loss.  Bridges the rational specification functions of model/C11.v
   (tied to the regenerated kernels by proofs/C11.v) to the real functions of proofs/C10_RInt.v. *)
From Coq Require Import Reals Qreals.
From Coquelicot Require Import Coquelicot.
From V Require Import lib.Xval lib.C10_aux model.C11_spec proofs.C10_RInt proofs.C10_QR.
From Coq Require Import Lra.

(* ---- elementary scores ---- *)
Lemma es_quantile_bridge alpha f o t :
  Q2R (es_quantile alpha f o t) = esR_quantile (Q2R alpha) (Q2R f) (Q2R o) (Q2R t).
Proof. unfold es_quantile, es_quantile_over, es_quantile_under, in_over, in_under, esR_quantile, ind_over, ind_under.
 qrdec; cbn [andb]; try lra; fin. Qed.
Lemma es_expectile_bridge alpha f o t :
  Q2R (es_expectile alpha f o t) = esR_expectile (Q2R alpha) (Q2R f) (Q2R o) (Q2R t).
Proof. unfold es_expectile, es_expectile_over, es_expectile_under, in_over, in_under, esR_expectile, ind_over, ind_under.
 qrdec; cbn [andb]; try lra; fin. Qed.
Lemma Qmin'_bridge u v : Q2R (Qmin' u v) = Rmin (Q2R u) (Q2R v).
Proof. unfold Qmin'. pose proof (Qleb_R u v). destruct (Qle_bool u v); [rewrite Rmin_left | rewrite Rmin_right]; lra. Qed.
Lemma es_huber_bridge alpha a f o t :
  Q2R (es_huber alpha a f o t) = esR_huber (Q2R alpha) (Q2R a) (Q2R f) (Q2R o) (Q2R t).
Proof. unfold es_huber, es_huber_over, es_huber_under, in_over, in_under, esR_huber, ind_over, ind_under.
 qrdec; cbn [andb]; try lra; q2r; rewrite ?Qmin'_bridge; q2r; qconst; subst; lra. Qed.


(* ---- C11: the integral of the elementary score over theta ---- *)
Theorem murphy_integrates (alpha a f o lo hi : Q) : (0 <= a)%Q -> (lo <= f <= hi)%Q -> (lo <= o <= hi)%Q ->
  is_RInt (esR_quantile (Q2R alpha) (Q2R f) (Q2R o)) (Q2R lo) (Q2R hi) (Q2R (loss_quantile alpha f o)) /\
  is_RInt (esR_expectile (Q2R alpha) (Q2R f) (Q2R o)) (Q2R lo) (Q2R hi) (Q2R (loss_expectile alpha f o)) /\
  is_RInt (esR_huber (Q2R alpha) (Q2R a) (Q2R f) (Q2R o)) (Q2R lo) (Q2R hi)
          (Q2R (loss_huber alpha a f o)).
Proof. intros Ha [Hf1 Hf2] [Ho1 Ho2]. apply Qle_Rle in Hf1, Hf2, Ho1, Ho2, Ha.
 replace (Q2R 0) with 0%R in Ha by (unfold Q2R; simpl; lra).
 assert (Bf : (Q2R lo <= Q2R f <= Q2R hi)%R) by lra. assert (Bo : (Q2R lo <= Q2R o <= Q2R hi)%R) by lra.
 repeat split.
 - eapply is_RInt_val; [apply murphy_integrates_quantile; auto |]. unfold pinballR, loss_quantile. qrdec; try lra; fin.
 - eapply is_RInt_val; [apply murphy_integrates_expectile; auto |]. unfold asymR, loss_expectile. qrdec; try lra; fin.
 - eapply is_RInt_val; [apply murphy_integrates_huber; auto |]. unfold asymR, huberR, loss_huber.
   assert (EA : Q2R (Qabs (f - o)) = Rabs (Q2R f - Q2R o)).
   { destruct (Qlt_le_dec (f - o) 0) as [N|N].
     - rewrite Qabs_neg by Lqa.lra. apply Qlt_Rlt in N. rewrite Q2R_minus in N. replace (Q2R 0) with 0%R in N by (unfold Q2R; simpl; lra).
       rewrite Rabs_left1 by lra. q2r. lra.
     - rewrite Qabs_pos by Lqa.lra. apply Qle_Rle in N. rewrite Q2R_minus in N. replace (Q2R 0) with 0%R in N by (unfold Q2R; simpl; lra).
       rewrite Rabs_pos_eq by lra. q2r. lra. }
   pose proof (Qleb_R (Qabs (f - o)) a) as HA. rewrite EA in HA.
   destruct (Qle_bool (Qabs (f - o)) a); destruct (Rle_dec (Rabs (Q2R f - Q2R o)) (Q2R a)); try lra;
   pose proof (Qltb_R o f) as HL; destruct (Qltb o f); destruct (Rlt_dec (Q2R o) (Q2R f)); try lra;
   q2r; rewrite ?EA; qconst; subst; lra.
Qed.
