(* proofs/C19_real.v -- the parts of C19 that live over the reals: the statistic as a real number
   (signed square root of the model's exact signed square), confidence_gt_0 under negation for any
   symmetric reference distribution, the confidence interval for an arbitrary real statistic, and the
   sign symmetry of the HG statistic relative to the external least-squares fit.
   (R-level only: nothing here is extracted.) *)
From Coq Require Import Reals Qreals.
From Coquelicot Require Import Coquelicot.
From V Require Import lib.Tree model.C19 proofs.C19.
From Coq Require Import Lra.
Open Scope R_scope.

(* ------------------------------------------------------------------------------------------ *)
(* the statistic as a real number                                                              *)
(* ------------------------------------------------------------------------------------------ *)
Definition sgn_sqrt (x : R) : R := if Rle_dec 0 x then sqrt x else - sqrt (- x).
Definition stat_R (s : Q) : R := sgn_sqrt (Q2R s).

Lemma sgn_sqrt_opp x : sgn_sqrt (- x) = - sgn_sqrt x.
Proof.
  unfold sgn_sqrt. destruct (Rle_dec 0 x) as [P|N], (Rle_dec 0 (- x)) as [P'|N'].
  - assert (x = 0) by lra. subst. rewrite Ropp_0, sqrt_0. lra.
  - rewrite Ropp_involutive. reflexivity.
  - lra.
  - lra.
Qed.
Lemma sgn_sqrt_0 : sgn_sqrt 0 = 0.
Proof. unfold sgn_sqrt. destruct (Rle_dec 0 0). apply sqrt_0. lra. Qed.

(* the HLN statistic is  mean / sqrt(V_hat) * sqrt(factor) *)
Theorem hln_real_spec (m v F s : Q) : (0 < v)%Q -> (0 < F)%Q -> (s * v == m * Qabs m * F)%Q ->
  stat_R s = Q2R m / sqrt (Q2R v) * sqrt (Q2R F).
Proof.
  intros Pv PF E. unfold stat_R.
  apply Qlt_Rlt in Pv. apply Qlt_Rlt in PF. rewrite RMicromega.Q2R_0 in Pv, PF.
  assert (SV : 0 < sqrt (Q2R v)) by (apply sqrt_lt_R0; lra).
  assert (SF : 0 < sqrt (Q2R F)) by (apply sqrt_lt_R0; lra).
  destruct (Qlt_le_dec m 0) as [Neg|Pos].
  - rewrite (Qabs_neg m) in E by (apply Qlt_le_weak; exact Neg).
    apply Qeq_eqR in E. rewrite !Q2R_mult, Q2R_opp in E. apply Qlt_Rlt in Neg. rewrite RMicromega.Q2R_0 in Neg.
    set (M := Q2R m) in *. set (V := Q2R v) in *. set (Fr := Q2R F) in *. set (S := Q2R s) in *.
    assert (ES : - S = (- M) * (- M) * Fr / V) by (field_simplify_eq; [nra | lra]).
    assert (MM : 0 < (- M) * (- M)) by nra.
    assert (0 < - S) by (rewrite ES; apply Rdiv_lt_0_compat; [apply Rmult_lt_0_compat; lra | lra]).
    unfold sgn_sqrt. destruct (Rle_dec 0 S); [lra|].
    rewrite ES, sqrt_div_alt by lra. rewrite sqrt_mult by nra. rewrite sqrt_square by lra. field. lra.
  - rewrite (Qabs_pos m) in E by exact Pos.
    apply Qeq_eqR in E. rewrite !Q2R_mult in E. apply Qle_Rle in Pos. rewrite RMicromega.Q2R_0 in Pos.
    set (M := Q2R m) in *. set (V := Q2R v) in *. set (Fr := Q2R F) in *. set (S := Q2R s) in *.
    assert (ES : S = M * M * Fr / V) by (field_simplify_eq; [nra | lra]).
    assert (MM : 0 <= M * M) by nra.
    assert (0 <= S) by (rewrite ES; apply Rmult_le_pos; [apply Rmult_le_pos; lra | apply Rlt_le, Rinv_0_lt_compat; lra]).
    unfold sgn_sqrt. destruct (Rle_dec 0 S); [|lra].
    rewrite ES, sqrt_div_alt by lra. rewrite sqrt_mult by nra. rewrite sqrt_square by lra. field. lra.
Qed.

(* from the model: whenever V_hat is defined, the real statistic of the model's signed square is the published formula *)
Theorem hln_stat_is_published_formula d h v : (0 < h < length d)%nat -> v_hat d (qmean d) h = XFin v ->
  exists s, hln_sq d h = XFin s /\
    stat_R s = Q2R (qmean d) / sqrt (Q2R v) * sqrt (Q2R (hln_factor (qlen d) (qn h))).
Proof.
  intros Hh Hv. destruct (hln_spec d h v Hh Hv) as [Pv [s [Es [E1 _]]]].
  exists s. split. exact Es. apply hln_real_spec; auto.
  apply (hln_factor_pos (length d) h). exact Hh.
Qed.

(* negating the series negates the real statistic *)
Theorem stat_R_negation d h s : dm_stat_hln d h = XFin s ->
  exists s', dm_stat_hln (map Qopp d) h = XFin s' /\ stat_R s' = - stat_R s.
Proof.
  intro E. pose proof (hln_negation d h) as N. rewrite E in N. cbn [xneg] in N.
  destruct (dm_stat_hln (map Qopp d) h) as [|s'|]; cbn [xeq] in N; try contradiction.
  exists s'. split. reflexivity. unfold stat_R. apply Qeq_eqR in N. rewrite N, Q2R_opp. apply sgn_sqrt_opp.
Qed.

(* ------------------------------------------------------------------------------------------ *)
(* confidence_gt_0 = cdf(statistic): negation gives the complement, for any symmetric cdf       *)
(* ------------------------------------------------------------------------------------------ *)
Section Confidence.
  (* the reference distribution function, indexed by the degrees of freedom (ignored by the normal) *)
  Variable cdf : nat -> R -> R.
  Hypothesis cdf_symmetric : forall k x, cdf k (- x) = 1 - cdf k x.

  Definition confidence_gt_0 (k : nat) (s : Q) : R := cdf k (stat_R s).

  Theorem confidence_negation d h s : dm_stat_hln d h = XFin s ->
    exists s', dm_stat_hln (map Qopp d) h = XFin s' /\ length (map Qopp d) = length d /\
      forall k, confidence_gt_0 k s' = 1 - confidence_gt_0 k s.
  Proof.
    intro E. destruct (stat_R_negation d h s E) as [s' [E' S]]. exists s'. split. exact E'.
    split. apply map_length. intro k. unfold confidence_gt_0. rewrite S. apply cdf_symmetric.
  Qed.
  Theorem confidence_symmetric k (x : R) : cdf k (- x) = 1 - cdf k x.
  Proof. apply cdf_symmetric. Qed.
End Confidence.

(* the symmetry hypothesis holds for every distribution function with an even density:
   F x = 1/2 + int_0^x f  with f(-t) = f(t)  (the normal and Student t cdf are of this form) *)
Section EvenDensity.
  Variable f : R -> R.
  Hypothesis f_even : forall t, f (- t) = f t.
  Hypothesis f_int : forall a b, ex_RInt f a b.

  Definition cdf_of_density (x : R) : R := / 2 + RInt f 0 x.

  Theorem even_density_cdf_symmetric x : cdf_of_density (- x) = 1 - cdf_of_density x.
  Proof.
    unfold cdf_of_density.
    assert (E : RInt f 0 (- x) = - RInt f 0 x).
    { pose proof (RInt_correct f 0 x (f_int 0 x)) as I.
      assert (I' : is_RInt f (- - 0) (- - x) (RInt f 0 x)) by (rewrite !Ropp_involutive; exact I).
      apply (is_RInt_comp_opp f) in I'.
      rewrite Ropp_0 in I'.
      pose proof (is_RInt_opp _ _ _ _ I') as I3.
      assert (I2 : is_RInt f 0 (- x) (opp (RInt f 0 x))).
      { refine (is_RInt_ext _ _ _ _ _ _ I3). intros t _. rewrite opp_opp. apply f_even. }
      exact (@is_RInt_unique R_CompleteNormedModule f 0 (- x) (- RInt f 0 x) I2). }
    rewrite E. lra.
  Qed.
End EvenDensity.

(* ------------------------------------------------------------------------------------------ *)
(* the confidence interval for an arbitrary real statistic                                     *)
(* ------------------------------------------------------------------------------------------ *)
Theorem ci_brackets_mean_R (m q s : R) : 0 < q -> 0 < m * s ->
  m * (1 - q / s) <= m <= m * (1 + q / s) /\ m * (1 + q / s) - m = q * Rabs (m / s) /\ m - m * (1 - q / s) = q * Rabs (m / s).
Proof.
  intros Pq Pms.
  assert (Ns : s <> 0) by (intro E; subst; lra).
  assert (Pr : 0 < m / s).
  { replace (m / s) with ((m * s) / (s * s)) by (field; auto). apply Rdiv_lt_0_compat. lra. nra. }
  rewrite (Rabs_pos_eq (m / s)) by lra.
  assert (E1 : m * (1 + q / s) - m = q * (m / s)) by (field; auto).
  assert (E2 : m - m * (1 - q / s) = q * (m / s)) by (field; auto).
  assert (0 < q * (m / s)) by nra.
  split; [lra | split; assumption].
Qed.

(* ------------------------------------------------------------------------------------------ *)
(* HG: relative to the external least-squares fit                                              *)
(* ------------------------------------------------------------------------------------------ *)
Section HG.
  (* scipy.optimize.least_squares on the exponential covariance model: sample autocovariances -> (sigma, theta) *)
  Variable fit : list R -> R * R.

  Fixpoint sum_from1 (n : nat) (g : nat -> R) : R := match n with O => 0 | S k => sum_from1 k g + g (S k) end.
  (* model_autocovs[0] + 2 * sum(model_autocovs[1:n]) with model_autocovs[k] = sigma^2 exp(-3 k / theta) *)
  Definition hg_density (p : R * R) (n : nat) : R :=
    let g := fun k => (fst p) ^ 2 * exp (- 3 * INR k / snd p) in g O + 2 * sum_from1 (n - 1) g.
  Definition hg_stat (d : list Q) (h : nat) : option R :=
    if all_zero d then None
    else Some (Q2R (qmean d) / sqrt (hg_density (fit (map Q2R (hg_sample d h))) (length d) / INR (length d))).

  (* the fit only sees autocovariances, which do not change under negation *)
  Lemma hg_sample_negation d h : map Q2R (hg_sample (map Qopp d) h) = map Q2R (hg_sample d h).
  Proof.
    unfold hg_sample. rewrite map_length, !map_map. apply map_ext. intro k. apply Qeq_eqR.
    unfold acov. unfold qlen at 1. rewrite map_length. fold (qlen d).
    assert (L : forall x, (- x == (-1) * x)%Q) by (intro; ring).
    rewrite (gamma_lin Qopp (-1)%Q L d (qmean d) (qmean (map Qopp d)) k (qmean_lin Qopp (-1)%Q L d)).
    unfold Qdiv. ring.
  Qed.

  Theorem hg_negation d h : hg_stat (map Qopp d) h = option_map Ropp (hg_stat d h).
  Proof.
    unfold hg_stat.
    assert (L : forall x, (- x == (-1) * x)%Q) by (intro; ring).
    assert (NZ : ~ (-1 == 0)%Q) by (intro E; discriminate E).
    rewrite (all_zero_lin Qopp (-1)%Q L NZ d). destruct (all_zero d). reflexivity.
    cbn [option_map]. f_equal. rewrite hg_sample_negation, map_length.
    pose proof (qmean_lin Qopp (-1)%Q L d) as Em. apply Qeq_eqR in Em. rewrite Em, Q2R_mult.
    replace (Q2R (-1)) with (-1) by (unfold Q2R; simpl; lra). unfold Rdiv. ring.
  Qed.
End HG.
