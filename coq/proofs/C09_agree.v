(* proofs/C09_agree.v -- the standalone POD / POFD of categorical/binary_impl.py agree with the contingency manager:
   cell by cell their four maps are the manager's tp / fn / fp / tn maps, and the final ratios are the manager's metrics. *)
From V Require Import lib.Tree lib.C08_aux gen.Gen_C09_metrics gen.Gen_C09_binary gen.Gen_C08_contingency model.C08 model.C09.

Ltac maps_tac :=
  intros f o; unfold map_tp, map_tn, map_fp, map_fn, gen_contingency_maps, gen_pod_maps, gen_pofd_maps;
  destruct f as [|x|[|]]; destruct o as [|y|[|]]; cbn -[Qeq_bool]; try reflexivity;
  repeat match goal with |- context [Qeq_bool ?a ?b] => destruct (Qeq_bool a b) end; reflexivity.

Lemma hits_is_tp : forall f o, fst (gen_pod_maps f o) = map_tp f o.
Proof. maps_tac. Qed.
Lemma misses_is_fn : forall f o, snd (gen_pod_maps f o) = map_fn f o.
Proof. maps_tac. Qed.
Lemma false_alarms_is_fp : forall f o, fst (gen_pofd_maps f o) = map_fp f o.
Proof. maps_tac. Qed.
Lemma correct_negatives_is_tn : forall f o, snd (gen_pofd_maps f o) = map_tn f o.
Proof. maps_tac. Qed.

(* same sums in, same value out (all count values, NaN and infinities included) *)
Lemma pod_ratio_is_metric : forall ln tp fp fn tn, gen_pod_ratio tp fn = gen_metric_probability_of_detection ln tp fp fn tn.
Proof. reflexivity. Qed.
Lemma pofd_ratio_is_metric : forall ln tp fp fn tn, gen_pofd_ratio fp tn =x= gen_metric_probability_of_false_detection ln tp fp fn tn.
Proof.
  intros. unfold gen_pofd_ratio, gen_metric_probability_of_false_detection, gen_metric_false_alarm_rate.
  first [reflexivity | apply xdiv_Proper; [reflexivity |]; destruct fp as [|a|[|]], tn as [|b|[|]]; simpl; auto; ring].
Qed.

(* unweighted, a list of (forecast, observation) event pairs: standalone POD = manager POD of the NaN-skipping counts *)
Lemma standalone_pod_agrees ln (cells : list (xv * xv)) :
  let sum m := nansum (map (fun c => m (fst c) (snd c)) cells) in
  gen_pod_ratio (sum (fun f o => fst (gen_pod_maps f o))) (sum (fun f o => snd (gen_pod_maps f o))) =
  gen_metric_probability_of_detection ln (sum map_tp) (sum map_fp) (sum map_fn) (sum map_tn).
Proof.
  cbv zeta. rewrite <- pod_ratio_is_metric. f_equal; f_equal; apply map_ext; intro c; [apply hits_is_tp | apply misses_is_fn].
Qed.
Lemma standalone_pofd_agrees ln (cells : list (xv * xv)) :
  let sum m := nansum (map (fun c => m (fst c) (snd c)) cells) in
  gen_pofd_ratio (sum (fun f o => fst (gen_pofd_maps f o))) (sum (fun f o => snd (gen_pofd_maps f o))) =x=
  gen_metric_probability_of_false_detection ln (sum map_tp) (sum map_fp) (sum map_fn) (sum map_tn).
Proof.
  cbv zeta. rewrite <- pofd_ratio_is_metric.
  replace (map (fun c => fst (gen_pofd_maps (fst c) (snd c))) cells) with (map (fun c => map_fp (fst c) (snd c)) cells)
    by (apply map_ext; intro c; symmetry; apply false_alarms_is_fp).
  replace (map (fun c => snd (gen_pofd_maps (fst c) (snd c))) cells) with (map (fun c => map_tn (fst c) (snd c)) cells)
    by (apply map_ext; intro c; symmetry; apply correct_negatives_is_tn).
  reflexivity.
Qed.
