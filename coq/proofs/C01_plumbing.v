(* proofs/C01_plumbing.v -- the plumbing read from the current source is the plumbing the hand models implement. *)
From V Require Import lib.Plumbing gen.Gen_C01_plumbing.
Open Scope string_scope.

Definition plumb_sum2 (f o : string) : plumbing :=         (* two weighted sums over the gathered dims (POD / POFD ratios) *)
  {| pl_gather_args := [f; o]; pl_weights_dims := false; pl_specific := false; pl_apply_weights := 2;
     pl_weights_before_reduce := true; pl_reductions := ["sum"; "sum"] |}.
Definition plumb_mean_unweighted (f o : string) : plumbing :=
  {| pl_gather_args := [f; o]; pl_weights_dims := false; pl_specific := false; pl_apply_weights := 0;
     pl_weights_before_reduce := true; pl_reductions := ["mean"] |}.

Definition mean_type_functions : list plumbing :=
  [plumb_mse; plumb_mae; plumb_additive_bias; plumb_quantile_score; plumb_consistent_expectile_score;
   plumb_consistent_huber_score; plumb_consistent_quantile_score; plumb_firm; plumb_crps_cdf].

Lemma mean_type_plumbing : Forall (fun p => p = plumb_mean "fcst.dims" "obs.dims") mean_type_functions.
Proof. repeat constructor. Qed.
Lemma interval_plumbing : plumb_quantile_interval_score = plumb_mean "fcst_lower_qtile.dims" "obs.dims".
Proof. reflexivity. Qed.
Lemma ratio_plumbing : plumb_multiplicative_bias = plumb_ratio "fcst.dims" "obs.dims" /\ plumb_pbias = plumb_ratio "fcst.dims" "obs.dims".
Proof. split; reflexivity. Qed.
Lemma ensemble_plumbing : plumb_crps_for_ensemble = plumb_mean_specific "fcst.dims" "obs.dims" /\
                          plumb_brier_score_for_ensemble = plumb_mean_specific "fcst.dims" "obs.dims".
Proof. split; reflexivity. Qed.
Lemma pod_pofd_plumbing : plumb_probability_of_detection = plumb_sum2 "fcst.dims" "obs.dims" /\
                          plumb_probability_of_false_detection = plumb_sum2 "fcst.dims" "obs.dims".
Proof. split; reflexivity. Qed.
Lemma murphy_plumbing : plumb_murphy_score = plumb_mean_unweighted "fcst.dims" "obs.dims".
Proof. reflexivity. Qed.

Lemma more_plumbing :
  plumb_crps_cdf_brier_decomposition =
    {| pl_gather_args := ["fcst.dims"; "obs.dims"]; pl_weights_dims := false; pl_specific := false; pl_apply_weights := 0;
       pl_weights_before_reduce := true; pl_reductions := ["mean"; "mean"] |} /\
  plumb_risk_matrix_score =
    {| pl_gather_args := ["fcst_dims0"; "obs_dims0"]; pl_weights_dims := true; pl_specific := false; pl_apply_weights := 1;
       pl_weights_before_reduce := true; pl_reductions := ["mean"] |} /\
  plumb_contingency_counts =
    {| pl_gather_args := ["self.fcst_events.dims"; "self.obs_events.dims"]; pl_weights_dims := false; pl_specific := false;
       pl_apply_weights := 0; pl_weights_before_reduce := true; pl_reductions := ["sum"; "sum"; "sum"; "sum"] |} /\
  plumb_pearsonr =
    {| pl_gather_args := ["fcst.dims"; "obs.dims"]; pl_weights_dims := false; pl_specific := false; pl_apply_weights := 0;
       pl_weights_before_reduce := true; pl_reductions := ["corr"] |} /\
  plumb_kge =
    {| pl_gather_args := ["fcst.dims"; "obs.dims"]; pl_weights_dims := false; pl_specific := false; pl_apply_weights := 0;
       pl_weights_before_reduce := true; pl_reductions := ["corr"; "std"; "std"; "mean"; "mean"] |}.
Proof. repeat split; reflexivity. Qed.
