(* proofs/C15_quant.v -- the linear-interpolation quantile of _nanquantile is monotone in its level,
   hence the lower confidence band never exceeds the upper one. *)
From Coq Require Import Permutation.
From V Require Import lib.Tree model.C15 proofs.C15.
Open Scope list_scope.
Open Scope Q_scope.

(* ---- floor / ceiling ---- *)
Lemma floor_le x : zq (Qfloor x) <= x.
Proof. apply Qfloor_le. Qed.
Lemma lt_floor_succ x : x < zq (Qfloor x + 1).
Proof. apply Qlt_floor. Qed.
Lemma le_ceiling x : x <= zq (Qceiling x).
Proof. apply Qle_ceiling. Qed.
Lemma ceiling_pred_lt x : zq (Qceiling x - 1) < x.
Proof. apply Qceiling_lt. Qed.

Lemma zq_le a b : (a <= b)%Z <-> zq a <= zq b.
Proof. unfold zq. rewrite Zle_Qle. tauto. Qed.
Lemma zq_lt a b : (a < b)%Z <-> zq a < zq b.
Proof. unfold zq. rewrite Zlt_Qlt. tauto. Qed.
Lemma zq_plus a b : zq (a + b) == zq a + zq b.
Proof. unfold zq. rewrite inject_Z_plus. reflexivity. Qed.

Lemma floor_ceiling_cases x :
  (Qfloor x = Qceiling x /\ x == zq (Qfloor x)) \/ (Qceiling x = (Qfloor x + 1)%Z /\ zq (Qfloor x) < x /\ x < zq (Qfloor x + 1)).
Proof.
  pose proof (floor_le x) as F1. pose proof (lt_floor_succ x) as F2.
  pose proof (le_ceiling x) as C1. pose proof (ceiling_pred_lt x) as C2.
  assert (A : (Qfloor x <= Qceiling x)%Z) by (apply zq_le; lra).
  assert (B : (Qceiling x - 1 < Qfloor x + 1)%Z) by (apply zq_lt; lra).
  destruct (Z.eq_dec (Qfloor x) (Qceiling x)) as [E|N].
  - left. split; [exact E|]. rewrite <- E in C1. lra.
  - right. assert (E : Qceiling x = (Qfloor x + 1)%Z) by lia. split; [exact E|]. split; [|exact F2].
    destruct (Qlt_le_dec (zq (Qfloor x)) x) as [L|L]; [exact L|]. exfalso.
    assert (X : x == zq (Qfloor x)) by lra. rewrite E in C2.
    assert (Y : zq (Qfloor x + 1 - 1) == zq (Qfloor x)) by (f_equiv; lia || (replace (Qfloor x + 1 - 1)%Z with (Qfloor x) by lia; reflexivity)).
    lra.
Qed.

(* ---- sorted lists ---- *)
Definition qsorted (s : list Q) : Prop := adj (fun a b => a <= b) s.
Lemma Qle_bool_total a b : Qle_bool a b = false -> Qle_bool b a = true.
Proof. intro H. pose proof (Qle_bool_spec a b). rewrite H in H0. apply Qle_bool_iff. lra. Qed.
Lemma isort_sorted l : qsorted (isort l).
Proof. unfold qsorted, isort. pose proof (ssort_sorted Qle_bool Qle_bool_total l) as H.
  eapply adj_impl; [|exact H]. intros a b E. apply Qle_bool_iff. exact E. Qed.
Lemma isort_length l : length (isort l) = length l.
Proof. apply Permutation_length. apply ssort_perm. Qed.

Lemma sorted_hd_le a t : qsorted (a :: t) -> forall x, In x t -> a <= x.
Proof. revert a. induction t as [|b t IH]; intros a H x Hx; [destruct Hx|].
  destruct H as [Hab H]. destruct Hx as [<-|Hx]; [exact Hab|]. apply Qle_trans with b; [exact Hab | apply IH; assumption]. Qed.
Lemma sorted_nth s : qsorted s -> forall i j, (i <= j)%nat -> (j < length s)%nat -> nth i s 0 <= nth j s 0.
Proof. induction s as [|a t IH]; intros H i j Hij Hj; [simpl in Hj; lia|].
  destruct i as [|i'].
  - destruct j as [|j']; [apply Qle_refl|]. simpl. apply (sorted_hd_le a t H). apply nth_In. simpl in Hj. lia.
  - destruct j as [|j']; [lia|]. simpl. apply IH; [apply (adj_tail _ _ _ H) | lia | simpl in Hj; lia].
Qed.

(* ---- the interpolated value at a position ---- *)
Definition at_pos (s : list Q) (pos : Q) : Q :=
  let fl := Qfloor pos in let ce := Qceiling pos in
  if (fl =? ce)%Z then zget s fl else zget s fl * (zq ce - pos) + zget s ce * (pos - zq fl).

Lemma zget_nonneg s i : (0 <= i)%Z -> zget s i = nth (Z.to_nat i) s 0.
Proof. intro H. unfold zget. destruct (i <? 0)%Z eqn:E; [apply Z.ltb_lt in E; lia | reflexivity]. Qed.

(* at_pos lies between the neighbouring order statistics *)
Lemma at_pos_bounds s pos : qsorted s -> 0 <= pos -> pos <= zq (Z.of_nat (length s) - 1) ->
  nth (Z.to_nat (Qfloor pos)) s 0 <= at_pos s pos /\ at_pos s pos <= nth (Z.to_nat (Qceiling pos)) s 0.
Proof.
  intros Hs H0 H1. unfold at_pos.
  assert (F0 : (0 <= Qfloor pos)%Z) by (change 0%Z with (Qfloor 0); apply Qfloor_resp_le; exact H0).
  assert (C1 : (Qceiling pos <= Z.of_nat (length s) - 1)%Z).
  { rewrite <- (Qceiling_Z (Z.of_nat (length s) - 1)). apply Qceiling_resp_le. exact H1. }
  destruct (floor_ceiling_cases pos) as [[E X]|[E [X1 X2]]].
  - rewrite E, Z.eqb_refl. rewrite zget_nonneg by lia. split; apply Qle_refl.
  - assert (N : (Qfloor pos =? Qceiling pos)%Z = false) by (apply Z.eqb_neq; lia). rewrite N.
    rewrite !zget_nonneg by lia.
    assert (S : nth (Z.to_nat (Qfloor pos)) s 0 <= nth (Z.to_nat (Qceiling pos)) s 0) by (apply sorted_nth; [exact Hs | lia | lia]).
    rewrite E in *. rewrite zq_plus in *. change (zq 1) with 1 in *.
    set (a := nth (Z.to_nat (Qfloor pos)) s 0) in *. set (b := nth (Z.to_nat (Qfloor pos + 1)) s 0) in *.
    split; nra.
Qed.

Lemma at_pos_monotone s p1 p2 : qsorted s -> 0 <= p1 -> p1 <= p2 -> p2 <= zq (Z.of_nat (length s) - 1) ->
  at_pos s p1 <= at_pos s p2.
Proof.
  intros Hs H0 H12 H2.
  assert (Ff : (Qfloor p1 <= Qfloor p2)%Z) by (apply Qfloor_resp_le; exact H12).
  assert (F0 : (0 <= Qfloor p1)%Z) by (change 0%Z with (Qfloor 0); apply Qfloor_resp_le; exact H0).
  assert (C2 : (Qceiling p2 <= Z.of_nat (length s) - 1)%Z).
  { rewrite <- (Qceiling_Z (Z.of_nat (length s) - 1)). apply Qceiling_resp_le. exact H2. }
  destruct (Z.eq_dec (Qfloor p1) (Qfloor p2)) as [Ef|Nf].
  - (* same cell *)
    unfold at_pos. rewrite <- Ef.
    destruct (floor_ceiling_cases p1) as [[E1 X1]|[E1 [X1 Y1]]]; destruct (floor_ceiling_cases p2) as [[E2 X2]|[E2 [X2 Y2]]];
      rewrite <- Ef in *.
    + rewrite <- E1, <- E2, Z.eqb_refl. apply Qle_refl.
    + rewrite <- E1, Z.eqb_refl. assert (N : (Qfloor p1 =? Qceiling p2)%Z = false) by (apply Z.eqb_neq; lia). rewrite N.
      rewrite E2. rewrite !zget_nonneg by lia.
      assert (S : nth (Z.to_nat (Qfloor p1)) s 0 <= nth (Z.to_nat (Qfloor p1 + 1)) s 0) by (apply sorted_nth; [exact Hs | lia | lia]).
      rewrite zq_plus in *. change (zq 1) with 1 in *.
      set (a := nth (Z.to_nat (Qfloor p1)) s 0) in *. set (b := nth (Z.to_nat (Qfloor p1 + 1)) s 0) in *. nra.
    + exfalso. lra.
    + assert (N1 : (Qfloor p1 =? Qceiling p1)%Z = false) by (apply Z.eqb_neq; lia). rewrite N1.
      assert (N2 : (Qfloor p1 =? Qceiling p2)%Z = false) by (apply Z.eqb_neq; lia). rewrite N2.
      rewrite E1, E2. rewrite !zget_nonneg by lia.
      assert (S : nth (Z.to_nat (Qfloor p1)) s 0 <= nth (Z.to_nat (Qfloor p1 + 1)) s 0) by (apply sorted_nth; [exact Hs | lia | lia]).
      rewrite zq_plus in *. change (zq 1) with 1 in *.
      set (a := nth (Z.to_nat (Qfloor p1)) s 0) in *. set (b := nth (Z.to_nat (Qfloor p1 + 1)) s 0) in *. nra.
  - (* different cells: at_pos p1 <= s[ceil p1] <= s[floor p2] <= at_pos p2 *)
    assert (P1 : p1 <= zq (Z.of_nat (length s) - 1)) by lra.
    assert (P2 : 0 <= p2) by lra.
    destruct (at_pos_bounds s p1 Hs H0 P1) as [_ U]. destruct (at_pos_bounds s p2 Hs P2 H2) as [L _].
    assert (Cc : (Qceiling p1 <= Qfloor p2)%Z).
    { destruct (floor_ceiling_cases p1) as [[E1 _]|[E1 _]]; lia. }
    assert (F2 : (Qfloor p2 <= Qceiling p2)%Z) by (destruct (floor_ceiling_cases p2) as [[E _]|[E _]]; lia).
    assert (C0 : (0 <= Qceiling p1)%Z) by (destruct (floor_ceiling_cases p1) as [[E1 _]|[E1 _]]; lia).
    assert (M : nth (Z.to_nat (Qceiling p1)) s 0 <= nth (Z.to_nat (Qfloor p2)) s 0) by (apply sorted_nth; [exact Hs | lia | lia]).
    lra.
Qed.

(* ---- _nanquantile on one column ---- *)
Lemma nq_col_at_pos col m quant :
  nq_col col (Some m) quant =
  XFin (at_pos (isort (map (fun v => match v with XFin q => q | _ => m end) col)) (zq (Z.of_nat (length (flat_map finq col)) - 1) * quant)).
Proof. unfold nq_col, at_pos. destruct (Qfloor _ =? Qceiling _)%Z; reflexivity. Qed.

Lemma finq_count_le col : (length (flat_map finq col) <= length col)%nat.
Proof. induction col as [|v t IH]; simpl; [lia|]. rewrite app_length. destruct v; simpl; lia. Qed.

(* monotone in the level, for a column with at least one valid value *)
Lemma nq_col_monotone col m q1 q2 : (1 <= length (flat_map finq col))%nat -> 0 <= q1 -> q1 <= q2 -> q2 <= 1 ->
  exists x y, nq_col col (Some m) q1 = XFin x /\ nq_col col (Some m) q2 = XFin y /\ x <= y.
Proof.
  intros Hc H0 H12 H2. rewrite !nq_col_at_pos. eexists. eexists. split; [reflexivity|]. split; [reflexivity|].
  set (s := isort _). set (c := length (flat_map finq col)) in *.
  assert (Ls : length s = length col) by (unfold s; rewrite isort_length, map_length; reflexivity).
  pose proof (finq_count_le col) as Lc. fold c in Lc.
  assert (Z0 : 0 <= zq (Z.of_nat c - 1)) by (change 0 with (zq 0); apply (proj1 (zq_le _ _)); lia).
  assert (Z1 : zq (Z.of_nat c - 1) <= zq (Z.of_nat (length s) - 1)) by (apply (proj1 (zq_le _ _)); lia).
  apply at_pos_monotone; [apply isort_sorted | nra | nra | nra].
Qed.

(* the band: lower level (1-c)/2 <= upper level 1-(1-c)/2 for a confidence level in [0,1] *)
Lemma band_levels conf : 0 <= conf -> conf <= 1 -> 0 <= (1 - conf) / 2 /\ (1 - conf) / 2 <= 1 - (1 - conf) / 2 /\ 1 - (1 - conf) / 2 <= 1.
Proof. intros. assert ((1 - conf) / 2 == (1 - conf) * (1 # 2)) by (field). rewrite H1. lra. Qed.

Lemma band_col_ordered col m conf : (1 <= length (flat_map finq col))%nat -> 0 <= conf -> conf <= 1 ->
  exists x y, nq_col col (Some m) ((1 - conf) / 2) = XFin x /\ nq_col col (Some m) (1 - (1 - conf) / 2) = XFin y /\ x <= y.
Proof. intros Hc H0 H1. destruct (band_levels conf H0 H1) as [A [B C]]. apply nq_col_monotone; assumption. Qed.
