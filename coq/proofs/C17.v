(* proofs/C17.v -- lemmas behind the C17 theorems: envelopes, fill_cdf, decreasing_cdfs, adjust_fcst_for_crps. *)
From V Require Import lib.Tree model.Cdf.
Open Scope Q_scope.
Open Scope list_scope.

(* ------------------------------------------------------------------------------------------ *)
(* order facts on lists of rationals                                                            *)
(* ------------------------------------------------------------------------------------------ *)
Definition qmax (a b : Q) : Q := if Qle_bool a b then b else a.
Definition qmin (a b : Q) : Q := if Qle_bool a b then a else b.
Lemma qmax_ub a b : a <= qmax a b /\ b <= qmax a b.
Proof. unfold qmax. pose proof (Qle_bool_spec a b). destruct (Qle_bool a b); lra. Qed.
Lemma qmax_lub a b c : a <= c -> b <= c -> qmax a b <= c.
Proof. unfold qmax. destruct (Qle_bool a b); auto. Qed.
Lemma qmin_lb a b : qmin a b <= a /\ qmin a b <= b.
Proof. unfold qmin. pose proof (Qle_bool_spec a b). destruct (Qle_bool a b); lra. Qed.
Lemma qmin_glb a b c : c <= a -> c <= b -> c <= qmin a b.
Proof. unfold qmin. destruct (Qle_bool a b); auto. Qed.

(* non-decreasing *)
Fixpoint nondec (l : list Q) : Prop :=
  match l with a :: ((b :: _) as t) => a <= b /\ nondec t | _ => True end.
Lemma nondec_cons a b t : nondec (a :: b :: t) <-> a <= b /\ nondec (b :: t).
Proof. simpl. tauto. Qed.
Lemma nondec_tail a t : nondec (a :: t) -> nondec t.
Proof. destruct t; simpl; tauto. Qed.

(* ------------------------------------------------------------------------------------------ *)
(* upper envelope of a finite line = running maximum                                            *)
(* ------------------------------------------------------------------------------------------ *)
Fixpoint runmax (m : Q) (l : list Q) : list Q :=
  match l with [] => [] | x :: t => let m' := qmax m x in m' :: runmax m' t end.
Definition upperQ (l : list Q) : list Q := match l with [] => [] | x :: t => x :: runmax x t end.

Lemma xfmax_fin m x : xfmax (XFin m) (XFin x) = XFin (qmax m x).
Proof. unfold xfmax, qmax. simpl. destruct (Qle_bool m x); reflexivity. Qed.
Lemma fmax_acc_fins m l : fmax_acc (XFin m) (fins l) = fins (runmax m l).
Proof.
  revert m. induction l as [|x t IH]; intro m. reflexivity.
  change (fins (x :: t)) with (XFin x :: fins t).
  change (fmax_acc (XFin m) (XFin x :: fins t)) with (xfmax (XFin m) (XFin x) :: fmax_acc (xfmax (XFin m) (XFin x)) (fins t)).
  rewrite xfmax_fin, IH. reflexivity.
Qed.
Lemma mask_like_fins l r : length r = length l -> mask_like (fins l) (fins r) = fins r.
Proof.
  revert r. induction l as [|x t IH]; intros [|y r] H; try discriminate; try reflexivity.
  unfold mask_like in *. cbn [fins map combine fst snd xisnan]. f_equal. apply IH. simpl in H. congruence.
Qed.
Lemma runmax_length m l : length (runmax m l) = length l.
Proof. revert m. induction l; intro m; simpl; auto. Qed.

Lemma cummax_fins l : cummax (fins l) = fins (upperQ l).
Proof.
  unfold cummax. destruct l as [|x t]. reflexivity.
  change (fins (x :: t)) with (XFin x :: fins t).
  change (fmax_acc XNaN (XFin x :: fins t)) with (XFin x :: fmax_acc (XFin x) (fins t)).
  rewrite fmax_acc_fins. reflexivity.
Qed.
Lemma upperQ_length l : length (upperQ l) = length l.
Proof. destruct l; simpl; auto. rewrite runmax_length. reflexivity. Qed.
Theorem env_upper_fins l : env_upper (fins l) = fins (upperQ l).
Proof. unfold env_upper. rewrite cummax_fins. apply mask_like_fins. apply upperQ_length. Qed.

(* properties of the running maximum *)
Lemma runmax_nondec : forall l m, nondec (m :: runmax m l).
Proof.
  induction l as [|x t IH]; intro m. simpl; auto.
  cbn [runmax]. cbv zeta. apply nondec_cons. split. apply qmax_ub. apply IH.
Qed.
Theorem upper_monotone l : nondec (upperQ l).
Proof. destruct l as [|x t]. simpl; auto. apply runmax_nondec. Qed.

Lemma runmax_brackets : forall l m, Forall2 Qle l (runmax m l).
Proof. induction l as [|x t IH]; intro m; simpl; constructor. apply qmax_ub. apply IH. Qed.
Theorem upper_brackets l : Forall2 Qle l (upperQ l).
Proof. destruct l as [|x t]; constructor. lra. apply runmax_brackets. Qed.

Lemma runmax_minimal : forall l m g g0,
  nondec (g0 :: g) -> m <= g0 -> Forall2 Qle l g -> Forall2 Qle (runmax m l) g.
Proof.
  induction l as [|x t IH]; intros m g g0 Hs Hm H; inversion H; subst. constructor.
  cbn [runmax]. cbv zeta. apply nondec_cons in Hs. destruct Hs as [H0 Hs].
  constructor. apply qmax_lub; lra.
  apply IH with (g0 := y); auto. apply qmax_lub; lra.
Qed.
(* least non-decreasing majorant *)
Theorem upper_minimal l g : nondec g -> Forall2 Qle l g -> Forall2 Qle (upperQ l) g.
Proof.
  intros Hs H. destruct l as [|x t]; inversion H; subst; constructor; auto.
  apply runmax_minimal with (g0 := y); auto.
Qed.

Lemma runmax_fix : forall l m, nondec (m :: l) -> runmax m l = l.
Proof.
  induction l as [|x t IH]; intros m H. reflexivity.
  apply nondec_cons in H. destruct H as [Hmx H]. cbn [runmax]. cbv zeta.
  unfold qmax. rewrite (Qle_bool_true m x Hmx). f_equal. apply IH. exact H.
Qed.
Theorem upper_fixpoint l : nondec l -> upperQ l = l.
Proof. destruct l as [|x t]; intro H. reflexivity. simpl. f_equal. apply runmax_fix. exact H. Qed.

(* ------------------------------------------------------------------------------------------ *)
(* lower envelope of a finite line: the code's flip / 1 - fmax(1 - .) / flip = suffix minimum    *)
(* ------------------------------------------------------------------------------------------ *)
Definition om (x : Q) : Q := 1 - x.
Definition lowerQ (l : list Q) : list Q := rev (map om (upperQ (map om (rev l)))).

Theorem env_lower_fins l : env_lower (fins l) = fins (lowerQ l).
Proof.
  unfold env_lower, lowerQ, one_minus.
  assert (E1 : map (fun v => xsub X1 v) (rev (fins l)) = fins (map om (rev l))).
  { unfold fins. rewrite <- map_rev, !map_map. reflexivity. }
  rewrite E1, cummax_fins.
  assert (E2 : rev (map (fun v => xsub X1 v) (fins (upperQ (map om (rev l))))) = fins (rev (map om (upperQ (map om (rev l)))))).
  { unfold fins. rewrite (map_rev XFin). rewrite !map_map. reflexivity. }
  rewrite E2. apply mask_like_fins.
  rewrite rev_length, map_length, upperQ_length, map_length, rev_length. reflexivity.
Qed.

(* suffix minimum, defined from the right *)
Fixpoint sufmin (l : list Q) : list Q :=
  match l with
  | [] => []
  | x :: t => match sufmin t with [] => [x] | m :: r => qmin x m :: m :: r end
  end.

(* running minimum, and the link: lowerQ l is pointwise (Qeq) the suffix minimum *)
Fixpoint runmin (m : Q) (l : list Q) : list Q :=
  match l with [] => [] | x :: t => let m' := qmin m x in m' :: runmin m' t end.
Definition cumminQ (l : list Q) : list Q := match l with [] => [] | x :: t => x :: runmin x t end.

Lemma om_runmax : forall l m m', om m == m' -> Forall2 Qeq (map om (runmax m l)) (runmin m' (map om l)).
Proof.
  induction l as [|x t IH]; intros m m' E. constructor.
  cbn [runmax runmin map]. cbv zeta.
  assert (E' : om (qmax m x) == qmin m' (om x)).
  { unfold qmax, qmin, om in *. pose proof (Qle_bool_spec m x). pose proof (Qle_bool_spec m' (1 - x)).
    destruct (Qle_bool m x), (Qle_bool m' (1 - x)); lra. }
  constructor; auto.
Qed.
Lemma om_upper l : Forall2 Qeq (map om (upperQ l)) (cumminQ (map om l)).
Proof. destruct l as [|x t]; simpl; constructor. reflexivity. apply om_runmax. reflexivity. Qed.

Lemma runmin_ext : forall l l' m m', m == m' -> Forall2 Qeq l l' -> Forall2 Qeq (runmin m l) (runmin m' l').
Proof.
  induction l as [|x t IH]; intros l' m m' E H; inversion H; subst. constructor.
  cbn [runmin]. cbv zeta.
  assert (E' : qmin m x == qmin m' y).
  { unfold qmin. pose proof (Qle_bool_spec m x). pose proof (Qle_bool_spec m' y). destruct (Qle_bool m x), (Qle_bool m' y); lra. }
  constructor; auto.
Qed.
Lemma cummin_ext l l' : Forall2 Qeq l l' -> Forall2 Qeq (cumminQ l) (cumminQ l').
Proof. intro H. inversion H; subst; simpl; constructor; auto. apply runmin_ext; auto. Qed.

Lemma map_om_om l : Forall2 Qeq (map om (map om l)) l.
Proof. induction l; simpl; constructor; auto. unfold om. ring. Qed.

Lemma Forall2_rev {A B} (R : A -> B -> Prop) l l' : Forall2 R l l' -> Forall2 R (rev l) (rev l').
Proof. induction 1; simpl. constructor. apply Forall2_app; auto. Qed.
Lemma Forall2_Qeq_trans a b c : Forall2 Qeq a b -> Forall2 Qeq b c -> Forall2 Qeq a c.
Proof. intro H. revert c. induction H; intros c H'; inversion H'; subst; constructor. lra. auto. Qed.
Lemma Forall2_Qeq_sym a b : Forall2 Qeq a b -> Forall2 Qeq b a.
Proof. induction 1; constructor; auto. lra. Qed.

Lemma last_indep {A} (q : A) l d d' : last (q :: l) d = last (q :: l) d'.
Proof. revert q. induction l as [|a t IH]; intro q. reflexivity. change (last (a :: t) d = last (a :: t) d'). apply IH. Qed.
(* running minimum of l ++ [x] *)
Lemma runmin_snoc : forall l m x, runmin m (l ++ [x]) = runmin m l ++ [qmin (last (runmin m l) m) x].
Proof.
  induction l as [|a t IH]; intros m x. reflexivity.
  cbn [app runmin]. cbv zeta. rewrite IH. cbn [app]. f_equal. f_equal. f_equal.
  destruct (runmin (qmin m a) t) eqn:E. reflexivity.
  change (last (qmin m a :: q :: l) m) with (last (q :: l) m). f_equal. apply last_indep.
Qed.
Lemma cummin_snoc l x : l <> [] -> cumminQ (l ++ [x]) = cumminQ l ++ [qmin (last (cumminQ l) 0) x].
Proof.
  destruct l as [|a t]; intro H. congruence. cbn [app cumminQ]. rewrite runmin_snoc. cbn [app]. f_equal. f_equal. f_equal.
  destruct (runmin a t). reflexivity.
  change (last (a :: q :: l) 0) with (last (q :: l) 0). f_equal. apply last_indep.
Qed.

Lemma qmin_comm_eq a b : qmin a b == qmin b a.
Proof. unfold qmin. pose proof (Qle_bool_spec a b). pose proof (Qle_bool_spec b a). destruct (Qle_bool a b), (Qle_bool b a); lra. Qed.

Lemma sufmin_cons x t : sufmin (x :: t) = match sufmin t with [] => [x] | m :: r => qmin x m :: m :: r end.
Proof. reflexivity. Qed.
Lemma last_hd_rev {A} (c : list A) d : last c d = hd d (rev c).
Proof.
  induction c as [|a r IHc]. reflexivity. destruct r as [|b r]. reflexivity.
  change (last (a :: b :: r) d) with (last (b :: r) d). rewrite IHc.
  change (rev (a :: b :: r)) with (rev (b :: r) ++ [a]).
  destruct (rev (b :: r)) eqn:E; [|reflexivity].
  apply (f_equal (@length A)) in E. rewrite rev_length in E. discriminate.
Qed.
Lemma sufmin_nonempty x t : sufmin (x :: t) <> [].
Proof. simpl. destruct (sufmin t); discriminate. Qed.

Lemma rev_cummin_rev : forall l, Forall2 Qeq (rev (cumminQ (rev l))) (sufmin l).
Proof.
  induction l as [|x t IH]. constructor.
  destruct t as [|y t'].
  - simpl. constructor; [reflexivity | constructor].
  - change (rev (x :: y :: t')) with (rev (y :: t') ++ [x]).
    assert (N : rev (y :: t') <> []).
    { intro E. apply (f_equal (@length Q)) in E. rewrite rev_length in E. discriminate. }
    rewrite (cummin_snoc _ x N), rev_app_distr.
    set (C := cumminQ (rev (y :: t'))) in *.
    change (rev [qmin (last C 0) x] ++ rev C) with (qmin (last C 0) x :: rev C).
    rewrite (sufmin_cons x (y :: t')), last_hd_rev.
    pose proof (sufmin_nonempty y t') as NE.
    destruct IH as [|u m ru r Hum Hr]; [congruence|].
    cbn [hd]. constructor; [|constructor; auto].
    rewrite qmin_comm_eq. unfold qmin. pose proof (Qle_bool_spec x u). pose proof (Qle_bool_spec x m).
    destruct (Qle_bool x u), (Qle_bool x m); lra.
Qed.

Theorem lower_is_sufmin l : Forall2 Qeq (lowerQ l) (sufmin l).
Proof.
  unfold lowerQ. eapply Forall2_Qeq_trans; [|apply rev_cummin_rev].
  apply Forall2_rev. eapply Forall2_Qeq_trans. apply om_upper. apply cummin_ext. apply map_om_om.
Qed.

(* properties of the suffix minimum *)
Lemma sufmin_nondec : forall l, nondec (sufmin l).
Proof.
  induction l as [|x t IH]. simpl; auto.
  rewrite sufmin_cons. destruct (sufmin t) as [|m r]. simpl; auto.
  apply nondec_cons. split. apply qmin_lb. exact IH.
Qed.
Lemma sufmin_brackets : forall l, Forall2 Qle (sufmin l) l.
Proof.
  induction l as [|x t IH]. constructor.
  rewrite sufmin_cons. destruct (sufmin t) as [|m r]; inversion IH; subst; constructor; auto. lra. apply qmin_lb.
Qed.
Lemma sufmin_maximal : forall l g, nondec g -> Forall2 Qle g l -> Forall2 Qle g (sufmin l).
Proof.
  induction l as [|x t IH]; intros g Hs H; inversion H; subst. constructor.
  rewrite sufmin_cons. specialize (IH l (nondec_tail _ _ Hs) H4).
  destruct (sufmin t) as [|m r]; inversion IH; subst; constructor; auto.
  apply qmin_glb; auto. apply nondec_cons in Hs. destruct Hs. lra.
Qed.
Lemma sufmin_fix : forall l, nondec l -> sufmin l = l.
Proof.
  induction l as [|x t IH]; intro H. reflexivity.
  rewrite sufmin_cons, (IH (nondec_tail _ _ H)). destruct t as [|y t']. reflexivity.
  apply nondec_cons in H. destruct H as [Hxy _]. unfold qmin. rewrite (Qle_bool_true x y Hxy). reflexivity.
Qed.

(* transfer along pointwise Qeq *)
Lemma nondec_ext a b : Forall2 Qeq a b -> nondec a -> nondec b.
Proof.
  intro H. induction H as [|x y l l' Hxy Hl IH]; auto. intro Hn.
  destruct Hl as [|x' y' l2 l2' Hxy' Hl']. simpl; auto.
  apply nondec_cons in Hn. destruct Hn as [Hab Hn]. apply nondec_cons. split. lra. apply IH. exact Hn.
Qed.
Lemma Forall2_Qle_ext_l a a' b : Forall2 Qeq a a' -> Forall2 Qle a b -> Forall2 Qle a' b.
Proof. intro H. revert b. induction H; intros b' H'; inversion H'; subst; constructor; auto. lra. Qed.
Lemma Forall2_Qle_ext_r a b b' : Forall2 Qeq b b' -> Forall2 Qle a b -> Forall2 Qle a b'.
Proof. intro H. revert a. induction H; intros a' H'; inversion H'; subst; constructor; auto. lra. Qed.

Theorem lower_monotone l : nondec (lowerQ l).
Proof. apply (nondec_ext (sufmin l)). apply Forall2_Qeq_sym, lower_is_sufmin. apply sufmin_nondec. Qed.
Theorem lower_brackets l : Forall2 Qle (lowerQ l) l.
Proof. apply (Forall2_Qle_ext_l (sufmin l)). apply Forall2_Qeq_sym, lower_is_sufmin. apply sufmin_brackets. Qed.
(* greatest non-decreasing minorant *)
Theorem lower_maximal l g : nondec g -> Forall2 Qle g l -> Forall2 Qle g (lowerQ l).
Proof. intros Hs H. apply (Forall2_Qle_ext_r _ (sufmin l)). apply Forall2_Qeq_sym, lower_is_sufmin. apply sufmin_maximal; auto. Qed.
Theorem lower_fixpoint l : nondec l -> Forall2 Qeq (lowerQ l) l.
Proof. intro H. rewrite <- (sufmin_fix l H) at 2. apply lower_is_sufmin. Qed.

(* ------------------------------------------------------------------------------------------ *)
(* lines with NaN: NaN positions are kept, the other positions carry the envelope of the        *)
(* NaN-free subsequence                                                                         *)
(* ------------------------------------------------------------------------------------------ *)
Definition fin_or_nan (v : xv) : Prop := match v with XInf _ => False | _ => True end.

Lemma mask_like_cons v t a r : mask_like (v :: t) (a :: r) = (if xisnan v then XNaN else a) :: mask_like t r.
Proof. reflexivity. Qed.
Lemma fmax_acc_length : forall l acc, length (fmax_acc acc l) = length l.
Proof. induction l; intro acc; simpl; auto. Qed.

Lemma isnan_mask_like : forall l r, length r = length l -> (forall i, nth i r XNaN <> XNaN \/ nth i l XNaN = XNaN) ->
  map xisnan (mask_like l r) = map xisnan l.
Proof.
  induction l as [|v t IH]; intros [|a r] H Hn; try discriminate; try reflexivity.
  rewrite mask_like_cons. cbn [map]. f_equal.
  - destruct v; simpl; auto; destruct (Hn O) as [N|N]; simpl in N; try discriminate; destruct a; simpl; congruence.
  - apply IH. simpl in H; congruence. intro i. apply (Hn (S i)).
Qed.

Lemma xfmax_notnan acc v : v <> XNaN -> xfmax acc v <> XNaN.
Proof. destruct acc, v; simpl; try congruence; intros _; try destruct (Qle_bool _ _); try destruct pos; try destruct pos0; simpl; congruence. Qed.
Lemma fmax_acc_notnan : forall l acc i, nth i l XNaN <> XNaN -> nth i (fmax_acc acc l) XNaN <> XNaN.
Proof.
  induction l as [|v t IH]; intros acc i H. destruct i; simpl in H; congruence.
  destruct i; cbn [fmax_acc nth] in *. apply xfmax_notnan; auto. apply IH; auto.
Qed.

Theorem env_upper_keeps_nan l : map xisnan (env_upper l) = map xisnan l.
Proof.
  unfold env_upper, cummax. apply isnan_mask_like. apply fmax_acc_length.
  intro i. destruct (nth i l XNaN) eqn:E; auto; left; apply fmax_acc_notnan; rewrite E; discriminate.
Qed.

Lemma fin_of_cons v t : fin_of (v :: t) = (match v with XFin q => [q] | _ => [] end) ++ fin_of t.
Proof. reflexivity. Qed.

Lemma upper_skip_from : forall l m, Forall fin_or_nan l ->
  fin_of (mask_like l (fmax_acc (XFin m) l)) = runmax m (fin_of l).
Proof.
  induction l as [|v t IH]; intros m H. reflexivity.
  inversion H; subst. cbn [fmax_acc]. cbv zeta. rewrite mask_like_cons.
  destruct v as [|x|b]; [| |contradiction].
  - change (xfmax (XFin m) XNaN) with (XFin m). cbn [xisnan]. rewrite !fin_of_cons. cbn [app]. apply IH; auto.
  - rewrite xfmax_fin. cbn [xisnan]. rewrite !fin_of_cons. cbn [app runmax]. cbv zeta. f_equal. apply IH; auto.
Qed.
Theorem env_upper_skips_nan l : Forall fin_or_nan l -> fin_of (env_upper l) = upperQ (fin_of l).
Proof.
  unfold env_upper, cummax. induction l as [|v t IH]; intro H. reflexivity.
  inversion H; subst. cbn [fmax_acc]. cbv zeta. rewrite mask_like_cons.
  destruct v as [|x|b]; [| |contradiction].
  - change (xfmax XNaN XNaN) with XNaN. cbn [xisnan]. rewrite !fin_of_cons. cbn [app]. apply IH; auto.
  - change (xfmax XNaN (XFin x)) with (XFin x). cbn [xisnan]. rewrite !fin_of_cons. cbn [app upperQ]. f_equal.
    apply upper_skip_from; auto.
Qed.

(* the lower envelope *)
Lemma mask_like_length l r : length r = length l -> length (mask_like l r) = length l.
Proof. intro H. unfold mask_like. rewrite map_length, combine_length, H. apply Nat.min_id. Qed.
Lemma mask_like_app a a' b b' : length a = length b -> mask_like (a ++ a') (b ++ b') = mask_like a b ++ mask_like a' b'.
Proof.
  revert b. induction a as [|v t IH]; intros [|x r] H; try discriminate. reflexivity.
  cbn [app]. rewrite !mask_like_cons. cbn [app]. f_equal. apply IH. simpl in H; congruence.
Qed.
Lemma mask_like_rev : forall a b, length a = length b -> mask_like (rev a) (rev b) = rev (mask_like a b).
Proof.
  induction a as [|v t IH]; intros [|x r] H; try discriminate. reflexivity.
  cbn [rev]. rewrite mask_like_cons. cbn [rev]. rewrite mask_like_app by (rewrite !rev_length; simpl in H; congruence).
  rewrite IH by (simpl in H; congruence). reflexivity.
Qed.
Lemma mask_like_one_minus_r : forall a b, mask_like a (one_minus b) = one_minus (mask_like a b).
Proof.
  induction a as [|v t IH]; intros [|x r]; try reflexivity.
  unfold one_minus in *. cbn [map]. rewrite !mask_like_cons. cbn [map]. rewrite IH. f_equal. destruct v; reflexivity.
Qed.
Lemma mask_like_one_minus_l : forall a b, mask_like (one_minus a) b = mask_like a b.
Proof.
  induction a as [|v t IH]; intros [|x r]; try reflexivity.
  unfold one_minus in *. cbn [map]. rewrite !mask_like_cons, IH. f_equal. destruct v as [|q|[|]]; reflexivity.
Qed.
Lemma fin_of_app a b : fin_of (a ++ b) = fin_of a ++ fin_of b.
Proof. unfold fin_of. apply flat_map_app. Qed.
Lemma fin_of_rev l : fin_of (rev l) = rev (fin_of l).
Proof.
  induction l as [|v t IH]. reflexivity. cbn [rev]. rewrite fin_of_app, IH.
  rewrite (fin_of_cons v t). destruct v; cbn [app]; unfold fin_of at 2; cbn [flat_map app]; rewrite ?app_nil_r; reflexivity.
Qed.
Lemma fin_of_one_minus l : Forall fin_or_nan l -> fin_of (one_minus l) = map om (fin_of l).
Proof.
  induction 1 as [|v t Hv Ht IH]. reflexivity. unfold one_minus in *. cbn [map]. rewrite !fin_of_cons, IH.
  destruct v as [|q|b]; [reflexivity|reflexivity|contradiction].
Qed.
Lemma fin_or_nan_rev l : Forall fin_or_nan l -> Forall fin_or_nan (rev l).
Proof. intro H. apply Forall_forall. intros x Hx. apply in_rev in Hx. revert x Hx. apply Forall_forall. exact H. Qed.
Lemma fin_or_nan_one_minus l : Forall fin_or_nan l -> Forall fin_or_nan (one_minus l).
Proof. induction 1; unfold one_minus in *; simpl; constructor; auto. destruct x; simpl; auto. Qed.
Lemma fin_or_nan_fmax_acc : forall l acc, fin_or_nan acc -> Forall fin_or_nan l -> Forall fin_or_nan (fmax_acc acc l).
Proof.
  induction l as [|v t IH]; intros acc Ha H. constructor. inversion H; subst. cbn [fmax_acc]. cbv zeta.
  assert (fin_or_nan (xfmax acc v)).
  { destruct acc, v; simpl in *; auto; try contradiction. destruct (Qle_bool q q0); simpl; auto. }
  constructor; auto.
Qed.
Lemma fin_or_nan_mask_like : forall l r, Forall fin_or_nan r -> Forall fin_or_nan (mask_like l r).
Proof.
  induction l as [|v t IH]; intros [|a r] H; try (constructor; fail). rewrite mask_like_cons. inversion H; subst.
  constructor; auto. destruct (xisnan v); simpl; auto.
Qed.

Theorem env_lower_skips_nan l : Forall fin_or_nan l -> fin_of (env_lower l) = lowerQ (fin_of l).
Proof.
  intro H. unfold env_lower, lowerQ.
  set (l' := one_minus (rev l)). set (c := cummax l').
  assert (Lc : length c = length l') by (unfold c, cummax; apply fmax_acc_length).
  assert (Ll : length l' = length (rev l)) by (unfold l', one_minus; apply map_length).
  assert (E : mask_like l (rev (one_minus c)) = rev (one_minus (mask_like l' c))).
  { rewrite <- (rev_involutive l) at 1. rewrite mask_like_rev.
    - rewrite mask_like_one_minus_r. unfold l'. rewrite mask_like_one_minus_l. reflexivity.
    - unfold one_minus. rewrite map_length. congruence. }
  rewrite E, fin_of_rev, fin_of_one_minus.
  - f_equal. f_equal. pose proof (env_upper_skips_nan l') as U. unfold env_upper in U. fold c in U. rewrite U.
    + unfold l'. rewrite fin_of_one_minus, fin_of_rev. reflexivity. apply fin_or_nan_rev; auto.
    + unfold l'. apply fin_or_nan_one_minus, fin_or_nan_rev; auto.
  - apply fin_or_nan_mask_like. unfold c, cummax. apply fin_or_nan_fmax_acc; simpl; auto.
    unfold l'. apply fin_or_nan_one_minus, fin_or_nan_rev; auto.
Qed.
Theorem env_lower_keeps_nan l : map xisnan (env_lower l) = map xisnan l.
Proof.
  unfold env_lower. set (l' := one_minus (rev l)). set (c := cummax l').
  assert (Lc : length c = length l') by (unfold c, cummax; apply fmax_acc_length).
  assert (Ll : length l' = length (rev l)) by (unfold l', one_minus; apply map_length).
  assert (E : mask_like l (rev (one_minus c)) = rev (one_minus (mask_like l' c))).
  { rewrite <- (rev_involutive l) at 1. rewrite mask_like_rev.
    - rewrite mask_like_one_minus_r. unfold l'. rewrite mask_like_one_minus_l. reflexivity.
    - unfold one_minus. rewrite map_length. congruence. }
  rewrite E. pose proof (env_upper_keeps_nan l') as U. unfold env_upper in U. fold c in U.
  rewrite map_rev. unfold one_minus at 1. rewrite map_map.
  assert (X : map (fun x => xisnan (xsub X1 x)) (mask_like l' c) = map xisnan (mask_like l' c)).
  { apply map_ext. intros [|q|[|]]; reflexivity. }
  rewrite X, U. unfold l', one_minus. rewrite map_map.
  assert (Y : map (fun x => xisnan (xsub X1 x)) (rev l) = map xisnan (rev l)).
  { apply map_ext. intros [|q|[|]]; reflexivity. }
  rewrite Y, map_rev, rev_involutive. reflexivity.
Qed.

(* ------------------------------------------------------------------------------------------ *)
(* fill_cdf                                                                                     *)
(* ------------------------------------------------------------------------------------------ *)
Lemma fill_blank_when_too_few m mn ts ys :
  (nancount ys < mn)%nat -> fill_line m mn ts ys = blank ys.
Proof. intro H. unfold fill_line. apply Nat.ltb_lt in H. rewrite H. reflexivity. Qed.

(* "keeps": a given (non-NaN) ordinate is returned unchanged *)
Definition keeps (y o : xv) : Prop := y = XNaN \/ o =x= y.
Lemma keeps_compose a b c : Forall2 keeps a b -> Forall2 keeps b c -> Forall2 keeps a c.
Proof.
  intro H. revert c. induction H as [|x y l l' Hxy Hl IH]; intros c H'; inversion H'; subst; constructor; auto.
  destruct Hxy as [E|E]; [left; auto|]. destruct H1 as [E'|E'].
  - subst. destruct x; simpl in E; try tauto. left; auto.
  - right. rewrite E'. exact E.
Qed.
Lemma ffill_from_keeps : forall ys last, Forall2 keeps ys (ffill_from last ys).
Proof.
  induction ys as [|y t IH]; intro last; simpl; constructor; auto.
  destruct y; [left; auto | right; reflexivity | right; reflexivity].
Qed.
Lemma keeps_rev a b : Forall2 keeps a b -> Forall2 keeps (rev a) (rev b).
Proof. apply Forall2_rev. Qed.
Lemma bfill_keeps ys : Forall2 keeps ys (bfill ys).
Proof. unfold bfill. rewrite <- (rev_involutive ys) at 1. apply keeps_rev. apply ffill_from_keeps. Qed.
Lemma fillna_keeps d : forall ys, Forall2 keeps ys (map (fun v => xfillna v d) ys).
Proof. induction ys as [|y t IH]; simpl; constructor; auto. destruct y; [left; auto | right; reflexivity | right; reflexivity]. Qed.

Lemma clip01_in01 v : in01 v = true -> clip01 v =x= v.
Proof.
  destruct v as [|q|b]; simpl; auto.
  - unfold clip01, xclip_max, xclip_min, xmax, xmin, X0, X1. cbn [xle in01]. intro H. apply andb_prop in H. destruct H as [H0 H1].
    apply Qle_bool_iff in H0, H1. pose proof (Qle_bool_spec q 0) as A. destruct (Qle_bool q 0).
    + cbn [xle]. rewrite (Qle_bool_true 0 1) by lra. simpl. lra.
    + cbn [xle]. rewrite (Qle_bool_true q 1 H1). reflexivity.
  - destruct b; simpl; discriminate.
Qed.

Theorem fill_keeps_given m mn ts ys :
  length ts = length ys -> (mn <= nancount ys)%nat -> forallb in01 ys = true ->
  Forall2 keeps ys (fill_line m mn ts ys).
Proof.
  intros Hl Hc Hb. unfold fill_line. apply Nat.ltb_ge in Hc. rewrite Hc.
  destruct m.
  - (* linear *)
    unfold fill_linear. generalize (known ts ys) as k. intro k. clear Hc. revert ts Hl Hb.
    induction ys as [|y t IH]; intros [|t0 ts] Hl Hb; try discriminate; simpl; constructor.
    + simpl in Hb. apply andb_prop in Hb. destruct Hb as [Hy _].
      destruct y; [left; auto | right; apply clip01_in01; auto | right; apply clip01_in01; auto].
    + apply IH. simpl in Hl; congruence. simpl in Hb. apply andb_prop in Hb. tauto.
  - eapply keeps_compose. apply ffill_from_keeps. apply fillna_keeps.
  - eapply keeps_compose. apply ffill_from_keeps. apply bfill_keeps.
  - eapply keeps_compose. apply bfill_keeps. apply ffill_from_keeps.
Qed.

(* every filled ordinate is a number in [0,1] *)
Definition good01 (v : xv) : Prop := exists q, v = XFin q /\ 0 <= q <= 1.
Definition nn (v : xv) : Prop := v <> XNaN.
Definition ok01 (v : xv) : Prop := in01 v = true.

Lemma good01_intro v : ok01 v -> nn v -> good01 v.
Proof.
  unfold ok01, nn. destruct v as [|q|b]; intros H N; [congruence| |destruct b; simpl in H; discriminate].
  exists q. split; auto. cbn [in01 xle X0 X1] in H. apply andb_prop in H. destruct H as [A B]. apply Qle_bool_iff in A, B. lra.
Qed.
Lemma ffill_from_ok01 : forall ys acc, ok01 acc -> Forall ok01 ys -> Forall ok01 (ffill_from acc ys).
Proof.
  induction ys as [|y t IH]; intros acc Ha H; simpl; constructor; inversion H; subst.
  - destruct y; simpl; auto.
  - apply IH; auto. destruct y; simpl; auto.
Qed.
Lemma ffill_from_nn : forall ys acc, nn acc -> Forall nn (ffill_from acc ys).
Proof.
  unfold nn. induction ys as [|y t IH]; intros acc Ha; simpl; constructor.
  - destruct y; simpl; auto; discriminate.
  - apply IH. destruct y; simpl; auto; discriminate.
Qed.
Lemma ffill_nn_hd b : nn (hd XNaN b) -> Forall nn (ffill b).
Proof.
  destruct b as [|x r]; intro H. constructor. unfold ffill. cbn [ffill_from hd] in *. cbv zeta.
  assert (E : xfillna x XNaN = x) by (destruct x; reflexivity). rewrite E. constructor; auto. apply ffill_from_nn; auto.
Qed.
Lemma Forall_rev' {A} (P : A -> Prop) l : Forall P l -> Forall P (rev l).
Proof. intro H. apply Forall_forall. intros x Hx. apply in_rev in Hx. revert x Hx. apply Forall_forall. exact H. Qed.
Lemma bfill_nn_last a : nn (last a XNaN) -> Forall nn (bfill a).
Proof. intro H. unfold bfill. apply Forall_rev'. apply ffill_nn_hd. rewrite <- last_hd_rev. exact H. Qed.
Lemma bfill_ok01 a : Forall ok01 a -> Forall ok01 (bfill a).
Proof. intro H. unfold bfill. apply Forall_rev'. apply ffill_from_ok01. reflexivity. apply Forall_rev'; auto. Qed.

Lemma nancount_cons y t : nancount (y :: t) = ((if xnotnull y then 1 else 0) + nancount t)%nat.
Proof. unfold nancount, valids. simpl. unfold xvalid. destruct (xnotnull y); reflexivity. Qed.
Lemma ffill_from_last_nn : forall ys acc, ys <> [] -> (1 <= nancount ys)%nat \/ nn acc -> nn (last (ffill_from acc ys) XNaN).
Proof.
  induction ys as [|y t IH]; intros acc Hne H. congruence.
  cbn [ffill_from]. cbv zeta. destruct t as [|y' t'].
  - simpl. destruct H as [H|H].
    + rewrite nancount_cons in H. unfold nn, nancount in *. destruct y; simpl in *; try discriminate; lia.
    + unfold nn in *. destruct y; simpl; auto; discriminate.
  - change (last (xfillna y acc :: ffill_from (xfillna y acc) (y' :: t')) XNaN) with (last (ffill_from (xfillna y acc) (y' :: t')) XNaN).
    cbn [ffill_from]. cbv zeta.
    change (last (xfillna y' (xfillna y acc) :: ffill_from (xfillna y' (xfillna y acc)) t') XNaN)
      with (last (ffill_from (xfillna y acc) (y' :: t')) XNaN).
    apply IH. discriminate.
    destruct H as [H|H].
    + rewrite nancount_cons in H. unfold nn. destruct y; simpl in *; [left; lia | right; discriminate | right; discriminate].
    + right. unfold nn in *. destruct y; simpl; auto; discriminate.
Qed.
Lemma nancount_rev l : nancount (rev l) = nancount l.
Proof.
  unfold nancount, valids. induction l as [|x t IH]. reflexivity.
  cbn [rev]. rewrite filter_app, app_length, IH. simpl. destruct (xvalid x); simpl; lia.
Qed.
Lemma nancount_pos_nonempty l : (1 <= nancount l)%nat -> l <> [].
Proof. destruct l; simpl. unfold nancount; simpl; lia. discriminate. Qed.

(* linear: interpolation through >= 2 known points always yields a number; clip puts it in [0,1] *)
Lemma interp_known_fin : forall k x, (2 <= length k)%nat -> exists q, interp_known k x = XFin q.
Proof.
  induction k as [|[x0 y0] k IH]; intros x H. simpl in H; lia.
  destruct k as [|[x1 y1] k]. simpl in H; lia.
  cbn [interp_known]. destruct k as [|p k]. eexists; reflexivity.
  destruct (Qle_bool x x1). eexists; reflexivity. apply IH. simpl; lia.
Qed.
Lemma clip01_good q : good01 (clip01 (XFin q)).
Proof.
  unfold clip01, xclip_max, xclip_min, xmax, xmin, X0, X1. cbn [xle].
  pose proof (Qle_bool_spec q 0) as A. destruct (Qle_bool q 0).
  - cbn [xle]. rewrite (Qle_bool_true 0 1) by lra. exists 0. split; auto. lra.
  - cbn [xle]. pose proof (Qle_bool_spec q 1) as B. destruct (Qle_bool q 1).
    + exists q. split; auto. lra.
    + exists 1. split; auto. lra.
Qed.
Lemma known_length : forall ts ys, length ts = length ys -> Forall ok01 ys -> length (known ts ys) = nancount ys.
Proof.
  induction ts as [|t0 ts IH]; intros [|y ys] Hl H; try discriminate. reflexivity.
  inversion H; subst. unfold known in *. cbn [combine flat_map snd fst]. rewrite app_length, nancount_cons.
  rewrite IH by (simpl in Hl; auto; congruence).
  destruct y as [|q|b]; [reflexivity | reflexivity | destruct b; unfold ok01 in H2; simpl in H2; discriminate].
Qed.

Theorem fill_range01 m mn ts ys :
  length ts = length ys -> (mn <= nancount ys)%nat -> (match m with FLinear => 2 | _ => 1 end <= mn)%nat ->
  forallb in01 ys = true -> Forall good01 (fill_line m mn ts ys).
Proof.
  intros Hl Hc Hm Hb. unfold fill_line. pose proof Hc as Hc'. apply Nat.ltb_ge in Hc'. rewrite Hc'.
  assert (Hok : Forall ok01 ys) by (apply Forall_forall; intros x Hx; apply (proj1 (forallb_forall _ _) Hb x Hx)).
  assert (Hgood : forall l, Forall ok01 l -> Forall nn l -> Forall good01 l).
  { intros l A B. apply Forall_forall. intros x Hx. apply good01_intro; [revert x Hx; apply Forall_forall; auto | revert x Hx; apply Forall_forall; auto]. }
  destruct m.
  - (* linear *)
    unfold fill_linear.
    assert (Hk : (2 <= length (known ts ys))%nat) by (rewrite known_length; auto; lia).
    revert Hk. generalize (known ts ys) as k. intros k Hk. clear Hc Hc' Hm Hb. revert ts Hl.
    induction Hok as [|y t Hy Ht IH]; intros [|t0 ts] Hl; try discriminate; simpl; constructor.
    + destruct y as [|q|b]; [| apply clip01_good | destruct b; unfold ok01 in Hy; simpl in Hy; discriminate].
      destruct (interp_known_fin k t0 Hk) as [q E]. rewrite E. apply clip01_good.
    + apply IH. simpl in Hl; congruence.
  - (* step *)
    apply Hgood.
    + apply Forall_forall. intros x Hx. apply in_map_iff in Hx. destruct Hx as [v [E Hv]]. subst.
      assert (ok01 v) by (revert v Hv; apply Forall_forall; apply ffill_from_ok01; [reflexivity | auto]).
      unfold ok01 in *. destruct v; simpl; auto.
    + unfold nn. apply Forall_forall. intros x Hx. apply in_map_iff in Hx. destruct Hx as [v [E Hv]]. subst. destruct v; simpl; discriminate.
  - (* forward: bfill (ffill ys) *)
    apply Hgood.
    + apply bfill_ok01. apply ffill_from_ok01; [reflexivity | auto].
    + apply bfill_nn_last. apply ffill_from_last_nn. apply nancount_pos_nonempty; lia. left; lia.
  - (* backward: ffill (bfill ys) *)
    apply Hgood.
    + apply ffill_from_ok01. reflexivity. apply bfill_ok01; auto.
    + apply ffill_nn_hd. unfold bfill. rewrite <- last_hd_rev. apply ffill_from_last_nn.
      * intro E. apply (f_equal (@length xv)) in E. rewrite rev_length in E. simpl in E.
        assert (ys <> []) by (apply nancount_pos_nonempty; lia). destruct ys; simpl in E; congruence.
      * left. rewrite nancount_rev. lia.
Qed.

(* ---- characterisation of the fill primitives ---- *)
Definition given (v : xv) : bool := xnotnull v.
(* the last given ordinate among positions 0..i, the first given ordinate among positions i.. (NaN if none) *)
Definition last_given (ys : list xv) (i : nat) : xv := last (filter given (firstn (S i) ys)) XNaN.
Definition next_given (ys : list xv) (i : nat) : xv := hd XNaN (filter given (skipn i ys)).

Lemma filter_given_nn l : Forall (fun v => v <> XNaN) (filter given l).
Proof. apply Forall_forall. intros x Hx. apply filter_In in Hx. destruct Hx as [_ H]. destruct x; simpl in H; try discriminate; intro E; discriminate. Qed.
Lemma last_nn l : l <> [] -> Forall (fun v => v <> XNaN) l -> last l XNaN <> XNaN.
Proof.
  induction l as [|a t IH]; intros N H. congruence. inversion H; subst. destruct t as [|b t]. simpl; auto.
  change (last (a :: b :: t) XNaN) with (last (b :: t) XNaN). apply IH; auto. discriminate.
Qed.

Lemma ffill_from_char : forall ys acc i, (i < length ys)%nat ->
  nth i (ffill_from acc ys) XNaN = xfillna (last_given ys i) acc.
Proof.
  induction ys as [|y t IH]; intros acc i Hi. simpl in Hi; lia.
  destruct i as [|i].
  - unfold last_given. cbn [firstn filter ffill_from nth]. destruct y; reflexivity.
  - cbn [ffill_from nth]. cbv zeta. rewrite IH by (simpl in Hi; lia).
    unfold last_given. change (firstn (S (S i)) (y :: t)) with (y :: firstn (S i) t). cbn [filter].
    set (L := filter given (firstn (S i) t)).
    destruct (given y) eqn:G.
    + assert (Hy : xfillna y acc = y) by (destruct y; simpl in *; auto; discriminate).
      rewrite Hy. destruct L as [|b L'] eqn:EL. simpl. destruct y; simpl in *; auto; discriminate.
      change (last (y :: b :: L') XNaN) with (last (b :: L') XNaN).
      assert (N : last (b :: L') XNaN <> XNaN).
      { apply last_nn. discriminate. rewrite <- EL. apply filter_given_nn. }
      destruct (last (b :: L') XNaN); simpl; auto; congruence.
    + assert (Hy : xfillna y acc = acc) by (destruct y; simpl in *; auto; discriminate). rewrite Hy. reflexivity.
Qed.
Theorem ffill_char ys i : (i < length ys)%nat -> nth i (ffill ys) XNaN = last_given ys i.
Proof. intro H. unfold ffill. rewrite ffill_from_char by auto. destruct (last_given ys i); reflexivity. Qed.

Lemma filter_rev {A} (f : A -> bool) l : filter f (rev l) = rev (filter f l).
Proof. induction l as [|a t IH]. reflexivity. cbn [rev filter]. rewrite filter_app, IH. simpl. destruct (f a); simpl; auto. rewrite app_nil_r. reflexivity. Qed.
Lemma ffill_length ys : length (ffill ys) = length ys.
Proof. unfold ffill. generalize XNaN. induction ys; intro a0; simpl; auto. Qed.

Theorem bfill_char ys i : (i < length ys)%nat -> nth i (bfill ys) XNaN = next_given ys i.
Proof.
  intro H. unfold bfill. rewrite rev_nth by (rewrite ffill_length, rev_length; auto).
  rewrite ffill_length, rev_length. rewrite ffill_char by (rewrite rev_length; lia).
  unfold last_given, next_given. rewrite firstn_rev.
  replace (length ys - S (length ys - S i))%nat with i by lia.
  rewrite filter_rev. rewrite last_hd_rev, rev_involutive. reflexivity.
Qed.

(* ---- linear: interp_known through sorted known points ---- *)
Fixpoint xs_increasing (k : list (Q * Q)) : Prop :=
  match k with a :: ((b :: _) as t) => fst a < fst b /\ xs_increasing t | _ => True end.

(* left of (or at) the first known point: the first segment, extended *)
Theorem interp_known_left x0 y0 x1 y1 k2 x : x <= x1 ->
  interp_known ((x0, y0) :: (x1, y1) :: k2) x = XFin (line x0 y0 x1 y1 x).
Proof. intro H. cbn [interp_known]. destruct k2; auto. rewrite (Qle_bool_true x x1 H). reflexivity. Qed.

Lemma line_at_right x0 y0 x1 y1 : x0 < x1 -> line x0 y0 x1 y1 x1 == y1.
Proof. intro H. unfold line. field. lra. Qed.
Lemma line_at_left x0 y0 x1 y1 : x0 < x1 -> line x0 y0 x1 y1 x0 == y0.
Proof. intro H. unfold line. field. lra. Qed.
Lemma line_ext x0 y0 x1 y1 x x' : x == x' -> line x0 y0 x1 y1 x == line x0 y0 x1 y1 x'.
Proof. intro H. unfold line. rewrite H. reflexivity. Qed.

Lemma interp_known_cons2 p q rest x : rest <> [] ->
  interp_known (p :: q :: rest) x =
  if Qle_bool x (fst q) then XFin (line (fst p) (snd p) (fst q) (snd q) x) else interp_known (q :: rest) x.
Proof. destruct p, q, rest; [congruence | reflexivity]. Qed.

(* between two consecutive known points: the segment through them *)
Theorem interp_known_between : forall k1 xa ya xb yb k2 x,
  xs_increasing (k1 ++ (xa, ya) :: (xb, yb) :: k2) -> xa <= x <= xb ->
  interp_known (k1 ++ (xa, ya) :: (xb, yb) :: k2) x =x= XFin (line xa ya xb yb x).
Proof.
  induction k1 as [|[xp yp] k1 IH]; intros xa ya xb yb k2 x Hs Hx.
  - cbn [app]. rewrite interp_known_left by lra. reflexivity.
  - cbn [app] in *. destruct k1 as [|[xq yq] k1'].
    + cbn [app] in *. destruct Hs as [Hpa [Hab Hs]]. cbn [fst] in *.
      cbn [interp_known]. pose proof (Qle_bool_spec x xa) as C. destruct (Qle_bool x xa).
      * (* x = xa: both segments pass through (xa, ya) *)
        assert (E : x == xa) by lra. simpl.
        rewrite (line_ext _ _ _ _ x xa E), (line_ext xa ya xb yb x xa E), line_at_right, line_at_left by lra. reflexivity.
      * change (interp_known ((xa, ya) :: (xb, yb) :: k2) x =x= XFin (line xa ya xb yb x)).
        rewrite interp_known_left by lra. reflexivity.
    + cbn [app] in *. destruct Hs as [Hpq Hs]. cbn [fst] in *.
      assert (Hq : xq <= xa).
      { clear IH Hx. revert xq yq Hs Hpq. induction k1' as [|[xr yr] k1'' IH2]; intros xq yq Hs Hpq.
        - cbn [app] in Hs. destruct Hs as [H _]. cbn [fst] in H. lra.
        - cbn [app] in Hs. destruct Hs as [H Hs]. cbn [fst] in H. specialize (IH2 xr yr Hs). lra. }
      rewrite interp_known_cons2 by (destruct k1'; discriminate). cbn [fst snd].
      pose proof (Qle_bool_spec x xq) as C. destruct (Qle_bool x xq).
      * (* x <= xq <= xa <= x: only possible when xq = xa = x, i.e. k1' is empty up to equality of abscissae *)
        assert (Ex : x == xq) by lra. assert (Ea : xq == xa) by lra.
        destruct k1' as [|[xr yr] k1''].
        -- cbn [app] in Hs. destruct Hs as [H _]. cbn [fst] in H. lra.
        -- cbn [app] in Hs. destruct Hs as [H Hs']. cbn [fst] in H.
           assert (xr <= xa).
           { clear - Hs'. revert xr yr Hs'. induction k1'' as [|[xs ys] k IH3]; intros xr yr Hs'.
             - cbn [app] in Hs'. destruct Hs' as [H _]. cbn [fst] in H. lra.
             - cbn [app] in Hs'. destruct Hs' as [H Hs']. cbn [fst] in H. specialize (IH3 xs ys Hs'). lra. }
           lra.
      * apply (IH xa ya xb yb k2 x); auto.
Qed.

(* right of (or at) the last known point: the last segment, extended *)
Theorem interp_known_right : forall k1 xa ya xb yb x,
  xs_increasing (k1 ++ [(xa, ya); (xb, yb)]) -> xb <= x ->
  interp_known (k1 ++ [(xa, ya); (xb, yb)]) x =x= XFin (line xa ya xb yb x).
Proof.
  induction k1 as [|[xp yp] k1 IH]; intros xa ya xb yb x Hs Hx.
  - reflexivity.
  - cbn [app] in *. destruct k1 as [|[xq yq] k1'].
    + cbn [app] in *. destruct Hs as [Hpa [Hab _]]. cbn [fst] in *.
      rewrite interp_known_cons2 by discriminate. cbn [fst snd].
      pose proof (Qle_bool_spec x xa) as C. destruct (Qle_bool x xa). lra. reflexivity.
    + cbn [app] in *. destruct Hs as [Hpq Hs]. cbn [fst] in *.
      assert (Hq : xq < xb).
      { clear IH Hx. revert xq yq Hs Hpq. induction k1' as [|[xr yr] k1'' IH2]; intros xq yq Hs Hpq.
        - cbn [app] in Hs. destruct Hs as [H [H' _]]. cbn [fst] in *. lra.
        - cbn [app] in Hs. destruct Hs as [H Hs]. cbn [fst] in H. specialize (IH2 xr yr Hs). lra. }
      rewrite interp_known_cons2 by (destruct k1'; discriminate). cbn [fst snd].
      pose proof (Qle_bool_spec x xq) as C. destruct (Qle_bool x xq). lra.
      apply (IH xa ya xb yb x); auto.
Qed.

(* the linear method, position by position *)
Theorem fill_linear_char ts ys i t : length ts = length ys -> nth_error ts i = Some t ->
  nth i (fill_linear ts ys) XNaN =
  clip01 (match nth i ys XNaN with XNaN => interp_known (known ts ys) t | v => v end).
Proof.
  unfold fill_linear. generalize (known ts ys) as k. intro k. revert ys i.
  induction ts as [|t0 ts IH]; intros [|y ys] i Hl Hi; try discriminate; destruct i as [|i]; try discriminate.
  - simpl in Hi. inversion Hi; subst. reflexivity.
  - simpl in Hi. cbn [combine map nth]. apply IH; auto.
Qed.

(* the known points of a line on an increasing grid have increasing abscissae *)
Lemma known_cons t0 ts y ys : known (t0 :: ts) (y :: ys) = (match y with XFin q => [(t0, q)] | _ => [] end) ++ known ts ys.
Proof. reflexivity. Qed.
Lemma known_above : forall ts ys t0 p, increasing (t0 :: ts) = true -> In p (known ts ys) -> t0 < fst p.
Proof.
  induction ts as [|t1 ts IH]; intros ys t0 p Hi Hp. destruct ys; destruct Hp.
  destruct ys as [|y ys]. destruct Hp.
  rewrite known_cons in Hp. simpl in Hi. apply andb_prop in Hi. destruct Hi as [H01 Hi].
  pose proof (Qltb_spec t0 t1) as S. rewrite H01 in S.
  apply in_app_or in Hp. destruct Hp as [Hp|Hp].
  - destruct y; simpl in Hp; try tauto. destruct Hp as [Hp|[]]. subst. simpl. exact S.
  - specialize (IH ys t1 p Hi Hp). lra.
Qed.
Lemma xs_increasing_cons p k : (forall q, In q k -> fst p < fst q) -> xs_increasing k -> xs_increasing (p :: k).
Proof. destruct k as [|q k]; intros H Hk; simpl; auto. split; auto. apply H. left; auto. Qed.
Theorem known_increasing : forall ts ys, increasing ts = true -> xs_increasing (known ts ys).
Proof.
  induction ts as [|t0 ts IH]; intros ys Hi. destruct ys; simpl; auto.
  destruct ys as [|y ys]. simpl; auto.
  rewrite known_cons.
  assert (Hi' : increasing ts = true) by (destruct ts; [reflexivity | simpl in Hi; apply andb_prop in Hi; tauto]).
  destruct y as [|q|b]; cbn [app]; try (apply IH; auto).
  apply xs_increasing_cons; [|apply IH; auto]. intros p Hp. apply (known_above ts ys t0 p Hi Hp).
Qed.

(* the four methods in terms of the primitives characterised above *)
Theorem fill_methods_compose mn ts ys : (mn <= nancount ys)%nat ->
  fill_line FStep mn ts ys = map (fun v => xfillna v X0) (ffill ys) /\
  fill_line FForward mn ts ys = bfill (ffill ys) /\
  fill_line FBackward mn ts ys = ffill (bfill ys) /\
  fill_line FLinear mn ts ys = fill_linear ts ys.
Proof. intro H. unfold fill_line. apply Nat.ltb_ge in H. rewrite H. repeat split. Qed.

(* ------------------------------------------------------------------------------------------ *)
(* decreasing_cdfs                                                                              *)
(* ------------------------------------------------------------------------------------------ *)
(* total decrease of a finite line: the sum of the positive parts of l_i - l_{i+1} *)
Fixpoint qdec (l : list Q) : Q :=
  match l with a :: ((b :: _) as t) => (if Qle_bool b a then a - b else 0) + qdec t | _ => 0 end.
Lemma qdec_nonneg : forall l, 0 <= qdec l.
Proof.
  induction l as [|a t IH]. simpl; lra. destruct t as [|b t]. simpl; lra.
  change (qdec (a :: b :: t)) with ((if Qle_bool b a then a - b else 0) + qdec (b :: t)).
  pose proof (Qle_bool_spec b a). destruct (Qle_bool b a); lra.
Qed.
Lemma nansum_fin_cons a r : nansum (XFin a :: r) = xadd (XFin a) (nansum r).
Proof. reflexivity. Qed.
Lemma total_decrease_fins : forall l, total_decrease (fins l) =x= XFin (- qdec l).
Proof.
  induction l as [|a t IH]. reflexivity. destruct t as [|b t]. reflexivity.
  unfold total_decrease in *.
  change (diffs (fins (a :: b :: t))) with (xsub (XFin b) (XFin a) :: diffs (fins (b :: t))).
  cbn [map]. change (xsub (XFin b) (XFin a)) with (XFin (b - a)).
  assert (E : xclip_max (XFin (b - a)) X0 = XFin (if Qle_bool (b - a) 0 then b - a else 0)).
  { unfold xclip_max, xmin, X0. cbn [xle]. destruct (Qle_bool (b - a) 0); reflexivity. }
  rewrite E, nansum_fin_cons, IH.
  change (qdec (a :: b :: t)) with ((if Qle_bool b a then a - b else 0) + qdec (b :: t)).
  pose proof (Qle_bool_spec (b - a) 0). pose proof (Qle_bool_spec b a).
  destruct (Qle_bool (b - a) 0), (Qle_bool b a); simpl; lra.
Qed.
Theorem decreasing_iff_total_decrease_exceeds_tol tol l :
  decreasing_line tol (fins l) = true <-> tol < qdec l.
Proof.
  unfold decreasing_line. rewrite (xlt_Proper _ _ (total_decrease_fins l) _ _ (xeq_refl (XFin (- tol)))).
  cbn [xlt]. pose proof (Qltb_spec (- qdec l) (- tol)) as H. destruct (Qltb (- qdec l) (- tol)); split; intros; try lra; try discriminate; auto.
Qed.
Theorem decreasing_blank tol l : 0 <= tol -> decreasing_line tol (blank l) = false.
Proof.
  intro H. unfold decreasing_line.
  assert (E : total_decrease (blank l) = X0).
  { unfold total_decrease. assert (D : forall l0 : list xv, valids (map (fun d => xclip_max d X0) (diffs (blank l0))) = []).
    { induction l0 as [|a t IH]. reflexivity. destruct t as [|b t]. reflexivity. exact IH. }
    unfold nansum. rewrite D. reflexivity. }
  rewrite E. cbn [xlt X0]. apply Qltb_false. lra.
Qed.
Theorem nondecreasing_never_flagged tol l : 0 <= tol -> nondec l -> decreasing_line tol (fins l) = false.
Proof.
  intros Ht Hn. destruct (decreasing_line tol (fins l)) eqn:E; auto.
  apply decreasing_iff_total_decrease_exceeds_tol in E.
  assert (Z : qdec l == 0).
  { clear E. induction l as [|a t IH]. reflexivity. destruct t as [|b t]. reflexivity.
    apply nondec_cons in Hn. destruct Hn as [Hab Hn].
    change (qdec (a :: b :: t)) with ((if Qle_bool b a then a - b else 0) + qdec (b :: t)).
    rewrite (IH Hn). pose proof (Qle_bool_spec b a). destruct (Qle_bool b a); lra. }
  lra.
Qed.

(* ------------------------------------------------------------------------------------------ *)
(* adjust_fcst_for_crps                                                                         *)
(* ------------------------------------------------------------------------------------------ *)
Ltac qc := repeat match goal with |- context [Qle_bool ?u ?v] => let H := fresh "C" in pose proof (Qle_bool_spec u v) as H; destruct (Qle_bool u v) end.
Lemma combine_map_same {A B C} (f : A -> B) (g : A -> C) (l : list A) :
  combine (map f l) (map g l) = map (fun x => (f x, g x)) l.
Proof. induction l; simpl; congruence. Qed.
Lemma combine_map_id {A B} (f : A -> B) (l : list A) : combine (map f l) l = map (fun x => (f x, x)) l.
Proof. induction l; simpl; congruence. Qed.
(* idxmax over (original, upper, lower): the first maximum among the non-NaN values *)
Lemma pick3_spec (a b c : xv) :
  match pick3 a b c with
  | Some i => let v := nth i [a; b; c] XNaN in
      v <> XNaN /\ (forall j, (j < 3)%nat -> nth j [a; b; c] XNaN = XNaN \/ xle (nth j [a; b; c] XNaN) v = true)
      /\ (forall j, (j < i)%nat -> nth j [a; b; c] XNaN = XNaN \/ xlt (nth j [a; b; c] XNaN) v = true)
  | None => a = XNaN /\ b = XNaN /\ c = XNaN
  end.
Proof.
  destruct a as [|a|[|]], b as [|b|[|]], c as [|c|[|]];
  cbv [pick3]; repeat (progress (cbn -[Qle_bool Qltb]; unfold Qltb; qc));
  try (repeat split; reflexivity);
  (split; [discriminate|]; split; intros j Hj; (destruct j as [|[|[|j]]]; try lia);
   repeat (progress (cbn -[Qle_bool Qltb]; unfold Qltb; qc));
   try (left; reflexivity); right; auto; exfalso; lra).
Qed.

(* the choice adjust_fcst_for_crps makes for one forecast case, given the CRPS `tot` of a candidate line *)
Definition adjust_choice (tol : Q) (tot : list xv -> xv) (f : list xv) : list xv :=
  if decreasing_line tol f then
    match pick3 (tot f) (tot (env_upper f)) (tot (env_lower f)) with
    | Some 0%nat => f | Some 1%nat => env_upper f | Some _ => env_lower f | None => f end
  else f.

Definition adjust_op (ffm : fillm) (exact : bool) : cdfopts := {| o_ffm := ffm; o_wfm := FForward; o_exact := exact; o_prop := true |}.
Definition adjust_all3 (cases : list (list xv * xv)) : list fcase :=
  let fs := map (fun c => propagate_nan_m (fst c)) cases in
  let mk (g : list xv -> list xv) := map (fun p => (g (fst p), snd (snd p), @None (list xv))) (combine fs cases) in
  mk (fun l => l) ++ mk env_upper ++ mk env_lower.
Definition adjust_grid ft cases add := union_grid ft None (adjust_all3 cases) add.
Definition adjust_tot ft cases add ffm exact (obs : xv) (l : list xv) : xv :=
  fst (fst (crps_case (adjust_grid ft cases add) ft None (adjust_op ffm exact) (l, obs, None))).

(* structure of the result: every case is decided on its own, by adjust_choice *)
Theorem adjust_cases_spec tol ft cases add ffm exact res :
  adjust_cases tol ft cases add ffm exact = Ok res ->
  res = map (fun c => adjust_choice tol (adjust_tot ft cases add ffm exact (snd c)) (propagate_nan_m (fst c))) cases.
Proof.
  unfold adjust_cases. destruct (Qltb tol 0); [discriminate|]. destruct (negb (increasing ft)); [discriminate|].
  destruct (negb (existsb _ _)) eqn:EX.
  { intro H; inversion H. apply map_ext_in. intros c Hc. unfold adjust_choice.
    destruct (decreasing_line tol (propagate_nan_m (fst c))) eqn:D; auto. exfalso.
    apply negb_true_iff in EX. assert (T : existsb (fun b : bool => b) (map (decreasing_line tol) (map (fun c => propagate_nan_m (fst c)) cases)) = true).
    { apply existsb_exists. exists true. split; auto. rewrite map_map. apply in_map_iff. exists c. auto. }
    congruence. }
  fold (adjust_op ffm exact). fold (adjust_all3 cases).
  destruct (crps_guard ft None (adjust_all3 cases) (adjust_op ffm exact)); [discriminate|].
  intro H. inversion H. clear H H1.
  fold (adjust_grid ft cases add).
  rewrite (map_map (fun c : list xv * xv => propagate_nan_m (fst c)) (decreasing_line tol)).
  rewrite combine_map_same, combine_map_id, map_map. apply map_ext. intros [f o]. cbn [fst snd].
  unfold adjust_choice, adjust_tot. reflexivity.
Qed.

(* unchanged (up to NaN propagation) when nothing decreases beyond the tolerance *)
Theorem adjust_unchanged_when_ok tol ft cases add ffm exact res :
  adjust_cases tol ft cases add ffm exact = Ok res ->
  (forall c, In c cases -> decreasing_line tol (propagate_nan_m (fst c)) = false) ->
  res = map (fun c => propagate_nan_m (fst c)) cases.
Proof.
  intros H Hd. rewrite (adjust_cases_spec _ _ _ _ _ _ _ H). apply map_ext_in. intros c Hc.
  unfold adjust_choice. rewrite (Hd c Hc). reflexivity.
Qed.
Theorem adjust_choice_unchanged tol tot f : decreasing_line tol f = false -> adjust_choice tol tot f = f.
Proof. intro H. unfold adjust_choice. rewrite H. reflexivity. Qed.

(* otherwise: the first of original, upper, lower whose CRPS is maximal (NaN scores ignored) *)
Theorem adjust_picks_argmax tol (tot : list xv -> xv) f :
  decreasing_line tol f = true ->
  let cands := [f; env_upper f; env_lower f] in
  (tot f = XNaN /\ tot (env_upper f) = XNaN /\ tot (env_lower f) = XNaN /\ adjust_choice tol tot f = f) \/
  exists i, (i < 3)%nat /\ adjust_choice tol tot f = nth i cands f /\
    tot (nth i cands f) <> XNaN /\
    (forall j, (j < 3)%nat -> tot (nth j cands f) = XNaN \/ xle (tot (nth j cands f)) (tot (nth i cands f)) = true) /\
    (forall j, (j < i)%nat -> tot (nth j cands f) = XNaN \/ xlt (tot (nth j cands f)) (tot (nth i cands f)) = true).
Proof.
  intro D. cbv zeta. unfold adjust_choice. rewrite D.
  pose proof (pick3_spec (tot f) (tot (env_upper f)) (tot (env_lower f))) as P.
  destruct (pick3 (tot f) (tot (env_upper f)) (tot (env_lower f))) as [i|].
  - right. cbv zeta in P. destruct P as [P1 [P2 P3]].
    assert (Hi : (i < 3)%nat).
    { destruct i as [|[|[|i]]]; try lia. exfalso. apply P1. destruct i; reflexivity. }
    exists i. split; auto.
    assert (N : forall j, (j < 3)%nat -> nth j [tot f; tot (env_upper f); tot (env_lower f)] XNaN = tot (nth j [f; env_upper f; env_lower f] f)).
    { intros j Hj. destruct j as [|[|[|j]]]; try lia; reflexivity. }
    split; [destruct i as [|[|[|i]]]; try lia; reflexivity|].
    rewrite <- (N i Hi). split; auto. split.
    + intros j Hj. rewrite <- (N j Hj). apply P2; auto.
    + intros j Hj. rewrite <- (N j) by lia. apply P3; auto.
  - left. destruct P as [A [B C]]. auto.
Qed.

(* never flatters: the CRPS of the adjusted line is not below the CRPS of the original *)
Theorem adjust_never_flatters tol (tot : list xv -> xv) f :
  tot f = XNaN \/ xle (tot f) (tot (adjust_choice tol tot f)) = true.
Proof.
  destruct (decreasing_line tol f) eqn:D.
  - destruct (adjust_picks_argmax tol tot f D) as [[A _]|[i [Hi [E [N [M _]]]]]]; auto.
    rewrite E. apply (M O). lia.
  - rewrite (adjust_choice_unchanged _ _ _ D). destruct (tot f) as [|q|b]; auto; right; simpl.
    apply Qle_bool_iff. lra. destruct b; reflexivity.
Qed.

(* the grid on which adjust_fcst_for_crps scores the three candidates is the grid crps_cdf uses for the
   original array, and for the adjusted array: "CRPS" in the theorems above is what crps_cdf returns *)
From V Require proofs.C07.
Definition as_cases (fs : list (list xv)) (cases : list (list xv * xv)) : list fcase :=
  map (fun p => (fst p, snd (snd p), @None (list xv))) (combine fs cases).
Lemma map_c_o_as_cases : forall fs cases, length fs = length cases -> map c_o (as_cases fs cases) = map snd cases.
Proof.
  unfold as_cases. induction fs as [|f fs IH]; intros [|c cs] H; try discriminate. reflexivity.
  cbn [combine map]. f_equal. apply IH. simpl in H; congruence.
Qed.
Theorem adjust_grid_is_crps_grid ft cases add (fs : list (list xv)) :
  length fs = length cases -> adjust_grid ft cases add = union_grid ft None (as_cases fs cases) add.
Proof.
  intro H. unfold adjust_grid.
  rewrite <- (proofs.C07.union_grid_triple ft None (as_cases fs cases) add).
  apply proofs.C07.union_grid_obs_only.
  unfold adjust_all3. rewrite !map_app.
  rewrite (map_c_o_as_cases fs cases H).
  f_equal; [|f_equal]; (rewrite combine_map_id, !map_map; apply map_ext; intros [f o]; reflexivity).

Qed.
