(* proofs/C17.v -- lemmas behind the C17 theorems. *)
From V Require Import lib.Tree model.Cdf.
Open Scope Q_scope.

Lemma fill_blank_when_too_few m mn ts ys :
  (nancount ys < mn)%nat -> fill_line m mn ts ys = blank ys.
Proof. intro H. unfold fill_line. apply Nat.ltb_lt in H. rewrite H. reflexivity. Qed.
