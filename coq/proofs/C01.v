(* proofs/C01.v -- the dimension-resolution rule (gather) and the reduction functionals. *)
From V Require Import lib.Tree.
Open Scope string_scope.

Definition all_data (f o : list dim) (w : option (list dim)) : list dim :=
  match w with None => dunion f o | Some w => dunion (dunion f o) w end.

(* ---- both options: ValueError, whatever else is passed ---- *)
Lemma gather_both_err f o w r p s : r <> DNone -> p <> DNone -> gather f o w r p s = Err ValueError.
Proof. intros Hr Hp. unfold gather. destruct r, p; try congruence; reflexivity. Qed.

(* ---- omitting both = reduce_dims='all' ---- *)
Lemma gather_none_is_all f o w s : gather f o w DNone DNone s = gather f o w (DStr "all") DNone s.
Proof. unfold gather; simpl. destruct s; simpl; try reflexivity;
  repeat match goal with |- context [if ?c then _ else _] => destruct c; simpl; try reflexivity end. Qed.

(* ---- preserve_dims='all' reduces nothing ---- *)
Lemma gather_preserve_all f o w : gather f o w DNone (DStr "all") DNone = Ok [].
Proof. unfold gather. simpl. reflexivity. Qed.

(* ---- a bare string names the singleton ---- *)
Lemma gather_str_is_singleton_reduce f o w d s : d <> "all" -> d <> "" ->
  gather f o w (DStr d) DNone s = gather f o w (DList [d]) DNone s.
Proof. intros Ha He. unfold gather. simpl.
 assert (E1 : String.eqb d "all" = false) by (apply String.eqb_neq; auto).
 assert (E2 : String.eqb d "" = false) by (apply String.eqb_neq; auto).
 rewrite ?E1, ?E2. simpl. destruct s; simpl; rewrite ?E1, ?E2; simpl; reflexivity. Qed.
Lemma gather_str_is_singleton_preserve f o w d s : d <> "all" -> d <> "" ->
  gather f o w DNone (DStr d) s = gather f o w DNone (DList [d]) s.
Proof. intros Ha He. unfold gather. simpl.
 assert (E1 : String.eqb d "all" = false) by (apply String.eqb_neq; auto).
 assert (E2 : String.eqb d "" = false) by (apply String.eqb_neq; auto).
 rewrite ?E1, ?E2. simpl. destruct s; simpl; rewrite ?E1, ?E2; simpl; reflexivity. Qed.

(* ---- a named dimension outside the data: ValueError ---- *)
Lemma dsubset_false_witness l a : (exists d, In d l /\ mem d a = false) -> dsubset l a = false.
Proof. intros [d [Hin Hm]]. unfold dsubset. apply Bool.not_true_iff_false. intro H.
 rewrite forallb_forall in H. specialize (H d Hin). congruence. Qed.
Lemma gather_absent_reduce_err f o w l d :
  In d l -> mem d (all_data f o w) = false -> gather f o w (DList l) DNone DNone = Err ValueError.
Proof. intros Hin Hm.
 assert (Hs : dsubset l (all_data f o w) = false) by (apply dsubset_false_witness; eauto).
 destruct l as [|x l']; [contradiction|].
 unfold gather. fold (all_data f o w). cbn [is_none negb andb truthy disempty is_all as_list].
 rewrite Hs. reflexivity. Qed.
Lemma gather_absent_preserve_err f o w l d :
  In d l -> mem d (all_data f o w) = false -> gather f o w DNone (DList l) DNone = Err ValueError.
Proof. intros Hin Hm.
 assert (Hs : dsubset l (all_data f o w) = false) by (apply dsubset_false_witness; eauto).
 destruct l as [|x l']; [contradiction|].
 unfold gather. fold (all_data f o w). cbn [is_none negb andb truthy disempty is_all as_list].
 rewrite Hs. reflexivity. Qed.

(* ---- reduce=R and preserve=(all - R) give the same set, for every R inside the data dims ---- *)
Lemma dsubset_ddiff a b : dsubset (ddiff a b) a = true.
Proof. unfold dsubset. rewrite forallb_forall. intros x Hx. unfold ddiff in Hx.
 apply filter_In in Hx. destruct Hx as [Hx _]. apply mem_In. exact Hx. Qed.

Lemma gather_reduce_list f o w R : dsubset R (all_data f o w) = true ->
  gather f o w (DList R) DNone DNone = Ok R.
Proof. intro Hsub. unfold gather. fold (all_data f o w). set (A := all_data f o w) in *. clearbody A.
 destruct R as [|r0 R']; cbn [is_none negb andb truthy disempty is_all as_list]; rewrite ?Hsub; reflexivity. Qed.
Lemma gather_preserve_list f o w P : dsubset P (all_data f o w) = true ->
  gather f o w DNone (DList P) DNone = Ok (ddiff (all_data f o w) P).
Proof. intro Hsub. unfold gather. fold (all_data f o w). set (A := all_data f o w) in *. clearbody A.
 destruct P as [|p0 P']; cbn [is_none negb andb truthy disempty is_all as_list]; rewrite ?Hsub; reflexivity. Qed.

Theorem gather_reduce_preserve f o w R :
  dsubset R (all_data f o w) = true ->
  rseteq (gather f o w (DList R) DNone DNone) (gather f o w DNone (DList (ddiff (all_data f o w) R)) DNone).
Proof.
  intro Hsub. rewrite (gather_reduce_list f o w R Hsub).
  rewrite (gather_preserve_list f o w _ (dsubset_ddiff _ R)). cbn [rseteq]. intro d.
  rewrite !mem_ddiff. destruct (mem d R) eqn:E.
  - rewrite (dsubset_mem _ _ _ Hsub E). reflexivity.
  - cbn [negb]. rewrite andb_true_r. destruct (mem d (all_data f o w)); reflexivity.
Qed.

(* ---- score-specific dimensions are never reduced by name and never survive as "data" dims ---- *)
Lemma gather_specific_named_err f o w l sp d :
  In d l -> mem d sp = true ->
  gather f o w (DList l) DNone (DList sp) = Err ValueError.
Proof. intros Hin Hm.
 assert (E2 : disempty (dinter l sp) = false).
 { destruct (dinter l sp) eqn:X; [|reflexivity]. exfalso.
   assert (H : mem d (dinter l sp) = true) by (rewrite mem_dinter; rewrite Hm; rewrite (proj2 (mem_In d l) Hin); reflexivity).
   rewrite X in H. discriminate. }
 destruct l as [|x l']; [contradiction|].
 unfold gather. cbn [is_none negb andb truthy disempty is_all as_list].
 destruct (dsubset sp f); cbn [negb]; [|reflexivity].
 destruct (disempty (dinter o sp)); cbn [negb]; [|reflexivity].
 destruct (match w with Some w0 => negb (disempty (dinter w0 sp)) | None => false end); [reflexivity|].
 rewrite E2. reflexivity. Qed.
Lemma gather_default_excludes_specific f o w sp R d :
  sp <> [] -> gather f o w DNone DNone (DList sp) = Ok R -> mem d sp = true -> mem d R = false.
Proof. intros Hne. unfold gather. cbn [is_none negb andb truthy is_all as_list].
 destruct (dsubset sp f); cbn [negb]; [|discriminate].
 destruct (disempty (dinter o sp)); cbn [negb]; [|discriminate].
 destruct (match w with Some w0 => negb (disempty (dinter w0 sp)) | None => false end); [discriminate|].
 cbn [andb]. intros H Hm. inversion H; subst. rewrite mem_ddiff, Hm. apply andb_false_r. Qed.

(* ---- reductions depend on R only as a set ---- *)
Lemma filter_ext_mem (p q : dim -> bool) l : (forall d, p d = q d) -> filter p l = filter q l.
Proof. intro H. induction l as [|x t IH]; simpl; auto. rewrite H, IH. reflexivity. Qed.
Theorem lreduce_seteq agg R1 R2 a : seteq R1 R2 -> lreduce agg R1 a = lreduce agg R2 a.
Proof. intro H. unfold lreduce.
 assert (E1 : dinter (ldims a) R1 = dinter (ldims a) R2) by (apply filter_ext_mem; intro d; apply H).
 assert (E2 : ddiff (ldims a) R1 = ddiff (ldims a) R2) by (apply filter_ext_mem; intro d; rewrite H; reflexivity).
 rewrite E1, E2. reflexivity. Qed.
Corollary mean_score_seteq s w R1 R2 : seteq R1 R2 -> mean_score s w R1 = mean_score s w R2.
Proof. intro H. unfold mean_score. apply lreduce_seteq. exact H. Qed.

(* ---- dims of a reduced score ---- *)
Theorem mean_score_dims s w R d :
  mem d (ldims (mean_score s w R)) = mem d (ldims (apply_weights w s)) && negb (mem d R).
Proof. unfold mean_score. apply lreduce_dims. Qed.
Theorem pointwise_dims k f o d : mem d (ldims (lzip k f o)) = mem d (ldims f) || mem d (ldims o).
Proof. simpl. apply mem_dunion. Qed.

(* ---- the reduced value is the NaN-skipping mean of the preserve_dims='all' result ---- *)
Lemma xdiv_one v : xdiv v (xofnat 1) =x= v.
Proof. destruct v as [|q|b]; simpl; auto. unfold Qdiv. field. Qed.
Lemma nanmean_singleton v : nanmean [v] =x= v.
Proof. destruct v as [|q|b]; unfold nanmean, nancount, nansum, valids; simpl; auto;
 try (unfold Qdiv; field); try (destruct b; reflexivity). Qed.
Lemma valids_ext l1 l2 : Forall2 xeq l1 l2 -> Forall2 xeq (valids l1) (valids l2).
Proof. induction 1 as [|x y l1 l2 H _ IH]; simpl. constructor.
 unfold xvalid, xnotnull. rewrite (xisnan_Proper _ _ H). destruct (xisnan y); simpl; auto. Qed.
Lemma xsum_ext l1 l2 : Forall2 xeq l1 l2 -> xsum l1 =x= xsum l2.
Proof. induction 1 as [|x y l1 l2 H _ IH]; simpl. reflexivity. apply xadd_Proper; auto. Qed.
Lemma Forall2_length {A B} (R : A -> B -> Prop) l1 l2 : Forall2 R l1 l2 -> length l1 = length l2.
Proof. induction 1; simpl; auto. Qed.
Lemma nanmean_ext l1 l2 : Forall2 xeq l1 l2 -> nanmean l1 =x= nanmean l2.
Proof. intro H. unfold nanmean, nancount, nansum.
 pose proof (valids_ext _ _ H) as Hv. rewrite (Forall2_length _ _ _ Hv).
 destruct (length (valids l2)); [reflexivity|]. apply xdiv_Proper; [apply xsum_ext; exact Hv | reflexivity]. Qed.

Lemma mean_score_pointwise s w x : lget (mean_score s w []) x =x= lget (apply_weights w s) x.
Proof. unfold mean_score. rewrite lreduce_nil. apply nanmean_singleton. Qed.

Theorem mean_is_nanmean_of_pointwise s w R e :
  lget (mean_score s w R) e =x=
  nanmean (map (fun e' => lget (mean_score s w []) e')
               (envs (lsize (apply_weights w s)) (dinter (ldims (apply_weights w s)) R) e)).
Proof. rewrite mean_score_unfold. apply nanmean_ext.
 induction (envs (lsize (apply_weights w s)) (dinter (ldims (apply_weights w s)) R) e) as [|x t IH]; simpl; constructor; auto.
 symmetry. apply mean_score_pointwise. Qed.
