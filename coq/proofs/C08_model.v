(* proofs/C08_model.v -- the array model of ThresholdEventOperator(...).make_contingency_manager(...).transform(...) (the function
   the correspondence check runs against the implementation) returns, in every output cell of a real reduction, the direct
   counts of the (forecast, observation) pairs of that cell's group; total = tp + tn + fp + fn = number of pairs valid in both. *)
From V Require Import lib.Tree lib.C08_aux gen.Gen_C08_discretise gen.Gen_C08_contingency model.C08 proofs.C08.
Open Scope list_scope.

Definition eff_threshold (dt : xv) (t : option xv) : xv := match t with Some v => v | None => dt end.
Definition eff_op (dop : cmpop) (op : option cmpop) : cmpop := match op with Some v => v | None => dop end.

(* the event arrays of the model are the thresholded inputs, with the defaults used exactly for None *)
Lemma event_arrays_spec dt dop fcst obs t op :
  event_arrays gen_make_contingency_manager dt dop fcst obs t op =
  (events_arr (eff_op dop op) (eff_threshold dt t) fcst, events_arr (eff_op dop op) (eff_threshold dt t) obs).
Proof. destruct t, op; reflexivity. Qed.

Lemma manager_counts_ok fe oe rd pd l :
  manager_counts fe oe rd pd = Ok l ->
  exists R, gather (ldims fe) (ldims oe) None rd pd DNone = Ok R /\
    l = [lsum R (lzip map_tp fe oe); lsum R (lzip map_tn fe oe); lsum R (lzip map_fp fe oe); lsum R (lzip map_fn fe oe);
         lzip xadd (lzip xadd (lzip xadd (lsum R (lzip map_tp fe oe)) (lsum R (lzip map_tn fe oe))) (lsum R (lzip map_fp fe oe)))
              (lsum R (lzip map_fn fe oe))].
Proof.
  unfold manager_counts. destruct (gather _ _ _ _ _ _) as [R | err]; cbn [rbind]; [| discriminate].
  intro H. inversion H. exists R. split; reflexivity.
Qed.

Lemma lsum_reduce R a : dinter (ldims a) R <> [] -> lsum R a = lreduce nansum R a.
Proof. unfold lsum. destruct (dinter (ldims a) R); [congruence | reflexivity]. Qed.

Theorem model_counts dt dop fcst obs t op rd pd l :
  manager_counts (fst (event_arrays gen_make_contingency_manager dt dop fcst obs t op))
                 (snd (event_arrays gen_make_contingency_manager dt dop fcst obs t op)) rd pd = Ok l ->
  exists R tp tn fp fn tot,
    l = [tp; tn; fp; fn; tot] /\
    gather (ldims fcst) (ldims obs) None rd pd DNone = Ok R /\
    (dinter (dunion (ldims fcst) (ldims obs)) R <> [] ->
     let op' := eff_op dop op in let t' := eff_threshold dt t in
     forall e,
       lget tp e =x= xofnat (count_if (fun c => cvalid c && p_tp op' t' c) (group_cells fcst obs R e)) /\
       lget tn e =x= xofnat (count_if (fun c => cvalid c && p_tn op' t' c) (group_cells fcst obs R e)) /\
       lget fp e =x= xofnat (count_if (fun c => cvalid c && p_fp op' t' c) (group_cells fcst obs R e)) /\
       lget fn e =x= xofnat (count_if (fun c => cvalid c && p_fn op' t' c) (group_cells fcst obs R e)) /\
       lget tot e =x= xofnat (count_if cvalid (group_cells fcst obs R e))).
Proof.
  rewrite event_arrays_spec. cbn [fst snd]. intro H. apply manager_counts_ok in H. destruct H as [R [G ->]].
  do 6 eexists. split; [reflexivity |]. split; [exact G |].
  intros NE e. set (op' := eff_op dop op). set (t' := eff_threshold dt t).
  assert (D : forall m, dinter (ldims (lzip m (events_arr op' t' fcst) (events_arr op' t' obs))) R <> []) by (intro m; exact NE).
  rewrite !(lsum_reduce R _ (D _)).
  repeat split.
  - apply array_count_tp.
  - apply array_count_tn.
  - apply array_count_fp.
  - apply array_count_fn.
  - apply (array_counts_partition fcst obs op' t' R e).
Qed.
