(* proofs/C18_ang.v -- the angular index: formula and invariance under rotating all directions. *)
From Coq Require Import Permutation.
From V Require Import lib.Tree gen.Gen_functions model.C18 proofs.C18 proofs.C18_mod proofs.C18_sector proofs.C18_rot.
Open Scope list_scope.
Open Scope Q_scope.

Lemma gen_ang_spec a b : gen_angular_difference (XFin a) (XFin b) =x= XFin (angdiff_q a b).
Proof. unfold gen_angular_difference, angdiff_q, fold180, qmod360, Qltb, zq. xunf.
  cbn -[Qle_bool Qabs Qfloor Qmult Qplus Qminus Qopp Qdiv Qinv]. unfold Qminus.
  match goal with |- context [Qle_bool ?u ?v] => destruct (Qle_bool u v) end; cbn [negb xeq]; reflexivity. Qed.

Lemma angdiff_nonneg a b : 0 <= angdiff_q a b.
Proof. unfold angdiff_q. destruct (qmod360_range (Qabs (a - b))). destruct (fold180_range (qmod360 (Qabs (a - b)))); lra. Qed.
Lemma angdiff_shift c a b : angdiff_q (a + c) (b + c) == angdiff_q a b.
Proof. unfold angdiff_q. assert (E : a + c - (b + c) == a - b) by ring. rewrite E. reflexivity. Qed.
Lemma tv_ang_shift c l : tv_ang (map (fun x => x + c) l) == tv_ang l.
Proof. induction l as [|a [|b t] IH]; try reflexivity.
  change (map (fun x => x + c) (a :: b :: t)) with ((a + c) :: map (fun x => x + c) (b :: t)).
  change (map (fun x => x + c) (b :: t)) with ((b + c) :: map (fun x => x + c) t) at 1.
  change (tv_ang ((a + c) :: (b + c) :: map (fun x => x + c) t)) with (angdiff_q (a + c) (b + c) + tv_ang ((b + c) :: map (fun x => x + c) t)).
  change ((b + c) :: map (fun x => x + c) t) with (map (fun x => x + c) (b :: t)). rewrite IH, angdiff_shift. reflexivity. Qed.

(* sums of element-wise equal lists *)
Lemma valids_Forall2 l l' : Forall2 xeq l l' -> Forall2 xeq (valids l) (valids l').
Proof. induction 1 as [|a b l l' Hab H IH]; simpl; [constructor|].
  assert (E : xvalid a = xvalid b) by (unfold xvalid, xnotnull; rewrite Hab; reflexivity). rewrite E.
  destruct (xvalid b); [constructor; assumption | assumption]. Qed.
Lemma xsum_Forall2 l l' : Forall2 xeq l l' -> xsum l =x= xsum l'.
Proof. induction 1 as [|a b l l' Hab H IH]; simpl; [reflexivity|]. change (xadd a (xsum l) =x= xadd b (xsum l')). rewrite Hab, IH. reflexivity. Qed.
Lemma nansum_Forall2 l l' : Forall2 xeq l l' -> nansum l =x= nansum l'.
Proof. intro H. unfold nansum. apply xsum_Forall2. apply valids_Forall2. exact H. Qed.

Fixpoint angdiffs (l : list Q) : list Q :=
  match l with a :: t => match t with b :: _ => angdiff_q a b :: angdiffs t | [] => [] end | [] => [] end.
Lemma angdiffs_sum l : qsum (angdiffs l) == tv_ang l.
Proof. induction l as [|a [|b t] IH]; try reflexivity. change (angdiff_q a b + qsum (angdiffs (b :: t)) == angdiff_q a b + tv_ang (b :: t)). rewrite IH. reflexivity. Qed.
Lemma sdiffs_ang l : Forall2 xeq (map xabs (sdiffs gen_angular_difference (fins l))) (fins (angdiffs l)).
Proof. induction l as [|a [|b t] IH]; [constructor | constructor |].
  change (fins (a :: b :: t)) with (XFin a :: XFin b :: fins t). rewrite sdiffs_cons2.
  change (XFin b :: fins t) with (fins (b :: t)).
  change (angdiffs (a :: b :: t)) with (angdiff_q a b :: angdiffs (b :: t)).
  change (fins (angdiff_q a b :: angdiffs (b :: t))) with (XFin (angdiff_q a b) :: fins (angdiffs (b :: t))).
  change (map xabs (gen_angular_difference (XFin a) (XFin b) :: sdiffs gen_angular_difference (fins (b :: t))))
    with (xabs (gen_angular_difference (XFin a) (XFin b)) :: map xabs (sdiffs gen_angular_difference (fins (b :: t)))).
  constructor; [|exact IH]. rewrite (gen_ang_spec a b). cbn [xabs xeq]. rewrite Qabs_pos by apply angdiff_nonneg. reflexivity. Qed.

Lemma qmin2_eq a a' b : a == a' -> qmin2 a b == qmin2 a' b.
Proof. intro E. unfold qmin2. rewrite (Qle_bool_compat a a' b b E (Qeq_refl b)). destruct (Qle_bool a' b); [exact E | reflexivity]. Qed.

(* the angular index of N >= 3 directions: (sum of circular differences - min(sector, 180)) / (N - 2) *)
Lemma ff_angular_formula (l : list Q) : (3 <= length l)%nat -> ff_angular (fins l) =x= XFin (ff_angular_spec l).
Proof.
  intro H. assert (N : l <> []) by (destruct l; simpl in *; [lia | congruence]).
  unfold ff_angular.
  assert (T : nansum (XNaN :: map xabs (sdiffs gen_angular_difference (fins l))) =x= XFin (tv_ang l)).
  { rewrite (nansum_Forall2 _ (XNaN :: fins (angdiffs l))) by (constructor; [reflexivity | apply sdiffs_ang]).
    rewrite nansum_nan_fins. cbn [xeq]. apply angdiffs_sum. }
  rewrite T. pose proof (sector_code_eq_spec l N) as S.
  destruct (sector_x false (fins l)) as [|s|]; cbn [xeq] in S; try tauto.
  assert (L : length (fins l) = length l) by (unfold fins; apply map_length). rewrite L.
  pose proof (nm2_pos l H) as P. unfold xclip_max, xmin, xle, xsub, xneg, xadd, xdiv.
  pose proof (Qeq_bool_spec (nm2 (length l)) 0) as Z.
  destruct (Qle_bool s 180) eqn:E; destruct (Qeq_bool (nm2 (length l)) 0); try lra; cbn [xeq]; unfold ff_angular_spec;
    rewrite <- (qmin2_eq s (sector_spec l) 180 S); unfold qmin2; rewrite E; field; lra.
Qed.

Lemma ff_angular_spec_rotation c l : l <> [] -> ff_angular_spec (map (fun x => x + c) l) == ff_angular_spec l.
Proof. intro N. unfold ff_angular_spec. rewrite map_length, tv_ang_shift.
  rewrite (qmin2_eq _ _ 180 (sector_spec_rotation c l N)). reflexivity. Qed.

(* the angular index is invariant under rotating all directions *)
Lemma ff_angular_rotation c (l : list Q) : (3 <= length l)%nat ->
  ff_angular (fins (map (fun x => x + c) l)) =x= ff_angular (fins l).
Proof. intro H. assert (N : l <> []) by (destruct l; simpl in *; [lia | congruence]).
  rewrite (ff_angular_formula l H), (ff_angular_formula (map (fun x => x + c) l)) by (rewrite map_length; exact H).
  cbn [xeq]. apply ff_angular_spec_rotation. exact N. Qed.
