(* proofs/C11.v -- Q-level lemmas behind the C11 theorems (axiom-free).
   The integral over theta (murphy_integrates) is in proofs/C11_RInt.v. *)
From V Require Import lib.Tree lib.C10_aux gen.Gen_C11_kern model.C11.

Ltac mk := xunf; xunf; cbn -[Qle_bool Qeq_bool Qmult Qplus Qminus Qopp Qdiv Qinv Qcompare Qabs];
  repeat (progress (qcmp; cbn -[Qle_bool Qeq_bool Qmult Qplus Qminus Qopp Qdiv Qinv Qcompare Qabs])).
Ltac qabs := repeat match goal with |- context [Qabs ?x] => first [rewrite (Qabs_pos x) by lra | rewrite (Qabs_neg x) by lra] end.
Ltac fin := cbn -[Qmult Qplus Qminus Qopp Qdiv Qinv Qabs]; try tauto; try reflexivity; try lra; try (qabs; lra).

Definition xpart (c : bool) (v : Q) : xv := if c then XFin v else XNaN.

(* ---------------- the generated elementary scores: indicator logic and penalty sizes ---------------- *)
Lemma quantile_parts alpha f o t :
  fst (gen_murphy_quantile (XFin f) (XFin o) (XFin t) (XFin alpha)) =x= xpart (in_over f o t) (1 - alpha) /\
  snd (gen_murphy_quantile (XFin f) (XFin o) (XFin t) (XFin alpha)) =x= xpart (in_under f o t) alpha.
Proof. unfold gen_murphy_quantile, in_over, in_under, xpart, Qltb. split; mk; fin. Qed.

Lemma huber_parts alpha a f o t :
  fst (gen_murphy_huber (XFin f) (XFin o) (XFin t) (XFin alpha) (XFin a)) =x= xpart (in_over f o t) ((1 - alpha) * Qmin' (t - o) a) /\
  snd (gen_murphy_huber (XFin f) (XFin o) (XFin t) (XFin alpha) (XFin a)) =x= xpart (in_under f o t) (alpha * Qmin' (o - t) a).
Proof. unfold gen_murphy_huber, in_over, in_under, xpart, Qmin', Qltb. split; mk; fin; nra. Qed.

Lemma expectile_parts alpha f o t :
  fst (gen_murphy_expectile (XFin f) (XFin o) (XFin t) (XFin alpha)) =x= xpart (in_over f o t) ((1 - alpha) * (t - o)) /\
  snd (gen_murphy_expectile (XFin f) (XFin o) (XFin t) (XFin alpha)) =x= xpart (in_under f o t) (alpha * (o - t)).
Proof. unfold gen_murphy_expectile, in_over, in_under, xpart, Qltb. split; mk; fin. Qed.

(* ---------------- the NaN merge pipeline (combine_first / fillna(0) / re-mask) ---------------- *)
Definition m_total (r : xv * xv * xv) : xv := fst (fst r).
Definition m_under (r : xv * xv * xv) : xv := snd (fst r).
Definition m_over (r : xv * xv * xv) : xv := snd r.
Definition bq (c : bool) (v : Q) : Q := if c then v else 0.

Lemma merge_names_ok : gen_murphy_merge_names = ["total"; "underforecast"; "overforecast"]%string.
Proof. reflexivity. Qed.

Lemma merge_parts c1 c2 v1 v2 f over under :
  over =x= xpart c1 v1 -> under =x= xpart c2 v2 -> c1 && c2 = false ->
  m_total (gen_murphy_merge over under (XFin f)) =x= XFin (bq c1 v1 + bq c2 v2) /\
  m_under (gen_murphy_merge over under (XFin f)) =x= XFin (bq c2 v2) /\
  m_over (gen_murphy_merge over under (XFin f)) =x= XFin (bq c1 v1).
Proof. intros Ho Hu Hc. unfold gen_murphy_merge, m_total, m_under, m_over, xpart, bq in *.
 destruct c1, c2; try discriminate; destruct over, under; cbn in *; try tauto; repeat split; try lra. Qed.

Lemma merge_nan over under :
  gen_murphy_merge over under XNaN = (XNaN, XNaN, XNaN).
Proof. reflexivity. Qed.

(* the merged total on a valid case is fillna(over,0) + fillna(under,0) whatever the two parts are, provided they are
   never both present *)
Lemma merge_total_sum over under f : xisnan f = false -> xisnan over || xisnan under = true ->
  m_total (gen_murphy_merge over under f) =x= xadd (m_over (gen_murphy_merge over under f)) (m_under (gen_murphy_merge over under f)).
Proof. intros Hf H. unfold gen_murphy_merge, m_total, m_under, m_over. destruct f; try discriminate;
 destruct over as [|x|[]], under as [|y|[]]; cbn in *; try discriminate; try tauto; try lra. Qed.

Lemma regions_disjoint f o t : in_over f o t && in_under f o t = false.
Proof. unfold in_over, in_under, Qltb. qcmpp; reflexivity. Qed.

Lemma elementary_quantile_spec alpha f o t :
  let r := gen_murphy_merge (fst (gen_murphy_quantile (XFin f) (XFin o) (XFin t) (XFin alpha)))
                            (snd (gen_murphy_quantile (XFin f) (XFin o) (XFin t) (XFin alpha))) (XFin f) in
  m_total r =x= XFin (es_quantile alpha f o t) /\ m_under r =x= XFin (es_quantile_under alpha f o t) /\
  m_over r =x= XFin (es_quantile_over alpha f o t).
Proof. destruct (quantile_parts alpha f o t) as [H1 H2]. exact (merge_parts _ _ _ _ f _ _ H1 H2 (regions_disjoint f o t)). Qed.

Lemma elementary_huber_spec alpha a f o t :
  let r := gen_murphy_merge (fst (gen_murphy_huber (XFin f) (XFin o) (XFin t) (XFin alpha) (XFin a)))
                            (snd (gen_murphy_huber (XFin f) (XFin o) (XFin t) (XFin alpha) (XFin a))) (XFin f) in
  m_total r =x= XFin (es_huber alpha a f o t) /\ m_under r =x= XFin (es_huber_under alpha a f o t) /\
  m_over r =x= XFin (es_huber_over alpha a f o t).
Proof. destruct (huber_parts alpha a f o t) as [H1 H2]. exact (merge_parts _ _ _ _ f _ _ H1 H2 (regions_disjoint f o t)). Qed.

Lemma elementary_expectile_spec alpha f o t :
  let r := gen_murphy_merge (fst (gen_murphy_expectile (XFin f) (XFin o) (XFin t) (XFin alpha)))
                            (snd (gen_murphy_expectile (XFin f) (XFin o) (XFin t) (XFin alpha))) (XFin f) in
  m_total r =x= XFin (es_expectile alpha f o t) /\ m_under r =x= XFin (es_expectile_under alpha f o t) /\
  m_over r =x= XFin (es_expectile_over alpha f o t).
Proof. destruct (expectile_parts alpha f o t) as [H1 H2]. exact (merge_parts _ _ _ _ f _ _ H1 H2 (regions_disjoint f o t)). Qed.

(* zero outside [min(f,o), max(f,o)) *)
Lemma outside_no_region f o t : (t < f /\ t < o) \/ (f <= t /\ o <= t) -> in_over f o t = false /\ in_under f o t = false.
Proof. unfold in_over, in_under, Qltb. intros [[H1 H2]|[H1 H2]]; qcmpp; cbn; auto. Qed.
Lemma es_zero_outside alpha a f o t : (t < f /\ t < o) \/ (f <= t /\ o <= t) ->
  es_quantile alpha f o t == 0 /\ es_huber alpha a f o t == 0 /\ es_expectile alpha f o t == 0.
Proof. intro H. destruct (outside_no_region f o t H) as [E1 E2].
 unfold es_quantile, es_huber, es_expectile, es_quantile_over, es_quantile_under, es_huber_over, es_huber_under,
   es_expectile_over, es_expectile_under. rewrite E1, E2. repeat split; lra. Qed.

(* ---------------- between two consecutive kinks the curve is constant (quantile) / affine (expectile, Huber) ---------------- *)
(* `nokink p t1 t`: the point p does not lie in (t1, t] *)
Definition nokink (p t1 t : Q) : Prop := ~ (t1 < p /\ p <= t).

Lemma region_stable f o t1 t : t1 <= t -> nokink f t1 t -> nokink o t1 t ->
  in_over f o t = in_over f o t1 /\ in_under f o t = in_under f o t1.
Proof. unfold nokink, in_over, in_under, Qltb. intros. split; qcmpp; cbn; auto; exfalso; lra. Qed.

Lemma cover_quantile alpha f o t1 t : t1 <= t -> nokink f t1 t -> nokink o t1 t ->
  es_quantile_over alpha f o t == es_quantile_over alpha f o t1 /\
  es_quantile_under alpha f o t == es_quantile_under alpha f o t1 /\
  es_quantile alpha f o t == es_quantile alpha f o t1.
Proof. intros H Hf Ho. destruct (region_stable f o t1 t H Hf Ho) as [E1 E2].
 unfold es_quantile, es_quantile_over, es_quantile_under. rewrite E1, E2. repeat split; reflexivity. Qed.

Lemma cover_expectile alpha f o t1 t : t1 <= t -> nokink f t1 t -> nokink o t1 t ->
  es_expectile_over alpha f o t == es_expectile_over alpha f o t1 + bq (in_over f o t1) (1 - alpha) * (t - t1) /\
  es_expectile_under alpha f o t == es_expectile_under alpha f o t1 - bq (in_under f o t1) alpha * (t - t1) /\
  es_expectile alpha f o t == es_expectile alpha f o t1 + (bq (in_over f o t1) (1 - alpha) - bq (in_under f o t1) alpha) * (t - t1).
Proof. intros H Hf Ho. destruct (region_stable f o t1 t H Hf Ho) as [E1 E2].
 unfold es_expectile, es_expectile_over, es_expectile_under, bq. rewrite E1, E2.
 destruct (in_over f o t1), (in_under f o t1); repeat split; lra. Qed.

Lemma cover_huber alpha a f o t1 t : t1 <= t -> nokink f t1 t -> nokink o t1 t -> nokink (o + a) t1 t -> nokink (o - a) t1 t ->
  es_huber_over alpha a f o t == es_huber_over alpha a f o t1 + bq (in_over f o t1 && Qltb (t1 - o) a) (1 - alpha) * (t - t1) /\
  es_huber_under alpha a f o t == es_huber_under alpha a f o t1 - bq (in_under f o t1 && Qle_bool (o - t1) a) alpha * (t - t1) /\
  es_huber alpha a f o t == es_huber alpha a f o t1
     + (bq (in_over f o t1 && Qltb (t1 - o) a) (1 - alpha) - bq (in_under f o t1 && Qle_bool (o - t1) a) alpha) * (t - t1).
Proof. intros H Hf Ho Hp Hm. destruct (region_stable f o t1 t H Hf Ho) as [E1 E2].
 unfold es_huber, es_huber_over, es_huber_under, bq, Qmin'. rewrite E1, E2. unfold nokink, Qltb in *.
 destruct (in_over f o t1), (in_under f o t1); cbn -[Qle_bool Qmult Qplus Qminus Qopp];
 qcmpp; cbn -[Qmult Qplus Qminus Qopp]; repeat split; try lra; try nra; try (assert (t == t1) by lra; nra); try (qtie; nra); exfalso; lra. Qed.

(* ---------------- murphy_thetas: sorted, duplicate-free, NaN-free, and complete ---------------- *)
From Coq Require Import Sorting.Sorted.
Definition xltR (a b : xv) : Prop := xlt a b = true.
Definition nonnan (a : xv) : Prop := xisnan a = false.

Lemma xlt_trans a b c : xlt a b = true -> xlt b c = true -> xlt a c = true.
Proof. destruct a as [|a|[]], b as [|b|[]], c as [|c|[]]; cbn; try discriminate; auto.
 unfold Qltb. intros H1 H2. pose proof (Qle_bool_spec b a). pose proof (Qle_bool_spec c b). pose proof (Qle_bool_spec c a).
 destruct (Qle_bool b a), (Qle_bool c b), (Qle_bool c a); cbn in *; try discriminate; auto. exfalso; lra. Qed.
Lemma xlt_total a b : nonnan a -> nonnan b -> xeqv a b = false -> xlt a b = false -> xlt b a = true.
Proof. unfold nonnan. destruct a as [|a|[]], b as [|b|[]]; cbn; try discriminate; auto.
 unfold Qltb. intros _ _ H1 H2. pose proof (Qle_bool_spec b a). pose proof (Qle_bool_spec a b). pose proof (Qeq_bool_spec a b).
 destruct (Qle_bool b a), (Qle_bool a b), (Qeq_bool a b); cbn in *; try discriminate; auto. exfalso. apply H3. lra. Qed.
Lemma xeqv_refl a : nonnan a -> xeqv a a = true.
Proof. destruct a as [|a|[]]; cbn; try discriminate; auto. intros _. apply Qeq_bool_iff. reflexivity. Qed.

Lemma xinsert_old x l y : In y l -> In y (xinsert x l).
Proof. induction l as [|h t IH]; cbn; [tauto|]. intros [E|I].
 - subst. destruct (xeqv x y); [left; auto|]. destruct (xlt x y); [right; left; auto | left; auto].
 - destruct (xeqv x h); [right; auto|]. destruct (xlt x h); [right; right; auto | right; auto]. Qed.
Lemma xinsert_has x l : nonnan x -> exists y, In y (xinsert x l) /\ xeqv x y = true.
Proof. intro Hx. induction l as [|h t IH]; cbn.
 - exists x. split; [left; auto | apply xeqv_refl; auto].
 - destruct (xeqv x h) eqn:E; [exists h; split; [left; auto | auto]|].
   destruct (xlt x h); [exists x; split; [left; auto | apply xeqv_refl; auto]|].
   destruct IH as [y [I E']]. exists y. split; [right; auto | auto]. Qed.
Lemma xinsert_sound x l y : In y (xinsert x l) -> y = x \/ In y l.
Proof. induction l as [|h t IH]; cbn; [intuition|].
 destruct (xeqv x h); [cbn; intuition|]. destruct (xlt x h); cbn; [intuition|].
 intros [E|I]; [intuition | destruct (IH I); intuition]. Qed.

Lemma xinsert_hd a x l : HdRel xltR a l -> xltR a x -> HdRel xltR a (xinsert x l).
Proof. intros H Hx. destruct l as [|h t]; cbn; [constructor; auto|].
 inversion H; subst. destruct (xeqv x h); [constructor; auto|]. destruct (xlt x h); constructor; auto. Qed.
Lemma xinsert_sorted x l : nonnan x -> Forall nonnan l -> Sorted xltR l -> Sorted xltR (xinsert x l).
Proof. intros Hx Hl Hs. induction l as [|h t IH]; cbn; [repeat constructor|].
 inversion Hl; subst. inversion Hs; subst.
 destruct (xeqv x h) eqn:E; [auto|]. destruct (xlt x h) eqn:L.
 - constructor; [auto | constructor; exact L].
 - constructor; [apply IH; auto|]. apply xinsert_hd; auto. apply xlt_total; auto. Qed.
Lemma xinsert_nonnan x l : nonnan x -> Forall nonnan l -> Forall nonnan (xinsert x l).
Proof. intros Hx Hl. apply Forall_forall. intros y I. destruct (xinsert_sound x l y I) as [->|I']; auto.
 rewrite Forall_forall in Hl; auto. Qed.

Lemma xsort_uniq_ok l : Sorted xltR (xsort_uniq l) /\ Forall nonnan (xsort_uniq l).
Proof. unfold xsort_uniq. induction l as [|h t [IH1 IH2]]; cbn; [split; constructor|].
 destruct (xnotnull h) eqn:E; cbn; [|split; auto].
 assert (nonnan h) by (unfold nonnan, xnotnull in *; destruct (xisnan h); auto; discriminate).
 split; [apply xinsert_sorted; auto | apply xinsert_nonnan; auto]. Qed.
Lemma xsort_uniq_complete l x : In x l -> nonnan x -> exists y, In y (xsort_uniq l) /\ xeqv x y = true.
Proof. unfold xsort_uniq. induction l as [|h t IH]; cbn; [tauto|]. intros [E|I] Hx.
 - subst. unfold xnotnull. rewrite Hx. cbn. apply xinsert_has; auto.
 - destruct (IH I Hx) as [y [Iy Ey]]. exists y. split; auto. destruct (xnotnull h); cbn; auto. apply xinsert_old; auto. Qed.
Lemma xsort_uniq_sound l y : In y (xsort_uniq l) -> In y l /\ nonnan y.
Proof. intro I. split.
 - revert I. unfold xsort_uniq. induction l as [|h t IH]; cbn; [tauto|]. destruct (xnotnull h); cbn; [|auto].
   intro I. destruct (xinsert_sound _ _ _ I); [left; auto | right; auto].
 - destruct (xsort_uniq_ok l) as [_ F]. rewrite Forall_forall in F. auto. Qed.

(* a finite point of the generating set is (up to ==) a member of the returned thetas *)
Lemma xsort_uniq_has_fin l q : In (XFin q) l -> exists q', In (XFin q') (xsort_uniq l) /\ q' == q.
Proof. intro I. destruct (xsort_uniq_complete l (XFin q) I eq_refl) as [y [Iy E]].
 destruct y as [|q'|]; cbn in E; try discriminate. exists q'. split; auto. apply Qeq_bool_iff in E. symmetry; auto. Qed.

Lemma nokink_of_thetas T p t1 t : (exists q', In (XFin q') T /\ q' == p) ->
  (forall q, In (XFin q) T -> nokink q t1 t) -> nokink p t1 t.
Proof. intros [q' [I E]] H. specialize (H q' I). unfold nokink in *. rewrite <- E. auto. Qed.

Lemma thetas_unfold fcsts obs fn huber_a delta T : murphy_thetas_m fcsts obs fn huber_a delta = Ok T ->
  T = xsort_uniq (theta_points fn fcsts obs (opt_get huber_a) (match delta with None => X0 | Some d => d end)).
Proof. unfold murphy_thetas_m. destruct (check_murphy_inputs None (Some fn) huber_a delta); cbn; intro H; inversion H; auto. Qed.

Lemma thetas_sorted fcsts obs fn huber_a delta T : murphy_thetas_m fcsts obs fn huber_a delta = Ok T ->
  Sorted xltR T /\ Forall nonnan T /\
  (forall y, In y T -> In y (theta_points fn fcsts obs (opt_get huber_a) (match delta with None => X0 | Some d => d end))).
Proof. intro H. rewrite (thetas_unfold _ _ _ _ _ _ H). destruct (xsort_uniq_ok (theta_points fn fcsts obs (opt_get huber_a) (match delta with None => X0 | Some d => d end))).
 repeat split; auto. intros y I. apply xsort_uniq_sound in I. tauto. Qed.

Lemma thetas_cover_quantile fcsts obs huber_a delta T alpha f o t1 t :
  murphy_thetas_m fcsts obs "quantile" huber_a delta = Ok T ->
  In (XFin f) (concat fcsts) -> In (XFin o) obs -> t1 <= t ->
  (forall q, In (XFin q) T -> nokink q t1 t) ->
  es_quantile_over alpha f o t == es_quantile_over alpha f o t1 /\
  es_quantile_under alpha f o t == es_quantile_under alpha f o t1 /\
  es_quantile alpha f o t == es_quantile alpha f o t1.
Proof. intros H If Io Ht K. rewrite (thetas_unfold _ _ _ _ _ _ H) in K. cbn [theta_points String.eqb Ascii.eqb Bool.eqb] in K.
 apply cover_quantile; auto; eapply nokink_of_thetas; try exact K; apply xsort_uniq_has_fin; apply in_or_app; auto. Qed.

Lemma thetas_cover_expectile fcsts obs huber_a delta T alpha f o t1 t :
  murphy_thetas_m fcsts obs "expectile" huber_a delta = Ok T ->
  In (XFin f) (concat fcsts) -> In (XFin o) obs -> t1 <= t ->
  (forall q, In (XFin q) T -> nokink q t1 t) ->
  es_expectile alpha f o t == es_expectile alpha f o t1 + (bq (in_over f o t1) (1 - alpha) - bq (in_under f o t1) alpha) * (t - t1).
Proof. intros H If Io Ht K. rewrite (thetas_unfold _ _ _ _ _ _ H) in K. cbn [theta_points String.eqb Ascii.eqb Bool.eqb] in K.
 apply cover_expectile; auto; eapply nokink_of_thetas; try exact K; apply xsort_uniq_has_fin.
 - apply in_or_app; auto.
 - apply in_or_app; right; apply in_or_app; auto. Qed.

Lemma thetas_cover_huber fcsts obs a delta T alpha f o t1 t :
  murphy_thetas_m fcsts obs "huber" (Some (XFin a)) delta = Ok T ->
  In (XFin f) (concat fcsts) -> In (XFin o) obs -> t1 <= t ->
  (forall q, In (XFin q) T -> nokink q t1 t) ->
  es_huber alpha a f o t == es_huber alpha a f o t1
     + (bq (in_over f o t1 && Qltb (t1 - o) a) (1 - alpha) - bq (in_under f o t1 && Qle_bool (o - t1) a) alpha) * (t - t1).
Proof. intros H If Io Ht K. rewrite (thetas_unfold _ _ _ _ _ _ H) in K. cbn [theta_points String.eqb Ascii.eqb Bool.eqb opt_get] in K.
 apply cover_huber; auto; eapply nokink_of_thetas; try exact K; apply xsort_uniq_has_fin.
 - apply in_or_app; auto.
 - apply in_or_app; right; apply in_or_app; right; apply in_or_app; auto.
 - do 4 (apply in_or_app; right). change (XFin (o + a)) with ((fun v => xadd v (XFin a)) (XFin o)). apply in_map; auto.
 - do 3 (apply in_or_app; right). apply in_or_app; left. change (XFin (o - a)) with ((fun v => xsub v (XFin a)) (XFin o)). apply in_map; auto. Qed.

(* the approximations f - delta of the left-hand limits at every forecast value are in the set (expectile, Huber) *)
Lemma thetas_left_limits fcsts obs fn huber_a d T f :
  fn = "expectile"%string \/ fn = "huber"%string ->
  murphy_thetas_m fcsts obs fn huber_a (Some (XFin d)) = Ok T ->
  In (XFin f) (concat fcsts) -> exists q, In (XFin q) T /\ q == f - d.
Proof. intros Hfn H If. rewrite (thetas_unfold _ _ _ _ _ _ H). apply xsort_uniq_has_fin.
 destruct Hfn; subst; cbn [theta_points String.eqb Ascii.eqb Bool.eqb];
 apply in_or_app; right; apply in_or_app; left;
 change (XFin (f - d)) with ((fun v => xsub v (XFin d)) (XFin f)); apply in_map; auto. Qed.

(* ---------------- murphy_score at one (theta, fcst, obs) cell: NaN matching + kernel + merge ---------------- *)
Lemma murphy_point_nan fn alpha a t f o : xisnan t || xisnan f || xisnan o = true ->
  murphy_point fn alpha a t f o = (XNaN, XNaN, XNaN).
Proof. intro H. unfold murphy_point, matched. rewrite H. destruct (murphy_kernel fn XNaN XNaN XNaN alpha a). apply merge_nan. Qed.

Lemma murphy_point_fin fn alpha a t f o :
  murphy_point fn alpha a (XFin t) (XFin f) (XFin o)
  = gen_murphy_merge (fst (murphy_kernel fn (XFin f) (XFin o) (XFin t) alpha a)) (snd (murphy_kernel fn (XFin f) (XFin o) (XFin t) alpha a)) (XFin f).
Proof. unfold murphy_point, matched. cbn [xisnan orb]. destruct (murphy_kernel fn (XFin f) (XFin o) (XFin t) alpha a). reflexivity. Qed.

Lemma murphy_point_quantile alpha a t f o :
  let r := murphy_point "quantile" (XFin alpha) a (XFin t) (XFin f) (XFin o) in
  m_total r =x= XFin (es_quantile alpha f o t) /\ m_under r =x= XFin (es_quantile_under alpha f o t) /\ m_over r =x= XFin (es_quantile_over alpha f o t).
Proof. cbv zeta. rewrite murphy_point_fin. exact (elementary_quantile_spec alpha f o t). Qed.
Lemma murphy_point_huber alpha a t f o :
  let r := murphy_point "huber" (XFin alpha) (Some (XFin a)) (XFin t) (XFin f) (XFin o) in
  m_total r =x= XFin (es_huber alpha a f o t) /\ m_under r =x= XFin (es_huber_under alpha a f o t) /\ m_over r =x= XFin (es_huber_over alpha a f o t).
Proof. cbv zeta. rewrite murphy_point_fin. exact (elementary_huber_spec alpha a f o t). Qed.
Lemma murphy_point_expectile alpha a t f o :
  let r := murphy_point "expectile" (XFin alpha) a (XFin t) (XFin f) (XFin o) in
  m_total r =x= XFin (es_expectile alpha f o t) /\ m_under r =x= XFin (es_expectile_under alpha f o t) /\ m_over r =x= XFin (es_expectile_over alpha f o t).
Proof. cbv zeta. rewrite murphy_point_fin. exact (elementary_expectile_spec alpha f o t). Qed.
