(* proofs/C16_code.v -- the scalar tail of the FSS (zero denominator, clamping), regenerated from source in both places where
   it is written (backend.compute_fss: site C16.single; _aggregate_fss_decomposed: site C16.agg), equals the model's
   fss_of_comps, which every C16 theorem is about. *)
From V Require Import lib.Xval model.C16 gen.Gen_C16_kern.
From Coq Require Import QArith Lqa.

Theorem gen_compute_fss_is_model f o d :
  gen_compute_fss (XFin f) (XFin o) (XFin d) =x= XFin (fss_of_comps {| cf := f; co := o; cd := d |}).
Proof.
  unfold gen_compute_fss, fss_of_comps, pymax, pymin, qmax, qmin, xgt. cbn [cf co cd xadd xlt].
  pose proof (Qltb_spec 0 (f + o)) as H0. destruct (Qltb 0 (f + o)) eqn:E0.
  - assert (Hn : Qeq_bool (f + o) 0 = false).
    { destruct (Qeq_bool (f + o) 0) eqn:E; auto. apply Qeq_bool_eq in E. rewrite E in H0. lra. }
    cbn [xdiv xsub xadd xneg]. rewrite Hn. cbn [xdiv xsub xadd xneg xlt].
    set (r := 1 - d / (f + o)). replace (1 + - (d / (f + o))) with r by reflexivity.
    pose proof (Qltb_spec 1 r) as H1. pose proof (Qle_bool_spec r 1) as H2.
    destruct (Qltb 1 r), (Qle_bool r 1); cbn [xlt].
    all: try (exfalso; lra).
    + pose proof (Qltb_spec 1 0) as H3. pose proof (Qle_bool_spec 0 1) as H4.
      destruct (Qltb 1 0), (Qle_bool 0 1); cbn [xeq]; try lra; try reflexivity.
    + pose proof (Qltb_spec r 0) as H3. pose proof (Qle_bool_spec 0 r) as H4.
      destruct (Qltb r 0), (Qle_bool 0 r); cbn [xeq]; try lra; try reflexivity.
  - cbn [xlt]. vm_compute. reflexivity.
Qed.

(* the aggregation routine writes `obs_sum + fcst_sum` (the other order): same value *)
Theorem gen_aggregate_tail_is_model f o d :
  gen_aggregate_tail (XFin f) (XFin o) (XFin d) =x= XFin (fss_of_comps {| cf := f; co := o; cd := d |}).
Proof.
  unfold gen_aggregate_tail, fss_of_comps, pymax, pymin, qmax, qmin, xgt. cbn [cf co cd xadd xlt].
  assert (Eq : o + f == f + o) by ring.
  pose proof (Qltb_spec 0 (o + f)) as H0. pose proof (Qltb_spec 0 (f + o)) as H0'.
  destruct (Qltb 0 (o + f)) eqn:E0, (Qltb 0 (f + o)) eqn:E0'; try (exfalso; lra).
  - assert (Hn : Qeq_bool (o + f) 0 = false).
    { destruct (Qeq_bool (o + f) 0) eqn:E; auto. apply Qeq_bool_eq in E. rewrite E in H0. lra. }
    cbn [xdiv xsub xadd xneg]. rewrite Hn. cbn [xdiv xsub xadd xneg xlt].
    set (r := 1 - d / (f + o)). set (r' := 1 + - (d / (o + f))).
    assert (Er : r' == r). { unfold r, r'. rewrite Eq. ring. }
    pose proof (Qltb_spec 1 r') as H1. pose proof (Qle_bool_spec r 1) as H2.
    destruct (Qltb 1 r'), (Qle_bool r 1); cbn [xlt].
    all: try (exfalso; lra).
    + pose proof (Qltb_spec 1 0) as H3. pose proof (Qle_bool_spec 0 1) as H4.
      destruct (Qltb 1 0), (Qle_bool 0 1); cbn [xeq]; try lra; try reflexivity.
    + pose proof (Qltb_spec r' 0) as H3. pose proof (Qle_bool_spec 0 r) as H4.
      destruct (Qltb r' 0), (Qle_bool 0 r); cbn [xeq]; try lra; try reflexivity.
  - cbn [xlt]. vm_compute. reflexivity.
Qed.

(* both places agree with each other on every finite triple of components *)
Corollary single_and_aggregate_tails_agree f o d :
  gen_compute_fss (XFin f) (XFin o) (XFin d) =x= gen_aggregate_tail (XFin f) (XFin o) (XFin d).
Proof. rewrite gen_compute_fss_is_model, gen_aggregate_tail_is_model. reflexivity. Qed.

(* the regenerated tail is clamped to [0, 1] and is 0 for a zero denominator *)
Theorem gen_compute_fss_range f o d : exists q, gen_compute_fss (XFin f) (XFin o) (XFin d) =x= XFin q /\ 0 <= q <= 1.
Proof. exists (fss_of_comps {| cf := f; co := o; cd := d |}). split; [apply gen_compute_fss_is_model|].
  unfold fss_of_comps, qmax, qmin. cbn [cf co cd].
  set (x := if Qltb 0 (f + o) then 1 - d / (f + o) else 0).
  pose proof (Qle_bool_spec x 1) as H1. destruct (Qle_bool x 1).
  - pose proof (Qle_bool_spec 0 x) as H2. destruct (Qle_bool 0 x); lra.
  - pose proof (Qle_bool_spec 0 1) as H2. destruct (Qle_bool 0 1); lra.
Qed.
Theorem gen_compute_fss_zero_denominator f o d : f + o == 0 -> gen_compute_fss (XFin f) (XFin o) (XFin d) =x= XFin 0.
Proof. intro H. rewrite gen_compute_fss_is_model. cbn [xeq]. unfold fss_of_comps. cbn [cf co cd].
  rewrite (Qltb_false 0 (f + o)) by lra. vm_compute. reflexivity. Qed.
