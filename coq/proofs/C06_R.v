(* proofs/C06_R.v -- R-level statements of C06 (Coquelicot is_RInt), bridged to the rational model with Q2R:
   the kernel form of the ensemble CRPS is the integral of (F_ens - 1{y <= t})^2, and the threshold integral of
   the ensemble Brier score (with / without the fair correction) is the matching CRPS.
   Not required by coq/model (extraction stays free of Reals). *)
From V Require Import lib.Tree gen.Gen_C06_crps model.C06 proofs.C06 proofs.C06_model.
From Coq Require Import Reals Lra Qreals.
From Coquelicot Require Import Coquelicot.
Open Scope R_scope.

Fixpoint sumR (l : list R) : R := match l with [] => 0 | x :: t => x + sumR t end.
Definition ind_le (a t : R) : R := if Rle_dec a t then 1 else 0.     (* 1{a <= t}: CDF convention *)
Definition ind_ge (a t : R) : R := if Rle_dec t a then 1 else 0.     (* 1{a >= t}: event "value >= threshold" *)

Lemma RInt_piece (w : R -> R) (c x y : R) :
  x <= y -> (forall t, x < t < y -> w t = c) -> is_RInt w x y (c * (y - x)).
Proof.
  intros Hxy Hw. apply is_RInt_ext with (f := fun _ => c).
  - intros t Ht. rewrite Rmin_left, Rmax_right in Ht by lra. symmetry; apply Hw; lra.
  - replace (c * (y - x)) with (scal (y - x) c) by (unfold scal; simpl; unfold mult; simpl; ring).
    apply (@is_RInt_const R_CompleteNormedModule).
Qed.

(* an indicator family: two values, switching at its first argument (either one-sided convention) *)
Definition step_family (ind : R -> R -> R) : Prop :=
  (forall a t, t < a -> ind a t = 0) /\ (forall a t, a < t -> ind a t = 1)
  \/ (forall a t, t < a -> ind a t = 1) /\ (forall a t, a < t -> ind a t = 0).
Lemma ind_le_step : step_family ind_le.
Proof. left. split; intros a t H; unfold ind_le; destruct (Rle_dec a t); lra. Qed.
Lemma ind_ge_step : step_family ind_ge.
Proof. right. split; intros a t H; unfold ind_ge; destruct (Rle_dec t a); lra. Qed.

(* integral of the squared difference of two steps = |a-b| (values at the break points are irrelevant) *)
Lemma ind_diff_sq ind a b lo hi : step_family ind -> lo <= a <= hi -> lo <= b <= hi ->
  is_RInt (fun t => (ind a t - ind b t) ^ 2) lo hi (Rabs (a - b)).
Proof.
  intros Hs Ha Hb.
  assert (W : forall a b, lo <= a <= hi -> lo <= b <= hi -> a <= b ->
              is_RInt (fun t => (ind a t - ind b t) ^ 2) lo hi (b - a)).
  { clear a b Ha Hb. intros a b Ha Hb Hab.
    replace (b - a) with (plus (0 * (a - lo)) (plus (1 * (b - a)) (0 * (hi - b)))) by (unfold plus; simpl; ring).
    apply (@is_RInt_Chasles R_CompleteNormedModule) with (b := a).
    - apply RInt_piece; [lra|]. intros t Ht. destruct Hs as [[Hlt Hgt]|[Hlt Hgt]]; rewrite (Hlt a t), (Hlt b t) by lra; ring.
    - apply (@is_RInt_Chasles R_CompleteNormedModule) with (b := b).
      + apply RInt_piece; [lra|]. intros t Ht. destruct Hs as [[Hlt Hgt]|[Hlt Hgt]]; rewrite (Hgt a t), (Hlt b t) by lra; ring.
      + apply RInt_piece; [lra|]. intros t Ht. destruct Hs as [[Hlt Hgt]|[Hlt Hgt]]; rewrite (Hgt a t), (Hgt b t) by lra; ring. }
  destruct (Rle_dec a b) as [Hab|Hab].
  - rewrite Rabs_left1 by lra. replace (- (a - b)) with (b - a) by ring. apply W; auto.
  - rewrite Rabs_right by lra.
    apply is_RInt_ext with (f := fun t => (ind b t - ind a t) ^ 2).
    + intros t _. simpl. ring.
    + apply W; auto; lra.
Qed.

(* linearity of is_RInt over list sums *)
Lemma is_RInt_sumR {A} (l : list A) (f : A -> R -> R) (I : A -> R) lo hi :
  (forall x, In x l -> is_RInt (f x) lo hi (I x)) ->
  is_RInt (fun t => sumR (map (fun x => f x t) l)) lo hi (sumR (map I l)).
Proof.
  induction l as [|x xs IH]; intros H; simpl.
  - assert (E : is_RInt (fun _ : R => 0) lo hi (scal (hi - lo) 0)) by apply (@is_RInt_const R_CompleteNormedModule).
    replace (scal (hi - lo) 0) with 0 in E by (unfold scal; simpl; unfold mult; simpl; ring). exact E.
  - apply (@is_RInt_plus R_CompleteNormedModule).
    + apply H; left; auto.
    + apply IH. intros y Hy. apply H; right; auto.
Qed.

(* pointwise variance identity, for arbitrary reals u_i and v *)
Lemma sum_scale c l : sumR (map (fun u => c * u) l) = c * sumR l.
Proof. induction l; simpl; [ring| rewrite IHl; ring]. Qed.
Lemma sum_plus {A} (f g : A -> R) l : sumR (map (fun x => f x + g x) l) = sumR (map f l) + sumR (map g l).
Proof. induction l; simpl; [ring| rewrite IHl; ring]. Qed.
Lemma sum_const {A} (c : R) (l : list A) : sumR (map (fun _ => c) l) = INR (length l) * c.
Proof. induction l; [simpl; ring|]. cbn [map sumR]. rewrite IHl. change (length (a :: l)) with (S (length l)). rewrite S_INR. ring. Qed.
Lemma sum_ext {A} (f g : A -> R) l : (forall x, f x = g x) -> sumR (map f l) = sumR (map g l).
Proof. intros H. induction l; simpl; auto. rewrite H, IHl. auto. Qed.
Lemma sum_ext_in {A} (f g : A -> R) l : (forall x, In x l -> f x = g x) -> sumR (map f l) = sumR (map g l).
Proof. intros H. induction l; simpl; auto. rewrite H, IHl; auto. intros; apply H; right; auto. left; auto. Qed.

Lemma double_sum us :
  sumR (map (fun ui => sumR (map (fun uj => (ui - uj) ^ 2) us)) us)
  = 2 * INR (length us) * sumR (map (fun u => u ^ 2) us) - 2 * (sumR us) ^ 2.
Proof.
  set (m := INR (length us)). set (S1 := sumR us). set (S2 := sumR (map (fun u => u ^ 2) us)).
  assert (inner : forall ui, sumR (map (fun uj => (ui - uj) ^ 2) us) = m * ui ^ 2 - 2 * ui * S1 + S2).
  { intros ui. rewrite (sum_ext _ (fun uj => (ui ^ 2 + (-2 * ui) * uj) + uj ^ 2)) by (intros; ring).
    rewrite (sum_plus (fun uj => ui ^ 2 + -2 * ui * uj) (fun uj => uj ^ 2)).
    rewrite (sum_plus (fun _ => ui ^ 2) (fun uj => -2 * ui * uj)).
    rewrite sum_const. rewrite (sum_scale (-2 * ui)). fold m S1 S2.
    replace (sumR (map (fun u => u) us)) with S1. ring. unfold S1. rewrite map_id. auto. }
  rewrite (sum_ext _ _ us inner).
  rewrite (sum_ext _ (fun ui => (m * ui ^ 2 + (-2 * S1) * ui) + S2)) by (intros; ring).
  rewrite (sum_plus (fun ui => m * ui ^ 2 + -2 * S1 * ui) (fun _ => S2)).
  rewrite (sum_plus (fun ui => m * ui ^ 2) (fun ui => -2 * S1 * ui)).
  rewrite sum_const. rewrite (sum_scale (-2 * S1)).
  replace (sumR (map (fun ui => m * ui ^ 2) us)) with (m * S2).
  2:{ unfold S2. rewrite <- sum_scale. rewrite map_map. auto. }
  fold m S1. ring.
Qed.

Lemma variance_identity us v : us <> [] ->
  let m := INR (length us) in
  (sumR us / m - v) ^ 2
  = / m * sumR (map (fun u => (u - v) ^ 2) us)
    - / (2 * m ^ 2) * sumR (map (fun ui => sumR (map (fun uj => (ui - uj) ^ 2) us)) us).
Proof.
  intros Hne m. assert (Hm : m <> 0). { unfold m. destruct us; [congruence|]. apply not_0_INR. simpl; auto. }
  rewrite double_sum. fold m.
  rewrite (sum_ext _ (fun u => (u ^ 2 + (-2 * v) * u) + v ^ 2)) by (intros; ring).
  rewrite (sum_plus (fun u => u ^ 2 + -2 * v * u) (fun _ => v ^ 2)).
  rewrite (sum_plus (fun u => u ^ 2) (fun u => -2 * v * u)).
  rewrite sum_const, (sum_scale (-2 * v)). fold m. field. auto.
Qed.

(* for 0/1-valued u_i:  i (m - i) = (1/2) sum_i sum_j (u_i - u_j)^2  with i = sum u_i *)
Lemma binary_pairs us : (forall u, In u us -> u = 0 \/ u = 1) ->
  sumR us * (INR (length us) - sumR us) = / 2 * sumR (map (fun ui => sumR (map (fun uj => (ui - uj) ^ 2) us)) us).
Proof.
  intro Hb. rewrite double_sum.
  assert (E : sumR (map (fun u => u ^ 2) us) = sumR us).
  { rewrite <- (map_id us) at 2. apply sum_ext_in. intros u Hu. destruct (Hb u Hu) as [-> | ->]; ring. }
  rewrite E. field.
Qed.

(* kernel forms over the reals *)
Definition obs_sumR (xs : list R) (y : R) : R := sumR (map (fun x => Rabs (x - y)) xs).
Definition pair_sumR (xs : list R) : R := sumR (map (fun xi => sumR (map (fun xj => Rabs (xj - xi)) xs)) xs).
Definition crps_kernel (xs : list R) (y : R) : R :=
  let m := INR (length xs) in / m * obs_sumR xs y - / (2 * m ^ 2) * pair_sumR xs.
Definition crps_kernel_fair (xs : list R) (y : R) : R :=
  let m := INR (length xs) in / m * obs_sumR xs y - / (2 * m * (m - 1)) * pair_sumR xs.

Lemma pair_int ind xs lo hi : step_family ind -> (forall x, In x xs -> lo <= x <= hi) ->
  is_RInt (fun t => sumR (map (fun xi => sumR (map (fun xj => (ind xi t - ind xj t) ^ 2) xs)) xs)) lo hi (pair_sumR xs).
Proof.
  intros Hs Hx. unfold pair_sumR.
  apply (is_RInt_sumR xs (fun xi t => sumR (map (fun xj => (ind xi t - ind xj t) ^ 2) xs))
                         (fun xi => sumR (map (fun xj => Rabs (xj - xi)) xs))).
  intros xi Hi.
  apply (is_RInt_sumR xs (fun xj t => (ind xi t - ind xj t) ^ 2) (fun xj => Rabs (xj - xi))).
  intros xj Hj. rewrite Rabs_minus_sym. apply ind_diff_sq; auto.
Qed.
Lemma obs_int ind xs y lo hi : step_family ind -> (forall x, In x xs -> lo <= x <= hi) -> lo <= y <= hi ->
  is_RInt (fun t => sumR (map (fun x => (ind x t - ind y t) ^ 2) xs)) lo hi (obs_sumR xs y).
Proof.
  intros Hs Hx Hy. unfold obs_sumR.
  apply (is_RInt_sumR xs (fun x t => (ind x t - ind y t) ^ 2) (fun x => Rabs (x - y))).
  intros x Hin. apply ind_diff_sq; auto.
Qed.

(* (mean of the member steps - observation step)^2 integrates to the kernel form: any step convention *)
Theorem kernel_integral ind xs y lo hi : step_family ind ->
  xs <> [] -> (forall x, In x xs -> lo <= x <= hi) -> lo <= y <= hi ->
  is_RInt (fun t => (sumR (map (fun x => ind x t) xs) / INR (length xs) - ind y t) ^ 2) lo hi (crps_kernel xs y).
Proof.
  intros Hs Hne Hx Hy. set (m := INR (length xs)).
  apply is_RInt_ext with
   (f := fun t => / m * sumR (map (fun x => (ind x t - ind y t) ^ 2) xs)
                  - / (2 * m ^ 2) * sumR (map (fun xi => sumR (map (fun xj => (ind xi t - ind xj t) ^ 2) xs)) xs)).
  { intros t _. fold m.
    pose proof (variance_identity (map (fun x => ind x t) xs) (ind y t)) as V.
    rewrite map_length in V. fold m in V. rewrite V.
    - rewrite !map_map. f_equal. f_equal. apply sum_ext. intros. rewrite map_map. auto.
    - destruct xs; simpl; congruence. }
  unfold crps_kernel. fold m.
  apply (@is_RInt_minus R_CompleteNormedModule).
  - apply (@is_RInt_scal R_CompleteNormedModule). apply obs_int; auto.
  - apply (@is_RInt_scal R_CompleteNormedModule). apply pair_int; auto.
Qed.

(* the same with the fair correction  i (m - i) / (m^2 (m - 1))  subtracted pointwise: needs 0/1 values and m >= 2 *)
Theorem kernel_integral_fair ind xs y lo hi : step_family ind -> (forall a t, ind a t = 0 \/ ind a t = 1) ->
  (2 <= length xs)%nat -> (forall x, In x xs -> lo <= x <= hi) -> lo <= y <= hi ->
  is_RInt (fun t => let i := sumR (map (fun x => ind x t) xs) in let m := INR (length xs) in
                    (i / m - ind y t) ^ 2 - i * (m - i) / (m ^ 2 * (m - 1))) lo hi (crps_kernel_fair xs y).
Proof.
  intros Hs Hb H2 Hx Hy. set (m := INR (length xs)).
  assert (Hm : 2 <= m). { unfold m. replace 2 with (INR 2) by (simpl; ring). apply le_INR. exact H2. }
  assert (Hne : xs <> []) by (destruct xs; simpl in H2; [lia | congruence]).
  apply is_RInt_ext with
   (f := fun t => (sumR (map (fun x => ind x t) xs) / m - ind y t) ^ 2
                  - / (2 * m ^ 2 * (m - 1)) * sumR (map (fun xi => sumR (map (fun xj => (ind xi t - ind xj t) ^ 2) xs)) xs)).
  { intros t _. cbv zeta. fold m. f_equal.
    pose proof (binary_pairs (map (fun x => ind x t) xs)) as B. rewrite map_length in B. fold m in B.
    rewrite B.
    - rewrite !map_map. rewrite (sum_ext (fun x => sumR (map (fun uj => (ind x t - uj) ^ 2) (map (fun x0 => ind x0 t) xs)))
                                         (fun xi => sumR (map (fun xj => (ind xi t - ind xj t) ^ 2) xs))) by (intros; rewrite map_map; auto).
      field. lra.
    - intros u Hu. apply in_map_iff in Hu. destruct Hu as [x [<- _]]. apply Hb. }
  replace (crps_kernel_fair xs y) with (minus (crps_kernel xs y) (/ (2 * m ^ 2 * (m - 1)) * pair_sumR xs)).
  2:{ unfold crps_kernel_fair, crps_kernel, minus, plus, opp. simpl. fold m. field. lra. }
  apply (@is_RInt_minus R_CompleteNormedModule).
  - apply kernel_integral; auto.
  - apply (@is_RInt_scal R_CompleteNormedModule). apply pair_int; auto.
Qed.

(* ---------------------------------------------------------------------------------------------- *)
(* Q2R bridge                                                                                        *)
(* ---------------------------------------------------------------------------------------------- *)
Lemma Q2R_inject_Z z : Q2R (inject_Z z) = IZR z.
Proof. unfold Q2R, inject_Z. simpl. field. Qed.
Lemma Q2R_qlen (X : list Q) : Q2R (qlen X) = INR (length X).
Proof. unfold qlen. rewrite Q2R_inject_Z. symmetry. apply INR_IZR_INZ. Qed.
Lemma Q2R_zero : Q2R 0 = 0.
Proof. change 0%Q with (inject_Z 0). apply Q2R_inject_Z. Qed.
Lemma Q2R_one : Q2R 1 = 1.
Proof. change 1%Q with (inject_Z 1). apply Q2R_inject_Z. Qed.
Lemma Q2R_two : Q2R 2 = 2.
Proof. change 2%Q with (inject_Z 2). apply Q2R_inject_Z. Qed.
Lemma Q2R_qsum l : Q2R (qsum l) = sumR (map Q2R l).
Proof. induction l as [|a l IH]; cbn [qsum map sumR]. apply Q2R_zero. rewrite Q2R_plus, IH. reflexivity. Qed.
Lemma Q2R_abs q : Q2R (Qabs q) = Rabs (Q2R q).
Proof.
  apply (Qabs_case q (fun z => Q2R z = Rabs (Q2R q))); intro H; apply Qle_Rle in H; rewrite Q2R_zero in H.
  - rewrite Rabs_right; auto. lra.
  - rewrite Q2R_opp, Rabs_left1; auto.
Qed.
Lemma Q2R_absdiff a b : Q2R (Qabs (a - b)) = Rabs (Q2R a - Q2R b).
Proof. rewrite Q2R_abs, Q2R_minus. reflexivity. Qed.

Lemma Q2R_obs_sum X y : Q2R (q_obs_sum X y) = obs_sumR (map Q2R X) (Q2R y).
Proof. unfold q_obs_sum, obs_sumR. rewrite Q2R_qsum, !map_map. apply sum_ext. intro x. apply Q2R_absdiff. Qed.
Lemma Q2R_pair_sum X : Q2R (q_pair_sum X) = pair_sumR (map Q2R X).
Proof. unfold q_pair_sum, pair_sumR. rewrite Q2R_qsum, !map_map. apply sum_ext. intro xi.
  rewrite Q2R_qsum, !map_map. apply sum_ext. intro xj. apply Q2R_absdiff. Qed.

Lemma qlen_R_pos (X : list Q) : X <> [] -> 0 < INR (length X).
Proof. intro H. destruct X; [congruence|]. apply lt_0_INR. simpl. lia. Qed.
Lemma qlen_nz (X : list Q) : X <> [] -> ~ (qlen X == 0)%Q.
Proof. intros H E. apply Qeq_eqR in E. rewrite Q2R_qlen, Q2R_zero in E. pose proof (qlen_R_pos X H). lra. Qed.

Lemma Q2R_crps_ecdf X y : X <> [] -> Q2R (crps_ecdf X y) = crps_kernel (map Q2R X) (Q2R y).
Proof.
  intro H. pose proof (qlen_R_pos X H) as Hm. pose proof (qlen_nz X H) as Hq.
  unfold crps_ecdf, crps_kernel. rewrite map_length.
  rewrite Q2R_minus, !Q2R_div, !Q2R_mult, Q2R_two, Q2R_qlen, Q2R_obs_sum, Q2R_pair_sum; auto.
  - field. lra.
  - intro E. apply Qeq_eqR in E. rewrite !Q2R_mult, Q2R_two, Q2R_qlen, Q2R_zero in E. nra.
Qed.
Lemma Q2R_crps_fair X y : (2 <= length X)%nat -> Q2R (crps_fair X y) = crps_kernel_fair (map Q2R X) (Q2R y).
Proof.
  intro H2. assert (H : X <> []) by (destruct X; simpl in H2; [lia | congruence]).
  assert (Hm : 2 <= INR (length X)). { replace 2 with (INR 2) by (simpl; ring). apply le_INR. exact H2. }
  pose proof (qlen_nz X H) as Hq.
  unfold crps_fair, crps_kernel_fair. rewrite map_length.
  rewrite Q2R_minus, !Q2R_div, !Q2R_mult, Q2R_minus, Q2R_one, Q2R_two, Q2R_qlen, Q2R_obs_sum, Q2R_pair_sum; auto.
  - field. lra.
  - intro E. apply Qeq_eqR in E. rewrite !Q2R_mult, Q2R_minus, Q2R_one, Q2R_two, Q2R_qlen, Q2R_zero in E. nra.
Qed.

Lemma in_map_bounds (X : list Q) lo hi : (forall x, In x X -> lo <= Q2R x <= hi) -> forall r, In r (map Q2R X) -> lo <= r <= hi.
Proof. intros H r Hr. apply in_map_iff in Hr. destruct Hr as [x [<- Hx]]. auto. Qed.

(* ---------------------------------------------------------------------------------------------- *)
(* the C06 integral theorems, stated on rational ensembles                                           *)
(* ---------------------------------------------------------------------------------------------- *)
(* empirical CDF of the ensemble and the squared-difference integrand *)
Definition ecdfR (X : list Q) (t : R) : R := sumR (map (fun x => ind_le (Q2R x) t) X) / INR (length X).

Theorem crps_ecdf_is_integral X y lo hi :
  X <> [] -> (forall x, In x X -> lo <= Q2R x <= hi) -> lo <= Q2R y <= hi ->
  is_RInt (fun t => (ecdfR X t - ind_le (Q2R y) t) ^ 2) lo hi (Q2R (crps_ecdf X y)).
Proof.
  intros Hne Hx Hy. rewrite (Q2R_crps_ecdf X y Hne).
  apply is_RInt_ext with (f := fun t => (sumR (map (fun x => ind_le x t) (map Q2R X)) / INR (length (map Q2R X)) - ind_le (Q2R y) t) ^ 2).
  { intros t _. unfold ecdfR. rewrite map_map, map_length. reflexivity. }
  apply kernel_integral; auto using ind_le_step. destruct X; simpl; congruence. apply in_map_bounds; auto.
Qed.

(* ensemble Brier score of the event "value >= t", as a function of a real threshold t *)
Definition brierR (fair : bool) (X : list Q) (y : Q) (t : R) : R :=
  let i := sumR (map (fun x => ind_ge (Q2R x) t) X) in
  let m := INR (length X) in
  (i / m - ind_ge (Q2R y) t) ^ 2 - (if fair then i * (m - i) / (m ^ 2 * (m - 1)) else 0).

Theorem brier_integrates_to_crps_ecdf X y lo hi :
  X <> [] -> (forall x, In x X -> lo <= Q2R x <= hi) -> lo <= Q2R y <= hi ->
  is_RInt (brierR false X y) lo hi (Q2R (crps_ecdf X y)).
Proof.
  intros Hne Hx Hy. rewrite (Q2R_crps_ecdf X y Hne).
  apply is_RInt_ext with (f := fun t => (sumR (map (fun x => ind_ge x t) (map Q2R X)) / INR (length (map Q2R X)) - ind_ge (Q2R y) t) ^ 2).
  { intros t _. unfold brierR. cbv zeta. rewrite map_map, map_length, Rminus_0_r. reflexivity. }
  apply kernel_integral; auto using ind_ge_step. destruct X; simpl; congruence. apply in_map_bounds; auto.
Qed.

Theorem brier_fair_integrates_to_crps_fair X y lo hi :
  (2 <= length X)%nat -> (forall x, In x X -> lo <= Q2R x <= hi) -> lo <= Q2R y <= hi ->
  is_RInt (brierR true X y) lo hi (Q2R (crps_fair X y)).
Proof.
  intros H2 Hx Hy. rewrite (Q2R_crps_fair X y H2).
  apply is_RInt_ext with (f := fun t => let i := sumR (map (fun x => ind_ge x t) (map Q2R X)) in let m := INR (length (map Q2R X)) in
                                        (i / m - ind_ge (Q2R y) t) ^ 2 - i * (m - i) / (m ^ 2 * (m - 1))).
  { intros t _. unfold brierR. rewrite map_map, map_length. reflexivity. }
  apply kernel_integral_fair; auto using ind_ge_step.
  - intros a t. unfold ind_ge. destruct (Rle_dec t a); auto.
  - rewrite map_length. exact H2.
  - apply in_map_bounds; auto.
Qed.

(* at a rational threshold the real Brier function is the rational one (which the executable cell computes) *)
Lemma ind_ge_rational a t : ind_ge (Q2R a) (Q2R t) = Q2R (q_ind_ge a t).
Proof.
  unfold ind_ge, q_ind_ge. pose proof (Qle_bool_spec t a) as S.
  destruct (Qle_bool t a), (Rle_dec (Q2R t) (Q2R a)); rewrite ?Q2R_one, ?Q2R_zero; auto.
  - exfalso. apply n. apply Qle_Rle. exact S.
  - exfalso. apply Rle_Qle in r. apply (Qlt_not_le _ _ S r).
Qed.
Theorem brierR_at_rational fair X y t : X <> [] -> (fair = true -> (2 <= length X)%nat) ->
  brierR fair X y (Q2R t) = Q2R (brier_q fair X y t).
Proof.
  intros Hne Hf. pose proof (qlen_R_pos X Hne) as Hm. pose proof (qlen_nz X Hne) as Hq.
  unfold brierR, brier_q. cbv zeta.
  assert (Ei : sumR (map (fun x => ind_ge (Q2R x) (Q2R t)) X) = Q2R (qsum (map (fun x => q_ind_ge x t) X))).
  { rewrite Q2R_qsum, map_map. apply sum_ext. intro x. apply ind_ge_rational. }
  rewrite Ei, ind_ge_rational. set (i := qsum (map (fun x => q_ind_ge x t) X)).
  destruct fair.
  - assert (H2 : 2 <= INR (length X)). { replace 2 with (INR 2) by (simpl; ring). apply le_INR. auto. }
    rewrite Q2R_minus, Q2R_mult, Q2R_minus, !Q2R_div, !Q2R_mult, !Q2R_minus, Q2R_one, Q2R_qlen; auto.
    + field. lra.
    + intro E. apply Qeq_eqR in E. rewrite !Q2R_mult, Q2R_minus, Q2R_one, Q2R_qlen, Q2R_zero in E. nra.
  - rewrite Q2R_minus, Q2R_mult, Q2R_minus, !Q2R_div, Q2R_zero, Q2R_qlen; auto. field. lra.
Qed.

(* the value computed by the executable case model (missing members dropped) is that integral *)
Theorem model_value_is_integral X y lo hi :
  noinf X -> qvals X <> [] -> (forall x, In x (qvals X) -> lo <= Q2R x <= hi) -> lo <= Q2R y <= hi ->
  exists v, crps_case "ecdf" X (XFin y) =x= XFin v
            /\ is_RInt (fun t => (ecdfR (qvals X) t - ind_le (Q2R y) t) ^ 2) lo hi (Q2R v).
Proof.
  intros H Hne Hx Hy. exists (crps_ecdf (qvals X) y). split.
  - rewrite (model_is_spec "ecdf" X (XFin y) (or_introl eq_refl) H eq_refl).
    destruct (qvals X) as [|q L] eqn:E; [congruence|]. rewrite (spec_case_cons _ X y q L E). reflexivity.
  - apply crps_ecdf_is_integral; auto.
Qed.

Theorem brier_function_is_model_cell fair X y t : X <> [] -> (fair = true -> (2 <= length X)%nat) ->
  brier_ens_cell fair (fins X) (XFin y) (XFin t) =x= XFin (brier_q fair X y t)
  /\ brierR fair X y (Q2R t) = Q2R (brier_q fair X y t).
Proof. intros H1 H2. split; [exact (brier_cell_is_brier_q fair X y t H1) | exact (brierR_at_rational fair X y t H1 H2)]. Qed.
