(* proofs/C12_inf.v -- the FIRM kernel on EXTENDED values: +inf / -inf forecasts, observations and thresholds are
   valid data (they compare like any other value).  Round 4: /repo's `_single_category_score` multiplied the discounted
   distance min(t - o, d) by the 0/1 condition; with an infinite observation the distance is -inf on the side where the
   condition is 0, and -inf * 0 = NaN (repo_fixes/firm-discount-infinite-obs.diff keeps the distance only where the
   condition holds, 0 elsewhere and where it is inf - inf, i.e. observation = threshold).  These lemmas are about the repaired text: they do not compile against the unrepaired one. *)
From V Require Import lib.Tree lib.C12_aux gen.Gen_C12_kern model.C12 proofs.C12.

Ltac xkern_go :=
  cbn -[Qle_bool Qeq_bool Qcompare Qmult Qplus Qminus Qopp Qdiv Qinv]; qcmpx;
  cbn -[Qmult Qplus Qminus Qopp Qdiv Qinv]; qcmpx;
  cbn -[Qmult Qplus Qminus Qopp Qdiv Qinv].

(* the kernel equals the stated penalties for EVERY non-NaN forecast, observation and threshold, finite or infinite,
   every risk parameter, both assignments, discount 0 / finite non-zero / inf *)
Lemma firm_single_x_ok (s : string) (a : Q) (f o t : xv) (d : disc) :
  (match d with DFin q => 0 < q | _ => True end) ->
  f <> XNaN -> o <> XNaN -> t <> XNaN ->
  let lower := String.eqb s "lower" in
  let '(tot, over, under) := gen_firm_single f o (XFin a) t (xdisc d) s in
  over =x= firm_over_x lower a d f o t /\ under =x= firm_under_x lower a d f o t /\
  tot =x= xadd (firm_over_x lower a d f o t) (firm_under_x lower a d f o t).
Proof.
  intros Hd Hf Ho Ht. unfold gen_firm_single, firm_over_x, firm_under_x, xfa, xmiss, xfscale, xdist.
  destruct f as [|f|[|]]; try congruence; destruct o as [|o|[|]]; try congruence; destruct t as [|t|[|]]; try congruence;
  destruct (String.eqb s "lower"); destruct d as [|q|]; unfold xdisc, X0, X1; xunf; xkern_go;
  repeat split; try lra; try contradiction; try (exfalso; lra).
Qed.

(* on finite values the extended specification is the rational one of C12_firm_single_spec *)
Lemma firm_spec_x_fin (lower : bool) (a f o t : Q) (d : disc) :
  firm_over_x lower a d (XFin f) (XFin o) (XFin t) =x= XFin (firm_over_q lower a d f o t) /\
  firm_under_x lower a d (XFin f) (XFin o) (XFin t) =x= XFin (firm_under_q lower a d f o t).
Proof.
  unfold firm_over_x, firm_under_x, firm_over_q, firm_under_q, xfa, xmiss, firm_fa, firm_miss, xfscale, xdist, fscale, Qmin2, X0, X1.
  destruct lower; destruct d as [|q|]; xunf; xkern_go; repeat split; try lra; try (exfalso; lra).
Qed.

(* what the extended specification says with an infinite observation (the case /repo got wrong), spelled out:
   discounting with a finite distance d > 0, 0 < a < 1 *)
Lemma firm_x_obs_pinf (lower : bool) (a d f t : Q) : 0 < d ->
  firm_over_x lower a (DFin d) (XFin f) (XInf true) (XFin t) = X0 /\
  firm_under_x lower a (DFin d) (XFin f) (XInf true) (XFin t) =x=
    XFin (if (if lower then Qle_bool f t else Qltb f t) then a * d else 0).
Proof.
  intro Hd. unfold firm_over_x, firm_under_x, xfa, xmiss, xfscale, xdist, X0. destruct lower; xunf; xkern_go;
  repeat split; try lra; try (exfalso; lra).
Qed.
Lemma firm_x_obs_ninf (lower : bool) (a d f t : Q) : 0 < d ->
  firm_under_x lower a (DFin d) (XFin f) (XInf false) (XFin t) = X0 /\
  firm_over_x lower a (DFin d) (XFin f) (XInf false) (XFin t) =x=
    XFin (if (if lower then Qltb t f else Qle_bool t f) then (1 - a) * d else 0).
Proof.
  intro Hd. unfold firm_over_x, firm_under_x, xfa, xmiss, xfscale, xdist, X0. destruct lower; xunf; xkern_go;
  repeat split; try lra; try (exfalso; lra).
Qed.
