(* proofs/C16_sat.v -- the summed-area-table model of fss_numpy.py computes window counts:
   sat_window_sum (D - B - C + A = window sum), the list-level table (cumsum/hstack/vstack) is the
   prefix-sum function, both index meshes stay inside the table, and the windows the code visits
   are characterised for both padding modes. *)
From V Require Import lib.Tree model.C16.
Open Scope Z_scope.

(* ---- zsum ---- *)
Lemma zsum_ext n f g : (forall k, (k < n)%nat -> f k = g k) -> zsum n f = zsum n g.
Proof. induction n; simpl; intros H; auto. rewrite IHn, H; auto. Qed.
Lemma zsum_add n f g : zsum n (fun k => f k + g k) = zsum n f + zsum n g.
Proof. induction n; simpl; auto. rewrite IHn. lia. Qed.
Lemma zsum_sub n f g : zsum n (fun k => f k - g k) = zsum n f - zsum n g.
Proof. induction n; simpl; auto. rewrite IHn. lia. Qed.
Lemma zsum_split a b f : zsum (a + b) f = zsum a f + zsum b (fun k => f (a + k)%nat).
Proof. induction b; simpl.
 - rewrite Nat.add_0_r. lia.
 - rewrite Nat.add_succ_r. simpl. rewrite IHb. lia. Qed.
Lemma zsum_zero n f : (forall k, (k < n)%nat -> f k = 0) -> zsum n f = 0.
Proof. induction n; simpl; intros H; auto. rewrite IHn, H; auto. Qed.
Lemma zsum_nonneg n f : (forall k, (k < n)%nat -> 0 <= f k) -> 0 <= zsum n f.
Proof. induction n; simpl; intros H. lia. assert (0 <= f n) by auto. assert (0 <= zsum n f) by auto. lia. Qed.
Lemma zsum_le n f g : (forall k, (k < n)%nat -> f k <= g k) -> zsum n f <= zsum n g.
Proof. induction n; simpl; intros H. lia. assert (f n <= g n) by auto. assert (zsum n f <= zsum n g) by auto. lia. Qed.
Lemma zsum_ge_term n f k : (forall i, (i < n)%nat -> 0 <= f i) -> (k < n)%nat -> f k <= zsum n f.
Proof. induction n; simpl; intros H Hk. lia.
 assert (0 <= f n) by auto. assert (0 <= zsum n f) by (apply zsum_nonneg; auto).
 destruct (Nat.eq_dec k n) as [->|N]. lia. assert (f k <= zsum n f) by (apply IHn; auto; lia). lia. Qed.
Lemma zsum_shift n f : zsum (S n) f = f O + zsum n (fun k => f (S k)).
Proof. induction n. simpl; lia. change (zsum (S (S n)) f) with (zsum (S n) f + f (S n)). rewrite IHn. simpl. lia. Qed.

(* 1-D: a window is a difference of prefix sums *)
Lemma zsum_window j w f : zsum w (fun c => f (j + c)%nat) = zsum (j + w) f - zsum j f.
Proof. rewrite zsum_split. lia. Qed.

(* ---- the summed-area-table identity the FSS code relies on: D - B - C + A ---- *)
Theorem sat_window_sum F i j h w :
  wsum F i j h w = sat F (i + h) (j + w) - sat F i (j + w) - sat F (i + h) j + sat F i j.
Proof.
  unfold sat, wsum. simpl.
  set (rowwin := fun r => zsum w (fun c => F r (j + c)%nat)).
  assert (E1 : zsum h (fun r => zsum w (fun c => F (i + r)%nat (j + c)%nat)) = zsum (i + h) rowwin - zsum i rowwin).
  { rewrite <- (zsum_window i h rowwin). reflexivity. }
  rewrite E1. unfold rowwin.
  assert (E2 : forall n, zsum n (fun r => zsum w (fun c => F r (j + c)%nat))
                       = zsum n (fun r => zsum (j + w) (fun c => F r c)) - zsum n (fun r => zsum j (fun c => F r c))).
  { intros n. rewrite <- zsum_sub. apply zsum_ext. intros r _. apply zsum_window. }
  rewrite !E2. lia.
Qed.

(* ---- zero extension: prefix sums of the padded plane are clipped prefix sums of the field ---- *)
Lemma zsum_band lo len m g :
  zsum m (fun i => if inband lo len i then g (i - lo)%nat else 0) = zsum (Nat.min (m - lo) len) g.
Proof.
  induction m as [|m IH]. reflexivity.
  cbn [zsum]. rewrite IH. unfold inband.
  destruct (Nat.leb_spec lo m); destruct (Nat.ltb_spec m (lo + len)); cbn [andb].
  - replace (Nat.min (S m - lo) len) with (S (m - lo)) by lia.
    replace (Nat.min (m - lo) len) with (m - lo)%nat by lia. reflexivity.
  - replace (Nat.min (S m - lo) len) with (Nat.min (m - lo) len) by lia. lia.
  - replace (Nat.min (S m - lo) len) with (Nat.min (m - lo) len) by lia. lia.
  - replace (Nat.min (S m - lo) len) with (Nat.min (m - lo) len) by lia. lia.
Qed.

Lemma sat_ext F H W pt pl x y :
  sat (ext F H W pt pl) x y = sat F (Nat.min (x - pt) H) (Nat.min (y - pl) W).
Proof.
  unfold sat, wsum. simpl.
  rewrite <- (zsum_band pt H x (fun r => zsum (Nat.min (y - pl) W) (fun c => F r c))).
  apply zsum_ext. intros r _. unfold ext.
  destruct (inband pt H r); simpl.
  - apply (zsum_band pl W y (fun c => F (r - pt)%nat c)).
  - apply zsum_zero. auto.
Qed.

(* ---- facts about int(w / 2) ---- *)
Lemma half_double w : (w = 2 * half w + Nat.b2n (Nat.odd w))%nat.
Proof. unfold half. rewrite Nat.div2_odd at 1. reflexivity. Qed.
Lemma half_bounds w : (2 * half w <= w <= 2 * half w + 1)%nat.
Proof. pose proof (half_double w). destruct (Nat.odd w); simpl in *; lia. Qed.
Lemma half_even w : Nat.even w = true -> (w = 2 * half w)%nat.
Proof. intro E. pose proof (half_double w). unfold Nat.odd in H. rewrite E in H. simpl in H. lia. Qed.
Lemma half_odd w : Nat.odd w = true -> (w = 2 * half w + 1)%nat.
Proof. intro E. pose proof (half_double w). rewrite E in H. simpl in H. lia. Qed.

(* ---- the index meshes never leave the (n+1)-entry table axis ---- *)
Theorem mesh_in_bounds pad n w k : (1 <= w <= n)%nat -> (k < a_n (sat_axis pad n w))%nat ->
  0 <= a_tl (sat_axis pad n w) k <= Z.of_nat n /\ 0 <= a_br (sat_axis pad n w) k <= Z.of_nat n
  /\ a_tl (sat_axis pad n w) k <= a_br (sat_axis pad n w) k.
Proof.
  intros Hw Hk. pose proof (half_bounds w). destruct pad; unfold sat_axis in *; cbn [a_n a_tl a_br] in *; unfold clipz; lia.
Qed.

(* per axis, in nat: the table indices of window position k *)
Lemma pad_tl_nat n w k : (k <= n)%nat ->
  Z.to_nat (a_tl (sat_axis true n w) k) = Nat.min (k - half w) n.
Proof. intro. unfold sat_axis; cbn [a_tl]. unfold clipz. lia. Qed.
Lemma pad_br_nat n w k : (1 <= w <= n)%nat ->
  Z.to_nat (a_br (sat_axis true n w) k) = Nat.min (k + w - half w) n.
Proof. intro. pose proof (half_bounds w). unfold sat_axis; cbn [a_br]. unfold clipz. lia. Qed.

(* ---- window values of an abstract table that agrees with the prefix sums ---- *)
Definition table_ok (P : Z -> Z -> Z) (F : field) (H W : nat) : Prop :=
  forall i j, (i <= H)%nat -> (j <= W)%nat -> P (Z.of_nat i) (Z.of_nat j) = sat F i j.

Lemma table_ok_z P F H W i j : table_ok P F H W -> 0 <= i <= Z.of_nat H -> 0 <= j <= Z.of_nat W ->
  P i j = sat F (Z.to_nat i) (Z.to_nat j).
Proof. intros T Hi Hj. rewrite <- (T (Z.to_nat i) (Z.to_nat j)) by lia. rewrite !Z2Nat.id by lia. reflexivity. Qed.

(* without padding: position (r, c) is the window with top-left cell (r, c) *)
Theorem win_area_nopad P F H W wh ww r c : table_ok P F H W ->
  (1 <= wh <= H)%nat -> (1 <= ww <= W)%nat -> (r < S H - wh)%nat -> (c < S W - ww)%nat ->
  win_area P (sat_axis false H wh) (sat_axis false W ww) r c = wsum F r c wh ww.
Proof.
  intros T Hh Hw Hr Hc. unfold win_area. simpl.
  rewrite !(table_ok_z P F H W) by (auto; lia).
  rewrite sat_window_sum. rewrite <- !Nat2Z.inj_add, !Nat2Z.id. reflexivity.
Qed.

(* with zero padding: position (r, c), r <= H, c <= W, is the window of the zero-extended plane
   whose top-left corner is (r - floor(wh/2), c - floor(ww/2)) in field coordinates *)
Theorem win_area_pad P F H W wh ww r c : table_ok P F H W ->
  (1 <= wh <= H)%nat -> (1 <= ww <= W)%nat -> (r <= H)%nat -> (c <= W)%nat ->
  win_area P (sat_axis true H wh) (sat_axis true W ww) r c = wsum (ext F H W (half wh) (half ww)) r c wh ww.
Proof.
  intros T Hh Hw Hr Hc. unfold win_area.
  pose proof (mesh_in_bounds true H wh r Hh) as Br. pose proof (mesh_in_bounds true W ww c Hw) as Bc.
  simpl a_n in Br, Bc. specialize (Br ltac:(lia)). specialize (Bc ltac:(lia)).
  rewrite !(table_ok_z P F H W) by (auto; lia).
  rewrite !pad_tl_nat, !pad_br_nat by lia.
  rewrite sat_window_sum, !sat_ext.
  pose proof (half_bounds wh). pose proof (half_bounds ww).
  replace (r + wh - half wh)%nat with (r + wh - half wh)%nat by lia.
  reflexivity.
Qed.

(* ---- the list-level table (cumsum(1).cumsum(0), zero column, zero row) is the prefix sum ---- *)
Definition rect (rows : list (list Z)) (H W : nat) : Prop := length rows = H /\ Forall (fun r => length r = W) rows.

Lemma cumsum_from_length acc l : length (cumsum_from acc l) = length l.
Proof. revert acc. induction l; simpl; auto. Qed.
Lemma cumsum_from_nth l : forall acc j, (j < length l)%nat ->
  nth j (cumsum_from acc l) 0 = acc + zsum (S j) (fun c => nth c l 0).
Proof.
  induction l as [|x t IH]; intros acc j Hj. simpl in Hj; lia.
  destruct j as [|j]. simpl. lia.
  change (cumsum_from acc (x :: t)) with ((acc + x) :: cumsum_from (acc + x) t). cbn [nth].
  rewrite IH by (simpl in Hj; lia). rewrite (zsum_shift (S j)). lia.
Qed.
Lemma vadd_length a b : length a = length b -> length (vadd a b) = length a.
Proof. revert b. induction a; destruct b; simpl; intros; auto; try discriminate. Qed.
Lemma vadd_nth a : forall b j, length a = length b -> nth j (vadd a b) 0 = nth j a 0 + nth j b 0.
Proof. induction a; destruct b; simpl; intros j E; try discriminate. destruct j; reflexivity.
 destruct j; auto. Qed.
Lemma cumrows_nth rows : forall acc i j W, length acc = W -> Forall (fun r => length r = W) rows -> (i < length rows)%nat ->
  nth j (nth i (cumrows acc rows) []) 0 = nth j acc 0 + zsum (S i) (fun r => nth j (nth r rows []) 0).
Proof.
  induction rows as [|x t IH]; intros acc i j W La Hf Hi. simpl in Hi; lia.
  inversion Hf; subst.
  change (cumrows acc (x :: t)) with (vadd acc x :: cumrows (vadd acc x) t).
  destruct i as [|i].
  - cbn [nth zsum]. rewrite vadd_nth by congruence. lia.
  - cbn [nth]. rewrite (IH (vadd acc x) i j (length x)); auto; try (simpl in Hi; lia).
    + rewrite vadd_nth by congruence. rewrite (zsum_shift (S i)). cbn [nth]. lia.
    + rewrite vadd_length; congruence.
    + rewrite H1. assumption.
Qed.
Lemma nth_repeat0 n j : nth j (repeat 0 n) 0 = 0.
Proof. revert j. induction n; destruct j; simpl; auto. Qed.

Lemma ncols_rect rows H W : rect rows H W -> (1 <= H)%nat -> ncols rows = W.
Proof. intros [L Hf] Hh. destruct rows; simpl in *. lia. inversion Hf; auto. Qed.

Theorem sat_table_ok rows H W : rect rows H W -> (1 <= H)%nat -> table_ok (tbl_get (sat_table rows)) (fld rows) H W.
Proof.
  intros R Hh i j Hi Hj. pose proof (ncols_rect rows H W R Hh) as NC. destruct R as [L Hf].
  unfold tbl_get, sat_table. rewrite !Nat2Z.id, NC.
  destruct i as [|i].
  - cbn [nth]. rewrite nth_repeat0. reflexivity.
  - cbn [nth].
    assert (Hi' : (i < length rows)%nat) by lia.
    set (c1 := map cumsum rows).
    assert (Hc1 : Forall (fun r => length r = W) c1).
    { unfold c1. rewrite Forall_map. eapply Forall_impl; [|exact Hf]. intros a Ha. unfold cumsum. rewrite cumsum_from_length. exact Ha. }
    assert (Lc1 : length c1 = length rows) by (unfold c1; apply map_length).
    assert (Lcr : forall acc l, length (cumrows acc l) = length l) by (intros acc l; revert acc; induction l; simpl; auto).
    rewrite (nth_indep _ [] (0 :: [])) by (rewrite map_length, Lcr; lia).
    change (0 :: []) with (cons 0 []). rewrite (map_nth (cons 0)).
    destruct j as [|j].
    + simpl. unfold sat, wsum. symmetry. apply zsum_zero. intros; reflexivity.
    + cbn [nth]. rewrite (cumrows_nth c1 (repeat 0 W) i j W); auto; try lia.
      2: apply repeat_length.
      rewrite nth_repeat0. unfold sat, wsum. cbn [Nat.add]. rewrite Z.add_0_l. apply zsum_ext. intros r Hr.
      unfold c1. rewrite (nth_indep _ [] (cumsum [])) by (rewrite map_length; lia).
      rewrite (map_nth cumsum). unfold cumsum.
      assert (Lr : length (nth r rows []) = W).
      { rewrite Forall_forall in Hf. apply Hf. apply nth_In. lia. }
      rewrite cumsum_from_nth by lia. unfold fld. lia.
Qed.
