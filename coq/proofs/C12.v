(* proofs/C12.v -- lemmas behind the C12 theorems (FIRM and the risk matrix score). *)
From V Require Import lib.Tree lib.C12_aux gen.Gen_C12_kern model.C12.

(* case-split every comparison, discarding contradictory branches as soon as they arise *)
Ltac qcmpx := repeat (qcmp1; try (exfalso; lra)).
Ltac kern_go :=
  cbn -[Qle_bool Qeq_bool Qcompare Qmult Qplus Qminus Qopp Qdiv Qinv]; qcmpx;
  cbn -[Qmult Qplus Qminus Qopp Qdiv Qinv].

(* ---- the single-category kernel equals the stated penalties ---- *)
Lemma firm_single_ok (s : string) (a f o t : Q) (d : disc) :
  (match d with DFin q => ~ q == 0 | _ => True end) ->
  let lower := String.eqb s "lower" in
  let '(tot, over, under) := gen_firm_single (XFin f) (XFin o) (XFin a) (XFin t) (xdisc d) s in
  over =x= XFin (firm_over_q lower a d f o t) /\ under =x= XFin (firm_under_q lower a d f o t) /\
  tot =x= XFin (firm_over_q lower a d f o t + firm_under_q lower a d f o t).
Proof.
  intros Hd. unfold gen_firm_single, firm_over_q, firm_under_q, firm_fa, firm_miss, fscale, Qmin2.
  destruct (String.eqb s "lower"); destruct d as [|q|]; unfold xdisc; xunf; kern_go;
  repeat split; try lra; try contradiction; try (exfalso; lra).
Qed.

Ltac split_ifs := repeat match goal with |- context [if ?c then _ else _] => destruct c end.

(* firm_score = overforecast_penalty + underforecast_penalty, for all inputs whatsoever *)
Lemma firm_total_is_sum f o a t d s :
  let '(tot, over, under) := gen_firm_single f o a t d s in tot = xadd over under.
Proof. unfold gen_firm_single. split_ifs; reflexivity. Qed.

(* ---- the regenerated scalar guards (their boundaries belong to C20; here they delimit the domain of the theorems) ---- *)
Lemma firm_guard_pass (a : Q) (d : xv) (s : string) :
  gen_guard_firm (XFin a) d s = None -> 0 < a < 1 /\ (s = "lower" \/ s = "upper")%string.
Proof.
  unfold gen_guard_firm. xunf. cbn -[Qle_bool String.eqb].
  pose proof (Qle_bool_spec a 0) as H0. pose proof (Qle_bool_spec 1 a) as H1.
  destruct (Qle_bool a 0), (Qle_bool 1 a); cbn -[String.eqb]; try discriminate.
  repeat match goal with |- context [if ?c then Some ValueError else _] => destruct c eqn:?; try discriminate end.
  intros _. split; [lra|].
  destruct (String.eqb_spec s "upper"); auto. destruct (String.eqb_spec s "lower"); auto. discriminate.
Qed.
Lemma firm_guard_ok (a : Q) (d : xv) (s : string) :
  0 < a < 1 -> disc_ok d -> (s = "lower" \/ s = "upper")%string -> gen_guard_firm (XFin a) d s = None.
Proof.
  intros Ha Hd Hs. unfold gen_guard_firm. xunf. cbn -[Qle_bool String.eqb].
  rewrite (Qle_bool_false a 0), (Qle_bool_false 1 a) by lra. cbn -[Qle_bool String.eqb].
  destruct d as [|q|[|]]; simpl in Hd; try contradiction; cbn -[Qle_bool String.eqb];
  try rewrite (Qle_bool_true 0 q) by lra; cbn -[String.eqb];
  destruct Hs as [-> | ->]; reflexivity.
Qed.
Lemma rms_guard_iff (fmax fmin tmax tmin : Q) (s : string) :
  gen_guard_rms (XFin fmax) (XFin fmin) (XFin tmax) (XFin tmin) s = None <->
  (fmax <= 1 /\ 0 <= fmin /\ 0 < tmin /\ tmax < 1 /\ (s = "lower" \/ s = "upper")%string).
Proof.
  unfold gen_guard_rms. xunf. cbn -[Qle_bool String.eqb].
  pose proof (Qle_bool_spec fmax 1). pose proof (Qle_bool_spec 0 fmin). pose proof (Qle_bool_spec tmin 0). pose proof (Qle_bool_spec 1 tmax).
  destruct (Qle_bool fmax 1), (Qle_bool 0 fmin), (Qle_bool tmin 0), (Qle_bool 1 tmax); cbn -[String.eqb];
  try (split; [discriminate | intros; exfalso; lra]).
  destruct (String.eqb_spec s "upper"); [subst; cbn; split; auto; intros; repeat split; auto; lra|].
  destruct (String.eqb_spec s "lower"); [subst; cbn; split; auto; intros; repeat split; auto; lra|].
  cbn. split; [discriminate|]. intros [_ [_ [_ [_ [?|?]]]]]; contradiction.
Qed.
