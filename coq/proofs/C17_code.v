(* proofs/C17_code.v -- adjust_fcst_for_crps ranks {original, upper, lower} with the caller's own CRPS options: the keyword
   arguments of its single crps_cdf call, read off the source on every run (site C17.fwd). *)
From Coq Require Import String List.
From V Require Import lib.Xval.
From V Require Import gen.Gen_C17_plumb.
Import ListNotations.
Open Scope string_scope.

(* the options of adjust_fcst_for_crps that decide which CRPS is computed *)
Definition crps_options : list string := ["threshold_dim"; "additional_thresholds"; "fcst_fill_method"; "integration_method"].

(* every one of them is a formal parameter of adjust_fcst_for_crps and is handed to crps_cdf under its own name, unchanged *)
Theorem adjust_forwards_every_crps_option : forall k, In k crps_options ->
  In k gen_adjust_crps_call_formals /\ In (k, k) gen_adjust_crps_call_keywords.
Proof. intros k H. cbv [crps_options In] in H.
  repeat (destruct H as [<- | H]; [split; cbv [gen_adjust_crps_call_formals gen_adjust_crps_call_keywords In]; tauto|]).
  contradiction. Qed.
(* nothing else is passed by keyword except the request to keep every case (the ranking is per case) *)
Theorem adjust_passes_nothing_else : forall k v, In (k, v) gen_adjust_crps_call_keywords ->
  (In k crps_options /\ v = k) \/ (k = "preserve_dims" /\ v = "crps_dims").
Proof. intros k v H. cbv [gen_adjust_crps_call_keywords In] in H.
  repeat (destruct H as [H | H]; [inversion H; subst; cbv [crps_options In]; tauto|]). contradiction. Qed.
(* the three candidate CDFs are scored against the caller's observations *)
Theorem adjust_scores_candidates_against_obs : gen_adjust_crps_call_positional = ["fcst_env"; "obs"].
Proof. reflexivity. Qed.
