(* proofs/C16_score.v -- properties of the score on every variant (definition / code-faithful) and
   padding mode: uniform characterisation of the windows, range (the clamp never acts), symmetry,
   identical fields, zero denominator, aggregation by components, binary entry point, NaN cells,
   and the lifting of the window theorems to fss_2d_single_field / fss_2d. *)
From V Require Import lib.Tree model.C16 proofs.C16_sat proofs.C16.
Open Scope Q_scope.

(* ------------------------------------------------------------------------------------------ *)
(* uniform description of the four (variant, padding) combinations                             *)
(* ------------------------------------------------------------------------------------------ *)
Definition npos (v : variant) (pad : bool) (n w : nat) : nat :=
  match v with VDef => npos_def pad n w | VSat => if pad then S n else (S n - w)%nat end.
Definition win_spec (pad : bool) (F : field) (H W wh ww : nat) : nat -> nat -> Z :=
  if pad then fun r c => wsum (ext F H W (half wh) (half ww)) r c wh ww else fun r c => wsum F r c wh ww.

Lemma comps_field_char v pad rf ro H W wh ww : rect rf H W -> rect ro H W -> (1 <= wh <= H)%nat -> (1 <= ww <= W)%nat ->
  comps_field v pad rf ro wh ww =
  comps_of (npos v pad H wh) (npos v pad W ww) (win_spec pad (fld rf) H W wh ww) (win_spec pad (fld ro) H W wh ww).
Proof.
  intros Rf Ro Hh Hw. destruct v.
  - unfold comps_field. rewrite (rect_nrows _ _ _ Rf), (ncols_rect _ _ _ Rf) by lia. reflexivity.
  - destruct pad.
    + apply comps_sat_pad_characterised; auto.
    + rewrite (comps_sat_eq_def_nopad rf ro H W) by auto.
      unfold comps_field. rewrite (rect_nrows _ _ _ Rf), (ncols_rect _ _ _ Rf) by lia.
      unfold npos, npos_def. replace (H + 1 - wh)%nat with (S H - wh)%nat by lia.
      replace (W + 1 - ww)%nat with (S W - ww)%nat by lia. reflexivity.
Qed.

Lemma npos_gt0 v pad n w : (1 <= w <= n)%nat -> (0 < npos v pad n w)%nat.
Proof. intro. pose proof (half_bounds w). destruct v, pad; unfold npos, npos_def; lia. Qed.

(* ------------------------------------------------------------------------------------------ *)
(* non-negative fields have non-negative window counts                                         *)
(* ------------------------------------------------------------------------------------------ *)
Definition nonneg (F : field) : Prop := forall i j, (0 <= F i j)%Z.
Definition nonneg_rows (rows : list (list Z)) : Prop := Forall (Forall (fun z => (0 <= z)%Z)) rows.

Lemma fld_nonneg rows : nonneg_rows rows -> nonneg (fld rows).
Proof.
  intros N i j. unfold fld.
  destruct (Nat.lt_ge_cases i (length rows)) as [Hi|Hi].
  - assert (Fr : Forall (fun z => (0 <= z)%Z) (nth i rows [])).
    { unfold nonneg_rows in N. rewrite Forall_forall in N. apply N. apply nth_In. exact Hi. }
    destruct (Nat.lt_ge_cases j (length (nth i rows []))) as [Hj|Hj].
    + rewrite Forall_forall in Fr. apply Fr. apply nth_In. exact Hj.
    + rewrite nth_overflow by exact Hj. lia.
  - rewrite (nth_overflow rows) by exact Hi. destruct j; simpl; lia.
Qed.
Lemma ext_nonneg F H W pt pl : nonneg F -> nonneg (ext F H W pt pl).
Proof. intros N i j. unfold ext. destruct (inband pt H i && inband pl W j). apply N. lia. Qed.
Lemma wsum_nonneg F i j h w : nonneg F -> (0 <= wsum F i j h w)%Z.
Proof. intro N. unfold wsum. apply zsum_nonneg. intros. apply zsum_nonneg. intros. apply N. Qed.
Lemma win_spec_nonneg pad F H W wh ww r c : nonneg F -> (0 <= win_spec pad F H W wh ww r c)%Z.
Proof. intro N. destruct pad; simpl; apply wsum_nonneg; auto. apply ext_nonneg; auto. Qed.

(* a window contains each of its cells *)
Lemma wsum_ge_cell F i j r c h w : nonneg F -> (r <= i < r + h)%nat -> (c <= j < c + w)%nat -> (F i j <= wsum F r c h w)%Z.
Proof.
  intros N Hi Hj. unfold wsum.
  assert (A : (F i j <= zsum w (fun c' => F i (c + c')%nat))%Z).
  { pose proof (zsum_ge_term w (fun c' => F i (c + c')%nat) (j - c)) as T. cbv beta in T.
    replace (c + (j - c))%nat with j in T by lia. apply T. intros; apply N. lia. }
  pose proof (zsum_ge_term h (fun r' => zsum w (fun c' => F (r + r')%nat (c + c')%nat)) (i - r)) as T. cbv beta in T.
  replace (r + (i - r))%nat with i in T by lia.
  assert (B : (zsum w (fun c' => F i (c + c')%nat) <= zsum h (fun r' => zsum w (fun c' => F (r + r')%nat (c + c')%nat)))%Z).
  { apply T. intros. apply zsum_nonneg. intros. apply N. lia. }
  lia.
Qed.
Lemma ext_inside F H W pt pl i j : (i < H)%nat -> (j < W)%nat -> ext F H W pt pl (pt + i)%nat (pl + j)%nat = F i j.
Proof.
  intros Hi Hj. unfold ext, inband.
  destruct (Nat.leb_spec pt (pt + i)%nat); [|lia]. destruct (Nat.ltb_spec (pt + i)%nat (pt + H)%nat); [|lia].
  destruct (Nat.leb_spec pl (pl + j)%nat); [|lia]. destruct (Nat.ltb_spec (pl + j)%nat (pl + W)%nat); [|lia].
  simpl. f_equal; lia.
Qed.
Lemma half_lt w : (1 <= w)%nat -> (half w < w)%nat.
Proof. intro. pose proof (half_bounds w). lia. Qed.

(* every cell of the field lies in a counted window, in all four combinations *)
Lemma cell_covered v pad F H W wh ww i j : nonneg F -> (1 <= wh <= H)%nat -> (1 <= ww <= W)%nat -> (i < H)%nat -> (j < W)%nat ->
  exists r c, (r < npos v pad H wh)%nat /\ (c < npos v pad W ww)%nat /\ (F i j <= win_spec pad F H W wh ww r c)%Z.
Proof.
  intros N Hh Hw Hi Hj. pose proof (half_bounds wh). pose proof (half_bounds ww).
  pose proof (half_lt wh ltac:(lia)). pose proof (half_lt ww ltac:(lia)).
  destruct pad.
  - exists i, j. split; [destruct v; unfold npos, npos_def; lia|]. split; [destruct v; unfold npos, npos_def; lia|].
    unfold win_spec. rewrite <- (ext_inside F H W (half wh) (half ww) i j Hi Hj).
    apply wsum_ge_cell. apply ext_nonneg; auto. lia. lia.
  - exists (Nat.min i (H - wh)), (Nat.min j (W - ww)).
    split; [destruct v; unfold npos, npos_def; lia|]. split; [destruct v; unfold npos, npos_def; lia|].
    unfold win_spec. apply wsum_ge_cell; auto; lia.
Qed.

(* ------------------------------------------------------------------------------------------ *)
(* range: (o - f)^2 <= o^2 + f^2 for counts, so the clamp never acts                           *)
(* ------------------------------------------------------------------------------------------ *)
Lemma fss_of_comps_unclamped c : 0 <= cd c <= cf c + co c -> 0 < cf c + co c ->
  fss_of_comps c == 1 - cd c / (cf c + co c).
Proof.
  intros B P. unfold fss_of_comps. rewrite Qltb_true by auto. apply qclamp_id.
  assert (0 <= cd c / (cf c + co c) <= 1).
  { split. apply Qle_shift_div_l; lra. apply Qle_shift_div_r; lra. }
  lra.
Qed.

Lemma comps_of_bound nr nc wf wo : (0 < nr)%nat -> (0 < nc)%nat ->
  (forall r c, (r < nr)%nat -> (c < nc)%nat -> (0 <= wf r c)%Z /\ (0 <= wo r c)%Z) ->
  let c := comps_of nr nc wf wo in 0 <= cd c <= cf c + co c.
Proof.
  intros Hr Hc P. pose proof (sums_bound nr nc wf wo P) as [B0 B1]. pose proof (npos_pos nr nc Hr Hc) as NP.
  unfold comps_of. cbn [cf co cd]. fold (Sf nr nc wf) (Sf nr nc wo) (Sd nr nc wf wo).
  set (N := qz (Z.of_nat (nr * nc))) in *.
  split.
  - apply Qle_shift_div_l; lra.
  - assert (E : qz (Sf nr nc wf) / N + qz (Sf nr nc wo) / N == (qz (Sf nr nc wf) + qz (Sf nr nc wo)) / N) by (field; lra).
    rewrite E. apply Qle_shift_div_l; auto. unfold Qdiv. rewrite <- Qmult_assoc, (Qmult_comm (/ N)), Qmult_inv_r by lra. lra.
Qed.

Theorem fss_components_bound v pad rf ro H W wh ww :
  rect rf H W -> rect ro H W -> nonneg_rows rf -> nonneg_rows ro -> (1 <= wh <= H)%nat -> (1 <= ww <= W)%nat ->
  let c := comps_field v pad rf ro wh ww in 0 <= cd c <= cf c + co c.
Proof.
  intros Rf Ro Nf No Hh Hw. rewrite (comps_field_char v pad rf ro H W) by auto.
  apply comps_of_bound; try (apply npos_gt0; auto).
  intros r c _ _. split; apply win_spec_nonneg; apply fld_nonneg; auto.
Qed.

Theorem fss_range v pad rf ro H W wh ww :
  rect rf H W -> rect ro H W -> nonneg_rows rf -> nonneg_rows ro -> (1 <= wh <= H)%nat -> (1 <= ww <= W)%nat ->
  let c := comps_field v pad rf ro wh ww in
  0 <= fss_of_comps c <= 1 /\ (0 < cf c + co c -> fss_of_comps c == 1 - cd c / (cf c + co c) /\ 0 <= 1 - cd c / (cf c + co c) <= 1).
Proof.
  intros Rf Ro Nf No Hh Hw c.
  pose proof (fss_components_bound v pad rf ro H W wh ww Rf Ro Nf No Hh Hw) as B. fold c in B. cbv zeta in B.
  split. unfold fss_of_comps. apply qclamp_range.
  intro P. split. apply fss_of_comps_unclamped; auto.
  assert (0 <= cd c / (cf c + co c) <= 1).
  { split. apply Qle_shift_div_l; lra. apply Qle_shift_div_r; lra. }
  lra.
Qed.

(* ------------------------------------------------------------------------------------------ *)
(* symmetry in forecast and observation                                                        *)
(* ------------------------------------------------------------------------------------------ *)
Lemma comps_of_swap nr nc wf wo :
  comps_of nr nc wo wf = {| cf := co (comps_of nr nc wf wo); co := cf (comps_of nr nc wf wo); cd := cd (comps_of nr nc wf wo) |}.
Proof.
  unfold comps_of. cbn [cf co cd].
  rewrite (grid_sum_ext nr nc (fun r c => sqz (wf r c - wo r c)) (fun r c => sqz (wo r c - wf r c))) by (intros; unfold sqz; ring).
  reflexivity.
Qed.
Lemma fss_of_comps_swap c : fss_of_comps {| cf := co c; co := cf c; cd := cd c |} == fss_of_comps c.
Proof.
  unfold fss_of_comps. cbn [cf co cd]. apply qclamp_compat.
  rewrite (Qltb_compat (co c + cf c) (cf c + co c)) by ring.
  destruct (Qltb 0 (cf c + co c)). rewrite (Qplus_comm (co c) (cf c)). reflexivity. reflexivity.
Qed.
Theorem fss_symmetric v pad rf ro H W wh ww : rect rf H W -> rect ro H W -> (1 <= wh <= H)%nat -> (1 <= ww <= W)%nat ->
  fss_of_comps (comps_field v pad ro rf wh ww) == fss_of_comps (comps_field v pad rf ro wh ww).
Proof.
  intros Rf Ro Hh Hw. rewrite (comps_field_char v pad ro rf H W), (comps_field_char v pad rf ro H W) by auto.
  rewrite comps_of_swap. apply fss_of_comps_swap.
Qed.

(* ------------------------------------------------------------------------------------------ *)
(* identical event fields containing an event score 1; no event at all scores 0                *)
(* ------------------------------------------------------------------------------------------ *)
Theorem fss_identical_is_one v pad rf H W wh ww i j : rect rf H W -> nonneg_rows rf -> (1 <= wh <= H)%nat -> (1 <= ww <= W)%nat ->
  (i < H)%nat -> (j < W)%nat -> (1 <= fld rf i j)%Z ->
  fss_of_comps (comps_field v pad rf rf wh ww) == 1.
Proof.
  intros Rf Nf Hh Hw Hi Hj Ev. rewrite (comps_field_char v pad rf rf H W) by auto.
  pose proof (npos_gt0 v pad H wh Hh) as Pr. pose proof (npos_gt0 v pad W ww Hw) as Pc.
  rewrite fss_of_comps_sums by auto.
  set (w := win_spec pad (fld rf) H W wh ww).
  assert (D0 : Sd (npos v pad H wh) (npos v pad W ww) w w = 0%Z).
  { unfold Sd. apply grid_sum_zero. intros. unfold sqz. ring. }
  rewrite D0.
  destruct (cell_covered v pad (fld rf) H W wh ww i j (fld_nonneg rf Nf) Hh Hw Hi Hj) as [r [c [Hr [Hc Hcell]]]].
  fold w in Hcell.
  assert (P : (1 <= Sf (npos v pad H wh) (npos v pad W ww) w)%Z).
  { unfold Sf.
    pose proof (grid_sum_ge_term (npos v pad H wh) (npos v pad W ww) (fun r c => sqz (w r c)) r c) as T. cbv beta in T.
    assert (1 <= sqz (w r c))%Z by (unfold sqz; nia).
    assert (sqz (w r c) <= grid_sum (npos v pad H wh) (npos v pad W ww) (fun r c => sqz (w r c)))%Z.
    { apply T; auto. intros. unfold sqz. apply Z.square_nonneg. }
    lia. }
  apply fss_sums_one. pose proof (qz_le _ _ P) as Q1. change (qz 1) with 1 in Q1. lra.
Qed.

Theorem fss_zero_denominator v pad rf ro H W wh ww : rect rf H W -> rect ro H W -> (1 <= wh <= H)%nat -> (1 <= ww <= W)%nat ->
  (forall i j, fld rf i j = 0%Z) -> (forall i j, fld ro i j = 0%Z) ->
  fss_of_comps (comps_field v pad rf ro wh ww) == 0.
Proof.
  intros Rf Ro Hh Hw Zf Zo. rewrite (comps_field_char v pad rf ro H W) by auto.
  rewrite fss_of_comps_sums by (apply npos_gt0; auto).
  assert (W0 : forall F, (forall i j, F i j = 0%Z) -> forall r c, win_spec pad F H W wh ww r c = 0%Z).
  { intros F Z0 r c. destruct pad; simpl; unfold wsum; apply zsum_zero; intros; apply zsum_zero; intros; auto.
    unfold ext. destruct (_ && _); auto. }
  assert (S0 : forall F, (forall i j, F i j = 0%Z) -> Sf (npos v pad H wh) (npos v pad W ww) (win_spec pad F H W wh ww) = 0%Z).
  { intros F Z0. unfold Sf. apply grid_sum_zero. intros. rewrite W0 by auto. reflexivity. }
  rewrite (S0 _ Zf), (S0 _ Zo). rewrite fss_sums_zero_denominator. reflexivity. change (qz 0) with 0. lra.
Qed.

(* the score is 0 exactly when the denominator (total squared counts) is 0 -- never a division by zero *)
Lemma fss_of_comps_zero_denominator c : cf c + co c <= 0 -> fss_of_comps c == 0.
Proof. intro Hle. unfold fss_of_comps. rewrite Qltb_false by auto. reflexivity. Qed.

(* ------------------------------------------------------------------------------------------ *)
(* aggregation over several fields: by components, not by scores                               *)
(* ------------------------------------------------------------------------------------------ *)
Definition zlsum (l : list Z) : Z := fold_right Z.add 0%Z l.
Definition wpair := ((nat -> nat -> Z) * (nat -> nat -> Z))%type.

Lemma agg_field_sum (proj : comps -> Q) (S : wpair -> Z) nr nc (n : Q) (ws : list wpair) :
  (forall p, proj (comps_of nr nc (fst p) (snd p)) = qz (S p) / qz (Z.of_nat (nr * nc))) ->
  0 < qz (Z.of_nat (nr * nc)) -> 0 < n ->
  qsum (map (fun c => proj c / n) (map (fun p => comps_of nr nc (fst p) (snd p)) ws))
  == qz (zlsum (map S ws)) / (qz (Z.of_nat (nr * nc)) * n).
Proof.
  intros E NP Pn. induction ws as [|p t IH]; cbn [map qsum zlsum fold_right].
  - change (qz 0) with 0. field. split; lra.
  - rewrite IH, E. fold (zlsum (map S t)). rewrite qz_add. field. split; lra.
Qed.

Theorem aggregate_by_components nr nc (ws : list wpair) : (0 < nr)%nat -> (0 < nc)%nat -> ws <> [] ->
  aggregate (map (fun p => comps_of nr nc (fst p) (snd p)) ws) ==
  fss_sums (qz (zlsum (map (fun p => Sf nr nc (fst p)) ws)))
           (qz (zlsum (map (fun p => Sf nr nc (snd p)) ws)))
           (qz (zlsum (map (fun p => Sd nr nc (fst p) (snd p)) ws))).
Proof.
  intros Hr Hc Hne. pose proof (npos_pos nr nc Hr Hc) as NP.
  set (l := map (fun p => comps_of nr nc (fst p) (snd p)) ws).
  assert (Ln : (0 < length l)%nat) by (unfold l; rewrite map_length; destruct ws; [congruence | simpl; lia]).
  assert (Pn : 0 < qz (Z.of_nat (length l))) by (change 0 with (qz 0); apply qz_lt; lia).
  unfold aggregate. destruct l as [|x t] eqn:El; [simpl in Ln; lia|]. rewrite <- El in *.
  set (M := qz (Z.of_nat (nr * nc)) * qz (Z.of_nat (length l))).
  assert (PM : 0 < M) by (unfold M; nra).
  rewrite <- (fss_scaled _ _ _ M PM).
  apply fss_of_comps_proper; unfold agg_comps; cbn [cf co cd]; unfold l.
  - apply (agg_field_sum cf (fun p => Sf nr nc (fst p))); auto.
  - apply (agg_field_sum co (fun p => Sf nr nc (snd p))); auto.
  - apply (agg_field_sum cd (fun p => Sd nr nc (fst p) (snd p))); auto.
Qed.

(* ------------------------------------------------------------------------------------------ *)
(* thresholding: NaN cells are non-events; the binary entry point agrees with thresholding     *)
(* ------------------------------------------------------------------------------------------ *)
Lemma thr_nan op th : op <> OpId -> thr op th XNaN = 0%Z.
Proof. intro. destruct op; try congruence; destruct th as [| |[]]; reflexivity. Qed.
Lemma thr_binary op th v : thr op th v = 0%Z \/ thr op th v = 1%Z.
Proof. unfold thr. destruct (match op with OpGt => _ | _ => _ end); auto. Qed.
Lemma thr_id_of_thr op th v t : thr OpId t (XFin (qz (thr op th v))) = thr op th v.
Proof. destruct (thr_binary op th v) as [E|E]; rewrite E; reflexivity. Qed.

Definition fill_nan (v0 : xv) (rows : list (list xv)) : list (list xv) :=
  map (map (fun v => if xisnan v then v0 else v)) rows.
Lemma threshold_fill_nan op th v0 rows : op <> OpId -> thr op th v0 = 0%Z ->
  threshold_rows op th (fill_nan v0 rows) = threshold_rows op th rows.
Proof.
  intros Hop H0. unfold threshold_rows, fill_nan. rewrite map_map. apply map_ext. intro row.
  rewrite map_map. apply map_ext. intro v. destruct v; simpl; auto. rewrite H0. symmetry. apply thr_nan. auto.
Qed.
(* replacing NaN cells by any non-event value changes nothing, in every variant *)
Theorem fss_nan_is_nonevent v pad op th v0 f o wh ww : op <> OpId -> thr op th v0 = 0%Z ->
  fss_single v pad (Some op) th (fill_nan v0 f) (fill_nan v0 o) wh ww = fss_single v pad (Some op) th f o wh ww.
Proof. intros Hop H0. unfold fss_single. rewrite !threshold_fill_nan by auto. reflexivity. Qed.

(* ------------------------------------------------------------------------------------------ *)
(* lifting to fss_2d_single_field and fss_2d                                                   *)
(* ------------------------------------------------------------------------------------------ *)
Definition rectx (rows : list (list xv)) (H W : nat) : Prop := length rows = H /\ Forall (fun r => length r = W) rows.
Lemma rect_threshold op th rows H W : rectx rows H W -> rect (threshold_rows op th rows) H W.
Proof.
  intros [L Hf]. split. unfold threshold_rows. rewrite map_length. exact L.
  unfold threshold_rows. rewrite Forall_map. eapply Forall_impl; [|exact Hf]. intros a Ha. rewrite map_length. exact Ha.
Qed.
Lemma nonneg_threshold op th rows : nonneg_rows (threshold_rows op th rows).
Proof.
  unfold nonneg_rows, threshold_rows. rewrite Forall_map. apply Forall_forall. intros row _.
  rewrite Forall_map. apply Forall_forall. intros v _. destruct (thr_binary op th v) as [E|E]; rewrite E; lia.
Qed.

Definition req (a b : result Q) : Prop :=
  match a, b with Ok x, Ok y => x == y | Err e, Err e' => e = e' | _, _ => False end.

Lemma same_shape_rect a b H W H' W' : rect a H W -> rect b H' W' -> same_shape a b = true -> (1 <= H)%nat -> rect b H W.
Proof.
  intros Ra Rb S Hh. unfold same_shape in S. apply andb_true_iff in S. destruct S as [S1 S2].
  apply Nat.eqb_eq in S1. apply Nat.eqb_eq in S2.
  rewrite (rect_nrows _ _ _ Ra), (rect_nrows _ _ _ Rb) in S1. subst H'.
  rewrite (ncols_rect _ _ _ Ra Hh), (ncols_rect _ _ _ Rb Hh) in S2. subst W'. exact Rb.
Qed.

(* a generic lifting lemma: whatever holds of the components of every valid rectangular pair
   holds of the public single-field function *)
Lemma fss_single_lift (R : Q -> Q -> Prop) v1 v2 pad op th f o wh ww H W H' W' :
  rectx f H W -> rectx o H' W' ->
  (forall rf ro, rect rf H W -> rect ro H W -> nonneg_rows rf -> nonneg_rows ro ->
     (1 <= Z.to_nat wh <= H)%nat -> (1 <= Z.to_nat ww <= W)%nat ->
     R (fss_of_comps (comps_field v1 pad rf ro (Z.to_nat wh) (Z.to_nat ww))) (fss_of_comps (comps_field v2 pad rf ro (Z.to_nat wh) (Z.to_nat ww)))) ->
  match fss_single v1 pad op th f o wh ww, fss_single v2 pad op th f o wh ww with
  | Ok x, Ok y => R x y | Err e, Err e' => e = e' | _, _ => False end.
Proof.
  intros Rf Ro K. unfold fss_single. destruct op as [op|]; [|reflexivity].
  pose proof (rect_threshold op th f H W Rf) as Rf'. pose proof (rect_threshold op th o H' W' Ro) as Ro'.
  destruct (same_shape (threshold_rows op th f) (threshold_rows op th o)) eqn:SS; cbn [negb]; [|reflexivity].
  rewrite (rect_nrows _ _ _ Rf').
  destruct (Nat.eq_dec H 0) as [H0|Hn0].
  - subst H. unfold check_window. destruct (Z.ltb_spec (Z.of_nat 0) wh); cbn [orb negb]. reflexivity.
    destruct (Z.ltb_spec (Z.of_nat (ncols (threshold_rows op th f))) ww); cbn [orb negb]. reflexivity.
    destruct (Z.ltb_spec wh 1); cbn [orb negb]. reflexivity. lia.
  - rewrite (ncols_rect _ _ _ Rf') by lia.
    destruct (check_window H W wh ww) eqn:CW; cbn [negb]; [|reflexivity].
    unfold check_window in CW. apply negb_true_iff in CW. apply orb_false_iff in CW. destruct CW as [CW C4].
    apply orb_false_iff in CW. destruct CW as [CW C3]. apply orb_false_iff in CW. destruct CW as [C1 C2].
    apply Z.ltb_ge in C1, C2, C3, C4.
    apply K; auto; try apply nonneg_threshold; try lia.
    apply (same_shape_rect _ _ H W H' W' Rf' Ro' SS). lia.
Qed.

(* fss_2d_single_field: without padding the code-faithful model and the definition coincide (values and errors) *)
Theorem fss_single_sat_eq_def_nopad op th f o wh ww H W H' W' : rectx f H W -> rectx o H' W' ->
  fss_single VSat false op th f o wh ww = fss_single VDef false op th f o wh ww.
Proof.
  intros Rf Ro.
  pose proof (fss_single_lift (fun x y => x = y) VSat VDef false op th f o wh ww H W H' W' Rf Ro) as L.
  assert (K : match fss_single VSat false op th f o wh ww, fss_single VDef false op th f o wh ww with
              | Ok x, Ok y => x = y | Err e, Err e' => e = e' | _, _ => False end).
  { apply L. intros rf ro R1 R2 _ _ Hh Hw. rewrite (comps_sat_eq_def_nopad rf ro H W) by auto. reflexivity. }
  destruct (fss_single VSat false op th f o wh ww), (fss_single VDef false op th f o wh ww); try contradiction; congruence.
Qed.

Definition okz (w : Z) : Prop := Z.even w = true \/ w = 1%Z.
Lemma okz_axis w : (1 <= w)%Z -> okz w -> axis_ok (Z.to_nat w).
Proof.
  intros P [E|E].
  - left. apply Nat.even_spec. apply Z.even_spec in E.
    destruct E as [k Ek]. exists (Z.to_nat k). lia.
  - right. subst. reflexivity.
Qed.

(* fss_2d_single_field with zero padding: even windows and w = 1 are the documented padding *)
Theorem fss_single_pad_ok op th f o wh ww H W H' W' : rectx f H W -> rectx o H' W' -> okz wh -> okz ww ->
  req (fss_single VSat true op th f o wh ww) (fss_single VDef true op th f o wh ww).
Proof.
  intros Rf Ro Oh Ow. unfold req.
  apply (fss_single_lift Qeq VSat VDef true op th f o wh ww H W H' W' Rf Ro).
  intros rf ro R1 R2 _ _ Hh Hw. apply (fss_pad_ok rf ro H W); auto; apply okz_axis; auto; lia.
Qed.

(* fss_2d_single_field lies in [0,1] and is symmetric, for both models and both paddings *)
Theorem fss_single_range v pad op th f o wh ww H W H' W' x : rectx f H W -> rectx o H' W' ->
  fss_single v pad op th f o wh ww = Ok x -> 0 <= x <= 1.
Proof.
  intros Rf Ro E.
  pose proof (fss_single_lift (fun x _ => 0 <= x <= 1) v v pad op th f o wh ww H W H' W' Rf Ro) as L.
  rewrite E in L. apply L. intros. unfold fss_of_comps. apply qclamp_range.
Qed.

(* the two named special cases of fss_pad_ok *)
Corollary fss_pad_even_ok rf ro H W wh ww : rect rf H W -> rect ro H W -> (1 <= wh <= H)%nat -> (1 <= ww <= W)%nat ->
  Nat.even wh = true -> Nat.even ww = true ->
  fss_of_comps (comps_field VSat true rf ro wh ww) == fss_of_comps (comps_field VDef true rf ro wh ww).
Proof. intros. apply (fss_pad_ok rf ro H W); auto; left; auto. Qed.
Corollary fss_pad_w1_ok rf ro H W : rect rf H W -> rect ro H W -> (1 <= H)%nat -> (1 <= W)%nat ->
  fss_of_comps (comps_field VSat true rf ro 1 1) == fss_of_comps (comps_field VDef true rf ro 1 1).
Proof. intros. apply (fss_pad_ok rf ro H W); auto; try lia; right; auto. Qed.
