(* proofs/C15_mean.v -- the mean functional: bounds, preservation of the weighted mean, and
   optimality of the PAV fit (prefix-mean condition + Abel summation). *)
From Coq Require Import Permutation.
From V Require Import lib.Tree model.C15 proofs.C15.
Open Scope list_scope.
Open Scope Q_scope.

Definition wpos (l : list item) : Prop := Forall (fun i : item => 0 < snd i) l.
Notation mean_sv := (solve SMean).

(* ------------------------------------------------------------------------------------ *)
(* sums                                                                                   *)
(* ------------------------------------------------------------------------------------ *)
Lemma sum_w_app a b : sum_w (a ++ b) == sum_w a + sum_w b.
Proof. induction a as [|[y w] t IH]; simpl; [ring | rewrite IH; ring]. Qed.
Lemma sum_wy_app a b : sum_wy (a ++ b) == sum_wy a + sum_wy b.
Proof. induction a as [|[y w] t IH]; simpl; [ring | rewrite IH; ring]. Qed.
Lemma sum_w_nonneg l : wpos l -> 0 <= sum_w l.
Proof. induction 1 as [|[y w] t H _ IH]; simpl in *; lra. Qed.
Lemma sum_w_pos l : wpos l -> l <> [] -> 0 < sum_w l.
Proof. intros H N. destruct l as [|[y w] t]; [congruence|]. inversion H; subst. simpl in *.
  pose proof (sum_w_nonneg t H3). lra. Qed.
Lemma wpos_app a b : wpos (a ++ b) <-> wpos a /\ wpos b.
Proof. apply Forall_app. Qed.

(* dev l v = sum of w (y - v) *)
Definition dev (l : list item) (v : Q) : Q := sum_wy l - v * sum_w l.
Lemma dev_app a b v : dev (a ++ b) v == dev a v + dev b v.
Proof. unfold dev. rewrite sum_w_app, sum_wy_app. ring. Qed.
Lemma dev_shift l v v' : dev l v' == dev l v + (v - v') * sum_w l.
Proof. unfold dev. ring. Qed.
Global Instance dev_Proper l : Proper (Qeq ==> Qeq) (dev l).
Proof. intros v v' E. unfold dev. rewrite E. reflexivity. Qed.

Definition centered (l : list item) (v : Q) : Prop := dev l v == 0.
Definition pref_ok (l : list item) (v : Q) : Prop := forall l1 l2, l = l1 ++ l2 -> 0 <= dev l1 v.
Lemma pref_ok_eq l v v' : v == v' -> pref_ok l v -> pref_ok l v'.
Proof. intros E H l1 l2 D. rewrite <- E. eapply H; eauto. Qed.

Lemma wmean_centered l : wpos l -> l <> [] -> centered l (wmean l).
Proof. intros H N. pose proof (sum_w_pos l H N). unfold centered, dev, wmean. field. lra. Qed.
Lemma centered_wmean l v : wpos l -> l <> [] -> centered l v -> v == wmean l.
Proof. intros H N C. pose proof (sum_w_pos l H N). unfold centered, dev in C. unfold wmean.
  assert (E : sum_wy l == v * sum_w l) by lra. rewrite E. field. lra. Qed.

(* ------------------------------------------------------------------------------------ *)
(* merging blocks whose values do not increase keeps the prefix-mean condition             *)
(* ------------------------------------------------------------------------------------ *)
Lemma app_eq_app_cases {A} (l1 l2 a b : list A) : l1 ++ l2 = a ++ b ->
  (exists m, a = l1 ++ m /\ l2 = m ++ b) \/ (exists m, l1 = a ++ m /\ b = m ++ l2).
Proof. revert a. induction l1 as [|x t IH]; intros a H.
  - left. exists a. split; [reflexivity | exact H].
  - destruct a as [|y a'].
    + right. exists (x :: t). split; [reflexivity | symmetry; exact H].
    + simpl in H. inversion H; subst. destruct (IH a' H2) as [[m [E1 E2]]|[m [E1 E2]]].
      * left. exists m. subst. split; reflexivity.
      * right. exists m. subst. split; reflexivity.
Qed.

Lemma merge_two A B vA vB :
  wpos A -> wpos B -> A <> [] -> B <> [] ->
  centered A vA -> centered B vB -> pref_ok A vA -> pref_ok B vB -> vB <= vA ->
  let v := wmean (A ++ B) in
  centered (A ++ B) v /\ pref_ok (A ++ B) v /\ vB <= v /\ v <= vA.
Proof.
  intros HA HB NA NB CA CB PA PB Hle v.
  assert (HAB : wpos (A ++ B)) by (apply wpos_app; tauto).
  assert (NAB : A ++ B <> []) by (intro E; apply app_eq_nil in E; tauto).
  pose proof (sum_w_pos A HA NA) as WA. pose proof (sum_w_pos B HB NB) as WB.
  pose proof (wmean_centered _ HAB NAB) as C. fold v in C.
  assert (Ev : (vA - v) * sum_w A == (v - vB) * sum_w B).
  { unfold centered in *. rewrite dev_app in C. rewrite (dev_shift A vA v), (dev_shift B vB v) in C. rewrite CA, CB in C. lra. }
  assert (Hv : vB <= v /\ v <= vA).
  { split.
    - destruct (Qlt_le_dec v vB) as [L|L]; [exfalso|exact L].
      assert (0 < (vA - v) * sum_w A) by nra. assert ((v - vB) * sum_w B < 0) by nra. lra.
    - destruct (Qlt_le_dec vA v) as [L|L]; [exfalso|exact L].
      assert ((vA - v) * sum_w A < 0) by nra. assert (0 < (v - vB) * sum_w B) by nra. lra. }
  split; [exact C|]. split; [|exact Hv]. destruct Hv as [Hv1 Hv2].
  intros l1 l2 D. destruct (app_eq_app_cases _ _ _ _ (eq_sym D)) as [[m [E1 E2]]|[m [E1 E2]]].
  - (* a prefix of A *)
    rewrite (dev_shift l1 vA v). pose proof (PA l1 m E1).
    assert (0 <= sum_w l1) by (apply sum_w_nonneg; rewrite E1 in HA; apply wpos_app in HA; tauto). nra.
  - (* all of A and a prefix m of B *)
    rewrite E1, dev_app. rewrite (dev_shift A vA v), (dev_shift m vB v). unfold centered in CA. rewrite CA.
    pose proof (PB m l2 E2) as Pm.
    assert (Wm : 0 <= sum_w m /\ sum_w m <= sum_w B).
    { rewrite E2 in HB. apply wpos_app in HB. destruct HB as [H1 H2]. pose proof (sum_w_nonneg m H1). pose proof (sum_w_nonneg l2 H2).
      rewrite E2, sum_w_app. lra. }
    nra.
Qed.

(* a non-increasing chain of values starting from v0 *)
Fixpoint chain_down (v0 : Q) (bs : list block) : Prop :=
  match bs with [] => True | b :: t => bval b <= v0 /\ chain_down (bval b) t end.

Record good (b : block) : Prop := {
  g_pos : wpos (bitems b); g_ne : bitems b <> [];
  g_centered : centered (bitems b) (bval b); g_pref : pref_ok (bitems b) (bval b) }.

Lemma merge_many rest : forall acc vacc,
  wpos acc -> acc <> [] -> centered acc vacc -> pref_ok acc vacc ->
  Forall good rest -> chain_down vacc rest ->
  let items := acc ++ flat_map bitems rest in
  wpos items /\ items <> [] /\ centered items (wmean items) /\ pref_ok items (wmean items).
Proof.
  induction rest as [|b r IH]; intros acc vacc Hp Hn Hc Hpre Hg Hch items.
  - unfold items. simpl. rewrite app_nil_r. split; [exact Hp|]. split; [exact Hn|].
    split; [apply wmean_centered; assumption|]. apply (pref_ok_eq acc vacc); [apply centered_wmean; assumption | exact Hpre].
  - pose proof (Forall_inv Hg) as Gb. destruct Gb as [Bp Bn Bc Bpre]. destruct Hch as [Hle Hch].
    destruct (merge_two acc (bitems b) vacc (bval b) Hp Bp Hn Bn Hc Bc Hpre Bpre Hle) as [C [P [L1 L2]]].
    assert (Hp' : wpos (acc ++ bitems b)) by (apply wpos_app; tauto).
    assert (Hn' : acc ++ bitems b <> []) by (intro E; apply app_eq_nil in E; tauto).
    assert (Hch' : chain_down (wmean (acc ++ bitems b)) r).
    { destruct r as [|b' r']; [exact I|]. destruct Hch as [H1 H2]. split; [lra | exact H2]. }
    specialize (IH (acc ++ bitems b) (wmean (acc ++ bitems b)) Hp' Hn' C P (Forall_inv_tail Hg) Hch').
    unfold items. simpl. rewrite app_assoc. exact IH.
Qed.

Lemma take_run_chain prev rest r s : take_run prev rest = (r, s) -> chain_down prev r.
Proof. revert prev r s. induction rest as [|b t IH]; intros prev r s H; simpl in H.
  - inversion H; subst. exact I.
  - pose proof (Qltb_spec prev (bval b)) as Hc. destruct (Qltb prev (bval b)).
    + inversion H; subst. exact I.
    + destruct (take_run (bval b) t) as [r' s'] eqn:E. inversion H; subst. split; [exact Hc | eapply IH; eauto].
Qed.

Lemma good_single i : 0 < snd i -> good (single i).
Proof. destruct i as [y w]. intro H. constructor; simpl.
  - constructor; [exact H | constructor].
  - discriminate.
  - unfold centered, dev. simpl. ring.
  - intros l1 l2 D. destruct l1 as [|x l1']; [unfold dev; simpl; lra|].
    destruct l1'; [|destruct l2; discriminate]. inversion D; subst. unfold dev. simpl. lra.
Qed.

Definition minv (st : state) : Prop := Forall good (all_blocks st).

Lemma minv_step st st' : minv st -> pav_step mean_sv st = Some st' -> minv st'.
Proof.
  destruct st as [[done cur] rest]. unfold minv, pav_step. simpl all_blocks. intros Hg H.
  destruct rest as [|nxt rest']; [discriminate|].
  pose proof (Qltb_spec (bval cur) (bval nxt)) as Hc. destruct (Qltb (bval cur) (bval nxt)).
  - injection H as <-. simpl. rewrite <- app_assoc. exact Hg.
  - destruct (take_run (bval nxt) rest') as [run rest''] eqn:E.
    pose proof (take_run_app _ _ _ _ E) as Er. subst rest'.
    pose proof (take_run_chain _ _ _ _ E) as Hch.
    apply Forall_app in Hg. destruct Hg as [Hgd Hg].
    pose proof (Forall_inv Hg) as Gc. pose proof (Forall_inv (Forall_inv_tail Hg)) as Gn.
    pose proof (Forall_inv_tail (Forall_inv_tail Hg)) as Grr. apply Forall_app in Grr. destruct Grr as [Grun Grest].
    destruct Gc as [Cp Cn Cc Cpre].
    assert (M : good (mkB (bitems cur ++ flat_map bitems (nxt :: run)) (mean_sv (bitems cur ++ flat_map bitems (nxt :: run))))).
    { destruct (merge_many (nxt :: run) (bitems cur) (bval cur) Cp Cn Cc Cpre (Forall_cons _ Gn Grun) (conj Hc Hch)) as [P1 [P2 [P3 P4]]].
      constructor; assumption. }
    destruct done as [|p done']; injection H as <-; simpl all_blocks.
    + constructor; assumption.
    + simpl rev in Hgd. apply Forall_app in Hgd. destruct Hgd as [Hgd1 Hgp].
      apply Forall_app. split; [exact Hgd1|]. constructor; [exact (Forall_inv Hgp)|]. constructor; assumption.
Qed.

Lemma pav_mean_good l bs : wpos l -> pav_blocks mean_sv l = Some bs -> Forall good bs.
Proof.
  unfold pav_blocks. destruct l as [|i t]; intros Hp H.
  - inversion H; constructor.
  - assert (I0 : minv ([], single i, map single t)).
    { unfold minv. simpl. inversion Hp; subst. constructor; [apply good_single; assumption|].
      clear - H3. induction H3; simpl; constructor; auto. apply good_single; assumption. }
    destruct (pav_run_inv mean_sv minv minv_step _ _ _ I0 H) as [done [cur [Hm E]]].
    subst bs. unfold minv in Hm. simpl in *. exact Hm.
Qed.

(* ------------------------------------------------------------------------------------ *)
(* bounds and preservation of the weighted mean                                           *)
(* ------------------------------------------------------------------------------------ *)
Lemma lmax_ge l : forall x, In x l -> x <= lmax l.
Proof. destruct l as [|a t]; [intros x []|]. unfold lmax. induction t as [|b t IH]; simpl.
  - intros x [<-|[]]. apply Qle_refl.
  - intros x Hx. set (m := fold_right (fun a0 m => if Qle_bool a0 m then m else a0) a t) in *.
    pose proof (Qle_bool_spec b m) as Hc. pose proof (IH a (or_introl eq_refl)) as Ha.
    destruct (Qle_bool b m); destruct Hx as [<-|[<-|Hx]]; try (pose proof (IH x (or_intror Hx))); lra.
Qed.
Lemma lmin_le l : forall x, In x l -> lmin l <= x.
Proof. destruct l as [|a t]; [intros x []|]. unfold lmin. induction t as [|b t IH]; simpl.
  - intros x [<-|[]]. apply Qle_refl.
  - intros x Hx. set (m := fold_right (fun a0 m => if Qle_bool a0 m then a0 else m) a t) in *.
    pose proof (Qle_bool_spec b m) as Hc. pose proof (IH a (or_introl eq_refl)) as Ha.
    destruct (Qle_bool b m); destruct Hx as [<-|[<-|Hx]]; try (pose proof (IH x (or_intror Hx))); lra.
Qed.

Lemma dev_between lo hi l : wpos l -> (forall i, In i l -> lo <= fst i <= hi) -> dev l hi <= 0 /\ 0 <= dev l lo.
Proof. induction l as [|[y w] t IH]; intros Hp Hb; unfold dev in *; simpl.
  - lra.
  - inversion Hp; subst. simpl in *. destruct (IH H2 (fun i Hi => Hb i (or_intror Hi))) as [I1 I2].
    pose proof (Hb (y, w) (or_introl eq_refl)) as [B1 B2]. simpl in *. nra.
Qed.

Lemma good_block_bounds b lo hi : good b -> (forall i, In i (bitems b) -> lo <= fst i <= hi) -> lo <= bval b <= hi.
Proof. intros [Hp Hn Hc _] Hb. destruct (dev_between lo hi _ Hp Hb) as [D1 D2].
  pose proof (sum_w_pos _ Hp Hn) as W. unfold centered in Hc.
  rewrite (dev_shift _ (bval b) hi) in D1. rewrite (dev_shift _ (bval b) lo) in D2. rewrite Hc in D1, D2. split; nra. Qed.

Lemma in_expand v bs : In v (expand bs) -> exists b, In b bs /\ v = bval b.
Proof. unfold expand. intro H. apply in_flat_map in H. destruct H as [b [Hb Hv]]. apply in_map_iff in Hv.
  destruct Hv as [_ [<- _]]. eauto. Qed.

Lemma pav_mean_bounds l v : wpos l -> In v (pav mean_sv l) -> lmin (ys l) <= v <= lmax (ys l).
Proof.
  intros Hp Hv. destruct (pav_total mean_sv l) as [bs [E [Ex [Hi _ _ _]]]]. rewrite Ex in Hv.
  destruct (in_expand _ _ Hv) as [b [Hb ->]]. pose proof (pav_mean_good l bs Hp E) as G. rewrite Forall_forall in G.
  apply good_block_bounds; [apply G; exact Hb|]. intros i Hin.
  assert (In i l) by (rewrite <- Hi; apply in_flat_map; eauto).
  split; [apply lmin_le | apply lmax_ge]; unfold ys; apply in_map; assumption.
Qed.

(* sum of w_i * v_i *)
Fixpoint sum_wv (l : list item) (v : list Q) : Q :=
  match l, v with (y, w) :: l', x :: v' => w * x + sum_wv l' v' | _, _ => 0 end.
Lemma sum_wv_app l1 v1 l2 v2 : length l1 = length v1 -> sum_wv (l1 ++ l2) (v1 ++ v2) == sum_wv l1 v1 + sum_wv l2 v2.
Proof. revert v1. induction l1 as [|[y w] t IH]; intros [|x v1'] L; simpl in *; try discriminate; [ring|].
  rewrite IH by lia. ring. Qed.
Lemma sum_wv_const l c : sum_wv l (map (fun _ => c) l) == c * sum_w l.
Proof. induction l as [|[y w] t IH]; simpl; [ring | rewrite IH; ring]. Qed.

Lemma pav_mean_preserves_weighted_mean l : wpos l -> sum_wv l (pav mean_sv l) == sum_wy l.
Proof.
  intro Hp. destruct (pav_total mean_sv l) as [bs [E [Ex [Hi _ _ _]]]]. rewrite Ex, <- Hi.
  pose proof (pav_mean_good l bs Hp E) as G. clear - G. unfold expand.
  induction bs as [|b t IH]; simpl; [reflexivity|].
  rewrite sum_wv_app by (rewrite map_length; reflexivity). rewrite sum_wy_app, sum_wv_const.
  rewrite (IH (Forall_inv_tail G)). destruct (Forall_inv G) as [_ _ C _]. unfold centered, dev in C. lra.
Qed.

(* ------------------------------------------------------------------------------------ *)
(* optimality                                                                             *)
(* ------------------------------------------------------------------------------------ *)
(* weighted squared error of a candidate fit, and weighted squared distance of two fits *)
Fixpoint wsse (l : list item) (v : list Q) : Q :=
  match l, v with (y, w) :: l', x :: v' => w * (y - x) * (y - x) + wsse l' v' | _, _ => 0 end.
Fixpoint wdist (l : list item) (f z : list Q) : Q :=
  match l, f, z with (y, w) :: l', a :: f', b :: z' => w * (a - b) * (a - b) + wdist l' f' z' | _, _, _ => 0 end.
(* sum of w (y - v) z *)
Fixpoint cross (l : list item) (v : Q) (z : list Q) : Q :=
  match l, z with (y, w) :: l', b :: z' => w * (y - v) * b + cross l' v z' | _, _ => 0 end.

Lemma wsse_app l1 v1 l2 v2 : length l1 = length v1 -> wsse (l1 ++ l2) (v1 ++ v2) == wsse l1 v1 + wsse l2 v2.
Proof. revert v1. induction l1 as [|[y w] t IH]; intros [|x v1'] L; simpl in *; try discriminate; [ring|].
  rewrite IH by lia. ring. Qed.
Lemma wdist_app l1 f1 z1 l2 f2 z2 : length l1 = length f1 -> length l1 = length z1 ->
  wdist (l1 ++ l2) (f1 ++ f2) (z1 ++ z2) == wdist l1 f1 z1 + wdist l2 f2 z2.
Proof. revert f1 z1. induction l1 as [|[y w] t IH]; intros [|a f1'] [|b z1'] L1 L2; simpl in *; try discriminate; [ring|].
  rewrite IH by lia. ring. Qed.

(* Abel summation: with non-negative prefix sums and z non-decreasing, sum d_i z_i <= (total) * last z *)
Lemma abel v : forall l z s, l <> [] -> length z = length l -> nondecr z ->
  (forall l1 l2, l = l1 ++ l2 -> 0 <= s + dev l1 v) ->
  s * hd 0 z + cross l v z <= (s + dev l v) * last z 0.
Proof.
  induction l as [|[y w] t IH]; intros z s N L Hz Hpre; [congruence|].
  destruct z as [|z1 z']; [discriminate|]. destruct t as [|i2 t'].
  - destruct z'; [|discriminate]. unfold dev. simpl. nra.
  - destruct z' as [|z2 z'']; [discriminate|]. destruct Hz as [Hz12 Hz].
    assert (P1 : 0 <= s + dev [(y, w)] v) by (apply (Hpre [(y, w)] (i2 :: t')); reflexivity).
    set (s' := s + dev [(y, w)] v) in *.
    assert (IHs := IH (z2 :: z'') s' ltac:(discriminate) ltac:(simpl in *; lia) Hz).
    assert (Hpre' : forall l1 l2, i2 :: t' = l1 ++ l2 -> 0 <= s' + dev l1 v).
    { intros l1 l2 D. specialize (Hpre ((y, w) :: l1) l2). simpl in Hpre. rewrite D in Hpre. specialize (Hpre eq_refl).
      unfold s'. change ((y, w) :: l1) with ([(y, w)] ++ l1) in Hpre. rewrite dev_app in Hpre. lra. }
    specialize (IHs Hpre').
    change (last (z1 :: z2 :: z'') 0) with (last (z2 :: z'') 0).
    assert (Ed : s + dev ((y, w) :: i2 :: t') v == s' + dev (i2 :: t') v).
    { unfold s'. change ((y, w) :: i2 :: t') with ([(y, w)] ++ i2 :: t'). rewrite dev_app. ring. }
    rewrite Ed. change (hd 0 (z1 :: z2 :: z'')) with z1. change (hd 0 (z2 :: z'')) with z2 in IHs.
    change (cross ((y, w) :: i2 :: t') v (z1 :: z2 :: z'')) with (w * (y - v) * z1 + cross (i2 :: t') v (z2 :: z'')).
    assert (Es : s' == s + w * (y - v)) by (unfold s', dev; simpl; ring).
    nra.
Qed.

Fixpoint wsse_c (l : list item) (v : Q) : Q := match l with (y, w) :: l' => w * (y - v) * (y - v) + wsse_c l' v | [] => 0 end.
Fixpoint wdist_c (l : list item) (v : Q) (z : list Q) : Q :=
  match l, z with (y, w) :: l', b :: z' => w * (v - b) * (v - b) + wdist_c l' v z' | _, _ => 0 end.
Lemma wsse_const l v : wsse l (map (fun _ => v) l) == wsse_c l v.
Proof. induction l as [|[y w] t IH]; simpl; [reflexivity | rewrite IH; reflexivity]. Qed.
Lemma wdist_const l v z : wdist l (map (fun _ => v) l) z == wdist_c l v z.
Proof. revert z. induction l as [|[y w] t IH]; intros [|b z']; simpl; try reflexivity. rewrite IH; reflexivity. Qed.

Lemma sse_identity l v : forall z, length z = length l ->
  wsse l z == wsse_c l v + wdist_c l v z + 2 * v * dev l v - 2 * cross l v z.
Proof. induction l as [|[y w] t IH]; intros [|b z'] L; simpl in *; try discriminate.
  - unfold dev. simpl. ring.
  - rewrite (IH z') by lia. unfold dev. simpl. ring. Qed.

Lemma block_opt l v z : l <> [] -> centered l v -> pref_ok l v -> length z = length l -> nondecr z ->
  wsse_c l v + wdist_c l v z <= wsse l z.
Proof.
  intros N C P L Hz. rewrite (sse_identity l v z L). unfold centered in C. rewrite C.
  pose proof (abel v l z 0 N L Hz) as A.
  assert (Hp : forall l1 l2, l = l1 ++ l2 -> 0 <= 0 + dev l1 v) by (intros l1 l2 D; pose proof (P l1 l2 D); lra).
  specialize (A Hp). rewrite C in A. lra.
Qed.

Lemma nondecr_app_inv a b : nondecr (a ++ b) -> nondecr a /\ nondecr b.
Proof. induction a as [|x [|y t] IH]; simpl; intro H.
  - tauto.
  - split; [exact I|]. destruct b; [exact I | apply H].
  - destruct H as [H1 H2]. specialize (IH H2). simpl in IH. tauto.
Qed.

Lemma blocks_opt bs : forall z, Forall good bs -> length z = length (flat_map bitems bs) -> nondecr z ->
  wsse (flat_map bitems bs) (expand bs) + wdist (flat_map bitems bs) (expand bs) z <= wsse (flat_map bitems bs) z.
Proof.
  induction bs as [|b t IH]; intros z G L Hz; [simpl; lra|].
  unfold expand in *. simpl flat_map in *. rewrite app_length in L.
  set (n := length (bitems b)) in *.
  assert (L1 : length (firstn n z) = n) by (rewrite firstn_length; lia).
  assert (L2 : length (skipn n z) = length (flat_map bitems t)) by (rewrite skipn_length; lia).
  rewrite <- (firstn_skipn n z) in Hz |- *. set (z1 := firstn n z) in *. set (z2 := skipn n z) in *.
  apply nondecr_app_inv in Hz. destruct Hz as [Hz1 Hz2].
  rewrite !wsse_app by (rewrite ?map_length; unfold n in *; lia).
  rewrite wdist_app by (rewrite ?map_length; unfold n in *; lia).
  destruct (Forall_inv G) as [_ Bn Bc Bp].
  pose proof (block_opt (bitems b) (bval b) z1 Bn Bc Bp L1 Hz1) as B1.
  pose proof (IH z2 (Forall_inv_tail G) L2 Hz2) as B2.
  rewrite wsse_const, wdist_const. lra.
Qed.

(* the PAV-mean fit minimises the weighted squared error among non-decreasing sequences;
   the surplus of any competitor is at least its weighted squared distance to the fit *)
Lemma pav_mean_optimal l z : wpos l -> length z = length l -> nondecr z ->
  wsse l (pav mean_sv l) + wdist l (pav mean_sv l) z <= wsse l z.
Proof.
  intros Hp L Hz. destruct (pav_total mean_sv l) as [bs [E [Ex [Hi _ _ _]]]]. rewrite Ex.
  pose proof (pav_mean_good l bs Hp E) as G. rewrite <- Hi in *. apply blocks_opt; assumption.
Qed.

Lemma wsq_nonneg w x : 0 < w -> 0 <= w * x * x.
Proof. intro H. assert (Q1 : 0 <= x * x) by nra. assert (Q2 : 0 <= w * (x * x)) by (apply Qmult_le_0_compat; lra).
  assert (Q3 : w * x * x == w * (x * x)) by ring. lra. Qed.
Lemma wsq_zero w x : 0 < w -> w * x * x <= 0 -> x == 0.
Proof. intros H H0. assert (Q3 : w * x * x == w * (x * x)) by ring.
  destruct (Qlt_le_dec 0 (x * x)) as [P|P].
  - exfalso. assert (0 < w * (x * x)) by (apply Qmult_lt_0_compat; lra). lra.
  - destruct (Qlt_le_dec x 0), (Qlt_le_dec 0 x); nra. Qed.
Lemma wdist_nonneg l : wpos l -> forall f z, 0 <= wdist l f z.
Proof. induction 1 as [|[y w] t H _ IH]; intros [|a f'] [|b z']; simpl in *; try lra.
  specialize (IH f' z'). pose proof (wsq_nonneg w (a - b) H). lra. Qed.
Lemma wdist_zero l : wpos l -> forall f z, length f = length l -> length z = length l -> wdist l f z <= 0 ->
  Forall2 Qeq f z.
Proof. induction 1 as [|[y w] t H Ht IH]; intros [|a f'] [|b z'] L1 L2 D; simpl in *; try discriminate; [constructor|].
  pose proof (wdist_nonneg t Ht f' z'). pose proof (wsq_nonneg w (a - b) H).
  constructor; [assert (a - b == 0) by (apply (wsq_zero w); lra); lra | apply IH; try lia; lra]. Qed.

(* hence the minimiser is unique *)
Lemma pav_mean_unique l z : wpos l -> length z = length l -> nondecr z ->
  wsse l z <= wsse l (pav mean_sv l) -> Forall2 Qeq (pav mean_sv l) z.
Proof. intros Hp L Hz Hle. pose proof (pav_mean_optimal l z Hp L Hz).
  apply (wdist_zero l Hp); [apply pav_length | exact L | lra]. Qed.

(* ---- the library's own block solvers return the observation on a single pair ---- *)
Lemma solve_single_mean y w : ~ w == 0 -> solve SMean [(y, w)] == y.
Proof. intro H. unfold solve, wmean. simpl. field. lra. Qed.
Lemma solve_single_quantile q y w : solve (SQuantile q) [(y, w)] == y.
Proof. unfold solve, lin_quantile, ys, isort, ssort. simpl map. simpl fold_right. simpl length.
  change (zq (Z.of_nat 1 - 1)) with 0. assert (E : Qfloor (0 * q) = 0%Z) by (rewrite (Qfloor_comp (0 * q) 0) by ring; reflexivity).
  rewrite E. simpl. ring. Qed.
Lemma solve_single_max y w : solve SMax [(y, w)] = y.
Proof. reflexivity. Qed.
Lemma solve_single_min y w : solve SMin [(y, w)] = y.
Proof. reflexivity. Qed.
