(* proofs/C11_ext.v -- the C11 statements on the extended reals: forecasts, observations and thetas may be +-inf (axiom-free).
   Kept apart from proofs/C11.v so that the rational theorems keep checking should the infinite cases break. *)
From V Require Import lib.Tree lib.C10_aux gen.Gen_C11_kern model.C11 proofs.C11.

(* ---------------- extended reals: forecasts, observations and thetas may be +-inf ---------------- *)
(* (holds for the kernels that build their constant as a zero array; with `fcst * 0.0` an infinite forecast gave NaN,
   which the merge turned into 0: repo_fixes/murphy-infinite-forecast.diff) *)
Ltac xcases f o t := destruct f as [|f|[]], o as [|o|[]], t as [|t|[]]; try discriminate.
Ltac xspec_unfold := unfold gen_murphy_merge, m_over, m_under, m_total, xpen, xin_over, xin_under, Qltb, X0, X1, Qsgn.

Lemma quantile_x alpha f o t : xisnan f = false -> xisnan o = false -> xisnan t = false ->
  let k := gen_murphy_quantile f o t (XFin alpha) in
  let r := gen_murphy_merge (fst k) (snd k) f in
  m_over r =x= esx_quantile_over alpha f o t /\ m_under r =x= esx_quantile_under alpha f o t /\
  m_total r =x= xadd (esx_quantile_over alpha f o t) (esx_quantile_under alpha f o t).
Proof. intros Hf Ho Ht. unfold gen_murphy_quantile, esx_quantile_over, esx_quantile_under. xspec_unfold.
 xcases f o t; repeat split; mk; fin. Qed.

Lemma expectile_x alpha f o t : 0 < alpha < 1 -> xisnan f = false -> xisnan o = false -> xisnan t = false -> size_defined o t = true ->
  let k := gen_murphy_expectile f o t (XFin alpha) in
  let r := gen_murphy_merge (fst k) (snd k) f in
  m_over r =x= esx_expectile_over alpha f o t /\ m_under r =x= esx_expectile_under alpha f o t /\
  m_total r =x= xadd (esx_expectile_over alpha f o t) (esx_expectile_under alpha f o t).
Proof. intros Ha Hf Ho Ht Hd. unfold gen_murphy_expectile, esx_expectile_over, esx_expectile_under. xspec_unfold.
 xcases f o t; repeat split; mk; fin. Qed.

Lemma huber_x alpha a f o t : 0 < alpha < 1 -> xisnan f = false -> xisnan o = false -> xisnan t = false -> size_defined o t = true ->
  let k := gen_murphy_huber f o t (XFin alpha) (XFin a) in
  let r := gen_murphy_merge (fst k) (snd k) f in
  m_over r =x= esx_huber_over alpha a f o t /\ m_under r =x= esx_huber_under alpha a f o t /\
  m_total r =x= xadd (esx_huber_over alpha a f o t) (esx_huber_under alpha a f o t).
Proof. intros Ha Hf Ho Ht Hd. unfold gen_murphy_huber, esx_huber_over, esx_huber_under. xspec_unfold.
 xcases f o t; repeat split; mk; fin; try nra. Qed.

(* on rational arguments the extended definition is the rational one *)
Lemma esx_fin alpha a f o t :
  esx_quantile_over alpha (XFin f) (XFin o) (XFin t) =x= XFin (es_quantile_over alpha f o t) /\
  esx_quantile_under alpha (XFin f) (XFin o) (XFin t) =x= XFin (es_quantile_under alpha f o t) /\
  esx_huber_over alpha a (XFin f) (XFin o) (XFin t) =x= XFin (es_huber_over alpha a f o t) /\
  esx_huber_under alpha a (XFin f) (XFin o) (XFin t) =x= XFin (es_huber_under alpha a f o t) /\
  esx_expectile_over alpha (XFin f) (XFin o) (XFin t) =x= XFin (es_expectile_over alpha f o t) /\
  esx_expectile_under alpha (XFin f) (XFin o) (XFin t) =x= XFin (es_expectile_under alpha f o t).
Proof. unfold esx_quantile_over, esx_quantile_under, esx_huber_over, esx_huber_under, esx_expectile_over, esx_expectile_under,
   es_quantile_over, es_quantile_under, es_huber_over, es_huber_under, es_expectile_over, es_expectile_under,
   xpen, xin_over, xin_under, in_over, in_under, Qmin', Qltb, X0, X1.
 repeat split; mk; fin. Qed.

(* the extended definition spelled out for an infinite forecast and rational obs / theta: a forecast of +inf over-forecasts every
   theta >= obs, a forecast of -inf under-forecasts every theta < obs, with the penalty sizes of the rational definition *)
Lemma esx_infinite_forecast alpha a o t :
  esx_quantile_over alpha (XInf true) (XFin o) (XFin t) =x= XFin (if Qle_bool o t then 1 - alpha else 0) /\
  esx_quantile_under alpha (XInf true) (XFin o) (XFin t) =x= X0 /\
  esx_quantile_over alpha (XInf false) (XFin o) (XFin t) =x= X0 /\
  esx_quantile_under alpha (XInf false) (XFin o) (XFin t) =x= XFin (if Qltb t o then alpha else 0) /\
  esx_huber_over alpha a (XInf true) (XFin o) (XFin t) =x= XFin (if Qle_bool o t then (1 - alpha) * Qmin' (t - o) a else 0) /\
  esx_huber_under alpha a (XInf true) (XFin o) (XFin t) =x= X0 /\
  esx_huber_over alpha a (XInf false) (XFin o) (XFin t) =x= X0 /\
  esx_huber_under alpha a (XInf false) (XFin o) (XFin t) =x= XFin (if Qltb t o then alpha * Qmin' (o - t) a else 0) /\
  esx_expectile_over alpha (XInf true) (XFin o) (XFin t) =x= XFin (if Qle_bool o t then (1 - alpha) * (t - o) else 0) /\
  esx_expectile_under alpha (XInf true) (XFin o) (XFin t) =x= X0 /\
  esx_expectile_over alpha (XInf false) (XFin o) (XFin t) =x= X0 /\
  esx_expectile_under alpha (XInf false) (XFin o) (XFin t) =x= XFin (if Qltb t o then alpha * (o - t) else 0).
Proof. unfold esx_quantile_over, esx_quantile_under, esx_huber_over, esx_huber_under, esx_expectile_over, esx_expectile_under,
   xpen, xin_over, xin_under, Qmin', Qltb, X0, X1.
 repeat split; mk; fin. Qed.

(* quantile functional with infinite forecasts / observations among the data: between consecutive (finite) thetas the curve of
   every case is constant (an infinite value is no kink at any finite theta) *)
Lemma cover_quantile_x alpha (f o : xv) t1 t : t1 <= t ->
  (forall q, f = XFin q -> nokink q t1 t) -> (forall q, o = XFin q -> nokink q t1 t) ->
  esx_quantile_over alpha f o (XFin t) =x= esx_quantile_over alpha f o (XFin t1) /\
  esx_quantile_under alpha f o (XFin t) =x= esx_quantile_under alpha f o (XFin t1).
Proof. intros H Kf Ko. unfold esx_quantile_over, esx_quantile_under, xpen, xin_over, xin_under, nokink, Qltb, X0, X1 in *.
 destruct f as [|f|[]], o as [|o|[]]; try specialize (Kf _ eq_refl); try specialize (Ko _ eq_refl);
 split; mk; fin; exfalso; lra. Qed.

Lemma thetas_cover_quantile_x fcsts obs huber_a delta T alpha (f o : xv) t1 t :
  murphy_thetas_m fcsts obs "quantile" huber_a delta = Ok T ->
  In f (concat fcsts) -> In o obs -> t1 <= t ->
  (forall q, In (XFin q) T -> nokink q t1 t) ->
  esx_quantile_over alpha f o (XFin t) =x= esx_quantile_over alpha f o (XFin t1) /\
  esx_quantile_under alpha f o (XFin t) =x= esx_quantile_under alpha f o (XFin t1).
Proof. intros H If Io Ht K. rewrite (thetas_unfold _ _ _ _ _ _ H) in K. cbn [theta_points String.eqb Ascii.eqb Bool.eqb] in K.
 apply cover_quantile_x; auto; intros q ->; eapply nokink_of_thetas; try exact K; apply xsort_uniq_has_fin; apply in_or_app; auto. Qed.

(* one cell with extended-real (non-NaN) theta, fcst, obs: kernel + merge on the values as given *)
Lemma murphy_point_nonnan fn alpha a t f o : xisnan t = false -> xisnan f = false -> xisnan o = false ->
  murphy_point fn alpha a t f o
  = gen_murphy_merge (fst (murphy_kernel fn f o t alpha a)) (snd (murphy_kernel fn f o t alpha a)) f.
Proof. intros Ht Hf Ho. unfold murphy_point, matched. rewrite Ht, Hf, Ho. cbn [orb]. destruct (murphy_kernel fn f o t alpha a). reflexivity. Qed.

Lemma murphy_point_x alpha a t f o : 0 < alpha < 1 -> xisnan t = false -> xisnan f = false -> xisnan o = false ->
  (let r := murphy_point "quantile" (XFin alpha) (Some (XFin a)) t f o in
   m_over r =x= esx_quantile_over alpha f o t /\ m_under r =x= esx_quantile_under alpha f o t /\
   m_total r =x= xadd (esx_quantile_over alpha f o t) (esx_quantile_under alpha f o t)) /\
  (size_defined o t = true ->
   (let r := murphy_point "huber" (XFin alpha) (Some (XFin a)) t f o in
    m_over r =x= esx_huber_over alpha a f o t /\ m_under r =x= esx_huber_under alpha a f o t /\
    m_total r =x= xadd (esx_huber_over alpha a f o t) (esx_huber_under alpha a f o t)) /\
   (let r := murphy_point "expectile" (XFin alpha) (Some (XFin a)) t f o in
    m_over r =x= esx_expectile_over alpha f o t /\ m_under r =x= esx_expectile_under alpha f o t /\
    m_total r =x= xadd (esx_expectile_over alpha f o t) (esx_expectile_under alpha f o t))).
Proof. intros Ha Ht Hf Ho. cbv zeta. rewrite !murphy_point_nonnan by assumption. split; [|intro Hd; split].
 - exact (quantile_x alpha f o t Hf Ho Ht).
 - exact (huber_x alpha a f o t Ha Hf Ho Ht Hd).
 - exact (expectile_x alpha f o t Ha Hf Ho Ht Hd). Qed.
