(* proofs/C08_additive.v -- counts kept along ANY dimension d of an array sum (NaN-skipping) to the counts with d reduced as
   well: lreduce nansum (d :: R) a  =  sum over the positions n of d of  lreduce nansum R a  at  d := n.
   (proofs/C08.v has the special case where d is the leading dimension; here the order of the dimensions is arbitrary, which
   needs the exchange of two finite sums and the fact that an array value only depends on the index environment pointwise.) *)
From V Require Import lib.Tree lib.C08_aux gen.Gen_C08_discretise gen.Gen_C08_contingency model.C08 proofs.C08.
From Coq Require Import Morphisms Setoid.
Open Scope list_scope.

(* ---- rational value of a NaN-skipping sum ---- *)
Definition qv0 (v : xv) : Q := match v with XFin q => q | _ => 0 end.
Definition nsQ (l : list xv) : Q := qsum (map qv0 l).

Lemma nansum_nsQ l : noinf l -> nansum l =x= XFin (nsQ l).
Proof.
  induction 1 as [|v l Hv Hl IH]. reflexivity.
  unfold nsQ. cbn [map qsum]. fold (nsQ l). destruct v as [|q|s]; try discriminate.
  - change (nansum (XNaN :: l)) with (nansum l). rewrite IH. cbn. ring.
  - change (nansum (XFin q :: l)) with (xadd (XFin q) (nansum l)). rewrite IH. reflexivity.
Qed.

Lemma qsum_app' l1 l2 : qsum (l1 ++ l2) == qsum l1 + qsum l2.
Proof. induction l1 as [|a l1 IH]; cbn [app qsum]. ring. rewrite IH. ring. Qed.
Lemma qsum_ext' (A : Type) (f g : A -> Q) l : (forall a, In a l -> f a == g a) -> qsum (map f l) == qsum (map g l).
Proof.
  induction l as [|a l IH]; intro H; cbn [map qsum]. reflexivity.
  rewrite (H a) by (left; auto). rewrite IH. reflexivity. intros; apply H; right; auto.
Qed.
Lemma qsum_map_add (A : Type) (f g : A -> Q) l : qsum (map (fun a => f a + g a) l) == qsum (map f l) + qsum (map g l).
Proof. induction l as [|a l IH]; cbn [map qsum]. ring. rewrite IH. ring. Qed.
Lemma qsum_map_zero (A : Type) (l : list A) : qsum (map (fun _ => 0) l) == 0.
Proof. induction l as [|a l IH]; cbn [map qsum]. reflexivity. rewrite IH. ring. Qed.
(* exchange of two finite sums *)
Lemma qsum_swap (A B : Type) (F : A -> B -> Q) (la : list A) (lb : list B) :
  qsum (map (fun a => qsum (map (fun b => F a b) lb)) la) == qsum (map (fun b => qsum (map (fun a => F a b) la)) lb).
Proof.
  induction la as [|a la IH]; cbn [map qsum].
  - rewrite qsum_map_zero. reflexivity.
  - rewrite IH, <- qsum_map_add. reflexivity.
Qed.
Lemma nsQ_flat_map (A : Type) (F : A -> list xv) (s : list A) : nsQ (flat_map F s) == qsum (map (fun m => nsQ (F m)) s).
Proof.
  induction s as [|m s IH]; cbn [flat_map map qsum]. reflexivity.
  unfold nsQ in *. rewrite map_app, qsum_app', IH. reflexivity.
Qed.

(* ---- sums over index environments ---- *)
Definition ext (g : env -> xv) : Prop := forall e1 e2, (forall d, e1 d = e2 d) -> g e1 = g e2.

Section G.
  Variable size : dim -> nat.
  Variable g : env -> xv.
  Hypothesis gext : ext g.
  Definition G (l : list dim) (e : env) : Q := nsQ (map g (envs size l e)).

  Lemma G_cons x l e : G (x :: l) e == qsum (map (fun m => G l (upd e x m)) (seq 0 (size x))).
  Proof.
    unfold G. cbn [envs].
    assert (E : map g (flat_map (fun n => envs size l (upd e x n)) (seq 0 (size x))) =
                flat_map (fun m => map g (envs size l (upd e x m))) (seq 0 (size x))).
    { induction (seq 0 (size x)) as [|m s IH]; cbn [flat_map map]. reflexivity. rewrite map_app, IH. reflexivity. }
    rewrite E. apply nsQ_flat_map.
  Qed.
  Lemma envs_ext l : forall e1 e2, (forall d, e1 d = e2 d) -> map g (envs size l e1) = map g (envs size l e2).
  Proof.
    induction l as [|x l IH]; intros e1 e2 H; cbn [envs map].
    - f_equal. apply gext. exact H.
    - induction (seq 0 (size x)) as [|m s IHs]; cbn [flat_map]. reflexivity.
      rewrite !map_app, IHs. f_equal. apply IH. intro d. unfold upd. rewrite H. reflexivity.
  Qed.
  Lemma G_ext l e1 e2 : (forall d, e1 d = e2 d) -> G l e1 = G l e2.
  Proof. intro H. unfold G. rewrite (envs_ext l e1 e2 H). reflexivity. Qed.

  Lemma upd_comm e x m d n : x <> d -> forall d', upd (upd e x m) d n d' = upd (upd e d n) x m d'.
  Proof.
    intros N d'. unfold upd. destruct (String.eqb_spec d' d), (String.eqb_spec d' x); auto. subst. congruence.
  Qed.

  (* a dimension anywhere in the list can be summed last *)
  Lemma G_insert d l1 l2 : ~ In d l1 -> forall e,
    G (l1 ++ d :: l2) e == qsum (map (fun n => G (l1 ++ l2) (upd e d n)) (seq 0 (size d))).
  Proof.
    induction l1 as [|x l1 IH]; intros N e.
    - apply G_cons.
    - assert (x <> d) by (intro; apply N; left; auto).
      assert (N' : ~ In d l1) by (intro; apply N; right; auto).
      cbn [app]. rewrite G_cons.
      rewrite (qsum_ext' _ _ (fun m => qsum (map (fun n => G (l1 ++ l2) (upd (upd e x m) d n)) (seq 0 (size d)))))
        by (intros; apply IH; auto).
      rewrite qsum_swap. apply qsum_ext'. intros n _. rewrite G_cons. apply qsum_ext'. intros m _.
      rewrite (G_ext (l1 ++ l2) _ _ (upd_comm e x m d n H)). reflexivity.
  Qed.
End G.

(* ---- the dims actually reduced: d sits somewhere in the middle ---- *)
Lemma mem_cons x d R : mem x (d :: R) = String.eqb x d || mem x R.
Proof. reflexivity. Qed.
Lemma dinter_notin L d R : ~ In d L -> dinter L (d :: R) = dinter L R.
Proof.
  intro N. unfold dinter. apply filter_ext_in. intros x Hx. rewrite mem_cons.
  destruct (String.eqb_spec x d); auto. subst. contradiction.
Qed.
Lemma dinter_split L d R : NoDup L -> In d L -> ~ In d R ->
  exists l1 l2, dinter L (d :: R) = l1 ++ d :: l2 /\ dinter L R = l1 ++ l2 /\ ~ In d l1.
Proof.
  intros ND. induction ND as [|h L Hh ND IH]; intros Hin HR. contradiction.
  assert (MR : mem d R = false).
  { destruct (mem d R) eqn:E; auto. apply mem_In in E. contradiction. }
  assert (C1 : dinter (h :: L) (d :: R) = if String.eqb h d || mem h R then h :: dinter L (d :: R) else dinter L (d :: R)) by reflexivity.
  assert (C2 : dinter (h :: L) R = if mem h R then h :: dinter L R else dinter L R) by reflexivity.
  rewrite C1, C2. clear C1 C2.
  destruct (String.eqb_spec h d) as [-> | Nhd]; cbn [orb].
  - exists [], (dinter L R). rewrite MR, (dinter_notin L d R Hh). repeat split; auto.
  - destruct Hin as [-> | Hin]; [congruence|]. destruct (IH Hin HR) as [l1 [l2 [E1 [E2 N1]]]].
    destruct (mem h R).
    + exists (h :: l1), l2. rewrite E1, E2. repeat split; auto. intros [-> | H]; [congruence | contradiction].
    + exists l1, l2. auto.
Qed.

Lemma nansum_map_fin (A : Type) (f : A -> xv) (q : A -> Q) l :
  (forall a, In a l -> f a =x= XFin (q a)) -> nansum (map f l) =x= XFin (qsum (map q l)).
Proof.
  induction l as [|a l IH]; intro H; cbn [map qsum]. reflexivity.
  pose proof (H a (or_introl eq_refl)) as Ha. destruct (f a) as [|x|s] eqn:E; simpl in Ha; try contradiction.
  change (nansum (XFin x :: map f l)) with (xadd (XFin x) (nansum (map f l))).
  rewrite IH by (intros; apply H; right; auto). cbn [xadd xeq]. rewrite Ha. reflexivity.
Qed.

(* counts_additive for any kept dimension *)
Theorem counts_additive_any_dim (a : larr) (d : dim) (R : list dim) (e : env) :
  ext (lget a) -> (forall e', xisinf (lget a e') = false) -> NoDup (ldims a) -> In d (ldims a) -> ~ In d R ->
  lget (lreduce nansum (d :: R) a) e =x=
  nansum (map (fun n => lget (lreduce nansum R a) (upd e d n)) (seq 0 (lsize a d))).
Proof.
  intros Hext Hinf ND Hin HR. destruct (dinter_split (ldims a) d R ND Hin HR) as [l1 [l2 [E1 [E2 N1]]]].
  assert (NI : forall l e0, noinf (map (lget a) (envs (lsize a) l e0))).
  { intros l e0. apply Forall_forall. intros v Hv. apply in_map_iff in Hv. destruct Hv as [e' [<- _]]. apply Hinf. }
  cbn [lreduce lget]. rewrite E1, E2.
  rewrite (nansum_nsQ _ (NI _ _)). fold (G (lsize a) (lget a) (l1 ++ d :: l2) e).
  rewrite (nansum_map_fin _ _ (fun n => G (lsize a) (lget a) (l1 ++ l2) (upd e d n))) by (intros; apply nansum_nsQ; apply NI).
  cbn [xeq]. apply G_insert; auto.
Qed.

(* arrays decoded from the wire, and everything built from them by lzip / lmap, depend on the environment pointwise *)
Lemma ext_of_flat dims data : ext (lget (of_flat dims data)).
Proof.
  intros e1 e2 H. cbn [of_flat lget]. f_equal. induction dims as [|[d n] t IH]; cbn [flat_index]. reflexivity. rewrite H, IH. reflexivity.
Qed.
Lemma ext_lzip f a b : ext (lget a) -> ext (lget b) -> ext (lget (lzip f a b)).
Proof. intros Ha Hb e1 e2 H. cbn [lzip lget]. rewrite (Ha e1 e2 H), (Hb e1 e2 H). reflexivity. Qed.
Lemma ext_lmap f a : ext (lget a) -> ext (lget (lmap f a)).
Proof. intros Ha e1 e2 H. cbn [lmap lget]. rewrite (Ha e1 e2 H). reflexivity. Qed.
