(* proofs/C20.v -- every regenerated guard fires exactly outside the documented domain. *)
From V Require Import lib.Tree gen.Gen_C20_guards.
Open Scope string_scope.

Ltac gcbn := cbn -[Qle_bool Qeq_bool Qmult Qplus Qminus Qopp Qdiv Qinv String.eqb].
Ltac gsolve := xunf; gcbn; qcmp; cbn; split; intros; try discriminate; try lra; auto; try (exfalso; lra).

(* open unit interval (quantile / expectile / risk levels, interval range, confidence) *)
Lemma g_quantile_score a : gen_guard_quantile_score (XFin a) = None <-> 0 < a < 1.
Proof. unfold gen_guard_quantile_score. gsolve. Qed.
Lemma g_interval_score r : gen_guard_interval_score (XFin r) = None <-> 0 < r < 1.
Proof. unfold gen_guard_interval_score. gsolve. Qed.
Lemma g_qis l u : gen_guard_qis (XFin l) (XFin u) = None <-> 0 < l /\ l < u /\ u < 1.
Proof. unfold gen_guard_qis. xunf. gcbn. qcmp; cbn; split; intros; try discriminate; auto; try (repeat split; lra); exfalso; lra. Qed.
Lemma g_consistent_expectile a : gen_guard_consistent_expectile (XFin a) = None <-> 0 < a < 1.
Proof. unfold gen_guard_consistent_expectile. gsolve. Qed.
Lemma g_consistent_quantile a : gen_guard_consistent_quantile (XFin a) = None <-> 0 < a < 1.
Proof. unfold gen_guard_consistent_quantile. gsolve. Qed.
Lemma g_consistent_huber h : gen_guard_consistent_huber (XFin h) = None <-> 0 < h.
Proof. unfold gen_guard_consistent_huber. gsolve. Qed.
Lemma g_tw_quantile a : gen_guard_tw_quantile (XFin a) = None <-> 0 < a < 1.
Proof. unfold gen_guard_tw_quantile. gsolve. Qed.
Lemma g_tw_expectile a : gen_guard_tw_expectile (XFin a) = None <-> 0 < a < 1.
Proof. unfold gen_guard_tw_expectile. gsolve. Qed.
Lemma g_tw_huber h : gen_guard_tw_huber (XFin h) = None <-> 0 < h.
Proof. unfold gen_guard_tw_huber. gsolve. Qed.

(* non-negative tolerances / precisions *)
Lemma g_round_values p : gen_guard_round_values (XFin p) = None <-> 0 <= p.
Proof. unfold gen_guard_round_values. gsolve. Qed.
Lemma g_observed_cdf p : gen_guard_observed_cdf (XFin p) = None <-> 0 <= p.
Proof. unfold gen_guard_observed_cdf. gsolve. Qed.
Lemma g_adjust_fcst t : gen_guard_adjust_fcst_for_crps (XFin t) = None <-> 0 <= t.
Proof. unfold gen_guard_adjust_fcst_for_crps. gsolve. Qed.
Lemma g_nan_decreasing t : gen_guard_check_nan_decreasing_inputs (XFin t) = None <-> 0 <= t.
Proof. unfold gen_guard_check_nan_decreasing_inputs. gsolve. Qed.
Lemma g_discretise_none : gen_guard_comparative_discretise None = None.
Proof. reflexivity. Qed.
Lemma g_discretise t : gen_guard_comparative_discretise (Some (XFin t)) = None <-> 0 <= t.
Proof. unfold gen_guard_comparative_discretise. gsolve. Qed.

(* strings *)
Definition str_in (s : string) (l : list string) : Prop := In s l.
Lemma eqb_in2 s a b : (String.eqb s a || String.eqb s b)%bool = true <-> In s [a; b].
Proof. rewrite orb_true_iff, !String.eqb_eq. simpl. intuition (subst; auto). Qed.

Lemma g_firm r d s : gen_guard_firm (XFin r) (XFin d) s = None <-> 0 < r < 1 /\ 0 <= d /\ In s ["upper"; "lower"].
Proof. unfold gen_guard_firm. pose proof (eqb_in2 s "upper" "lower") as Hs.
 destruct (String.eqb s "upper" || String.eqb s "lower")%bool; xunf; gcbn; qcmp; cbn; split; intros H;
 try discriminate; auto; try (destruct H as (A & B & C)); try (exfalso; lra).
 - repeat split; try lra. apply Hs. reflexivity.
 - apply Hs in C. discriminate. Qed.
Lemma g_firm_inf_discount r s : 0 < r < 1 -> In s ["upper"; "lower"] -> gen_guard_firm (XFin r) (XInf true) s = None.
Proof. intros Hr Hs. unfold gen_guard_firm. apply eqb_in2 in Hs. rewrite Hs. xunf. gcbn. qcmp; cbn; auto; exfalso; lra. Qed.

Lemma g_dm c m d : gen_guard_diebold_mariano (XFin c) m d = None <-> In m ["HLN"; "HG"] /\ In d ["normal"; "t"] /\ 0 < c < 1.
Proof. unfold gen_guard_diebold_mariano. pose proof (eqb_in2 m "HLN" "HG") as Hm. pose proof (eqb_in2 d "normal" "t") as Hd.
 destruct (String.eqb m "HLN" || String.eqb m "HG")%bool; destruct (String.eqb d "normal" || String.eqb d "t")%bool;
 xunf; gcbn; qcmp; cbn; split; intros H; try discriminate; auto; try (destruct H as (A & B & C));
 try (exfalso; lra); try (apply Hm in A; discriminate); try (apply Hd in B; discriminate).
 repeat split; try lra; [apply Hm | apply Hd]; reflexivity. Qed.

Lemma g_crps_ensemble m : gen_guard_crps_for_ensemble m = None <-> In m ["ecdf"; "fair"].
Proof. unfold gen_guard_crps_for_ensemble. pose proof (eqb_in2 m "ecdf" "fair") as H.
 destruct (String.eqb m "ecdf" || String.eqb m "fair")%bool; cbn; split; intro A; try discriminate; auto.
 - apply H; reflexivity. - apply H in A. discriminate. Qed.
Lemma g_tail t : gen_guard_tail_tw_crps t = None <-> In t ["upper"; "lower"].
Proof. unfold gen_guard_tail_tw_crps. pose proof (eqb_in2 t "upper" "lower") as H.
 destruct (String.eqb t "upper" || String.eqb t "lower")%bool; cbn; split; intro A; try discriminate; auto.
 - apply H; reflexivity. - apply H in A. discriminate. Qed.

(* murphy_score / murphy_thetas *)
Definition murphy_fn (s : string) := In s ["quantile"; "huber"; "expectile"].
Lemma eqb_in3 s a b c : (String.eqb s a || String.eqb s b || String.eqb s c)%bool = true <-> In s [a; b; c].
Proof. rewrite !orb_true_iff, !String.eqb_eq. simpl. intuition (subst; auto). Qed.
Definition huber_ok (f : string) (h : option xv) : Prop :=
  f = "huber" -> exists q, h = Some (XFin q) /\ 0 < q.
Definition optq (o : option Q) : option xv := match o with Some q => Some (XFin q) | None => None end.

Lemma g_murphy_score a f (h : option Q) :
  gen_guard_murphy_score (XFin a) f (optq h) = None <-> 0 < a < 1 /\ murphy_fn f /\ (f = "huber" -> exists q, h = Some q /\ 0 < q).
Proof. unfold gen_guard_murphy_score, murphy_fn. pose proof (eqb_in3 f "quantile" "huber" "expectile") as Hf.
 pose proof (String.eqb_spec f "huber") as Hh.
 destruct (String.eqb f "quantile" || String.eqb f "huber" || String.eqb f "expectile")%bool;
 destruct Hh as [Eh|Nh]; destruct h as [q|]; xunf; gcbn; qcmp; cbn; split; intros H;
 try discriminate; auto; try (destruct H as (A & B & C)); try (exfalso; lra);
 try (apply Hf in B; discriminate);
 try (destruct (C Eh) as [q' [E1 E2]]; try discriminate; inversion E1; subst; exfalso; lra).
 all: repeat split; try lra; try (apply Hf; reflexivity); intro E; try contradiction; eauto.
Qed.
Lemma g_murphy_thetas f (h d : option Q) :
  gen_guard_murphy_thetas f (optq h) (optq d) = None <->
  murphy_fn f /\ (f = "huber" -> exists q, h = Some q /\ 0 < q) /\ (forall q, d = Some q -> 0 <= q).
Proof. unfold gen_guard_murphy_thetas, murphy_fn. pose proof (eqb_in3 f "quantile" "huber" "expectile") as Hf.
 pose proof (String.eqb_spec f "huber") as Hh.
 destruct (String.eqb f "quantile" || String.eqb f "huber" || String.eqb f "expectile")%bool;
 destruct Hh as [Eh|Nh]; destruct h as [q|]; destruct d as [dq|]; xunf; gcbn; qcmp; cbn; split; intros H;
 try discriminate; auto; try (destruct H as (A & B & C)); try (exfalso; lra);
 try (apply Hf in A; discriminate);
 try (destruct (B Eh) as [q' [E1 E2]]; try discriminate; inversion E1; subst; exfalso; lra);
 try (specialize (C dq eq_refl); exfalso; lra).
 all: repeat split; try (apply Hf; reflexivity); try (intro E; try contradiction; eauto);
      try (intros q0 E0; inversion E0; subst; lra); try discriminate;
      try (intro E0; inversion E0; subst; lra).
Qed.

(* fill_cdf *)
Lemma eqb_in4 s a b c d : (String.eqb s a || String.eqb s b || String.eqb s c || String.eqb s d)%bool = true <-> In s [a; b; c; d].
Proof. rewrite !orb_true_iff, !String.eqb_eq. simpl. intuition (subst; auto). Qed.
Lemma g_fill_cdf n m : gen_guard_fill_cdf (XFin n) m = None <->
  In m ["linear"; "step"; "forward"; "backward"] /\ (m = "linear" -> 2 <= n) /\ (m <> "linear" -> 1 <= n).
Proof. unfold gen_guard_fill_cdf. pose proof (eqb_in4 m "linear" "step" "forward" "backward") as Hm.
 pose proof (String.eqb_spec m "linear") as Hl.
 destruct (String.eqb m "linear" || String.eqb m "step" || String.eqb m "forward" || String.eqb m "backward")%bool;
 destruct Hl as [El|Nl]; xunf; gcbn; qcmp; cbn; split; intros H; try discriminate; auto;
 try (destruct H as (A & B & C)); try (apply Hm in A; discriminate);
 try (specialize (B El); exfalso; lra); try (specialize (C Nl); exfalso; lra).
 all: repeat split; try (apply Hm; reflexivity); intros; try contradiction; try lra.
Qed.

(* isotonic_fit arguments *)
Lemma g_iso (f : option string) q c :
  gen_guard_iso_arg_checks f (XFin q) (XFin c) = None <->
  (f = None \/ f = Some "mean" \/ f = Some "quantile") /\ (f = Some "quantile" -> 0 < q < 1).
Proof. unfold gen_guard_iso_arg_checks. destruct f as [s|].
 - pose proof (String.eqb_spec s "mean") as Hm. pose proof (String.eqb_spec s "quantile") as Hq.
   destruct Hm as [Em|Nm]; destruct Hq as [Eq_|Nq]; subst; try discriminate;
   xunf; gcbn; qcmp; cbn; split; intros H; try discriminate; auto;
   try (destruct H as (A & B)); try (specialize (B eq_refl); exfalso; lra).
   all: try (split; [auto | intro E; try discriminate; try lra]).
   all: try (destruct A as [A|[A|A]]; inversion A; subst; contradiction).
 - cbn. split; auto. intros _. split; auto. intro E; discriminate.
Qed.

(* array-valued parameters: a single offending element is enough *)
Lemma g_iso_weight (w : list Q) : gen_guard_iso_weight (map XFin w) = None <-> Forall (fun x => 0 < x) w.
Proof. unfold gen_guard_iso_weight. cbn [andb]. induction w as [|x t IH]; cbn [map existsb].
 - split; auto.
 - xunf. pose proof (Qle_bool_spec x 0) as Hx. destruct (Qle_bool x 0); cbn [orb].
   + split; intro H; [discriminate | inversion H; subst; exfalso; lra].
   + rewrite IH. split; intro H; [constructor; auto | inversion H; auto]. Qed.
Lemma g_crps_cdf_weight (w : list Q) :
  gen_guard_crps_cdf_inputs (map XFin w) "linear" "exact" = None <-> Forall (fun x => 0 <= x) w.
Proof. unfold gen_guard_crps_cdf_inputs. cbn [String.eqb Ascii.eqb Bool.eqb orb negb andb]. cbn -[existsb xlt].
 induction w as [|x t IH]; cbn [map existsb].
 - split; auto.
 - xunf. pose proof (Qle_bool_spec 0 x) as Hx. destruct (Qle_bool 0 x); cbn [negb orb].
   + rewrite IH. split; intro H; [constructor; auto | inversion H; auto].
   + split; intro H; [discriminate | inversion H; subst; exfalso; lra]. Qed.
