(* proofs/C15_order.v -- the isotonic fit depends on the forecasts only through their ORDER.
   For every strictly increasing relabelling phi of the forecast values the tidy step commutes with the relabelling, the
   fitted values are unchanged and the summary (unique forecasts, counts, values) is the relabelled summary.  This is what
   lets the harness run pairs whose forecast is +inf / -inf (for the code: the largest / smallest explanatory value) through
   the rational model under ANY bound beyond the finite forecasts, and map the labels back. *)
From V Require Import lib.Tree model.C15.
Open Scope list_scope.

Section SortMap.
  Context {A B : Type} (le1 : A -> A -> bool) (le2 : B -> B -> bool) (g : A -> B).
  Hypothesis Hle : forall a b, le2 (g a) (g b) = le1 a b.
  Lemma sinsert_map x l : sinsert le2 (g x) (map g l) = map g (sinsert le1 x l).
  Proof. induction l as [|y t IH]; [reflexivity|]. simpl. rewrite Hle. destruct (le1 x y); simpl; [reflexivity|]. rewrite IH. reflexivity. Qed.
  Lemma ssort_map l : ssort le2 (map g l) = map g (ssort le1 l).
  Proof. unfold ssort. induction l as [|x t IH]; [reflexivity|]. simpl. rewrite IH. apply sinsert_map. Qed.
End SortMap.

Definition remap_f (phi : Q -> Q) (t : triple) : triple := (phi (tf t), to t, tw t).

Section Order.
  Variable phi : Q -> Q.
  (* strictly increasing, compatible with the equality of rationals *)
  Hypothesis phi_mono : forall a b, a < b -> phi a < phi b.
  Hypothesis phi_proper : forall a b, a == b -> phi a == phi b.

  Lemma phi_ltb a b : Qltb (phi a) (phi b) = Qltb a b.
  Proof.
    pose proof (Qltb_spec a b) as H. destruct (Qltb a b).
    - apply Qltb_true. apply phi_mono. exact H.
    - apply Qltb_false. destruct (Qle_lt_or_eq _ _ H) as [L|E].
      + apply Qlt_le_weak. apply phi_mono. exact L.
      + rewrite (phi_proper _ _ E). apply Qle_refl.
  Qed.
  Lemma phi_eqb a b : Qeq_bool (phi a) (phi b) = Qeq_bool a b.
  Proof.
    destruct (Qeq_bool a b) eqn:E.
    - apply Qeq_bool_iff. apply phi_proper. apply Qeq_bool_iff. exact E.
    - destruct (Qeq_bool (phi a) (phi b)) eqn:E2; [|reflexivity]. exfalso.
      apply Qeq_bool_iff in E2.
      destruct (Q_dec a b) as [[L|G]|Q0].
      + apply phi_mono in L. rewrite E2 in L. exact (Qlt_irrefl _ L).
      + apply phi_mono in G. rewrite E2 in G. exact (Qlt_irrefl _ G).
      + apply Qeq_bool_iff in Q0. congruence.
  Qed.

  Lemma key_le_remap a b : key_le (remap_f phi a) (remap_f phi b) = key_le a b.
  Proof. unfold key_le, remap_f, tf, to. simpl. rewrite phi_ltb, phi_eqb. reflexivity. Qed.

  (* _tidy_ir_inputs commutes with the relabelling *)
  Lemma tsort_remap l : tsort (map (remap_f phi) l) = map (remap_f phi) (tsort l).
  Proof. unfold tsort. apply ssort_map. exact key_le_remap. Qed.

  Lemma titem_remap l : map titem (map (remap_f phi) l) = map titem l.
  Proof. rewrite map_map. apply map_ext. intros [[f o] w]. reflexivity. Qed.
  Lemma tf_remap l : map tf (map (remap_f phi) l) = map phi (map tf l).
  Proof. rewrite !map_map. apply map_ext. intros [[f o] w]. reflexivity. Qed.

  (* the fitted values (any functional / solver, with or without the integer truncation) do not change *)
  Lemma do_ir_remap trunc f l : do_ir trunc f (tsort (map (remap_f phi) l)) = do_ir trunc f (tsort l).
  Proof. unfold do_ir. rewrite tsort_remap, titem_remap. reflexivity. Qed.

  (* np.unique(..., return_counts=True) on relabelled forecasts *)
  Definition relabel (p : Q * nat * Q) : Q * nat * Q := (phi (fst (fst p)), snd (fst p), snd p).
  Lemma uniq_remap xs : forall vs, uniq (map phi xs) vs = map relabel (uniq xs vs).
  Proof.
    induction xs as [|x xs IH]; intros [|v vs]; try reflexivity.
    cbn [map uniq]. rewrite IH. destruct (uniq xs vs) as [|[[x' c] v'] r]; [reflexivity|].
    cbn [map relabel fst snd]. rewrite phi_eqb. destruct (Qeq_bool x x'); reflexivity.
  Qed.

  (* summary of the relabelled problem = relabelled summary: same counts, same fitted values *)
  Lemma summary_remap trunc f l :
    let l' := map (remap_f phi) l in
    uniq (map tf (tsort l')) (do_ir trunc f (tsort l')) = map relabel (uniq (map tf (tsort l)) (do_ir trunc f (tsort l))).
  Proof. cbv zeta. rewrite do_ir_remap, tsort_remap, tf_remap. apply uniq_remap. Qed.
End Order.
