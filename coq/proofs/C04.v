(* proofs/C04.v -- the concrete row-major storage of a labelled array denotes the same labelled function
   whatever the order in which its dimensions are stored (transposition), and of_flat/to_flat round-trip. *)
From V Require Import lib.Tree.
Open Scope string_scope.

Definition prodsz (t : list (dim * nat)) : nat := fold_right (fun p acc => snd p * acc)%nat 1%nat t.

(* the environment that agrees with e on the listed dims and with e0 elsewhere, built in list order *)
Fixpoint restrict (dims : list (dim * nat)) (e e0 : env) : env :=
  match dims with [] => e0 | (d, _) :: t => restrict t e (upd e0 d (e d)) end.

Definition in_range (dims : list (dim * nat)) (e : env) : Prop := forall d n, In (d, n) dims -> (e d < n)%nat.

Lemma flat_index_lt dims e : in_range dims e -> (flat_index dims e < prodsz dims)%nat.
Proof. induction dims as [|[d n] t IH]; intro H; cbn [flat_index prodsz fold_right snd].
 - lia.
 - assert (Hd : (e d < n)%nat) by (apply (H d n); left; reflexivity).
   assert (Ht : (flat_index t e < prodsz t)%nat) by (apply IH; intros d' n' Hin; apply (H d' n'); right; exact Hin).
   fold (prodsz t). nia. Qed.

Lemma envs_length size R e : length (envs size R e) = fold_right (fun d acc => size d * acc)%nat 1%nat R.
Proof. revert e. induction R as [|d R IH]; intro e; cbn [envs fold_right]. reflexivity.
 assert (H : forall l, length (flat_map (fun n => envs size R (upd e d n)) l) =
                      (length l * fold_right (fun d acc => size d * acc) 1 R)%nat).
 { induction l as [|x l IHl]; cbn [flat_map length]. lia. rewrite app_length, IH, IHl. lia. }
 rewrite H, seq_length. reflexivity. Qed.

Lemma envs_ext_size s1 s2 R e : (forall d, In d R -> s1 d = s2 d) -> envs s1 R e = envs s2 R e.
Proof. revert e. induction R as [|d R IH]; intros e H; cbn [envs]. reflexivity.
 rewrite (H d) by (left; reflexivity).
 induction (seq 0 (s2 d)) as [|x l IHl]; cbn [flat_map]. reflexivity.
 rewrite IHl. f_equal. apply IH. intros d' Hd'. apply H. right. exact Hd'. Qed.

Lemma nth_flat_map_uniform {A} (F : nat -> list A) (P n i j : nat) (dflt : A) :
  (forall k, length (F k) = P) -> (i < n)%nat -> (j < P)%nat ->
  nth (i * P + j) (flat_map F (seq 0 n)) dflt = nth j (F i) dflt.
Proof. intros HP Hi Hj.
 assert (G : forall s m, (i < m)%nat -> nth (i * P + j) (flat_map F (seq s m)) dflt = nth j (F (s + i)%nat) dflt).
 { clear Hi. revert i. intros i. revert j Hj. induction i as [|i IHi]; intros j Hj s m Hm.
   - destruct m; [lia|]. cbn [seq flat_map]. rewrite app_nth1 by (rewrite HP; lia). rewrite Nat.add_0_r. reflexivity.
   - destruct m; [lia|]. cbn [seq flat_map]. rewrite app_nth2 by (rewrite HP; nia).
     rewrite HP. replace (S i * P + j - P)%nat with (i * P + j)%nat by nia.
     rewrite (IHi j Hj (S s) m) by lia. f_equal. f_equal. lia. }
 apply (G 0%nat n Hi). Qed.

Lemma assoc_size_cons_other d n t d' : d' <> d -> assoc_size ((d, n) :: t) d' = assoc_size t d'.
Proof. intro H. unfold assoc_size. cbn [find fst]. destruct (String.eqb_spec d d'); [subst; contradiction|]. reflexivity. Qed.
Lemma assoc_size_cons_same d n t : assoc_size ((d, n) :: t) d = n.
Proof. unfold assoc_size. cbn [find fst]. rewrite String.eqb_refl. reflexivity. Qed.

Lemma prodsz_as_fold t : NoDup (map fst t) ->
  fold_right (fun d acc => assoc_size t d * acc)%nat 1%nat (map fst t) = prodsz t.
Proof. induction t as [|[d n] t IH]; intro H; cbn [map fst fold_right prodsz snd]. reflexivity.
 inversion H as [|x l Hnin Hnd]; subst. rewrite assoc_size_cons_same. fold (prodsz t). f_equal.
 rewrite <- (IH Hnd). clear IH.
 assert (G : forall l, (forall x, In x l -> x <> d) ->
   fold_right (fun d0 acc => assoc_size ((d, n) :: t) d0 * acc)%nat 1%nat l = fold_right (fun d0 acc => assoc_size t d0 * acc)%nat 1%nat l).
 { induction l as [|x l IHl]; intro Hl; cbn [fold_right]. reflexivity.
   rewrite assoc_size_cons_other by (apply Hl; left; reflexivity). rewrite IHl; auto. intros y Hy. apply Hl. right. exact Hy. }
 apply G. intros x Hx E. subst. contradiction. Qed.

(* the key lemma: reading position (flat_index dims e) of the row-major enumeration of g gives g at e's labels *)
Theorem nth_rowmajor (dims : list (dim * nat)) (g : env -> xv) (e e0 : env) :
  NoDup (map fst dims) -> in_range dims e ->
  nth (flat_index dims e) (map g (envs (assoc_size dims) (map fst dims) e0)) XNaN = g (restrict dims e e0).
Proof.
 revert e0. induction dims as [|[d n] t IH]; intros e0 Hnd Hr.
 - reflexivity.
 - inversion Hnd as [|x l Hnin Hnd']; subst.
   assert (Hd : (e d < n)%nat) by (apply (Hr d n); left; reflexivity).
   assert (Hrt : in_range t e) by (intros d' n' Hin; apply (Hr d' n'); right; exact Hin).
   cbn [flat_index map fst envs restrict]. fold (prodsz t). rewrite assoc_size_cons_same.
   rewrite flat_map_concat_map, concat_map, map_map, <- flat_map_concat_map.
   assert (Hsz : forall e1, envs (assoc_size ((d, n) :: t)) (map fst t) e1 = envs (assoc_size t) (map fst t) e1).
   { intro e1. apply envs_ext_size. intros d' Hd'. apply assoc_size_cons_other. intro E. subst. contradiction. }
   rewrite (nth_flat_map_uniform (fun k => map g (envs (assoc_size ((d, n) :: t)) (map fst t) (upd e0 d k))) (prodsz t) n (e d) (flat_index t e) XNaN).
   + rewrite Hsz. apply IH; assumption.
   + intro k. rewrite map_length, Hsz, envs_length. apply prodsz_as_fold. exact Hnd'.
   + exact Hd.
   + apply flat_index_lt. exact Hrt.
Qed.

(* restrict only depends on the set of dims (and on e there), not on their order, as far as listed dims are concerned *)
Lemma restrict_spec dims e e0 d : NoDup (map fst dims) ->
  restrict dims e e0 d = if mem d (map fst dims) then e d else e0 d.
Proof. revert e0. induction dims as [|[d0 n0] t IH]; intros e0 H; cbn [restrict map fst mem existsb]. reflexivity.
 inversion H as [|x l Hnin Hnd]; subst. rewrite IH by exact Hnd. fold (mem d (map fst t)).
 destruct (String.eqb_spec d d0) as [->|N]; cbn [orb].
 - destruct (mem d0 (map fst t)) eqn:E. apply mem_In in E. contradiction. unfold upd. rewrite String.eqb_refl. reflexivity.
 - destruct (mem d (map fst t)); [reflexivity|]. unfold upd. destruct (String.eqb_spec d d0); [contradiction|reflexivity]. Qed.

(* storing the same labelled function g in two different dimension orders denotes the same labelled array:
   every in-range label assignment reads the same value from both layouts *)
Theorem transposed_storage_same_denotation (dims1 dims2 : list (dim * nat)) (g : env -> xv) (e e0 : env) :
  NoDup (map fst dims1) -> NoDup (map fst dims2) ->
  (forall d, mem d (map fst dims1) = mem d (map fst dims2)) ->
  in_range dims1 e -> in_range dims2 e ->
  (forall e1 e2, (forall d, e1 d = e2 d) -> g e1 = g e2) ->
  lget (of_flat dims1 (map g (envs (assoc_size dims1) (map fst dims1) e0))) e =
  lget (of_flat dims2 (map g (envs (assoc_size dims2) (map fst dims2) e0))) e.
Proof. intros N1 N2 Hset R1 R2 Hext. cbn [of_flat lget].
 rewrite (nth_rowmajor dims1 g e e0 N1 R1), (nth_rowmajor dims2 g e e0 N2 R2).
 apply Hext. intro d. rewrite (restrict_spec dims1 e e0 d N1), (restrict_spec dims2 e e0 d N2), Hset. reflexivity. Qed.

(* of_flat after to_flat gives back the array (on in-range labels): the wire format loses nothing *)
Theorem of_flat_to_flat (a : larr) (e : env) :
  NoDup (ldims a) -> (forall d, In d (ldims a) -> (e d < lsize a d)%nat) ->
  (forall e1 e2, (forall d, In d (ldims a) -> e1 d = e2 d) -> lget a e1 = lget a e2) ->
  let '(dims, data) := to_flat a in lget (of_flat dims data) e = lget a e.
Proof. intros Hnd Hr Hext. unfold to_flat. cbn [of_flat lget].
 set (dims := map (fun d => (d, lsize a d)) (ldims a)).
 assert (Hfst : map fst dims = ldims a) by (unfold dims; rewrite map_map; cbn [fst]; apply map_id).
 assert (Hsz : forall d, In d (ldims a) -> assoc_size dims d = lsize a d).
 { intros d Hd. unfold dims. clear - Hd. induction (ldims a) as [|x l IH]; [contradiction|].
   cbn [map]. destruct (String.eqb_spec x d) as [->|N].
   - apply assoc_size_cons_same.
   - rewrite assoc_size_cons_other by (intro E; subst; contradiction). apply IH. destruct Hd; [contradiction|assumption]. }
 assert (Henv : envs (lsize a) (ldims a) env0 = envs (assoc_size dims) (map fst dims) env0).
 { rewrite Hfst. apply envs_ext_size. intros d Hd. symmetry. apply Hsz. exact Hd. }
 rewrite Henv.
 assert (Hr' : in_range dims e).
 { intros d n Hin. unfold dims in Hin. apply in_map_iff in Hin. destruct Hin as [x [E Hx]]. inversion E; subst. apply Hr. exact Hx. }
 rewrite (nth_rowmajor dims (lget a) e env0) by (rewrite ?Hfst; assumption).
 apply Hext. intros d Hd. rewrite restrict_spec by (rewrite Hfst; exact Hnd). rewrite Hfst.
 rewrite (proj2 (mem_In d (ldims a)) Hd). reflexivity. Qed.
