(* proofs/C19_code.v -- the HLN small-sample correction factor and the confidence-limit expressions, regenerated from
   diebold_mariano_impl.py (sites C19.hln, C19.ci), are the model's hln_factor / ci_upper_m / ci_lower_m. *)
From V Require Import lib.Xval model.C19 proofs.C19 gen.Gen_C19_kern.
From Coq Require Import QArith Lqa.

Theorem gen_hln_correction_is_model (n h : Q) : ~ n == 0 ->
  gen_hln_correction (XFin n) (XFin h) =x= XFin (hln_factor n h).
Proof. intro Hn. unfold gen_hln_correction, hln_factor.
  assert (E : Qeq_bool n 0 = false). { destruct (Qeq_bool n 0) eqn:E; auto. apply Qeq_bool_eq in E. contradiction. }
  cbn [xadd xsub xmul xneg xdiv]. rewrite E. cbn [xadd xsub xmul xneg xdiv]. rewrite E. cbn [xeq]. field. exact Hn. Qed.

(* for a series of length 0 the code divides by zero: the factor is not a finite number (the public function rejects h >= n first) *)
Theorem gen_hln_correction_zero_length (h : Q) : forall q, ~ gen_hln_correction (XFin 0) (XFin h) =x= XFin q.
Proof. intros q. unfold gen_hln_correction. cbn [xadd xsub xmul xneg xdiv]. 
  change (Qeq_bool 0 0) with true. cbv iota.
  destruct (Qsgn (h * (h + - (1)))) eqn:E1; cbn [xadd xdiv xeq]; try tauto;
  try (change (Qeq_bool 0 0) with true; cbv iota).
  all: try (destruct (Qsgn _); cbn [xeq]; tauto).
Qed.

Theorem gen_dm_ci_upper_is_model m q s : gen_dm_ci_upper m q s = ci_upper_m m q s.
Proof. reflexivity. Qed.
Theorem gen_dm_ci_lower_is_model m q s : gen_dm_ci_lower m q s = ci_lower_m m q s.
Proof. reflexivity. Qed.

(* so the bracketing theorem holds of the regenerated expressions themselves *)
Theorem gen_ci_brackets_mean m q s : 0 < q -> 0 < m * s ->
  exists lo up, gen_dm_ci_lower (XFin m) (XFin q) (XFin s) = XFin lo /\ gen_dm_ci_upper (XFin m) (XFin q) (XFin s) = XFin up
    /\ lo <= m <= up /\ up - m == q * Qabs (m / s) /\ m - lo == q * Qabs (m / s).
Proof. exact (ci_brackets_mean m q s). Qed.
