(* proofs/C13.v -- lemmas behind the C13 theorems (Brier scores). *)
From V Require Import lib.Tree gen.Gen_C13_kern model.C13.

(* ---- naturals as rationals ---- *)
Lemma qnat_S n : qnat (S n) == qnat n + 1.
Proof. unfold qnat. rewrite Nat2Z.inj_succ. unfold Z.succ. rewrite inject_Z_plus. reflexivity. Qed.
Lemma qnat_0 : qnat 0 == 0.
Proof. reflexivity. Qed.
Lemma qnat_nonneg n : 0 <= qnat n.
Proof. induction n. rewrite qnat_0; lra. rewrite qnat_S; lra. Qed.
Lemma qnat_plus a b : qnat (a + b) == qnat a + qnat b.
Proof. unfold qnat. rewrite Nat2Z.inj_add, inject_Z_plus. reflexivity. Qed.
Lemma qnat_le a b : (a <= b)%nat -> qnat a <= qnat b.
Proof. intro H. replace b with (a + (b - a))%nat by lia. rewrite qnat_plus. pose proof (qnat_nonneg (b - a)). lra. Qed.

(* ---- the regenerated per-case formula ---- *)
Ltac cell_unfold :=
  unfold gen_brier_ens_cell, brier_spec_q, xofnat; fold (qnat 0);
  repeat match goal with |- context [inject_Z (Z.of_nat ?n)] => fold (qnat n) end.

(* no valid member: 0/0 = NaN, whatever the observation *)
Lemma brier_cell_m0 (y : xv) (fair : bool) :
  gen_brier_ens_cell (xofnat 0) (xofnat 0) y fair = XNaN.
Proof. unfold gen_brier_ens_cell, xofnat. destruct fair, y; reflexivity. Qed.

(* NaN observation (or threshold): NaN *)
Lemma brier_cell_ynan (i m : xv) (fair : bool) : gen_brier_ens_cell i m XNaN fair = XNaN.
Proof. unfold gen_brier_ens_cell. destruct fair; xunf; destruct (xdiv i m); try reflexivity;
  destruct (xfillna _ _); reflexivity. Qed.

(* m >= 1 valid members, i of them forecasting the event *)
Lemma brier_cell_spec (i m : nat) (y : Q) (fair : bool) :
  (i <= S m)%nat ->
  gen_brier_ens_cell (xofnat i) (xofnat (S m)) (XFin y) fair =x= brier_spec_q i (S m) y fair.
Proof.
  intro Hi. pose proof (qnat_le _ _ Hi) as Hle. pose proof (qnat_nonneg i) as Hi0.
  destruct m as [|m].
  - (* a single member: the correction is 0/0 -> filled with 0 *)
    assert (Hc : i = 0%nat \/ i = 1%nat) by lia. unfold gen_brier_ens_cell, brier_spec_q, xofnat.
    destruct Hc as [-> | ->]; destruct fair;
    unfold qnat, xdiv, xfillna, inject_Z; simpl Z.of_nat; xunf;
    cbn -[Qle_bool Qeq_bool Qcompare Qmult Qplus Qminus Qopp Qdiv Qinv]; qcmp;
    cbn -[Qmult Qplus Qminus Qopp Qdiv Qinv]; try lra.
  - pose proof (qnat_S (S m)) as HS. pose proof (qnat_S m) as HS'. pose proof (qnat_nonneg m) as Hm0.
    cell_unfold. change (1 <? S (S m))%nat with true. rewrite andb_true_r.
    set (iq := qnat i) in *. set (mq := qnat (S (S m))) in *.
    assert (Hm2 : 2 <= mq) by lra.
    assert (Hd : ~ mq * mq * (mq - 1) == 0).
    { intro E. assert (4 <= mq * mq) by nra. assert (1 <= mq - 1) by lra. nra. }
    destruct fair; unfold xdiv, xfillna; xunf; cbn -[Qle_bool Qeq_bool Qcompare Qmult Qplus Qminus Qopp Qdiv Qinv];
    qcmp; cbn -[Qmult Qplus Qminus Qopp Qdiv Qinv]; try lra; try contradiction;
    try (exfalso; nra); try reflexivity; try (field; lra).
Qed.

(* ---- member counting ---- *)
Lemma evop_nan op t : evop_test op XNaN t = false.
Proof. destruct op, t as [| |[|]]; reflexivity. Qed.
Lemma filter_len_le {A} (p q : A -> bool) l :
  (forall x, p x = true -> q x = true) -> (length (filter p l) <= length (filter q l))%nat.
Proof. intro H. induction l as [|x t IH]; simpl; auto.
  destruct (p x) eqn:E. rewrite (H _ E). simpl. lia. destruct (q x); simpl; lia. Qed.
Lemma count_le_total op t ms : (member_event_count op t ms <= total_member_count ms)%nat.
Proof. unfold member_event_count, total_member_count, nancount, valids, countb. apply filter_len_le.
  intros [|x|s] H; auto. rewrite evop_nan in H. discriminate. Qed.

(* the per-case model equals the specification, for every ensemble (any size, NaN / infinite
   members), observation and threshold (NaN and +-inf included) *)
Lemma brier_ens_case_spec op fair t ms o :
  brier_ens_case op fair t ms o =x= brier_ens_spec op fair t ms o.
Proof.
  unfold brier_ens_case, brier_ens_spec, binary_obs.
  destruct (xisnan o) eqn:Eo; [simpl; rewrite brier_cell_ynan; reflexivity|].
  destruct (xisnan t) eqn:Et; [simpl; rewrite brier_cell_ynan; reflexivity|].
  simpl. pose proof (count_le_total op t ms) as Hle.
  destruct (total_member_count ms) as [|m] eqn:Em.
  - assert (member_event_count op t ms = 0%nat) as -> by lia. rewrite brier_cell_m0. reflexivity.
  - destruct (evop_test op o t); simpl; apply brier_cell_spec; auto.
Qed.

(* a NaN member is as if it were absent *)
Lemma brier_nan_member op fair t l1 l2 o :
  brier_ens_case op fair t (l1 ++ XNaN :: l2) o = brier_ens_case op fair t (l1 ++ l2) o.
Proof. unfold brier_ens_case, member_event_count, total_member_count, countb.
  rewrite nancount_skip, !filter_app. simpl. rewrite evop_nan. reflexivity. Qed.

(* the result is NaN exactly when there is no valid member or obs / threshold is NaN *)
Lemma brier_ens_nan_iff op fair t ms o :
  brier_ens_case op fair t ms o = XNaN <-> (total_member_count ms = 0%nat \/ o = XNaN \/ t = XNaN).
Proof.
  pose proof (brier_ens_case_spec op fair t ms o) as H. unfold brier_ens_spec in H.
  destruct o as [|oq|os]; destruct t as [|tq|ts]; simpl in H;
  try (destruct (brier_ens_case op fair _ ms _); simpl in H; try tauto; split; auto; fail);
  unfold brier_spec_q in H; destruct (total_member_count ms);
  destruct (brier_ens_case op fair _ ms _); simpl in H; try tauto;
  split; auto; try discriminate; intros [?|[?|?]]; discriminate.
Qed.

(* ---- complementary operators ---- *)
Lemma xlt_negb_xge a b : xisnan a = false -> xisnan b = false -> xlt a b = negb (xge a b).
Proof. destruct a as [|x|[|]], b as [|y|[|]]; simpl; try discriminate; auto. Qed.
Lemma xle_negb_xgt a b : xisnan a = false -> xisnan b = false -> xle a b = negb (xgt a b).
Proof. destruct a as [|x|[|]], b as [|y|[|]]; simpl; try discriminate; auto.
  intros _ _. unfold xgt, xlt, Qltb. rewrite negb_involutive. reflexivity. Qed.

Lemma count_compl (p q : xv -> bool) ms :
  (forall x, xisnan x = false -> q x = negb (p x)) -> (forall x, xisnan x = true -> p x = false /\ q x = false) ->
  (countb p ms + countb q ms = nancount ms)%nat.
Proof. intros H1 H2. unfold countb, nancount, valids. induction ms as [|x r IH]; simpl; auto.
  destruct (xisnan x) eqn:E.
  - destruct (H2 _ E) as [-> ->]. replace (xvalid x) with false by (unfold xvalid, xnotnull; rewrite E; auto). exact IH.
  - rewrite (H1 _ E). replace (xvalid x) with true by (unfold xvalid, xnotnull; rewrite E; auto).
    destruct (p x); simpl; lia. Qed.

Lemma brier_spec_q_compl i j m y fair :
  (i + j = m)%nat -> brier_spec_q j m (1 - y) fair =x= brier_spec_q i m y fair.
Proof.
  intro E. unfold brier_spec_q. destruct m as [|m]; [reflexivity|].
  pose proof (qnat_plus i j) as Hp. rewrite E in Hp. pose proof (qnat_S m) as HS. pose proof (qnat_nonneg m).
  set (mq := qnat (S m)) in *. assert (Hj : qnat j == mq - qnat i) by lra.
  destruct m as [|m].
  - change (1 <? 1)%nat with false. rewrite andb_false_r. unfold xeq. rewrite Hj. field. lra.
  - change (1 <? S (S m))%nat with true. rewrite andb_true_r. pose proof (qnat_S m) as HS'.
    assert (2 <= mq) by (unfold mq; rewrite qnat_S, qnat_S; pose proof (qnat_nonneg m); lra).
    destruct fair; unfold xeq; rewrite Hj; field; lra.
Qed.

Lemma brier_spec_q_ext i m y y' fair : y == y' -> brier_spec_q i m y fair =x= brier_spec_q i m y' fair.
Proof. intro E. unfold brier_spec_q. destruct m; [reflexivity|]. unfold xeq. rewrite E. reflexivity. Qed.

Definition compl (op : evop) : evop := match op with OpGe => OpLt | OpLt => OpGe | OpGt => OpLe | OpLe => OpGt end.
Lemma evop_compl op a b : xisnan a = false -> xisnan b = false -> evop_test (compl op) a b = negb (evop_test op a b).
Proof. intros Ha Hb. destruct op; simpl.
  - apply xlt_negb_xge; auto.
  - apply xle_negb_xgt; auto.
  - rewrite xle_negb_xgt; auto. rewrite negb_involutive. reflexivity.
  - rewrite xlt_negb_xge; auto. rewrite negb_involutive. reflexivity. Qed.

Lemma brier_complementary_spec op fair t ms o :
  brier_ens_spec (compl op) fair t ms o =x= brier_ens_spec op fair t ms o.
Proof.
  unfold brier_ens_spec. destruct (xisnan o) eqn:Eo; [reflexivity|]. destruct (xisnan t) eqn:Et; [reflexivity|]. simpl.
  assert (Hc : (member_event_count op t ms + member_event_count (compl op) t ms = total_member_count ms)%nat).
  { unfold member_event_count, total_member_count. apply count_compl.
    - intros x Hx. apply evop_compl; auto.
    - intros [| |] Hx; try discriminate. rewrite !evop_nan. auto. }
  rewrite (evop_compl op o t Eo Et).
  destruct (evop_test op o t); simpl negb; cbv iota.
  - rewrite <- (brier_spec_q_compl _ _ _ 1 fair Hc). apply brier_spec_q_ext. lra.
  - rewrite <- (brier_spec_q_compl _ _ _ 0 fair Hc). apply brier_spec_q_ext. lra.
Qed.

Lemma brier_complementary op fair t ms o :
  brier_ens_case (compl op) fair t ms o =x= brier_ens_case op fair t ms o.
Proof. rewrite !brier_ens_case_spec. apply brier_complementary_spec. Qed.

(* ---- brier_score ---- *)
Lemma sqerr_spec (f o : Q) : gen_c13_sqerr (XFin f) (XFin o) =x= XFin ((f - o) * (f - o)).
Proof. unfold gen_c13_sqerr. xunf. cbn. lra. Qed.
Lemma sqerr_nan_iff (f o : xv) : xisinf f = false -> xisinf o = false ->
  (gen_c13_sqerr f o = XNaN <-> f = XNaN \/ o = XNaN).
Proof. destruct f as [|f|], o as [|o|]; try discriminate; unfold gen_c13_sqerr; xunf; cbn;
  intuition (auto; discriminate). Qed.

Definition val01 (v : xv) : Prop := match v with XNaN => True | XFin q => 0 <= q <= 1 | XInf _ => False end.
Definition valbin (v : xv) : Prop := match v with XNaN => True | XFin q => q == 0 \/ q == 1 | XInf _ => False end.

Lemma xgt_xfmax a b c : xgt (xfmax a b) (XFin c) = xgt a (XFin c) || xgt b (XFin c).
Proof. destruct a as [|x|[|]], b as [|y|[|]]; simpl; auto; try (rewrite orb_false_r; auto);
  unfold xgt, xlt, Qltb; try (destruct (Qle_bool _ _); reflexivity).
  pose proof (Qle_bool_spec x y). pose proof (Qle_bool_spec x c). pose proof (Qle_bool_spec y c).
  destruct (Qle_bool x y), (Qle_bool x c), (Qle_bool y c); simpl; auto; exfalso; lra. Qed.
Lemma xlt_xfmin a b c : xlt (xfmin a b) (XFin c) = xlt a (XFin c) || xlt b (XFin c).
Proof. destruct a as [|x|[|]], b as [|y|[|]]; simpl; auto; try (rewrite orb_false_r; auto);
  unfold xlt, Qltb; try (destruct (Qle_bool _ _); reflexivity).
  pose proof (Qle_bool_spec x y). pose proof (Qle_bool_spec c x). pose proof (Qle_bool_spec c y).
  destruct (Qle_bool x y), (Qle_bool c x), (Qle_bool c y); simpl; auto; exfalso; lra. Qed.
Lemma xgt_nanmax l c : xgt (nanmax l) (XFin c) = existsb (fun v => xgt v (XFin c)) l.
Proof. unfold nanmax. induction l as [|x t IH]; [reflexivity|]. cbn [fold_right existsb]. rewrite xgt_xfmax, IH. reflexivity. Qed.
Lemma xlt_nanmin l c : xlt (nanmin l) (XFin c) = existsb (fun v => xlt v (XFin c)) l.
Proof. unfold nanmin. induction l as [|x t IH]; [reflexivity|]. cbn [fold_right existsb]. rewrite xlt_xfmin, IH. reflexivity. Qed.

Lemma val01_dec v : (xgt v X1 || xlt v X0 = false) <-> val01 v.
Proof. destruct v as [|q|[|]]; simpl; try tauto; try (split; [discriminate|tauto]).
  unfold xgt, xlt, Qltb. pose proof (Qle_bool_spec q 1). pose proof (Qle_bool_spec 0 q).
  destruct (Qle_bool q 1), (Qle_bool 0 q); simpl; split; intros; try discriminate; auto; lra. Qed.
Lemma valbin_dec v : is01 v = true <-> valbin v.
Proof. destruct v as [|q|[|]]; simpl; try tauto; try (split; [discriminate|tauto]).
  unfold is01. simpl. pose proof (Qeq_bool_spec q 0). pose proof (Qeq_bool_spec q 1).
  destruct (Qeq_bool q 0), (Qeq_bool q 1); simpl; split; intros; try discriminate; auto; tauto. Qed.

Lemma brier_guard_spec f o :
  brier_guard f o = None <-> (Forall val01 (lvalues f) /\ Forall valbin (lvalues o)).
Proof.
  unfold brier_guard, X1, X0. rewrite xgt_nanmax, xlt_nanmin.
  assert (H1 : existsb (fun v => xgt v (XFin 1)) (lvalues f) || existsb (fun v => xlt v (XFin 0)) (lvalues f) = false
               <-> Forall val01 (lvalues f)).
  { induction (lvalues f) as [|x t IH]; cbn [existsb]. split; auto.
    rewrite Forall_cons_iff, <- IH, <- val01_dec. unfold X1, X0.
    destruct (xgt x (XFin 1)), (xlt x (XFin 0)), (existsb (fun v => xgt v (XFin 1)) t),
      (existsb (fun v => xlt v (XFin 0)) t); simpl; intuition discriminate. }
  assert (H2 : forallb is01 (lvalues o) = true <-> Forall valbin (lvalues o)).
  { rewrite forallb_forall, Forall_forall. split; intros H x Hx; apply valbin_dec; auto. }
  unfold X1, X0 in *.
  destruct (existsb _ _ || existsb _ _).
  - split; [discriminate|]. intros [Hf _]. apply H1 in Hf. discriminate.
  - destruct (forallb is01 (lvalues o)); simpl.
    + split; auto. intros _. split; [apply H1; auto | apply H2; auto].
    + split; [discriminate|]. intros [_ Ho]. apply H2 in Ho. discriminate.
Qed.

Lemma brier_score_is_mse f o rd pd w :
  Forall val01 (lvalues f) -> Forall valbin (lvalues o) ->
  brier_score_m f o rd pd w true = mse_m f o rd pd w.
Proof. intros Hf Ho. unfold brier_score_m, brier_score_with, mse_m. destruct (proj2 (brier_guard_spec f o) (conj Hf Ho)).
  assert (E : brier_guard f o = None) by (apply brier_guard_spec; auto). rewrite E. reflexivity. Qed.
Lemma brier_score_rejects f o rd pd w :
  ~ (Forall val01 (lvalues f) /\ Forall valbin (lvalues o)) ->
  brier_score_m f o rd pd w true = Err ValueError.
Proof. intro H. unfold brier_score_m, brier_score_with. destruct (brier_guard f o) as [e|] eqn:E.
  - unfold brier_guard in E. destruct (_ || _); [inversion E; reflexivity|].
    destruct (negb _); inversion E. reflexivity.
  - exfalso. apply H. apply brier_guard_spec. auto. Qed.
Lemma brier_score_unchecked f o rd pd w : brier_score_m f o rd pd w false = mse_m f o rd pd w.
Proof. reflexivity. Qed.

(* what mse_m computes: the NaN-skipping mean, over the reduced dimensions, of weight * (f - o)^2 *)
Lemma mse_m_value f o rd pd w r e :
  mse_m f o rd pd w = Ok r ->
  exists R, gather (ldims f) (ldims o) None rd pd DNone = Ok R /\
    let s := apply_weights w (lzip gen_c13_sqerr f o) in
    lget r e = nanmean (map (lget s) (envs (lsize s) (dinter (ldims s) R) e)).
Proof. unfold mse_m, mse_with. destruct (gather _ _ _ _ _ _) as [R|]; simpl; intro H; inversion H. exists R. split; auto. Qed.

(* the specification kernel used by the check's property predicate agrees with the regenerated kernel everywhere *)
Lemma sqerr_spec_x_ok f o : sqerr_spec_x f o =x= gen_c13_sqerr f o.
Proof. destruct f as [|f|], o as [|o|]; try reflexivity. Qed.

(* complementarity at the level of the whole per-case array: every cell agrees *)
Lemma brier_pointwise_complementary fcst obs ens tdim ts op fair e :
  lget (brier_ens_pointwise brier_ens_case fcst obs ens tdim ts (compl op) fair) e =x=
  lget (brier_ens_pointwise brier_ens_case fcst obs ens tdim ts op fair) e.
Proof. simpl. apply brier_complementary. Qed.
(* ... and the whole per-case array of the model agrees cell by cell with the specification *)
Lemma brier_pointwise_spec fcst obs ens tdim ts op fair e :
  lget (brier_ens_pointwise brier_ens_case fcst obs ens tdim ts op fair) e =x=
  lget (brier_ens_pointwise brier_ens_spec fcst obs ens tdim ts op fair) e.
Proof. simpl. apply brier_ens_case_spec. Qed.
