(* proofs/C09.v -- lemmas behind the C09 theorems: every regenerated metric method of
   BasicContingencyManager equals its documented formula on every table, aliases, swap symmetries. *)
From V Require Import lib.Tree gen.Gen_C09_metrics gen.Gen_C09_binary model.C09.
From Coq Require Import Morphisms Setoid.

(* ------------------------------------------------------------------------------------------ *)
(* the one characterisation of division everything else is built on                            *)
(* ------------------------------------------------------------------------------------------ *)
Lemma xdiv_fin a b : xdiv (XFin a) (XFin b) = ratio a b.
Proof. unfold xdiv, ratio, Qsgn. qcmp; auto; exfalso; lra. Qed.

Lemma ratio_compat a a' b b' : a == a' -> b == b' -> ratio a b =x= ratio a' b'.
Proof. intros Ha Hb. rewrite <- !xdiv_fin. apply xdiv_Proper; simpl; auto. Qed.

Lemma ratio_nz a b : ~ b == 0 -> ratio a b = XFin (a / b).
Proof. intro H. unfold ratio. qcmp; auto; contradiction. Qed.
Lemma ratio_zz a b : b == 0 -> a == 0 -> ratio a b = XNaN.
Proof. intros Hb Ha. unfold ratio. qcmp; auto; contradiction. Qed.
Lemma ratio_zpos a b : b == 0 -> 0 < a -> ratio a b = XInf true.
Proof. intros Hb Ha. unfold ratio. qcmp; auto; try contradiction; exfalso; lra. Qed.
Lemma ratio_zneg a b : b == 0 -> a < 0 -> ratio a b = XInf false.
Proof. intros Hb Ha. unfold ratio. qcmp; auto; try contradiction; exfalso; lra. Qed.

(* for non-negative numerator and denominator: NaN iff both are zero, +inf iff only the denominator is
   zero, the finite quotient otherwise; never -inf *)
Lemma ratio_char a b : 0 <= a -> 0 <= b ->
  (ratio a b = XNaN <-> a == 0 /\ b == 0) /\
  (ratio a b = XInf true <-> 0 < a /\ b == 0) /\
  (0 < b -> ratio a b = XFin (a / b)) /\
  ratio a b <> XInf false.
Proof.
  intros Ha Hb. unfold ratio. qcmp; repeat split; intros; try discriminate; try tauto; try lra;
  try (exfalso; lra); try (destruct H; exfalso; lra).
Qed.

Lemma xdiv_inf_nonneg y : 0 <= y -> xdiv (XInf true) (XFin y) = XInf true.
Proof. intro H. unfold xdiv, Qsgn. destruct (Qcompare_spec y 0); auto. exfalso; lra. Qed.

Lemma Qeq_bool_nz a : ~ a == 0 -> Qeq_bool a 0 = false.
Proof. intro H. destruct (Qeq_bool a 0) eqn:E; auto. apply Qeq_bool_iff in E. contradiction. Qed.
Lemma Qsgn_pos y : 0 < y -> Qsgn y = Gt.
Proof. intro H. unfold Qsgn. destruct (Qcompare_spec y 0); auto; exfalso; lra. Qed.
Lemma Qsgn_neg y : y < 0 -> Qsgn y = Lt.
Proof. intro H. unfold Qsgn. destruct (Qcompare_spec y 0); auto; exfalso; lra. Qed.
Lemma Qsgn_zero y : y == 0 -> Qsgn y = Eq.
Proof. intro H. unfold Qsgn. destruct (Qcompare_spec y 0); auto; exfalso; lra. Qed.

Lemma xdiv_nan_l y : xdiv XNaN y = XNaN.
Proof. reflexivity. Qed.
Lemma xdiv_nan_r x : xdiv x XNaN = XNaN.
Proof. destruct x; reflexivity. Qed.
Lemma xdiv_fin_inf x s : xdiv (XFin x) (XInf s) = XFin 0.
Proof. reflexivity. Qed.
Lemma xdiv_inf_inf s t : xdiv (XInf s) (XInf t) = XNaN.
Proof. reflexivity. Qed.
Lemma xdiv_inf_fin s y : xdiv (XInf s) (XFin y) = match Qsgn y with Lt => XInf (negb s) | _ => XInf s end.
Proof. reflexivity. Qed.

Lemma nat_nonneg n : 0 <= inject_Z (Z.of_nat n).
Proof. unfold Qle. simpl. lia. Qed.

(* ------------------------------------------------------------------------------------------ *)
(* tactics: never script against the shape of a generated term beyond unfolding its name       *)
(* ------------------------------------------------------------------------------------------ *)
Ltac fin_arith := cbn [xadd xsub xmul xneg xpow2 xpow3 one_minus].
(* name every quotient x / y (y provably non-zero) by a fresh variable q with q * y == x, so that
   nra can decide the sign and zero-ness of expressions built from quotients *)
Ltac divfacts :=
  repeat match goal with
  | |- context [?x / ?y] =>
      let q := fresh "q" in let Hq := fresh "Hq" in
      assert (Hq : (x / y) * y == x) by (field; nra);
      set (q := x / y) in *; clearbody q
  | H : context [?x / ?y] |- _ =>
      let q := fresh "q" in let Hq := fresh "Hq" in
      assert (Hq : (x / y) * y == x) by (field; nra);
      set (q := x / y) in *; clearbody q
  end.
(* close XFin a =x= XFin b *)
Ltac qfin := cbn [xeq]; first [ field; nra | field_simplify_eq; [ nra | repeat split; nra ] ].
(* replace the counts known to be zero by 0 *)
Ltac subst0 := repeat match goal with H : ?x == 0 |- _ => is_var x; rewrite ?H; clear H end.
Ltac dnra := first [ nra | divfacts; nra | subst0; first [ field; nra | divfacts; nra ] ].
(* every division of two finite values becomes `ratio`; everything else (NaN / inf operands) computes *)
Ltac xsimp :=
  repeat (progress (cbn [xadd xsub xmul xneg xpow2 xpow3 one_minus orb andb negb Bool.eqb];
                    rewrite ?xdiv_fin, ?xdiv_nan_l, ?xdiv_nan_r, ?xdiv_fin_inf, ?xdiv_inf_inf, ?xdiv_inf_fin)).
(* resolve one quotient / zero test / sign test whose outcome follows from the hypotheses *)
Ltac rstep :=
  match goal with
  | |- context [ratio ?a ?b] =>
      first [ rewrite (ratio_nz a b) by dnra
            | rewrite (ratio_zz a b) by dnra
            | rewrite (ratio_zpos a b) by dnra
            | rewrite (ratio_zneg a b) by dnra ]
  | |- context [Qeq_bool ?a 0] =>
      first [ rewrite (proj2 (Qeq_bool_iff a 0)) by dnra
            | rewrite (Qeq_bool_nz a) by dnra ]
  | |- context [Qsgn ?y] =>
      first [ rewrite (Qsgn_pos y) by dnra | rewrite (Qsgn_zero y) by dnra | rewrite (Qsgn_neg y) by dnra ]
  end.
Ltac rnorm := repeat (xsimp; rstep); xsimp.
(* what is left is an identity between finite values, or between two quotients of undetermined sign *)
Ltac finish :=
  try reflexivity;
  first [ qfin
        | apply ratio_compat; field; nra
        | (* the specification side is already a finite quotient a'/b' with b' <> 0 decided; the generated side
             has the same denominator up to a field identity *)
          match goal with
          | |- ratio ?a ?b =x= XFin (?a' / ?b') =>
              let HB := fresh in let HB' := fresh in
              assert (HB : b == b') by (field; nra);
              assert (HB' : ~ b' == 0) by dnra;
              rewrite (ratio_nz a b) by (rewrite HB; exact HB'); qfin
          end ].
(* x = 0 or x > 0, for a non-negative x *)
Ltac split0 x H :=
  let P := fresh "P" in let Z := fresh "Z" in
  destruct (Qlt_le_dec 0 x) as [P|Z]; [| assert (x == 0) by lra; clear Z].
(* a one-division metric: generated = ratio num den up to Qeq *)
Ltac simple_metric f :=
  intros; unfold f; fin_arith; rewrite ?xdiv_fin; apply ratio_compat; unfold total; ring.

(* ------------------------------------------------------------------------------------------ *)
(* formulas: one-division metrics (hold for every rational, sign irrelevant)                   *)
(* ------------------------------------------------------------------------------------------ *)
Section Formulas.
  Variable ln : xv -> xv.
  Variables tp fp fn tn : Q.
  Notation T := (XFin tp). Notation F := (XFin fp). Notation M := (XFin fn). Notation N := (XFin tn).

  Lemma accuracy_formula : gen_metric_accuracy ln T F M N =x= spec_accuracy tp fp fn tn.
  Proof. unfold spec_accuracy. simple_metric gen_metric_accuracy. Qed.
  Lemma base_rate_formula : gen_metric_base_rate ln T F M N =x= spec_base_rate tp fp fn tn.
  Proof. unfold spec_base_rate. simple_metric gen_metric_base_rate. Qed.
  Lemma forecast_rate_formula : gen_metric_forecast_rate ln T F M N =x= spec_forecast_rate tp fp fn tn.
  Proof. unfold spec_forecast_rate. simple_metric gen_metric_forecast_rate. Qed.
  Lemma frequency_bias_formula : gen_metric_frequency_bias ln T F M N =x= spec_frequency_bias tp fp fn tn.
  Proof. unfold spec_frequency_bias. simple_metric gen_metric_frequency_bias. Qed.
  Lemma pod_formula : gen_metric_probability_of_detection ln T F M N =x= spec_pod tp fp fn tn.
  Proof. unfold spec_pod. simple_metric gen_metric_probability_of_detection. Qed.
  Lemma false_alarm_ratio_formula : gen_metric_false_alarm_ratio ln T F M N =x= spec_false_alarm_ratio tp fp fn tn.
  Proof. unfold spec_false_alarm_ratio. simple_metric gen_metric_false_alarm_ratio. Qed.
  Lemma false_alarm_rate_formula : gen_metric_false_alarm_rate ln T F M N =x= spec_pofd tp fp fn tn.
  Proof. unfold spec_pofd. simple_metric gen_metric_false_alarm_rate. Qed.
  Lemma success_ratio_formula : gen_metric_success_ratio ln T F M N =x= spec_success_ratio tp fp fn tn.
  Proof. unfold spec_success_ratio. simple_metric gen_metric_success_ratio. Qed.
  Lemma threat_score_formula : gen_metric_threat_score ln T F M N =x= spec_threat_score tp fp fn tn.
  Proof. unfold spec_threat_score. simple_metric gen_metric_threat_score. Qed.
  Lemma specificity_formula : gen_metric_specificity ln T F M N =x= spec_specificity tp fp fn tn.
  Proof. unfold spec_specificity. simple_metric gen_metric_specificity. Qed.
  Lemma npv_formula : gen_metric_negative_predictive_value ln T F M N =x= spec_npv tp fp fn tn.
  Proof. unfold spec_npv. simple_metric gen_metric_negative_predictive_value. Qed.
  Lemma f1_formula : gen_metric_f1_score ln T F M N =x= spec_f1 tp fp fn tn.
  Proof. unfold spec_f1. simple_metric gen_metric_f1_score. Qed.
  Lemma orss_formula : gen_metric_odds_ratio_skill_score ln T F M N =x= spec_orss tp fp fn tn.
  Proof. unfold spec_orss. simple_metric gen_metric_odds_ratio_skill_score. Qed.
  Lemma pofd_formula : gen_metric_probability_of_false_detection ln T F M N =x= spec_pofd tp fp fn tn.
  Proof. unfold gen_metric_probability_of_false_detection. apply false_alarm_rate_formula. Qed.
End Formulas.

(* ------------------------------------------------------------------------------------------ *)
(* nested formulas                                                                             *)
(* ------------------------------------------------------------------------------------------ *)
Lemma peirce_formula ln tp fp fn tn : 0 <= tp -> 0 <= fp -> 0 <= fn -> 0 <= tn ->
  gen_metric_peirce_skill_score ln (XFin tp) (XFin fp) (XFin fn) (XFin tn) =x= spec_peirce tp fp fn tn.
Proof.
  intros Htp Hfp Hfn Htn. unfold gen_metric_peirce_skill_score, spec_peirce.
  split0 tp Htp; split0 fp Hfp; split0 fn Hfn; split0 tn Htn; rnorm; finish.
Qed.

Lemma ets_formula ln tp fp fn tn : 0 <= tp -> 0 <= fp -> 0 <= fn -> 0 <= tn ->
  gen_metric_equitable_threat_score ln (XFin tp) (XFin fp) (XFin fn) (XFin tn) =x= spec_ets tp fp fn tn.
Proof.
  intros Htp Hfp Hfn Htn. unfold gen_metric_equitable_threat_score, spec_ets, hits_random, total.
  split0 tp Htp; split0 fp Hfp; split0 fn Hfn; split0 tn Htn; rnorm; finish.
Qed.

Lemma heidke_formula ln tp fp fn tn : 0 <= tp -> 0 <= fp -> 0 <= fn -> 0 <= tn ->
  gen_metric_heidke_skill_score ln (XFin tp) (XFin fp) (XFin fn) (XFin tn) =x= spec_heidke tp fp fn tn.
Proof.
  intros Htp Hfp Hfn Htn. unfold gen_metric_heidke_skill_score, spec_heidke, exp_correct, total.
  split0 tp Htp; split0 fp Hfp; split0 fn Hfn; split0 tn Htn; rnorm; finish.
Qed.

(* the nested POD/(1-POD) / (POFD/(1-POFD)) form is the IEEE value of tp*tn / (fp*fn) on EVERY table *)
Lemma odds_ratio_formula ln tp fp fn tn : 0 <= tp -> 0 <= fp -> 0 <= fn -> 0 <= tn ->
  gen_metric_odds_ratio ln (XFin tp) (XFin fp) (XFin fn) (XFin tn) =x= spec_odds_ratio tp fp fn tn.
Proof.
  intros Htp Hfp Hfn Htn.
  unfold gen_metric_odds_ratio, gen_metric_probability_of_false_detection, gen_metric_false_alarm_rate,
    gen_metric_probability_of_detection, spec_odds_ratio.
  split0 tp Htp; split0 fp Hfp; split0 fn Hfn; split0 tn Htn; rnorm; finish.
Qed.

(* SEDI: the regenerated method is the documented combination of the logarithms of POFD, POD, 1-POD, 1-POFD,
   for any function `ln` that respects equality of rationals *)
Lemma sedi_formula ln tp fp fn tn : Proper (xeq ==> xeq) ln ->
  gen_metric_symmetric_extremal_dependence_index ln (XFin tp) (XFin fp) (XFin fn) (XFin tn) =x= spec_sedi tp fp fn tn ln.
Proof.
  intro Hln. unfold gen_metric_symmetric_extremal_dependence_index, spec_sedi, one_minus.
  rewrite !(pofd_formula ln tp fp fn tn), !(pod_formula ln tp fp fn tn). reflexivity.
Qed.
Lemma lookup_log_Proper tbl : Proper (xeq ==> xeq) (lookup_log tbl).
Proof.
  intros x y H. induction tbl as [|[a v] t IH]; simpl. exact I.
  assert (E : xeqb a x = xeqb a y).
  { destruct (xeqb a x) eqn:E1, (xeqb a y) eqn:E2; auto.
    - apply xeqb_spec in E1. assert (a =x= y) by (rewrite E1; auto). apply xeqb_spec in H0. congruence.
    - apply xeqb_spec in E2. assert (a =x= x) by (rewrite E2; symmetry; auto). apply xeqb_spec in H0. congruence. }
  rewrite E. destruct (xeqb a y); auto. reflexivity.
Qed.

(* ------------------------------------------------------------------------------------------ *)
(* swap symmetries on the documented formulas                                                  *)
(* ------------------------------------------------------------------------------------------ *)
Lemma Qeq_bool_ext a b : a == b -> Qeq_bool a 0 = Qeq_bool b 0.
Proof. intro H. apply Qeq_bool_compat; auto. reflexivity. Qed.

Lemma spec_ets_swap tp fp fn tn : spec_ets tp fp fn tn =x= spec_ets tp fn fp tn.
Proof.
  unfold spec_ets, hits_random, total.
  rewrite (Qeq_bool_ext (tp + fp + fn + tn) (tp + fn + fp + tn)) by ring.
  destruct (Qeq_bool (tp + fn + fp + tn) 0) eqn:E. reflexivity.
  assert (~ tp + fn + fp + tn == 0) by (intro Z; apply Qeq_bool_iff in Z; congruence).
  apply ratio_compat; field; auto; intro; apply H; lra.
Qed.
Lemma spec_heidke_swap tp fp fn tn : spec_heidke tp fp fn tn =x= spec_heidke tp fn fp tn.
Proof.
  unfold spec_heidke, exp_correct, total.
  rewrite (Qeq_bool_ext (tp + fp + fn + tn) (tp + fn + fp + tn)) by ring.
  destruct (Qeq_bool (tp + fn + fp + tn) 0) eqn:E. reflexivity.
  assert (~ tp + fn + fp + tn == 0) by (intro Z; apply Qeq_bool_iff in Z; congruence).
  apply ratio_compat; field; auto; intro; apply H; lra.
Qed.

Section Swaps.
  Variable ln : xv -> xv.
  Variables tp fp fn tn : Q.
  Notation T := (XFin tp). Notation F := (XFin fp). Notation M := (XFin fn). Notation N := (XFin tn).

  (* exchanging forecast and observation exchanges false positives and false negatives *)
  Lemma swap_pod_success_ratio : gen_metric_probability_of_detection ln T M F N =x= gen_metric_success_ratio ln T F M N.
  Proof. rewrite pod_formula, success_ratio_formula. unfold spec_pod, spec_success_ratio. apply ratio_compat; ring. Qed.
  Lemma swap_success_ratio_pod : gen_metric_success_ratio ln T M F N =x= gen_metric_probability_of_detection ln T F M N.
  Proof. rewrite pod_formula, success_ratio_formula. unfold spec_pod, spec_success_ratio. apply ratio_compat; ring. Qed.
  Lemma swap_accuracy : gen_metric_accuracy ln T M F N =x= gen_metric_accuracy ln T F M N.
  Proof. rewrite !accuracy_formula. unfold spec_accuracy, total. apply ratio_compat; ring. Qed.
  Lemma swap_threat_score : gen_metric_threat_score ln T M F N =x= gen_metric_threat_score ln T F M N.
  Proof. rewrite !threat_score_formula. unfold spec_threat_score. apply ratio_compat; ring. Qed.
  Lemma swap_f1 : gen_metric_f1_score ln T M F N =x= gen_metric_f1_score ln T F M N.
  Proof. rewrite !f1_formula. unfold spec_f1. apply ratio_compat; ring. Qed.
  Lemma swap_heidke : 0 <= tp -> 0 <= fp -> 0 <= fn -> 0 <= tn ->
    gen_metric_heidke_skill_score ln T M F N =x= gen_metric_heidke_skill_score ln T F M N.
  Proof. intros. rewrite !heidke_formula by auto. apply spec_heidke_swap. Qed.
  Lemma swap_ets : 0 <= tp -> 0 <= fp -> 0 <= fn -> 0 <= tn ->
    gen_metric_equitable_threat_score ln T M F N =x= gen_metric_equitable_threat_score ln T F M N.
  Proof. intros. rewrite !ets_formula by auto. apply spec_ets_swap. Qed.
  Lemma swap_orss : gen_metric_odds_ratio_skill_score ln T M F N =x= gen_metric_odds_ratio_skill_score ln T F M N.
  Proof. rewrite !orss_formula. unfold spec_orss. apply ratio_compat; ring. Qed.
  Lemma swap_odds_ratio : 0 <= tp -> 0 <= fp -> 0 <= fn -> 0 <= tn ->
    gen_metric_odds_ratio ln T M F N =x= gen_metric_odds_ratio ln T F M N.
  Proof. intros. rewrite !odds_ratio_formula by auto. unfold spec_odds_ratio. apply ratio_compat; ring. Qed.
  (* ... and the frequency bias is inverted only in the sense that its two marginals are exchanged *)
  Lemma swap_base_forecast_rate : gen_metric_base_rate ln T M F N =x= gen_metric_forecast_rate ln T F M N.
  Proof. rewrite base_rate_formula, forecast_rate_formula. unfold spec_base_rate, spec_forecast_rate, total. apply ratio_compat; ring. Qed.
End Swaps.

(* ------------------------------------------------------------------------------------------ *)
(* the statements of coq/props/C09.v: counts are naturals                                       *)
(* ------------------------------------------------------------------------------------------ *)
Lemma accuracy_formula_nat : forall (ln : xv -> xv) (tp fp fn tn : nat),
  gen_metric_accuracy ln (xofnat tp) (xofnat fp) (xofnat fn) (xofnat tn) =x= ratio ((qn tp) + (qn tn)) ((qn tp) + (qn fp) + (qn fn) + (qn tn)).
Proof. intros. apply accuracy_formula. Qed.
Lemma base_rate_formula_nat : forall (ln : xv -> xv) (tp fp fn tn : nat),
  gen_metric_base_rate ln (xofnat tp) (xofnat fp) (xofnat fn) (xofnat tn) =x= ratio ((qn tp) + (qn fn)) ((qn tp) + (qn fp) + (qn fn) + (qn tn)).
Proof. intros. apply base_rate_formula. Qed.
Lemma forecast_rate_formula_nat : forall (ln : xv -> xv) (tp fp fn tn : nat),
  gen_metric_forecast_rate ln (xofnat tp) (xofnat fp) (xofnat fn) (xofnat tn) =x= ratio ((qn tp) + (qn fp)) ((qn tp) + (qn fp) + (qn fn) + (qn tn)).
Proof. intros. apply forecast_rate_formula. Qed.
Lemma frequency_bias_formula_nat : forall (ln : xv -> xv) (tp fp fn tn : nat),
  gen_metric_frequency_bias ln (xofnat tp) (xofnat fp) (xofnat fn) (xofnat tn) =x= ratio ((qn tp) + (qn fp)) ((qn tp) + (qn fn)).
Proof. intros. apply frequency_bias_formula. Qed.
Lemma pod_formula_nat : forall (ln : xv -> xv) (tp fp fn tn : nat),
  gen_metric_probability_of_detection ln (xofnat tp) (xofnat fp) (xofnat fn) (xofnat tn) =x= ratio (qn tp) ((qn tp) + (qn fn)).
Proof. intros. apply pod_formula. Qed.
Lemma false_alarm_ratio_formula_nat : forall (ln : xv -> xv) (tp fp fn tn : nat),
  gen_metric_false_alarm_ratio ln (xofnat tp) (xofnat fp) (xofnat fn) (xofnat tn) =x= ratio (qn fp) ((qn tp) + (qn fp)).
Proof. intros. apply false_alarm_ratio_formula. Qed.
Lemma false_alarm_rate_formula_nat : forall (ln : xv -> xv) (tp fp fn tn : nat),
  gen_metric_false_alarm_rate ln (xofnat tp) (xofnat fp) (xofnat fn) (xofnat tn) =x= ratio (qn fp) ((qn tn) + (qn fp)).
Proof. intros. apply false_alarm_rate_formula. Qed.
Lemma success_ratio_formula_nat : forall (ln : xv -> xv) (tp fp fn tn : nat),
  gen_metric_success_ratio ln (xofnat tp) (xofnat fp) (xofnat fn) (xofnat tn) =x= ratio (qn tp) ((qn tp) + (qn fp)).
Proof. intros. apply success_ratio_formula. Qed.
Lemma threat_score_formula_nat : forall (ln : xv -> xv) (tp fp fn tn : nat),
  gen_metric_threat_score ln (xofnat tp) (xofnat fp) (xofnat fn) (xofnat tn) =x= ratio (qn tp) ((qn tp) + (qn fp) + (qn fn)).
Proof. intros. apply threat_score_formula. Qed.
Lemma specificity_formula_nat : forall (ln : xv -> xv) (tp fp fn tn : nat),
  gen_metric_specificity ln (xofnat tp) (xofnat fp) (xofnat fn) (xofnat tn) =x= ratio (qn tn) ((qn tn) + (qn fp)).
Proof. intros. apply specificity_formula. Qed.
Lemma npv_formula_nat : forall (ln : xv -> xv) (tp fp fn tn : nat),
  gen_metric_negative_predictive_value ln (xofnat tp) (xofnat fp) (xofnat fn) (xofnat tn) =x= ratio (qn tn) ((qn tn) + (qn fn)).
Proof. intros. apply npv_formula. Qed.
Lemma f1_formula_nat : forall (ln : xv -> xv) (tp fp fn tn : nat),
  gen_metric_f1_score ln (xofnat tp) (xofnat fp) (xofnat fn) (xofnat tn) =x= ratio (2 * (qn tp)) (2 * (qn tp) + (qn fp) + (qn fn)).
Proof. intros. apply f1_formula. Qed.
Lemma orss_formula_nat : forall (ln : xv -> xv) (tp fp fn tn : nat),
  gen_metric_odds_ratio_skill_score ln (xofnat tp) (xofnat fp) (xofnat fn) (xofnat tn) =x= ratio ((qn tp) * (qn tn) - (qn fn) * (qn fp)) ((qn tp) * (qn tn) + (qn fn) * (qn fp)).
Proof. intros. apply orss_formula. Qed.
Lemma peirce_formula_nat : forall (ln : xv -> xv) (tp fp fn tn : nat),
  gen_metric_peirce_skill_score ln (xofnat tp) (xofnat fp) (xofnat fn) (xofnat tn) =x= spec_peirce (qn tp) (qn fp) (qn fn) (qn tn).
Proof. intros. apply peirce_formula; apply nat_nonneg. Qed.
Lemma ets_formula_nat : forall (ln : xv -> xv) (tp fp fn tn : nat),
  gen_metric_equitable_threat_score ln (xofnat tp) (xofnat fp) (xofnat fn) (xofnat tn) =x= spec_ets (qn tp) (qn fp) (qn fn) (qn tn).
Proof. intros. apply ets_formula; apply nat_nonneg. Qed.
Lemma heidke_formula_nat : forall (ln : xv -> xv) (tp fp fn tn : nat),
  gen_metric_heidke_skill_score ln (xofnat tp) (xofnat fp) (xofnat fn) (xofnat tn) =x= spec_heidke (qn tp) (qn fp) (qn fn) (qn tn).
Proof. intros. apply heidke_formula; apply nat_nonneg. Qed.
Lemma odds_ratio_formula_nat : forall (ln : xv -> xv) (tp fp fn tn : nat),
  gen_metric_odds_ratio ln (xofnat tp) (xofnat fp) (xofnat fn) (xofnat tn) =x= spec_odds_ratio (qn tp) (qn fp) (qn fn) (qn tn).
Proof. intros. apply odds_ratio_formula; apply nat_nonneg. Qed.
Lemma sedi_formula_nat : forall (ln : xv -> xv) (tp fp fn tn : nat), Proper (xeq ==> xeq) ln ->
  gen_metric_symmetric_extremal_dependence_index ln (xofnat tp) (xofnat fp) (xofnat fn) (xofnat tn) =x= spec_sedi (qn tp) (qn fp) (qn fn) (qn tn) ln.
Proof. intros. apply sedi_formula; auto. Qed.
Lemma alias_fraction_correct : forall ln tp fp fn tn, gen_metric_fraction_correct ln tp fp fn tn = gen_metric_accuracy ln tp fp fn tn.
Proof. reflexivity. Qed.
Lemma alias_bias_score : forall ln tp fp fn tn, gen_metric_bias_score ln tp fp fn tn = gen_metric_frequency_bias ln tp fp fn tn.
Proof. reflexivity. Qed.
Lemma alias_hit_rate : forall ln tp fp fn tn, gen_metric_hit_rate ln tp fp fn tn = gen_metric_probability_of_detection ln tp fp fn tn.
Proof. reflexivity. Qed.
Lemma alias_true_positive_rate : forall ln tp fp fn tn, gen_metric_true_positive_rate ln tp fp fn tn = gen_metric_probability_of_detection ln tp fp fn tn.
Proof. reflexivity. Qed.
Lemma alias_probability_of_false_detection : forall ln tp fp fn tn, gen_metric_probability_of_false_detection ln tp fp fn tn = gen_metric_false_alarm_rate ln tp fp fn tn.
Proof. reflexivity. Qed.
Lemma alias_critical_success_index : forall ln tp fp fn tn, gen_metric_critical_success_index ln tp fp fn tn = gen_metric_threat_score ln tp fp fn tn.
Proof. reflexivity. Qed.
Lemma alias_true_skill_statistic : forall ln tp fp fn tn, gen_metric_true_skill_statistic ln tp fp fn tn = gen_metric_peirce_skill_score ln tp fp fn tn.
Proof. reflexivity. Qed.
Lemma alias_hanssen_and_kuipers_discriminant : forall ln tp fp fn tn, gen_metric_hanssen_and_kuipers_discriminant ln tp fp fn tn = gen_metric_peirce_skill_score ln tp fp fn tn.
Proof. reflexivity. Qed.
Lemma alias_sensitivity : forall ln tp fp fn tn, gen_metric_sensitivity ln tp fp fn tn = gen_metric_probability_of_detection ln tp fp fn tn.
Proof. reflexivity. Qed.
Lemma alias_true_negative_rate : forall ln tp fp fn tn, gen_metric_true_negative_rate ln tp fp fn tn = gen_metric_specificity ln tp fp fn tn.
Proof. reflexivity. Qed.
Lemma alias_recall : forall ln tp fp fn tn, gen_metric_recall ln tp fp fn tn = gen_metric_probability_of_detection ln tp fp fn tn.
Proof. reflexivity. Qed.
Lemma alias_precision : forall ln tp fp fn tn, gen_metric_precision ln tp fp fn tn = gen_metric_success_ratio ln tp fp fn tn.
Proof. reflexivity. Qed.
Lemma alias_positive_predictive_value : forall ln tp fp fn tn, gen_metric_positive_predictive_value ln tp fp fn tn = gen_metric_success_ratio ln tp fp fn tn.
Proof. reflexivity. Qed.
Lemma alias_gilberts_skill_score : forall ln tp fp fn tn, gen_metric_gilberts_skill_score ln tp fp fn tn = gen_metric_equitable_threat_score ln tp fp fn tn.
Proof. reflexivity. Qed.
Lemma alias_cohens_kappa : forall ln tp fp fn tn, gen_metric_cohens_kappa ln tp fp fn tn = gen_metric_heidke_skill_score ln tp fp fn tn.
Proof. reflexivity. Qed.
Lemma alias_yules_q : forall ln tp fp fn tn, gen_metric_yules_q ln tp fp fn tn = gen_metric_odds_ratio_skill_score ln tp fp fn tn.
Proof. reflexivity. Qed.
Lemma swap_pod_success_ratio_nat : forall (ln : xv -> xv) (tp fp fn tn : nat),
  gen_metric_probability_of_detection ln (xofnat tp) (xofnat fn) (xofnat fp) (xofnat tn) =x= gen_metric_success_ratio ln (xofnat tp) (xofnat fp) (xofnat fn) (xofnat tn).
Proof. intros. apply swap_pod_success_ratio. Qed.
Lemma swap_success_ratio_pod_nat : forall (ln : xv -> xv) (tp fp fn tn : nat),
  gen_metric_success_ratio ln (xofnat tp) (xofnat fn) (xofnat fp) (xofnat tn) =x= gen_metric_probability_of_detection ln (xofnat tp) (xofnat fp) (xofnat fn) (xofnat tn).
Proof. intros. apply swap_success_ratio_pod. Qed.
Lemma swap_accuracy_nat : forall (ln : xv -> xv) (tp fp fn tn : nat),
  gen_metric_accuracy ln (xofnat tp) (xofnat fn) (xofnat fp) (xofnat tn) =x= gen_metric_accuracy ln (xofnat tp) (xofnat fp) (xofnat fn) (xofnat tn).
Proof. intros. apply swap_accuracy. Qed.
Lemma swap_threat_score_nat : forall (ln : xv -> xv) (tp fp fn tn : nat),
  gen_metric_threat_score ln (xofnat tp) (xofnat fn) (xofnat fp) (xofnat tn) =x= gen_metric_threat_score ln (xofnat tp) (xofnat fp) (xofnat fn) (xofnat tn).
Proof. intros. apply swap_threat_score. Qed.
Lemma swap_f1_nat : forall (ln : xv -> xv) (tp fp fn tn : nat),
  gen_metric_f1_score ln (xofnat tp) (xofnat fn) (xofnat fp) (xofnat tn) =x= gen_metric_f1_score ln (xofnat tp) (xofnat fp) (xofnat fn) (xofnat tn).
Proof. intros. apply swap_f1. Qed.
Lemma swap_heidke_nat : forall (ln : xv -> xv) (tp fp fn tn : nat),
  gen_metric_heidke_skill_score ln (xofnat tp) (xofnat fn) (xofnat fp) (xofnat tn) =x= gen_metric_heidke_skill_score ln (xofnat tp) (xofnat fp) (xofnat fn) (xofnat tn).
Proof. intros. apply swap_heidke; apply nat_nonneg. Qed.
Lemma swap_ets_nat : forall (ln : xv -> xv) (tp fp fn tn : nat),
  gen_metric_equitable_threat_score ln (xofnat tp) (xofnat fn) (xofnat fp) (xofnat tn) =x= gen_metric_equitable_threat_score ln (xofnat tp) (xofnat fp) (xofnat fn) (xofnat tn).
Proof. intros. apply swap_ets; apply nat_nonneg. Qed.
Lemma swap_orss_nat : forall (ln : xv -> xv) (tp fp fn tn : nat),
  gen_metric_odds_ratio_skill_score ln (xofnat tp) (xofnat fn) (xofnat fp) (xofnat tn) =x= gen_metric_odds_ratio_skill_score ln (xofnat tp) (xofnat fp) (xofnat fn) (xofnat tn).
Proof. intros. apply swap_orss. Qed.
Lemma swap_odds_ratio_nat : forall (ln : xv -> xv) (tp fp fn tn : nat),
  gen_metric_odds_ratio ln (xofnat tp) (xofnat fn) (xofnat fp) (xofnat tn) =x= gen_metric_odds_ratio ln (xofnat tp) (xofnat fp) (xofnat fn) (xofnat tn).
Proof. intros. apply swap_odds_ratio; apply nat_nonneg. Qed.
Lemma swap_base_forecast_rate_nat : forall (ln : xv -> xv) (tp fp fn tn : nat),
  gen_metric_base_rate ln (xofnat tp) (xofnat fn) (xofnat fp) (xofnat tn) =x= gen_metric_forecast_rate ln (xofnat tp) (xofnat fp) (xofnat fn) (xofnat tn).
Proof. intros. apply swap_base_forecast_rate. Qed.
