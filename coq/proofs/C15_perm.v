(* proofs/C15_perm.v -- the mean-functional fit does not depend on the order of the input pairs:
   the fitted value at a forecast is the same for every permutation of the (forecast, observation,
   weight) triples.  Consequence of optimality + uniqueness (C15_mean.v). *)
From Coq Require Import Permutation.
From V Require Import lib.Tree model.C15 proofs.C15 proofs.C15_mean.
Open Scope list_scope.
Open Scope Q_scope.

Definition zl := list (triple * Q).
Fixpoint lookup (x : Q) (L : zl) : Q :=
  match L with [] => 0 | (p, v) :: r => if Qeq_bool (tf p) x then v else lookup x r end.

Definition srt (L : zl) : Prop := adj (fun a b : triple * Q => tf (fst a) <= tf (fst b)) L.
Definition pooled (L : zl) : Prop := adj (fun a b : triple * Q => tf (fst a) == tf (fst b) -> snd a = snd b) L.
Definition vnd (L : zl) : Prop := adj (fun a b : triple * Q => snd a <= snd b) L.

Lemma lookup_proper x x' L : x == x' -> lookup x L = lookup x' L.
Proof. intro E. induction L as [|[p v] r IH]; simpl; auto.
  rewrite (Qeq_bool_compat (tf p) (tf p) x x' (Qeq_refl _) E). rewrite IH. reflexivity. Qed.

Lemma adj_head_trans {A} (R : A -> A -> Prop) : (forall a b c, R a b -> R b c -> R a c) ->
  forall h t, adj R (h :: t) -> forall e, In e t -> R h e.
Proof. intros Tr h t. revert h. induction t as [|b t IH]; intros h H e He; [destruct He|].
  destruct H as [Hhb H]. destruct He as [<-|He]; [exact Hhb|]. apply Tr with b; [exact Hhb | apply IH; assumption]. Qed.

Lemma srt_head h t : srt (h :: t) -> forall e, In e t -> tf (fst h) <= tf (fst e).
Proof. apply (adj_head_trans (fun a b : triple * Q => tf (fst a) <= tf (fst b))). intros a b c; apply Qle_trans. Qed.
Lemma vnd_head h t : vnd (h :: t) -> forall e, In e t -> snd h <= snd e.
Proof. apply (adj_head_trans (fun a b : triple * Q => snd a <= snd b)). intros a b c; apply Qle_trans. Qed.

Lemma same_f_same_v h t : srt (h :: t) -> pooled (h :: t) -> forall e, In e t -> tf (fst e) == tf (fst h) -> snd e = snd h.
Proof. revert h. induction t as [|b t IH]; intros h Hs Hp e He E; [destruct He|].
  destruct Hs as [Hhb Hs]. destruct Hp as [Phb Hp].
  assert (Eb : tf (fst h) == tf (fst b)).
  { apply Qle_antisym; [exact Hhb|]. destruct He as [<-|He]; [lra|]. pose proof (srt_head b t Hs e He). lra. }
  destruct He as [<-|He]; [symmetry; apply Phb; exact Eb|].
  rewrite (IH b Hs Hp e He); [symmetry; apply Phb; exact Eb | lra]. Qed.

Lemma lookup_in L : srt L -> pooled L -> forall e, In e L -> lookup (tf (fst e)) L = snd e.
Proof. induction L as [|[p v] r IH]; intros Hs Hp e He; [destruct He|]. simpl.
  pose proof (Qeq_bool_spec (tf p) (tf (fst e))) as Hc. destruct (Qeq_bool (tf p) (tf (fst e))).
  - destruct He as [<-|He]; [reflexivity|]. symmetry. apply (same_f_same_v (p, v) r Hs Hp e He). simpl. lra.
  - destruct He as [<-|He]; [exfalso; apply Hc; reflexivity|]. apply IH; [apply (adj_tail _ _ _ Hs) | apply (adj_tail _ _ _ Hp) | exact He]. Qed.

Lemma entries_mono L : srt L -> pooled L -> vnd L -> forall e1 e2, In e1 L -> In e2 L -> tf (fst e1) <= tf (fst e2) -> snd e1 <= snd e2.
Proof. induction L as [|h r IH]; intros Hs Hp Hv e1 e2 H1 H2 Hle; [destruct H1|].
  destruct H1 as [<-|H1]; destruct H2 as [<-|H2].
  - apply Qle_refl.
  - apply (vnd_head h r Hv e2 H2).
  - pose proof (srt_head h r Hs e1 H1). rewrite (same_f_same_v h r Hs Hp e1 H1); [apply Qle_refl | lra].
  - apply IH; auto; eapply adj_tail; eauto. Qed.

(* ---- zipping ---- *)
Lemma in_combine_ex {A B} (a : A) (l : list A) (v : list B) : length l = length v -> In a l -> exists b, In (a, b) (combine l v).
Proof. revert v. induction l as [|x t IH]; intros [|y v'] L H; simpl in *; try discriminate; [destruct H|].
  destruct H as [<-|H]; [exists y; left; reflexivity|]. destruct (IH v' ltac:(lia) H) as [b Hb]. exists b. right. exact Hb. Qed.
Lemma adj_combine_l {A B} (R : A -> A -> Prop) (l : list A) (v : list B) :
  adj R l -> adj (fun a b : A * B => R (fst a) (fst b)) (combine l v).
Proof. revert v. induction l as [|x [|y t] IH]; intros [|a [|b v']] H; simpl in *; auto.
  destruct H as [H1 H2]. split; [exact H1|]. apply (IH (b :: v')). exact H2. Qed.
Lemma adj_combine_r {A B} (R : B -> B -> Prop) (l : list A) (v : list B) :
  adj R v -> adj (fun a b : A * B => R (snd a) (snd b)) (combine l v).
Proof. revert v. induction l as [|x [|y t] IH]; intros [|a [|b v']] H; simpl in *; auto.
  destruct H as [H1 H2]. split; [exact H1|]. apply (IH (b :: v')). exact H2. Qed.
Lemma nondecr_adj v : nondecr v <-> adj (fun a b => a <= b) v.
Proof. induction v as [|a [|b t] IH]; simpl; try tauto. Qed.
Lemma map_from_entries (G : Q -> Q) (t : list triple) (v : list Q) :
  length t = length v -> (forall e, In e (combine t v) -> G (tf (fst e)) = snd e) -> map (fun p => G (tf p)) t = v.
Proof. revert v. induction t as [|p t IH]; intros [|x v'] L H; simpl in *; try discriminate; auto.
  f_equal; [apply (H (p, x)); left; reflexivity | apply IH; [lia | intros e He; apply H; right; exact He]]. Qed.

(* ---- cost of a regression function, a permutation-invariant sum ---- *)
Definition cost (G : Q -> Q) (p : triple) : Q := tw p * (to p - G (tf p)) * (to p - G (tf p)).
Fixpoint csum (G : Q -> Q) (t : list triple) : Q := match t with [] => 0 | p :: r => cost G p + csum G r end.
Lemma csum_perm G t t' : Permutation t t' -> csum G t == csum G t'.
Proof. induction 1; simpl; try lra. Qed.
Lemma wsse_map G t : wsse (map titem t) (map (fun p => G (tf p)) t) == csum G t.
Proof. induction t as [|p r IH]; simpl; [reflexivity|]. unfold titem at 1. rewrite IH. unfold cost. reflexivity. Qed.

Lemma adj_in {A} (R : A -> A -> Prop) l : adj R l -> adj (fun a b => In a l /\ In b l /\ R a b) l.
Proof. intro H. assert (X : forall pre, adj R l -> adj (fun a b => In a (pre ++ l) /\ In b (pre ++ l) /\ R a b) l).
  { clear H. induction l as [|a [|b t] IH]; intros pre H; simpl; auto. destruct H as [H1 H2]. split.
    - split; [apply in_or_app; right; left; reflexivity|]. split; [apply in_or_app; right; right; left; reflexivity | exact H1].
    - specialize (IH (pre ++ [a]) H2). rewrite <- app_assoc in IH. exact IH. }
  apply (X [] H). Qed.
Lemma nondecr_map {A} (g : A -> Q) (R : A -> A -> Prop) l : adj R l -> (forall a b, R a b -> g a <= g b) -> nondecr (map g l).
Proof. intros H Hg. induction l as [|a [|b t] IH]; simpl; auto. destruct H as [H1 H2]. split; [apply Hg; exact H1 | apply IH; exact H2]. Qed.

Lemma wpos_perm (t t' : list triple) : Permutation t t' -> wpos (map titem t) -> wpos (map titem t').
Proof. intros P H. unfold wpos in *. rewrite Forall_forall in *. intros i Hi. apply in_map_iff in Hi. destruct Hi as [p [<- Hp]].
  apply H. apply in_map. apply Permutation_in with t'; [apply Permutation_sym; exact P | exact Hp]. Qed.

Section OrderIndependence.
  Variables t t' : list triple.
  Hypothesis Hperm : Permutation t t'.
  Hypothesis Hsorted : adj (led key_le) t.
  Hypothesis Hsorted' : adj (led key_le) t'.
  Hypothesis Hpos : wpos (map titem t).

  Let v := pav mean_sv (map titem t).
  Let v' := pav mean_sv (map titem t').
  Let L := combine t v.
  Let L' := combine t' v'.

  Lemma len_v : length t = length v.
  Proof. unfold v. rewrite pav_length, map_length. reflexivity. Qed.
  Lemma len_v' : length t' = length v'.
  Proof. unfold v'. rewrite pav_length, map_length. reflexivity. Qed.

  Lemma L_srt : srt L.
  Proof. unfold srt, L. apply (adj_combine_l (fun a b : triple => tf a <= tf b)).
    eapply adj_impl; [|exact Hsorted]. intros a b E. apply key_le_spec in E. tauto. Qed.
  Lemma L_pooled : pooled L.
  Proof. unfold pooled, L, v. apply tidy_ties_pooled. exact Hsorted. Qed.
  Lemma L_vnd : vnd L.
  Proof. unfold vnd, L. apply (adj_combine_r (fun a b : Q => a <= b)). apply nondecr_adj. apply pav_nondecr. Qed.
  Lemma L'_srt : srt L'.
  Proof. unfold srt, L'. apply (adj_combine_l (fun a b : triple => tf a <= tf b)).
    eapply adj_impl; [|exact Hsorted']. intros a b E. apply key_le_spec in E. tauto. Qed.
  Lemma L'_pooled : pooled L'.
  Proof. unfold pooled, L', v'. apply tidy_ties_pooled. exact Hsorted'. Qed.
  Lemma L'_vnd : vnd L'.
  Proof. unfold vnd, L'. apply (adj_combine_r (fun a b : Q => a <= b)). apply nondecr_adj. apply pav_nondecr. Qed.

  (* a regression function read off one fit is a feasible, equally costly candidate for the other *)
  Lemma transfer (s s' : list triple) (w : list Q) :
    Permutation s s' -> adj (led key_le) s' -> length s = length w ->
    srt (combine s w) -> pooled (combine s w) -> vnd (combine s w) ->
    let G := fun x => lookup x (combine s w) in
    nondecr (map (fun p => G (tf p)) s') /\ wsse (map titem s') (map (fun p => G (tf p)) s') == wsse (map titem s) w.
  Proof.
    intros P Hs' Lw S1 S2 S3 G. split.
    - apply (nondecr_map _ _ _ (adj_in _ _ Hs')). intros a b [Ia [Ib E]]. apply key_le_spec in E. destruct E as [E _].
      apply (Permutation_in _ (Permutation_sym P)) in Ia. apply (Permutation_in _ (Permutation_sym P)) in Ib.
      destruct (in_combine_ex a s w Lw Ia) as [x Hx]. destruct (in_combine_ex b s w Lw Ib) as [y Hy].
      pose proof (lookup_in _ S1 S2 _ Hx) as Ex. pose proof (lookup_in _ S1 S2 _ Hy) as Ey. simpl in Ex, Ey.
      unfold G. rewrite Ex, Ey.
      apply (entries_mono _ S1 S2 S3 (a, x) (b, y) Hx Hy). exact E.
    - rewrite wsse_map. rewrite <- (csum_perm G s s' P). rewrite <- wsse_map.
      rewrite (map_from_entries G s w Lw); [reflexivity|]. intros e He. unfold G. apply lookup_in; assumption.
  Qed.

  Lemma fit_transfers : Forall2 Qeq v' (map (fun p => lookup (tf p) L) t').
  Proof.
    pose proof (wpos_perm t t' Hperm Hpos) as Hpos'.
    destruct (transfer t t' v Hperm Hsorted' len_v L_srt L_pooled L_vnd) as [N1 C1]. fold L in N1, C1.
    destruct (transfer t' t v' (Permutation_sym Hperm) Hsorted len_v' L'_srt L'_pooled L'_vnd) as [N2 C2]. fold L' in N2, C2.
    set (z' := map (fun p => lookup (tf p) L) t') in *. set (z := map (fun p => lookup (tf p) L') t) in *.
    assert (Lz' : length z' = length (map titem t')) by (unfold z'; rewrite !map_length; reflexivity).
    assert (Lz : length z = length (map titem t)) by (unfold z; rewrite !map_length; reflexivity).
    pose proof (pav_mean_optimal (map titem t') z' Hpos' Lz' N1) as O1. fold v' in O1.
    pose proof (pav_mean_optimal (map titem t) z Hpos Lz N2) as O2. fold v in O2.
    pose proof (wdist_nonneg (map titem t) Hpos v z) as D2.
    apply (wdist_zero (map titem t') Hpos'); [unfold v'; apply pav_length | exact Lz' | lra].
  Qed.

  (* the fitted value at a forecast is the same in both orders *)
  Lemma fit_order_independent i j : (i < length t)%nat -> (j < length t')%nat ->
    tf (nth i t (0, 0, 0)) == tf (nth j t' (0, 0, 0)) -> nth i v 0 == nth j v' 0.
  Proof.
    intros Hi Hj E. pose proof fit_transfers as F.
    assert (Fj : nth j v' 0 == lookup (tf (nth j t' (0, 0, 0))) L).
    { assert (X : forall (a b : list Q) k, Forall2 Qeq a b -> (k < length a)%nat -> nth k a 0 == nth k b 0).
      { intros a b k H. revert k. induction H; intros k Hk; simpl in *; [lia|]. destruct k; [assumption | apply IHForall2; lia]. }
      rewrite (X _ _ j F) by (rewrite <- len_v'; exact Hj).
      rewrite (nth_indep _ 0 ((fun p => lookup (tf p) L) (0, 0, 0))) by (rewrite map_length; exact Hj).
      rewrite (map_nth (fun p : triple => lookup (tf p) L) t' (0, 0, 0) j). reflexivity. }
    rewrite Fj, <- (lookup_proper _ _ L E).
    assert (Hin : In (nth i t (0, 0, 0), nth i v 0) L).
    { unfold L. rewrite <- (combine_nth t v i (0, 0, 0) 0 len_v). apply nth_In. rewrite combine_length, <- len_v. lia. }
    pose proof (lookup_in L L_srt L_pooled _ Hin) as Ein. simpl in Ein. rewrite Ein. reflexivity.
  Qed.
End OrderIndependence.

(* stated for the model's tidy step: any two orders of the same valid triples *)
Lemma tsort_order_independent (l1 l2 : list triple) : Permutation l1 l2 -> wpos (map titem l1) ->
  forall i j, (i < length l1)%nat -> (j < length l2)%nat ->
  tf (nth i (tsort l1) (0, 0, 0)) == tf (nth j (tsort l2) (0, 0, 0)) ->
  nth i (pav mean_sv (map titem (tsort l1))) 0 == nth j (pav mean_sv (map titem (tsort l2))) 0.
Proof.
  intros P Hp i j Hi Hj E.
  assert (P' : Permutation (tsort l1) (tsort l2)).
  { eapply perm_trans; [apply tsort_perm|]. eapply perm_trans; [exact P|]. apply Permutation_sym. apply tsort_perm. }
  apply (fit_order_independent (tsort l1) (tsort l2) P' (tsort_sorted l1) (tsort_sorted l2)).
  - apply (wpos_perm l1 (tsort l1)); [apply Permutation_sym; apply tsort_perm | exact Hp].
  - rewrite (Permutation_length (tsort_perm l1)). exact Hi.
  - rewrite (Permutation_length (tsort_perm l2)). exact Hj.
  - exact E.
Qed.

(* ------------------------------------------------------------------------------------ *)
(* the interpolating function returns the fitted value at every data forecast             *)
(* ------------------------------------------------------------------------------------ *)
Definition psrt (L : list (Q * Q)) : Prop := adj (fun a b : Q * Q => fst a <= fst b) L.
Definition ppooled (L : list (Q * Q)) : Prop := adj (fun a b : Q * Q => fst a == fst b -> snd a = snd b) L.

Lemma psrt_head h t : psrt (h :: t) -> forall e, In e t -> fst h <= fst e.
Proof. apply (adj_head_trans (fun a b : Q * Q => fst a <= fst b)). intros a b c; apply Qle_trans. Qed.

Lemma combine_cons2 {A B} (a : A) (b : B) l1 l2 : combine (a :: l1) (b :: l2) = (a, b) :: combine l1 l2.
Proof. reflexivity. Qed.

Lemma interp_at_member xs : forall ys x y', length ys = length xs ->
  psrt (combine xs ys) -> ppooled (combine xs ys) ->
  (exists x', In (x', y') (combine xs ys) /\ x' == x) -> interp_at xs ys x = XFin y'.
Proof.
  induction xs as [|x0 xs' IH]; intros ys x y' L Hs Hp [x' [Hin Ex]]; [destruct Hin|].
  destruct ys as [|y0 ys']; [discriminate|]. simpl in L.
  destruct xs' as [|x1 xs'']; destruct ys' as [|y1 ys'']; try discriminate.
  - destruct Hin as [E|[]]. inversion E; subst. cbn [interp_at].
    rewrite (Qeq_bool_compat x x' x' x' (Qeq_sym _ _ Ex) (Qeq_refl _)), Qeq_bool_refl. reflexivity.
  - rewrite !combine_cons2 in *. destruct Hs as [H01 Hs]. destruct Hp as [P01 Hp]. simpl in H01, P01.
    cbn [interp_at]. pose proof (Qle_bool_spec x1 x) as Hc. destruct (Qle_bool x1 x).
    + apply (IH (y1 :: ys'') x y'); [simpl in *; lia | exact Hs | exact Hp|].
      destruct Hin as [E|Hin]; [|exists x'; split; assumption].
      inversion E; subst. exists x1. assert (E1 : x' == x1) by lra. split; [left; rewrite (P01 E1); reflexivity | lra].
    + destruct Hin as [E|Hin].
      * inversion E; subst. rewrite (Qeq_bool_compat x x' x' x' (Qeq_sym _ _ Ex) (Qeq_refl _)), Qeq_bool_refl. reflexivity.
      * exfalso. destruct Hin as [E|Hin].
        -- inversion E; subst. lra.
        -- pose proof (psrt_head (x1, y1) (combine xs'' ys'') Hs (x', y') Hin). simpl in H. lra.
Qed.

Lemma adj_combine_map {A B C} (f : A -> C) (R : C * B -> C * B -> Prop) (l : list A) (v : list B) :
  adj (fun a b : A * B => R (f (fst a), snd a) (f (fst b), snd b)) (combine l v) -> adj R (combine (map f l) v).
Proof. revert v. induction l as [|x [|y t] IH]; intros [|a [|b v']] H; simpl in *; auto.
  destruct H as [H1 H2]. split; [exact H1|]. apply (IH (b :: v')). exact H2. Qed.

Lemma interp_ge xs ys x : xs <> [] -> hd 0 xs <= x -> interp xs ys x = interp_at xs ys x.
Proof. intros N H. destruct xs as [|x0 r]; [congruence|]. unfold interp. simpl in H. rewrite Qltb_false by exact H. reflexivity. Qed.
Lemma sorted_hd_le_nth (xs : list Q) k : adj (fun a b : Q => a <= b) xs -> (k < length xs)%nat -> hd 0 xs <= nth k xs 0.
Proof. intros Hs Hk. destruct xs as [|a r]; [simpl in Hk; lia|]. destruct k; [apply Qle_refl|]. simpl.
  apply (adj_head_trans (fun a b : Q => a <= b)) with (t := r); [intros u v w; apply Qle_trans | exact Hs|]. apply nth_In. simpl in Hk. lia. Qed.

(* regression_func evaluated at the k-th tidied forecast is the k-th fitted value (any solver) *)
Lemma interp_at_forecasts sv (l : list triple) k : (k < length l)%nat ->
  interp (map tf (tsort l)) (pav sv (map titem (tsort l))) (tf (nth k (tsort l) (0, 0, 0))) = XFin (nth k (pav sv (map titem (tsort l))) 0).
Proof.
  intro Hk. set (t := tsort l). set (vals := pav sv (map titem t)).
  assert (Lt : length t = length l) by (apply Permutation_length; apply tsort_perm).
  assert (Lv : length vals = length t) by (unfold vals; rewrite pav_length, map_length; reflexivity).
  assert (Hs : adj (fun a b : triple => tf a <= tf b) t).
  { eapply adj_impl; [|apply tsort_sorted]. intros a b E. apply key_le_spec in E. tauto. }
  assert (S1 : psrt (combine (map tf t) vals)).
  { apply (adj_combine_map tf (fun a b : Q * Q => fst a <= fst b)). simpl. apply (adj_combine_l (fun a b : triple => tf a <= tf b)). exact Hs. }
  assert (S2 : ppooled (combine (map tf t) vals)).
  { apply (adj_combine_map tf (fun a b : Q * Q => fst a == fst b -> snd a = snd b)). simpl. apply tidy_ties_thm. }
  assert (En : tf (nth k t (0, 0, 0)) = nth k (map tf t) 0) by (rewrite <- (map_nth tf t (0, 0, 0) k); reflexivity).
  assert (Hin : In (tf (nth k t (0, 0, 0)), nth k vals 0) (combine (map tf t) vals)).
  { rewrite En. rewrite <- (combine_nth (map tf t) vals k 0 0) by (rewrite map_length; lia). apply nth_In. rewrite combine_length, map_length. lia. }
  rewrite interp_ge.
  - apply interp_at_member; [rewrite map_length; lia | exact S1 | exact S2|]. eexists. split; [exact Hin | reflexivity].
  - destruct t; [simpl in Lt; lia | simpl; discriminate].
  - rewrite En. apply sorted_hd_le_nth; [apply adj_map; exact Hs | rewrite map_length; lia].
Qed.
