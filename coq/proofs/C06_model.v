(* proofs/C06_model.v -- the executable case model (regenerated cells + NaN-skipping reductions) computes the
   kernel-form specification over the non-missing members; consequences for the model (axiom-free). *)
From V Require Import lib.Tree gen.Gen_C06_crps model.C06 proofs.C06.
From Coq Require Import Permutation.
Open Scope string_scope.

Definition fin_of (v : xv) : Q := match v with XFin q => q | _ => 0 end.
Definition noinf (X : list xv) : Prop := Forall (fun v => xisinf v = false) X.

Ltac cell := xunf;
  repeat (progress (cbn -[Qle_bool Qeq_bool Qcompare Qmult Qplus Qminus Qopp Qdiv Qinv Qabs]; unfold Qsgn; qcmp)).

(* ---- reductions over a list with missing members ---- *)
Lemma valids_map_cell (g : xv -> xv) (f : Q -> Q) X :
  noinf X -> g XNaN = XNaN -> (forall q, g (XFin q) = XFin (f q)) -> valids (map g X) = fins (map f (qvals X)).
Proof.
  intros H Hn Hf. induction H as [|x X Hx HX IH]; [reflexivity|].
  destruct x as [|q|b]; try discriminate; cbn [map qvals]; unfold valids in *; cbn [filter].
  - rewrite Hn. cbn. exact IH.
  - rewrite Hf. cbn. f_equal. exact IH.
Qed.
Lemma valids_map_allnan (g : xv -> xv) X : (forall x, g x = XNaN) -> valids (map g X) = [].
Proof. intro H. induction X as [|x X IH]; [reflexivity|]. unfold valids in *. cbn [map filter]. rewrite H. cbn. exact IH. Qed.
Lemma valids_qvals X : noinf X -> valids X = fins (qvals X).
Proof. intro H. rewrite <- (map_id X) at 1. rewrite (valids_map_cell (fun x => x) (fun q => q) X H eq_refl (fun q => eq_refl)).
  rewrite map_id. reflexivity. Qed.
Lemma nancount_qvals X : noinf X -> nancount X = length (qvals X).
Proof. intro H. unfold nancount. rewrite (valids_qvals X H). unfold fins. apply map_length. Qed.

Lemma nanmean_cells (g : xv -> xv) (f : Q -> Q) X :
  noinf X -> g XNaN = XNaN -> (forall q, g (XFin q) = XFin (f q)) -> qvals X <> [] ->
  nanmean (map g X) =x= XFin (qsum (map f (qvals X)) / qlen (qvals X)).
Proof.
  intros H Hn Hf Hne. rewrite nanmean_valids, (valids_map_cell g f X H Hn Hf).
  assert (Hne' : map f (qvals X) <> []) by (destruct (qvals X); [congruence | discriminate]).
  rewrite (nanmean_fins _ Hne'). rewrite map_length. reflexivity.
Qed.
Lemma nanmean_cells_nil (g : xv -> xv) (f : Q -> Q) X :
  noinf X -> g XNaN = XNaN -> (forall q, g (XFin q) = XFin (f q)) -> qvals X = [] -> nanmean (map g X) = XNaN.
Proof. intros H Hn Hf E. rewrite nanmean_valids, (valids_map_cell g f X H Hn Hf), E. reflexivity. Qed.
Lemma nanmean_allnan (g : xv -> xv) X : (forall x, g x = XNaN) -> nanmean (map g X) = XNaN.
Proof. intro H. rewrite nanmean_valids, (valids_map_allnan g X H). reflexivity. Qed.

Lemma xsum_map_fin (F : xv -> xv) (f2 : Q -> Q) X :
  noinf X -> F XNaN =x= XFin 0 -> (forall a, F (XFin a) =x= XFin (f2 a)) ->
  xsum (map F X) =x= XFin (qsum (map f2 (qvals X))).
Proof.
  intros H Hn Hf. induction H as [|x X Hx HX IH]; [reflexivity|].
  cbn [map]. change (xsum (F x :: map F X)) with (xadd (F x) (xsum (map F X))). rewrite IH.
  destruct x as [|q|b]; try discriminate; cbn [qvals map qsum].
  - rewrite Hn. cbn. ring.
  - rewrite Hf. cbn. reflexivity.
Qed.

(* ---- the regenerated cells on finite / missing arguments ---- *)
Lemma pair_cell_nan_l b : gen_crps_pair_cell XNaN b = XNaN.
Proof. unfold gen_crps_pair_cell. destruct b; reflexivity. Qed.
Lemma pair_cell_nan_r a : gen_crps_pair_cell a XNaN = XNaN.
Proof. unfold gen_crps_pair_cell. destruct a; reflexivity. Qed.
Lemma pair_cell_fin a b : gen_crps_pair_cell (XFin a) (XFin b) = XFin (fin_of (gen_crps_pair_cell (XFin a) (XFin b))).
Proof. unfold gen_crps_pair_cell. cell; reflexivity. Qed.
Lemma pair_cell_val a b : fin_of (gen_crps_pair_cell (XFin a) (XFin b)) == Qabs (a - b).
Proof. unfold gen_crps_pair_cell. cell; qabs; lra. Qed.

Lemma obs_cell_nan_l y : gen_crps_obs_cell XNaN y = XNaN.
Proof. unfold gen_crps_obs_cell. destruct y; reflexivity. Qed.
Lemma obs_cell_nan_r x : gen_crps_obs_cell x XNaN = XNaN.
Proof. unfold gen_crps_obs_cell. destruct x; reflexivity. Qed.
Lemma obs_cell_fin a b : gen_crps_obs_cell (XFin a) (XFin b) = XFin (fin_of (gen_crps_obs_cell (XFin a) (XFin b))).
Proof. unfold gen_crps_obs_cell. cell; reflexivity. Qed.
Lemma obs_cell_val a b : fin_of (gen_crps_obs_cell (XFin a) (XFin b)) == Qabs (a - b).
Proof. unfold gen_crps_obs_cell. cell; qabs; lra. Qed.

Lemma under_cell_nan_l y : gen_crps_under_cell XNaN y = XNaN.
Proof. unfold gen_crps_under_cell. destruct y; reflexivity. Qed.
Lemma under_cell_nan_r x : gen_crps_under_cell x XNaN = XNaN.
Proof. unfold gen_crps_under_cell. destruct x; cell; reflexivity. Qed.
Lemma under_cell_fin a b : gen_crps_under_cell (XFin a) (XFin b) = XFin (fin_of (gen_crps_under_cell (XFin a) (XFin b))).
Proof. unfold gen_crps_under_cell. cell; reflexivity. Qed.
Lemma under_cell_val a b : fin_of (gen_crps_under_cell (XFin a) (XFin b)) == Qpos_part (b - a).
Proof. unfold gen_crps_under_cell, Qpos_part. cell; lra. Qed.

Lemma over_cell_nan_l y : gen_crps_over_cell XNaN y = XNaN.
Proof. unfold gen_crps_over_cell. destruct y; reflexivity. Qed.
Lemma over_cell_nan_r x : gen_crps_over_cell x XNaN = XNaN.
Proof. unfold gen_crps_over_cell. destruct x; cell; reflexivity. Qed.
Lemma over_cell_fin a b : gen_crps_over_cell (XFin a) (XFin b) = XFin (fin_of (gen_crps_over_cell (XFin a) (XFin b))).
Proof. unfold gen_crps_over_cell. cell; reflexivity. Qed.
Lemma over_cell_val a b : fin_of (gen_crps_over_cell (XFin a) (XFin b)) == Qpos_part (a - b).
Proof. unfold gen_crps_over_cell, Qpos_part. cell; lra. Qed.

(* the reductions the source names are the ones the proofs below are about (these break when the source changes them) *)
Lemma pair_red_is_sum l : red gen_crps_pair_red l = nansum l. Proof. reflexivity. Qed.
Lemma obs_red_is_mean l : red gen_crps_obs_red l = nanmean l. Proof. reflexivity. Qed.
Lemma under_red_is_mean l : red gen_crps_under_red l = nanmean l. Proof. reflexivity. Qed.
Lemma over_red_is_mean l : red gen_crps_over_red l = nanmean l. Proof. reflexivity. Qed.
Lemma count_red_is_count l : red gen_crps_count_red l = xcount l. Proof. reflexivity. Qed.

(* ---- the pieces of one case ---- *)
Lemma count_model X : noinf X -> ens_count X = XFin (qlen (qvals X)).
Proof. intro H. unfold ens_count. rewrite count_red_is_count. unfold xcount, xofnat, qlen. rewrite (nancount_qvals X H). reflexivity. Qed.

Lemma obs_term_model X y : noinf X -> qvals X <> [] ->
  ens_obs_term X (XFin y) =x= XFin (q_obs_sum (qvals X) y / qlen (qvals X)).
Proof.
  intros H Hne. unfold ens_obs_term. rewrite obs_red_is_mean.
  rewrite (nanmean_cells (fun x => gen_crps_obs_cell x (XFin y)) (fun a => fin_of (gen_crps_obs_cell (XFin a) (XFin y))) X H
             (obs_cell_nan_l _) (fun a => obs_cell_fin a y) Hne).
  cbn [xeq]. unfold q_obs_sum. rewrite (qsum_ext _ (fun x => Qabs (x - y))) by (intros; apply obs_cell_val). reflexivity.
Qed.
Lemma obs_term_nil X y : noinf X -> qvals X = [] -> ens_obs_term X (XFin y) = XNaN.
Proof. intros H E. unfold ens_obs_term. rewrite obs_red_is_mean.
  apply (nanmean_cells_nil (fun x => gen_crps_obs_cell x (XFin y)) (fun a => fin_of (gen_crps_obs_cell (XFin a) (XFin y))) X H
             (obs_cell_nan_l _) (fun a => obs_cell_fin a y) E). Qed.
Lemma obs_term_nanobs X : ens_obs_term X XNaN = XNaN.
Proof. unfold ens_obs_term. rewrite obs_red_is_mean. apply nanmean_allnan. intro x. apply obs_cell_nan_r. Qed.

Lemma pair_sum_model X : noinf X -> ens_pair_sum X =x= XFin (q_pair_sum (qvals X)).
Proof.
  intro H. unfold ens_pair_sum. rewrite (map_ext _ _ (fun xi => pair_red_is_sum _)).
  rewrite (xsum_map_fin _ (fun a => qsum (map (fun xj => fin_of (gen_crps_pair_cell (XFin xj) (XFin a))) (qvals X))) X H).
  - cbn [xeq]. unfold q_pair_sum. apply qsum_ext. intros a _. apply qsum_ext. intros; apply pair_cell_val.
  - unfold nansum. rewrite (valids_map_allnan (fun xj => gen_crps_pair_cell xj XNaN) X pair_cell_nan_r). reflexivity.
  - intro a. unfold nansum.
    rewrite (valids_map_cell (fun xj => gen_crps_pair_cell xj (XFin a)) (fun xj => fin_of (gen_crps_pair_cell (XFin xj) (XFin a))) X H
               (pair_cell_nan_l _) (fun q => pair_cell_fin q a)).
    apply xsum_fins.
Qed.

Lemma under_model X y : noinf X -> qvals X <> [] -> crps_under X (XFin y) =x= XFin (q_under (qvals X) y).
Proof.
  intros H Hne. unfold crps_under. rewrite under_red_is_mean.
  rewrite (nanmean_cells (fun x => gen_crps_under_cell x (XFin y)) (fun a => fin_of (gen_crps_under_cell (XFin a) (XFin y))) X H
             (under_cell_nan_l _) (fun a => under_cell_fin a y) Hne).
  cbn [xeq]. unfold q_under. rewrite (qsum_ext _ (fun x => Qpos_part (y - x))) by (intros; apply under_cell_val). reflexivity.
Qed.
Lemma over_model X y : noinf X -> qvals X <> [] -> crps_over X (XFin y) =x= XFin (q_over (qvals X) y).
Proof.
  intros H Hne. unfold crps_over. rewrite over_red_is_mean.
  rewrite (nanmean_cells (fun x => gen_crps_over_cell x (XFin y)) (fun a => fin_of (gen_crps_over_cell (XFin a) (XFin y))) X H
             (over_cell_nan_l _) (fun a => over_cell_fin a y) Hne).
  cbn [xeq]. unfold q_over. rewrite (qsum_ext _ (fun x => Qpos_part (x - y))) by (intros; apply over_cell_val). reflexivity.
Qed.
Lemma under_nil X y : noinf X -> qvals X = [] -> crps_under X (XFin y) = XNaN.
Proof. intros H E. unfold crps_under. rewrite under_red_is_mean. apply (nanmean_cells_nil (fun x => gen_crps_under_cell x (XFin y)) (fun a => fin_of (gen_crps_under_cell (XFin a) (XFin y))) X H
             (under_cell_nan_l _) (fun a => under_cell_fin a y) E). Qed.
Lemma over_nil X y : noinf X -> qvals X = [] -> crps_over X (XFin y) = XNaN.
Proof. intros H E. unfold crps_over. rewrite over_red_is_mean. apply (nanmean_cells_nil (fun x => gen_crps_over_cell x (XFin y)) (fun a => fin_of (gen_crps_over_cell (XFin a) (XFin y))) X H
             (over_cell_nan_l _) (fun a => over_cell_fin a y) E). Qed.
Lemma under_nanobs X : crps_under X XNaN = XNaN.
Proof. unfold crps_under. rewrite under_red_is_mean. apply nanmean_allnan. intro; apply under_cell_nan_r. Qed.
Lemma over_nanobs X : crps_over X XNaN = XNaN.
Proof. unfold crps_over. rewrite over_red_is_mean. apply nanmean_allnan. intro; apply over_cell_nan_r. Qed.

(* ---- normalisation of the spread term ---- *)
Lemma norm_ecdf p m : 0 < m -> gen_crps_norm "ecdf" (XFin p) (XFin m) =x= XFin (p / (2 * m * m)).
Proof. intro Hm. unfold gen_crps_norm. cell; try nra. field. lra. Qed.
Lemma norm_fair p m : 2 <= m -> gen_crps_norm "fair" (XFin p) (XFin m) =x= XFin (p / (2 * m * (m - 1))).
Proof. intro Hm. unfold gen_crps_norm. cell; try nra. field. lra. Qed.
Lemma norm_fair_one p m : m == 1 -> p == 0 -> gen_crps_norm "fair" (XFin p) (XFin m) = XNaN.
Proof. intros Hm Hp. unfold gen_crps_norm. cell; try reflexivity; try lra; try nra. Qed.

(* ---------------------------------------------------------------------------------------------- *)
(* the case model computes the specification                                                         *)
(* ---------------------------------------------------------------------------------------------- *)
Lemma total_nan_l s : gen_crps_total XNaN s = XNaN.
Proof. unfold gen_crps_total. destruct s; reflexivity. Qed.
Lemma total_three o u v sp : o == u + v ->
  gen_crps_total (XFin o) sp =x= xsub (xadd (XFin u) (XFin v)) sp.
Proof. intro E. unfold gen_crps_total. destruct sp; cell; try reflexivity; lra. Qed.
Lemma total_fin o s : gen_crps_total (XFin o) (XFin s) =x= XFin (o - s).
Proof. unfold gen_crps_total. cell. lra. Qed.
Lemma total_nan_r o : gen_crps_total o XNaN = XNaN.
Proof. unfold gen_crps_total. destruct o; reflexivity. Qed.
Lemma mask_fin s o : gen_crps_spread_mask s (XFin o) = s.
Proof. unfold gen_crps_spread_mask. reflexivity. Qed.
Lemma mask_nan s : gen_crps_spread_mask s XNaN = XNaN.
Proof. unfold gen_crps_spread_mask. reflexivity. Qed.

Definition meth_ok (m : string) : Prop := m = "ecdf" \/ m = "fair".
(* the specification on a non-empty list of valid members *)
Definition spec_list (meth : string) (L : list Q) (y : Q) : xv :=
  if String.eqb meth "ecdf" then XFin (crps_ecdf L y)
  else match L with [_] => XNaN | _ => XFin (crps_fair L y) end.
Lemma spec_case_cons meth X y q L : qvals X = q :: L -> spec_case meth X (XFin y) = spec_list meth (q :: L) y.
Proof. intro E. unfold spec_case, spec_list. rewrite E. reflexivity. Qed.
Lemma spec_case_nil meth X y : qvals X = [] -> spec_case meth X y = XNaN.
Proof. intro E. unfold spec_case. rewrite E. destruct y; reflexivity. Qed.
Lemma spec_case_nanobs meth X : spec_case meth X XNaN = XNaN.
Proof. reflexivity. Qed.

Lemma pair_sum_single q : q_pair_sum [q] == 0.
Proof. unfold q_pair_sum. cbn [map qsum]. rewrite abs_self. ring. Qed.

Theorem model_is_spec meth X y : meth_ok meth -> noinf X -> xisinf y = false ->
  crps_case meth X y =x= spec_case meth X y.
Proof.
  intros Hm H Hy. destruct y as [|y|b]; try discriminate.
  { unfold crps_case. rewrite obs_term_nanobs, total_nan_l. reflexivity. }
  destruct (qvals X) as [|q L] eqn:E.
  { unfold crps_case. rewrite (obs_term_nil X y H E), total_nan_l, (spec_case_nil _ _ _ E). reflexivity. }
  assert (Hne : qvals X <> []) by (rewrite E; discriminate).
  rewrite (spec_case_cons meth X y q L E).
  pose proof (obs_term_model X y H Hne) as A. pose proof (pair_sum_model X H) as B. pose proof (count_model X H) as C.
  unfold crps_case, ens_spread. rewrite C. rewrite E in *.
  destruct (ens_obs_term X (XFin y)) as [|o|]; cbn [xeq] in A; try contradiction.
  destruct (ens_pair_sum X) as [|p|]; cbn [xeq] in B; try contradiction.
  assert (Hpos : 0 < qlen (q :: L)) by (apply qlen_pos; discriminate).
  destruct Hm as [-> | ->]; unfold spec_list; cbn [String.eqb Ascii.eqb Bool.eqb].
  - pose proof (norm_ecdf p _ Hpos) as N.
    destruct (gen_crps_norm "ecdf" (XFin p) (XFin (qlen (q :: L)))) as [|s|]; cbn [xeq] in N; try contradiction.
    rewrite total_fin. cbn [xeq]. unfold crps_ecdf. rewrite A, N, B. reflexivity.
  - destruct L as [|q' L'].
    + rewrite (norm_fair_one p (qlen [q])); [rewrite total_nan_r; reflexivity | reflexivity | rewrite B; apply pair_sum_single].
    + assert (H2 : 2 <= qlen (q :: q' :: L')) by (apply qlen_ge2; simpl; lia).
      pose proof (norm_fair p _ H2) as N.
      destruct (gen_crps_norm "fair" (XFin p) (XFin (qlen (q :: q' :: L')))) as [|s|]; cbn [xeq] in N; try contradiction.
      rewrite total_fin. cbn [xeq]. unfold crps_fair. rewrite A, N, B. reflexivity.
Qed.

(* total = underforecast + overforecast - spread, NaN patterns included, for every method string *)
Theorem components_model meth X y : noinf X -> xisinf y = false ->
  crps_case meth X y =x= xsub (xadd (crps_under X y) (crps_over X y)) (crps_spread_c meth X y).
Proof.
  intros H Hy. destruct y as [|y|b]; try discriminate.
  { unfold crps_case. rewrite obs_term_nanobs, total_nan_l, under_nanobs. reflexivity. }
  destruct (qvals X) as [|q L] eqn:E.
  { unfold crps_case. rewrite (obs_term_nil X y H E), total_nan_l, (under_nil X y H E). reflexivity. }
  assert (Hne : qvals X <> []) by (rewrite E; discriminate).
  pose proof (obs_term_model X y H Hne) as A. pose proof (under_model X y H Hne) as U. pose proof (over_model X y H Hne) as V.
  unfold crps_case, crps_spread_c.
  destruct (ens_obs_term X (XFin y)) as [|o|]; cbn [xeq] in A; try contradiction.
  destruct (crps_under X (XFin y)) as [|u|]; cbn [xeq] in U; try contradiction.
  destruct (crps_over X (XFin y)) as [|v|]; cbn [xeq] in V; try contradiction.
  rewrite mask_fin. apply total_three. rewrite A, U, V. apply obs_term_under_over.
Qed.

(* ---------------------------------------------------------------------------------------------- *)
(* maps of the members (chaining functions, shifts, scalings)                                        *)
(* ---------------------------------------------------------------------------------------------- *)
Lemma qvals_map (ch : xv -> xv) (f : Q -> Q) X :
  noinf X -> ch XNaN = XNaN -> (forall q, ch (XFin q) = XFin (f q)) ->
  qvals (map ch X) = map f (qvals X) /\ noinf (map ch X).
Proof.
  intros H Hn Hf. induction H as [|x X Hx HX [IH1 IH2]]; [split; [reflexivity | constructor]|].
  destruct x as [|q|b]; try discriminate; cbn [map qvals].
  - rewrite Hn. split; [exact IH1 | constructor; auto].
  - rewrite Hf. cbn [qvals map]. split; [f_equal; exact IH1 | constructor; auto].
Qed.

(* spec_list under members / observation mapped by f, in terms of the generic kernel *)
Lemma spec_list_kern meth L y : meth_ok meth -> (2 <= length L)%nat \/ meth = "ecdf" ->
  exists c, forall (f : Q -> Q), spec_list meth (map f L) (f y) =x= XFin (kern c (map f L) (f y)).
Proof.
  intros [-> | ->] Hl.
  - exists (/ (2 * qlen L * qlen L)). intro f. unfold spec_list. cbn [String.eqb Ascii.eqb Bool.eqb xeq].
    rewrite crps_ecdf_kern, qlen_map'. reflexivity.
  - destruct Hl as [Hl | Hl]; [|discriminate]. exists (/ (2 * qlen L * (qlen L - 1))). intro f.
    unfold spec_list. cbn [String.eqb Ascii.eqb Bool.eqb].
    destruct L as [|a [|b L]]; simpl in Hl; try lia. cbn [map xeq].
    rewrite crps_fair_kern. change (f a :: f b :: map f L) with (map f (a :: b :: L)). rewrite qlen_map'. reflexivity.
Qed.
Lemma spec_list_single_fair (f : Q -> Q) a y : spec_list "fair" (map f [a]) (f y) = XNaN.
Proof. reflexivity. Qed.

(* chaining cells *)
Lemma chain_lower_nan t : gen_chain_tail "lower" XNaN t = XNaN.
Proof. unfold gen_chain_tail. cbn. destruct t; reflexivity. Qed.
Lemma chain_upper_nan t : gen_chain_tail "upper" XNaN t = XNaN.
Proof. unfold gen_chain_tail. cbn. destruct t; reflexivity. Qed.
Lemma chain_interval_nan lo hi : gen_chain_interval XNaN (XFin lo) (XFin hi) = XNaN.
Proof. unfold gen_chain_interval. reflexivity. Qed.
Lemma chain_lower_fin x t : gen_chain_tail "lower" (XFin x) (XFin t) = XFin (fin_of (gen_chain_tail "lower" (XFin x) (XFin t))).
Proof. unfold gen_chain_tail. cell; reflexivity. Qed.
Lemma chain_upper_fin x t : gen_chain_tail "upper" (XFin x) (XFin t) = XFin (fin_of (gen_chain_tail "upper" (XFin x) (XFin t))).
Proof. unfold gen_chain_tail. cell; reflexivity. Qed.
Lemma chain_interval_fin x lo hi :
  gen_chain_interval (XFin x) (XFin lo) (XFin hi) = XFin (fin_of (gen_chain_interval (XFin x) (XFin lo) (XFin hi))).
Proof. unfold gen_chain_interval. cell; reflexivity. Qed.
Lemma chain_lower_val x t : fin_of (gen_chain_tail "lower" (XFin x) (XFin t)) == Qmn x t.
Proof. unfold gen_chain_tail, Qmn. cell; lra. Qed.
Lemma chain_upper_val x t : fin_of (gen_chain_tail "upper" (XFin x) (XFin t)) == Qmx x t.
Proof. unfold gen_chain_tail, Qmx. cell; lra. Qed.
Lemma chain_interval_val x lo hi : fin_of (gen_chain_interval (XFin x) (XFin lo) (XFin hi)) == Qclip lo hi x.
Proof. unfold gen_chain_interval, Qclip, Qmx, Qmn. cell; lra. Qed.

Lemma chain_split3 lo hi a b : lo <= hi ->
  let f1 := fun x => fin_of (gen_chain_tail "lower" (XFin x) (XFin lo)) in
  let f2 := fun x => fin_of (gen_chain_interval (XFin x) (XFin lo) (XFin hi)) in
  let f3 := fun x => fin_of (gen_chain_tail "upper" (XFin x) (XFin hi)) in
  Qabs (f1 a - f1 b) + Qabs (f2 a - f2 b) + Qabs (f3 a - f3 b) == Qabs (a - b).
Proof. intros H f1 f2 f3. unfold f1, f2, f3. rewrite !chain_lower_val, !chain_upper_val, !chain_interval_val. apply tw_split3; auto. Qed.
Lemma chain_split2 t a b :
  let f1 := fun x => fin_of (gen_chain_tail "lower" (XFin x) (XFin t)) in
  let f3 := fun x => fin_of (gen_chain_tail "upper" (XFin x) (XFin t)) in
  Qabs (f1 a - f1 b) + Qabs (f3 a - f3 b) == Qabs (a - b).
Proof. intros f1 f3. unfold f1, f3. rewrite !chain_lower_val, !chain_upper_val. apply tw_split2. Qed.

(* a case whose members and observation are mapped through a cell function `ch` (ch NaN = NaN, finite to finite) *)
Lemma mapped_case meth (ch : xv -> xv) (f : Q -> Q) X y :
  meth_ok meth -> noinf X -> ch XNaN = XNaN -> (forall q, ch (XFin q) = XFin (f q)) ->
  crps_case meth (map ch X) (ch (XFin y)) =x= match qvals X with [] => XNaN | L => spec_list meth (map f L) (f y) end.
Proof.
  intros Hm H Hn Hf. destruct (qvals_map ch f X H Hn Hf) as [E N].
  rewrite (model_is_spec meth _ _ Hm N) by (rewrite Hf; reflexivity). rewrite Hf.
  destruct (qvals X) as [|q L] eqn:EQ.
  - rewrite (spec_case_nil _ _ _ E). reflexivity.
  - rewrite (spec_case_cons meth (map ch X) (f y) (f q) (map f L)) by (rewrite E; reflexivity). reflexivity.
Qed.
Lemma mapped_case_nanobs meth (ch : xv -> xv) X : ch XNaN = XNaN -> crps_case meth (map ch X) (ch XNaN) = XNaN.
Proof. intro Hn. rewrite Hn. unfold crps_case. rewrite obs_term_nanobs. apply total_nan_l. Qed.
Lemma plain_case meth X y : meth_ok meth -> noinf X ->
  crps_case meth X (XFin y) =x= match qvals X with [] => XNaN | L => spec_list meth L y end.
Proof.
  intros Hm H. rewrite (model_is_spec meth X (XFin y) Hm H eq_refl).
  destruct (qvals X) as [|q L] eqn:EQ.
  - rewrite (spec_case_nil _ _ _ EQ). reflexivity.
  - rewrite (spec_case_cons meth X y q L EQ). reflexivity.
Qed.

(* lower tail + interval + upper tail = unweighted CRPS, on the executable model: both methods, missing members,
   missing observation, ties everywhere; lo <= hi (the code insists on lo < hi) *)
Theorem tw_model_split3 meth X y lo hi : meth_ok meth -> noinf X -> xisinf y = false -> lo <= hi ->
  xadd (xadd (tw_tail_case meth "lower" X y (XFin lo)) (tw_interval_case meth X y (XFin lo) (XFin hi)))
       (tw_tail_case meth "upper" X y (XFin hi)) =x= crps_case meth X y.
Proof.
  intros Hm H Hy Hl. unfold tw_tail_case, tw_interval_case. destruct y as [|y|b]; try discriminate.
  { rewrite (mapped_case_nanobs meth (fun x => gen_chain_tail "lower" x (XFin lo)) X (chain_lower_nan _)).
    unfold crps_case at 3. rewrite obs_term_nanobs, total_nan_l. reflexivity. }
  set (f1 := fun x => fin_of (gen_chain_tail "lower" (XFin x) (XFin lo))).
  set (f2 := fun x => fin_of (gen_chain_interval (XFin x) (XFin lo) (XFin hi))).
  set (f3 := fun x => fin_of (gen_chain_tail "upper" (XFin x) (XFin hi))).
  rewrite (mapped_case meth (fun x => gen_chain_tail "lower" x (XFin lo)) f1 X y Hm H (chain_lower_nan _) (fun q => chain_lower_fin q lo)).
  rewrite (mapped_case meth (fun x => gen_chain_interval x (XFin lo) (XFin hi)) f2 X y Hm H (chain_interval_nan _ _) (fun q => chain_interval_fin q lo hi)).
  rewrite (mapped_case meth (fun x => gen_chain_tail "upper" x (XFin hi)) f3 X y Hm H (chain_upper_nan _) (fun q => chain_upper_fin q hi)).
  rewrite (plain_case meth X y Hm H).
  destruct (qvals X) as [|q L]; [reflexivity|].
  assert (D : (2 <= length (q :: L))%nat \/ meth = "ecdf" \/ (L = [] /\ meth = "fair")).
  { destruct L; [|left; simpl; lia]. destruct Hm as [-> | ->]; auto. }
  destruct D as [D | [D | [-> ->]]].
  - destruct (spec_list_kern meth (q :: L) y Hm (or_introl D)) as [c Hc].
    rewrite (Hc f1), (Hc f2), (Hc f3). pose proof (Hc (fun x => x)) as Hi. rewrite map_id in Hi. rewrite Hi.
    cbn [xadd xeq]. apply kern_split3_gen. intros; apply chain_split3; auto.
  - destruct (spec_list_kern meth (q :: L) y Hm (or_intror D)) as [c Hc].
    rewrite (Hc f1), (Hc f2), (Hc f3). pose proof (Hc (fun x => x)) as Hi. rewrite map_id in Hi. rewrite Hi.
    cbn [xadd xeq]. apply kern_split3_gen. intros; apply chain_split3; auto.
  - reflexivity.
Qed.

Theorem tw_model_split2 meth X y t : meth_ok meth -> noinf X -> xisinf y = false ->
  xadd (tw_tail_case meth "lower" X y (XFin t)) (tw_tail_case meth "upper" X y (XFin t)) =x= crps_case meth X y.
Proof.
  intros Hm H Hy. unfold tw_tail_case. destruct y as [|y|b]; try discriminate.
  { rewrite (mapped_case_nanobs meth (fun x => gen_chain_tail "lower" x (XFin t)) X (chain_lower_nan _)).
    unfold crps_case at 2. rewrite obs_term_nanobs, total_nan_l. reflexivity. }
  set (f1 := fun x => fin_of (gen_chain_tail "lower" (XFin x) (XFin t))).
  set (f3 := fun x => fin_of (gen_chain_tail "upper" (XFin x) (XFin t))).
  rewrite (mapped_case meth (fun x => gen_chain_tail "lower" x (XFin t)) f1 X y Hm H (chain_lower_nan _) (fun q => chain_lower_fin q t)).
  rewrite (mapped_case meth (fun x => gen_chain_tail "upper" x (XFin t)) f3 X y Hm H (chain_upper_nan _) (fun q => chain_upper_fin q t)).
  rewrite (plain_case meth X y Hm H).
  destruct (qvals X) as [|q L]; [reflexivity|].
  assert (D : ((2 <= length (q :: L))%nat \/ meth = "ecdf") \/ (L = [] /\ meth = "fair")).
  { destruct L; [|left; left; simpl; lia]. destruct Hm as [-> | ->]; auto. }
  destruct D as [D | [-> ->]].
  - destruct (spec_list_kern meth (q :: L) y Hm D) as [c Hc].
    rewrite (Hc f1), (Hc f3). pose proof (Hc (fun x => x)) as Hi. rewrite map_id in Hi. rewrite Hi.
    cbn [xadd xeq]. apply kern_split2_gen. intros; apply chain_split2.
  - reflexivity.
Qed.

(* ---------------------------------------------------------------------------------------------- *)
(* invariances, sign, NaN on the executable model                                                    *)
(* ---------------------------------------------------------------------------------------------- *)
Lemma qvals_perm X X' : Permutation X X' -> Permutation (qvals X) (qvals X').
Proof. induction 1 as [| x l l' _ IH | x y l | l l' l'' _ IH1 _ IH2].
  - constructor.
  - destruct x; cbn [qvals]; auto.
  - destruct x, y; cbn [qvals]; try apply Permutation_refl. apply perm_swap.
  - eapply perm_trans; eauto. Qed.
Lemma noinf_perm X X' : Permutation X X' -> noinf X -> noinf X'.
Proof. intros P H. unfold noinf in *. rewrite Forall_forall in *. intros x Hx. apply H. eapply Permutation_in; [apply Permutation_sym|]; eauto. Qed.

Lemma spec_list_perm meth L L' y : meth_ok meth -> Permutation L L' -> spec_list meth L y =x= spec_list meth L' y.
Proof.
  intros [-> | ->] P; unfold spec_list; cbn [String.eqb Ascii.eqb Bool.eqb].
  - cbn [xeq]. apply crps_ecdf_perm; auto.
  - pose proof (Permutation_length P) as E.
    destruct L as [|a [|b L]], L' as [|a' [|b' L']]; simpl in E; try discriminate; try reflexivity;
      cbn [xeq]; apply crps_fair_perm; auto.
Qed.

Theorem perm_model meth X X' y : meth_ok meth -> noinf X -> xisinf y = false -> Permutation X X' ->
  crps_case meth X y =x= crps_case meth X' y.
Proof.
  intros Hm H Hy P. pose proof (noinf_perm _ _ P H) as H'.
  destruct y as [|y|b]; try discriminate.
  { unfold crps_case. rewrite !obs_term_nanobs, !total_nan_l. reflexivity. }
  rewrite (plain_case meth X y Hm H), (plain_case meth X' y Hm H').
  pose proof (qvals_perm _ _ P) as PQ. pose proof (Permutation_length PQ) as E.
  destruct (qvals X) as [|q L], (qvals X') as [|q' L']; simpl in E; try discriminate; try reflexivity.
  apply spec_list_perm; auto.
Qed.

Lemma shift_nan c : xadd XNaN (XFin c) = XNaN. Proof. reflexivity. Qed.
Lemma scale_nan a : xmul (XFin a) XNaN = XNaN. Proof. reflexivity. Qed.

Theorem shift_model meth X y c : meth_ok meth -> noinf X -> xisinf y = false ->
  crps_case meth (map (fun x => xadd x (XFin c)) X) (xadd y (XFin c)) =x= crps_case meth X y.
Proof.
  intros Hm H Hy. destruct y as [|y|b]; try discriminate.
  { rewrite (mapped_case_nanobs meth (fun x => xadd x (XFin c)) X (shift_nan c)).
    unfold crps_case. rewrite obs_term_nanobs, total_nan_l. reflexivity. }
  rewrite (mapped_case meth (fun x => xadd x (XFin c)) (fun x => x + c) X y Hm H (shift_nan c) (fun q => eq_refl)).
  rewrite (plain_case meth X y Hm H).
  destruct (qvals X) as [|q L]; [reflexivity|].
  assert (D : ((2 <= length (q :: L))%nat \/ meth = "ecdf") \/ (L = [] /\ meth = "fair")).
  { destruct L; [|left; left; simpl; lia]. destruct Hm as [-> | ->]; auto. }
  destruct D as [D | [-> ->]]; [|reflexivity].
  destruct (spec_list_kern meth (q :: L) y Hm D) as [k Hk].
  rewrite (Hk (fun x => x + c)). pose proof (Hk (fun x => x)) as Hi. rewrite map_id in Hi. rewrite Hi.
  cbn [xeq]. apply kern_shift.
Qed.

Theorem scale_model meth X y a : meth_ok meth -> noinf X -> xisinf y = false ->
  crps_case meth (map (fun x => xmul (XFin a) x) X) (xmul (XFin a) y) =x= xmul (XFin (Qabs a)) (crps_case meth X y).
Proof.
  intros Hm H Hy. destruct y as [|y|b]; try discriminate.
  { rewrite (mapped_case_nanobs meth (fun x => xmul (XFin a) x) X (scale_nan a)).
    unfold crps_case. rewrite obs_term_nanobs, total_nan_l. reflexivity. }
  rewrite (mapped_case meth (fun x => xmul (XFin a) x) (fun x => a * x) X y Hm H (scale_nan a) (fun q => eq_refl)).
  rewrite (plain_case meth X y Hm H).
  destruct (qvals X) as [|q L]; [reflexivity|].
  assert (D : ((2 <= length (q :: L))%nat \/ meth = "ecdf") \/ (L = [] /\ meth = "fair")).
  { destruct L; [|left; left; simpl; lia]. destruct Hm as [-> | ->]; auto. }
  destruct D as [D | [-> ->]]; [|reflexivity].
  destruct (spec_list_kern meth (q :: L) y Hm D) as [k Hk].
  rewrite (Hk (fun x => a * x)). pose proof (Hk (fun x => x)) as Hi. rewrite map_id in Hi. rewrite Hi.
  cbn [xmul xeq]. apply kern_scale.
Qed.

(* the score is NaN exactly when the observation is missing or no member is valid (ecdf) *)
Theorem ecdf_nan_iff X y : noinf X -> xisinf y = false ->
  (crps_case "ecdf" X y = XNaN <-> y = XNaN \/ qvals X = []).
Proof.
  intros H Hy. pose proof (model_is_spec "ecdf" X y (or_introl eq_refl) H Hy) as M.
  destruct y as [|y|b]; try discriminate.
  - split; auto. intros _. unfold crps_case. rewrite obs_term_nanobs. apply total_nan_l.
  - destruct (qvals X) as [|q L] eqn:E.
    + rewrite (spec_case_nil _ _ _ E) in M. destruct (crps_case "ecdf" X (XFin y)); cbn in M; try contradiction. tauto.
    + rewrite (spec_case_cons _ X y q L E) in M. unfold spec_list in M. cbn [String.eqb Ascii.eqb Bool.eqb] in M.
      destruct (crps_case "ecdf" X (XFin y)); cbn in M; try contradiction.
      split; [discriminate | intros [?|?]; discriminate].
Qed.
(* fair is additionally NaN for a single valid member (0/0 of its documented normalisation) *)
Theorem fair_nan_iff X y : noinf X -> xisinf y = false ->
  (crps_case "fair" X y = XNaN <-> y = XNaN \/ (length (qvals X) <= 1)%nat).
Proof.
  intros H Hy. pose proof (model_is_spec "fair" X y (or_intror eq_refl) H Hy) as M.
  destruct y as [|y|b]; try discriminate.
  - split; auto. intros _. unfold crps_case. rewrite obs_term_nanobs. apply total_nan_l.
  - destruct (qvals X) as [|q L] eqn:E.
    + rewrite (spec_case_nil _ _ _ E) in M. destruct (crps_case "fair" X (XFin y)); cbn in M; try contradiction.
      split; [intros _; right; simpl; lia | reflexivity].
    + rewrite (spec_case_cons _ X y q L E) in M. unfold spec_list in M. cbn [String.eqb Ascii.eqb Bool.eqb] in M.
      destruct L as [|q' L'].
      * destruct (crps_case "fair" X (XFin y)); cbn in M; try contradiction. split; [intros _; right; simpl; lia | reflexivity].
      * destruct (crps_case "fair" X (XFin y)); cbn in M; try contradiction.
        split; [discriminate | intros [?|?]; [discriminate | simpl in *; lia]].
Qed.

Theorem ecdf_nonneg_model X y v : noinf X -> xisinf y = false -> crps_case "ecdf" X y =x= XFin v -> 0 <= v.
Proof.
  intros H Hy E. rewrite (model_is_spec "ecdf" X y (or_introl eq_refl) H Hy) in E.
  destruct y as [|y|b]; try discriminate; [cbn in E; contradiction|].
  destruct (qvals X) as [|q L] eqn:EQ.
  - rewrite (spec_case_nil _ _ _ EQ) in E. cbn in E. contradiction.
  - rewrite (spec_case_cons _ X y q L EQ) in E. unfold spec_list in E. cbn [String.eqb Ascii.eqb Bool.eqb xeq] in E.
    rewrite <- E. apply crps_ecdf_nonneg. discriminate.
Qed.
Theorem fair_nonneg_model X y v : noinf X -> xisinf y = false -> crps_case "fair" X y =x= XFin v -> 0 <= v.
Proof.
  intros H Hy E. rewrite (model_is_spec "fair" X y (or_intror eq_refl) H Hy) in E.
  destruct y as [|y|b]; try discriminate; [cbn in E; contradiction|].
  destruct (qvals X) as [|q L] eqn:EQ.
  - rewrite (spec_case_nil _ _ _ EQ) in E. cbn in E. contradiction.
  - rewrite (spec_case_cons _ X y q L EQ) in E. unfold spec_list in E. cbn [String.eqb Ascii.eqb Bool.eqb] in E.
    destruct L as [|q' L']; [cbn in E; contradiction|]. cbn [xeq] in E.
    rewrite <- E. apply crps_fair_nonneg. simpl. lia.
Qed.
Theorem ecdf_zero_iff_model X y : noinf X -> qvals X <> [] ->
  (crps_case "ecdf" X (XFin y) =x= XFin 0 <-> forall x, In x (qvals X) -> x == y).
Proof.
  intros H Hne. rewrite (model_is_spec "ecdf" X (XFin y) (or_introl eq_refl) H eq_refl).
  destruct (qvals X) as [|q L] eqn:EQ; [congruence|].
  rewrite (spec_case_cons _ X y q L EQ). unfold spec_list. cbn [String.eqb Ascii.eqb Bool.eqb xeq].
  apply crps_ecdf_zero_iff. discriminate.
Qed.

(* ---------------------------------------------------------------------------------------------- *)
(* the ensemble Brier cell of the model computes brier_q                                             *)
(* ---------------------------------------------------------------------------------------------- *)
Lemma brier_cell_arith (fair : bool) i m o : (m == 1 /\ i * (m - i) == 0) \/ 2 <= m ->
  (let r := gen_brier_score (XFin i) (XFin m) (XFin o) in
   if fair then xsub r (gen_brier_fair_fill (gen_brier_fair_corr (XFin i) (XFin m))) else r)
  =x= XFin ((i / m - o) * (i / m - o) - (if fair then i * (m - i) / (m * m * (m - 1)) else 0)).
Proof.
  unfold gen_brier_score, gen_brier_fair_fill, gen_brier_fair_corr.
  intros [[Hm Hi] | Hm]; destruct fair; unfold X0, X1; cell; try lra; try nra.
  - assert (D : m * m * (m - 1) == 0) by nra. rewrite D. unfold Qdiv. change (/ 0) with 0. ring.
  - field. split; lra.
Qed.

Theorem brier_cell_is_brier_q fair X y t : X <> [] ->
  brier_ens_cell fair (fins X) (XFin y) (XFin t) =x= XFin (brier_q fair X y t).
Proof.
  intro Hne. unfold brier_ens_cell, brier_q. cbv zeta.
  assert (Ei : map (fun x => b2x (xge x (XFin t))) (fins X) = fins (map (fun x => q_ind_ge x t) X)).
  { unfold fins. rewrite !map_map. apply map_ext. intro a. unfold q_ind_ge. cbn. destruct (Qle_bool t a); reflexivity. }
  assert (Em : map (fun x => b2x (gen_brier_member_valid x)) (fins X) = fins (map (fun _ => 1) X)).
  { unfold fins. rewrite !map_map. apply map_ext. intro a. reflexivity. }
  rewrite Ei, Em.
  pose proof (xsum_fins (map (fun x => q_ind_ge x t) X)) as I. pose proof (xsum_fins (map (fun _ : Q => 1) X)) as M.
  destruct (xsum (fins (map (fun x => q_ind_ge x t) X))) as [|i|]; cbn [xeq] in I; try contradiction.
  destruct (xsum (fins (map (fun _ : Q => 1) X))) as [|m|]; cbn [xeq] in M; try contradiction.
  rewrite qsum_const in M. fold (qlen X) in M.
  assert (O : xwhere (xnotnull (XFin y)) (b2x (xge (XFin y) (XFin t))) = XFin (q_ind_ge y t)).
  { unfold q_ind_ge. cbn. destruct (Qle_bool t y); reflexivity. }
  rewrite O.
  assert (C : (m == 1 /\ i * (m - i) == 0) \/ 2 <= m).
  { destruct X as [|a [|b L]]; [congruence| |].
    - left. rewrite M, I. unfold qlen. cbn [length map qsum]. unfold q_ind_ge. destruct (Qle_bool t a); split; try reflexivity; ring.
    - right. rewrite M. rewrite <- Qmult_1_r at 1. apply Qmult_le_compat_r; [|lra]. apply qlen_ge2. simpl. lia. }
  rewrite (brier_cell_arith fair i m (q_ind_ge y t) C). cbn [xeq].
  assert (Mm : m == qlen X) by (rewrite M; ring).
  destruct fair; rewrite I, Mm; reflexivity.
Qed.

(* an infinite member is a valid member beyond every threshold: the cell scores it exactly as it scores any finite member at or
   above (+inf), resp. below (-inf), the threshold -- it is counted in m, and in i iff it is +inf.  Any other members (missing,
   infinite), any observation. *)
Theorem brier_cell_inf_member fair A B y t M (s : bool) :
  (if s then t <= M else M < t) ->
  brier_ens_cell fair (A ++ XInf s :: B) y (XFin t) = brier_ens_cell fair (A ++ XFin M :: B) y (XFin t).
Proof.
  intro H. unfold brier_ens_cell. rewrite !map_app. cbn [map].
  assert (E1 : b2x (xge (XInf s) (XFin t)) = b2x (xge (XFin M) (XFin t))).
  { destruct s; cbn.
    - apply Qle_bool_iff in H. rewrite H. reflexivity.
    - destruct (Qle_bool t M) eqn:E; [apply Qle_bool_iff in E; lra | reflexivity]. }
  assert (E2 : b2x (gen_brier_member_valid (XInf s)) = b2x (gen_brier_member_valid (XFin M))) by reflexivity.
  rewrite E1, E2. reflexivity.
Qed.

(* the interval variant rejects exactly lower >= upper (scalar and array form of the check) *)
Lemma interval_guard_spec lo hi :
  (gen_guard_interval (XFin lo) (XFin hi) = true <-> hi <= lo) /\ (gen_guard_interval_arr (XFin lo) (XFin hi) = true <-> hi <= lo).
Proof. unfold gen_guard_interval, gen_guard_interval_arr. split; cell; split; intros; try discriminate; try lra; auto. Qed.
Lemma tail_guard_spec tail : gen_guard_tail tail = None <-> tail = "upper" \/ tail = "lower".
Proof. unfold gen_guard_tail.
  destruct (String.eqb_spec tail "upper") as [->|N1]; [cbn; tauto|].
  destruct (String.eqb_spec tail "lower") as [->|N2]; [cbn; tauto|].
  cbn. split; [discriminate | intros [?|?]; contradiction]. Qed.
Lemma method_guard_spec meth : gen_guard_crps_method meth = None <-> meth = "ecdf" \/ meth = "fair".
Proof. unfold gen_guard_crps_method.
  destruct (String.eqb_spec meth "ecdf") as [->|N1]; [cbn; tauto|].
  destruct (String.eqb_spec meth "fair") as [->|N2]; [cbn; tauto|].
  cbn. split; [discriminate | intros [?|?]; contradiction]. Qed.

(* ---------------------------------------------------------------------------------------------- *)
(* from cases to labelled arrays: thresholds given as scalars or as arrays (per-case thresholds)     *)
(* ---------------------------------------------------------------------------------------------- *)
(* an array that does not vary along the member dimension (every array without that dimension) *)
Definition indep (t : larr) (m : dim) : Prop := forall e i, lget t (upd e m i) = lget t e.

Lemma flat_index_upd dims e m i : mem m (map fst dims) = false -> flat_index dims (upd e m i) = flat_index dims e.
Proof.
  induction dims as [|[d n] dims IH]; intro H; [reflexivity|].
  cbn [map fst mem existsb] in H. apply orb_false_iff in H. destruct H as [H1 H2].
  assert (E : String.eqb d m = false) by (rewrite String.eqb_sym; exact H1).
  cbn [flat_index]. rewrite (IH H2). unfold upd. rewrite E. reflexivity.
Qed.
Lemma of_flat_indep dims data m : mem m (map fst dims) = false -> indep (of_flat dims data) m.
Proof. intros H e i. cbn [of_flat lget]. rewrite (flat_index_upd dims e m i H). reflexivity. Qed.

Lemma members_lzip g f t m e : mem m (ldims f) = true -> indep t m ->
  members (lzip g f t) m e = map (fun x => g x (lget t e)) (members f m e).
Proof.
  intros Hm Ht. unfold members. cbn [lzip lsize lget]. rewrite Hm, map_map.
  apply map_ext. intro i. rewrite (Ht e i). reflexivity.
Qed.
Lemma members_lzip3 g f a b m e : mem m (ldims f) = true -> indep a m -> indep b m ->
  members (lzip3 g f a b) m e = map (fun x => g x (lget a e) (lget b e)) (members f m e).
Proof.
  intros Hm Ha Hb. unfold members. cbn [lzip3 lsize lget]. rewrite Hm, map_map.
  apply map_ext. intro i. rewrite (Ha e i), (Hb e i). reflexivity.
Qed.

(* the per-case arrays the public tail / interval functions average are, cell by cell, the tw cases at that cell's thresholds *)
Theorem array_tail_is_case meth tail f o t m e : mem m (ldims f) = true -> indep t m ->
  lget (case_arr (lzip (gen_chain_tail tail) f t) (lzip (gen_chain_tail tail) o t) m (crps_case meth)) e
  = tw_tail_case meth tail (members f m e) (lget o e) (lget t e).
Proof. intros Hm Ht. cbn [case_arr lget]. rewrite (members_lzip _ f t m e Hm Ht). reflexivity. Qed.
Theorem array_interval_is_case meth f o lo hi m e : mem m (ldims f) = true -> indep lo m -> indep hi m ->
  lget (case_arr (lzip3 gen_chain_interval f lo hi) (lzip3 gen_chain_interval o lo hi) m (crps_case meth)) e
  = tw_interval_case meth (members f m e) (lget o e) (lget lo e) (lget hi e).
Proof. intros Hm Hl Hh. cbn [case_arr lget]. rewrite (members_lzip3 _ f lo hi m e Hm Hl Hh). reflexivity. Qed.

(* hence, at every cell with finite thresholds a <= b: lower tail + interval + upper tail = unweighted, for threshold arrays
   of any shape (scalars are 0-d arrays) *)
Theorem array_parts_add_up meth f o lo hi m e a b :
  meth_ok meth -> mem m (ldims f) = true -> indep lo m -> indep hi m ->
  lget lo e = XFin a -> lget hi e = XFin b -> a <= b ->
  noinf (members f m e) -> xisinf (lget o e) = false ->
  xadd (xadd (lget (case_arr (lzip (gen_chain_tail "lower") f lo) (lzip (gen_chain_tail "lower") o lo) m (crps_case meth)) e)
             (lget (case_arr (lzip3 gen_chain_interval f lo hi) (lzip3 gen_chain_interval o lo hi) m (crps_case meth)) e))
       (lget (case_arr (lzip (gen_chain_tail "upper") f hi) (lzip (gen_chain_tail "upper") o hi) m (crps_case meth)) e)
  =x= lget (case_arr f o m (crps_case meth)) e.
Proof.
  intros Hmeth Hm Hl Hh Ea Eb Hab Hn Ho.
  rewrite (array_tail_is_case meth "lower" f o lo m e Hm Hl), (array_tail_is_case meth "upper" f o hi m e Hm Hh),
          (array_interval_is_case meth f o lo hi m e Hm Hl Hh), Ea, Eb.
  cbn [case_arr lget]. apply tw_model_split3; auto.
Qed.
