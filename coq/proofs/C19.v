(* proofs/C19.v -- lemmas behind the C19 theorems (Diebold-Mariano statistics), rational level. *)
From V Require Import lib.Tree model.C19.
Open Scope Q_scope.

(* ------------------------------------------------------------------------------------------ *)
(* sums                                                                                        *)
(* ------------------------------------------------------------------------------------------ *)
Lemma qsum_map_ext {A} (f g : A -> Q) l : (forall x, f x == g x) -> qsum (map f l) == qsum (map g l).
Proof. intro E. induction l as [|x t IH]; simpl. reflexivity. rewrite E, IH. reflexivity. Qed.
Lemma qsum_scale {A} c (g : A -> Q) l : qsum (map (fun x => c * g x) l) == c * qsum (map g l).
Proof. induction l as [|x t IH]; simpl. ring. rewrite IH. ring. Qed.
Lemma qsum_app l1 l2 : qsum (l1 ++ l2) == qsum l1 + qsum l2.
Proof. induction l1 as [|x t IH]; simpl. ring. rewrite IH. ring. Qed.

Lemma combine_map2 {A B} (f : A -> B) a : forall b,
  combine (map f a) (map f b) = map (fun p => (f (fst p), f (snd p))) (combine a b).
Proof. induction a as [|x t IH]; destruct b; simpl; auto. f_equal. apply IH. Qed.

Lemma lag_pairs_map f d k : lag_pairs (map f d) k = map (fun p => (f (fst p), f (snd p))) (lag_pairs d k).
Proof. unfold lag_pairs. rewrite map_length, skipn_map, firstn_map. apply combine_map2. Qed.

Lemma qn_pos n : (0 < n)%nat -> 0 < qn n.
Proof. intro. unfold qn. change 0 with (inject_Z 0). rewrite <- Zlt_Qlt. lia. Qed.
Lemma qn_lt a b : (a < b)%nat -> qn a < qn b.
Proof. intro. unfold qn. rewrite <- Zlt_Qlt. lia. Qed.
Lemma qn_S a : qn (S a) == qn a + 1.
Proof. unfold qn. rewrite Nat2Z.inj_succ. unfold Z.succ. rewrite inject_Z_plus. reflexivity. Qed.

(* ------------------------------------------------------------------------------------------ *)
(* behaviour under x |-> c * x                                                                 *)
(* ------------------------------------------------------------------------------------------ *)
Section Affine.
  Variable f : Q -> Q.
  Variable c : Q.
  Hypothesis f_lin : forall x, f x == c * x.

  Lemma qsum_lin d : qsum (map f d) == c * qsum d.
  Proof.
    rewrite (qsum_map_ext f (fun x => c * x)) by exact f_lin.
    rewrite (qsum_scale c (fun x => x)). rewrite map_id. reflexivity.
  Qed.
  Lemma qlen_map d : qlen (map f d) = qlen d.
  Proof. unfold qlen. rewrite map_length. reflexivity. Qed.
  Lemma qmean_lin d : qmean (map f d) == c * qmean d.
  Proof. unfold qmean. rewrite qlen_map, qsum_lin. unfold Qdiv. ring. Qed.

  Lemma gamma_lin d m m' k : m' == c * m -> gamma (map f d) m' k == c * c * gamma d m k.
  Proof.
    intro Em. unfold gamma. rewrite lag_pairs_map, map_map. cbn [fst snd].
    rewrite <- (qsum_scale (c * c) (fun p => (fst p - m) * (snd p - m))).
    apply qsum_map_ext. intros [a b]. cbn [fst snd]. rewrite !f_lin, Em. ring.
  Qed.

  Lemma v_hat_q_lin d m m' h : m' == c * m -> v_hat_q (map f d) m' h == c * c * v_hat_q d m h.
  Proof.
    intro Em. unfold v_hat_q. rewrite qlen_map, (gamma_lin d m m' 0 Em).
    rewrite (qsum_map_ext (fun k => gamma (map f d) m' (S k)) (fun k => (c * c) * gamma d m (S k)))
      by (intro k; apply gamma_lin; exact Em).
    rewrite (qsum_scale (c * c) (fun k => gamma d m (S k))). unfold Qdiv. ring.
  Qed.

  Hypothesis c_nz : ~ c == 0.

  Lemma csq_pos : 0 < c * c.
  Proof. destruct (Q_dec c 0) as [[L|G]|E]; [nra|nra|contradiction]. Qed.

  Lemma all_zero_lin d : all_zero (map f d) = all_zero d.
  Proof.
    unfold all_zero. induction d as [|x t IH]; simpl. reflexivity. rewrite IH. f_equal.
    pose proof (Qeq_bool_spec (f x) 0) as A. pose proof (Qeq_bool_spec x 0) as B.
    destruct (Qeq_bool (f x) 0), (Qeq_bool x 0); auto; exfalso.
    - rewrite f_lin in A. apply Qmult_integral in A. tauto.
    - apply A. rewrite f_lin, B. ring.
  Qed.

  Definition xscale (k : Q) (v : xv) : xv := match v with XFin s => XFin (k * s) | o => o end.

  Lemma hln_sq_lin d h : hln_sq (map f d) h =x= xscale (c * Qabs c / (c * c)) (hln_sq d h).
  Proof.
    pose proof csq_pos as CP.
    unfold hln_sq, v_hat.
    pose proof (qmean_lin d) as Em.
    pose proof (v_hat_q_lin d (qmean d) (qmean (map f d)) h Em) as Ev.
    set (v' := v_hat_q (map f d) (qmean (map f d)) h) in *.
    set (v := v_hat_q d (qmean d) h) in *.
    pose proof (Qle_bool_spec v' 0) as A. pose proof (Qle_bool_spec v 0) as B.
    destruct (Qle_bool v' 0), (Qle_bool v 0); cbn [xscale xeq]; auto.
    - exfalso. rewrite Ev in A. nra.
    - exfalso. rewrite Ev in A. nra.
    - rewrite qlen_map.
      assert (Ea : Qabs (qmean (map f d)) == Qabs c * Qabs (qmean d)).
      { rewrite Em. apply Qabs_Qmult. }
      rewrite Ea, Em, Ev. field. split; [lra | lra].
  Qed.

  Lemma dm_stat_hln_lin d h : dm_stat_hln (map f d) h =x= xscale (c * Qabs c / (c * c)) (dm_stat_hln d h).
  Proof. unfold dm_stat_hln. rewrite all_zero_lin. destruct (all_zero d). reflexivity. apply hln_sq_lin. Qed.
End Affine.

Lemma dm_stat_hln_not_inf d h : xisinf (dm_stat_hln d h) = false.
Proof. unfold dm_stat_hln, hln_sq, v_hat. destruct (all_zero d); auto. destruct (Qle_bool _ 0); auto. Qed.

(* negating the series negates the statistic *)
Theorem hln_negation d h : dm_stat_hln (map Qopp d) h =x= xneg (dm_stat_hln d h).
Proof.
  assert (L : forall x, - x == (-1) * x) by (intro; ring).
  assert (NZ : ~ -1 == 0) by (intro E; discriminate E).
  pose proof (dm_stat_hln_lin Qopp (-1) L NZ d h) as E. rewrite E.
  pose proof (dm_stat_hln_not_inf d h) as NI.
  destruct (dm_stat_hln d h); cbn [xscale xneg xeq]; [exact I | change (Qabs (-1)) with 1; field | discriminate].
Qed.

(* positive rescaling leaves the statistic unchanged *)
Theorem hln_scale_invariant c d h : 0 < c -> dm_stat_hln (map (Qmult c) d) h =x= dm_stat_hln d h.
Proof.
  intro P.
  assert (L : forall x, c * x == c * x) by (intro; reflexivity).
  assert (NZ : ~ c == 0) by lra.
  pose proof (dm_stat_hln_lin (Qmult c) c L NZ d h) as E. rewrite E.
  destruct (dm_stat_hln d h); cbn [xscale xeq]; auto. rewrite Qabs_pos by lra. field. lra.
Qed.

(* ------------------------------------------------------------------------------------------ *)
(* the HLN statistic                                                                           *)
(* ------------------------------------------------------------------------------------------ *)
Lemma hln_factor_form x y : ~ x == 0 -> hln_factor x y == ((x - y) * (x - y) + (x - y)) / (x * x).
Proof. intro. unfold hln_factor. field. auto. Qed.
Lemma hln_factor_pos n h : (0 < h < n)%nat -> 0 < hln_factor (qn n) (qn h).
Proof.
  intros [H0 H1]. pose proof (qn_lt h n H1). pose proof (qn_pos n ltac:(lia)).
  rewrite hln_factor_form by lra. apply Qlt_shift_div_l; nra.
Qed.

Theorem hln_spec d h v : (0 < h < length d)%nat -> v_hat d (qmean d) h = XFin v ->
  0 < v /\ exists s, hln_sq d h = XFin s
    /\ s * v == qmean d * Qabs (qmean d) * hln_factor (qlen d) (qn h)
    /\ Qabs s * v == qmean d * qmean d * hln_factor (qlen d) (qn h)
    /\ (0 < qmean d -> 0 < s) /\ (qmean d < 0 -> s < 0) /\ (qmean d == 0 -> s == 0).
Proof.
  intros Hh Hv. unfold hln_sq. rewrite Hv. unfold v_hat in Hv.
  pose proof (Qle_bool_spec (v_hat_q d (qmean d) h) 0) as A.
  destruct (Qle_bool (v_hat_q d (qmean d) h) 0); [discriminate|]. injection Hv as Hv. rewrite Hv in A.
  pose proof (hln_factor_pos (length d) h Hh) as FP. fold (qlen d) in FP.
  set (m := qmean d) in *. set (F := hln_factor (qlen d) (qn h)) in *.
  split; [exact A|]. exists (m * Qabs m * F / v).
  assert (E1 : m * Qabs m * F / v * v == m * Qabs m * F) by (field; lra).
  assert (IV : 0 < / v) by (apply Qinv_lt_0_compat; exact A).
  split; [reflexivity|]. split; [exact E1|].
  destruct (Qlt_le_dec m 0) as [Neg|Pos].
  - assert (Ea : Qabs m == - m) by (apply Qabs_neg; lra).
    assert (S1 : m * Qabs m * F / v == - (m * m * F * / v)) by (rewrite Ea; field; lra).
    assert (0 < m * m * F * / v) by (assert (0 < m * m) by nra; assert (0 < m * m * F) by nra; nra).
    split. { rewrite S1. rewrite Qabs_neg by lra. field. lra. }
    split; [intro; lra|]. split; [intro; lra|]. intro; lra.
  - assert (Ea : Qabs m == m) by (apply Qabs_pos; lra).
    assert (S1 : m * Qabs m * F / v == m * m * F * / v) by (rewrite Ea; field; lra).
    assert (0 <= m * m * F * / v) by (assert (0 <= m * m) by nra; assert (0 <= m * m * F) by nra; nra).
    split. { rewrite S1. rewrite Qabs_pos by lra. field. lra. }
    split. { intro. rewrite S1. assert (0 < m * m) by nra. assert (0 < m * m * F) by nra. nra. }
    split; [intro; lra|]. intro E0. rewrite S1, E0. ring.
Qed.

(* a non-positive variance estimate, or the all-zero series, gives NaN *)
Lemma hln_nan_iff d h : hln_sq d h = XNaN <-> v_hat_q d (qmean d) h <= 0.
Proof.
  unfold hln_sq, v_hat. pose proof (Qle_bool_spec (v_hat_q d (qmean d) h) 0) as A.
  destruct (Qle_bool (v_hat_q d (qmean d) h) 0); split; intro; auto; try discriminate. lra.
Qed.
