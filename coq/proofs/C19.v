(* proofs/C19.v -- lemmas behind the C19 theorems (Diebold-Mariano statistics), rational level. *)
From V Require Import lib.Tree model.C19.
Open Scope Q_scope.

(* ------------------------------------------------------------------------------------------ *)
(* sums                                                                                        *)
(* ------------------------------------------------------------------------------------------ *)
Lemma qsum_map_ext {A} (f g : A -> Q) l : (forall x, f x == g x) -> qsum (map f l) == qsum (map g l).
Proof. intro E. induction l as [|x t IH]; simpl. reflexivity. rewrite E, IH. reflexivity. Qed.
Lemma qsum_scale {A} c (g : A -> Q) l : qsum (map (fun x => c * g x) l) == c * qsum (map g l).
Proof. induction l as [|x t IH]; simpl. ring. rewrite IH. ring. Qed.
Lemma qsum_app l1 l2 : qsum (l1 ++ l2)%list == qsum l1 + qsum l2.
Proof. induction l1 as [|x t IH]; simpl. ring. rewrite IH. ring. Qed.

Lemma combine_map2 {A B} (f : A -> B) a : forall b,
  combine (map f a) (map f b) = map (fun p => (f (fst p), f (snd p))) (combine a b).
Proof. induction a as [|x t IH]; destruct b; simpl; auto. f_equal. apply IH. Qed.

Lemma lag_pairs_map f d k : lag_pairs (map f d) k = map (fun p => (f (fst p), f (snd p))) (lag_pairs d k).
Proof. unfold lag_pairs. rewrite map_length, skipn_map, firstn_map. apply combine_map2. Qed.

Lemma qn_pos n : (0 < n)%nat -> 0 < qn n.
Proof. intro. unfold qn. change 0 with (inject_Z 0). rewrite <- Zlt_Qlt. lia. Qed.
Lemma qn_lt a b : (a < b)%nat -> qn a < qn b.
Proof. intro. unfold qn. rewrite <- Zlt_Qlt. lia. Qed.
Lemma qn_S a : qn (S a) == qn a + 1.
Proof. unfold qn. rewrite Nat2Z.inj_succ. unfold Z.succ. rewrite inject_Z_plus. reflexivity. Qed.

(* ------------------------------------------------------------------------------------------ *)
(* behaviour under x |-> c * x                                                                 *)
(* ------------------------------------------------------------------------------------------ *)
Section Affine.
  Variable f : Q -> Q.
  Variable c : Q.
  Hypothesis f_lin : forall x, f x == c * x.

  Lemma qsum_lin d : qsum (map f d) == c * qsum d.
  Proof.
    rewrite (qsum_map_ext f (fun x => c * x)) by exact f_lin.
    rewrite (qsum_scale c (fun x => x)). rewrite map_id. reflexivity.
  Qed.
  Lemma qlen_map d : qlen (map f d) = qlen d.
  Proof. unfold qlen. rewrite map_length. reflexivity. Qed.
  Lemma qmean_lin d : qmean (map f d) == c * qmean d.
  Proof. unfold qmean. rewrite qlen_map, qsum_lin. unfold Qdiv. ring. Qed.

  Lemma gamma_lin d m m' k : m' == c * m -> gamma (map f d) m' k == c * c * gamma d m k.
  Proof.
    intro Em. unfold gamma. rewrite lag_pairs_map, map_map. cbn [fst snd].
    rewrite <- (qsum_scale (c * c) (fun p => (fst p - m) * (snd p - m))).
    apply qsum_map_ext. intros [a b]. cbn [fst snd]. rewrite !f_lin, Em. ring.
  Qed.

  Lemma v_hat_q_lin d m m' h : m' == c * m -> v_hat_q (map f d) m' h == c * c * v_hat_q d m h.
  Proof.
    intro Em. unfold v_hat_q. rewrite qlen_map, (gamma_lin d m m' 0 Em).
    rewrite (qsum_map_ext (fun k => gamma (map f d) m' (S k)) (fun k => (c * c) * gamma d m (S k)))
      by (intro k; apply gamma_lin; exact Em).
    rewrite (qsum_scale (c * c) (fun k => gamma d m (S k))). unfold Qdiv. ring.
  Qed.

  Hypothesis c_nz : ~ c == 0.

  Lemma csq_pos : 0 < c * c.
  Proof. destruct (Q_dec c 0) as [[L|G]|E]; [nra|nra|contradiction]. Qed.

  Lemma all_zero_lin d : all_zero (map f d) = all_zero d.
  Proof.
    unfold all_zero. induction d as [|x t IH]; simpl. reflexivity. rewrite IH. f_equal.
    pose proof (Qeq_bool_spec (f x) 0) as A. pose proof (Qeq_bool_spec x 0) as B.
    destruct (Qeq_bool (f x) 0), (Qeq_bool x 0); auto; exfalso.
    - rewrite f_lin in A. apply Qmult_integral in A. tauto.
    - apply A. rewrite f_lin, B. ring.
  Qed.

  Definition xscale (k : Q) (v : xv) : xv := match v with XFin s => XFin (k * s) | o => o end.

  Lemma hln_sq_lin d h : hln_sq (map f d) h =x= xscale (c * Qabs c / (c * c)) (hln_sq d h).
  Proof.
    pose proof csq_pos as CP.
    unfold hln_sq, v_hat.
    pose proof (qmean_lin d) as Em.
    pose proof (v_hat_q_lin d (qmean d) (qmean (map f d)) h Em) as Ev.
    set (v' := v_hat_q (map f d) (qmean (map f d)) h) in *.
    set (v := v_hat_q d (qmean d) h) in *.
    pose proof (Qle_bool_spec v' 0) as A. pose proof (Qle_bool_spec v 0) as B.
    destruct (Qle_bool v' 0), (Qle_bool v 0); cbn [xscale xeq]; auto.
    - exfalso. rewrite Ev in A. nra.
    - exfalso. rewrite Ev in A. nra.
    - rewrite qlen_map.
      assert (Ea : Qabs (qmean (map f d)) == Qabs c * Qabs (qmean d)).
      { rewrite Em. apply Qabs_Qmult. }
      rewrite Ea, Em, Ev. field. split; [lra | lra].
  Qed.

  Lemma dm_stat_hln_lin d h : dm_stat_hln (map f d) h =x= xscale (c * Qabs c / (c * c)) (dm_stat_hln d h).
  Proof. unfold dm_stat_hln. rewrite all_zero_lin. destruct (all_zero d). reflexivity. apply hln_sq_lin. Qed.
End Affine.

Lemma dm_stat_hln_not_inf d h : xisinf (dm_stat_hln d h) = false.
Proof. unfold dm_stat_hln, hln_sq, v_hat. destruct (all_zero d); auto. destruct (Qle_bool _ 0); auto. Qed.

(* negating the series negates the statistic *)
Theorem hln_negation d h : dm_stat_hln (map Qopp d) h =x= xneg (dm_stat_hln d h).
Proof.
  assert (L : forall x, - x == (-1) * x) by (intro; ring).
  assert (NZ : ~ -1 == 0) by (intro E; discriminate E).
  pose proof (dm_stat_hln_lin Qopp (-1) L NZ d h) as E. rewrite E.
  pose proof (dm_stat_hln_not_inf d h) as NI.
  destruct (dm_stat_hln d h); cbn [xscale xneg xeq]; [exact I | change (Qabs (-1)) with 1; field | discriminate].
Qed.

(* positive rescaling leaves the statistic unchanged *)
Theorem hln_scale_invariant c d h : 0 < c -> dm_stat_hln (map (Qmult c) d) h =x= dm_stat_hln d h.
Proof.
  intro P.
  assert (L : forall x, c * x == c * x) by (intro; reflexivity).
  assert (NZ : ~ c == 0) by lra.
  pose proof (dm_stat_hln_lin (Qmult c) c L NZ d h) as E. rewrite E.
  destruct (dm_stat_hln d h); cbn [xscale xeq]; auto. rewrite Qabs_pos by lra. field. lra.
Qed.

(* ------------------------------------------------------------------------------------------ *)
(* the HLN statistic                                                                           *)
(* ------------------------------------------------------------------------------------------ *)
Lemma hln_factor_form x y : ~ x == 0 -> hln_factor x y == ((x - y) * (x - y) + (x - y)) / (x * x).
Proof. intro. unfold hln_factor. field. auto. Qed.
Lemma hln_factor_pos n h : (0 < h < n)%nat -> 0 < hln_factor (qn n) (qn h).
Proof.
  intros [H0 H1]. pose proof (qn_lt h n H1). pose proof (qn_pos n ltac:(lia)).
  rewrite hln_factor_form by lra. apply Qlt_shift_div_l; nra.
Qed.

Theorem hln_spec d h v : (0 < h < length d)%nat -> v_hat d (qmean d) h = XFin v ->
  0 < v /\ exists s, hln_sq d h = XFin s
    /\ s * v == qmean d * Qabs (qmean d) * hln_factor (qlen d) (qn h)
    /\ Qabs s * v == qmean d * qmean d * hln_factor (qlen d) (qn h)
    /\ (0 < qmean d -> 0 < s) /\ (qmean d < 0 -> s < 0) /\ (qmean d == 0 -> s == 0).
Proof.
  intros Hh Hv. unfold hln_sq. rewrite Hv. unfold v_hat in Hv.
  pose proof (Qle_bool_spec (v_hat_q d (qmean d) h) 0) as A.
  destruct (Qle_bool (v_hat_q d (qmean d) h) 0); [discriminate|]. injection Hv as Hv. rewrite Hv in A.
  pose proof (hln_factor_pos (length d) h Hh) as FP. fold (qlen d) in FP.
  set (m := qmean d) in *. set (F := hln_factor (qlen d) (qn h)) in *.
  split; [exact A|]. exists (m * Qabs m * F / v).
  assert (E1 : m * Qabs m * F / v * v == m * Qabs m * F) by (field; lra).
  assert (IV : 0 < / v) by (apply Qinv_lt_0_compat; exact A).
  split; [reflexivity|]. split; [exact E1|].
  destruct (Qlt_le_dec m 0) as [Neg|Pos].
  - assert (Ea : Qabs m == - m) by (apply Qabs_neg; lra).
    assert (S1 : m * Qabs m * F / v == - (m * m * F * / v)) by (rewrite Ea; field; lra).
    assert (0 < m * m * F * / v) by (assert (0 < m * m) by nra; assert (0 < m * m * F) by nra; nra).
    split. { rewrite S1. rewrite Qabs_neg by lra. field. lra. }
    split; [intro; lra|]. split; [intro; lra|]. intro; lra.
  - assert (Ea : Qabs m == m) by (apply Qabs_pos; lra).
    assert (S1 : m * Qabs m * F / v == m * m * F * / v) by (rewrite Ea; field; lra).
    assert (0 <= m * m * F * / v) by (assert (0 <= m * m) by nra; assert (0 <= m * m * F) by nra; nra).
    split. { rewrite S1. rewrite Qabs_pos by lra. field. lra. }
    split. { intro. rewrite S1. assert (0 < m * m) by nra. assert (0 < m * m * F) by nra. nra. }
    split; [intro; lra|]. intro E0. rewrite S1, E0. ring.
Qed.

(* a non-positive variance estimate, or the all-zero series, gives NaN *)
Lemma hln_nan_iff d h : hln_sq d h = XNaN <-> v_hat_q d (qmean d) h <= 0.
Proof.
  unfold hln_sq, v_hat. pose proof (Qle_bool_spec (v_hat_q d (qmean d) h) 0) as A.
  destruct (Qle_bool (v_hat_q d (qmean d) h) 0); split; intro; auto; try discriminate. lra.
Qed.

(* ------------------------------------------------------------------------------------------ *)
(* V_hat uses exactly the direct biased autocovariances of lags 0 .. h-1                       *)
(* ------------------------------------------------------------------------------------------ *)
(* the textbook index form: sum_{t=k}^{n-1} (d_t - m) (d_{t-k} - m) *)
Definition gamma_idx (d : list Q) (m : Q) (k : nat) : Q :=
  qsum (map (fun t => (nth t d 0 - m) * (nth (t - k) d 0 - m)) (seq k (length d - k))).
(* the direct biased autocovariance estimator at lag k *)
Definition acov_idx (d : list Q) (k : nat) : Q := gamma_idx d (qmean d) k / qlen d.

Lemma combine_nth_seq (a : list Q) : forall b,
  combine a b = map (fun i => (nth i a 0, nth i b 0)) (seq 0 (Nat.min (length a) (length b))).
Proof.
  induction a as [|x t IH]; intro b. reflexivity.
  destruct b as [|y u]. reflexivity.
  cbn [combine length Nat.min seq map nth]. f_equal. rewrite IH, <- seq_shift, map_map. reflexivity.
Qed.
Lemma nth_skipn' (d : list Q) : forall k i, nth i (skipn k d) 0 = nth (k + i) d 0.
Proof. induction d as [|x t IH]; intros k i. destruct k, i; reflexivity. destruct k. reflexivity. simpl. apply IH. Qed.
Lemma nth_firstn' (d : list Q) : forall n i, (i < n)%nat -> nth i (firstn n d) 0 = nth i d 0.
Proof. induction d as [|x t IH]; intros n i Hi. destruct n, i; reflexivity. destruct n. lia. destruct i. reflexivity. simpl. apply IH. lia. Qed.
Lemma seq_from k len : seq k len = map (Nat.add k) (seq 0 len).
Proof. induction k. simpl. rewrite map_id. reflexivity. rewrite <- seq_shift, IHk, map_map. reflexivity. Qed.

Lemma gamma_index d m k : gamma d m k = gamma_idx d m k.
Proof.
  unfold gamma, gamma_idx, lag_pairs. rewrite combine_nth_seq, skipn_length, firstn_length.
  replace (Nat.min (length d - k) (Nat.min (length d - k) (length d))) with (length d - k)%nat by lia.
  rewrite map_map. cbn [fst snd]. rewrite (seq_from k), map_map. f_equal. apply map_ext_in. intros i Hi.
  apply in_seq in Hi. rewrite nth_skipn', nth_firstn' by lia. replace (k + i - k)%nat with i by lia. reflexivity.
Qed.

Theorem vhat_uses_lags_below_h d m h :
  v_hat_q d m h == (gamma_idx d m 0 + 2 * qsum (map (fun k => gamma_idx d m (S k)) (seq 0 (h - 1)))) / (qlen d * qlen d).
Proof. unfold v_hat_q. rewrite gamma_index. rewrite (map_ext _ _ (fun k => gamma_index d m (S k))). reflexivity. Qed.

(* in terms of the autocovariance estimator:  V_hat = (acov_0 + 2 sum_{k=1}^{h-1} acov_k) / n *)
Theorem vhat_from_autocovariances d h : (0 < length d)%nat ->
  v_hat_q d (qmean d) h == (acov_idx d 0 + 2 * qsum (map (fun k => acov_idx d (S k)) (seq 0 (h - 1)))) / qlen d.
Proof.
  intro Hn. pose proof (qn_pos (length d) Hn) as P. fold (qlen d) in P.
  rewrite vhat_uses_lags_below_h. unfold acov_idx.
  rewrite (qsum_map_ext (fun k => gamma_idx d (qmean d) (S k) / qlen d) (fun k => (/ qlen d) * gamma_idx d (qmean d) (S k)))
    by (intro; unfold Qdiv; ring).
  rewrite (qsum_scale (/ qlen d) (fun k => gamma_idx d (qmean d) (S k))). field. lra.
Qed.

(* lag h enters only from h+1 on *)
Theorem vhat_step d m h : (1 <= h)%nat ->
  v_hat_q d m (S h) == v_hat_q d m h + 2 * gamma d m h / (qlen d * qlen d).
Proof.
  intro Hh. unfold v_hat_q. replace (S h - 1)%nat with (S (h - 1)) by lia.
  rewrite seq_S, map_app, qsum_app. cbn [map qsum]. replace (S (0 + (h - 1))) with h by lia. unfold Qdiv. ring.
Qed.

(* two series with the same length and the same sums at lags below h have the same V_hat *)
Theorem vhat_depends_only_on_lags_below_h d d' m m' h : length d = length d' ->
  (forall k, (k < Nat.max h 1)%nat -> gamma_idx d m k == gamma_idx d' m' k) -> v_hat_q d m h == v_hat_q d' m' h.
Proof.
  intros L E. rewrite !vhat_uses_lags_below_h. unfold qlen. rewrite L. rewrite (E O) by lia.
  assert (S : qsum (map (fun k => gamma_idx d m (S k)) (seq 0 (h - 1))) == qsum (map (fun k => gamma_idx d' m' (S k)) (seq 0 (h - 1)))).
  { assert (G : forall l, (forall k, In k l -> (k < h - 1)%nat) ->
                qsum (map (fun k => gamma_idx d m (S k)) l) == qsum (map (fun k => gamma_idx d' m' (S k)) l)).
    { induction l as [|x t IH]; intro B. reflexivity. cbn [map qsum]. rewrite IH by (intros; apply B; right; auto).
      rewrite (E (S x)). reflexivity. assert (x < h - 1)%nat by (apply B; left; auto). lia. }
    apply G. intros k Hk. apply in_seq in Hk. lia. }
  rewrite S. reflexivity.
Qed.

(* ------------------------------------------------------------------------------------------ *)
(* NaN removal, length, independence of the series of one call                                 *)
(* ------------------------------------------------------------------------------------------ *)
Lemma qvalids_app l1 l2 : qvalids (l1 ++ l2)%list = (qvalids l1 ++ qvalids l2)%list.
Proof. unfold qvalids. apply flat_map_app. Qed.
Lemma qvalids_nan l1 l2 : qvalids (l1 ++ XNaN :: l2)%list = qvalids (l1 ++ l2)%list.
Proof. rewrite !qvalids_app. reflexivity. Qed.
(* a NaN anywhere in a series is removed before anything is computed *)
Theorem dm_row_nan_removed l1 l2 hv : dm_row_of (l1 ++ XNaN :: l2)%list hv = dm_row_of (l1 ++ l2)%list hv.
Proof. unfold dm_row_of. rewrite qvalids_nan, nanmean_skip. reflexivity. Qed.
(* timeseries_len counts the finite values *)
Theorem dm_row_len series hv : r_len (dm_row_of series hv) = length (qvalids series).
Proof. reflexivity. Qed.
Lemma qvalids_fins l : qvalids (fins l) = l.
Proof. induction l; simpl; auto. f_equal; auto. Qed.

(* each series of a call is treated on its own *)
Theorem dm_series_independent rows hs method cl dist out i : length rows = length hs -> (i < length rows)%nat ->
  diebold_mariano_m rows hs method cl dist = Ok out ->
  nth i out (dm_row_of [] XNaN) = dm_row_of (nth i rows []) (nth i hs XNaN).
Proof.
  intros L Hi E. unfold diebold_mariano_m in E.
  repeat match type of E with (if ?c then _ else _) = _ => destruct c; [discriminate|] end.
  injection E as E. subst out.
  change (dm_row_of [] XNaN) with ((fun p => dm_row_of (fst p) (snd p)) ([], XNaN)).
  rewrite map_nth, combine_nth by exact L. reflexivity.
Qed.

(* ------------------------------------------------------------------------------------------ *)
(* confidence interval                                                                         *)
(* ------------------------------------------------------------------------------------------ *)
(* every finite non-zero statistic s (any rational, hence any binary64 value) of the sign of the mean:
   the faithful formulas give finite end points that bracket the mean with half-width q * |mean / s| *)
Theorem ci_brackets_mean m q s : 0 < q -> 0 < m * s ->
  exists lo up, ci_lower_m (XFin m) (XFin q) (XFin s) = XFin lo /\ ci_upper_m (XFin m) (XFin q) (XFin s) = XFin up
    /\ lo <= m <= up /\ up - m == q * Qabs (m / s) /\ m - lo == q * Qabs (m / s).
Proof.
  intros Pq Pms.
  assert (Ns : ~ s == 0) by (intro E; rewrite E in Pms; lra).
  assert (Pr : 0 < m / s).
  { assert (E : m / s == (m * s) / (s * s)) by (field; auto).
    rewrite E. apply Qlt_shift_div_l. destruct (Q_dec s 0) as [[L|G]|E0]; [nra|nra|contradiction]. lra. }
  unfold ci_lower_m, ci_upper_m, xsub, xadd, xmul, xdiv, xneg, X1.
  pose proof (Qeq_bool_spec s 0) as Z. destruct (Qeq_bool s 0); [contradiction|].
  eexists. eexists. split; [reflexivity|]. split; [reflexivity|].
  rewrite (Qabs_pos (m / s)) by lra.
  assert (E1 : m * (1 + q / s) - m == q * (m / s)) by (field; auto).
  assert (E2 : m - m * (1 + - (q / s)) == q * (m / s)) by (field; auto).
  assert (0 < q * (m / s)) by nra.
  split; [|split]; [|exact E1|exact E2]. lra.
Qed.

(* FINDING 7: statistic exactly 0 (zero mean, positive variance estimate): 0 * (1 -+ q/0) = 0 * inf = NaN *)
Lemma ci_nan_at_zero q : 0 < q ->
  ci_lower_m (XFin 0) (XFin q) (XFin 0) = XNaN /\ ci_upper_m (XFin 0) (XFin q) (XFin 0) = XNaN.
Proof.
  intro P. unfold ci_lower_m, ci_upper_m, xsub, xadd, xmul, xdiv, xneg, X1, Qsgn.
  change (Qeq_bool 0 0) with true. cbv iota.
  assert (C : (q ?= 0) = Gt) by (apply Qgt_alt; exact P). rewrite C. split; reflexivity.
Qed.

Definition wit_d : list Q := [1; -1; 1; -1].
Theorem ci_zero_mean_refuted :
  exists (d : list Q) (h : nat) (q : Q), (0 < h < length d)%nat /\ 0 < q /\
    qmean d == 0 /\ dm_stat_hln d h =x= XFin 0 /\      (* the statistic is finite (zero) ... *)
    ci_lower_m (XFin (qmean d)) (XFin q) (dm_stat_hln d h) = XNaN /\   (* ... but the reported end points are NaN *)
    ci_upper_m (XFin (qmean d)) (XFin q) (dm_stat_hln d h) = XNaN.
Proof.
  exists wit_d, 1%nat, 2. split. simpl; lia. split. reflexivity.
  split. vm_compute. reflexivity. split. vm_compute. reflexivity. split; vm_compute; reflexivity.
Qed.
