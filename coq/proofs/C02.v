(* proofs/C02.v -- a missing value removes exactly its own forecast case. *)
From V Require Import lib.Tree proofs.C01 gen.Gen_quantile_loss gen.Gen_interval gen.Gen_standard gen.Gen_functions model.C05 proofs.C05.
Open Scope string_scope.

(* ---- the aggregate sees only the valid cases: masked = deleted ---- *)
Theorem mean_score_valid_only s w R e :
  lget (mean_score s w R) e =
  nanmean (valids (map (lget (apply_weights w s)) (envs (lsize (apply_weights w s)) (dinter (ldims (apply_weights w s)) R) e))).
Proof. rewrite mean_score_unfold. apply nanmean_valids. Qed.

(* deleting a NaN case anywhere in the group does not change mean, sum or count *)
Theorem masked_equals_deleted l1 l2 :
  nanmean (l1 ++ XNaN :: l2) = nanmean (l1 ++ l2) /\ nansum (l1 ++ XNaN :: l2) = nansum (l1 ++ l2)
  /\ nancount (l1 ++ XNaN :: l2) = nancount (l1 ++ l2).
Proof. split; [apply nanmean_skip | split; [apply nansum_skip | apply nancount_skip]]. Qed.

(* a NaN case is never counted as a zero: replacing it by 0 changes the mean whenever the other cases do not average to 0 *)
Theorem nan_is_not_zero : exists l1 l2, ~ nanmean (l1 ++ XNaN :: l2) =x= nanmean (l1 ++ X0 :: l2).
Proof. exists [XFin 1], []. vm_compute. intro H. discriminate. Qed.

(* ---- weights: the weighted per-case score is missing exactly when the score or the weight is ---- *)
Theorem weighted_nan_iff (s w : xv) : xisinf s = false -> xisinf w = false ->
  (xmul s w = XNaN <-> s = XNaN \/ w = XNaN).
Proof. destruct s, w; simpl; intros; try discriminate; intuition (auto; discriminate). Qed.

(* ---- NaN matching used by the ratio scores (multiplicative_bias, pbias, kge, pearsonr) ---- *)
Theorem match_nan_spec (a b : xv) :
  (xwhere (both_valid a b) a = XNaN <-> a = XNaN \/ b = XNaN) /\ (xwhere (both_valid a b) b = XNaN <-> a = XNaN \/ b = XNaN).
Proof. destruct a, b; simpl; intuition (auto; discriminate). Qed.

(* ---- per-kernel: the per-case score is NaN exactly when an input is (for every output component) ---- *)
Definition finite_or_nan (v : xv) := xisinf v = false.
Theorem quantile_nan_iff (f o : xv) (a : Q) : finite_or_nan f -> finite_or_nan o ->
  (gen_quantile_score f o (XFin a) = XNaN <-> f = XNaN \/ o = XNaN).
Proof.
  unfold finite_or_nan. intros Hf Ho. destruct f as [|f|]; destruct o as [|o|]; try discriminate;
  unfold gen_quantile_score; xunf; cbn -[Qle_bool Qmult Qplus Qminus Qopp]; qcmp; cbn;
  intuition (auto; discriminate).
Qed.
Theorem bias_nan_iff (f o : xv) : finite_or_nan f -> finite_or_nan o ->
  (gen_bias_kernel f o = XNaN <-> f = XNaN \/ o = XNaN).
Proof. unfold finite_or_nan. destruct f, o; simpl; intros; try discriminate; intuition (auto; discriminate). Qed.
Theorem angular_nan_iff (a b : xv) : finite_or_nan a -> finite_or_nan b ->
  (gen_angular_difference a b = XNaN <-> a = XNaN \/ b = XNaN).
Proof. unfold finite_or_nan. intros Ha Hb. destruct a as [|a|], b as [|b|]; try discriminate;
  unfold gen_angular_difference, xmodc; xunf; cbn -[Qle_bool Qmult Qplus Qminus Qopp Qabs Qdiv Qfloor inject_Z];
  qcmp; cbn; intuition (auto; discriminate). Qed.
