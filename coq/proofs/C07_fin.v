(* proofs/C07_fin.v -- converse of the NaN statement: a NaN-free forecast case with at least two thresholds, ordinates
   in [0,1] and a finite observation always gets three finite scores (no weight supplied). *)
From V Require Import lib.Tree gen.Gen_C07_kern model.Cdf model.C07 proofs.C07.
From V Require proofs.C17.
Open Scope Q_scope.
Open Scope list_scope.

Lemma lookup_fins g : forall ft f, length f = length ft ->
  (qmem g ft = true -> exists q, lookup g ft (fins f) = XFin q /\ In q f) /\
  (qmem g ft = false -> lookup g ft (fins f) = XNaN).
Proof.
  induction ft as [|t ft IH]; intros [|q f] H; try discriminate.
  - split; [discriminate | reflexivity].
  - simpl in H. apply eq_add_S in H. destruct (IH f H) as [A B].
    change (fins (q :: f)) with (XFin q :: fins f). cbn [lookup]. rewrite qmem_cons.
    destruct (Qeq_bool g t); cbn [orb].
    + split; [intros _; exists q; split; [reflexivity | left; reflexivity] | discriminate].
    + split; [intro M; destruct (A M) as [q' [E I]]; exists q'; split; [exact E | right; exact I] | exact B].
Qed.

Lemma nancount_map_filter {A} (h : A -> xv) l : nancount (map h l) = length (filter (fun g => xvalid (h g)) l).
Proof. unfold nancount, valids. induction l as [|a l IH]; simpl; auto. destruct (xvalid (h a)); simpl; auto. Qed.
Lemma two_in_filter {A} (P : A -> bool) l a b : In a l -> In b l -> P a = true -> P b = true -> a <> b -> (2 <= length (filter P l))%nat.
Proof.
  intros Ia Ib Pa Pb N.
  assert (Fa : In a (filter P l)) by (apply filter_In; auto). assert (Fb : In b (filter P l)) by (apply filter_In; auto).
  destruct (filter P l) as [|x [|y r]]; simpl in *; try lia; try tauto.
  destruct Fa as [Fa|[]], Fb as [Fb|[]]. congruence.
Qed.

Lemma reindex_count ft f grid : length f = length ft -> (2 <= length ft)%nat -> increasing ft = true ->
  (forall t, In t ft -> qmem t grid = true) -> (2 <= nancount (reindex ft (fins f) grid))%nat.
Proof.
  intros Hl H2 Hi Hm. unfold reindex. rewrite nancount_map_filter.
  destruct ft as [|t0 [|t1 ft']]; simpl in H2; try lia.
  apply increasing_cons in Hi. destruct Hi as [Hlt _].
  assert (M0 : qmem t0 grid = true) by (apply Hm; left; auto). assert (M1 : qmem t1 grid = true) by (apply Hm; right; left; auto).
  unfold qmem in M0, M1. apply existsb_exists in M0, M1. destruct M0 as [g0 [I0 E0]]. destruct M1 as [g1 [I1 E1]].
  apply Qeq_bool_iff in E0, E1.
  apply (two_in_filter _ grid g0 g1 I0 I1).
  - destruct (lookup_fins g0 (t0 :: t1 :: ft') f Hl) as [A _].
    destruct A as [q [E _]]. rewrite qmem_cons. rewrite (proj2 (Qeq_bool_iff g0 t0)) by lra. reflexivity. rewrite E. reflexivity.
  - destruct (lookup_fins g1 (t0 :: t1 :: ft') f Hl) as [A _].
    destruct A as [q [E _]]. rewrite !qmem_cons. rewrite (proj2 (Qeq_bool_iff g1 t1)) by lra. apply orb_true_r. rewrite E. reflexivity.
  - intro E. subst. lra.
Qed.

Lemma reindex_in01 ft f grid : length f = length ft -> forallb in01 (fins f) = true -> forallb in01 (reindex ft (fins f) grid) = true.
Proof.
  intros Hl Hb. apply forallb_forall. intros v Hv. unfold reindex in Hv. apply in_map_iff in Hv. destruct Hv as [g [E _]]. subst.
  destruct (lookup_fins g ft f Hl) as [A B]. destruct (qmem g ft) eqn:M.
  - destruct (A eq_refl) as [q [E I]]. rewrite E. apply (proj1 (forallb_forall _ _) Hb). unfold fins. apply in_map. exact I.
  - rewrite (B eq_refl). reflexivity.
Qed.

Lemma good01_fins l : Forall proofs.C17.good01 l -> exists f', l = fins f'.
Proof.
  induction 1 as [|v l Hv Hl IH]. exists []. reflexivity.
  destruct IH as [f' E]. destruct Hv as [q [Eq _]]. exists (q :: f'). subst. reflexivity.
Qed.

Lemma map_pts_combine : forall (g f w : list Q), length f = length g -> length w = length g ->
  map tq (combine (combine g f) w) = g /\ map fq (combine (combine g f) w) = f /\ map wq (combine (combine g f) w) = w.
Proof.
  induction g as [|a g IH]; intros [|b f] [|c w] Hf Hw; simpl in Hf, Hw; try discriminate. repeat split.
  apply eq_add_S in Hf. apply eq_add_S in Hw. destruct (IH f w Hf Hw) as [A [B C]].
  cbn [combine map]. unfold tq, fq, wq in *. cbn [fst snd]. rewrite A, B, C. repeat split.
Qed.

Lemma ffill_from_length : forall z a0, length (ffill_from a0 z) = length z.
Proof. induction z; intro; simpl; auto. Qed.
Lemma bfill_length z : length (bfill z) = length z.
Proof. unfold bfill, ffill. rewrite rev_length, ffill_from_length, rev_length. reflexivity. Qed.
Lemma fill_line_length m mn ts ys : length ts = length ys -> length (fill_line m mn ts ys) = length ys.
Proof.
  intro H. unfold fill_line. destruct (Nat.ltb _ mn). unfold blank. apply map_length.
  destruct m.
  - unfold fill_linear. rewrite map_length, combine_length, H. apply Nat.min_id.
  - rewrite map_length. apply ffill_from_length.
  - rewrite bfill_length. apply ffill_from_length.
  - unfold ffill. rewrite ffill_from_length. apply bfill_length.
Qed.

Theorem crps_case_finite grid ft op (f : list Q) (y : Q) :
  length f = length ft -> (2 <= length ft)%nat -> increasing ft = true -> increasing grid = true ->
  (forall t, In t ft -> qmem t grid = true) -> forallb in01 (fins f) = true ->
  exists t u o : Q,
    fst (fst (crps_case grid ft None op (fins f, XFin y, None))) =x= XFin t /\
    snd (fst (crps_case grid ft None op (fins f, XFin y, None))) =x= XFin u /\
    snd (crps_case grid ft None op (fins f, XFin y, None)) =x= XFin o.
Proof.
  intros Hl H2 Hi Hg Hm Hb.
  unfold crps_case, reformat_case, prep_f, prep_w, c_f, c_o, c_w. cbn [fst snd].
  assert (P : (if o_prop op then propagate_nan_m (fins f) else fins f) = fins f).
  { destruct (o_prop op); auto. unfold propagate_nan_m. rewrite has_nan_fins. reflexivity. }
  rewrite P.
  set (r := reindex ft (fins f) grid).
  assert (Lr : length grid = length r) by (unfold r, reindex; rewrite map_length; reflexivity).
  assert (Hr : Forall proofs.C17.good01 (fill_line (o_ffm op) 2 grid r)).
  { apply proofs.C17.fill_range01; auto.
    - apply reindex_count; auto.
    - destruct (o_ffm op); lia.
    - apply reindex_in01; auto. }
  destruct (good01_fins _ Hr) as [f' Ef].
  assert (Lf : length f' = length grid).
  { pose proof (fill_line_length (o_ffm op) 2 grid r Lr) as L. rewrite Ef in L. unfold fins in L. rewrite map_length in L. lia. }
  rewrite Ef.
  set (w' := map (fun _ : Q => 1) grid).
  assert (Ew : map (fun _ : Q => X1) grid = fins w') by (unfold w', fins; rewrite map_map; reflexivity).
  assert (Lw : length w' = length grid) by (unfold w'; apply map_length).
  rewrite Ew.
  destruct (map_pts_combine grid f' w' Lf Lw) as [A [B C]].
  set (pts := combine (combine grid f') w') in *.
  destruct (o_exact op).
  - pose proof (exact_line_eq_spec pts y) as E. rewrite A, B, C in E. destruct (E Hg) as [E1 [E2 E3]].
    eexists; eexists; eexists. split; [exact E1 | split; [exact E2 | exact E3]].
  - pose proof (trapz_line_fin pts y) as E. rewrite A, B, C in E. destruct E as [E1 [E2 E3]].
    eexists; eexists; eexists. split; [exact E1 | split; [exact E2 | exact E3]].
Qed.

(* on the common grid of the pipeline the two grid hypotheses hold by construction *)
Theorem crps_case_finite_on_union_grid ft cs add op (f : list Q) (y : Q) :
  length f = length ft -> (2 <= length ft)%nat -> increasing ft = true -> forallb in01 (fins f) = true ->
  let r := crps_case (union_grid ft None cs add) ft None op (fins f, XFin y, None) in
  exists t u o : Q, fst (fst r) =x= XFin t /\ snd (fst r) =x= XFin u /\ snd r =x= XFin o.
Proof.
  intros Hl H2 Hi Hb. cbv zeta. apply crps_case_finite; auto.
  - apply union_grid_increasing.
  - intros t Ht. apply union_grid_contains_fcst; auto.
Qed.
