(* proofs/C10.v -- Q-level lemmas behind the C10 theorems (axiom-free).
   The R-level integral theorems are in proofs/C10_RInt*.v. *)
From V Require Import lib.Tree lib.C10_aux gen.Gen_C10_kern model.C10.

Ltac gk := xunf; cbn -[Qle_bool Qeq_bool Qmult Qplus Qminus Qopp Qdiv Qinv Qcompare Qabs]; qcmp;
           cbn -[Qmult Qplus Qminus Qopp Qdiv Qinv Qabs]; try reflexivity; try lra.

(* ---------------- the generated rows of Table B1 equal the specification functions ---------------- *)
Lemma g_rect_gen_spec a b x : gen_g_rect (XFin a) (XFin b) (XFin x) =x= XFin (qg_rect a b x).
Proof. unfold gen_g_rect, qg_rect, Qltb. gk. Qed.

Lemma phi_rect_gen_spec a b x : gen_phi_rect (XFin a) (XFin b) (XFin x) =x= XFin (qphi_rect a b x).
Proof. unfold gen_phi_rect, qphi_rect, Qltb. gk. Qed.

Lemma phip_rect_gen_spec a b x : gen_phi_prime_rect (XFin a) (XFin b) (XFin x) =x= XFin (qphip_rect a b x).
Proof. unfold gen_phi_prime_rect, qphip_rect. pose proof (g_rect_gen_spec a b x) as H.
 destruct (gen_g_rect (XFin a) (XFin b) (XFin x)); cbn in *; try tauto. rewrite H. reflexivity. Qed.

Lemma g_trap_gen_spec a b c d x : a < b -> b < c -> c < d ->
  gen_g_trap (XFin a) (XFin b) (XFin c) (XFin d) (XFin x) =x= XFin (qg_trap a b c d x).
Proof. intros. unfold gen_g_trap, qg_trap, Qltb. gk; try (field; lra). Qed.

Lemma phi_trap_gen_spec a b c d x : a < b -> b < c -> c < d ->
  gen_phi_trap (XFin a) (XFin b) (XFin c) (XFin d) (XFin x) =x= XFin (qphi_trap a b c d x).
Proof. intros. unfold gen_phi_trap, qphi_trap, Qltb. gk; try (field; lra). Qed.

Lemma phip_trap_gen_spec a b c d x : a < b -> b < c -> c < d ->
  gen_phi_prime_trap (XFin a) (XFin b) (XFin c) (XFin d) (XFin x) =x= XFin (qphip_trap a b c d x).
Proof. intros. unfold gen_phi_prime_trap, qphip_trap. pose proof (g_trap_gen_spec a b c d x H H0 H1) as E.
 destruct (gen_g_trap (XFin a) (XFin b) (XFin c) (XFin d) (XFin x)); cbn in *; try tauto. rewrite E. reflexivity. Qed.

(* ---------------- the consistent kernels, for arbitrary g / phi / phi' ---------------- *)
(* `g` (a function on extended values, e.g. a generated row of Table B1 with fixed end points) is finite on
   finite arguments and agrees there with the rational function `gq` *)
Definition lifts (g : xv -> xv) (gq : Q -> Q) : Prop := forall x, g (XFin x) =x= XFin (gq x).
Definition nondecreasing (g : Q -> Q) : Prop := forall x y, x <= y -> g x <= g y.
(* phi' is a subgradient of phi (equivalently: phi convex with subderivative phi') *)
Definition subgradient (phi phi' : Q -> Q) : Prop := forall x y, phi' x * (y - x) <= phi y - phi x.

Ltac lift_at L x := let H := fresh "HL" in pose proof (L x) as H;
  match type of H with ?t =x= _ => destruct t; cbn in H; try tauto end.

(* rational functions respect equality of rationals (every function one can write down does) *)
Definition respects (g : Q -> Q) : Prop := forall x y, x == y -> g x == g y.

Ltac gkk := repeat (progress (qcmp; cbn -[Qle_bool Qeq_bool Qmult Qplus Qminus Qopp Qdiv Qinv Qcompare Qabs])).
(* collect `p u == p w` for all pairs of arguments of p occurring in the goal that are provably equal *)
Ltac pq_compat C :=
  repeat match goal with
  | |- context [?p ?u] =>
     match type of C with (forall x y, _ -> p x == p y) => idtac end;
     match goal with |- context [p ?w] =>
       tryif constr_eq u w then fail else
       (lazymatch goal with _ : p u == p w |- _ => fail | _ => idtac end;
        assert (p u == p w) by (apply C; lra)) end end.
(* lift every application `p (XFin z)` of a lifted function occurring in the goal, whatever form the argument has
   (the kernels may pass the data on as given or converted to floating point, `1.0 * fcst`) *)
Ltac lift_all := repeat match goal with L : lifts ?p _ |- context [?p (XFin ?z)] => lift_at L z end.
Ltac use_lifts pq ppq :=
  repeat match goal with H : _ == pq _ |- _ => rewrite H; clear H | H : _ == ppq _ |- _ => rewrite H; clear H end.

Lemma cq_gen_spec g gq a f o : lifts g gq -> respects gq ->
  gen_consistent_quantile g (XFin f) (XFin o) (XFin a) =x= XFin (qcq gq a f o).
Proof. intros L C. unfold respects in C. unfold gen_consistent_quantile, qcq, Qltb.
 xunf. xunf. cbn -[Qle_bool Qeq_bool Qmult Qplus Qminus Qopp Qdiv Qinv Qcompare Qabs].
 lift_all. cbn -[Qle_bool Qeq_bool Qmult Qplus Qminus Qopp Qdiv Qinv Qcompare Qabs].
 gkk; cbn -[Qmult Qplus Qminus Qopp Qdiv Qinv Qabs]; try lra; use_lifts gq gq; pq_compat C; nra. Qed.

Lemma ce_gen_spec phi phip pq ppq a f o : lifts phi pq -> lifts phip ppq -> respects pq -> respects ppq ->
  gen_consistent_expectile phi phip (XFin f) (XFin o) (XFin a) =x= XFin (qce pq ppq a f o).
Proof. intros L L' C C'. unfold respects in C, C'. unfold gen_consistent_expectile, qce, Qltb.
 xunf. xunf. cbn -[Qle_bool Qeq_bool Qmult Qplus Qminus Qopp Qdiv Qinv Qcompare Qabs].
 lift_all. cbn -[Qle_bool Qeq_bool Qmult Qplus Qminus Qopp Qdiv Qinv Qcompare Qabs].
 gkk; cbn -[Qmult Qplus Qminus Qopp Qdiv Qinv Qabs]; try lra; use_lifts pq ppq; pq_compat C; pq_compat C'; nra. Qed.

Lemma ch_gen_spec phi phip pq ppq v f o : lifts phi pq -> lifts phip ppq -> 0 <= v -> respects pq -> respects ppq ->
  gen_consistent_huber phi phip (XFin f) (XFin o) (XFin v) =x= XFin (qch pq ppq v f o).
Proof. intros L L' Hv C C'. unfold respects in C, C'.
 assert (Proper (Qeq ==> Qeq) pq) by (intros x y E; apply C; exact E).
 assert (Proper (Qeq ==> Qeq) ppq) by (intros x y E; apply C'; exact E).
 unfold gen_consistent_huber, qch, qclip, Qltb.
 xunf. xunf. cbn -[Qle_bool Qeq_bool Qmult Qplus Qminus Qopp Qdiv Qinv Qcompare Qabs].
 gkk; try lra; lift_all;
 cbn -[Qmult Qplus Qminus Qopp Qdiv Qinv Qabs]; use_lifts pq ppq;
 repeat rewrite Qmult_1_l in *;
 try reflexivity;
 try (assert (E : f - o == - v) by lra; rewrite !E); try (assert (E : f - o == v) by lra; rewrite !E);
 pq_compat C; pq_compat C'; nra.
Qed.

(* ---------------- non-negativity and zero at fcst = obs, for every admissible g / phi ---------------- *)
Lemma nondecreasing_respects g : nondecreasing g -> respects g.
Proof. intros M x y E. assert (g x <= g y) by (apply M; lra). assert (g y <= g x) by (apply M; lra). lra. Qed.

Lemma subgradient_respects phi phi' : subgradient phi phi' -> respects phi.
Proof. intros S x y E. pose proof (S x y). pose proof (S y x). nra. Qed.

Lemma qcq_nonneg g a f o : nondecreasing g -> 0 < a < 1 -> 0 <= qcq g a f o.
Proof. intros M A. unfold qcq, Qltb. pose proof (Qle_bool_spec f o) as H. destruct (Qle_bool f o); cbn.
 - pose proof (M f o H). nra.
 - assert (o <= f) as H' by lra. pose proof (M o f H'). nra. Qed.

Lemma qcq_zero g a f o : nondecreasing g -> f == o -> qcq g a f o == 0.
Proof. intros M E. pose proof (nondecreasing_respects g M f o E). unfold qcq. destruct (Qltb o f); nra. Qed.

Lemma qce_nonneg phi phi' a f o : subgradient phi phi' -> 0 < a < 1 -> 0 <= qce phi phi' a f o.
Proof. intros S A. unfold qce. pose proof (S f o). destruct (Qltb o f); nra. Qed.

Lemma qce_zero phi phi' a f o : subgradient phi phi' -> f == o -> qce phi phi' a f o == 0.
Proof. intros S E. pose proof (subgradient_respects _ _ S f o E). unfold qce. destruct (Qltb o f); nra. Qed.

Lemma qclip_spec v x : 0 <= v -> - v <= qclip v x <= v /\ (0 <= x -> 0 <= qclip v x <= x) /\ (x <= 0 -> x <= qclip v x <= 0).
Proof. intro. unfold qclip, Qltb. qcmp; cbn; repeat split; intros; lra. Qed.

Lemma qch_nonneg phi phi' v f o : subgradient phi phi' -> nondecreasing phi' -> 0 <= v -> 0 <= qch phi phi' v f o.
Proof. intros S M Hv. unfold qch. pose proof (qclip_spec v (f - o) Hv) as [_ [Hp Hn]].
 set (k := qclip v (f - o)) in *. pose proof (S (k + o) o) as S1.
 destruct (Qlt_le_dec (f - o) 0) as [N|P].
 - assert (f - o <= 0) as N' by lra. specialize (Hn N'). assert (f <= k + o) as Hz by lra. pose proof (M _ _ Hz). nra.
 - specialize (Hp P). assert (k + o <= f) as Hz by lra. pose proof (M _ _ Hz). nra. Qed.

Lemma qch_zero phi phi' v f o : subgradient phi phi' -> 0 <= v -> f == o -> qch phi phi' v f o == 0.
Proof. intros S Hv E. unfold qch. pose proof (qclip_spec v (f - o) Hv) as [_ [Hp Hn]].
 set (k := qclip v (f - o)) in *. assert (k == 0) as K by (assert (0 <= f - o) by lra; assert (f - o <= 0) by lra; specialize (Hp H); specialize (Hn H0); lra).
 assert (k + o == o) as Z by lra. pose proof (subgradient_respects _ _ S _ _ Z). nra. Qed.

(* ---------------- rectangular weight: admissibility of g, phi, phi' ---------------- *)

Lemma qg_rect_nondecreasing a b : a <= b -> nondecreasing (qg_rect a b).
Proof. intros Hab x y Hxy. unfold qg_rect, Qltb. qcmpp; qsolve. Qed.

Lemma qphip_rect_nondecreasing a b : a <= b -> nondecreasing (qphip_rect a b).
Proof. intros Hab x y Hxy. unfold qphip_rect. pose proof (qg_rect_nondecreasing a b Hab x y Hxy). lra. Qed.

Lemma qphi_rect_subgradient a b : a <= b -> subgradient (qphi_rect a b) (qphip_rect a b).
Proof. intros Hab x y. unfold qphi_rect, qphip_rect, qg_rect, Qltb. qcmpp; qsolve;
 pose proof (qsq_nonneg (y - x)); pose proof (qsq_nonneg (y - b)); pose proof (qsq_nonneg (y - a)); pose proof (qsq_nonneg (x - b)); nra. Qed.

(* ---------------- partitions: [a,b) + [b,c) = [a,c) ---------------- *)
Lemma qg_rect_add a b c x : a <= b -> b <= c -> qg_rect a b x + qg_rect b c x == qg_rect a c x.
Proof. intros. unfold qg_rect, Qltb. qcmpp; qsolve. Qed.
Lemma qphi_rect_add a b c x : a <= b -> b <= c -> qphi_rect a b x + qphi_rect b c x == qphi_rect a c x.
Proof. intros. unfold qphi_rect, Qltb. qcmpp; qsolve. Qed.
Lemma qphip_rect_add a b c x : a <= b -> b <= c -> qphip_rect a b x + qphip_rect b c x == qphip_rect a c x.
Proof. intros. unfold qphip_rect. pose proof (qg_rect_add a b c x H H0). lra. Qed.

(* the consistent scoring functions are linear in g, resp. in (phi, phi') *)
Lemma qcq_linear g1 g2 g a f o : (forall x, g1 x + g2 x == g x) -> qcq g1 a f o + qcq g2 a f o == qcq g a f o.
Proof. intros E. unfold qcq. pose proof (E f). pose proof (E o). destruct (Qltb o f); nra. Qed.
Lemma qce_linear p1 p1' p2 p2' p p' a f o : (forall x, p1 x + p2 x == p x) -> (forall x, p1' x + p2' x == p' x) ->
  qce p1 p1' a f o + qce p2 p2' a f o == qce p p' a f o.
Proof. intros E E'. unfold qce. pose proof (E f). pose proof (E o). pose proof (E' f). destruct (Qltb o f); nra. Qed.
Lemma qch_linear p1 p1' p2 p2' p p' v f o : (forall x, p1 x + p2 x == p x) -> (forall x, p1' x + p2' x == p' x) ->
  qch p1 p1' v f o + qch p2 p2' v f o == qch p p' v f o.
Proof. intros E E'. unfold qch. set (k := qclip v (f - o)). pose proof (E (k + o)). pose proof (E o). pose proof (E' f). nra. Qed.

Lemma tw_partition_rect_quantile a b c alpha f o : a <= b -> b <= c ->
  q_tw_quantile_rect a b alpha f o + q_tw_quantile_rect b c alpha f o == q_tw_quantile_rect a c alpha f o.
Proof. intros. apply qcq_linear. intro; apply qg_rect_add; auto. Qed.
Lemma tw_partition_rect_abs a b c f o : a <= b -> b <= c ->
  q_tw_abs_rect a b f o + q_tw_abs_rect b c f o == q_tw_abs_rect a c f o.
Proof. intros. unfold q_tw_abs_rect. pose proof (tw_partition_rect_quantile a b c (1#2) f o H H0). unfold q_tw_quantile_rect in *. lra. Qed.
Lemma tw_partition_rect_expectile a b c alpha f o : a <= b -> b <= c ->
  q_tw_expectile_rect a b alpha f o + q_tw_expectile_rect b c alpha f o == q_tw_expectile_rect a c alpha f o.
Proof. intros. unfold q_tw_expectile_rect.
 pose proof (qce_linear (qphi_rect a b) (qphip_rect a b) (qphi_rect b c) (qphip_rect b c) (qphi_rect a c) (qphip_rect a c) alpha f o
   (fun x => qphi_rect_add a b c x H H0) (fun x => qphip_rect_add a b c x H H0)). lra. Qed.
Lemma tw_partition_rect_sq a b c f o : a <= b -> b <= c ->
  q_tw_sq_rect a b f o + q_tw_sq_rect b c f o == q_tw_sq_rect a c f o.
Proof. intros. unfold q_tw_sq_rect.
 apply (qce_linear (qphi_rect a b) (qphip_rect a b) (qphi_rect b c) (qphip_rect b c) (qphi_rect a c) (qphip_rect a c) (1#2) f o
   (fun x => qphi_rect_add a b c x H H0) (fun x => qphip_rect_add a b c x H H0)). Qed.
Lemma tw_partition_rect_huber a b c v f o : a <= b -> b <= c ->
  q_tw_huber_rect a b v f o + q_tw_huber_rect b c v f o == q_tw_huber_rect a c v f o.
Proof. intros. unfold q_tw_huber_rect.
 pose proof (qch_linear (qphi_rect a b) (qphip_rect a b) (qphi_rect b c) (qphip_rect b c) (qphi_rect a c) (qphip_rect a c) v f o
   (fun x => qphi_rect_add a b c x H H0) (fun x => qphip_rect_add a b c x H H0)). lra. Qed.

(* ---------------- weight one: end points at or beyond the data ---------------- *)
Lemma tw_weight_one_quantile L U alpha f o : L <= f -> L <= o -> f <= U -> o <= U ->
  q_tw_quantile_rect L U alpha f o == q_pinball alpha f o.
Proof. intros. unfold q_tw_quantile_rect, qcq, q_pinball, qg_rect, Qltb. qcmpp; qsolve. Qed.
Lemma tw_weight_one_abs L U f o : L <= f -> L <= o -> f <= U -> o <= U ->
  q_tw_abs_rect L U f o == q_abs_err f o.
Proof. intros. unfold q_tw_abs_rect, qcq, q_abs_err, qg_rect, Qltb.
 qcmpp; cbn -[Qmult Qplus Qminus Qopp Qdiv Qinv Qabs];
 (rewrite Qabs_pos by lra) || (rewrite Qabs_neg by lra); lra. Qed.
Lemma tw_weight_one_sq L U f o : L <= f -> L <= o -> f <= U -> o <= U ->
  q_tw_sq_rect L U f o == q_sq_err f o.
Proof. intros. unfold q_tw_sq_rect, qce, q_sq_err, qphi_rect, qphip_rect, qg_rect, Qltb. qcmpp; qsolve. Qed.
Lemma tw_weight_one_expectile L U alpha f o : L <= f -> L <= o -> f <= U -> o <= U ->
  q_tw_expectile_rect L U alpha f o == q_asym_sq alpha f o.
Proof. intros. unfold q_tw_expectile_rect, qce, q_asym_sq, qphi_rect, qphip_rect, qg_rect, Qltb. qcmpp; qsolve. Qed.

Lemma tw_weight_one_huber L U v f o : 0 <= v -> L <= f -> L <= o -> f <= U -> o <= U ->
  q_tw_huber_rect L U v f o == q_huber v f o.
Proof. intros. unfold q_tw_huber_rect, qch, qclip, q_huber, qphi_rect, qphip_rect, qg_rect, Qltb.
 destruct (Qlt_le_dec (f - o) 0) as [N|N];
 [assert (EA : Qabs (f - o) == - (f - o)) by (apply Qabs_neg; lra) | assert (EA : Qabs (f - o) == f - o) by (apply Qabs_pos; lra)];
 set (A := Qabs (f - o)) in *; clearbody A; qcmpp; qsolve. Qed.

(* every rectangular threshold-weighted score is non-negative and vanishes at fcst = obs *)
Lemma tw_rect_nonneg a b alpha v f o : a <= b -> 0 < alpha < 1 -> 0 <= v ->
  (0 <= q_tw_sq_rect a b f o /\ 0 <= q_tw_abs_rect a b f o /\ 0 <= q_tw_quantile_rect a b alpha f o /\
   0 <= q_tw_expectile_rect a b alpha f o /\ 0 <= q_tw_huber_rect a b v f o) /\
  (f == o -> q_tw_sq_rect a b f o == 0 /\ q_tw_abs_rect a b f o == 0 /\ q_tw_quantile_rect a b alpha f o == 0 /\
   q_tw_expectile_rect a b alpha f o == 0 /\ q_tw_huber_rect a b v f o == 0).
Proof. intros Hab Ha Hv.
 pose proof (qg_rect_nondecreasing a b Hab) as M. pose proof (qphip_rect_nondecreasing a b Hab) as M'.
 pose proof (qphi_rect_subgradient a b Hab) as S. assert (Hh : 0 < 1 # 2 < 1) by (split; reflexivity).
 unfold q_tw_sq_rect, q_tw_abs_rect, q_tw_quantile_rect, q_tw_expectile_rect, q_tw_huber_rect. split.
 - pose proof (qce_nonneg _ _ (1 # 2) f o S Hh). pose proof (qcq_nonneg _ (1 # 2) f o M Hh). pose proof (qcq_nonneg _ alpha f o M Ha).
   pose proof (qce_nonneg _ _ alpha f o S Ha). pose proof (qch_nonneg _ _ v f o S M' Hv). repeat split; lra.
 - intro E. pose proof (qce_zero _ _ (1 # 2) f o S E). pose proof (qcq_zero _ (1 # 2) f o M E). pose proof (qcq_zero _ alpha f o M E).
   pose proof (qce_zero _ _ alpha f o S E). pose proof (qch_zero _ _ v f o S Hv E). repeat split; lra. Qed.

(* ---------------- soundness of replacing infinite end points by finite points beyond the data ---------------- *)
(* the scores only see differences of g and Bregman differences of phi: an end point at or below min(f,o), resp. at or
   above max(f,o), can be moved freely *)
Lemma rect_lower_irrelevant a1 a2 b alpha v f o : a1 <= f -> a1 <= o -> a2 <= f -> a2 <= o -> 0 <= v ->
  q_tw_sq_rect a1 b f o == q_tw_sq_rect a2 b f o /\ q_tw_abs_rect a1 b f o == q_tw_abs_rect a2 b f o /\
  q_tw_quantile_rect a1 b alpha f o == q_tw_quantile_rect a2 b alpha f o /\
  q_tw_expectile_rect a1 b alpha f o == q_tw_expectile_rect a2 b alpha f o /\
  q_tw_huber_rect a1 b v f o == q_tw_huber_rect a2 b v f o.
Proof. intros. unfold q_tw_sq_rect, q_tw_abs_rect, q_tw_quantile_rect, q_tw_expectile_rect, q_tw_huber_rect, qcq, qce, qch, qclip,
   qphi_rect, qphip_rect, qg_rect, Qltb. repeat split; qcmpp; qsolve. Qed.

Lemma rect_upper_irrelevant a b1 b2 alpha v f o : f <= b1 -> o <= b1 -> f <= b2 -> o <= b2 -> 0 <= v ->
  q_tw_sq_rect a b1 f o == q_tw_sq_rect a b2 f o /\ q_tw_abs_rect a b1 f o == q_tw_abs_rect a b2 f o /\
  q_tw_quantile_rect a b1 alpha f o == q_tw_quantile_rect a b2 alpha f o /\
  q_tw_expectile_rect a b1 alpha f o == q_tw_expectile_rect a b2 alpha f o /\
  q_tw_huber_rect a b1 v f o == q_tw_huber_rect a b2 v f o.
Proof. intros. unfold q_tw_sq_rect, q_tw_abs_rect, q_tw_quantile_rect, q_tw_expectile_rect, q_tw_huber_rect, qcq, qce, qch, qclip,
   qphi_rect, qphip_rect, qg_rect, Qltb. repeat split; qcmpp; qsolve. Qed.

(* ---------------- the regenerated kernels composed as the tw_* wrappers compose them ---------------- *)
Lemma lifts_g_rect a b : lifts (gen_g_rect (XFin a) (XFin b)) (qg_rect a b).
Proof. intro x. apply g_rect_gen_spec. Qed.
Lemma lifts_phi_rect a b : lifts (gen_phi_rect (XFin a) (XFin b)) (qphi_rect a b).
Proof. intro x. apply phi_rect_gen_spec. Qed.
Lemma lifts_phip_rect a b : lifts (gen_phi_prime_rect (XFin a) (XFin b)) (qphip_rect a b).
Proof. intro x. apply phip_rect_gen_spec. Qed.
Lemma lifts_g_trap a b c d : a < b -> b < c -> c < d -> lifts (gen_g_trap (XFin a) (XFin b) (XFin c) (XFin d)) (qg_trap a b c d).
Proof. intros ? ? ? x. apply g_trap_gen_spec; auto. Qed.
Lemma lifts_phi_trap a b c d : a < b -> b < c -> c < d -> lifts (gen_phi_trap (XFin a) (XFin b) (XFin c) (XFin d)) (qphi_trap a b c d).
Proof. intros ? ? ? x. apply phi_trap_gen_spec; auto. Qed.
Lemma lifts_phip_trap a b c d : a < b -> b < c -> c < d -> lifts (gen_phi_prime_trap (XFin a) (XFin b) (XFin c) (XFin d)) (qphip_trap a b c d).
Proof. intros ? ? ? x. apply phip_trap_gen_spec; auto. Qed.

Lemma xmul_fin_eq k u v : u =x= XFin v -> xmul (XFin k) u =x= XFin (k * v).
Proof. destruct u; cbn; try tauto. intro E. rewrite E. reflexivity. Qed.

(* pointwise values computed by the five wrappers (finite end points) = the specification functions q_tw_* *)
Lemma tw_rect_gen a b alpha v f o : a <= b -> 0 <= v ->
  gen_consistent_expectile (gen_phi_rect (XFin a) (XFin b)) (gen_phi_prime_rect (XFin a) (XFin b)) (XFin f) (XFin o) (XFin (1 # 2))
    =x= XFin (q_tw_sq_rect a b f o) /\
  xmul (XFin 2) (gen_consistent_quantile (gen_g_rect (XFin a) (XFin b)) (XFin f) (XFin o) (XFin (1 # 2))) =x= XFin (q_tw_abs_rect a b f o) /\
  gen_consistent_quantile (gen_g_rect (XFin a) (XFin b)) (XFin f) (XFin o) (XFin alpha) =x= XFin (q_tw_quantile_rect a b alpha f o) /\
  xmul (XFin (1 # 2)) (gen_consistent_expectile (gen_phi_rect (XFin a) (XFin b)) (gen_phi_prime_rect (XFin a) (XFin b)) (XFin f) (XFin o) (XFin alpha))
    =x= XFin (q_tw_expectile_rect a b alpha f o) /\
  xmul (XFin (1 # 2)) (gen_consistent_huber (gen_phi_rect (XFin a) (XFin b)) (gen_phi_prime_rect (XFin a) (XFin b)) (XFin f) (XFin o) (XFin v))
    =x= XFin (q_tw_huber_rect a b v f o).
Proof. intros Hab Hv.
 pose proof (nondecreasing_respects _ (qg_rect_nondecreasing a b Hab)) as Rg.
 pose proof (subgradient_respects _ _ (qphi_rect_subgradient a b Hab)) as Rphi.
 pose proof (nondecreasing_respects _ (qphip_rect_nondecreasing a b Hab)) as Rphip.
 repeat split.
 - apply ce_gen_spec; [apply lifts_phi_rect | apply lifts_phip_rect | exact Rphi | exact Rphip].
 - apply xmul_fin_eq. apply cq_gen_spec; [apply lifts_g_rect | exact Rg].
 - apply cq_gen_spec; [apply lifts_g_rect | exact Rg].
 - apply xmul_fin_eq. apply ce_gen_spec; [apply lifts_phi_rect | apply lifts_phip_rect | exact Rphi | exact Rphip].
 - apply xmul_fin_eq. apply ch_gen_spec; [apply lifts_phi_rect | apply lifts_phip_rect | auto | exact Rphi | exact Rphip]. Qed.

(* two half-lines sum to the unweighted score *)
Lemma tw_partition_halflines L b U alpha v f o : 0 <= v -> L <= f -> L <= o -> f <= U -> o <= U -> L <= b -> b <= U ->
  q_tw_sq_rect L b f o + q_tw_sq_rect b U f o == q_sq_err f o /\
  q_tw_abs_rect L b f o + q_tw_abs_rect b U f o == q_abs_err f o /\
  q_tw_quantile_rect L b alpha f o + q_tw_quantile_rect b U alpha f o == q_pinball alpha f o /\
  q_tw_expectile_rect L b alpha f o + q_tw_expectile_rect b U alpha f o == q_asym_sq alpha f o /\
  q_tw_huber_rect L b v f o + q_tw_huber_rect b U v f o == q_huber v f o.
Proof. intros. repeat split.
 - rewrite tw_partition_rect_sq by auto. apply tw_weight_one_sq; auto.
 - rewrite tw_partition_rect_abs by auto. apply tw_weight_one_abs; auto.
 - rewrite tw_partition_rect_quantile by auto. apply tw_weight_one_quantile; auto.
 - rewrite tw_partition_rect_expectile by auto. apply tw_weight_one_expectile; auto.
 - rewrite tw_partition_rect_huber by auto. apply tw_weight_one_huber; auto. Qed.
