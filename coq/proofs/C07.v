(* proofs/C07.v -- Q-level lemmas behind the C07 theorems: the code-faithful exact method equals the
   specification sum for every weight, components are non-negative and add up, weights act linearly,
   trapz is the trapezoid rule over the Brier decomposition, NaN stays in its own case. *)
From V Require Import lib.Tree gen.Gen_C07_kern model.Cdf model.C07.
Open Scope Q_scope.
Open Scope list_scope.

(* ------------------------------------------------------------------------------------------ *)
(* small list facts                                                                             *)
(* ------------------------------------------------------------------------------------------ *)
Lemma combine_map {A B C} (f : A -> B) (g : A -> C) (l : list A) :
  combine (map f l) (map g l) = map (fun x => (f x, g x)) l.
Proof. induction l; simpl; congruence. Qed.

Lemma has_nan_fins l : has_nan (fins l) = false.
Proof. induction l; simpl; auto. Qed.
Lemma has_nan_map_fin {A} (f : A -> Q) l : has_nan (map (fun x => XFin (f x)) l) = false.
Proof. induction l; simpl; auto. Qed.

(* sum of the finite entries *)
Definition qfin (v : xv) : Q := match v with XFin q => q | _ => 0 end.
Fixpoint qsum_fin (l : list xv) : Q := match l with [] => 0 | v :: t => qfin v + qsum_fin t end.
Definition fin_or_nan (v : xv) : Prop := match v with XInf _ => False | _ => True end.

Lemma xsum_valids_fin l : Forall fin_or_nan l -> xsum (valids l) =x= XFin (qsum_fin l).
Proof.
  induction 1 as [|v t Hv Ht IH]; simpl. reflexivity.
  destruct v as [|q|b]; simpl in *; try tauto.
  - rewrite IH. simpl. lra.
  - destruct (xsum (valids t)) as [|s|b]; simpl in *; try tauto. lra.
Qed.

(* the wrapper of crps_cdf_exact: sum(min_count=1), then NaN -> 0 *)
Lemma sum_min1_fin l : Forall fin_or_nan l ->
  (if xisnan (sum_min1 l) then X0 else sum_min1 l) =x= XFin (qsum_fin l).
Proof.
  intro H. unfold sum_min1, nansum. pose proof (xsum_valids_fin l H) as E.
  unfold nancount. destruct (valids l) eqn:V.
  - simpl. simpl in E. exact E.
  - cbn [length]. destruct (xsum (x :: l0)) as [|s|b]; simpl in *; tauto.
Qed.

(* ------------------------------------------------------------------------------------------ *)
(* the regenerated piece integral in closed form                                                *)
(* ------------------------------------------------------------------------------------------ *)
Lemma piece_closed_form (d a b : Q) : ~ d == 0 ->
  gen_piece_integral (XFin d) (XFin (b - a)) (XFin a) =x= XFin (sq_piece d a b).
Proof.
  intro Hd. unfold gen_piece_integral, sq_piece. xunf. cbn -[Qeq_bool Qmult Qplus Qminus Qopp Qdiv Qinv].
  pose proof (Qeq_bool_spec d 0) as H0. destruct (Qeq_bool d 0); [contradiction|].
  pose proof (Qeq_bool_spec (3 # 1) 0) as H3. destruct (Qeq_bool (3 # 1) 0); [exfalso; revert H3; unfold Qeq; simpl; lia|].
  cbn. field. auto.
Qed.

Lemma piece_nan_l d v : gen_piece_integral (XFin d) (xsub v XNaN) XNaN = XNaN.
Proof. destruct v; reflexivity. Qed.
Lemma piece_nan_r d b : gen_piece_integral (XFin d) (xsub XNaN (XFin b)) (XFin b) = XNaN.
Proof. reflexivity. Qed.

Lemma sq_piece_nonneg d a b : 0 <= d -> 0 <= sq_piece d a b.
Proof.
  intro Hd. unfold sq_piece.
  assert (H : 0 <= a * a + a * b + b * b).
  { set (c := a + b * (1 # 2)).
    assert (Hc : 0 <= c * c) by (destruct (Qlt_le_dec c 0); nra).
    assert (Hb : 0 <= b * b) by (destruct (Qlt_le_dec b 0); nra).
    assert (E : a * a + a * b + b * b == c * c + (3 # 4) * (b * b)) by (unfold c; ring).
    rewrite E. lra. }
  unfold Qdiv. apply Qmult_le_0_compat; [apply Qmult_le_0_compat; auto|]. unfold Qle; simpl; lia.
Qed.

(* ------------------------------------------------------------------------------------------ *)
(* crps_cdf_exact on a finite case = the specification sum                                      *)
(* ------------------------------------------------------------------------------------------ *)

(* sum over the pieces selected by `sel` (a test on the left end point) of w * int (linear g)^2 *)
Fixpoint gsum (sel : Q -> bool) (g : pt -> Q) (pts : list pt) : Q :=
  match pts with
  | p0 :: ((p1 :: _) as tl) =>
      (if sel (tq p0) then wq p0 * sq_piece (tq p1 - tq p0) (g p0) (g p1) else 0) + gsum sel g tl
  | _ => 0
  end.

Lemma gsum_step sel g p0 p1 tl :
  gsum sel g (p0 :: p1 :: tl) = (if sel (tq p0) then wq p0 * sq_piece (tq p1 - tq p0) (g p0) (g p1) else 0) + gsum sel g (p1 :: tl).
Proof. reflexivity. Qed.

(* a point mask whose conjunction over each piece is `sel` of the left end point *)
Inductive okmask (sel : Q -> bool) : list Q -> list bool -> Prop :=
| okm_nil : okmask sel [] []
| okm_one t m : okmask sel [t] [m]
| okm_cons t0 m0 t1 m1 ts ms : t0 < t1 -> m0 && m1 = sel t0 -> okmask sel (t1 :: ts) (m1 :: ms) ->
    okmask sel (t0 :: t1 :: ts) (m0 :: m1 :: ms).

Global Instance qfin_Proper : Proper (xeq ==> Qeq) qfin.
Proof. intros [|x|s] [|y|t]; simpl; try tauto; intros; reflexivity. Qed.

Lemma pieces_step t0 v0 t1 v1 l :
  pieces ((t0, v0) :: (t1, v1) :: l) = gen_piece_integral (XFin (t1 - t0)) (xsub v1 v0) v0 :: pieces ((t1, v1) :: l).
Proof. reflexivity. Qed.

Lemma xmul2_cons a L b W : xmul2 (a :: L) (b :: W) = xmul a b :: xmul2 L W.
Proof. reflexivity. Qed.

Lemma masked_sum sel (g : pt -> Q) : forall (pts : list pt) (ms : list bool),
  okmask sel (map tq pts) ms ->
  let l := xmul2 (pieces (combine (map tq pts) (where_list ms (map (fun p => XFin (g p)) pts)))) (fins (map wq pts)) in
  Forall fin_or_nan l /\ qsum_fin l == gsum sel g pts.
Proof.
  induction pts as [|p0 tl IH]; intros ms H.
  - simpl. split; [constructor | reflexivity].
  - destruct tl as [|p1 tl].
    + inversion H; subst. simpl. split; [constructor | reflexivity].
    + inversion H as [| |t0 m0 t1 m1 ts ms' Hlt Hm Hrest]; subst.
      specialize (IH (m1 :: ms') Hrest). cbv zeta in IH. destruct IH as [IHf IHs].
      cbv zeta.
      change (map tq (p0 :: p1 :: tl)) with (tq p0 :: map tq (p1 :: tl)).
      change (map tq (p1 :: tl)) with (tq p1 :: map tq tl) in *.
      cbn [map where_list combine fst snd] in *.
      rewrite pieces_step.
      cbn [fins map] in *. rewrite xmul2_cons.
      set (pc := gen_piece_integral _ _ _).
      assert (Hd : ~ tq p1 - tq p0 == 0) by lra.
      assert (Hpc : xmul pc (XFin (wq p0)) =x=
                    (if sel (tq p0) then XFin (wq p0 * sq_piece (tq p1 - tq p0) (g p0) (g p1)) else XNaN)).
      { rewrite <- Hm. unfold pc. destruct m0, m1; cbn [andb xwhere].
        - change (xsub (XFin (g p1)) (XFin (g p0))) with (XFin (g p1 - g p0)).
          rewrite (piece_closed_form _ _ _ Hd). simpl. ring.
        - reflexivity.
        - rewrite piece_nan_l. reflexivity.
        - rewrite piece_nan_l. reflexivity. }
      split.
      * constructor; auto. destruct (xmul pc (XFin (wq p0))), (sel (tq p0)); simpl in *; auto.
      * rewrite gsum_step. cbn [qsum_fin]. rewrite IHs. rewrite Hpc. destruct (sel (tq p0)); simpl; lra.
Qed.

(* the two observation masks of crps_cdf_exact, as functions of the thresholds *)
Fixpoint hp (y : Q) (prevb : bool) (ts : list Q) : list bool :=
  match ts with [] => [] | t :: r => (Qltb t y || prevb) :: hp y (Qltb t y) r end.

Lemma obs_is_zero y t : xeqv (obs_cdf_at (XFin y) t) X0 = Qltb t y.
Proof. unfold obs_cdf_at, Qltb. simpl. destruct (Qle_bool y t); reflexivity. Qed.
Lemma obs_is_one y t : xeqv (obs_cdf_at (XFin y) t) X1 = Qle_bool y t.
Proof. unfold obs_cdf_at. simpl. destruct (Qle_bool y t); reflexivity. Qed.

Lemma obs_zero_mask y ts : forall prev,
  here_or_prev (fun v => xeqv v X0) prev (observed_cdf_line (XFin y) ts) = hp y (xeqv prev X0) ts.
Proof.
  induction ts as [|t r IH]; intro prev; [reflexivity|].
  unfold observed_cdf_line in *. cbn [map here_or_prev hp].
  rewrite IH, obs_is_zero. reflexivity.
Qed.
Lemma obs_one_mask y ts : map (fun v => xeqv v X1) (observed_cdf_line (XFin y) ts) = map (Qle_bool y) ts.
Proof. unfold observed_cdf_line. rewrite map_map. apply map_ext. intro t. apply obs_is_one. Qed.
Lemma obs_line_no_nan y ts : has_nan (observed_cdf_line (XFin y) ts) = false.
Proof. induction ts as [|t r IH]; [reflexivity|]. unfold observed_cdf_line, has_nan in *. cbn [map existsb].
  rewrite IH. unfold obs_cdf_at. simpl. destruct (Qle_bool y t); reflexivity. Qed.

Lemma increasing_cons t0 t1 ts : increasing (t0 :: t1 :: ts) = true -> t0 < t1 /\ increasing (t1 :: ts) = true.
Proof. simpl. intro H. apply andb_prop in H. destruct H as [H1 H2]. split; auto.
  pose proof (Qltb_spec t0 t1) as S. rewrite H1 in S. exact S. Qed.

Lemma okmask_under y : forall ts prevb, increasing ts = true -> okmask (fun t => Qltb t y) ts (hp y prevb ts).
Proof.
  induction ts as [|t0 r IH]; intros prevb H; simpl. constructor.
  destruct r as [|t1 r]. constructor.
  apply increasing_cons in H. destruct H as [Hlt Hr].
  change (hp y (Qltb t0 y) (t1 :: r)) with ((Qltb t1 y || Qltb t0 y) :: hp y (Qltb t1 y) r).
  constructor; [exact Hlt| |apply (IH (Qltb t0 y) Hr)].
  pose proof (Qltb_spec t0 y) as A. pose proof (Qltb_spec t1 y) as B.
  destruct (Qltb t0 y), (Qltb t1 y), prevb; simpl; auto; lra.
Qed.
Lemma okmask_over y : forall ts, increasing ts = true -> okmask (fun t => negb (Qltb t y)) ts (map (Qle_bool y) ts).
Proof.
  induction ts as [|t0 r IH]; intros H; simpl. constructor.
  destruct r as [|t1 r]. constructor.
  apply increasing_cons in H. destruct H as [Hlt Hr].
  change (map (Qle_bool y) (t1 :: r)) with (Qle_bool y t1 :: map (Qle_bool y) r).
  constructor; [exact Hlt| |apply (IH Hr)].
  unfold Qltb. rewrite negb_involutive.
  pose proof (Qle_bool_spec y t0) as A. pose proof (Qle_bool_spec y t1) as B.
  destruct (Qle_bool y t0), (Qle_bool y t1); simpl; auto; lra.
Qed.

Lemma spec_exact_gsum y : forall pts,
  fst (spec_exact pts y) == gsum (fun t => Qltb t y) fq pts /\
  snd (spec_exact pts y) == gsum (fun t => negb (Qltb t y)) (fun p => fq p - 1) pts.
Proof.
  induction pts as [|p0 tl IH]. simpl; split; reflexivity.
  destruct tl as [|p1 tl]. destruct p0 as [[t0 f0] w0]; simpl; split; reflexivity.
  destruct p0 as [[t0 f0] w0], p1 as [[t1 f1] w1].
  change (spec_exact ((t0, f0, w0) :: (t1, f1, w1) :: tl) y) with
    (let '(u, o) := spec_exact ((t1, f1, w1) :: tl) y in
     if Qltb t0 y then (u + w0 * sq_piece (t1 - t0) f0 f1, o) else (u, o + w0 * sq_piece (t1 - t0) (f0 - 1) (f1 - 1))).
  destruct (spec_exact ((t1, f1, w1) :: tl) y) as [u o]. cbn [fst snd] in IH. destruct IH as [IHu IHo].
  rewrite !gsum_step. cbn [tq fq wq fst snd]. destruct (Qltb t0 y); cbn [fst snd negb]; split; unfold pt in *; rewrite ?IHu, ?IHo; ring.
Qed.

Theorem exact_line_eq_spec (pts : list pt) (y : Q) : increasing (map tq pts) = true ->
  let r := crps_exact_line (map tq pts) (fins (map fq pts)) (observed_cdf_line (XFin y) (map tq pts)) (fins (map wq pts)) in
  let s := spec_exact pts y in
  fst (fst r) =x= XFin (snd s + fst s) /\ snd (fst r) =x= XFin (fst s) /\ snd r =x= XFin (snd s).
Proof.
  intro Hinc. cbv zeta. unfold crps_exact_line.
  rewrite !has_nan_fins, obs_line_no_nan. cbn [negb andb xwhere].
  rewrite (obs_zero_mask y (map tq pts) XNaN), obs_one_mask. cbn [xeqv].
  unfold ispl.
  assert (Eo : map (fun v => xsub v X1) (fins (map fq pts)) = map (fun p => XFin (fq p - 1)) pts).
  { unfold fins. rewrite !map_map. reflexivity. }
  assert (Eu : fins (map fq pts) = map (fun p => XFin (fq p)) pts).
  { unfold fins. rewrite map_map. reflexivity. }
  rewrite Eo. rewrite Eu.
  destruct (masked_sum _ (fun p => fq p - 1) pts _ (okmask_over y _ Hinc)) as [Fo So].
  destruct (masked_sum _ fq pts _ (okmask_under y _ false Hinc)) as [Fu Su].
  cbv zeta in *.
  pose proof (sum_min1_fin _ Fo) as Ho. pose proof (sum_min1_fin _ Fu) as Hu.
  destruct (spec_exact_gsum y pts) as [Gu Go].
  cbn [fst snd].
  assert (Ho' : (if xisnan (sum_min1 (xmul2 (pieces (combine (map tq pts) (where_list (map (Qle_bool y) (map tq pts)) (map (fun p => XFin (fq p - 1)) pts)))) (fins (map wq pts))))
                 then X0 else sum_min1 (xmul2 (pieces (combine (map tq pts) (where_list (map (Qle_bool y) (map tq pts)) (map (fun p => XFin (fq p - 1)) pts)))) (fins (map wq pts))))
                =x= XFin (snd (spec_exact pts y))).
  { rewrite Ho. simpl. rewrite So, Go. reflexivity. }
  assert (Hu' : (if xisnan (sum_min1 (xmul2 (pieces (combine (map tq pts) (where_list (hp y false (map tq pts)) (map (fun p => XFin (fq p)) pts)))) (fins (map wq pts))))
                 then X0 else sum_min1 (xmul2 (pieces (combine (map tq pts) (where_list (hp y false (map tq pts)) (map (fun p => XFin (fq p)) pts)))) (fins (map wq pts))))
                =x= XFin (fst (spec_exact pts y))).
  { rewrite Hu. simpl. rewrite Su, Gu. reflexivity. }
  split; [|split]; auto.
  rewrite Ho', Hu'. simpl. reflexivity.
Qed.

(* ------------------------------------------------------------------------------------------ *)
(* components: non-negative, add up                                                             *)
(* ------------------------------------------------------------------------------------------ *)
Lemma gsum_nonneg sel g : forall pts, increasing (map tq pts) = true -> (forall p, In p pts -> 0 <= wq p) -> 0 <= gsum sel g pts.
Proof.
  induction pts as [|p0 tl IH]; intros Hi Hw. simpl; lra.
  destruct tl as [|p1 tl]. simpl; lra.
  rewrite gsum_step. change (map tq (p0 :: p1 :: tl)) with (tq p0 :: tq p1 :: map tq tl) in Hi.
  apply increasing_cons in Hi. destruct Hi as [Hlt Hi].
  assert (0 <= gsum sel g (p1 :: tl)) by (apply IH; auto; intros; apply Hw; right; auto).
  assert (0 <= wq p0) by (apply Hw; left; auto).
  assert (0 <= sq_piece (tq p1 - tq p0) (g p0) (g p1)) by (apply sq_piece_nonneg; lra).
  destruct (sel (tq p0)); [|lra].
  assert (0 <= wq p0 * sq_piece (tq p1 - tq p0) (g p0) (g p1)) by (apply Qmult_le_0_compat; auto). lra.
Qed.

Theorem exact_components (pts : list pt) (y : Q) :
  increasing (map tq pts) = true -> (forall p, In p pts -> 0 <= wq p) ->
  exists t u o : Q,
    (let r := crps_exact_line (map tq pts) (fins (map fq pts)) (observed_cdf_line (XFin y) (map tq pts)) (fins (map wq pts)) in
     fst (fst r) =x= XFin t /\ snd (fst r) =x= XFin u /\ snd r =x= XFin o)
    /\ t == u + o /\ 0 <= u /\ 0 <= o.
Proof.
  intros Hi Hw. destruct (exact_line_eq_spec pts y Hi) as [A [B C]].
  destruct (spec_exact_gsum y pts) as [Gu Go].
  exists (snd (spec_exact pts y) + fst (spec_exact pts y)), (fst (spec_exact pts y)), (snd (spec_exact pts y)).
  split; [cbv zeta; auto|]. split; [ring|].
  split; [rewrite Gu | rewrite Go]; apply gsum_nonneg; auto.
Qed.

(* ------------------------------------------------------------------------------------------ *)
(* weights act linearly: complementary weights add up to the unweighted score on the same grid  *)
(* ------------------------------------------------------------------------------------------ *)
Definition pt2 := (Q * Q * Q * Q)%type.     (* (threshold, ordinate, weight1, weight2) *)
Definition p_w1 (q : pt2) : pt := (fst (fst (fst q)), snd (fst (fst q)), snd (fst q)).
Definition p_w2 (q : pt2) : pt := (fst (fst (fst q)), snd (fst (fst q)), snd q).
Definition p_w (h : pt2 -> Q) (q : pt2) : pt := (fst (fst (fst q)), snd (fst (fst q)), h q).

Lemma gsum_weights_add sel (g : pt -> Q) (h : pt2 -> Q) : forall qs,
  (forall q, In q qs -> snd (fst q) + snd q == h q) ->
  (forall q, g (p_w h q) = g (p_w1 q) /\ g (p_w h q) = g (p_w2 q)) ->
  gsum sel g (map (p_w h) qs) == gsum sel g (map p_w1 qs) + gsum sel g (map p_w2 qs).
Proof.
  intros qs Hh Hg. induction qs as [|q0 tl IH]. simpl; lra.
  destruct tl as [|q1 tl]. simpl; lra.
  cbn [map]. rewrite !gsum_step. cbn [map] in IH. rewrite IH by (intros; apply Hh; right; auto).
  destruct (Hg q0) as [E1 E2]. destruct (Hg q1) as [E3 E4].
  rewrite <- E1, <- E2, <- E3, <- E4.
  assert (Hq : snd (fst q0) + snd q0 == h q0) by (apply Hh; left; auto).
  unfold p_w, p_w1, p_w2, tq, wq. cbn [fst snd].
  destruct (sel (fst (fst (fst q0)))); [|ring].
  assert (E : forall S, h q0 * S == snd (fst q0) * S + snd q0 * S) by (intro S; rewrite <- Hq; ring).
  rewrite E. ring.
Qed.

Theorem spec_weights_partition (qs : list pt2) (y : Q) :
  (forall q, In q qs -> snd (fst q) + snd q == 1) ->
  let s1 := spec_exact (map p_w1 qs) y in let s2 := spec_exact (map p_w2 qs) y in
  let s := spec_exact (map (p_w (fun _ => 1)) qs) y in
  fst s == fst s1 + fst s2 /\ snd s == snd s1 + snd s2.
Proof.
  intro H. cbv zeta.
  destruct (spec_exact_gsum y (map p_w1 qs)) as [A1 B1].
  destruct (spec_exact_gsum y (map p_w2 qs)) as [A2 B2].
  destruct (spec_exact_gsum y (map (p_w (fun _ => 1)) qs)) as [A B].
  rewrite A, B, A1, B1, A2, B2. split; apply gsum_weights_add; auto; intros; split; reflexivity.
Qed.

(* the same at the level of the code-faithful exact method *)
Theorem exact_weights_partition (qs : list pt2) (y : Q) :
  increasing (map (fun q => fst (fst (fst q))) qs) = true ->
  (forall q, In q qs -> snd (fst q) + snd q == 1) ->
  let ts := map (fun q => fst (fst (fst q))) qs in
  let f := fins (map (fun q => snd (fst (fst q))) qs) in
  let o := observed_cdf_line (XFin y) ts in
  let r1 := crps_exact_line ts f o (fins (map (fun q => snd (fst q)) qs)) in
  let r2 := crps_exact_line ts f o (fins (map (fun q => snd q) qs)) in
  let r := crps_exact_line ts f o (map (fun _ => X1) ts) in
  xadd (fst (fst r1)) (fst (fst r2)) =x= fst (fst r) /\
  xadd (snd (fst r1)) (snd (fst r2)) =x= snd (fst r) /\
  xadd (snd r1) (snd r2) =x= snd r.
Proof.
  intros Hi H. cbv zeta.
  assert (T1 : map (fun q => fst (fst (fst q))) qs = map tq (map p_w1 qs)) by (rewrite map_map; reflexivity).
  assert (T2 : map (fun q => fst (fst (fst q))) qs = map tq (map p_w2 qs)) by (rewrite map_map; reflexivity).
  assert (T0 : map (fun q => fst (fst (fst q))) qs = map tq (map (p_w (fun _ => 1)) qs)) by (rewrite map_map; reflexivity).
  assert (F1 : map (fun q => snd (fst (fst q))) qs = map fq (map p_w1 qs)) by (rewrite map_map; reflexivity).
  assert (F2 : map (fun q => snd (fst (fst q))) qs = map fq (map p_w2 qs)) by (rewrite map_map; reflexivity).
  assert (F0 : map (fun q => snd (fst (fst q))) qs = map fq (map (p_w (fun _ => 1)) qs)) by (rewrite map_map; reflexivity).
  assert (W1 : map (fun q => snd (fst q)) qs = map wq (map p_w1 qs)) by (rewrite map_map; reflexivity).
  assert (W2 : map (fun q : pt2 => snd q) qs = map wq (map p_w2 qs)) by (rewrite map_map; reflexivity).
  assert (W0 : map (fun _ => X1) (map (fun q => fst (fst (fst q))) qs) = fins (map wq (map (p_w (fun _ => 1)) qs))).
  { unfold fins. rewrite !map_map. reflexivity. }
  pose proof (exact_line_eq_spec (map p_w1 qs) y) as E1. rewrite <- T1, <- F1, <- W1 in E1.
  pose proof (exact_line_eq_spec (map p_w2 qs) y) as E2. rewrite <- T2, <- F2, <- W2 in E2.
  pose proof (exact_line_eq_spec (map (p_w (fun _ => 1)) qs) y) as E0. rewrite <- T0, <- F0, <- W0 in E0.
  cbv zeta in *. destruct (E1 Hi) as [A1 [B1 C1]]. destruct (E2 Hi) as [A2 [B2 C2]]. destruct (E0 Hi) as [A0 [B0 C0]].
  destruct (spec_weights_partition qs y H) as [Pu Po].
  rewrite A1, A2, A0, B1, B2, B0, C1, C2, C0. simpl. rewrite Pu, Po. repeat split; ring.
Qed.

(* ------------------------------------------------------------------------------------------ *)
(* trapz                                                                                        *)
(* ------------------------------------------------------------------------------------------ *)
Lemma tsum_step {A} (t g : A -> Q) p0 p1 tl :
  tsum t g (p0 :: p1 :: tl) = (t p1 - t p0) * ((1 # 2) * (g p1 + g p0)) + tsum t g (p1 :: tl).
Proof. reflexivity. Qed.
Lemma trapz_step t0 g0 t1 g1 l :
  trapz ((t0, g0) :: (t1, g1) :: l) = xadd (xmul (XFin (t1 - t0)) (xmul (XFin (1 # 2)) (xadd g1 g0))) (trapz ((t1, g1) :: l)).
Proof. reflexivity. Qed.

Lemma trapz_fin {A} (t g : A -> Q) : forall pts, trapz (map (fun p => (t p, XFin (g p))) pts) =x= XFin (tsum t g pts).
Proof.
  induction pts as [|p0 tl IH]. reflexivity.
  destruct tl as [|p1 tl]. reflexivity.
  cbn [map] in *. rewrite trapz_step, tsum_step, IH. simpl. ring.
Qed.

Lemma tsum_ext {A} (t g h : A -> Q) : forall pts, (forall p, In p pts -> g p == h p) -> tsum t g pts == tsum t h pts.
Proof.
  induction pts as [|p0 tl IH]; intro H. reflexivity.
  destruct tl as [|p1 tl]. reflexivity.
  rewrite !tsum_step. rewrite IH by (intros; apply H; right; auto).
  rewrite (H p0), (H p1) by (simpl; auto). reflexivity.
Qed.
Lemma tsum_plus {A} (t g h : A -> Q) : forall pts, tsum t (fun p => g p + h p) pts == tsum t g pts + tsum t h pts.
Proof.
  induction pts as [|p0 tl IH]. simpl; lra.
  destruct tl as [|p1 tl]. simpl; lra.
  rewrite !tsum_step, IH. ring.
Qed.
Lemma tsum_nonneg {A} (t g : A -> Q) : forall pts, increasing (map t pts) = true -> (forall p, In p pts -> 0 <= g p) -> 0 <= tsum t g pts.
Proof.
  induction pts as [|p0 tl IH]; intros Hi Hg. simpl; lra.
  destruct tl as [|p1 tl]. simpl; lra.
  rewrite tsum_step. change (map t (p0 :: p1 :: tl)) with (t p0 :: t p1 :: map t tl) in Hi.
  apply increasing_cons in Hi. destruct Hi as [Hlt Hi].
  assert (0 <= tsum t g (p1 :: tl)) by (apply IH; auto; intros; apply Hg; right; auto).
  assert (0 <= g p0) by (apply Hg; simpl; auto). assert (0 <= g p1) by (apply Hg; simpl; auto).
  assert (0 <= (t p1 - t p0) * ((1 # 2) * (g p1 + g p0))) by (apply Qmult_le_0_compat; lra). lra.
Qed.

Lemma obs_cdf_fin y t : obs_cdf_at (XFin y) t = XFin (hq y t).
Proof. unfold obs_cdf_at, hq. simpl. destruct (Qle_bool y t); reflexivity. Qed.


Theorem trapz_line_fin (pts : list pt) (y : Q) :
  let r := crps_trapz_line (map tq pts) (fins (map fq pts)) (observed_cdf_line (XFin y) (map tq pts)) (fins (map wq pts)) in
  fst (fst r) =x= XFin (tsum tq (g_total y) pts) /\
  snd (fst r) =x= XFin (tsum tq (g_under y) pts) /\
  snd r =x= XFin (tsum tq (g_over y) pts).
Proof.
  cbv zeta. unfold crps_trapz_line. rewrite !has_nan_fins, obs_line_no_nan. cbn [negb andb xwhere fst snd].
  assert (ET : combine (map tq pts) (map3 (fun f o w => xmul w (xpow2 (xsub f o))) (fins (map fq pts)) (observed_cdf_line (XFin y) (map tq pts)) (fins (map wq pts)))
               = map (fun p => (tq p, XFin (g_total y p))) pts).
  { unfold map3, fins, observed_cdf_line. rewrite !map_map, !combine_map, map_map, combine_map. apply map_ext.
    intro p. cbn [fst snd]. rewrite obs_cdf_fin. reflexivity. }
  assert (EO : combine (map tq pts) (map3 (fun f o w => xmul (xmul o w) (xpow2 (xsub f o))) (fins (map fq pts)) (observed_cdf_line (XFin y) (map tq pts)) (fins (map wq pts)))
               = map (fun p => (tq p, XFin (g_over y p))) pts).
  { unfold map3, fins, observed_cdf_line. rewrite !map_map, !combine_map, map_map, combine_map. apply map_ext.
    intro p. cbn [fst snd]. rewrite obs_cdf_fin. reflexivity. }
  rewrite ET, EO. rewrite !trapz_fin.
  split; [reflexivity|]. split; [|reflexivity].
  simpl.
  assert (E : tsum tq (g_total y) pts == tsum tq (fun p => g_under y p + g_over y p) pts).
  { apply tsum_ext. intros p _. unfold g_total, g_under, g_over. ring. }
  rewrite E, tsum_plus. ring.
Qed.

Lemma hq_01 y t : hq y t == 0 \/ hq y t == 1.
Proof. unfold hq. destruct (Qle_bool y t); [right|left]; reflexivity. Qed.
Lemma sq_nonneg (x : Q) : 0 <= x * x.
Proof. destruct (Qlt_le_dec x 0); nra. Qed.

Theorem trapz_components (pts : list pt) (y : Q) :
  increasing (map tq pts) = true -> (forall p, In p pts -> 0 <= wq p) ->
  exists t u o : Q,
    (let r := crps_trapz_line (map tq pts) (fins (map fq pts)) (observed_cdf_line (XFin y) (map tq pts)) (fins (map wq pts)) in
     fst (fst r) =x= XFin t /\ snd (fst r) =x= XFin u /\ snd r =x= XFin o)
    /\ t == u + o /\ 0 <= u /\ 0 <= o.
Proof.
  intros Hi Hw. exists (tsum tq (g_total y) pts), (tsum tq (g_under y) pts), (tsum tq (g_over y) pts).
  split; [apply trapz_line_fin|]. split.
  - rewrite <- tsum_plus. apply tsum_ext. intros p _. unfold g_total, g_under, g_over. ring.
  - split; apply tsum_nonneg; auto; intros p Hp; pose proof (Hw p Hp);
      unfold g_under, g_over; destruct (hq_01 y (tq p)) as [E|E]; rewrite E;
      (apply Qmult_le_0_compat; [lra | apply sq_nonneg]).
Qed.

(* trapz = trapezoid rule applied to the per-threshold Brier decomposition (no weight) *)
Definition brq (y t f : Q) : Q * Q * Q :=
  if Qle_bool y t then ((f - 1) * (f - 1) + 0, 0, (f - 1) * (f - 1)) else (0 + (f - 0) * (f - 0), (f - 0) * (f - 0), 0).
Lemma brier_at_fin y t f :
  brier_at (XFin f) (obs_cdf_at (XFin y) t) =
  (XFin (fst (fst (brq y t f))), XFin (snd (fst (brq y t f))), XFin (snd (brq y t f))).
Proof. unfold brier_at, brq, obs_cdf_at, gen_bscore. simpl. destruct (Qle_bool y t); reflexivity. Qed.

Lemma tsum_map {A B} (m : A -> B) (t g : B -> Q) : forall pts, tsum t g (map m pts) = tsum (fun p => t (m p)) (fun p => g (m p)) pts.
Proof.
  induction pts as [|p0 tl IH]. reflexivity.
  destruct tl as [|p1 tl]. reflexivity.
  cbn [map] in *. rewrite !tsum_step, IH. reflexivity.
Qed.

Definition unit_w (p : Q * Q) : pt := (fst p, snd p, 1).

Theorem trapz_is_trapezoid_of_brier (pts : list (Q * Q)) (y : Q) :
  let ts := map fst pts in
  let f := fins (map snd pts) in
  let o := observed_cdf_line (XFin y) ts in
  let b := brier_line f o in
  let r := crps_trapz_line ts f o (map (fun _ => X1) ts) in
  trapz (combine ts (map (fun x => fst (fst x)) b)) =x= fst (fst r) /\
  trapz (combine ts (map (fun x => snd (fst x)) b)) =x= snd (fst r) /\
  trapz (combine ts (map (fun x => snd x) b)) =x= snd r.
Proof.
  cbv zeta.
  assert (T : map fst pts = map tq (map unit_w pts)) by (rewrite map_map; reflexivity).
  assert (F : map snd pts = map fq (map unit_w pts)) by (rewrite map_map; reflexivity).
  assert (W : map (fun _ => X1) (map fst pts) = fins (map wq (map unit_w pts))) by (unfold fins; rewrite !map_map; reflexivity).
  pose proof (trapz_line_fin (map unit_w pts) y) as L. cbv zeta in L. rewrite <- T, <- F, <- W in L.
  destruct L as [LT [LU LO]]. rewrite LT, LU, LO.
  assert (B : brier_line (fins (map snd pts)) (observed_cdf_line (XFin y) (map fst pts))
              = map (fun p => (XFin (fst (fst (brq y (fst p) (snd p)))), XFin (snd (fst (brq y (fst p) (snd p)))), XFin (snd (brq y (fst p) (snd p))))) pts).
  { unfold brier_line, fins, observed_cdf_line. rewrite !map_map, combine_map, map_map. apply map_ext.
    intro p. cbn [fst snd]. apply brier_at_fin. }
  rewrite B, !map_map. cbn [fst snd]. rewrite !combine_map.
  rewrite (trapz_fin fst (fun p => fst (fst (brq y (fst p) (snd p)))) pts).
  rewrite (trapz_fin fst (fun p => snd (fst (brq y (fst p) (snd p)))) pts).
  rewrite (trapz_fin fst (fun p => snd (brq y (fst p) (snd p))) pts).
  rewrite !tsum_map. simpl.
  repeat split; apply tsum_ext; intros p _; unfold brq, g_total, g_under, g_over, hq, unit_w, tq, fq, wq; cbn [fst snd];
    destruct (Qle_bool y (fst p)); cbn [fst snd]; ring.
Qed.

(* trapz: complementary weights add up (same grid) *)
Theorem trapz_weights_partition (qs : list pt2) (y : Q) :
  (forall q, In q qs -> snd (fst q) + snd q == 1) ->
  let ts := map (fun q => fst (fst (fst q))) qs in
  let f := fins (map (fun q => snd (fst (fst q))) qs) in
  let o := observed_cdf_line (XFin y) ts in
  let r1 := crps_trapz_line ts f o (fins (map (fun q => snd (fst q)) qs)) in
  let r2 := crps_trapz_line ts f o (fins (map (fun q => snd q) qs)) in
  let r := crps_trapz_line ts f o (map (fun _ => X1) ts) in
  xadd (fst (fst r1)) (fst (fst r2)) =x= fst (fst r) /\
  xadd (snd (fst r1)) (snd (fst r2)) =x= snd (fst r) /\
  xadd (snd r1) (snd r2) =x= snd r.
Proof.
  intros H. cbv zeta.
  assert (T1 : map (fun q => fst (fst (fst q))) qs = map tq (map p_w1 qs)) by (rewrite map_map; reflexivity).
  assert (T2 : map (fun q => fst (fst (fst q))) qs = map tq (map p_w2 qs)) by (rewrite map_map; reflexivity).
  assert (T0 : map (fun q => fst (fst (fst q))) qs = map tq (map (p_w (fun _ => 1)) qs)) by (rewrite map_map; reflexivity).
  assert (F1 : map (fun q => snd (fst (fst q))) qs = map fq (map p_w1 qs)) by (rewrite map_map; reflexivity).
  assert (F2 : map (fun q => snd (fst (fst q))) qs = map fq (map p_w2 qs)) by (rewrite map_map; reflexivity).
  assert (F0 : map (fun q => snd (fst (fst q))) qs = map fq (map (p_w (fun _ => 1)) qs)) by (rewrite map_map; reflexivity).
  assert (W1 : map (fun q => snd (fst q)) qs = map wq (map p_w1 qs)) by (rewrite map_map; reflexivity).
  assert (W2 : map (fun q : pt2 => snd q) qs = map wq (map p_w2 qs)) by (rewrite map_map; reflexivity).
  assert (W0 : map (fun _ => X1) (map (fun q => fst (fst (fst q))) qs) = fins (map wq (map (p_w (fun _ => 1)) qs))).
  { unfold fins. rewrite !map_map. reflexivity. }
  pose proof (trapz_line_fin (map p_w1 qs) y) as E1. rewrite <- T1, <- F1, <- W1 in E1.
  pose proof (trapz_line_fin (map p_w2 qs) y) as E2. rewrite <- T2, <- F2, <- W2 in E2.
  pose proof (trapz_line_fin (map (p_w (fun _ => 1)) qs) y) as E0. rewrite <- T0, <- F0, <- W0 in E0.
  cbv zeta in *. destruct E1 as [A1 [B1 C1]]. destruct E2 as [A2 [B2 C2]]. destruct E0 as [A0 [B0 C0]].
  rewrite A1, A2, A0, B1, B2, B0, C1, C2, C0. simpl. rewrite !tsum_map. rewrite <- !tsum_plus.
  repeat split; apply tsum_ext; intros q Hq; pose proof (H q Hq) as E;
    unfold g_total, g_under, g_over, p_w, p_w1, p_w2, tq, fq, wq; cbn [fst snd];
    set (X := (snd (fst (fst q)) - hq y (fst (fst (fst q)))) * (snd (fst (fst q)) - hq y (fst (fst (fst q)))));
    set (hh := hq y (fst (fst (fst q)))).
  - transitivity ((snd (fst q) + snd q) * X); [ring | rewrite E; ring].
  - transitivity ((1 - hh) * (snd (fst q) + snd q) * X); [ring | rewrite E; ring].
  - transitivity (hh * (snd (fst q) + snd q) * X); [ring | rewrite E; ring].
Qed.

(* ------------------------------------------------------------------------------------------ *)
(* NaN: a forecast case with a NaN ordinate is blanked, and no other case notices               *)
(* ------------------------------------------------------------------------------------------ *)
Definition allnan (l : list xv) : Prop := Forall (fun v => v = XNaN) l.
Lemma allnan_blank l : allnan (blank l).
Proof. unfold allnan, blank. apply Forall_forall. intros x Hx. apply in_map_iff in Hx. destruct Hx as [? [? ?]]; auto. Qed.
Lemma lookup_allnan g : forall ts ys, allnan ys -> lookup g ts ys = XNaN.
Proof.
  induction ts as [|t ts IH]; intros ys H; destruct ys as [|v ys]; simpl; auto.
  inversion H; subst. destruct (Qeq_bool g t); auto.
Qed.
Lemma reindex_allnan ts ys grid : allnan ys -> allnan (reindex ts ys grid).
Proof. intro H. unfold reindex, allnan. apply Forall_forall. intros x Hx. apply in_map_iff in Hx.
  destruct Hx as [g [E _]]. subst. apply lookup_allnan; auto. Qed.
Lemma allnan_count l : allnan l -> nancount l = O.
Proof. induction 1; simpl; auto. subst. exact IHForall. Qed.
Lemma fill_allnan m grid l : allnan l -> allnan (fill_line m 2 grid l).
Proof. intro H. unfold fill_line. rewrite (allnan_count _ H). simpl. apply allnan_blank. Qed.
Lemma allnan_has_nan l : l <> [] -> allnan l -> has_nan l = true.
Proof. intros N H. destruct l; [congruence|]. inversion H; subst. reflexivity. Qed.
Lemma map_nonempty {A B} (f : A -> B) l : l <> [] -> map f l <> [].
Proof. destruct l; simpl; congruence. Qed.

Theorem crps_nan_case grid ft wt op (c : fcase) :
  grid <> [] -> o_prop op = true -> has_nan (c_f c) = true ->
  crps_case grid ft wt op c = (XNaN, XNaN, XNaN).
Proof.
  intros Hg Hp Hn. unfold crps_case, reformat_case, prep_f. rewrite Hp. unfold propagate_nan_m. rewrite Hn.
  set (f := fill_line (o_ffm op) 2 grid (reindex ft (blank (c_f c)) grid)).
  assert (Hf : has_nan f = true).
  { unfold f, fill_line. rewrite (allnan_count _ (reindex_allnan ft _ grid (allnan_blank (c_f c)))).
    destruct grid; [congruence | reflexivity]. }
  destruct (o_exact op); unfold crps_exact_line, crps_trapz_line; rewrite Hf; reflexivity.
Qed.

Lemma union_grid_obs_only ft wt cs cs' add : map c_o cs = map c_o cs' -> union_grid ft wt cs add = union_grid ft wt cs' add.
Proof. intro H. unfold union_grid. rewrite H. reflexivity. Qed.

(* the result of a forecast case depends on the other cases only through their observations (the common grid) *)
Theorem nan_own_case_only ft wt add op (cs cs' : list fcase) rs rs' :
  map c_o cs = map c_o cs' ->
  crps_cdf_cases ft wt cs add op = Ok rs -> crps_cdf_cases ft wt cs' add op = Ok rs' ->
  forall i c, nth_error cs i = Some c -> nth_error cs' i = Some c -> nth_error rs i = nth_error rs' i.
Proof.
  intros Ho H1 H2 i c E1 E2. unfold crps_cdf_cases in *.
  destruct (crps_guard ft wt cs op); [discriminate|]. destruct (crps_guard ft wt cs' op); [discriminate|].
  inversion H1; inversion H2; subst. rewrite (union_grid_obs_only ft wt cs cs' add Ho).
  rewrite !nth_error_map, E1, E2. reflexivity.
Qed.

(* the union grid is never empty once the forecast has a threshold *)
Lemma qinsert_nonempty x l : qinsert x l <> [].
Proof. destruct l; simpl; [congruence|]. destruct (Qcompare x q); congruence. Qed.
Lemma qsort_uniq_nonempty l : l <> [] -> qsort_uniq l <> [].
Proof. destruct l; [congruence|]. intros _. simpl. apply qinsert_nonempty. Qed.
Lemma union_grid_nonempty ft wt cs add : ft <> [] -> union_grid ft wt cs add <> [].
Proof. intro H. unfold union_grid. apply qsort_uniq_nonempty. destruct wt as [l|]; [destruct l|]; destruct ft; simpl; congruence. Qed.

Theorem crps_nan_in_cases ft wt add op (cs : list fcase) rs i c :
  o_prop op = true -> crps_cdf_cases ft wt cs add op = Ok rs ->
  nth_error cs i = Some c -> has_nan (c_f c) = true -> nth_error rs i = Some (XNaN, XNaN, XNaN).
Proof.
  intros Hp H E Hn. unfold crps_cdf_cases in H. destruct (crps_guard ft wt cs op) eqn:G; [discriminate|].
  inversion H; subst. rewrite nth_error_map, E. simpl. f_equal. apply crps_nan_case; auto.
  apply union_grid_nonempty. unfold crps_guard in G. destruct ft as [|a l]; [simpl in G; discriminate | congruence].
Qed.

(* ------------------------------------------------------------------------------------------ *)
(* the common threshold grid: increasing, contains every finite observation                    *)
(* ------------------------------------------------------------------------------------------ *)
Lemma increasing_intro h l :
  (match l with [] => True | a :: _ => h < a end) -> increasing l = true -> increasing (h :: l) = true.
Proof. destruct l as [|a l]; intros H Hi; simpl; auto. rewrite (Qltb_true h a H). exact Hi. Qed.

Lemma qinsert_increasing x : forall l, increasing l = true -> increasing (qinsert x l) = true.
Proof.
  induction l as [|h t IH]; intro Hi. reflexivity.
  cbn [qinsert]. pose proof (Qcompare_spec x h) as C. destruct (Qcompare x h); inversion C; subst.
  - exact Hi.
  - apply increasing_intro; auto.
  - assert (Ht : increasing t = true) by (destruct t; [reflexivity | apply increasing_cons in Hi; tauto]).
    apply increasing_intro; [|apply IH; exact Ht].
    destruct t as [|a t]; simpl. exact H.
    apply increasing_cons in Hi. destruct Hi as [Hha _].
    destruct (Qcompare x a); auto.
Qed.
Lemma qsort_uniq_increasing l : increasing (qsort_uniq l) = true.
Proof. induction l; simpl. reflexivity. apply qinsert_increasing; auto. Qed.

Lemma qmem_cons x h t : qmem x (h :: t) = Qeq_bool x h || qmem x t.
Proof. reflexivity. Qed.
Lemma qmem_qinsert_same x : forall l, qmem x (qinsert x l) = true.
Proof.
  induction l as [|h t IH]. simpl. rewrite (proj2 (Qeq_bool_iff x x) (Qeq_refl x)). reflexivity.
  cbn [qinsert]. pose proof (Qcompare_spec x h) as C. destruct (Qcompare x h); inversion C; subst; rewrite !qmem_cons.
  - rewrite (proj2 (Qeq_bool_iff x h) H). reflexivity.
  - rewrite (proj2 (Qeq_bool_iff x x) (Qeq_refl x)). reflexivity.
  - rewrite IH. apply orb_true_r.
Qed.
Lemma qmem_qinsert_other z x : forall l, qmem z l = true -> qmem z (qinsert x l) = true.
Proof.
  induction l as [|h t IH]; intro H. discriminate.
  cbn [qinsert]. rewrite qmem_cons in H. destruct (Qcompare x h); rewrite !qmem_cons.
  - exact H.
  - rewrite H. apply orb_true_r.
  - apply orb_prop in H. destruct H as [H|H]; [rewrite H; reflexivity | rewrite (IH H); apply orb_true_r].
Qed.
Lemma qmem_qsort_uniq x : forall l, In x l -> qmem x (qsort_uniq l) = true.
Proof.
  induction l as [|h t IH]; intro H. destruct H.
  simpl. destruct H as [H|H]. subst. apply qmem_qinsert_same. apply qmem_qinsert_other, IH, H.
Qed.

Theorem union_grid_increasing ft wt cs add : increasing (union_grid ft wt cs add) = true.
Proof. apply qsort_uniq_increasing. Qed.
Theorem union_grid_contains_obs ft wt cs add c y : In c cs -> c_o c = XFin y -> qmem y (union_grid ft wt cs add) = true.
Proof.
  intros Hc Hy. apply qmem_qsort_uniq. apply in_or_app. right. apply in_or_app. right. apply in_or_app. left.
  unfold fin_of. apply in_flat_map. exists (XFin y). split; [|left; reflexivity].
  rewrite <- Hy. apply in_map. exact Hc.
Qed.
Theorem union_grid_contains_fcst ft wt cs add t : In t ft -> qmem t (union_grid ft wt cs add) = true.
Proof. intro H. apply qmem_qsort_uniq. apply in_or_app. right. apply in_or_app. left. exact H. Qed.

(* ------------------------------------------------------------------------------------------ *)
(* history: the algorithm used before the repair 9901e09 (closure of the points where w == 1)   *)
(* ------------------------------------------------------------------------------------------ *)
Definition crps_exact_line_closure (ts : list Q) (f o w : list xv) : xv * xv * xv :=
  let ok := negb (has_nan f) && negb (has_nan o) && negb (has_nan w) in
  let w_one := here_or_prev (fun v => xeqv v X1) XNaN w in
  let obs_one := map (fun v => xeqv v X1) o in
  let obs_zero := here_or_prev (fun v => xeqv v X0) XNaN o in
  let fin v := xwhere ok (if xisnan v then X0 else v) in
  let over := fin (ispl ts (where_list w_one (where_list obs_one (map (fun v => xsub v X1) f))) None) in
  let under := fin (ispl ts (where_list w_one (where_list obs_zero f)) None) in
  (xadd over under, under, over).

Definition q4 (a b c d : Q) : list Q := [a; b; c; d].
Lemma closure_refuted_half :
  let ts := q4 0 1 2 3 in let f := fins (q4 0 (1#4) (1#2) 1) in let w := fins (q4 (1#2) (1#2) (1#2) (1#2)) in
  let o := observed_cdf_line (XFin (3#2)) (qsort_uniq ((3#2) :: ts)) in
  let grid := qsort_uniq ((3#2) :: ts) in
  let f' := fill_line FLinear 2 grid (reindex ts (fins (q4 0 (1#4) (1#2) 1)) grid) in
  let w' := fill_line FForward 2 grid (reindex ts w grid) in
  fst (fst (crps_exact_line_closure grid f' o w')) =x= XFin 0 /\
  fst (fst (crps_exact_line grid f' o w')) =x= XFin (5 # 32).
Proof. vm_compute. split; reflexivity. Qed.
Lemma closure_refuted_isolated_zero :
  let ts := q4 0 1 2 3 in let f := fins (q4 (1#2) (1#2) (1#2) (1#2)) in let w := fins (q4 1 0 1 1) in
  let o := observed_cdf_line (XFin 0) ts in
  fst (fst (crps_exact_line_closure ts f o w)) =x= XFin (3 # 4) /\
  fst (fst (crps_exact_line ts f o w)) =x= XFin (1 # 2).
Proof. vm_compute. split; reflexivity. Qed.

(* inserting thresholds that are already present changes nothing: the grid does not depend on how often an
   observation occurs *)
Lemma increasing_tail h t : increasing (h :: t) = true -> increasing t = true.
Proof. destruct t; [reflexivity|]. intro H. apply increasing_cons in H. tauto. Qed.
Lemma increasing_lt_all : forall t h x, increasing (h :: t) = true -> qmem x t = true -> h < x.
Proof.
  induction t as [|a t IH]; intros h x Hi Hm. discriminate.
  apply increasing_cons in Hi. destruct Hi as [Hlt Hi]. rewrite qmem_cons in Hm. apply orb_prop in Hm. destruct Hm as [Hm|Hm].
  - apply Qeq_bool_iff in Hm. lra.
  - specialize (IH a x Hi Hm). lra.
Qed.
Lemma qinsert_mem_id x : forall T, increasing T = true -> qmem x T = true -> qinsert x T = T.
Proof.
  induction T as [|h t IH]; intros Hi Hm. discriminate.
  cbn [qinsert]. pose proof (Qcompare_spec x h) as C. destruct (Qcompare x h); inversion C; subst; auto.
  - exfalso. rewrite qmem_cons in Hm. apply orb_prop in Hm. destruct Hm as [Hm|Hm].
    + apply Qeq_bool_iff in Hm. lra.
    + pose proof (increasing_lt_all t h x Hi Hm). lra.
  - f_equal. apply IH. apply (increasing_tail h t Hi).
    rewrite qmem_cons in Hm. apply orb_prop in Hm. destruct Hm as [Hm|Hm]; auto. apply Qeq_bool_iff in Hm. lra.
Qed.
Lemma fold_qinsert_increasing S : forall l, increasing S = true -> increasing (fold_right qinsert S l) = true.
Proof. induction l; intro H; simpl; auto. apply qinsert_increasing; auto. Qed.
Lemma qmem_fold_qinsert S x : forall l, In x l -> qmem x (fold_right qinsert S l) = true.
Proof.
  induction l as [|h t IH]; intro H. destruct H.
  simpl. destruct H as [H|H]. subst. apply qmem_qinsert_same. apply qmem_qinsert_other, IH, H.
Qed.
Lemma qmem_fold_qinsert_base S x : forall l, qmem x S = true -> qmem x (fold_right qinsert S l) = true.
Proof. induction l; intro H; simpl; auto. apply qmem_qinsert_other; auto. Qed.
Lemma fold_qinsert_absorb T : forall l, increasing T = true -> (forall x, In x l -> qmem x T = true) -> fold_right qinsert T l = T.
Proof.
  induction l as [|h t IH]; intros Hi Hm. reflexivity.
  simpl. rewrite IH; auto. apply qinsert_mem_id; auto. apply Hm; left; auto. intros; apply Hm; right; auto.
Qed.
Lemma fin_of_app' a b : fin_of (a ++ b) = fin_of a ++ fin_of b.
Proof. unfold fin_of. apply flat_map_app. Qed.

Theorem union_grid_triple ft wt (cs : list fcase) add : union_grid ft wt (cs ++ cs ++ cs) add = union_grid ft wt cs add.
Proof.
  unfold union_grid, qsort_uniq. rewrite !map_app, !fin_of_app'.
  set (W := match wt with Some l => l | None => [] end). set (fo := fin_of (map c_o cs)). set (A := fin_of add).
  rewrite !fold_right_app. f_equal. f_equal.
  set (S := fold_right qinsert [] A). set (S1 := fold_right qinsert S fo).
  assert (HS : increasing S = true) by (apply fold_qinsert_increasing; reflexivity).
  assert (H1 : increasing S1 = true) by (apply fold_qinsert_increasing; exact HS).
  assert (M : forall x, In x fo -> qmem x S1 = true) by (intros; apply qmem_fold_qinsert; auto).
  rewrite (fold_qinsert_absorb S1 fo H1 M). apply (fold_qinsert_absorb S1 fo H1 M).
Qed.
