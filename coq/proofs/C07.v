(* proofs/C07.v -- lemmas behind the C07 theorems (Q level). *)
From V Require Import lib.Tree gen.Gen_C07_kern model.Cdf model.C07.
Open Scope Q_scope.

Lemma exact_total_is_sum ts f o w :
  let '(t, u, ov) := crps_exact_line ts f o w in t = xadd ov u.
Proof. reflexivity. Qed.
