(* proofs/C14_mw.v -- AUC = Mann-Whitney probability (ties one half): the trapezoid area under the ROC points of an
   unweighted sample, with strictly increasing thresholds that contain every forecast value and end above the largest one. *)
From V Require Import lib.Tree lib.C08_aux gen.Gen_C08_discretise gen.Gen_C09_binary model.C08 model.C09 model.C14 proofs.C09 proofs.C14.
From Coq Require Import Morphisms Setoid.

(* ------------------------------------------------------------------------------------------ *)
(* the trapezoid sum as a bilinear form in (ordinate function, abscissa function) over a threshold list *)
(* ------------------------------------------------------------------------------------------ *)
Definition T (f g : Q -> Q) (ts : list Q) : Q := trapzQ (map f ts) (map g ts).

Lemma T_cons2 f g t0 t1 r : T f g (t0 :: t1 :: r) = (g t1 - g t0) * (f t1 + f t0) * (1 # 2) + T f g (t1 :: r).
Proof. reflexivity. Qed.
Lemma T_nil f g : T f g [] = 0. Proof. reflexivity. Qed.
Lemma T_one f g t : T f g [t] = 0. Proof. reflexivity. Qed.

Ltac T_ind ts := induction ts as [|t0 [|t1 r] IH]; [rewrite ?T_nil; try lra | rewrite ?T_one; try lra | rewrite ?T_cons2].

Lemma T_ext f f' g g' ts : (forall t, In t ts -> f t == f' t) -> (forall t, In t ts -> g t == g' t) -> T f g ts == T f' g' ts.
Proof.
  T_ind ts; intros Hf Hg; try reflexivity.
  rewrite IH; [| intros; apply Hf; right; auto | intros; apply Hg; right; auto].
  rewrite (Hf t0), (Hf t1), (Hg t0), (Hg t1) by (simpl; auto). reflexivity.
Qed.
Lemma T_add_f f1 f2 g ts : T (fun t => f1 t + f2 t) g ts == T f1 g ts + T f2 g ts.
Proof. T_ind ts. rewrite IH. ring. Qed.
Lemma T_add_g f g1 g2 ts : T f (fun t => g1 t + g2 t) ts == T f g1 ts + T f g2 ts.
Proof. T_ind ts. rewrite IH. ring. Qed.
Lemma T_scale_f c f g ts : T (fun t => f t * c) g ts == T f g ts * c.
Proof. T_ind ts. rewrite IH. ring. Qed.
Lemma T_scale_g c f g ts : T f (fun t => g t * c) ts == T f g ts * c.
Proof. T_ind ts. rewrite IH. ring. Qed.
Lemma T_zero_f g ts : T (fun _ => 0) g ts == 0.
Proof. T_ind ts. rewrite IH. ring. Qed.
Lemma T_zero_g f ts : T f (fun _ => 0) ts == 0.
Proof. T_ind ts. rewrite IH. ring. Qed.
(* abscissa constant on the list: no area *)
Lemma T_const_g f g c ts : (forall t, In t ts -> g t == c) -> T f g ts == 0.
Proof.
  intro H. rewrite (T_ext f f g (fun _ => c) ts); auto; try reflexivity.
  clear H. T_ind ts. rewrite IH. ring.
Qed.

Lemma T_sum_f (A : Type) (k : A -> Q -> Q) g (l : list A) ts :
  T (fun t => qsum (map (fun a => k a t) l)) g ts == qsum (map (fun a => T (k a) g ts) l).
Proof.
  induction l as [|a l IH]; cbn [map qsum]. apply T_zero_f.
  rewrite T_add_f, IH. reflexivity.
Qed.
Lemma T_sum_g (A : Type) (k : A -> Q -> Q) f (l : list A) ts :
  T f (fun t => qsum (map (fun a => k a t) l)) ts == qsum (map (fun a => T f (k a) ts) l).
Proof.
  induction l as [|a l IH]; cbn [map qsum]. apply T_zero_g.
  rewrite T_add_g, IH. reflexivity.
Qed.
Lemma qsum_ext (A : Type) (f g : A -> Q) l : (forall a, In a l -> f a == g a) -> qsum (map f l) == qsum (map g l).
Proof.
  induction l as [|a l IH]; intro H; cbn [map qsum]. reflexivity.
  rewrite (H a) by (left; auto). rewrite IH. reflexivity. intros; apply H; right; auto.
Qed.
Lemma qsum_scale (A : Type) (f : A -> Q) c l : qsum (map (fun a => f a * c) l) == qsum (map f l) * c.
Proof. induction l as [|a l IH]; cbn [map qsum]. ring. rewrite IH. ring. Qed.

(* ------------------------------------------------------------------------------------------ *)
(* one (event, non-event) pair                                                                 *)
(* ------------------------------------------------------------------------------------------ *)
Definition ind (v t : Q) : Q := if Qle_bool t v then 1 else 0.      (* 1 iff v >= t *)

Fixpoint strict (l : list Q) : Prop :=
  match l with a :: ((b :: _) as t) => a < b /\ strict t | _ => True end.
Definition InQ (x : Q) (l : list Q) : Prop := exists t, In t l /\ t == x.

Lemma strict_tail a l : strict (a :: l) -> strict l.
Proof. destruct l; simpl; tauto. Qed.
Lemma strict_hd_lt a l t : strict (a :: l) -> In t l -> a < t.
Proof.
  revert a. induction l as [|b l IH]; intros a S H. contradiction.
  destruct S as [Hab S]. destruct H as [<- | H]; auto. specialize (IH b S H). lra.
Qed.
Lemma ind_ge v t : t <= v -> ind v t = 1.
Proof. intro H. unfold ind. rewrite Qle_bool_true; auto. Qed.
Lemma ind_lt v t : v < t -> ind v t = 0.
Proof. intro H. unfold ind. rewrite Qle_bool_false; auto. Qed.

(* the pair lemma, in the form the induction over the threshold list needs: n is one of the thresholds but not the last,
   e is one of the thresholds or lies below all of them *)
Lemma pair_area ts : strict ts -> forall e n,
  InQ n ts -> n < last ts 0 -> (InQ e ts \/ e < hd 0 ts) ->
  - T (ind e) (ind n) ts == mw_pair e n.
Proof.
  induction ts as [|t0 [|t1 r] IH]; intros S e n Hn Hlast He.
  - destruct Hn as [t [[] _]].
  - destruct Hn as [t [[<- | []] E]]. simpl in Hlast. lra.
  - destruct S as [H01 S]. rewrite T_cons2.
    change (last (t0 :: t1 :: r) 0) with (last (t1 :: r) 0) in Hlast. cbn [hd] in He.
    destruct Hn as [t [[<- | Hin] En]].
    + (* n is the first threshold: the whole area of the pair sits in the first segment *)
      assert (Z : T (ind e) (ind n) (t1 :: r) == 0).
      { apply (T_const_g _ _ 0). intros t Ht. rewrite ind_lt. reflexivity.
        assert (t0 < t) by (apply (strict_hd_lt t0 (t1 :: r)); simpl; auto). lra. }
      rewrite Z. rewrite (ind_ge n t0) by lra. rewrite (ind_lt n t1) by lra.
      unfold mw_pair, Qltb.
      destruct He as [[t [[<- | Hin] Ee]] | Hlt].
      * rewrite (ind_ge e t0), (ind_lt e t1) by lra.
        rewrite Qle_bool_true by lra. cbn [negb]. rewrite (proj2 (Qeq_bool_iff e n)) by lra. lra.
      * assert (t0 < t) by (apply (strict_hd_lt t0 (t1 :: r)); simpl; auto).
        assert (t1 <= t). { destruct Hin as [<- | Hin]. lra. assert (t1 < t) by (apply (strict_hd_lt t1 r); auto). lra. }
        rewrite (ind_ge e t0), (ind_ge e t1) by lra. rewrite Qle_bool_false by lra. cbn [negb]. lra.
      * rewrite (ind_lt e t0), (ind_lt e t1) by lra. rewrite Qle_bool_true by lra. cbn [negb].
        assert (Qeq_bool e n = false) as -> by (destruct (Qeq_bool e n) eqn:E; auto; apply Qeq_bool_iff in E; lra). lra.
    + (* n is a later threshold: the first segment contributes nothing *)
      assert (t0 < t) by (apply (strict_hd_lt t0 (t1 :: r)); simpl; auto).
      assert (t1 <= t). { destruct Hin as [<- | Hin]. lra. assert (t1 < t) by (apply (strict_hd_lt t1 r); auto). lra. }
      rewrite (ind_ge n t0), (ind_ge n t1) by lra.
      rewrite <- (IH S e n); auto.
      * ring.
      * exists t. split; auto.
      * cbn [hd]. destruct He as [[t' [[<- | Hin'] Ee]] | Hlt]; [right; lra | left; exists t'; split; auto | right; lra].
Qed.

(* ------------------------------------------------------------------------------------------ *)
(* samples                                                                                     *)
(* ------------------------------------------------------------------------------------------ *)
Definition cnt_ge (l : list Q) (t : Q) : Q := qsum (map (fun v => ind v t) l).
Definition qlen (l : list Q) : Q := inject_Z (Z.of_nat (List.length l)).
(* trapezoid area under the points (POFD(t), POD(t)) = (#{n >= t}/|N|, #{e >= t}/|E|) *)
Definition rocQ (E N ts : list Q) : Q := - T (fun t => cnt_ge E t / qlen E) (fun t => cnt_ge N t / qlen N) ts.

Lemma qlen_pos l : l <> [] -> 0 < qlen l.
Proof. destruct l; [congruence|]. intros _. unfold qlen. cbn [List.length]. apply inject_nat_pos. Qed.

Theorem roc_area_is_mann_whitney E N ts :
  E <> [] -> N <> [] -> strict ts ->
  (forall v, In v E \/ In v N -> InQ v ts /\ v < last ts 0) ->
  rocQ E N ts == mw_sum E N / (qlen E * qlen N).
Proof.
  intros HE HN S Hv. pose proof (qlen_pos E HE). pose proof (qlen_pos N HN). unfold rocQ, mw_sum, cnt_ge.
  rewrite (T_ext _ (fun t => qsum (map (fun e => ind e t) E) * / qlen E) _ (fun t => qsum (map (fun n => ind n t) N) * / qlen N))
    by (intros; reflexivity).
  rewrite T_scale_f, T_scale_g, T_sum_f.
  rewrite (qsum_ext _ (fun e => T (ind e) (fun t => qsum (map (fun n => ind n t) N)) ts) (fun e => qsum (map (fun n => T (ind e) (ind n) ts) N)))
    by (intros; apply T_sum_g).
  assert (P : qsum (map (fun e => qsum (map (fun n => T (ind e) (ind n) ts) N)) E) ==
              - qsum (map (fun a => qsum (map (mw_pair a) N)) E)).
  { assert (G : forall l, (forall a, In a l -> In a E) ->
                 qsum (map (fun e => qsum (map (fun n => T (ind e) (ind n) ts) N)) l) == - qsum (map (fun a => qsum (map (mw_pair a) N)) l)).
    { induction l as [|e l IHl]; intro Hl; cbn [map qsum]. ring.
      rewrite IHl by (intros; apply Hl; right; auto).
      assert (G2 : forall l2, (forall b, In b l2 -> In b N) ->
                 qsum (map (fun n => T (ind e) (ind n) ts) l2) == - qsum (map (mw_pair e) l2)).
      { induction l2 as [|n l2 IH2]; intro Hl2; cbn [map qsum]. ring.
        rewrite IH2 by (intros; apply Hl2; right; auto).
        assert (In e E) by (apply Hl; left; auto). assert (In n N) by (apply Hl2; left; auto).
        rewrite <- (pair_area ts S e n); [ring | apply Hv; auto | apply Hv; auto | left; apply Hv; auto]. }
      rewrite G2 by auto. ring. }
    apply G. auto. }
  rewrite P. field. split; lra.
Qed.

(* ------------------------------------------------------------------------------------------ *)
(* from the code-structured AUC of a list of triples to the sample form                         *)
(* ------------------------------------------------------------------------------------------ *)
Lemma auc_value cells ts : Forall wf cells -> ~ d1 cells == 0 -> ~ d0 cells == 0 ->
  auc_at cells (map XFin ts) =x= XFin (- T (fun t => h1 cells t / d1 cells) (fun t => h0 cells t / d0 cells) ts).
Proof.
  intros F D1 D0. unfold auc_at, auc_of, T.
  rewrite (trapz_xeq _ _ _ _ (pods_fin cells ts F D1) (pofds_fin cells ts F D0)), trapz_fin. cbn [xmul xeq]. ring.
Qed.

(* forecast values of the valid cells whose observation is k *)
Definition fvals (k : Q) (cells : list triple) : list Q :=
  map (fun c => qv (t_f c)) (filter (fun c => tvalid c && obs_is k c) cells).
Definition unweighted (cells : list triple) : Prop := forall c, In c cells -> t_w c = XFin 1.
Definition finite_fc (cells : list triple) : Prop := forall c, In c cells -> tvalid c = true -> exists x, t_f c = XFin x.

Lemma class_counts k cells t : unweighted cells -> finite_fc cells ->
  wsum (fun c => tvalid c && obs_is k c && fc_ge t c) cells == cnt_ge (fvals k cells) t /\
  wsum (fun c => tvalid c && obs_is k c) cells == qlen (fvals k cells).
Proof.
  intros U Fi. induction cells as [|c l IH].
  - split; reflexivity.
  - destruct IH as [IH1 IH2]; [intros c' H; apply U; right; auto | intros c' H; apply Fi; right; auto |].
    unfold wsum, fvals, cnt_ge, qlen in *. cbn [map qsum filter].
    rewrite (U c (or_introl eq_refl)). cbn [qv].
    destruct (tvalid c) eqn:V; cbn [andb]; [| split; [rewrite IH1 | rewrite IH2]; ring].
    destruct (obs_is k c) eqn:O; cbn [andb]; [| split; [rewrite IH1 | rewrite IH2]; ring].
    destruct (Fi c (or_introl eq_refl) V) as [x Ex]. cbn [map qsum List.length]. split.
    + rewrite IH1. unfold fc_ge, ind. rewrite Ex. cbn [qv xge xle]. destruct (Qle_bool t x); ring.
    + rewrite IH2. rewrite Nat2Z.inj_succ. unfold Z.succ. rewrite inject_Z_plus. ring.
Qed.

(* auc_is_mann_whitney: unweighted sample with finite forecasts; thresholds strictly increasing, containing every forecast value
   of a valid event / non-event, the last one above all of them; both classes non-empty.  Then the AUC computed by the code's
   structure (discretise with >=, POD / POFD ratios, numpy trapezoid, negated) is the probability that a random event has a higher
   forecast than a random non-event, ties counting one half. *)
Theorem auc_is_mann_whitney cells ts :
  Forall wf cells -> unweighted cells -> finite_fc cells -> strict ts ->
  (forall v, In v (fvals 1 cells) \/ In v (fvals 0 cells) -> InQ v ts /\ v < last ts 0) ->
  fvals 1 cells <> [] -> fvals 0 cells <> [] ->
  auc_at cells (map XFin ts) =x= mann_whitney (fvals 1 cells) (fvals 0 cells).
Proof.
  intros F U Fi S Hv HE HN.
  pose proof (qlen_pos _ HE) as PE. pose proof (qlen_pos _ HN) as PN.
  assert (D1 : d1 cells == qlen (fvals 1 cells)) by (apply (class_counts 1 cells 0 U Fi)).
  assert (D0 : d0 cells == qlen (fvals 0 cells)) by (apply (class_counts 0 cells 0 U Fi)).
  rewrite auc_value; auto; try (intro Z; lra).
  unfold mann_whitney. fold (qlen (fvals 1 cells)) (qlen (fvals 0 cells)). rewrite ratio_nz by (intro Z; nra).
  cbn [xeq]. rewrite <- (roc_area_is_mann_whitney (fvals 1 cells) (fvals 0 cells) ts HE HN S Hv). unfold rocQ.
  apply Qopp_comp. apply T_ext; intros t _.
  - unfold h1. rewrite (proj1 (class_counts 1 cells t U Fi)), D1. reflexivity.
  - unfold h0. rewrite (proj1 (class_counts 0 cells t U Fi)), D0. reflexivity.
Qed.
