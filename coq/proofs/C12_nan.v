(* proofs/C12_nan.v -- NaN behaviour of the FIRM kernel, per output component. *)
From V Require Import lib.Tree lib.C12_aux gen.Gen_C12_kern model.C12.

(* case-split every comparison without recording facts (enough when only the NaN-ness of the result matters) *)
Ltac qsplit := repeat match goal with
  | |- context [Qle_bool ?u ?v] => destruct (Qle_bool u v)
  | |- context [Qeq_bool ?u ?v] => destruct (Qeq_bool u v)
  | |- context [Qcompare ?u ?v] => destruct (Qcompare u v) end.

(* NaN-iff for EVERY output component: NaN inputs give NaN penalties, never a zero penalty, and nothing else does *)
Lemma firm_nan_iff (s : string) (a : Q) (f o t d : xv) :
  xisinf f = false -> xisinf o = false -> xisinf t = false -> disc_ok d ->
  let '(tot, over, under) := gen_firm_single f o (XFin a) t d s in
  (tot = XNaN <-> f = XNaN \/ o = XNaN \/ t = XNaN) /\
  (over = XNaN <-> f = XNaN \/ o = XNaN \/ t = XNaN) /\
  (under = XNaN <-> f = XNaN \/ o = XNaN \/ t = XNaN).
Proof.
  intros Hf Ho Ht Hd. unfold gen_firm_single.
  destruct f as [|f|]; destruct o as [|o|]; destruct t as [|t|]; try discriminate;
  destruct d as [|d|[|]]; try contradiction; simpl in Hd;
  destruct (String.eqb s "lower"); xunf; cbn -[Qle_bool Qeq_bool Qcompare Qmult Qplus Qminus Qopp Qdiv Qinv]; qsplit;
  cbn -[Qmult Qplus Qminus Qopp Qdiv Qinv];
  repeat split; intros; try discriminate; auto;
  match goal with H : _ \/ _ |- _ => destruct H as [H|[H|H]]; discriminate end.
Qed.


