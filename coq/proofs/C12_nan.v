(* proofs/C12_nan.v -- NaN behaviour of the FIRM kernel, per output component, infinite values included. *)
From V Require Import lib.Tree lib.C12_aux gen.Gen_C12_kern model.C12 proofs.C12.

(* NaN-iff for EVERY output component: NaN inputs give NaN penalties, never a zero penalty, and nothing else does --
   in particular not an infinite forecast, observation or threshold (round 4: infinite values are inside the statement) *)
Lemma firm_nan_iff (s : string) (a : Q) (f o t d : xv) :
  0 < a < 1 -> disc_ok d ->
  let '(tot, over, under) := gen_firm_single f o (XFin a) t d s in
  (tot = XNaN <-> f = XNaN \/ o = XNaN \/ t = XNaN) /\
  (over = XNaN <-> f = XNaN \/ o = XNaN \/ t = XNaN) /\
  (under = XNaN <-> f = XNaN \/ o = XNaN \/ t = XNaN).
Proof.
  intros Ha Hd. unfold gen_firm_single.
  destruct f as [|f|[|]]; destruct o as [|o|[|]]; destruct t as [|t|[|]];
  destruct d as [|d|[|]]; try contradiction; simpl in Hd;
  destruct (String.eqb s "lower"); xunf; cbn -[Qle_bool Qeq_bool Qcompare Qmult Qplus Qminus Qopp Qdiv Qinv]; qcmpx;
  cbn -[Qmult Qplus Qminus Qopp Qdiv Qinv]; qcmpx; cbn -[Qmult Qplus Qminus Qopp Qdiv Qinv];
  repeat split; intros; try discriminate; auto;
  match goal with H : _ \/ _ |- _ => destruct H as [H|[H|H]]; discriminate end.
Qed.

(* the "if" direction needs no hypothesis at all: a NaN forecast, observation or threshold makes all three outputs NaN for
   every risk parameter and discount distance (finite, infinite or NaN) *)
Lemma xmul_nan_r a : xmul a XNaN = XNaN.
Proof. destruct a as [| |[|]]; reflexivity. Qed.
Lemma firm_nan_in (s : string) (a f o t d : xv) :
  f = XNaN \/ o = XNaN \/ t = XNaN -> gen_firm_single f o a t d s = (XNaN, XNaN, XNaN).
Proof.
  intro H. unfold gen_firm_single. destruct (String.eqb s "lower"); destruct (xnev d (XFin (0 # 1)));
  destruct H as [H | [H | H]]; subst; unfold xwhere, xisnan, negb;
  repeat match goal with |- context [match ?x with XNaN => _ | _ => _ end] => destruct x end;
  rewrite ?xmul_nan_r; reflexivity.
Qed.
